/-
C18: verifiers fail cleanly on malformed input (first increment): the PLONK-level shape validation
of the model never panics on a structurally arbitrary proof (after the repair of F-C18-1), a proof
of wrong shape is rejected with an error — never accepted — and the historical witness of F-C18-1.
-/
import P2.Model.Plonk
import P2.Props.C03
namespace P2.Props.C18
open P2 P2.Plonk
open P2.Fri (Verdict firstBad log2Strict)

theorem capCheck_not_panic (h : Nat) (cap : List Merkle.Digest) (s : String) : capCheck h cap ≠ .panic s := by
  unfold capCheck; split <;> simp

theorem lenCheck_not_panic (b : Bool) (st s : String) : lenCheck b st ≠ .panic s := by
  unfold lenCheck; split <;> simp

theorem firstBad_not_panic (vs : List Verdict) (h : ∀ v ∈ vs, ∀ s, v ≠ .panic s) :
    ∀ s, firstBad vs ≠ .panic s := by
  induction vs with
  | nil => intro s; simp [firstBad]
  | cons v rest ih =>
    intro s
    cases v with
    | accept => simp only [firstBad]; exact ih (fun v hv => h v (List.mem_cons_of_mem _ hv)) s
    | reject t => simp [firstBad]
    | panic t => exact absurd rfl (h (.panic t) (List.mem_cons_self) t)

/-- **Shape validation is total and panic-free** for every structurally arbitrary proof value
(any list lengths, any cap lengths incl. 0 and non powers of two). -/
theorem validateShape_never_panics (c : CommonData) (pp : ProofWithPis) (s : String) :
    validateShape c pp ≠ .panic s := by
  unfold validateShape
  apply firstBad_not_panic
  intro v hv t
  simp only [shapeChecks, List.mem_cons, List.mem_nil_iff, or_false] at hv
  rcases hv with h | h | h | h | h | h | h | h | h | h | h | h | h <;> subst h <;>
    first | exact capCheck_not_panic _ _ _ | exact lenCheck_not_panic _ _ _

/-- a proof whose shape check fails is rejected by `verify` with an error, never accepted and never a panic -/
theorem bad_shape_is_clean_error (c : CommonData) (vd : VerifierOnly) (pp : ProofWithPis)
    (h : validateShape c pp ≠ .accept) :
    ∃ stage, Plonk.verify c vd pp = .reject stage := by
  unfold Plonk.verify
  cases hs : validateShape c pp with
  | accept => exact absurd hs h
  | reject s => exact ⟨s, rfl⟩
  | panic s => exact absurd hs (validateShape_never_panics c pp s)

/-- the witness of F-C18-1 (repaired in /repo): a cap of length 3 has no `log2_strict`, which is
where `MerkleCap::height()` used to panic inside shape validation -/
example : log2Strict 3 = none ∧ log2Strict 0 = none ∧ log2Strict 4 = some 2 := by decide

end P2.Props.C18
