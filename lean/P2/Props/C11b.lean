/-
C11b: the final-polynomial tail bound of the variable-degree in-circuit FRI verifier (repair of
finding F-C11-3). The mask `in_use` the circuit computes for coefficient block `t` is exactly
`[t < r]` with `r = d − (arities of the active reduction steps)` — the number of bits of the final
polynomial the native shape validation enforces for a proof of `2^d` rows — so the new constraints
hold iff every coefficient at a position `≥ 2^r` is zero.
Core Lean only.
-/
import P2.Model.FriTail
import P2.Props.C11
namespace P2.Props.C11b
open P2 P2.FriTail

/-! ## prefix sums, step bits -/

theorem prefixSum_mono (arities : List Nat) {m m' : Nat} (h : m' ≤ m) :
    prefixSum arities m' ≤ prefixSum arities m := by
  unfold prefixSum
  induction arities generalizing m m' with
  | nil => simp
  | cons a as ih =>
    cases m' with
    | zero => simp
    | succ m' =>
      cases m with
      | zero => omega
      | succ m =>
        simp only [List.take_succ_cons, List.sum_cons]
        have := ih (m := m) (m' := m') (by omega)
        omega

theorem stepBit_mono (dmax : Nat) (arities : List Nat) {m m' : Nat} (h : m' ≤ m) :
    stepBit dmax arities m' ≤ stepBit dmax arities m := by
  unfold stepBit
  have := prefixSum_mono arities h
  omega

theorem prefixSum_succ (arities : List Nat) (m : Nat) (hm : m < arities.length) :
    prefixSum arities (m + 1) = prefixSum arities m + arities[m] := by
  unfold prefixSum
  induction arities generalizing m with
  | nil => simp at hm
  | cons a as ih =>
    cases m with
    | zero => simp
    | succ m =>
      simp only [List.take_succ_cons, List.sum_cons, List.getElem_cons_succ]
      have := ih m (by simpa using hm)
      omega

theorem prefixSum_le_sum (arities : List Nat) (m : Nat) : prefixSum arities m ≤ arities.sum := by
  unfold prefixSum
  induction arities generalizing m with
  | nil => simp
  | cons a as ih =>
    cases m with
    | zero => simp
    | succ m =>
      simp only [List.take_succ_cons, List.sum_cons]
      have := ih m
      omega

/-- the indices the Rust code reads `degree_sub_one_bits_vec` at are in range (no panic at build
time): with positive arities whose sum is at most `dmax`, `step_bit[m] < dmax` -/
theorem stepBit_lt_dmax (dmax : Nat) (arities : List Nat) (m : Nat) (hsum : arities.sum ≤ dmax)
    (hpos : ∀ a ∈ arities, 0 < a) (hm : m < arities.length) : stepBit dmax arities m < dmax := by
  unfold stepBit
  have h1 := prefixSum_succ arities m hm
  have h2 := prefixSum_le_sum arities (m + 1)
  have h3 := hpos arities[m] (List.getElem_mem hm)
  omega

/-! ## 1. the active steps are a prefix of the schedule -/

theorem active_prefix (dmax : Nat) (arities : List Nat) (d m m' : Nat)
    (h : active dmax arities d m = true) (hm : m' ≤ m) : active dmax arities d m' = true := by
  simp only [active, bit, Bool.and_eq_true, decide_eq_true_eq] at h ⊢
  have := stepBit_mono dmax arities hm
  omega

/-- counting a downward-closed predicate on `0..n` -/
theorem lt_countP_range_iff (p : Nat → Bool) (hp : ∀ m m', p m = true → m' ≤ m → p m' = true) :
    ∀ n m, m < (List.range n).countP p ↔ (m < n ∧ p m = true) := by
  intro n
  induction n with
  | zero => intro m; simp
  | succ n ih =>
    intro m
    rw [List.range_succ, List.countP_append]
    by_cases hn : p n = true
    · have hall : ∀ k, k < n → p k = true := fun k hk => hp n k hn (by omega)
      have hc : (List.range n).countP p = n := by
        have h1 := ih ((List.range n).countP p)
        have h2 := ih n
        by_cases hlt : (List.range n).countP p < n
        · have := h1.2 ⟨hlt, hall _ hlt⟩
          omega
        · by_cases hgt : n < (List.range n).countP p
          · have := (h2.1 hgt).1
            omega
          · omega
      have h1 : List.countP p [n] = 1 := by simp [hn]
      rw [hc, h1]
      constructor
      · intro h
        refine ⟨by omega, ?_⟩
        exact hp n m hn (by omega)
      · intro h; omega
    · have h1 : List.countP p [n] = 0 := by simp [hn]
      rw [h1, Nat.add_zero, ih m]
      constructor
      · intro ⟨h1, h2⟩; exact ⟨by omega, h2⟩
      · intro ⟨h1, h2⟩
        refine ⟨?_, h2⟩
        by_cases hmn : m = n
        · subst hmn; exact absurd h2 hn
        · omega

/-- step `m` is active iff it is among the first `numActive` -/
theorem lt_numActive_iff (dmax : Nat) (arities : List Nat) (d m : Nat) :
    m < numActive dmax arities d ↔ active dmax arities d m = true := by
  unfold numActive
  rw [lt_countP_range_iff _ (fun m m' h hm => active_prefix dmax arities d m m' h hm)]
  constructor
  · intro h; exact h.2
  · intro h
    refine ⟨?_, h⟩
    simp only [active, Bool.and_eq_true, decide_eq_true_eq] at h
    exact h.1

theorem numActive_le (dmax : Nat) (arities : List Nat) (d : Nat) :
    numActive dmax arities d ≤ arities.length := by
  cases hN : numActive dmax arities d with
  | zero => omega
  | succ N =>
    have h := (lt_numActive_iff dmax arities d N).1 (by omega)
    simp only [active, Bool.and_eq_true, decide_eq_true_eq] at h
    omega

/-! ## 2. exactly one `exactly_first[m]` is on -/

theorem exactlyFirst_iff (dmax : Nat) (arities : List Nat) (d m : Nat) (hm : m ≤ arities.length) :
    exactlyFirst dmax arities d m = true ↔ m = numActive dmax arities d := by
  have hle := numActive_le dmax arities d
  have hprev := lt_numActive_iff dmax arities d (m - 1)
  have hnext := lt_numActive_iff dmax arities d m
  simp only [active, Bool.and_eq_true, decide_eq_true_eq] at hprev hnext
  simp only [exactlyFirst, Bool.and_eq_true, Bool.or_eq_true, decide_eq_true_eq,
    Bool.not_eq_true']
  constructor
  · intro ⟨h1, h2⟩
    have hlow : m ≤ numActive dmax arities d := by
      cases h1 with
      | inl h => omega
      | inr h =>
        by_cases h0 : m = 0
        · omega
        · have := hprev.2 ⟨by omega, h⟩
          omega
    have hhigh : ¬ m < numActive dmax arities d := by
      intro hlt
      cases h2 with
      | inl h => omega
      | inr h =>
        have := (hnext.1 hlt).2
        rw [this] at h
        exact Bool.noConfusion h
    omega
  · intro he
    constructor
    · by_cases h0 : m = 0
      · exact Or.inl h0
      · exact Or.inr (hprev.1 (by omega)).2
    · by_cases hl : m = arities.length
      · exact Or.inl hl
      · refine Or.inr ?_
        cases hb : bit d (stepBit dmax arities m) with
        | false => rfl
        | true =>
          have := hnext.2 ⟨by omega, hb⟩
          omega

/-- exactly one `m ∈ 0..=len` is selected -/
theorem exactlyFirst_unique (dmax : Nat) (arities : List Nat) (d : Nat) :
    ∃ m, m ≤ arities.length ∧ exactlyFirst dmax arities d m = true ∧
      ∀ m', m' ≤ arities.length → exactlyFirst dmax arities d m' = true → m' = m :=
  ⟨numActive dmax arities d, numActive_le dmax arities d,
    (exactlyFirst_iff dmax arities d _ (numActive_le dmax arities d)).2 rfl,
    fun m' hm' h => (exactlyFirst_iff dmax arities d m' hm').1 h⟩

/-! ## 3. the mask -/

/-- a sum of indicator terms of which only the `N`-th can be non-zero -/
theorem sum_range_single (f : Nat → Nat) (N : Nat) :
    ∀ n, (∀ m, m < n → m ≠ N → f m = 0) →
      ((List.range n).map f).sum = if N < n then f N else 0 := by
  intro n
  induction n with
  | zero => simp
  | succ n ih =>
    intro hf'
    have hf : ∀ m, m < n + 1 → m ≠ N → f m = 0 := hf'
    rw [List.range_succ, List.map_append, List.sum_append, ih (fun m hm => hf' m (by omega))]
    simp only [List.map_cons, List.map_nil, List.sum_cons, List.sum_nil, Nat.add_zero]
    by_cases h1 : N < n
    · have : f n = 0 := hf n (by omega) (by omega)
      have h2 : N < n + 1 := by omega
      simp [h1, h2, this]
    · by_cases h2 : N = n
      · subst h2; simp
      · have : f n = 0 := hf n (by omega) (by omega)
        have h3 : ¬ N < n + 1 := by omega
        simp [h1, h3, this]

/-- **the mask the circuit computes is `[t < r]`**, `r = finalBits` -/
theorem inUse_eq (dmax : Nat) (arities : List Nat) (d t : Nat) (hd : d ≤ dmax) :
    inUse dmax arities d t = if t < finalBits dmax arities d then 1 else 0 := by
  have hle := numActive_le dmax arities d
  unfold inUse
  rw [sum_range_single (inUseTerm dmax arities d t) (numActive dmax arities d)]
  · rw [if_pos (by omega)]
    have hef := (exactlyFirst_iff dmax arities d (numActive dmax arities d) hle).2 rfl
    unfold inUseTerm finalBits
    simp only [hef, Bool.true_and, bit, decide_eq_true_eq]
    by_cases h : t + prefixSum arities (numActive dmax arities d) < d
    · have h1 : t + prefixSum arities (numActive dmax arities d) < dmax := by omega
      have h2 : t < d - prefixSum arities (numActive dmax arities d) := by omega
      simp [h, h1, h2]
    · have h2 : ¬ t < d - prefixSum arities (numActive dmax arities d) := by omega
      simp [h, h2]
  · intro m hml hm
    unfold inUseTerm
    have : exactlyFirst dmax arities d m = false := by
      cases he : exactlyFirst dmax arities d m with
      | false => rfl
      | true => exact absurd ((exactlyFirst_iff dmax arities d m (by omega)).1 he) hm
    simp [this]

/-- the mask is a bit, so `unused = 1 − in_use` is the complementary bit -/
theorem inUse_le_one (dmax : Nat) (arities : List Nat) (d t : Nat) (hd : d ≤ dmax) :
    inUse dmax arities d t ≤ 1 := by
  rw [inUse_eq dmax arities d t hd]
  split <;> omega

theorem inUse_ne_one_iff (dmax : Nat) (arities : List Nat) (d t : Nat) (hd : d ≤ dmax) :
    inUse dmax arities d t ≠ 1 ↔ finalBits dmax arities d ≤ t := by
  rw [inUse_eq dmax arities d t hd]
  by_cases h : t < finalBits dmax arities d
  · simp only [h, if_true]; omega
  · simp only [h, if_false]; omega

/-! ## 4. which coefficients are forced to zero -/

/-- position `j ≥ 1` is forced to zero iff `2^r ≤ j` -/
theorem tail_forced_zero_iff (dmax : Nat) (arities : List Nat) (d j : Nat) (hd : d ≤ dmax)
    (hj : 1 ≤ j) :
    forcedZero dmax arities d j = true ↔ 2 ^ finalBits dmax arities d ≤ j := by
  unfold forcedZero
  simp only [Bool.and_eq_true, decide_eq_true_eq]
  rw [inUse_ne_one_iff dmax arities d _ hd, Nat.le_log2 (by omega)]
  constructor
  · intro h; exact h.2
  · intro h; exact ⟨hj, h⟩

/-- position 0 is never forced -/
theorem forcedZero_zero (dmax : Nat) (arities : List Nat) (d : Nat) :
    forcedZero dmax arities d 0 = false := by
  simp [forcedZero]

/-- **the new constraints hold iff the final polynomial has no non-zero coefficient at a position
`≥ 2^r`** (within the `2^maxFinalBits` coefficients the circuit carries) -/
theorem tailConstraints_iff {K : Type} (zero : K) (dmax : Nat) (arities : List Nat) (d : Nat)
    (coeffs : List K) (hd : d ≤ dmax) :
    tailConstraints zero dmax arities d coeffs ↔
      ∀ j, 2 ^ finalBits dmax arities d ≤ j → j < 2 ^ maxFinalBits dmax arities →
        coeffs.getD j zero = zero := by
  unfold tailConstraints
  constructor
  · intro h j hlo hhi
    have hpos : 0 < 2 ^ finalBits dmax arities d := Nat.pow_pos (by omega)
    have hj0 : j ≠ 0 := by omega
    refine h (Nat.log2 j) ((Nat.log2_lt hj0).2 hhi) j (Nat.log2_self_le hj0) Nat.lt_log2_self ?_
    rw [inUse_ne_one_iff dmax arities d _ hd, Nat.le_log2 hj0]
    exact hlo
  · intro h t ht j hlo hhi hu
    rw [inUse_ne_one_iff dmax arities d _ hd] at hu
    have h1 : 2 ^ finalBits dmax arities d ≤ 2 ^ t := Nat.pow_le_pow_right (by omega) hu
    have h2 : 2 ^ (t + 1) ≤ 2 ^ maxFinalBits dmax arities := Nat.pow_le_pow_right (by omega) ht
    exact h j (by omega) (by omega)

/-- in particular a proof of the largest degree (`d = dmax`, every step active when
`arities.sum ≤ dmax` and the arities are positive) is not constrained at all by the new block:
`r = maxFinalBits` -/
theorem finalBits_full (dmax : Nat) (arities : List Nat) (hsum : arities.sum ≤ dmax)
    (hpos : ∀ a ∈ arities, 0 < a) :
    finalBits dmax arities dmax = maxFinalBits dmax arities := by
  have hN : numActive dmax arities dmax = arities.length := by
    have hle := numActive_le dmax arities dmax
    cases hl : arities.length with
    | zero => omega
    | succ n =>
      have hact : active dmax arities dmax n = true := by
        simp only [active, bit, Bool.and_eq_true, decide_eq_true_eq]
        exact ⟨by omega, stepBit_lt_dmax dmax arities n hsum hpos (by omega)⟩
      have := (lt_numActive_iff dmax arities dmax n).2 hact
      omega
  unfold finalBits maxFinalBits
  rw [hN]
  unfold prefixSum
  rw [List.take_length]

/-! ## 5. link to the native `ConstantArityBits` schedule -/

theorem sum_replicate (k a : Nat) : (List.replicate k a).sum = k * a := by
  induction k with
  | zero => simp
  | succ k ih => rw [List.replicate_succ, List.sum_cons, ih, Nat.succ_mul]; omega

theorem prefixSum_replicate (k a m : Nat) : prefixSum (List.replicate k a) m = min m k * a := by
  unfold prefixSum
  rw [List.take_replicate, sum_replicate]

/-- for the circuit's own `ConstantArityBits(a, f)` schedule (`k` steps, `dmax = f + 1 + k·a`), the
number of active steps of a proof of `2^d` rows is the native number of reductions -/
theorem numActive_constantArity (a f k d : Nat) (ha : 1 ≤ a) (hd : d ≤ f + 1 + k * a) :
    numActive (f + 1 + k * a) (List.replicate k a) d = C11.numSteps a f d := by
  have hk : C11.numSteps a f d ≤ k := by
    have := C11.lt_numSteps_iff a f d k ha
    omega
  have key : ∀ m, m < numActive (f + 1 + k * a) (List.replicate k a) d ↔ m < C11.numSteps a f d := by
    intro m
    rw [lt_numActive_iff, C11.lt_numSteps_iff a f d m ha]
    simp only [active, bit, stepBit, Bool.and_eq_true, decide_eq_true_eq, List.length_replicate,
      sum_replicate, prefixSum_replicate]
    constructor
    · intro ⟨h1, h2⟩
      rw [Nat.min_eq_left (by omega)] at h2
      omega
    · intro h
      have hm : m < k := by
        have := (C11.lt_numSteps_iff a f d m ha).2 h
        omega
      rw [Nat.min_eq_left (by omega)]
      exact ⟨hm, by omega⟩
  have h1 := key (numActive (f + 1 + k * a) (List.replicate k a) d)
  have h2 := key (C11.numSteps a f d)
  omega

/-- **`finalBits` is the native final-polynomial size**: under the hypotheses of
`C11.constantArityBits_var`, the native schedule for `2^d` rows is some `l` and the native
`final_poly_bits = d − Σ l` equals the `r` the circuit's mask encodes -/
theorem finalBits_eq_native_partial (a f rate cap k fuel d : Nat) (ha : 1 ≤ a) (haf : a ≤ f + 2)
    (hr : 1 ≤ rate) (hcap : cap + a = f + 2 + rate) (hfuel : d ≤ fuel) (hd : d ≤ f + 1 + k * a) :
    ∃ l, Fri.constantArityBits a f rate cap fuel d = some l ∧
      finalBits (f + 1 + k * a) (List.replicate k a) d = d - l.sum := by
  refine ⟨_, C11.constantArityBits_var a f rate cap ha haf hr hcap fuel d hfuel, ?_⟩
  have hk : C11.numSteps a f d ≤ k := by
    have := C11.lt_numSteps_iff a f d k ha
    omega
  unfold finalBits
  rw [numActive_constantArity a f k d ha hd, prefixSum_replicate, sum_replicate,
    Nat.min_eq_left hk]

/-! ## non-vacuity: `dmax = 14`, `arities = [4, 4]` (so `maxFinalBits = 6`, step bits 6 and 10) -/

example : stepBit 14 [4, 4] 0 = 6 ∧ stepBit 14 [4, 4] 1 = 10 := by decide
example : (List.map (numActive 14 [4, 4]) [4, 5, 6, 7, 9, 10, 11, 14]) = [0, 0, 0, 1, 1, 1, 2, 2] := by
  decide
example : finalBits 14 [4, 4] 4 = 4 := by decide
example : finalBits 14 [4, 4] 5 = 5 := by decide
example : finalBits 14 [4, 4] 6 = 6 := by decide
example : finalBits 14 [4, 4] 7 = 3 := by decide
example : finalBits 14 [4, 4] 9 = 5 := by decide
example : finalBits 14 [4, 4] 10 = 6 := by decide
example : finalBits 14 [4, 4] 11 = 3 := by decide
example : finalBits 14 [4, 4] 14 = 6 := by decide
-- the mask, block by block (`t = 0..5`)
example : (List.range 6).map (inUse 14 [4, 4] 4) = [1, 1, 1, 1, 0, 0] := by decide
example : (List.range 6).map (inUse 14 [4, 4] 7) = [1, 1, 1, 0, 0, 0] := by decide
example : (List.range 6).map (inUse 14 [4, 4] 9) = [1, 1, 1, 1, 1, 0] := by decide
example : (List.range 6).map (inUse 14 [4, 4] 11) = [1, 1, 1, 0, 0, 0] := by decide
example : (List.range 6).map (inUse 14 [4, 4] 14) = [1, 1, 1, 1, 1, 1] := by decide
example : (List.range 4).map (exactlyFirst 14 [4, 4] 9) = [false, true, false, false] := by decide
-- `d = 7`: `r = 3`, positions 8.. are forced, 0..7 are free
example : (List.range 12).map (forcedZero 14 [4, 4] 7)
    = [false, false, false, false, false, false, false, false, true, true, true, true] := by decide
-- a final polynomial with a non-zero coefficient at position 8 violates the constraints for
-- `d = 7` (this is the F-C11-3 witness shape) and satisfies them for `d = 9` (`r = 5`)
example : ¬ tailConstraints (0 : Nat) 14 [4, 4] 7 [1, 1, 1, 1, 1, 1, 1, 1, 5] := by
  intro h
  exact absurd (h 3 (by decide) 8 (by decide) (by decide) (by decide)) (by decide)
example : tailConstraints (0 : Nat) 14 [4, 4] 9 [1, 1, 1, 1, 1, 1, 1, 1, 5] := by
  rw [tailConstraints_iff _ _ _ _ _ (by decide)]
  intro j hlo hhi
  have e : finalBits 14 [4, 4] 9 = 5 := by decide
  rw [e] at hlo
  have hl : ¬ j < [1, 1, 1, 1, 1, 1, 1, 1, 5].length := by simp; omega
  simp [List.getD, List.getElem?_eq_none (Nat.le_of_not_lt hl)]
-- the native link, instantiated: `ConstantArityBits(4, 5)`, `rate_bits = 3`, `cap_height = 6`
example : Fri.constantArityBits 4 5 3 6 16 9 = some [4] ∧ finalBits 14 [4, 4] 9 = 9 - [4].sum := by
  decide

end P2.Props.C11b
