/-
GL2Inst: the field-generic theorems of C05b (FRI fold / opening combination), C10b (logUp), C02b
(partial products, selector filters) and C07b (gates) INSTANTIATED at the model's own extension
field `GL2` (resp. base field `GL`), following Section 5 of `P2.Props.GL2Field`.

NO local instance is active anywhere in this file: every `+ * -` on `GL2` below is the operation of
the model's `instFOpsGL2` (`GL2.add/mul/sub`), `FOps.inv` is `GL2.inv`, `FOps.pow` the model's
square-and-multiply, `FOps.sum/prod` the model's left folds, `FOps.reduceWithPowers`/`Fri.reduceExt`
the model's Horner loop, `Poly.eval`/`Poly.divideByLinear`/`Poly.lagrangeEval` the model's list
polynomials; on `GL = Fin GLP` the operations are those of `Fin`. No statement mentions `Field`,
`FOps.ofField`, `gl2Field` or `glField` (checked mechanically, see the final report); the Mathlib
field structure occurs in the proofs only (`P2.Lemmas.GL2Inst`).

Polynomials are given by coefficient lists (low degree first) and evaluated by the model's
`Poly.eval`; the FRI split `P(w) = Σ_{i<r} w^i · P_i(w^r)` of the polynomial with parts
`Ps = [P_0, …, P_{r−1}]` is `reduceWithPowers (Ps.map fun c => Poly.eval c (pow w r)) w`, and the
prover's fold `(Σ_i β^i P_i)(y)` is `reduceWithPowers (Ps.map fun c => Poly.eval c y) β`.

 (i)   C05b: `lagrangeEval_fold_identity_pow2`, `lagrangeEval_fold_layer_complete`,
       `computeEvaluation_fold`, `computeEvaluation_fold_coeffs` (the model's
       `Fri.computeEvaluation`), `combine_identity_lists`,
       `combine_soundness`, `combine_soundness_quotient`;
 (ii)  C10b: `helper_pair_constraint_iff`, `helper_pair_iff`, `running_constraint_iff`,
       `running_sum_telescopes`, `logup_running_sum`;
 (iii) C02b: `checkPartialProducts_sound`, `checkPartialProducts_complete`,
       `computeFilter_eq_zero_iff`, `filters_disjoint`;
 (iv)  C07b at `GL`: `arithmetic_sat_iff`, `baseSum_sat_unique`, `baseSum_pinned_sat`,
       `exponentiation_semantics`.
-/
import P2.Lemmas.GL2Inst
import P2.Props.GL2Field
namespace P2.Props.GL2Inst
open P2 P2.Gates P2.Lemmas.C07

local notation "L.gl2Field" => Lemmas.GL2Field.gl2Field
local notation "L.bridge" => Lemmas.GL2Field.fops_GL2_eq

/-! ## (i) FRI — C05b at `K := GL2` -/

/-- C05b `fold_identity_pow2` for the model's `Poly.lagrangeEval` on `GL2`, on the model's coset
`s·⟨g⟩`, `g = primitive_root_of_unity(a)` embedded by `GL2.ofBase`: interpolating the values of
`P = Σ_i X^i P_i(X^r)` (`r = 2^a`) on the coset and evaluating at `β` gives the fold
`(Σ_i β^i P_i)(s^r)` -/
theorem lagrangeEval_fold_identity_pow2 (a : ℕ) (ha : a ≤ 32) (s : P2.GL) (hs : s ≠ 0)
    (Ps : List (List GL2)) (hlen : Ps.length = 2 ^ a) (β : GL2) :
    Poly.lagrangeEval ((List.range (2 ^ a)).map fun j =>
        (GL2.ofBase (s * GL.pow (GL.primitiveRoot a) j),
          FOps.reduceWithPowers (Ps.map fun c => Poly.eval c
            (FOps.pow (GL2.ofBase (s * GL.pow (GL.primitiveRoot a) j)) (2 ^ a)))
            (GL2.ofBase (s * GL.pow (GL.primitiveRoot a) j)))) β
      = FOps.reduceWithPowers (Ps.map fun c => Poly.eval c (GL2.ofBase (GL.pow s (2 ^ a)))) β :=
  Lemmas.GL2Inst.m_fold_identity_pow2 a ha s hs Ps hlen β

/-- C05b `fold_layer_complete` for the model's `Poly.lagrangeEval` on `GL2`: the verifier is handed
coset evaluations `ev` (natural order); if they are the values of `P`, interpolation at `β` gives
the value at `s^(2^a)` of the prover's next-layer polynomial -/
theorem lagrangeEval_fold_layer_complete (a : ℕ) (ha : a ≤ 32) (s : P2.GL) (hs : s ≠ 0)
    (Ps : List (List GL2)) (hlen : Ps.length = 2 ^ a) (β : GL2) (ev : List GL2)
    (hev : ∀ j, j < 2 ^ a → ev.getD j GL2.zero =
      FOps.reduceWithPowers (Ps.map fun c => Poly.eval c
        (FOps.pow (GL2.ofBase (s * GL.pow (GL.primitiveRoot a) j)) (2 ^ a)))
        (GL2.ofBase (s * GL.pow (GL.primitiveRoot a) j))) :
    Poly.lagrangeEval ((List.range (2 ^ a)).map fun i =>
        (GL2.ofBase (s * GL.pow (GL.primitiveRoot a) i), ev.getD i GL2.zero)) β
      = FOps.reduceWithPowers (Ps.map fun c => Poly.eval c (GL2.ofBase (GL.pow s (2 ^ a)))) β :=
  Lemmas.GL2Inst.m_fold_layer_complete a ha s hs Ps hlen β ev hev

/-- **the FRI folding identity for the model's `Fri.computeEvaluation`** (`compute_evaluation`,
with its bit-reversal, its coset start `x·g^(arity − rev(k))` and its "β is an interpolation
point" shortcut): if the `2^ab` (bit-reversed) evaluations the verifier is handed are the values on
the coset of `P = Σ_i X^i P_i(X^arity)`, the result is `(Σ_i β^i P_i)(x^arity)` — the value of the
prover's folded polynomial at the point `GL.pow x arity` with which `Fri.stepsFrom` continues.
Holds for every `β` and every index `k` (no hypothesis `k < 2^ab`). -/
theorem computeEvaluation_fold (ab : ℕ) (hab : ab ≤ 32) (x : P2.GL) (hx : x ≠ 0) (k : ℕ)
    (Ps : List (List GL2)) (hlen : Ps.length = 2 ^ ab) (β : GL2) (evals : List GL2)
    (hev : ∀ j, j < 2 ^ ab → evals.getD (BitRev.bitrev ab j) GL2.zero =
      FOps.reduceWithPowers (Ps.map fun c => Poly.eval c
        (FOps.pow (GL2.ofBase (x * GL.pow (GL.primitiveRoot ab) (2 ^ ab - BitRev.bitrev ab k)
          * GL.pow (GL.primitiveRoot ab) j)) (2 ^ ab)))
        (GL2.ofBase (x * GL.pow (GL.primitiveRoot ab) (2 ^ ab - BitRev.bitrev ab k)
          * GL.pow (GL.primitiveRoot ab) j))) :
    Fri.computeEvaluation x k ab evals β
      = FOps.reduceWithPowers
          (Ps.map fun c => Poly.eval c (GL2.ofBase (GL.pow x (2 ^ ab)))) β :=
  Lemmas.GL2Inst.m_computeEvaluation_fold ab hab x hx k Ps hlen β evals hev

/-- **completeness of one FRI layer for the model's `Fri.computeEvaluation`, for an arbitrary
polynomial** (C05b `fold_layer_complete_any`, with the folded polynomial made explicit): `P` is
given by ONE coefficient list `c` of length `≤ d·arity`; if the verifier is handed the values of `P`
on the coset, `compute_evaluation` returns the value at `x^arity` of the polynomial of length `d`
whose `m`-th coefficient is `reduce_with_powers(c[m·arity .. (m+1)·arity], β)` — the coefficient list
the plonky2 prover computes (`coeffs.chunks_exact(arity).map(|chunk| reduce_with_powers(chunk,
beta))`). The degree bound is divided by the arity. -/
theorem computeEvaluation_fold_coeffs (ab : ℕ) (hab : ab ≤ 32) (x : P2.GL) (hx : x ≠ 0) (k : ℕ)
    (c : List GL2) (d : ℕ) (hd : 0 < d) (hc : c.length ≤ d * 2 ^ ab) (β : GL2) (evals : List GL2)
    (hev : ∀ j, j < 2 ^ ab → evals.getD (BitRev.bitrev ab j) GL2.zero =
      Poly.eval c (GL2.ofBase (x * GL.pow (GL.primitiveRoot ab) (2 ^ ab - BitRev.bitrev ab k)
        * GL.pow (GL.primitiveRoot ab) j))) :
    Fri.computeEvaluation x k ab evals β
      = Poly.eval ((List.range d).map fun m => FOps.reduceWithPowers
          ((List.range (2 ^ ab)).map fun i => c.getD (i + 2 ^ ab * m) GL2.zero) β)
          (GL2.ofBase (GL.pow x (2 ^ ab))) :=
  Lemmas.GL2Inst.m_computeEvaluation_fold_coeffs ab hab x hx k c d hd hc β evals hev

/-- C05b `combine_identity_lists` at `K := GL2`, in the shape of one batch of the model's
`Fri.combineInitial` (`(reduceExt evals α − reducedOpening) * FOps.inv (x − point)`): when the
reduced opening is the α-combination of the true values at `z`, the quotient is the α-combination of
the values at `x` of the quotient polynomials `Poly.divideByLinear c z` -/
theorem combine_identity_lists (cs : List (List GL2)) (α z x : GL2) (hx : x ≠ z) :
    (Fri.reduceExt (cs.map fun c => Poly.eval c x) α
        - Fri.reduceExt (cs.map fun c => Poly.eval c z) α) * FOps.inv (x - z)
      = Fri.reduceExt (cs.map fun c => Poly.eval (Poly.divideByLinear c z) x) α := by
  have h := @C05.combine_identity_lists GL2 L.gl2Field _ cs α z x hx
  rw [← L.bridge] at h
  exact h

/-- C05b `combine_soundness` at `K := GL2` (polynomials = coefficient lists `cs`, claimed openings
`vs`). Divisibility of the batched numerator `Σ α^k (F_k − v_k)` by `X − z` is expressed by its
value at `z`: the α-combination of the true values equals the α-combination of the claimed ones.
If some claimed opening is wrong, this happens for at most `n − 1` challenges `α`. -/
theorem combine_soundness (cs : List (List GL2)) (vs : List GL2) (hlen : vs.length = cs.length)
    (z : GL2) (hbad : ∃ k, k < cs.length ∧ vs.getD k GL2.zero ≠ Poly.eval (cs.getD k []) z)
    (A : Finset GL2)
    (hA : ∀ α ∈ A, Fri.reduceExt (cs.map fun c => Poly.eval c z) α = Fri.reduceExt vs α) :
    A.card ≤ cs.length - 1 :=
  Lemmas.GL2Inst.m_combine_soundness cs vs hlen z hbad A hA

/-- the same with divisibility spelled out: for every `α ∈ A` SOME coefficient list `q` satisfies
`numerator(x) = q(x)·(x − z)` for all `x ∈ GL2` -/
theorem combine_soundness_quotient (cs : List (List GL2)) (vs : List GL2)
    (hlen : vs.length = cs.length) (z : GL2)
    (hbad : ∃ k, k < cs.length ∧ vs.getD k GL2.zero ≠ Poly.eval (cs.getD k []) z)
    (A : Finset GL2)
    (hA : ∀ α ∈ A, ∃ q : List GL2, ∀ x : GL2,
      Fri.reduceExt (cs.map fun c => Poly.eval c x) α - Fri.reduceExt vs α
        = Poly.eval q x * (x - z)) :
    A.card ≤ cs.length - 1 :=
  Lemmas.GL2Inst.m_combine_soundness_quotient cs vs hlen z hbad A hA

/-! ## (ii) logUp — C10b at `K := GL2` -/

/-- C10b `helper_pair_constraint_iff`: the value `Stark.evalHelperColumns` hands to the consumer
for a chunk of two columns (`combin1 * combin0 * h - f0v * combin1 - f1v * combin0`) -/
theorem helper_pair_constraint_iff (c0 c1 h f0 f1 : GL2) :
    c1 * c0 * h - f0 * c1 - f1 * c0 = GL2.zero ↔ h * (c0 * c1) = f0 * c1 + f1 * c0 :=
  @C10b.helper_pair_constraint_iff GL2 L.gl2Field c0 c1 h f0 f1

/-- C10b `helper_pair_iff`: with non-vanishing denominators, the helper constraint holds iff the
helper is the sum of the two fractions (`/` is `* FOps.inv`, i.e. `GL2.inv`) -/
theorem helper_pair_iff (h f₁ f₂ x y α : GL2) (hx : x + α ≠ GL2.zero) (hy : y + α ≠ GL2.zero) :
    h * ((x + α) * (y + α)) = f₁ * (y + α) + f₂ * (x + α) ↔
      h = f₁ * FOps.inv (x + α) + f₂ * FOps.inv (y + α) :=
  @C10b.helper_pair_iff GL2 L.gl2Field h f₁ f₂ x y α hx hy

/-- C10b `running_constraint_iff`: the value `Stark.evalPackedLookups` hands to the consumer for
the running sum (`(nextZ - z) * twc - y`, `y = Σhelpers * twc - freq`) -/
theorem running_constraint_iff (nz z twc hs fr : GL2) :
    (nz - z) * twc - (hs * twc - fr) = GL2.zero ↔ (nz - z) * twc = hs * twc - fr :=
  @C10b.running_constraint_iff GL2 L.gl2Field nz z twc hs fr

/-- C10b `running_sum_telescopes`: cyclic telescoping; the sum is the model's `FOps.sum` (the left
fold `eval_packed_lookups_generic` uses for the helper sum) -/
theorem running_sum_telescopes (n : ℕ) (Z d : ℕ → GL2)
    (h : ∀ r, r < n → Z ((r + 1) % n) - Z r = d r) :
    FOps.sum ((List.range n).map d) = GL2.zero :=
  Lemmas.GL2Inst.m_running_sum_telescopes n Z d h

/-- C10b `logup_running_sum`: the running-sum constraint on every row of the cyclic domain, table
denominators non-zero ⇒ helper sums and table fractions balance -/
theorem logup_running_sum (n : ℕ) (Z hs t m : ℕ → GL2) (α : GL2)
    (ht : ∀ r, r < n → t r + α ≠ GL2.zero)
    (h : ∀ r, r < n → (Z ((r + 1) % n) - Z r) * (t r + α) = hs r * (t r + α) - m r) :
    FOps.sum ((List.range n).map fun r => hs r - m r * FOps.inv (t r + α)) = GL2.zero :=
  Lemmas.GL2Inst.m_logup_running_sum n Z hs t m α ht h

/-! ## (iii) partial products and selector filters — C02b at `K := GL2` -/

/-- C02b `checkPartialProducts_sound` for the model's `Plonk.checkPartialProducts`: if every
returned term is zero, `z(gx)·∏dens = z(x)·∏nums` (`FOps.prod` = the model's left fold) -/
theorem checkPartialProducts_sound (nums dens partials : List GL2) (zx zgx : GL2) (d : ℕ)
    (hd : 0 < d) (hlen : nums.length = dens.length)
    (hp : partials.length + 1 = (nums.length + d - 1) / d)
    (h : ∀ t ∈ Plonk.checkPartialProducts nums dens partials zx zgx d, t = GL2.zero) :
    zgx * FOps.prod dens = zx * FOps.prod nums :=
  Lemmas.GL2Inst.m_checkPartialProducts_sound nums dens partials zx zgx d hd hlen hp h

/-- C02b `checkPartialProducts_complete`: honest running products pass the check -/
theorem checkPartialProducts_complete (nums dens partials : List GL2) (zx zgx : GL2) (d : ℕ)
    (hd : 0 < d) (hlen : nums.length = dens.length)
    (hp : partials.length + 1 = (nums.length + d - 1) / d)
    (hne : ∀ x ∈ dens, x ≠ GL2.zero)
    (hpart : ∀ i, i < partials.length →
      partials.getD i GL2.zero = zx * FOps.prod ((List.range (i + 1)).map fun k =>
        FOps.prod ((nums.drop (k * d)).take d) * FOps.inv (FOps.prod ((dens.drop (k * d)).take d))))
    (hz : zgx = zx * FOps.prod ((List.range ((nums.length + d - 1) / d)).map fun k =>
        FOps.prod ((nums.drop (k * d)).take d) * FOps.inv (FOps.prod ((dens.drop (k * d)).take d)))) :
    ∀ t ∈ Plonk.checkPartialProducts nums dens partials zx zgx d, t = GL2.zero :=
  Lemmas.GL2Inst.m_checkPartialProducts_complete nums dens partials zx zgx d hd hlen hp hne hpart hz

/-- C02b `computeFilter_eq_zero_iff` for the model's `Plonk.computeFilter`; the side condition
`hinj` is discharged by `GL2Field.hinj` (characteristic `GLP > 2^32`); the selector value `j` is
the model's `GL2.ofBase (GL.ofNat j)` -/
theorem computeFilter_eq_zero_iff (lo hi row j : ℕ) (many : Bool)
    (hrow : lo ≤ row ∧ row < hi) (hhi : hi ≤ 2 ^ 32 - 1)
    (hj : (lo ≤ j ∧ j < hi) ∨ (many = true ∧ j = PlonkAlg.UNUSED_SELECTOR)) :
    Plonk.computeFilter row (lo, hi) (GL2.ofBase (GL.ofNat j)) many = GL2.zero ↔ j ≠ row := by
  have h := @C02.computeFilter_eq_zero_iff GL2 L.gl2Field _ lo hi row j many GL2Field.hinj hrow hhi hj
  rw [← L.bridge] at h
  exact h

/-- C02b `filters_disjoint` for the model's `Plonk.computeFilter` -/
theorem filters_disjoint (lo hi i i' : ℕ) (many : Bool)
    (hi_ : lo ≤ i ∧ i < hi) (hi' : lo ≤ i' ∧ i' < hi) (hhi : hi ≤ 2 ^ 32 - 1) (hne : i ≠ i') :
    Plonk.computeFilter i' (lo, hi) (GL2.ofBase (GL.ofNat i)) many = GL2.zero := by
  have h := @C02.filters_disjoint GL2 L.gl2Field _ lo hi i i' many GL2Field.hinj hi_ hi' hhi hne
  rw [← L.bridge] at h
  exact h

/-! ## (iv) gates — C07b at `K := GL` (the executable `GateKind.evalUnfiltered` on `EvalVars GL`) -/

/-- C07b `arithmetic_sat_iff` for the model's evaluator over Goldilocks -/
theorem arithmetic_sat_iff (n : ℕ) (v : EvalVars P2.GL) :
    (∀ c ∈ (GateKind.arithmetic n).evalUnfiltered v, c = 0) ↔ ∀ i, i < n →
      v.wires[4 * i + 3]! = v.wires[4 * i]! * v.wires[4 * i + 1]! * v.constants[0]!
        + v.wires[4 * i + 2]! * v.constants[1]! :=
  Lemmas.GL2Inst.g_arithmetic_sat_iff n v

/-- C07b `baseSum_sat_unique` over Goldilocks; the injectivity side condition becomes `b^l ≤ GLP` -/
theorem baseSum_sat_unique (b l s : ℕ) (hs : s < b ^ l) (hbl : b ^ l ≤ GLP)
    (v : EvalVars P2.GL) (hsat : ∀ c ∈ (GateKind.baseSum b l).evalUnfiltered v, c = 0)
    (h0 : v.wires[0]! = GL.ofNat s) :
    ∀ i, i < l → v.wires[1 + i]! = GL.ofNat ((s / b ^ i) % b) :=
  Lemmas.GL2Inst.g_baseSum_sat_unique b l s hs hbl v hsat h0

/-- C07b `baseSum_pinned_sat` over Goldilocks: no single-limb replacement of a satisfying row
satisfies the gate -/
theorem baseSum_pinned_sat (b l s : ℕ) (hs : s < b ^ l) (hbl : b ^ l ≤ GLP)
    (v v' : EvalVars P2.GL) (i : ℕ) (hi : i < l) (hd : DiffersOnlyAt v v' (1 + i))
    (hsat : ∀ c ∈ (GateKind.baseSum b l).evalUnfiltered v, c = 0)
    (h0 : v.wires[0]! = GL.ofNat s) :
    ¬ ∀ c ∈ (GateKind.baseSum b l).evalUnfiltered v', c = 0 :=
  Lemmas.GL2Inst.g_baseSum_pinned_sat b l s hs hbl v v' i hi hd hsat h0

/-- C07b `exponentiation_semantics` over Goldilocks, with the model's `GL.pow` -/
theorem exponentiation_semantics (n : ℕ) (hn : 1 ≤ n) (v : EvalVars P2.GL)
    (hb : ∀ i, i < n → v.wires[1 + i]! = 0 ∨ v.wires[1 + i]! = 1)
    (hs : ∀ c ∈ (GateKind.exponentiation n).evalUnfiltered v, c = 0) :
    v.wires[1 + n]! = GL.pow v.wires[0]!
      (∑ j ∈ Finset.range n, (if v.wires[1 + j]! = 1 then 1 else 0) * 2 ^ j) :=
  Lemmas.GL2Inst.g_exponentiation_semantics n hn v hb hs

/-! ## non-vacuity (concrete instances over `GL2` / `GL`, evaluated by the kernel) -/

section NonVacuity

/-- (i) arity 2 (`ab = 1`), `x = 3`, `P_0 = 1 + (2 + 5X)·Y`, `P_1 = 5 + X`, i.e.
`P(w) = P_0(w²) + w·P_1(w²)`: `P(3) = 34 + 48X`, `P(−3) = 4 + 42X`; `β = 7 + 2X` -/
example : Fri.computeEvaluation 3 0 1 [⟨34, 48⟩, ⟨4, 42⟩] ⟨7, 2⟩
    = FOps.reduceWithPowers (([[⟨1, 0⟩, ⟨2, 5⟩], [⟨5, 1⟩]] : List (List GL2)).map fun c =>
        Poly.eval c (GL2.ofBase (GL.pow 3 (2 ^ 1)))) ⟨7, 2⟩ :=
  computeEvaluation_fold 1 (by decide) 3 (by decide) 0 _ rfl _ _ (by decide +kernel)
/-- … and the common value -/
example : Fri.computeEvaluation 3 0 1 [⟨34, 48⟩, ⟨4, 42⟩] ⟨7, 2⟩ = ⟨68, 62⟩ := by decide +kernel
/-- the shortcut branch (`β = −3` is the second interpolation point) -/
example : Fri.computeEvaluation 3 0 1 [⟨34, 48⟩, ⟨4, 42⟩] (GL2.ofBase (GL.ofNat (GLP - 3)))
    = FOps.reduceWithPowers (([[⟨1, 0⟩, ⟨2, 5⟩], [⟨5, 1⟩]] : List (List GL2)).map fun c =>
        Poly.eval c (GL2.ofBase (GL.pow 3 (2 ^ 1)))) (GL2.ofBase (GL.ofNat (GLP - 3))) :=
  computeEvaluation_fold 1 (by decide) 3 (by decide) 0 _ rfl _ _ (by decide +kernel)
example : Fri.computeEvaluation 3 0 1 [⟨34, 48⟩, ⟨4, 42⟩] (GL2.ofBase (GL.ofNat (GLP - 3)))
    = ⟨4, 42⟩ := by decide +kernel
/-- the same polynomial as ONE coefficient list `1 + (5 + X)·W + (2 + 5X)·W²`, `d = 2`: the folded
coefficients are `[1 + (5 + X)·β, 2 + 5X]` -/
example : Fri.computeEvaluation 3 0 1 [⟨34, 48⟩, ⟨4, 42⟩] ⟨7, 2⟩
    = Poly.eval ((List.range 2).map fun m => FOps.reduceWithPowers
        ((List.range (2 ^ 1)).map fun i =>
          ([⟨1, 0⟩, ⟨5, 1⟩, ⟨2, 5⟩] : List GL2).getD (i + 2 ^ 1 * m) GL2.zero) ⟨7, 2⟩)
        (GL2.ofBase (GL.pow 3 (2 ^ 1))) :=
  computeEvaluation_fold_coeffs 1 (by decide) 3 (by decide) 0 _ 2 (by decide) (by decide) _ _
    (by decide +kernel)
example : ((List.range 2).map fun m => FOps.reduceWithPowers
    ((List.range (2 ^ 1)).map fun i =>
      ([⟨1, 0⟩, ⟨5, 1⟩, ⟨2, 5⟩] : List GL2).getD (i + 2 ^ 1 * m) GL2.zero) ⟨7, 2⟩)
    = [⟨50, 17⟩, ⟨2, 5⟩] := by decide +kernel
/-- the same data through `lagrangeEval_fold_layer_complete` (coset `3·⟨−1⟩`) -/
example : Poly.lagrangeEval ((List.range (2 ^ 1)).map fun i =>
      (GL2.ofBase (3 * GL.pow (GL.primitiveRoot 1) i),
        ([⟨34, 48⟩, ⟨4, 42⟩] : List GL2).getD i GL2.zero)) ⟨7, 2⟩
    = FOps.reduceWithPowers (([[⟨1, 0⟩, ⟨2, 5⟩], [⟨5, 1⟩]] : List (List GL2)).map fun c =>
        Poly.eval c (GL2.ofBase (GL.pow 3 (2 ^ 1)))) ⟨7, 2⟩ :=
  lagrangeEval_fold_layer_complete 1 (by decide) 3 (by decide) _ rfl _ _ (by decide +kernel)
example : Poly.lagrangeEval ((List.range (2 ^ 1)).map fun j =>
      (GL2.ofBase (3 * GL.pow (GL.primitiveRoot 1) j),
        FOps.reduceWithPowers (([[⟨1, 0⟩, ⟨2, 5⟩], [⟨5, 1⟩]] : List (List GL2)).map fun c =>
          Poly.eval c (FOps.pow (GL2.ofBase (3 * GL.pow (GL.primitiveRoot 1) j)) (2 ^ 1)))
          (GL2.ofBase (3 * GL.pow (GL.primitiveRoot 1) j)))) ⟨7, 2⟩
    = ⟨68, 62⟩ :=
  (lagrangeEval_fold_identity_pow2 1 (by decide) 3 (by decide) _ rfl _).trans (by decide +kernel)

/-- (i) combine: `F_0 = 1 + 2Y + 3Y²`, `F_1 = 4 + (5 + X)Y`, `α = 2 + X`, `z = 3`, `x = 10 + X` -/
example : (Fri.reduceExt (([[⟨1, 0⟩, ⟨2, 0⟩, ⟨3, 0⟩], [⟨4, 0⟩, ⟨5, 1⟩]] : List (List GL2)).map
        fun c => Poly.eval c ⟨10, 1⟩) ⟨2, 1⟩
      - Fri.reduceExt (([[⟨1, 0⟩, ⟨2, 0⟩, ⟨3, 0⟩], [⟨4, 0⟩, ⟨5, 1⟩]] : List (List GL2)).map
        fun c => Poly.eval c ⟨3, 0⟩) ⟨2, 1⟩) * FOps.inv ((⟨10, 1⟩ : GL2) - ⟨3, 0⟩)
    = Fri.reduceExt (([[⟨1, 0⟩, ⟨2, 0⟩, ⟨3, 0⟩], [⟨4, 0⟩, ⟨5, 1⟩]] : List (List GL2)).map
        fun c => Poly.eval (Poly.divideByLinear c ⟨3, 0⟩) ⟨10, 1⟩) ⟨2, 1⟩ :=
  combine_identity_lists _ _ _ _ (by decide)
/-- the quotients are `11 + 3Y` and `5 + X`; the combination at `x = 10 + X`, `α = 2 + X` -/
example : (([[⟨1, 0⟩, ⟨2, 0⟩, ⟨3, 0⟩], [⟨4, 0⟩, ⟨5, 1⟩]] : List (List GL2)).map
    fun c => Poly.divideByLinear c ⟨3, 0⟩) = [[⟨11, 0⟩, ⟨3, 0⟩], [⟨5, 1⟩]] := by decide +kernel
example : Fri.reduceExt (([[⟨1, 0⟩, ⟨2, 0⟩, ⟨3, 0⟩], [⟨4, 0⟩, ⟨5, 1⟩]] : List (List GL2)).map
    fun c => Poly.eval (Poly.divideByLinear c ⟨3, 0⟩) ⟨10, 1⟩) ⟨2, 1⟩ = ⟨58, 10⟩ := by
  decide +kernel

/-- (i) soundness: two constant polynomials `1, 1`, claimed openings `2, 0` (the first is wrong):
`1 + α = 2` has the single solution `α = 1`, and `1 ≤ 2 − 1` -/
example : ({⟨1, 0⟩} : Finset GL2).card ≤ 2 - 1 :=
  combine_soundness [[⟨1, 0⟩], [⟨1, 0⟩]] [⟨2, 0⟩, ⟨0, 0⟩] rfl ⟨5, 3⟩ ⟨0, by decide, by decide +kernel⟩ _
    (by
      intro α hα
      rw [Finset.mem_singleton] at hα
      subst hα
      decide +kernel)
/-- … and in quotient form (numerator `(1 + α) − 2 = 0` at `α = 1`: quotient `[]`) -/
example : ({⟨1, 0⟩} : Finset GL2).card ≤ 2 - 1 :=
  combine_soundness_quotient [[⟨1, 0⟩], [⟨1, 0⟩]] [⟨2, 0⟩, ⟨0, 0⟩] rfl ⟨5, 3⟩
    ⟨0, by decide, by decide +kernel⟩ _
    (by
      intro α hα
      rw [Finset.mem_singleton] at hα
      subst hα
      exact ⟨[], fun x => by
        have e : ∀ c : GL2, Poly.eval [c] x = c := fun c => by
          let _i : Field GL2 := L.gl2Field
          show (0 : GL2) * x + c = c
          rw [zero_mul, zero_add]
        show GL2.sub (Fri.reduceExt [Poly.eval [⟨1, 0⟩] x, Poly.eval [⟨1, 0⟩] x] ⟨1, 0⟩)
            (Fri.reduceExt [⟨2, 0⟩, ⟨0, 0⟩] ⟨1, 0⟩) = GL2.mul GL2.zero (GL2.sub x ⟨5, 3⟩)
        rw [e, show GL2.sub (Fri.reduceExt [(⟨1, 0⟩ : GL2), ⟨1, 0⟩] ⟨1, 0⟩)
            (Fri.reduceExt [⟨2, 0⟩, ⟨0, 0⟩] ⟨1, 0⟩) = GL2.zero from by decide +kernel]
        let _i : Field GL2 := L.gl2Field
        exact (zero_mul (x - (⟨5, 3⟩ : GL2))).symm⟩)

/-- (ii) `x = 1`, `y = 2`, `α = 1 + X`, filters `4`, `3 + X`: the helper value that is the sum of
the two fractions satisfies the constraint … -/
example : ((⟨4, 0⟩ : GL2) * FOps.inv ((⟨1, 0⟩ : GL2) + ⟨1, 1⟩)
      + ⟨3, 1⟩ * FOps.inv ((⟨2, 0⟩ : GL2) + ⟨1, 1⟩))
      * ((((⟨1, 0⟩ : GL2) + ⟨1, 1⟩)) * ((⟨2, 0⟩ : GL2) + ⟨1, 1⟩))
    = (⟨4, 0⟩ : GL2) * ((⟨2, 0⟩ : GL2) + ⟨1, 1⟩) + ⟨3, 1⟩ * ((⟨1, 0⟩ : GL2) + ⟨1, 1⟩) :=
  (helper_pair_iff _ ⟨4, 0⟩ ⟨3, 1⟩ ⟨1, 0⟩ ⟨2, 0⟩ ⟨1, 1⟩ (by decide) (by decide)).2 rfl
/-- … and the value the consumer receives is then zero -/
example : ((⟨2, 0⟩ : GL2) + ⟨1, 1⟩) * ((⟨1, 0⟩ : GL2) + ⟨1, 1⟩)
      * ((⟨4, 0⟩ : GL2) * FOps.inv ((⟨1, 0⟩ : GL2) + ⟨1, 1⟩)
        + ⟨3, 1⟩ * FOps.inv ((⟨2, 0⟩ : GL2) + ⟨1, 1⟩))
      - ⟨4, 0⟩ * ((⟨2, 0⟩ : GL2) + ⟨1, 1⟩) - ⟨3, 1⟩ * ((⟨1, 0⟩ : GL2) + ⟨1, 1⟩) = GL2.zero :=
  (helper_pair_constraint_iff _ _ _ _ _).2
    ((helper_pair_iff _ ⟨4, 0⟩ ⟨3, 1⟩ ⟨1, 0⟩ ⟨2, 0⟩ ⟨1, 1⟩ (by decide) (by decide)).2 rfl)
example : ((⟨9, 1⟩ : GL2) - ⟨2, 0⟩) * ⟨1, 1⟩ - (⟨7, 1⟩ * ⟨1, 1⟩ - GL2.zero) = GL2.zero :=
  (running_constraint_iff _ _ _ _ _).2 (by decide +kernel)

/-- (ii) two rows, increments `5 + X`, `−(5 + X)`: `Z = (0, 5 + X)` closes cyclically -/
example : FOps.sum ((List.range 2).map fun r => if r = 0 then (⟨5, 1⟩ : GL2) else GL2.neg ⟨5, 1⟩)
    = GL2.zero :=
  running_sum_telescopes 2 (fun r => if r = 0 then GL2.zero else ⟨5, 1⟩) _ (by decide +kernel)
/-- (ii) two rows, one looking column `x = (1, 2)` with filter 1, table `t = (2, 1)` with
multiplicity 1, `α = 1 + X`: helper sums `1/(x_r + α)`, `Z = (0, 1/(1 + α) − 1/(2 + α))` -/
example : FOps.sum ((List.range 2).map fun r =>
      (fun r => FOps.inv ((if r = 0 then (⟨1, 0⟩ : GL2) else ⟨2, 0⟩) + ⟨1, 1⟩)) r
        - (fun _ => GL2.one) r
          * FOps.inv ((fun r => if r = 0 then (⟨2, 0⟩ : GL2) else ⟨1, 0⟩) r + ⟨1, 1⟩))
    = GL2.zero :=
  logup_running_sum 2
    (fun r => if r = 0 then GL2.zero
      else FOps.inv ((⟨1, 0⟩ : GL2) + ⟨1, 1⟩) - FOps.inv ((⟨2, 0⟩ : GL2) + ⟨1, 1⟩))
    _ _ _ ⟨1, 1⟩ (by decide +kernel) (by decide +kernel)

/-- (iii) 5 wires, chunks of 2, `z = 7 + X`: honest partial products `z·2`, `z·4`, `z(gx) = z·5` -/
example : Plonk.checkPartialProducts
    [⟨1, 0⟩, ⟨2, 0⟩, ⟨3, 0⟩, ⟨4, 0⟩, ⟨5, 0⟩] [⟨1, 0⟩, ⟨1, 0⟩, ⟨2, 0⟩, ⟨3, 0⟩, ⟨4, 0⟩]
    [⟨14, 2⟩, ⟨28, 4⟩] ⟨7, 1⟩ ⟨35, 5⟩ 2 = [GL2.zero, GL2.zero, GL2.zero] := by decide +kernel
example : (⟨35, 5⟩ : GL2) * FOps.prod [⟨1, 0⟩, ⟨1, 0⟩, ⟨2, 0⟩, ⟨3, 0⟩, ⟨4, 0⟩]
    = ⟨7, 1⟩ * FOps.prod [⟨1, 0⟩, ⟨2, 0⟩, ⟨3, 0⟩, ⟨4, 0⟩, ⟨5, 0⟩] :=
  checkPartialProducts_sound _ _ [⟨14, 2⟩, ⟨28, 4⟩] _ _ 2 (by decide) rfl (by decide)
    (by decide +kernel)
example : ∀ t ∈ Plonk.checkPartialProducts
    [⟨1, 0⟩, ⟨2, 0⟩, ⟨3, 0⟩, ⟨4, 0⟩, ⟨5, 0⟩] [⟨1, 0⟩, ⟨1, 0⟩, ⟨2, 0⟩, ⟨3, 0⟩, ⟨4, 0⟩]
    [⟨14, 2⟩, ⟨28, 4⟩] ⟨7, 1⟩ ⟨35, 5⟩ 2, t = GL2.zero :=
  checkPartialProducts_complete _ _ _ _ _ 2 (by decide) rfl (by decide) (by decide +kernel)
    (by decide +kernel) (by decide +kernel)
/-- a wrong `z(gx)` is caught -/
example : Plonk.checkPartialProducts
    [⟨1, 0⟩, ⟨2, 0⟩, ⟨3, 0⟩, ⟨4, 0⟩, ⟨5, 0⟩] [⟨1, 0⟩, ⟨1, 0⟩, ⟨2, 0⟩, ⟨3, 0⟩, ⟨4, 0⟩]
    [⟨14, 2⟩, ⟨28, 4⟩] ⟨7, 1⟩ ⟨36, 5⟩ 2 = [GL2.zero, GL2.zero, GL2.neg ⟨4, 0⟩] := by decide +kernel

/-- (iii) group `[3, 6)`: the filter of gate 4 vanishes on a row selected for gate 5, not on its own -/
example : Plonk.computeFilter 4 (3, 6) (GL2.ofBase (GL.ofNat 5)) true = GL2.zero :=
  filters_disjoint 3 6 5 4 true (by omega) (by omega) (by omega) (by omega)
example : Plonk.computeFilter 4 (3, 6) (GL2.ofBase (GL.ofNat 4)) true ≠ GL2.zero := fun h =>
  (computeFilter_eq_zero_iff 3 6 4 4 true (by omega) (by omega) (Or.inl (by omega))).1 h rfl
example : Plonk.computeFilter 4 (3, 6) (GL2.ofBase (GL.ofNat 4)) false = GL2.neg GL2.one := by
  decide +kernel

/-- (iv) `5·7·2 + 11·3 = 103` -/
example : ∀ c ∈ (GateKind.arithmetic 1).evalUnfiltered
    (⟨#[2, 3], #[5, 7, 11, 103], #[]⟩ : EvalVars P2.GL), c = 0 :=
  (arithmetic_sat_iff 1 _).2 (by decide +kernel)
/-- (iv) the row `BaseSplitGenerator` fills in for `5 = 1 + 0·2 + 1·4` (three binary limbs) … -/
example : (genRow (.baseSum 2 3) #[] #[5] #[]).wires = #[5, 1, 0, 1] := by decide +kernel
/-- … satisfies the gate; changing limb 1 to `1` breaks it -/
example : ¬ ∀ c ∈ (GateKind.baseSum 2 3).evalUnfiltered
    (setW (genRow (.baseSum 2 3) #[] #[5] #[]) 2 1), c = 0 :=
  baseSum_pinned_sat 2 3 5 (by decide) (by decide) (genRow (.baseSum 2 3) #[] #[5] #[]) _ 1
    (by decide) (setW_differs _ 2 1 (by decide +kernel) (by decide +kernel))
    (C07.baseSum_generate_sat 2 3 #[] #[5] #[] (by decide)) (by decide +kernel)
example : ∀ i, i < 3 → (genRow (.baseSum 2 3) #[] #[5] #[]).wires[1 + i]!
    = GL.ofNat ((5 / 2 ^ i) % 2) :=
  baseSum_sat_unique 2 3 5 (by decide) (by decide) _
    (C07.baseSum_generate_sat 2 3 #[] #[5] #[] (by decide)) (by decide +kernel)
/-- (iv) base 3, bits `(1, 1)`: the row `ExponentiationGenerator` fills in … -/
example : (genRow (.exponentiation 2) #[] #[3, 1, 1] #[]).wires = #[3, 1, 1, 27, 3, 27] := by
  decide +kernel
/-- … carries `3^(1 + 2) = 27` in the output wire -/
example : (genRow (.exponentiation 2) #[] #[3, 1, 1] #[]).wires[1 + 2]!
    = GL.pow (genRow (.exponentiation 2) #[] #[3, 1, 1] #[]).wires[0]!
      (∑ j ∈ Finset.range 2,
        (if (genRow (.exponentiation 2) #[] #[3, 1, 1] #[]).wires[1 + j]! = 1 then 1 else 0)
          * 2 ^ j) :=
  exponentiation_semantics 2 (by decide) _ (by decide +kernel)
    (C07.exponentiation_generate_sat 2 #[] #[3, 1, 1] #[] (by decide))

end NonVacuity

end P2.Props.GL2Inst
