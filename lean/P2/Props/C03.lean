/-
C03: accepted proofs are bound to each of their elements and to their circuit — decision logic of
the PLONK verifier model (`P2.Model.Plonk.verify`) stated outright, for arbitrary proofs, common
data and verifier data (all list lengths arbitrary).
-/
import P2.Model.Plonk
import P2.Props.C05
namespace P2.Props.C03
open P2 P2.Plonk P2.Merkle
open P2.Fri (Verdict firstBad digestHasher)

/-- **Acceptance is the conjunction of every check.** `verify` accepts iff the shape is valid,
the quotient identity holds at ζ for the challenges *recomputed from the statement and the proof*,
and the FRI verifier accepts the openings against the caps `[preprocessed cap FROM THE VERIFIER
DATA, wires cap, Z cap, quotient cap]`. -/
theorem verify_accept_iff (c : CommonData) (vd : VerifierOnly) (pp : ProofWithPis) :
    Plonk.verify c vd pp = .accept ↔
      validateShape c pp = .accept ∧
      (let pih := publicInputsHash pp.publicInputs
       let ch := getChallenges c pih vd.circuitDigest pp.proof
       identityHolds c pp.proof pih ch = true ∧
       Fri.verify (friInstance c ch.zeta) pp.proof.openings.toFriOpenings ch.fri
         [vd.constantsSigmasCap, pp.proof.wiresCap, pp.proof.zsPartialProductsCap,
          pp.proof.quotientPolysCap] pp.proof.openingProof c.friParams = .accept) := by
  unfold Plonk.verify
  cases hs : validateShape c pp with
  | accept =>
    simp only [true_and, verifyWithChallenges]
    by_cases hi : identityHolds c pp.proof (publicInputsHash pp.publicInputs)
        (getChallenges c (publicInputsHash pp.publicInputs) vd.circuitDigest pp.proof) = true
    · simp [hi]
    · simp [hi]
  | reject s => simp
  | panic s => simp

/-- **List surgery is rejected by shape validation.** If the shape check passes then every
opening list and the public-input list has exactly the length the common data prescribe and every
cap has exactly `2^cap_height` entries; so dropping the last element of, emptying or duplicating
any of these lists makes `validateShape` (hence `verify`) reject. -/
theorem shape_accept_lengths (c : CommonData) (pp : ProofWithPis)
    (h : validateShape c pp = .accept) :
    pp.proof.wiresCap.length = 2 ^ c.friParams.config.capHeight ∧
    pp.proof.zsPartialProductsCap.length = 2 ^ c.friParams.config.capHeight ∧
    pp.proof.quotientPolysCap.length = 2 ^ c.friParams.config.capHeight ∧
    pp.proof.openings.constants.length = c.numConstants ∧
    pp.proof.openings.plonkSigmas.length = c.config.numRoutedWires ∧
    pp.proof.openings.wires.length = c.config.numWires ∧
    pp.proof.openings.plonkZs.length = c.config.numChallenges ∧
    pp.proof.openings.plonkZsNext.length = c.config.numChallenges ∧
    pp.proof.openings.partialProducts.length = c.config.numChallenges * c.numPartialProducts ∧
    pp.proof.openings.quotientPolys.length = c.numQuotientPolys ∧
    pp.proof.openings.lookupZs.length = c.numAllLookupPolys ∧
    pp.proof.openings.lookupZsNext.length = c.numAllLookupPolys ∧
    pp.publicInputs.length = c.numPublicInputs := by
  have hall := (P2.Props.C05.firstBad_accept_iff _).1 h
  have capLen : ∀ cap : List Digest, capCheck c.friParams.config.capHeight cap = .accept →
      cap.length = 2 ^ c.friParams.config.capHeight := by
    intro cap hc
    unfold capCheck at hc
    by_cases hk : cap.length = 2 ^ c.friParams.config.capHeight
    · exact hk
    · simp [hk] at hc
  have lenOk : ∀ (a b : Nat) (st : String), lenCheck (a == b) st = .accept → a = b := by
    intro a b st hb
    unfold lenCheck at hb
    by_cases hab : a = b
    · exact hab
    · have : (a == b) = false := by simp [hab]
      simp [this] at hb
  simp only [shapeChecks, List.mem_cons, List.mem_nil_iff, or_false, forall_eq_or_imp, forall_eq] at hall
  obtain ⟨h1, h2, h3, h4, h5, h6, h7, h8, h9, h10, h11, h12, h13⟩ := hall
  exact ⟨capLen _ h1, capLen _ h2, capLen _ h3,
    lenOk _ _ _ h4, lenOk _ _ _ h5,
    lenOk _ _ _ h6, lenOk _ _ _ h7,
    lenOk _ _ _ h8, lenOk _ _ _ h9,
    lenOk _ _ _ h10, lenOk _ _ _ h11,
    lenOk _ _ _ h12, lenOk _ _ _ h13⟩

/-- corollary in the property's words, for the wire openings (the other lists are identical):
any proof whose wire-opening list has a different length than the circuit's is not accepted. -/
theorem wires_surgery_rejected (c : CommonData) (vd : VerifierOnly) (pp : ProofWithPis)
    (h : pp.proof.openings.wires.length ≠ c.config.numWires) : Plonk.verify c vd pp ≠ .accept := by
  intro hacc
  have := (verify_accept_iff c vd pp).1 hacc
  exact h (shape_accept_lengths c pp this.1).2.2.2.2.2.1

/-- **The preprocessed commitment comes from the verifier data, never from the proof**, and a
foreign verifier data changes what the verifier checks against: the first Merkle cap used by every
query round of an accepted proof is `vd.constantsSigmasCap`. -/
theorem accepted_queries_open_vd_cap (c : CommonData) (vd : VerifierOnly) (pp : ProofWithPis)
    (hacc : Plonk.verify c vd pp = .accept) :
    let pih := publicInputsHash pp.publicInputs
    let ch := getChallenges c pih vd.circuitDigest pp.proof
    ∀ xq ∈ ch.fri.queryIndices.zip pp.proof.openingProof.queries,
      ∀ leafPath ∈ xq.2.initial.head?,
        verifyToCap digestHasher leafPath.1 xq.1 vd.constantsSigmasCap leafPath.2 = .ok := by
  intro pih ch xq hxq leafPath hlp
  have h := (verify_accept_iff c vd pp).1 hacc
  have hfri := h.2.2
  have hq := ((P2.Props.C05.verify_accept_iff _ _ _ _ _ _).1 hfri).2.2.2 xq hxq
  have hinit := (P2.Props.C05.queryRound_accept _ _ _ _ _ _ _ _ hq).1
  cases hi : xq.2.initial with
  | nil => simp [hi] at hlp
  | cons x rest =>
    simp only [hi, List.head?_cons, Option.mem_def, Option.some.injEq] at hlp
    subst hlp
    have := hinit (x, vd.constantsSigmasCap) (by simp [hi, List.zip])
    simpa using this

end P2.Props.C03
