/-
C15 (general theorems): bit reversal is an involution and decomposes over a split of the bit width;
the index arithmetic of `reverse_index_bits` (small / large / chunked variants) is bit reversal for
every size; Horner evaluation is the defining sum and `divide_by_linear` satisfies the division
identity; `ifft ∘ fft = id`, `fft ∘ ifft = id` for the O(n²) definition.
-/
import P2.Lemmas.C15Fft
namespace P2.Props.C15
open P2 P2.BitRev P2.Fft P2.Lemmas.C15

/-! ## T1 bit reversal -/

theorem bitrev_lt : ∀ b i, bitrev b i < 2 ^ b := Lemmas.C15.bitrev_lt

theorem bitrev_involutive : ∀ b i, i < 2 ^ b → bitrev b (bitrev b i) = i := Lemmas.C15.bitrev_involutive

/-- full decomposition: the low `b` bits are reversed into the high positions, the remaining high
bits are reversed into the low `a` positions. (Holds for every `i`; `bitrev` ignores bits above its
width.) -/
theorem bitrev_split : ∀ a b i, i < 2 ^ (a + b) →
    bitrev (a + b) i = bitrev a (i / 2 ^ b) + bitrev b (i % 2 ^ b) * 2 ^ a :=
  fun a b i _ => Lemmas.C15.bitrev_split' a b i

/-! ## T2 `reverse_index_bits` -/

theorem srcLarge_eq_bitrev : ∀ nPower, 6 < nPower → ∀ i, i < 2 ^ nPower →
    srcLarge nPower i = bitrev nPower i :=
  fun nPower h i _ => Lemmas.C15.srcLarge_eq_bitrev nPower h i

theorem reverseIndexBits_eq_spec {α : Type} [Inhabited α] : ∀ (arr : Array α) nPower,
    arr.size = 2 ^ nPower → reverseIndexBits arr nPower = reverseIndexBitsSpec arr nPower :=
  Lemmas.C15.reverseIndexBits_eq_spec

/-! ## T3 chunked variant -/

theorem chunkedMap_eq_bitrev : ∀ lbN i, i < 2 ^ lbN → chunkedMap lbN i = bitrev lbN i :=
  fun lbN i _ => Lemmas.C15.chunkedMap_eq_bitrev lbN i

/-! ## T4 polynomials over a field -/

section
variable {K : Type} [Field K] [DecidableEq K]

/-- Horner evaluation is the defining sum -/
theorem eval_eq_sum (c : List K) (x : K) :
    @Poly.eval K (FOps.ofField K) c x = ∑ i : Fin c.length, c[i] * x ^ (i : Nat) :=
  Lemmas.C15.eval_eq_sum c x

/-- `divide_by_linear(z)`: `p = q·(X − z) + p(z)` as functions (for every `c`, empty included) -/
theorem divideByLinear_spec (c : List K) (z x : K) :
    @Poly.eval K (FOps.ofField K) c x
      = @Poly.eval K (FOps.ofField K) (@Poly.divideByLinear K (FOps.ofField K) c z) x * (x - z)
        + @Poly.eval K (FOps.ofField K) c z := by
  cases c with
  | nil => simp [divideByLinear_nil, eval_nil]
  | cons a c =>
    rw [divideByLinear_cons, eval_cons, eval_cons, synth_spec c z x]
    ring

/-- the quotient has one coefficient fewer -/
theorem divideByLinear_length (c : List K) (z : K) :
    (@Poly.divideByLinear K (FOps.ofField K) c z).length = c.length - 1 := by
  cases c with
  | nil => rfl
  | cons a c =>
    rw [divideByLinear_cons]
    have : ∀ c : List K, (synth c z).length = c.length := by
      intro c; induction c <;> simp [synth, *]
    simp [this]

/-- the same identity coefficient by coefficient: `c_i = q_{i−1} − z·q_i` (with `q_{−1} := p(z)`), i.e.
`q·(X − z) + p(z) = p` as coefficient lists -/
theorem divideByLinear_coeff (c : List K) (z : K) (i : Nat) :
    c.getD i 0
      = (if i = 0 then @Poly.eval K (FOps.ofField K) c z
          else (@Poly.divideByLinear K (FOps.ofField K) c z).getD (i - 1) 0)
        - (@Poly.divideByLinear K (FOps.ofField K) c z).getD i 0 * z := by
  rw [divideByLinear_getD c z i, getD_eq_eval_drop c z i]
  cases i with
  | zero => simp
  | succ i => rw [if_neg (by omega), divideByLinear_getD c z (i + 1 - 1)]; simp

end

/-! ## T5 inverse transform -/

section
variable {K : Type} [Field K] [DecidableEq K] [Inhabited K]

/-- `ifft(fft(c)) = c`: `ifft_with_options` = forward transform followed by `ifftPost`.
(The statement `ifftPost (dft ω c) n⁻¹ = c` is false: `ifftPost` after ONE forward transform is the
inverse transform `n⁻¹·Σ c_j ω^(−ij)` of `c`, see `ifftPost_dft`; it undoes a transform only when
applied to the transform of the transformed data.) -/
theorem ifft_of_dft {ω : K} (c : Array K) (n : Nat) (hs : c.size = n) (hω : IsPrimitiveRoot ω n)
    (hn : (n : K) ≠ 0) :
    @ifftPost K (FOps.ofField K) _ (@dft K (FOps.ofField K) ω (@dft K (FOps.ofField K) ω c))
      ((n : K))⁻¹ = c := by
  subst hs; exact Lemmas.C15.ifft_of_dft c hω hn

/-- `fft(ifft(c)) = c` -/
theorem dft_of_ifft {ω : K} (c : Array K) (n : Nat) (hs : c.size = n) (hω : IsPrimitiveRoot ω n)
    (hn : (n : K) ≠ 0) :
    @dft K (FOps.ofField K) ω (@ifftPost K (FOps.ofField K) _ (@dft K (FOps.ofField K) ω c)
      ((n : K))⁻¹) = c := by
  subst hs; exact Lemmas.C15.dft_of_ifft c hω hn

/-- what `ifftPost` after one forward transform is: the scaled transform with `ω⁻¹` -/
theorem ifftPost_dft {ω : K} (c : Array K) (n : Nat) (hs : c.size = n) (hω : IsPrimitiveRoot ω n)
    (s : K) (i : Nat) (hi : i < n) :
    (@ifftPost K (FOps.ofField K) _ (@dft K (FOps.ofField K) ω c) s)[i]!
      = (∑ j ∈ Finset.range n, c[j]! * (ω⁻¹) ^ (i * j)) * s := by
  subst hs; exact Lemmas.C15.ifftPost_dft_getElem! c hω s i hi

/-- the model's `dft` is the defining sum -/
theorem dft_eq_sum (ω : K) (c : Array K) (i : Nat) (hi : i < c.size) :
    (@dft K (FOps.ofField K) ω c)[i]! = ∑ j ∈ Finset.range c.size, c[j]! * ω ^ (i * j) :=
  Lemmas.C15.dft_getElem! ω c i hi

/-- the statement `ifftPost (dft ω c) n⁻¹ = c` fails already for `n = 2` in every field of
characteristic `≠ 2` -/
theorem ifft_as_stated_false (h2 : (2 : K) ≠ 0) :
    ∃ (ω : K) (c : Array K), c.size = 2 ∧ IsPrimitiveRoot ω 2 ∧
      @ifftPost K (FOps.ofField K) _ (@dft K (FOps.ofField K) ω c) ((2 : K))⁻¹ ≠ c :=
  Lemmas.C15.ifft_as_stated_false h2

/-! ## T6 Cooley–Tukey -/

/-- single-round invariant. `RoundInv ω values lgN t v` says: `v.size = 2^lgN` and for every block
`q < 2^(lgN−t)` and `j < 2^t`,
`v[q·2^t + j] = Σ_{s<2^t} values[s·2^(lgN−t) + bitrev (lgN−t) q] · (ω^(2^(lgN−t)))^(j·s)`,
i.e. block `q` holds the size-`2^t` transform of the decimated subsequence. One radix-2 round with
half block size `2^t` (twiddles `table[t][j] = (ω^(2^(lgN−t−1)))^j`) takes the invariant from `t`
to `t+1`. -/
theorem round_invariant {ω : K} {lgN : Nat} (hω : IsPrimitiveRoot ω (2 ^ lgN)) (values v : Array K)
    (table : Array (Array K)) (t : Nat) (ht : t < lgN)
    (htab : ∀ j, j < 2 ^ t → (table[t]!)[j]! = (ω ^ (2 ^ (lgN - t - 1))) ^ j)
    (hv : RoundInv ω values lgN t v) :
    RoundInv ω values lgN (t + 1) (@round K (FOps.ofField K) _ v table t) :=
  Lemmas.C15.round_invariant hω values v table t ht htab hv

/-- the invariant holds initially for the bit-reversed input -/
theorem round_invariant_init (ω : K) (values : Array K) (lgN : Nat) (hs : values.size = 2 ^ lgN) :
    RoundInv ω values lgN 0 (reverseIndexBitsSpec values lgN) :=
  Lemmas.C15.roundInv_zero ω values lgN hs

/-- `fft_classic` (`r = 0`) over any table of the right shape computes the defining sum -/
theorem fftClassic_eq_dft_of_table {ω : K} {lgN : Nat} (hω : IsPrimitiveRoot ω (2 ^ lgN))
    (values : Array K) (hs : values.size = 2 ^ lgN) (table : Array (Array K))
    (hsize : table.size = lgN)
    (htab : ∀ t j, t < lgN → j < 2 ^ t → (table[t]!)[j]! = (ω ^ (2 ^ (lgN - t - 1))) ^ j) :
    @fftClassic K (FOps.ofField K) _ values lgN 0 table = .ok (@dft K (FOps.ofField K) ω values) :=
  Lemmas.C15.fftClassic_eq_dft_of_table hω values hs table hsize htab

/-- `fft_classic(values, 0, fft_root_table(n))` is the DFT, for every `lgN` -/
theorem fftClassic_eq_dft {ω : K} {lgN : Nat} (hω : IsPrimitiveRoot ω (2 ^ lgN))
    (values : Array K) (hs : values.size = 2 ^ lgN) :
    @fftClassic K (FOps.ofField K) _ values lgN 0 (@rootTable K (FOps.ofField K) (fun _ => ω) lgN)
      = .ok (@dft K (FOps.ofField K) ω values) :=
  Lemmas.C15.fftClassic_eq_dft hω values hs

/-- the same for an arbitrary `primitive_root_of_unity` function: only its value at `lgN` matters -/
theorem fftClassic_eq_dft_rootTable (pr : Nat → K) {lgN : Nat} (hω : IsPrimitiveRoot (pr lgN) (2 ^ lgN))
    (values : Array K) (hs : values.size = 2 ^ lgN) :
    @fftClassic K (FOps.ofField K) _ values lgN 0 (@rootTable K (FOps.ofField K) pr lgN)
      = .ok (@dft K (FOps.ofField K) (pr lgN) values) :=
  Lemmas.C15.fftClassic_eq_dft_of_table hω values hs _ (rootTable_size _ _)
    (fun t j ht hj => rootTable_getElem! pr lgN t j ht hj)

/-- with the code's bit-reversal arithmetic in place of the specification -/
theorem fftClassic_eq_dft' {ω : K} {lgN : Nat} (hω : IsPrimitiveRoot ω (2 ^ lgN))
    (values : Array K) (hs : values.size = 2 ^ lgN) :
    (reverseIndexBits values lgN = reverseIndexBitsSpec values lgN) ∧
    @fftClassic K (FOps.ofField K) _ values lgN 0 (@rootTable K (FOps.ofField K) (fun _ => ω) lgN)
      = .ok (@dft K (FOps.ofField K) ω values) :=
  ⟨Lemmas.C15.reverseIndexBits_eq_spec values lgN hs, Lemmas.C15.fftClassic_eq_dft hω values hs⟩

end

end P2.Props.C15
