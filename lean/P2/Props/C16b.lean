/-
C16 (part b): proof-level compression. Model: `P2.Model.Compress` (`FriProof::compress`),
`P2.Model.Decompress` (`get_inferred_elements`, `CompressedFriProof::decompress`,
`CompressedProofWithPublicInputs::{decompress, verify}`).

Proved here
 (d) the first-wins maps: lookup after the `entry().or_insert()` fold returns the FIRST pair with the
     key; `Array.qsort` is a permutation, so sorting by key preserves lookups;
 (b) acceptance by `Fri.verify` gives, for every query round, the consistency fact: every evaluation
     that compression omits equals the value `get_inferred_elements` recomputes;
 (a, partial) producer/consumer alignment for one query round over all its layers: on a compressed
     proof whose step maps store, per coset, the true evaluation vector minus the position of the
     first query on it, `get_inferred_elements` emits exactly the elements that the first loop of
     `decompress` consumes, and that loop rebuilds the TRUE vectors — also when the coset was already
     reached by an earlier query (repeated indices, shared cosets);
 (c, conditional) `verifyCompressed (compress pp) = accept` for an accepted `pp`, GIVEN the
     conclusion of the proof-level round trip.
Follow-up (section "towards the closed round trip"): (1) first-wins for the step maps
(`compress_step_first_wins`), (2) the glue over the query list for the evaluation part
(`inferred_and_rebuilt`, `rebuilt_evals`, under the decidable `WF`), (3) `combineInitial_reads_leaves`,
(4) `merkle_roundtrip_first_wins` and its instance for the initial trees
(`initial_tree_paths_roundtrip`).
NOT proved: the instance of (4) for the per-layer trees and the final reassembly (5); hence still
no closed `decompress (compress π) = some π`, and `hround` of `verifyCompressed_of_roundtrip` is
not discharged.
-/
import P2.Lemmas.C16Chain
import P2.Lemmas.C16Compress
import P2.Lemmas.C16Assemble
namespace P2.Props.C16
open P2 P2.Fri P2.Merkle P2.Compress P2.Decompress P2.Lemmas.C16

/-! ### (d) first-wins maps -/

/-- **(d1)** `entry(k).or_insert(v)` for the pairs `kvs` in order, starting from `m`: the binding of
`m` if there is one, else the value of the FIRST pair of `kvs` with that key. -/
theorem lookup_after_first_wins_fold {α : Type} (m kvs : List (Nat × α)) (k : Nat) :
    lookupKey (kvs.foldl (fun m kv => insertFirstWins m kv.1 kv.2) m) k
      = (lookupKey m k).or (lookupKey kvs k) :=
  lookupKey_foldIns kvs m k

/-- the keys of a first-wins map stay distinct -/
theorem first_wins_fold_keys_nodup {α : Type} (kvs : List (Nat × α)) :
    ((kvs.foldl (fun m kv => insertFirstWins m kv.1 kv.2) []).map (·.1)).Nodup :=
  nodup_keys_foldIns kvs [] (by simp [keys])

/-- **(d2)** `sortByKey` (`Array.qsort`) returns a permutation -/
theorem sortByKey_is_perm {α : Type} (m : List (Nat × α)) : (sortByKey m).Perm m := sortByKey_perm m

/-- **(d3)** sorting by key preserves lookups when the keys are distinct -/
theorem lookup_after_sort {α : Type} (m : List (Nat × α)) (hn : (m.map (·.1)).Nodup) (k : Nat) :
    lookupKey (sortByKey m) k = lookupKey m k := lookupKey_sortByKey m hn k

/-- **(d)** the maps `compress` builds: the value found under `k` is that of the FIRST query whose
key is `k` -/
theorem lookup_in_compressed_map {α : Type} (kvs : List (Nat × α)) (k : Nat) :
    lookupKey (sortByKey (kvs.foldl (fun m kv => insertFirstWins m kv.1 kv.2) [])) k
      = (kvs.find? (·.1 == k)).map (·.2) :=
  lookupKey_sorted_foldIns kvs k

example : lookupKey (sortByKey ([(5, "a"), (2, "b"), (5, "c"), (3, "d")].foldl
    (fun m kv => insertFirstWins m kv.1 kv.2) [])) 5 = some "a" := by
  rw [lookup_in_compressed_map]; rfl

/-- **(d) on `FriProof::compress`**: the initial-tree map of the compressed proof answers a lookup
for `k` with the entry (leaf data and compressed Merkle paths, `initKVs`) of the FIRST query whose
index is `k`. (`…_partial`: the same statement for the per-layer step maps is not proved.) -/
theorem compress_initial_first_wins_partial (π : Fri.Proof) (idx : List Nat) (p : FriParams)
    (cp : CompressedFriProof) (h : Compress.compress π idx p = some cp) :
    ∃ q0, π.queries[0]? = some q0 ∧
      ∀ k, lookupKey cp.rounds.initial k
        = ((initKVs π idx p q0.initial.length).find? (·.1 == k)).map (·.2) :=
  compress_initial_lookup π idx p cp h

/-! ### (b) consistency follows from acceptance -/

/-- **(b)** if `verify_fri_proof` accepts then every query round is consistent: the combination of
its initial openings is defined and, at every reduction layer, the evaluation at the query's
position within the coset — the one `FriProof::compress` removes — equals the value folded from
the previous layer by `compute_evaluation` — the one `get_inferred_elements` re-inserts. -/
theorem consistent_of_accept (inst : Instance) (openings : List (List GL2)) (ch : Challenges)
    (caps : List (List Digest)) (π : Fri.Proof) (p : FriParams)
    (h : Fri.verify inst openings ch caps π p = .accept) :
    ∀ xq ∈ ch.queryIndices.zip π.queries,
      Consistent inst ch (openings.map fun vals => reduceExt vals ch.alpha) p xq.1 xq.2 := by
  intro xq hxq
  have hq := ((P2.Props.C05.verify_accept_iff inst openings ch caps π p).1 h).2.2.2 xq hxq
  obtain ⟨_, old0, lastEval, xf, hc, hs, _⟩ :=
    P2.Props.C05.queryRound_accept inst ch _ caps π xq.1 xq.2 p hq
  exact ⟨old0, hc, consistentFrom_of_stepsFrom π ch xq.2 p.arityBits 0 xq.1 _ old0 lastEval xf hs⟩

/-- unfolding of the consistency fact at one layer -/
theorem consistentFrom_cons (betas : List GL2) (q : QueryRound) (ab : Nat) (rest : List Nat)
    (i xIndex : Nat) (x : GL) (old : GL2) :
    ConsistentFrom betas q (ab :: rest) i xIndex x old ↔
      ∃ st beta, q.steps[i]? = some st ∧ betas[i]? = some beta ∧
        st.evals[xIndex % 2 ^ ab]? = some old ∧
        ConsistentFrom betas q rest (i + 1) (xIndex / 2 ^ ab) (GL.pow x (2 ^ ab))
          (computeEvaluation x (xIndex % 2 ^ ab) ab st.evals beta) := Iff.rfl

/-! ### (a), partial: the omitted evaluations are re-inserted correctly -/

/-- re-inserting the omitted evaluation: `Vec::insert` undoes `Vec::remove` exactly when the
inserted value is the removed one -/
theorem insert_undoes_remove {α} (xs : List α) (w : Nat) (v : α) (h : xs[w]? = some v) :
    insertAt (removeAt xs w) w v = some xs := insertAt_removeAt xs w v h

/-- **(a), one query round, all layers** (`…_partial`: the glue over the query list and the Merkle
trees is missing). `steps` are the step maps of a compressed proof, `q` a query round at leaf
`xIndex`, `seen` the state of `seen_indices_by_depth` when the query is started, `byDepth` the state
of `evals_by_depth`, related by `StateInv` (same keys; cached vectors are the true ones `E`).
`LayersOK` says: `q` is consistent from `old`; `E` gives `q`'s evaluation vectors; the step maps have
an entry for each coset of `q`, storing — if the coset has not been seen — the vector minus `q`'s own
position; a seen coset has a seen parent. Then `get_inferred_elements` appends `vals`, and
`decompress`, fed `vals ++ more`, consumes `vals` and returns the true vectors for every layer. -/
theorem decompress_query_aligned_partial (steps : List (List (Nat × QueryStep))) (betas : List GL2)
    (E : Nat → Nat → List GL2) (M : Nat → Nat → List Digest) (q : QueryRound)
    (seen : List (List Nat)) (byDepth : List (List (Nat × List GL2)))
    (abs : List Nat) (xIndex : Nat) (x : GL) (old : GL2) (out : List GL2)
    (hok : LayersOK steps betas E M q seen abs 0 xIndex x old)
    (hinv : StateInv E seen byDepth) :
    ∃ vals seen' byDepth',
      inferLayers steps betas abs 0 xIndex x old seen out = some (seen', out ++ vals) ∧
      (∀ more, rebuildLayers steps abs 0 xIndex byDepth (vals ++ more)
        = some (expectedFrom E M abs 0 xIndex, byDepth', more)) ∧
      StateInv E seen' byDepth' :=
  align_layers steps betas E M q seen abs 0 xIndex x old seen byDepth out hok hinv (fun _ _ => rfl)

/-! #### non-vacuity: two queries on the same coset

One layer of arity 2; the queries sit at leaves 2 and 3, both in coset 1. The compressed map stores
the vector of the first query (position 0 removed). -/
section Example
def e0 : GL2 := ⟨GL.ofNat 5, GL.ofNat 7⟩
def e1 : GL2 := ⟨GL.ofNat 11, GL.ofNat 13⟩
def exQ : QueryRound := ⟨[], [⟨[e0, e1], []⟩]⟩
def exSteps : List (List (Nat × QueryStep)) := [[(1, ⟨[e1], []⟩)]]
def exE : Nat → Nat → List GL2 := fun _ _ => [e0, e1]
def exM : Nat → Nat → List Digest := fun _ _ => []

/-- first query (leaf 2, position 0 in coset 1, nothing seen yet) -/
example : LayersOK exSteps [e0] exE exM exQ [[]] [1] 0 2 GL.multGen e0 :=
  ⟨⟨[e0, e1], []⟩, e0, [(1, ⟨[e1], []⟩)], [e1], rfl, rfl, rfl, rfl, rfl, rfl, rfl,
    fun _ => rfl, fun h => by simp at h, trivial⟩

/-- second query (leaf 3, position 1 in the same coset, which has been seen) -/
example : LayersOK exSteps [e0] exE exM exQ [[1]] [1] 0 3 GL.multGen e1 :=
  ⟨⟨[e0, e1], []⟩, e0, [(1, ⟨[e1], []⟩)], [e1], rfl, rfl, rfl, rfl, rfl, rfl, rfl,
    fun h => absurd (by simp) h, fun _ => trivial, trivial⟩

example : StateInv exE [[]] [[]] := ⟨rfl, fun i c ev h => by
  rcases i with _ | _ | i <;> simp [lookupKey] at h⟩

/-- the model on this data: the first query produces one inferred element, the second none; the
consumer rebuilds `[e0, e1]` for both from the single stored vector `[e1]` -/
example :
    inferLayers exSteps [e0] [1] 0 2 GL.multGen e0 [[]] [] = some ([[1]], [e0]) ∧
    inferLayers exSteps [e0] [1] 0 3 GL.multGen e1 [[1]] [e0] = some ([[1]], [e0]) ∧
    rebuildLayers exSteps [1] 0 2 [[]] [e0] = some ([(1, [e0, e1], [])], [[(1, [e0, e1])]], []) ∧
    rebuildLayers exSteps [1] 0 3 [[(1, [e0, e1])]] [] = some ([(1, [e0, e1], [])], [[(1, [e0, e1])]], []) := by
  refine ⟨by decide, by decide, by rfl, by rfl⟩
end Example

/- Non-vacuity of (b): the hypothesis `Fri.verify … = .accept` is met by every honest proof the
harness produces (the driver's `ACCEPT` answers to `c05 verify`, `c03 verify`, `c16 vcompressed`); an
in-kernel instance is out of reach (`GL.pow`/`primitiveRoot` do not reduce by `decide`, and a real
instance needs Poseidon). The conclusion is satisfiable with a non-trivial layer: -/
example : ConsistentFrom [e0] exQ [1] 0 2 GL.multGen e0 :=
  ⟨⟨[e0, e1], []⟩, e0, rfl, rfl, rfl, trivial⟩

/-! ### follow-up: towards the closed round trip -/

/-- **(1) first-wins, step maps.** For every layer `j`, a lookup for coset index `k` in the step map
of the compressed proof returns the entry (`stepKVs`: evaluation vector minus the query's own
position, compressed path) built from the FIRST query whose layer-`j` coset index is `k`. -/
theorem compress_step_first_wins (π : Fri.Proof) (idx : List Nat) (p : FriParams)
    (cp : CompressedFriProof) (h : Compress.compress π idx p = some cp) (j : Nat)
    (hj : j < p.arityBits.length) :
    ∃ m, cp.rounds.steps[j]? = some m ∧
      ∀ k, lookupKey m k = ((stepKVs π idx p j).find? (·.1 == k)).map (·.2) :=
  compress_step_lookup π idx p cp h j hj

/-- **(3)** `fri_combine_initial` depends only on the leaf parts of the initial-tree openings -/
theorem combineInitial_reads_leaves (inst : Instance) (initial initial' : List (List GL × List Digest))
    (alpha : GL2) (x : GL) (red : List GL2) (p : FriParams)
    (h : initial.map Prod.fst = initial'.map Prod.fst) :
    combineInitial inst initial alpha x red p = combineInitial inst initial' alpha x red p :=
  combineInitial_congr inst initial initial' alpha x red p h

/-- **(2) evaluation part of the round trip.** From `compress π idx p = some cp`, the decidable
shape predicate `WF π idx p` and the consistency of every query round: `get_inferred_elements`
succeeds on `cp`, and the first loop of `decompress` returns one record per query (`rebuiltOf`). -/
theorem inferred_and_rebuilt (π : Fri.Proof) (idx : List Nat) (p : FriParams) (cp : CompressedFriProof)
    (hc : Compress.compress π idx p = some cp) (hwf : WF π idx p)
    (inst : Instance) (ch : Challenges) (openings : List (List GL2)) (hidx : ch.queryIndices = idx)
    (numInitial : Nat) (hnum : ∀ q ∈ π.queries, q.initial.length = numInitial)
    (hcons : ∀ xq ∈ idx.zip π.queries,
      Consistent inst ch (openings.map fun vals => reduceExt vals ch.alpha) p xq.1 xq.2) :
    ∃ inferred, inferredElements cp ch openings inst p = some inferred ∧
      rebuildAll cp p numInitial idx (List.replicate p.arityBits.length []) inferred
        = some ((idx.zip π.queries).map (rebuiltOf π idx p cp)) :=
  inferred_and_rebuild π idx p cp hc hwf inst ch openings hidx numInitial hnum hcons

/-- … and the records carry exactly the evaluation vectors of `π`, at the right coset indices -/
theorem rebuilt_evals (π : Fri.Proof) (idx : List Nat) (p : FriParams) (cp : CompressedFriProof)
    (hwf : WF π idx p) (x : Nat) (q : QueryRound) (hm : (x, q) ∈ idx.zip π.queries)
    (j : Nat) (hj : j < p.arityBits.length) :
    ((rebuiltOf π idx p cp (x, q)).steps.getD j default).1 = idxAt p.arityBits x (j + 1) ∧
    ((rebuiltOf π idx p cp (x, q)).steps.getD j default).2.1 = (q.steps.getD j default).evals := by
  have h := expectedFrom_eq (Etrue π idx p) (Mstored π idx p) p.arityBits x p.arityBits 0 rfl
  have hx : idxAt p.arityBits x 0 = x := rfl
  rw [hx] at h
  simp only [rebuiltOf, h, Nat.sub_zero, List.getD_eq_getElem?_getD, List.getElem?_map,
    List.getElem?_range' (by omega : j < p.arityBits.length), Option.map_some, Option.getD_some,
    Nat.zero_add, Nat.one_mul]
  exact ⟨trivial, Etrue_eq hwf hm hj⟩

/-- the same with acceptance as the source of consistency -/
theorem inferred_and_rebuilt_of_accept (π : Fri.Proof) (idx : List Nat) (p : FriParams)
    (cp : CompressedFriProof) (hc : Compress.compress π idx p = some cp) (hwf : WF π idx p)
    (inst : Instance) (ch : Challenges) (openings : List (List GL2)) (caps : List (List Digest))
    (hidx : ch.queryIndices = idx) (numInitial : Nat)
    (hnum : ∀ q ∈ π.queries, q.initial.length = numInitial)
    (hacc : Fri.verify inst openings ch caps π p = .accept) :
    ∃ inferred, inferredElements cp ch openings inst p = some inferred ∧
      rebuildAll cp p numInitial idx (List.replicate p.arityBits.length []) inferred
        = some ((idx.zip π.queries).map (rebuiltOf π idx p cp)) :=
  inferred_and_rebuilt π idx p cp hc hwf inst ch openings hidx numInitial hnum
    (hidx ▸ consistent_of_accept inst openings ch caps π p hacc)

/-- **(4) Merkle paths, general.** `decompress_merkle_proofs` on FIRST-WINS compressed proofs: `ws`
agrees with `compress_merkle_proofs` at every position whose index did not occur earlier and is
arbitrary elsewhere (in a compressed FRI proof: the first query's stream); against an honest tree
(`node`, `leafAt`) the honest proofs come back. Generalises `merkle_roundtrip_node`. -/
theorem merkle_roundtrip_first_wins {L D : Type} (h : Hasher L D) (height capHeight : Nat)
    (hc : capHeight ≤ height) (leafAt : Nat → L) (node : Nat → D)
    (hleaf : ∀ i, i < 2 ^ height → node (i + 2 ^ height) = h.hashLeaf (leafAt i))
    (hnode : ∀ x, 1 ≤ x → x < 2 ^ height → node x = h.two (node (2 * x)) (node (2 * x + 1)))
    (is : List Nat) (his : ∀ i ∈ is, i < 2 ^ height) (ws : List (List D)) (hl : ws.length = is.length)
    (hws : ∀ a (_ : a < is.length), is[a] ∉ is.take a →
      ws[a]? = (PathCompression.compress height capHeight is
        (is.map (P2.Lemmas.PathCompression.honest node height capHeight)))[a]?) :
    PathCompression.decompress h (is.map leafAt) is ws height capHeight
      = some (is.map (P2.Lemmas.PathCompression.honest node height capHeight)) :=
  roundtrip_firstwins h height capHeight hc leafAt node hleaf hnode is his ws hl hws

/-- **(4a) Merkle paths of initial tree `t` inside `decompress`**: if the `t`-th openings of all
queries are the honest openings of one tree (`∃ node leafAt` in the statement of the closed
theorem), the path decompression of `decompressFri` for that tree returns the paths of `π`. -/
theorem initial_tree_paths_roundtrip (π : Fri.Proof) (idx : List Nat) (p : FriParams)
    (cp : CompressedFriProof) (hc : Compress.compress π idx p = some cp) (hwf : WF π idx p)
    (numInitial : Nat) (hnum : ∀ q ∈ π.queries, q.initial.length = numInitial) (t : Nat)
    (ht : t < numInitial) (hcap : p.config.capHeight ≤ p.ldeBits) (hidx : ∀ x ∈ idx, x < 2 ^ p.ldeBits)
    (leafAt : Nat → List GL) (node : Nat → Digest)
    (hleaf : ∀ i, i < 2 ^ p.ldeBits → node (i + 2 ^ p.ldeBits) = digestHasher.hashLeaf (leafAt i))
    (hnode : ∀ x, 1 ≤ x → x < 2 ^ p.ldeBits → node x = digestHasher.two (node (2 * x)) (node (2 * x + 1)))
    (hq : ∀ xq ∈ idx.zip π.queries, xq.2.initial.getD t ([], []) =
      (leafAt xq.1, P2.Lemmas.PathCompression.honest node p.ldeBits p.config.capHeight xq.1)) :
    decompressPaths digestHasher
      (((idx.zip π.queries).map (rebuiltOf π idx p cp)).map fun r => (r.initial.getD t default).1) idx
      (((idx.zip π.queries).map (rebuiltOf π idx p cp)).map fun r => (r.initial.getD t default).2)
      p.ldeBits p.config.capHeight
      = some ((idx.zip π.queries).map fun xq => (xq.2.initial.getD t ([], [])).2) :=
  initial_paths_ok π idx p cp hc hwf numInitial hnum t ht hcap hidx leafAt node hleaf hnode hq

/-- `WF` is decidable; a two-query instance with a shared coset satisfies it -/
example : WF ⟨[], [exQ, exQ], [], GL.ofNat 0⟩ [2, 3] ⟨⟨0, 0, 0, .fixed [1], 2⟩, false, 2, [1]⟩ := by
  decide

/-! ### (c), conditional: verification equivalence from the round trip -/
open P2.Plonk P2.Codec

/-- `FriProof::compress` keeps the parts of the FRI proof that enter the transcript -/
theorem compress_keeps_transcript_parts (π : Fri.Proof) (idx : List Nat) (p : FriParams)
    (cfp : CompressedFriProof) (h : Compress.compress π idx p = some cfp) :
    cfp.commitCaps = π.commitCaps ∧ cfp.finalPoly = π.finalPoly ∧ cfp.powWitness = π.powWitness ∧
      cfp.rounds.indices = idx := by
  unfold Compress.compress at h
  cases hq : π.queries[0]? with
  | none => simp [hq] at h
  | some q0 =>
    simp only [hq, Option.bind_eq_bind, Option.bind_some, Option.pure_def, Option.some.injEq] at h
    subst h
    exact ⟨rfl, rfl, rfl, rfl⟩

/-- `get_challenges` reads the caps, the openings, and of the FRI proof only the commit-phase
caps, the final polynomial and the PoW witness -/
theorem getChallenges_congr (c : CommonData) (pih d : Digest) (p1 p2 : Plonk.Proof)
    (h1 : p1.wiresCap = p2.wiresCap) (h2 : p1.zsPartialProductsCap = p2.zsPartialProductsCap)
    (h3 : p1.quotientPolysCap = p2.quotientPolysCap) (h4 : p1.openings = p2.openings)
    (h5 : p1.openingProof.commitCaps = p2.openingProof.commitCaps)
    (h6 : p1.openingProof.finalPoly = p2.openingProof.finalPoly)
    (h7 : p1.openingProof.powWitness = p2.openingProof.powWitness) :
    getChallenges c pih d p1 = getChallenges c pih d p2 := by
  unfold getChallenges plonkSchedule friSchedule
  rw [h1, h2, h3, h4, h5, h6, h7]

/-- **the Fiat–Shamir challenges of a proof and of its compressed form coincide** -/
theorem challenges_of_compressed (c : CommonData) (d : Digest) (pp : ProofWithPis)
    (cpp : CompressedProofWithPis) (h : compressProof c d pp = some cpp) :
    cpp.publicInputs = pp.publicInputs ∧
    getChallenges c (publicInputsHash cpp.publicInputs) d (challengeView cpp.proof)
      = getChallenges c (publicInputsHash pp.publicInputs) d pp.proof := by
  unfold compressProof at h
  simp only [Option.bind_eq_bind, Option.pure_def] at h
  cases hc : Compress.compress pp.proof.openingProof
      (getChallenges c (publicInputsHash pp.publicInputs) d pp.proof).fri.queryIndices c.friParams with
  | none => simp [hc] at h
  | some cfp =>
    simp only [hc, Option.bind_some, Option.some.injEq] at h
    subst h
    obtain ⟨k1, k2, k3, _⟩ := compress_keeps_transcript_parts _ _ _ _ hc
    refine ⟨rfl, ?_⟩
    apply getChallenges_congr <;> simp [challengeView, k1, k2, k3]

/-- **(c), conditional.** For a proof `pp` accepted by the PLONK verifier, IF decompressing its
compressed form (with the challenges of the transcript) returns `pp`'s proof — the conclusion of
the round trip (a) — THEN `verify_compressed` accepts the compressed form. (Since the repair of F-C16-1 the decompressed proof's shape is validated; the
challenge derivation and decompression themselves still run on unvalidated data, F-C18-2.) -/
theorem verifyCompressed_of_roundtrip (c : CommonData) (vd : VerifierOnly) (pp : ProofWithPis)
    (cpp : CompressedProofWithPis)
    (hacc : Plonk.verify c vd pp = .accept)
    (hcomp : compressProof c vd.circuitDigest pp = some cpp)
    (hround : decompressWith c (getChallenges c (publicInputsHash pp.publicInputs) vd.circuitDigest pp.proof)
      cpp.proof = some pp.proof) :
    verifyCompressed c vd cpp = .accept := by
  obtain ⟨hpis, hch⟩ := challenges_of_compressed c vd.circuitDigest pp cpp hcomp
  unfold Plonk.verify at hacc
  cases hs : Plonk.validateShape c pp with
  | reject s => simp [hs] at hacc
  | panic s => simp [hs] at hacc
  | accept =>
    simp only [hs] at hacc
    have hlen : pp.publicInputs.length = c.numPublicInputs := by
      have hall := (P2.Props.C05.firstBad_accept_iff _).1 hs
      have : lenCheck (pp.publicInputs.length == c.numPublicInputs) "shape-pis" = .accept :=
        hall _ (by simp [shapeChecks])
      unfold lenCheck at this
      split at this
      · rename_i hb; exact eq_of_beq hb
      · cases this
    unfold verifyCompressed
    simp only []
    rw [hch, hpis, if_neg (by simp [hlen]), hround]
    have hs' : Plonk.validateShape c ⟨pp.proof, pp.publicInputs⟩ = .accept := hs
    simp only [hs']
    exact hacc

/-- **F-C16-1 as repaired**: whatever compressed proof is presented, acceptance by `verify_compressed`
implies that the DECOMPRESSED proof passed the full shape validation of the plain verifier (all opening
lists have the lengths the circuit dictates — in particular one chunk of quotient openings per
challenge) and was accepted by `verify_with_challenges` under the challenges of the compressed
transcript. Before the repair the shape conjunct was absent, and with no quotient openings the
identity check was vacuous. -/
theorem verifyCompressed_accept_imp (c : CommonData) (vd : VerifierOnly) (cpp : CompressedProofWithPis)
    (h : verifyCompressed c vd cpp = .accept) :
    cpp.publicInputs.length = c.numPublicInputs ∧
    ∃ proof, decompressWith c (getChallenges c (publicInputsHash cpp.publicInputs) vd.circuitDigest
        (challengeView cpp.proof)) cpp.proof = some proof ∧
      Plonk.validateShape c ⟨proof, cpp.publicInputs⟩ = .accept ∧
      verifyWithChallenges c vd proof (publicInputsHash cpp.publicInputs)
        (getChallenges c (publicInputsHash cpp.publicInputs) vd.circuitDigest (challengeView cpp.proof)) = .accept := by
  unfold verifyCompressed at h
  by_cases hl : cpp.publicInputs.length ≠ c.numPublicInputs
  · simp [hl] at h
  · have hl' : cpp.publicInputs.length = c.numPublicInputs := by
      by_cases hq : cpp.publicInputs.length = c.numPublicInputs
      · exact hq
      · exact absurd hq hl
    simp only [hl, if_false] at h
    refine ⟨hl', ?_⟩
    cases hd : decompressWith c (getChallenges c (publicInputsHash cpp.publicInputs) vd.circuitDigest
        (challengeView cpp.proof)) cpp.proof with
    | none => simp [hd] at h
    | some proof =>
      simp only [hd] at h
      cases hs : Plonk.validateShape c ⟨proof, cpp.publicInputs⟩ with
      | accept => simp only [hs] at h; exact ⟨proof, rfl, hs, h⟩
      | reject s => simp [hs] at h
      | panic s => simp [hs] at h

/-- a compressed proof whose decompressed form is mis-shaped (e.g. no quotient openings) is never
accepted -/
theorem verifyCompressed_rejects_bad_shape (c : CommonData) (vd : VerifierOnly) (cpp : CompressedProofWithPis)
    (proof : Plonk.Proof)
    (hd : decompressWith c (getChallenges c (publicInputsHash cpp.publicInputs) vd.circuitDigest
        (challengeView cpp.proof)) cpp.proof = some proof)
    (hs : Plonk.validateShape c ⟨proof, cpp.publicInputs⟩ ≠ .accept) :
    verifyCompressed c vd cpp ≠ .accept := by
  intro h
  obtain ⟨_, proof', hd', hs', _⟩ := verifyCompressed_accept_imp c vd cpp h
  rw [hd] at hd'
  cases hd'
  exact hs hs'

end P2.Props.C16
