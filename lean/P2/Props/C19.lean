/-
C19: order-independence logic. Where the builder iterates hash containers (the gate set, the
constant map) it sorts by an injective key; sorting any permutation of the same elements yields the
same list, so the results are functions of the SET, not of the iteration order.
-/
import Mathlib.Data.List.Sort
import Mathlib.Data.List.Perm.Basic
import Mathlib.Data.List.Rotate
namespace P2.Props.C19
open List

/-- **Sorting is canonical.** For a total, transitive, antisymmetric order (e.g. `≤` on an injective
key such as `(degree, id)` for gates or the canonical value for constants), merge sort of two lists
that are permutations of each other gives the same list. -/
theorem sort_canonical {α : Type} (r : α → α → Prop) [DecidableRel r]
    [Std.Total r] [IsTrans α r] [Std.Antisymm r] (l₁ l₂ : List α) (h : l₁.Perm l₂) :
    l₁.mergeSort (r · ·) = l₂.mergeSort (r · ·) := by
  apply Perm.eq_of_pairwise' (r := r)
  · exact pairwise_mergeSort' r l₁
  · exact pairwise_mergeSort' r l₂
  · exact ((mergeSort_perm l₁ _).trans h).trans (mergeSort_perm l₂ _).symm

/-- with keys: if the key function is injective, sorting by `key a ≤ key b` is canonical (the induced
relation is antisymmetric) — stated for `Nat` keys -/
theorem sort_by_key_canonical {α : Type} (key : α → Nat) (hinj : Function.Injective key)
    (l₁ l₂ : List α) (h : l₁.Perm l₂) :
    l₁.mergeSort (fun a b => decide (key a ≤ key b)) = l₂.mergeSort (fun a b => decide (key a ≤ key b)) := by
  have : Std.Total (fun a b : α => key a ≤ key b) := ⟨fun a b => Nat.le_total _ _⟩
  have : IsTrans α (fun a b => key a ≤ key b) := ⟨fun a b c => Nat.le_trans⟩
  have : Std.Antisymm (fun a b : α => key a ≤ key b) := ⟨fun a b h1 h2 => hinj (Nat.le_antisymm h1 h2)⟩
  exact sort_canonical (fun a b => key a ≤ key b) l₁ l₂ h

/-- non-vacuity: `id` is an injective key on `Nat` and `[3,1,2]` is a permutation of `[2,3,1]` -/
example : [3, 1, 2].mergeSort (fun a b => decide (a ≤ b)) = [2, 3, 1].mergeSort (fun a b => decide (a ≤ b)) :=
  sort_by_key_canonical id (fun _ _ h => h) _ _ (by decide)


/-- `get_sigma_map`'s `neighbors` table: for every class, each member is mapped to the next one,
cyclically (`subset[n] ↦ subset[(n+1) % len]`); the table is filled class after class in the
iteration order of a hash map (`partition.into_values()`). -/
def classPairs (c : List Nat) : List (Nat × Nat) := c.zip (c.rotate 1)

def neighborPairs (classes : List (List Nat)) : List (Nat × Nat) := classes.flatMap classPairs

/-- the value the finished hash map holds for `w`: the LAST insertion with key `w` -/
def neighbor (classes : List (List Nat)) (w : Nat) : Option Nat :=
  ((neighborPairs classes).reverse.find? (fun p => p.1 == w)).map (·.2)

theorem classPairs_keys (c : List Nat) : (classPairs c).map (·.1) = c := by
  unfold classPairs
  rw [List.map_fst_zip]
  simp

theorem neighborPairs_keys (classes : List (List Nat)) :
    (neighborPairs classes).map (·.1) = classes.flatten := by
  induction classes with
  | nil => rfl
  | cons c cs ih =>
    simp only [neighborPairs, flatMap_cons, map_append, flatten_cons] at *
    rw [classPairs_keys, ih]

theorem find_of_nodupKeys {l : List (Nat × Nat)} (hnd : (l.map (·.1)).Nodup) (w : Nat) (p : Nat × Nat) :
    l.find? (fun p => p.1 == w) = some p ↔ p ∈ l ∧ p.1 = w := by
  induction l with
  | nil => simp
  | cons q qs ih =>
    simp only [map_cons, nodup_cons] at hnd
    rw [find?_cons]
    by_cases hq : q.1 = w
    · simp only [hq, beq_self_eq_true, Option.some.injEq, mem_cons]
      constructor
      · rintro rfl; exact ⟨Or.inl rfl, hq⟩
      · rintro ⟨h | h, hp⟩
        · exact h.symm
        · exfalso; apply hnd.1; rw [hq, ← hp]; exact mem_map_of_mem h
    · have : (q.1 == w) = false := by simpa using hq
      simp only [this, mem_cons]
      rw [ih hnd.2]
      constructor
      · rintro ⟨h, hp⟩; exact ⟨Or.inr h, hp⟩
      · rintro ⟨h | h, hp⟩
        · subst h; exact absurd hp hq
        · exact ⟨h, hp⟩

/-- **The sigma map does not depend on the order in which the hash map yields the classes.**
If the classes are pairwise disjoint and duplicate-free (they are the blocks of a partition of the
routed wires), any permutation of the class list produces the same `neighbors` table. -/
theorem neighbor_order_indep (cs₁ cs₂ : List (List Nat)) (h : cs₁.Perm cs₂)
    (hnd : cs₁.flatten.Nodup) (w : Nat) : neighbor cs₁ w = neighbor cs₂ w := by
  have hp : (neighborPairs cs₁).Perm (neighborPairs cs₂) := by
    unfold neighborPairs; exact h.flatMap_right _
  have hk1 : ((neighborPairs cs₁).reverse.map (·.1)).Nodup := by
    rw [map_reverse, nodup_reverse, neighborPairs_keys]; exact hnd
  have hk2 : ((neighborPairs cs₂).reverse.map (·.1)).Nodup := by
    rw [map_reverse, nodup_reverse]
    exact ((hp.map _).nodup_iff).mp (by rw [neighborPairs_keys]; exact hnd)
  unfold neighbor
  congr 1
  cases h1 : (neighborPairs cs₁).reverse.find? (fun p => p.1 == w) with
  | some p =>
    symm
    rw [find_of_nodupKeys hk2]
    rw [find_of_nodupKeys hk1] at h1
    exact ⟨by simpa using hp.mem_iff.mp (by simpa using h1.1), h1.2⟩
  | none =>
    cases h2 : (neighborPairs cs₂).reverse.find? (fun p => p.1 == w) with
    | none => rfl
    | some p =>
      exfalso
      rw [find_of_nodupKeys hk2] at h2
      have : (neighborPairs cs₁).reverse.find? (fun p => p.1 == w) = some p := by
        rw [find_of_nodupKeys hk1]
        exact ⟨by simpa using hp.mem_iff.mpr (by simpa using h2.1), h2.2⟩
      rw [h1] at this; cases this

/-- non-vacuity / shape: two classes, two orders, the cyclic successor -/
example : neighbor [[0, 5, 2], [1, 4]] 2 = some 0 ∧ neighbor [[1, 4], [0, 5, 2]] 2 = some 0
    ∧ neighbor [[1, 4], [0, 5, 2]] 4 = some 1 ∧ neighbor [[3]] 3 = some 3 := by decide

end P2.Props.C19
