/-
C19: order-independence logic. Where the builder iterates hash containers (the gate set, the
constant map) it sorts by an injective key; sorting any permutation of the same elements yields the
same list, so the results are functions of the SET, not of the iteration order.
-/
import Mathlib.Data.List.Sort
namespace P2.Props.C19
open List

/-- **Sorting is canonical.** For a total, transitive, antisymmetric order (e.g. `≤` on an injective
key such as `(degree, id)` for gates or the canonical value for constants), merge sort of two lists
that are permutations of each other gives the same list. -/
theorem sort_canonical {α : Type} (r : α → α → Prop) [DecidableRel r]
    [Std.Total r] [IsTrans α r] [Std.Antisymm r] (l₁ l₂ : List α) (h : l₁.Perm l₂) :
    l₁.mergeSort (r · ·) = l₂.mergeSort (r · ·) := by
  apply Perm.eq_of_pairwise' (r := r)
  · exact pairwise_mergeSort' r l₁
  · exact pairwise_mergeSort' r l₂
  · exact ((mergeSort_perm l₁ _).trans h).trans (mergeSort_perm l₂ _).symm

/-- with keys: if the key function is injective, sorting by `key a ≤ key b` is canonical (the induced
relation is antisymmetric) — stated for `Nat` keys -/
theorem sort_by_key_canonical {α : Type} (key : α → Nat) (hinj : Function.Injective key)
    (l₁ l₂ : List α) (h : l₁.Perm l₂) :
    l₁.mergeSort (fun a b => decide (key a ≤ key b)) = l₂.mergeSort (fun a b => decide (key a ≤ key b)) := by
  have : Std.Total (fun a b : α => key a ≤ key b) := ⟨fun a b => Nat.le_total _ _⟩
  have : IsTrans α (fun a b => key a ≤ key b) := ⟨fun a b c => Nat.le_trans⟩
  have : Std.Antisymm (fun a b : α => key a ≤ key b) := ⟨fun a b h1 h2 => hinj (Nat.le_antisymm h1 h2)⟩
  exact sort_canonical (fun a b => key a ≤ key b) l₁ l₂ h

/-- non-vacuity: `id` is an injective key on `Nat` and `[3,1,2]` is a permutation of `[2,3,1]` -/
example : [3, 1, 2].mergeSort (fun a b => decide (a ≤ b)) = [2, 3, 1].mergeSort (fun a b => decide (a ≤ b)) :=
  sort_by_key_canonical id (fun _ _ h => h) _ _ (by decide)

end P2.Props.C19
