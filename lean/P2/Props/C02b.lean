/-
C02 (general theorems over an arbitrary field `K`): the field-generic pieces of the PLONK vanishing
polynomial (`P2.Model.PlonkAlg`, used by the executable verifier at `K = GL2`), instantiated through
`FOps.ofField K`.

 A. selector filters: the filter of the gate at index `row` vanishes exactly on the rows whose
    selector value is a different index (or `UNUSED_SELECTOR`);
 B. `reduce_with_powers` is evaluation at `α` of the polynomial with the given coefficients, hence
    a non-zero term list is annihilated by at most `length − 1` values of `α`;
 C. `check_partial_products`: characterisation, telescoping soundness, completeness;
 D. `eval_l_0` is the Lagrange basis polynomial `L_0` of the subgroup of order `n`.
(F, completeness of the vanishing combination, is in `P2.Props.C01b`.)
-/
import P2.Lemmas.PlonkAlg
import Mathlib.Algebra.Field.Rat
import Mathlib.Algebra.Order.Ring.Rat
namespace P2.Props.C02
open P2 P2.PlonkAlg P2.Lemmas.PlonkAlg

variable {K : Type} [Field K] [DecidableEq K]

/-! ## A. selector filters -/

/-- On a row whose selector value is `j` (an index of the group, or `UNUSED_SELECTOR` when several
selector polynomials are used), the filter of the gate at index `row` is zero iff `j ≠ row`.
`hinj`: naturals below `2^32` are distinct in `K` (`CharZero K`, or `ringChar K > 2^32`). -/
theorem computeFilter_eq_zero_iff (lo hi row j : Nat) (many : Bool)
    (hinj : ∀ a b : Nat, a < 2 ^ 32 → b < 2 ^ 32 → (a : K) = (b : K) → a = b)
    (hrow : lo ≤ row ∧ row < hi) (hhi : hi ≤ 2 ^ 32 - 1)
    (hj : (lo ≤ j ∧ j < hi) ∨ (many = true ∧ j = UNUSED_SELECTOR)) :
    @computeFilter K (FOps.ofField K) row (lo, hi) (j : K) many = 0 ↔ j ≠ row :=
  computeFilter_selector lo hi row j many hinj hrow hhi hj

/-- the filter of a gate is non-zero on its own rows -/
theorem computeFilter_self_ne_zero (lo hi row : Nat) (many : Bool)
    (hinj : ∀ a b : Nat, a < 2 ^ 32 → b < 2 ^ 32 → (a : K) = (b : K) → a = b)
    (hrow : lo ≤ row ∧ row < hi) (hhi : hi ≤ 2 ^ 32 - 1) :
    @computeFilter K (FOps.ofField K) row (lo, hi) (row : K) many ≠ 0 := fun h =>
  (computeFilter_selector lo hi row row many hinj hrow hhi (Or.inl hrow)).1 h rfl

/-- two different gates of the same selector group: on a row selected for `i`, the filter of `i'`
vanishes -/
theorem filters_disjoint (lo hi i i' : Nat) (many : Bool)
    (hinj : ∀ a b : Nat, a < 2 ^ 32 → b < 2 ^ 32 → (a : K) = (b : K) → a = b)
    (hi_ : lo ≤ i ∧ i < hi) (hi' : lo ≤ i' ∧ i' < hi) (hhi : hi ≤ 2 ^ 32 - 1) (hne : i ≠ i') :
    @computeFilter K (FOps.ofField K) i' (lo, hi) (i : K) many = 0 :=
  (computeFilter_selector lo hi i' i many hinj hi' hhi (Or.inl hi_)).2 hne

/-- rows of gates belonging to other selector groups carry `UNUSED_SELECTOR` in this group's
selector polynomial, which kills every filter of the group -/
theorem filter_unused_eq_zero (lo hi row : Nat)
    (hinj : ∀ a b : Nat, a < 2 ^ 32 → b < 2 ^ 32 → (a : K) = (b : K) → a = b)
    (hrow : lo ≤ row ∧ row < hi) (hhi : hi ≤ 2 ^ 32 - 1) :
    @computeFilter K (FOps.ofField K) row (lo, hi) ((UNUSED_SELECTOR : Nat) : K) true = 0 :=
  (computeFilter_selector lo hi row UNUSED_SELECTOR true hinj hrow hhi (Or.inr ⟨rfl, rfl⟩)).2
    (by have := unused_eq; omega)

/-- Why `many = true` is required in the `UNUSED_SELECTOR` case of `computeFilter_eq_zero_iff`:
with a single selector polynomial the factor `(UNUSED_SELECTOR − s)` is absent, so the filter is
NON-zero at `s = UNUSED_SELECTOR` although `UNUSED_SELECTOR ≠ row`. (plonky2 never assigns
`UNUSED_SELECTOR` in that configuration.) -/
theorem computeFilter_unused_single_partial (lo hi row : Nat)
    (hinj : ∀ a b : Nat, a < 2 ^ 32 → b < 2 ^ 32 → (a : K) = (b : K) → a = b)
    (hhi : hi ≤ 2 ^ 32 - 1) :
    @computeFilter K (FOps.ofField K) row (lo, hi) ((UNUSED_SELECTOR : Nat) : K) false ≠ 0 :=
  computeFilter_unused_single lo hi row hinj hhi

omit [DecidableEq K] in
/-- the side condition holds in characteristic zero -/
theorem hinj_of_charZero [CharZero K] :
    ∀ a b : Nat, a < 2 ^ 32 → b < 2 ^ 32 → (a : K) = (b : K) → a = b :=
  fun _ _ _ _ h => Nat.cast_injective h

omit [DecidableEq K] in
/-- … and in characteristic `p ≥ 2^32` (Goldilocks and its extensions: `p = 2^64 − 2^32 + 1`) -/
theorem hinj_of_charP (p : Nat) [CharP K p] (hp : 2 ^ 32 ≤ p) :
    ∀ a b : Nat, a < 2 ^ 32 → b < 2 ^ 32 → (a : K) = (b : K) → a = b :=
  Lemmas.PlonkAlg.hinj_of_charP p hp

example : @computeFilter ℚ (FOps.ofField ℚ) 4 (3, 6) ((4 : Nat) : ℚ) true ≠ 0 :=
  computeFilter_self_ne_zero 3 6 4 true hinj_of_charZero (by omega) (by omega)
example : @computeFilter ℚ (FOps.ofField ℚ) 4 (3, 6) ((5 : Nat) : ℚ) true = 0 :=
  filters_disjoint 3 6 5 4 true hinj_of_charZero (by omega) (by omega) (by omega) (by omega)
example : @computeFilter ℚ (FOps.ofField ℚ) 4 (3, 6) 4 false = -1 := by
  norm_num [computeFilter, List.range_succ, FOps.ofNat, FOps.one]

/-! ## B. α-combination -/

theorem reduceWithPowers_eq_sum (terms : List K) (α : K) :
    @reduceWithPowers K (FOps.ofField K) terms α
      = ∑ i : Fin terms.length, terms[i] * α ^ (i : Nat) :=
  reduce_eq_sum terms α

theorem reduceWithPowers_eq_sum_range (terms : List K) (α : K) :
    @reduceWithPowers K (FOps.ofField K) terms α
      = ∑ i ∈ Finset.range terms.length, terms.getD i 0 * α ^ i :=
  reduce_eq_sum_range terms α

/-- it is the evaluation at `α` of a polynomial of degree `< terms.length` whose `i`-th coefficient
is `terms[i]` -/
theorem reduceWithPowers_eq_eval (terms : List K) :
    ∃ p : Polynomial K, p.degree < terms.length ∧ (∀ i, p.coeff i = terms.getD i 0) ∧
      ∀ α, @reduceWithPowers K (FOps.ofField K) terms α = p.eval α :=
  ⟨listPoly terms, listPoly_degree_lt terms, listPoly_coeff terms,
    fun α => (listPoly_eval terms α).symm⟩

/-- Schwartz–Zippel for the α-combination: if some term is non-zero, at most `length − 1` values of
`α` make the combination vanish -/
theorem reduceWithPowers_zeros_card (terms : List K) (h : ∃ t ∈ terms, t ≠ 0) (S : Finset K)
    (hS : ∀ α ∈ S, @reduceWithPowers K (FOps.ofField K) terms α = 0) :
    S.card ≤ terms.length - 1 :=
  reduce_zeros_card terms h S hS

theorem reduceWithPowers_zero_set (terms : List K) (h : ∃ t ∈ terms, t ≠ 0) :
    {α : K | @reduceWithPowers K (FOps.ofField K) terms α = 0}.Finite ∧
    {α : K | @reduceWithPowers K (FOps.ofField K) terms α = 0}.ncard ≤ terms.length - 1 :=
  reduce_zero_set terms h

/-- contrapositive: vanishing at `terms.length` distinct `α` forces all terms to be zero -/
theorem terms_zero_of_many_zeros (terms : List K) (S : Finset K) (hcard : terms.length ≤ S.card)
    (hS : ∀ α ∈ S, @reduceWithPowers K (FOps.ofField K) terms α = 0) :
    ∀ t ∈ terms, t = 0 :=
  reduce_terms_zero_of_many_zeros terms S hcard hS

example : @reduceWithPowers ℚ (FOps.ofField ℚ) [1, 2, 3] 2 = 17 := by
  norm_num [reduceWithPowers_eq_sum_range, Finset.sum_range_succ]

/-! ## C. partial products -/

/-- (i) the check passes iff every chunk relation holds; accumulators are
`z_x :: partials ++ [z_gx]`, chunk `i` of `xs` is `(xs.drop (i·d)).take d`, and there are
`⌈len/d⌉` chunks -/
theorem checkPartialProducts_all_zero_iff (nums dens partials : List K) (zx zgx : K) (d : Nat)
    (hd : 0 < d) (hlen : nums.length = dens.length)
    (_hp : partials.length + 1 = (nums.length + d - 1) / d) :
    (∀ t ∈ @checkPartialProducts K (FOps.ofField K) nums dens partials zx zgx d, t = 0) ↔
    ∀ i, i < (nums.length + d - 1) / d →
      (zx :: partials ++ [zgx]).getD i 0 * ((nums.drop (i * d)).take d).prod
        = (zx :: partials ++ [zgx]).getD (i + 1) 0 * ((dens.drop (i * d)).take d).prod :=
  check_all_zero_iff nums dens partials zx zgx d hd hlen

/-- the model's `chunksOf` is the chunking used in the statement above -/
theorem chunksOf_spec {α : Type} (d : Nat) (hd : 0 < d) (xs : List α) :
    (chunksOf d xs).length = (xs.length + d - 1) / d ∧
    ∀ i, i < (xs.length + d - 1) / d → (chunksOf d xs).getD i [] = (xs.drop (i * d)).take d :=
  ⟨chunksOf_length d hd xs, chunksOf_getD d hd xs⟩

/-- (ii) telescoping soundness. The hypothesis "every element of `dens` is non-zero" is not needed
for this multiplicative form. -/
theorem checkPartialProducts_sound (nums dens partials : List K) (zx zgx : K) (d : Nat)
    (hd : 0 < d) (hlen : nums.length = dens.length)
    (hp : partials.length + 1 = (nums.length + d - 1) / d)
    (h : ∀ t ∈ @checkPartialProducts K (FOps.ofField K) nums dens partials zx zgx d, t = 0) :
    zgx * dens.prod = zx * nums.prod :=
  check_telescope nums dens partials zx zgx d hd hlen hp h

/-- (ii, prefix form) each accumulator is consistent with the products of the chunks before it -/
theorem checkPartialProducts_sound_prefix (nums dens partials : List K) (zx zgx : K) (d : Nat)
    (hd : 0 < d) (hlen : nums.length = dens.length)
    (h : ∀ t ∈ @checkPartialProducts K (FOps.ofField K) nums dens partials zx zgx d, t = 0)
    (i : Nat) (hi : i ≤ (nums.length + d - 1) / d) :
    (zx :: partials ++ [zgx]).getD i 0 * (dens.take (i * d)).prod
      = zx * (nums.take (i * d)).prod :=
  check_prefix nums dens partials zx zgx d hd hlen h i hi

/-- (ii′) quotient form, using that the denominators are non-zero -/
theorem checkPartialProducts_sound_div (nums dens partials : List K) (zx zgx : K) (d : Nat)
    (hd : 0 < d) (hlen : nums.length = dens.length)
    (hp : partials.length + 1 = (nums.length + d - 1) / d)
    (hne : ∀ x ∈ dens, x ≠ 0)
    (h : ∀ t ∈ @checkPartialProducts K (FOps.ofField K) nums dens partials zx zgx d, t = 0) :
    zgx = zx * (nums.prod / dens.prod) := by
  have h1 := check_telescope nums dens partials zx zgx d hd hlen hp h
  have h2 : dens.prod ≠ 0 := List.prod_ne_zero fun h0 => hne 0 h0 rfl
  field_simp
  exact h1

/-- (iii) completeness: honest running products pass the check -/
theorem checkPartialProducts_complete (nums dens partials : List K) (zx zgx : K) (d : Nat)
    (hd : 0 < d) (hlen : nums.length = dens.length)
    (hp : partials.length + 1 = (nums.length + d - 1) / d)
    (hne : ∀ x ∈ dens, x ≠ 0)
    (hpart : ∀ i, i < partials.length →
      partials.getD i 0 = zx * ∏ k ∈ Finset.range (i + 1),
        (((nums.drop (k * d)).take d).prod / ((dens.drop (k * d)).take d).prod))
    (hz : zgx = zx * ∏ k ∈ Finset.range ((nums.length + d - 1) / d),
        (((nums.drop (k * d)).take d).prod / ((dens.drop (k * d)).take d).prod)) :
    ∀ t ∈ @checkPartialProducts K (FOps.ofField K) nums dens partials zx zgx d, t = 0 :=
  check_complete nums dens partials zx zgx d hd hlen hp hne hpart hz

/-- 5 wires, chunks of 2: honest `partials = [z·(1·2)/(1·1), z·(1·2·3·4)/(1·1·2·3)]`,
`z_gx = z·(1·2·3·4·5)/(1·1·2·3·4)` with `z = 7` -/
example : @checkPartialProducts ℚ (FOps.ofField ℚ) [1, 2, 3, 4, 5] [1, 1, 2, 3, 4] [14, 28] 7 35 2
    = [0, 0, 0] := by
  norm_num [checkPartialProducts, chunksOf, List.range_succ, FOps.prod, FOps.zero, FOps.one]
/-- a wrong `z_gx` is caught -/
example : @checkPartialProducts ℚ (FOps.ofField ℚ) [1, 2, 3, 4, 5] [1, 1, 2, 3, 4] [14, 28] 7 36 2
    = [0, 0, -4] := by
  norm_num [checkPartialProducts, chunksOf, List.range_succ, FOps.prod, FOps.zero, FOps.one]

/-! ## D. `eval_l_0` -/

/-- on the subgroup `⟨ω⟩` of order `n`, `L_0` is the indicator of the identity -/
theorem evalL0_root (n : Nat) (_hn : n ≠ 0) (_hnK : (n : K) ≠ 0) (ω : K)
    (hω : IsPrimitiveRoot ω n) (k : Nat) :
    @evalL0 K (FOps.ofField K) n (ω ^ k) = if k % n = 0 then 1 else 0 :=
  Lemmas.PlonkAlg.evalL0_root n ω hω k

/-- off the point `1`, `L_0(x) · n · (x − 1) = x^n − 1` -/
theorem evalL0_mul (n : Nat) (hnK : (n : K) ≠ 0) (x : K) (hx : x ≠ 1) :
    @evalL0 K (FOps.ofField K) n x * ((n : K) * (x - 1)) = x ^ n - 1 :=
  Lemmas.PlonkAlg.evalL0_mul n hnK x hx

/-- any other `n`-th root of unity is a zero of `L_0` -/
theorem evalL0_of_pow_eq_one (n : Nat) (x : K) (hx : x ≠ 1) (hxn : x ^ n = 1) :
    @evalL0 K (FOps.ofField K) n x = 0 :=
  Lemmas.PlonkAlg.evalL0_of_pow_eq_one n x hx hxn

theorem evalL0_one (n : Nat) : @evalL0 K (FOps.ofField K) n 1 = 1 := by
  rw [evalL0_eq, if_pos rfl]

example : @evalL0 ℚ (FOps.ofField ℚ) 2 (-1) = 0 := by
  have h : IsPrimitiveRoot (-1 : ℚ) 2 := by
    rw [show (2 : ℕ) = 2 ^ 1 by norm_num]; exact IsPrimitiveRoot.neg_one 0 (by norm_num)
  simpa using evalL0_root 2 (by norm_num) (by norm_num) (-1 : ℚ) h 1
example : @evalL0 ℚ (FOps.ofField ℚ) 2 3 = 2 := by
  norm_num [evalL0_eq]

end P2.Props.C02
