/-
C16 (part a): `decompress_merkle_proofs ∘ compress_merkle_proofs` is the identity on honest Merkle
multi-proofs, for every tree height, cap height and list of queried indices — including lists in
which several queries share an index. Model: `P2.Model.PathCompression`.
-/
import P2.Lemmas.PathCompression
import P2.Lemmas.MerkleNode
import P2.Props.C12
namespace P2.Props.C16
open P2.Merkle P2.PathCompression P2.Lemmas.Merkle P2.Lemmas.PathCompression

variable {L D : Type}

/-- **Round trip against abstract node digests.** `node` gives the digest of every heap node
(leaf `i` is node `i + 2^height`, node `x` has children `2x`, `2x+1`); the honest proof of leaf `i`
is `honest node height capHeight i = [node (((i + 2^height) >> j) ^ 1) | j < height − capHeight]`.
Compressing the honest proofs of ANY index list (duplicates allowed) and decompressing gives the
proofs back. -/
theorem merkle_roundtrip_node (h : Hasher L D) (height capHeight : Nat) (hc : capHeight ≤ height)
    (leafAt : Nat → L) (node : Nat → D)
    (hleaf : ∀ i, i < 2 ^ height → node (i + 2 ^ height) = h.hashLeaf (leafAt i))
    (hnode : ∀ x, 1 ≤ x → x < 2 ^ height → node x = h.two (node (2 * x)) (node (2 * x + 1)))
    (is : List Nat) (his : ∀ i ∈ is, i < 2 ^ height) :
    decompress h (is.map leafAt) is
        (compress height capHeight is (is.map (honest node height capHeight))) height capHeight
      = some (is.map (honest node height capHeight)) :=
  roundtrip_abstract h height capHeight hc leafAt node hleaf hnode is his

/-- **B2.** For the tree built by `MerkleTree::new` over `2^height` leaves, any list `is` of leaf
indices (repeats allowed), `qleaves` the queried leaves and `proofs` the outputs of
`merkle_tree_prove` for these indices: decompressing the compressed proofs returns `proofs`. -/
theorem merkle_roundtrip (h : Hasher L D) (height capHeight : Nat) (leaves : List L)
    (hl : leaves.length = 2 ^ height) (hc : capHeight ≤ height)
    (is : List Nat) (his : ∀ i ∈ is, i < 2 ^ height)
    (qleaves : List L) (hq : qleaves.map some = is.map (leaves[·]?))
    (proofs : List (List D))
    (hproofs : proofs.map some = is.map fun i =>
      merkleTreeProve i (2 ^ height) height capHeight (build h height capHeight leaves).1) :
    decompress h qleaves is (compress height capHeight is proofs) height capHeight
      = some proofs := by
  have hpos : 0 < leaves.length := by rw [hl]; exact Nat.two_pow_pos _
  haveI : Inhabited L := ⟨leaves[0]⟩
  haveI : Inhabited D := ⟨h.hashLeaf default⟩
  have hq' : qleaves = is.map fun i => (leaves[i]?).getD default := by
    apply (List.map_inj_right (f := some) (fun _ _ => Option.some_inj.mp)).mp
    rw [hq, List.map_map]
    apply List.map_congr_left
    intro i hi
    have : i < leaves.length := by rw [hl]; exact his i hi
    simp [List.getElem?_eq_getElem this]
  have hp' : proofs = is.map (honest (nodeOf h height leaves) height capHeight) := by
    apply (List.map_inj_right (f := some) (fun _ _ => Option.some_inj.mp)).mp
    rw [hproofs, List.map_map]
    apply List.map_congr_left
    intro i hi
    rw [merkleTreeProve_eq_honest h height capHeight leaves hl hc i (his i hi)]
    rfl
  rw [hq', hp']
  apply roundtrip_abstract h height capHeight hc _ _ _ _ is his
  · intro i hi
    rw [nodeOf_leaf h height leaves hl i hi]
    have : i < leaves.length := by rw [hl]; exact hi
    simp [List.getElem?_eq_getElem this]
  · exact nodeOf_two h height leaves hl

/-- **B1.** The duplicate-free special case. -/
theorem merkle_roundtrip_nodup (h : Hasher L D) (height capHeight : Nat) (leaves : List L)
    (hl : leaves.length = 2 ^ height) (hc : capHeight ≤ height)
    (is : List Nat) (his : ∀ i ∈ is, i < 2 ^ height) (_hnd : is.Nodup)
    (qleaves : List L) (hq : qleaves.map some = is.map (leaves[·]?))
    (proofs : List (List D))
    (hproofs : proofs.map some = is.map fun i =>
      merkleTreeProve i (2 ^ height) height capHeight (build h height capHeight leaves).1) :
    decompress h qleaves is (compress height capHeight is proofs) height capHeight
      = some proofs :=
  merkle_roundtrip h height capHeight leaves hl hc is his qleaves hq proofs hproofs

/-- non-vacuity: toy hasher, 8 leaves, cap height 1, queries `[5, 2, 5, 3]` (a repeated index and
a sibling pair): compression really drops siblings and the round trip restores the proofs. -/
example :
    let leaves := [3, 5, 7, 9, 11, 13, 15, 17]
    let digests := (build P2.Props.C12.toy 3 1 leaves).1
    let proofs : List (List Nat) := [[12, 93], [10, 33], [12, 93], [8, 33]]
    ([5, 2, 5, 3].map fun i => merkleTreeProve i 8 3 1 digests) = proofs.map some ∧
    compress 3 1 [5, 2, 5, 3] proofs = [[12, 93], [33], [], []] ∧
    decompress P2.Props.C12.toy [13, 7, 13, 9] [5, 2, 5, 3] [[12, 93], [33], [], []] 3 1
      = some proofs := by decide

end P2.Props.C16
