/-
C15 (translator tie + finite facts): the 6-bit reversal table extracted from util/src/lib.rs is
bit reversal; the index arithmetic of `reverse_index_bits_small` agrees with `bitrev` for every
`n_power ≤ 6`; chunking thresholds.
-/
import P2.Gen.Util
import P2.Model.BitRev
namespace P2.Props.C15Gen
open P2 P2.BitRev

theorem table_is_bitrev6 : Gen.BIT_REVERSE_6BIT.length = 64 ∧ ∀ i, i < 64 → table6 i = bitrev 6 i := by
  decide +kernel

/-- `reverse_index_bits_small`: for every `n_power ≤ 6` and `i < 2^n_power` the source index is the
`n_power`-bit reversal -/
theorem srcSmall_eq_bitrev : ∀ nPower, nPower ≤ 6 → ∀ i, i < 2 ^ nPower → srcSmall nPower i = bitrev nPower i := by
  decide +kernel

/-- "Ensure that SMALL_ARR_SIZE >= 4 * BIG_T_SIZE" -/
theorem thresholds : Gen.SMALL_ARR_SIZE ≥ 4 * Gen.BIG_T_SIZE ∧ Gen.BIG_T_SIZE = 2 ^ 14 ∧ Gen.SMALL_ARR_SIZE = 2 ^ 16 := by
  decide

/-- the chunked in-place variant computes bit reversal — checked exhaustively for every
`lb_n ≤ 10` (all indices); the general statement is in `P2.Props.C15`. -/
theorem chunkedMap_eq_bitrev_small : ∀ lbN, lbN ≤ 10 → ∀ i, i < 2 ^ lbN → chunkedMap lbN i = bitrev lbN i := by
  decide +kernel

end P2.Props.C15Gen
