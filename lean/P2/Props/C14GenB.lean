/-
C14 (translator tie): the extension fields' two-adic generator constants extracted from /repo on this run,
evaluated with the model's own schoolbook extension product: they have exactly their declared orders.
(The companion file P2/Findings/FC14_1.lean holds the kernel-checked NEGATION of "EXT_MULTIPLICATIVE_GROUP_GENERATOR
generates" for D = 2, 4 — known finding F-C14-1; it describes a defect, so it is deliberately NOT an
obligation of any check: a repair of the constants must not raise an alarm.)
-/
import P2.Props.C14Gen
namespace P2.Props.C14GenB
open P2 P2.Props.C14Gen

def extPowAux (p : ExtParams) : Nat → Ext.E → Nat → Ext.E → Ext.E
  | 0, _, _, acc => acc
  | f + 1, b, e, acc =>
    if e = 0 then acc else
    extPowAux p f (Ext.mul p b b) (e / 2) (if e % 2 = 1 then Ext.mul p acc b else acc)
/-- square-and-multiply in the extension (fuel 400 ≥ bit length of every exponent used here) -/
def extPow (p : ExtParams) (b : Ext.E) (e : Nat) : Ext.E := extPowAux p 400 b e (Ext.ofBase p 1)
def extOfList (l : List Nat) : Ext.E := (l.map GL.ofNat).toArray

/-- what the code does rely on: the two-adic generators of the extensions have order exactly `2^TWO_ADICITY`
(33 for D = 2, 34 for D = 4), evaluated in the model's extension arithmetic -/
theorem ext_pow2_gen_orders :
    extPow ext2P (extOfList Gen.EXT2_POW2_GEN) (2 ^ 33) = Ext.ofBase ext2P 1 ∧
    extPow ext2P (extOfList Gen.EXT2_POW2_GEN) (2 ^ 32) ≠ Ext.ofBase ext2P 1 ∧
    extPow ext4P (extOfList Gen.EXT4_POW2_GEN) (2 ^ 34) = Ext.ofBase ext4P 1 ∧
    extPow ext4P (extOfList Gen.EXT4_POW2_GEN) (2 ^ 33) ≠ Ext.ofBase ext4P 1 := by
  decide +kernel

end P2.Props.C14GenB
