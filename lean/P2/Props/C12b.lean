/-
C12 (continued): correctness of the Merkle-tree construction `build`/`fillSubtree` and of the
prover's index arithmetic `merkleTreeProve` in `P2.Model.Merkle`, for an arbitrary hasher,
all heights, all cap heights and all positions.
-/
import P2.Props.C12
import P2.Lemmas.Merkle
namespace P2.Props.C12
open P2.Merkle P2.Lemmas.Merkle

variable {L D : Type}

/-- **A1.** `fill_subtree` on `2^k` leaves returns the textbook root (the single digest left after
hashing the leaves pairwise level by level `k` times) and a digest buffer of `2·(2^k − 1)` entries. -/
theorem fillSubtree_root (h : Hasher L D) (k : Nat) (leaves : List L)
    (hl : leaves.length = 2 ^ k) :
    ∃ r, (fillSubtree h k leaves).2 = some r ∧ capOf h k 0 leaves = [r] ∧
      (fillSubtree h k leaves).1.length = 2 * (2 ^ k - 1) := by
  obtain ⟨buf, r, e, hr, hb⟩ := fillSubtree_spec h k leaves hl
  exact ⟨r, by rw [e], by rw [capOf_eq_lv]; exact hr, by rw [e]; exact hb⟩

/-- **A2.** The cap computed by `MerkleTree::new` equals hashing the leaves and then hashing
pairwise, level by level, `k − capHeight` times. -/
theorem cap_eq_levelwise (h : Hasher L D) (k capHeight : Nat) (leaves : List L)
    (hl : leaves.length = 2 ^ k) (hc : capHeight ≤ k) :
    (build h k capHeight leaves).2 = (capOf h k capHeight leaves).map some := by
  have hpow : 2 ^ k = 2 ^ capHeight * 2 ^ (k - capHeight) := by
    rw [← Nat.pow_add]; congr 1; omega
  rw [build_eq h k capHeight leaves hl hc, capOf_eq_lv, List.map_map]
  exact chunk_roots h (k - capHeight) (2 ^ capHeight) leaves (by rw [hl, hpow])

/-- **A3 (layout correctness).** For every leaf position `i` of the tree built by
`MerkleTree::new`, the index arithmetic of `merkle_tree_prove` stays inside the digest buffer,
returns `k − capHeight` siblings, and the proof it returns is accepted by
`verify_merkle_proof_to_cap` for `leaves[i]` at index `i` against the tree's cap. -/
theorem prove_verifies [DecidableEq D] (h : Hasher L D) (k capHeight : Nat) (leaves : List L)
    (hl : leaves.length = 2 ^ k) (hc : capHeight ≤ k) (i : Nat) (hi : i < 2 ^ k)
    (cap : List D) (hcap : (build h k capHeight leaves).2 = cap.map some) :
    ∃ π, merkleTreeProve i (2 ^ k) k capHeight (build h k capHeight leaves).1 = some π ∧
      π.length = k - capHeight ∧
      verifyToCap h (leaves[i]'(by omega)) i cap π = .ok := by
  obtain ⟨π, h1, h2, _, h4⟩ := prove_spec h k capHeight leaves hl hc i hi cap hcap
  exact ⟨π, h1, h2, h4⟩

/-- **A3, sharpened.** The `j`-th entry of the proof returned by `merkle_tree_prove` for leaf `i`
is entry `(i >> j) ^ 1` of level `j` of the textbook tree (`capOf h k (k − j) leaves` is the list
of all `2^(k−j)` level-`j` digests): the buffer entry read at layer `j` is the digest of the
sibling of the `j`-th ancestor of leaf `i`. -/
theorem prove_siblings [DecidableEq D] (h : Hasher L D) (k capHeight : Nat) (leaves : List L)
    (hl : leaves.length = 2 ^ k) (hc : capHeight ≤ k) (i : Nat) (hi : i < 2 ^ k) :
    ∃ π, merkleTreeProve i (2 ^ k) k capHeight (build h k capHeight leaves).1 = some π ∧
      π.length = k - capHeight ∧
      (∀ j, j < k - capHeight → π[j]? = (capOf h k (k - j) leaves)[(i / 2 ^ j) ^^^ 1]?) ∧
      verifyToCap h (leaves[i]'(by omega)) i (capOf h k capHeight leaves) π = .ok := by
  obtain ⟨π, h1, h2, h3, h4⟩ := prove_spec_whole h k capHeight leaves hl hc i hi _
    (cap_eq_levelwise h k capHeight leaves hl hc)
  refine ⟨π, h1, h2, ?_, h4⟩
  intro j hj
  rw [h3 j hj, capOf_eq_lv, show k - (k - j) = j by omega]

/-- **A4 (non-vacuity).** The toy hasher on four leaves with cap height 1 and 0: the cap is the
level-wise one, every `merkle_tree_prove` output verifies, and a wrong leaf is rejected. -/
example :
    (build toy 2 1 [3, 5, 7, 9]).2 = (capOf toy 2 1 [3, 5, 7, 9]).map some ∧
    capOf toy 2 1 [3, 5, 7, 9] = [33, 53] ∧
    merkleTreeProve 0 4 2 1 (build toy 2 1 [3, 5, 7, 9]).1 = some [6] ∧
    merkleTreeProve 1 4 2 1 (build toy 2 1 [3, 5, 7, 9]).1 = some [4] ∧
    merkleTreeProve 2 4 2 1 (build toy 2 1 [3, 5, 7, 9]).1 = some [10] ∧
    merkleTreeProve 3 4 2 1 (build toy 2 1 [3, 5, 7, 9]).1 = some [8] ∧
    verifyToCap toy 3 0 [33, 53] [6] = .ok ∧ verifyToCap toy 5 1 [33, 53] [4] = .ok ∧
    verifyToCap toy 7 2 [33, 53] [10] = .ok ∧ verifyToCap toy 9 3 [33, 53] [8] = .ok ∧
    verifyToCap toy 7 3 [33, 53] [8] = .err := by decide

example :
    (build toy 2 0 [3, 5, 7, 9]).2 = (capOf toy 2 0 [3, 5, 7, 9]).map some ∧
    capOf toy 2 0 [3, 5, 7, 9] = [232] ∧
    merkleTreeProve 2 4 2 0 (build toy 2 0 [3, 5, 7, 9]).1 = some [10, 33] ∧
    verifyToCap toy 7 2 [232] [10, 33] = .ok ∧ verifyToCap toy 7 2 [232] [33, 10] = .err := by
  decide

end P2.Props.C12
