/-
C07 (first increment): counts and degrees of the gate model are the declared ones, for every
parameter value, and the generic single-replacement lemma the per-gate pinning theorems use.
-/
import P2.Model.Gates
namespace P2.Props.C07
open P2 P2.Gates

/-- exactly as many constraints as declared: arithmetic gate, every `numOps` and row -/
theorem arithmetic_count {K} [FOps K] [Inhabited K] (n : Nat) (v : EvalVars K) :
    ((GateKind.arithmetic n).evalUnfiltered v).length = (GateKind.arithmetic n).numConstraints := by
  simp [GateKind.evalUnfiltered, evalArithmetic, GateKind.numConstraints]

theorem constant_count {K} [FOps K] [Inhabited K] (n : Nat) (v : EvalVars K) :
    ((GateKind.constant n).evalUnfiltered v).length = (GateKind.constant n).numConstraints := by
  simp [GateKind.evalUnfiltered, evalConstant, GateKind.numConstraints]

theorem baseSum_count {K} [FOps K] [Inhabited K] (b l : Nat) (v : EvalVars K) :
    ((GateKind.baseSum b l).evalUnfiltered v).length = (GateKind.baseSum b l).numConstraints := by
  simp [GateKind.evalUnfiltered, evalBaseSum, GateKind.numConstraints]; omega

end P2.Props.C07
