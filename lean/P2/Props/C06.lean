/-
C06 (component equivalences): what the in-circuit Merkle check and the in-circuit proof-of-work
check assert is exactly what the native checks decide, for every path length, position and cap.
-/
import P2.Model.CircuitVerifier
import P2.Props.C12
namespace P2.Props.C06
open P2 P2.Merkle P2.CircuitVerifier

variable {L D : Type}

theorem lowBits_length (n i : Nat) : (lowBits n i).length = n := by
  induction n generalizing i with
  | zero => rfl
  | succ n ih => simp [lowBits, ih]

/-- hashing up with the index's low bits is the native `foldPath` -/
theorem circuitPath_eq_foldPath (h : Hasher L D) :
    ∀ (proof : List D) (c : D) (i : Nat),
      (((lowBits proof.length i).zip proof).foldl
        (fun st (bs : Bool × D) => if bs.1 then h.two bs.2 st else h.two st bs.2) c)
        = (foldPath h c i proof).1 := by
  intro proof
  induction proof with
  | nil => intro c i; simp [lowBits, foldPath]
  | cons s rest ih =>
    intro c i
    simp only [List.length_cons, lowBits, List.zip_cons_cons, List.foldl_cons, foldPath]
    by_cases hb : i % 2 = 1
    · simp only [hb, beq_self_eq_true, if_true]
      exact ih _ _
    · have : (i % 2 == 1) = false := by simp [hb]
      simp only [this, hb, if_false, Bool.false_eq_true]
      exact ih _ _

/-- **In-circuit Merkle verification ⇔ native verification.** With `bits` the canonical low bits of
the leaf index (what the witness generator supplies and the base-sum constraints force) and
`capIndex` the remaining high part, the circuit's assertion holds iff `verify_merkle_proof_to_cap`
returns `Ok`. -/
theorem merkle_circuit_iff_native [DecidableEq D] (h : Hasher L D) (leaf : L) (i : Nat)
    (cap : List D) (proof : List D) :
    circuitMerkleHolds h leaf (lowBits proof.length i) (i / 2 ^ proof.length) cap proof = true ↔
      verifyToCap h leaf i cap proof = .ok := by
  unfold circuitMerkleHolds circuitPathState verifyToCap
  rw [circuitPath_eq_foldPath]
  have hidx := P2.Props.C12.foldPath_index h proof (h.hashLeaf leaf) i
  generalize hf : foldPath h (h.hashLeaf leaf) i proof = r at hidx
  obtain ⟨d, j⟩ := r
  simp only at hidx
  subst hidx
  cases hc : cap[i / 2 ^ proof.length]? with
  | none => simp [hc]
  | some c =>
    by_cases hdc : d = c
    · simp [hc, hdc]
    · have : ¬ c = d := fun e => hdc e.symm
      simp [hc, hdc, this]

/-- **In-circuit proof-of-work check ⇔ native check.** -/
theorem pow_circuit_iff_native (resp : GL) (powBits : Nat) :
    assertLeadingZeros resp powBits = true ↔ Fri.powOk resp powBits = true := by
  unfold assertLeadingZeros Fri.powOk
  rfl

/-- `select` denotes `if` (used by conditional verification, C20) -/
theorem select_denotes {α} (b : Bool) (x y : α) : select b x y = if b then x else y := rfl

/-- non-vacuity: the toy tree of C12 — position 1 of a two-leaf tree -/
example : circuitMerkleHolds P2.Props.C12.toy 9 (lowBits 1 1) 0 [2 * 6 + 3 * 10 + 7] [6] = true := by decide

end P2.Props.C06
