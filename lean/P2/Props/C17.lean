/-
C17: binary encodings round-trip. Model: `P2.Model.Codec` (a transcription of the `Read` / `Write`
traits of `plonky2/src/util/serialization/mod.rs`; the executable model is compared byte for byte
with `to_bytes` / `from_bytes` of the real proofs by the correspondence harness).

* `roundtrip`             — the generic theorem, by induction on the codec:
                            `WF c v → read c (write c v ++ rest) = some (v, rest)`;
* `read_consumes`         — decoding never reads outside its input: the unread bytes are a suffix and
                            the consumed prefix is what separates them (`decode_total`);
* instances for `ProofWithPublicInputs`, `Proof`, `FriProof`, `CompressedProof`, … and the
  NON-self-delimiting `CompressedProofWithPublicInputs` (round trip only when fewer than 8 bytes follow);
* `WF` spelled out for the leaf codecs, and an explicit shape predicate `ProofOk` that implies `WF`
  for plain proofs: every length is the one the common data prescribes, Merkle proofs have fewer
  than 256 siblings, the number of public inputs fits a `u64`;
* the three input-driven lengths are bounded by the input: `publicInputs_bounded`,
  `merkleProof_bounded`, `compressed_publicInputs_bounded`;
* `u8_guard_necessary`    — a 256-sibling Merkle proof does NOT round-trip (the Rust writer panics
                            there: `expect("Merkle proof length must fit in u8.")`).
-/
import P2.Lemmas.C17
namespace P2.Props.C17
open P2 P2.Merkle P2.Codec P2.Codec.Codec P2.Lemmas.C17 P2.Fri P2.Plonk P2.Compress

/-! ### the generic theorems -/

/-- **Round trip, for every codec.** If `v` satisfies the decidable side condition `WF c v` (lengths
as prescribed, naturals in range, transported values in the image of their `map`), then decoding
`write c v` followed by ANY bytes returns `v` and leaves exactly those bytes unread. -/
theorem roundtrip {α : Type} (c : Codec α) (v : α) (rest : Bytes) (h : WF c v) :
    c.read (c.write v ++ rest) = some (v, rest) :=
  read_write c v rest h

/-- in particular `from_bytes (to_bytes v) = v` -/
theorem roundtrip_exact {α : Type} (c : Codec α) (v : α) (h : WF c v) :
    c.read (c.write v) = some (v, []) := by
  simpa using read_write c v [] h

/-- **Decoding consumes a prefix** (`decode_total` / `read_consumes`): on success the unread bytes
are a suffix of the input, so the decoder looked at no more than `bs.length − rest.length` bytes and
`rest.length ≤ bs.length`. On any input `read` returns (it is a total function): `none` is the
`Err(IoError)` of the Rust reader. -/
theorem read_consumes {α : Type} (c : Codec α) (bs : Bytes) (v : α) (rest : Bytes)
    (h : c.read bs = some (v, rest)) :
    ∃ pre, bs = pre ++ rest ∧ pre.length = bs.length - rest.length ∧ rest.length ≤ bs.length := by
  obtain ⟨pre, rfl⟩ := read_suffix c bs v rest h
  exact ⟨pre, rfl, by simp, by simp⟩

/-- a decoded `seq` has exactly the prescribed number of items: no length taken from common data
can be exceeded or undercut by the input -/
theorem seq_length {α : Type} (n : Nat) (k : Nat → Codec α) (bs : Bytes) (xs : List α) (rest : Bytes)
    (h : (Codec.seq n k).read bs = some (xs, rest)) : xs.length = n :=
  read_seq_length n k bs xs rest h

/-! ### instances -/

theorem proofWithPis_roundtrip (s : Shape) (p : ProofWithPis) (rest : Bytes) (h : WF (proofWithPis s) p) :
    (proofWithPis s).read ((proofWithPis s).write p ++ rest) = some (p, rest) := roundtrip _ p rest h

theorem proof_roundtrip (s : Shape) (p : Plonk.Proof) (rest : Bytes) (h : WF (Codec.proof s) p) :
    (Codec.proof s).read ((Codec.proof s).write p ++ rest) = some (p, rest) := roundtrip _ p rest h

theorem friProof_roundtrip (s : Shape) (p : Fri.Proof) (rest : Bytes) (h : WF (friProof s) p) :
    (friProof s).read ((friProof s).write p ++ rest) = some (p, rest) := roundtrip _ p rest h

theorem openingSet_roundtrip (s : Shape) (o : OpeningSet) (rest : Bytes) (h : WF (openingSet s) o) :
    (openingSet s).read ((openingSet s).write o ++ rest) = some (o, rest) := roundtrip _ o rest h

theorem merkleCap_roundtrip (capHeight : Nat) (cap : List Digest) (rest : Bytes) (h : WF (merkleCap capHeight) cap) :
    (merkleCap capHeight).read ((merkleCap capHeight).write cap ++ rest) = some (cap, rest) := roundtrip _ cap rest h

theorem merkleProof_roundtrip (p : List Digest) (rest : Bytes) (h : WF merkleProof p) :
    merkleProof.read (merkleProof.write p ++ rest) = some (p, rest) := roundtrip _ p rest h

theorem compressedFriProof_roundtrip (s : Shape) (p : CompressedFriProof) (rest : Bytes)
    (h : WF (compressedFriProof s) p) :
    (compressedFriProof s).read ((compressedFriProof s).write p ++ rest) = some (p, rest) := roundtrip _ p rest h

theorem compressedProof_roundtrip (s : Shape) (p : CompressedProof) (rest : Bytes) (h : WF (compressedProof s) p) :
    (compressedProof s).read ((compressedProof s).write p ++ rest) = some (p, rest) := roundtrip _ p rest h

/-! ### compressed proofs with public inputs: not self-delimiting -/

theorem leBytes8 (n : Nat) : leBytes 8 n =
    [(n % 256).toUInt8, (n / 256 % 256).toUInt8, (n / 256 / 256 % 256).toUInt8,
     (n / 256 / 256 / 256 % 256).toUInt8, (n / 256 / 256 / 256 / 256 % 256).toUInt8,
     (n / 256 / 256 / 256 / 256 / 256 % 256).toUInt8, (n / 256 / 256 / 256 / 256 / 256 / 256 % 256).toUInt8,
     (n / 256 / 256 / 256 / 256 / 256 / 256 / 256 % 256).toUInt8] := rfl

theorem writeFields_cons (x : GL) (xs : List GL) (n : Nat) :
    (vecN (n + 1) field).write (x :: xs) = leBytes 8 x.val ++ (vecN n field).write xs := by
  simp only [vecN, Codec.write, writeSeq, field]
  congr 1
  -- `writeSeq` with a constant item codec does not depend on the start index
  have : ∀ (ys : List GL) (i j : Nat),
      writeSeq (fun _ y => (Codec.map GL.ofNat (fun x => x.val) (Codec.nat 8)).write y) i ys =
      writeSeq (fun _ y => (Codec.map GL.ofNat (fun x => x.val) (Codec.nat 8)).write y) j ys := by
    intro ys; induction ys with
    | nil => intros; rfl
    | cons y ys ih => intro i j; simp only [writeSeq]; rw [ih (i + 1) (j + 1)]
  exact this xs _ _

theorem writeFields_nil : (vecN 0 field).write ([] : List GL) = [] := rfl

/-- `read_field_vec(remaining() / 8)` reads back the public inputs when fewer than 8 bytes follow -/
theorem readFieldsGreedy_write (pis : List GL) (tail : Bytes) (ht : tail.length < 8) :
    readFieldsGreedy ((vecN pis.length field).write pis ++ tail) = (pis, tail) := by
  induction pis with
  | nil =>
    rw [List.length_nil, writeFields_nil, List.nil_append]
    match tail, ht with
    | [], _ => rfl
    | [_], _ => rfl
    | [_, _], _ => rfl
    | [_, _, _], _ => rfl
    | [_, _, _, _], _ => rfl
    | [_, _, _, _, _], _ => rfl
    | [_, _, _, _, _, _], _ => rfl
    | [_, _, _, _, _, _, _], _ => rfl
    | _ :: _ :: _ :: _ :: _ :: _ :: _ :: _ :: _, h => simp at h; omega
  | cons x xs ih =>
    rw [List.length_cons, writeFields_cons, leBytes8]
    simp only [List.cons_append, List.nil_append, readFieldsGreedy, ih, toNat_toUInt8_mod]
    congr 2
    have hx : x.val < 18446744069414584321 := x.isLt
    have : x.val % 256 + 256 * (x.val / 256 % 256 + 256 * (x.val / 256 / 256 % 256 + 256 *
        (x.val / 256 / 256 / 256 % 256 + 256 * (x.val / 256 / 256 / 256 / 256 % 256 + 256 *
        (x.val / 256 / 256 / 256 / 256 / 256 % 256 + 256 * (x.val / 256 / 256 / 256 / 256 / 256 / 256 % 256 +
        256 * (x.val / 256 / 256 / 256 / 256 / 256 / 256 / 256 % 256))))))) = x.val := by omega
    rw [this]
    exact Fin.ext (by simp [GL.ofNat, Fin.ofNat, Nat.mod_eq_of_lt x.isLt])

/-- **Compressed proofs with public inputs round-trip when (almost) nothing follows them.** The
encoding carries no public-input count: everything after the proof is read as public inputs, and a
fragment of fewer than 8 bytes is left over. (With 8 or more bytes following, those bytes are
swallowed as further public inputs — the encoding is not self-delimiting.) -/
theorem compressedProofWithPis_roundtrip (s : Shape) (p : CompressedProofWithPis) (tail : Bytes)
    (h : WF (compressedProof s) p.proof) (ht : tail.length < 8) :
    readCompressedProofWithPis s (writeCompressedProofWithPis s p ++ tail) = some (p, tail) := by
  unfold readCompressedProofWithPis writeCompressedProofWithPis
  rw [List.append_assoc, read_write _ _ _ h]
  simp only [readFieldsGreedy_write p.publicInputs tail ht]

/-- decoding a compressed proof with public inputs consumes a prefix too, and leaves < 8 bytes -/
theorem readFieldsGreedy_spec (bs : Bytes) :
    (readFieldsGreedy bs).2.length < 8 ∧
    bs.length = 8 * (readFieldsGreedy bs).1.length + (readFieldsGreedy bs).2.length ∧
    ∃ pre, bs = pre ++ (readFieldsGreedy bs).2 := by
  induction bs using readFieldsGreedy.induct with
  | case1 b0 b1 b2 b3 b4 b5 b6 b7 rest xs r hrec ih =>
    simp only [readFieldsGreedy, hrec] at ih ⊢
    obtain ⟨h1, h2, pre, h3⟩ := ih
    refine ⟨h1, by simp [h2]; omega, b0 :: b1 :: b2 :: b3 :: b4 :: b5 :: b6 :: b7 :: pre, ?_⟩
    simp [← h3]
  | case2 bs hne =>
    have : readFieldsGreedy bs = ([], bs) := by
      unfold readFieldsGreedy
      split
      · rename_i b0 b1 b2 b3 b4 b5 b6 b7 rest
        exact absurd rfl (hne b0 b1 b2 b3 b4 b5 b6 b7 rest)
      · rfl
    rw [this]
    refine ⟨?_, by simp, [], rfl⟩
    match bs, hne with
    | [], _ => simp
    | [_], _ => simp
    | [_, _], _ => simp
    | [_, _, _], _ => simp
    | [_, _, _, _], _ => simp
    | [_, _, _, _, _], _ => simp
    | [_, _, _, _, _, _], _ => simp
    | [_, _, _, _, _, _, _], _ => simp
    | b0 :: b1 :: b2 :: b3 :: b4 :: b5 :: b6 :: b7 :: rest, h => exact absurd rfl (h b0 b1 b2 b3 b4 b5 b6 b7 rest)

/-- the number of public inputs of a decoded compressed proof is bounded by the input length -/
theorem compressed_publicInputs_bounded (s : Shape) (bs : Bytes) (p : CompressedProofWithPis) (rest : Bytes)
    (h : readCompressedProofWithPis s bs = some (p, rest)) :
    8 * p.publicInputs.length + rest.length ≤ bs.length ∧ rest.length < 8 ∧ ∃ pre, bs = pre ++ rest := by
  unfold readCompressedProofWithPis at h
  split at h
  · simp at h
  · rename_i q r hq
    obtain ⟨pre, rfl⟩ := read_suffix _ _ _ _ hq
    obtain ⟨h1, h2, pre2, h3⟩ := readFieldsGreedy_spec r
    simp only [Option.some.injEq, Prod.mk.injEq] at h
    obtain ⟨rfl, rfl⟩ := h
    refine ⟨by simp; omega, h1, pre ++ pre2, ?_⟩
    rw [List.append_assoc, ← h3]

/-! ### the side condition, spelled out -/

theorem WF_field (x : GL) : WF field x := by
  simp only [WF, field, wf, Bool.and_eq_true, decide_eq_true_eq]
  refine ⟨Fin.ext (by simp [GL.ofNat, Fin.ofNat, Nat.mod_eq_of_lt x.isLt]), ?_⟩
  have : x.val < 18446744069414584321 := x.isLt
  omega

theorem WF_fieldExt (x : GL2) : WF fieldExt x := by
  have h1 := WF_field x.a
  have h2 := WF_field x.b
  simp only [WF] at h1 h2
  simp only [WF, fieldExt, pair, wf, h1, h2, Bool.and_eq_true, decide_eq_true_eq, and_self]

theorem allSeq_const_iff {α} (p : α → Bool) (xs : List α) (i : Nat) :
    allSeq (fun _ x => p x) i xs = true ↔ ∀ x ∈ xs, p x = true := by
  induction xs generalizing i with
  | nil => simp [allSeq]
  | cons y ys ih => simp [allSeq, ih (i + 1)]

theorem WF_vecN {α : Type} (n : Nat) (c : Codec α) (xs : List α) :
    WF (vecN n c) xs ↔ xs.length = n ∧ ∀ x ∈ xs, WF c x := by
  simp only [WF, vecN, wf, Bool.and_eq_true, beq_iff_eq, allSeq_const_iff]

theorem WF_vecLenK {α : Type} [DecidableEq α] (k : Nat) (c : Codec α) (xs : List α) :
    WF (vecLenK k c) xs ↔ xs.length < 256 ^ k ∧ ∀ x ∈ xs, WF c x := by
  simp only [WF, vecLenK, vecN, wf, Bool.and_eq_true, beq_iff_eq, allSeq_const_iff, decide_eq_true_eq,
    true_and]

/-- a hash is encodable iff it has four elements -/
theorem WF_hash (d : Digest) : WF hash d ↔ d.length = 4 := by
  show WF (vecN 4 field) d ↔ _
  rw [WF_vecN]
  exact ⟨fun h => h.1, fun h => ⟨h, fun x _ => WF_field x⟩⟩

/-- a Merkle cap is encodable iff it has `2^capHeight` four-element hashes -/
theorem WF_merkleCap (capHeight : Nat) (cap : List Digest) :
    WF (merkleCap capHeight) cap ↔ cap.length = 2 ^ capHeight ∧ ∀ d ∈ cap, d.length = 4 := by
  simp only [merkleCap, WF_vecN, WF_hash]

/-- a Merkle proof is encodable iff it has FEWER THAN 256 siblings (the count is one byte), each a
four-element hash -/
theorem WF_merkleProof (p : List Digest) :
    WF merkleProof p ↔ p.length < 256 ∧ ∀ d ∈ p, d.length = 4 := by
  simp only [merkleProof, vecLenU8, WF_vecLenK, WF_hash, Nat.pow_one]

/-- public inputs are encodable iff their number fits the 8-byte count -/
theorem WF_publicInputs (pis : List GL) : WF (vecLen field) pis ↔ pis.length < 2 ^ 64 := by
  simp only [vecLen, WF_vecLenK]
  exact ⟨fun h => h.1, fun h => ⟨h, fun x _ => WF_field x⟩⟩

/-- lists of extension elements of a prescribed length are encodable -/
theorem WF_exts (n : Nat) (xs : List GL2) : WF (vecN n fieldExt) xs ↔ xs.length = n := by
  rw [WF_vecN]
  exact ⟨fun h => h.1, fun h => ⟨h, fun x _ => WF_fieldExt x⟩⟩

theorem WF_fields (n : Nat) (xs : List GL) : WF (vecN n field) xs ↔ xs.length = n := by
  rw [WF_vecN]
  exact ⟨fun h => h.1, fun h => ⟨h, fun x _ => WF_field x⟩⟩

/-! ### the side condition of a plain proof, as an explicit shape predicate -/

theorem WF_pair {α β : Type} (a : Codec α) (b : Codec β) (x : α × β) :
    WF (pair a b) x ↔ WF a x.1 ∧ WF b x.2 := by
  obtain ⟨x1, x2⟩ := x
  simp only [WF, pair, wf, Bool.and_eq_true]

theorem WF_map {α β : Type} [DecidableEq β] (f : α → β) (g : β → α) (c : Codec α) (b : β) (hfg : f (g b) = b) :
    WF (Codec.map f g c) b ↔ WF c (g b) := by
  simp only [WF, wf, Bool.and_eq_true, decide_eq_true_eq, hfg, true_and]

theorem allSeq_iff {α} (p : Nat → α → Bool) (xs : List α) (i : Nat) :
    allSeq p i xs = true ↔ ∀ j x, xs[j]? = some x → p (i + j) x = true := by
  refine ⟨allSeq_getElem? p xs i, ?_⟩
  induction xs generalizing i with
  | nil => intro _; rfl
  | cons y ys ih =>
    intro h
    simp only [allSeq, Bool.and_eq_true]
    refine ⟨by simpa using h 0 y (by simp), ih (i + 1) (fun j x hx => ?_)⟩
    have := h (j + 1) x (by simpa using hx)
    simpa [Nat.add_assoc, Nat.add_comm 1 j] using this

theorem WF_seq {α : Type} (n : Nat) (k : Nat → Codec α) (xs : List α) :
    WF (Codec.seq n k) xs ↔ xs.length = n ∧ ∀ j x, xs[j]? = some x → WF (k j) x := by
  simp only [WF, wf, Bool.and_eq_true, beq_iff_eq, allSeq_iff, Nat.zero_add]

/-- a Merkle cap of the right size -/
def CapOk (s : Shape) (cap : List Digest) : Prop := cap.length = 2 ^ s.capHeight ∧ ∀ d ∈ cap, d.length = 4
/-- a Merkle proof the one-byte count can describe -/
def PathOk (p : List Digest) : Prop := p.length < 256 ∧ ∀ d ∈ p, d.length = 4

/-- `OpeningSet`: every list has the length `read_opening_set` takes from the common data -/
def OpeningsOk (s : Shape) (o : OpeningSet) : Prop :=
  o.constants.length = s.numConstants ∧ o.plonkSigmas.length = s.numRoutedWires ∧
  o.wires.length = s.numWires ∧ o.plonkZs.length = s.numChallenges ∧ o.plonkZsNext.length = s.numChallenges ∧
  o.lookupZs.length = s.numChallenges * s.numLookupPolys ∧ o.lookupZsNext.length = s.numChallenges * s.numLookupPolys ∧
  o.partialProducts.length = s.numPartialProducts * s.numChallenges ∧
  o.quotientPolys.length = s.quotientDegreeFactor * s.numChallenges

theorem WF_openingSet (s : Shape) (o : OpeningSet) : WF (openingSet s) o ↔ OpeningsOk s o := by
  unfold openingSet OpeningsOk
  rw [WF_map _ _ _ _ (by cases o; rfl)]
  simp only [WF_pair, WF_exts]

/-- `FriInitialTreeProof`: four (leaf, path) pairs, leaf `i` of the length of oracle `i` -/
def InitialOk (s : Shape) (ini : List (List GL × List Digest)) : Prop :=
  ini.length = 4 ∧ ∀ i x, ini[i]? = some x → x.1.length = leafLen s i ∧ PathOk x.2

theorem WF_initialTreeProof (s : Shape) (ini : List (List GL × List Digest)) :
    WF (initialTreeProof s) ini ↔ InitialOk s ini := by
  unfold initialTreeProof InitialOk PathOk
  simp only [WF_seq, WF_pair, WF_fields, WF_merkleProof]

/-- `FriQueryStep` with `n` evaluations -/
def StepOk (n : Nat) (st : QueryStep) : Prop := st.evals.length = n ∧ PathOk st.merkleProof

theorem WF_queryStep (n : Nat) (st : QueryStep) : WF (queryStep n) st ↔ StepOk n st := by
  unfold queryStep StepOk PathOk
  rw [WF_map _ _ _ _ (by cases st; rfl)]
  simp only [WF_pair, WF_exts, WF_merkleProof]

/-- `FriQueryRound`: the initial proofs and one step of `2^arity_bits[j]` evaluations per layer -/
def QueryRoundOk (s : Shape) (q : QueryRound) : Prop :=
  InitialOk s q.initial ∧ q.steps.length = s.arityBits.length ∧
  ∀ j st, q.steps[j]? = some st → StepOk (2 ^ s.arityBits.getD j 0) st

theorem WF_queryRound (s : Shape) (q : QueryRound) : WF (Codec.queryRound s) q ↔ QueryRoundOk s q := by
  unfold Codec.queryRound QueryRoundOk
  rw [WF_map _ _ _ _ (by cases q; rfl)]
  simp only [WF_pair, WF_initialTreeProof, WF_seq, WF_queryStep]

/-- `FriProof` -/
def FriProofOk (s : Shape) (p : Fri.Proof) : Prop :=
  (p.commitCaps.length = s.arityBits.length ∧ ∀ cap ∈ p.commitCaps, CapOk s cap) ∧
  (p.queries.length = s.numQueryRounds ∧ ∀ q ∈ p.queries, QueryRoundOk s q) ∧
  p.finalPoly.length = s.finalPolyLen

theorem WF_friProof (s : Shape) (p : Fri.Proof) : WF (friProof s) p ↔ FriProofOk s p := by
  unfold friProof FriProofOk CapOk
  rw [WF_map _ _ _ _ (by cases p; rfl)]
  simp only [WF_pair, WF_vecN, WF_merkleCap, WF_queryRound, WF_fieldExt, WF_field, implies_true, and_true]

/-- `Proof` -/
def ProofOk (s : Shape) (p : Plonk.Proof) : Prop :=
  CapOk s p.wiresCap ∧ CapOk s p.zsPartialProductsCap ∧ CapOk s p.quotientPolysCap ∧
  OpeningsOk s p.openings ∧ FriProofOk s p.openingProof

theorem WF_proof (s : Shape) (p : Plonk.Proof) : WF (Codec.proof s) p ↔ ProofOk s p := by
  unfold Codec.proof ProofOk CapOk
  rw [WF_map _ _ _ _ (by cases p; rfl)]
  simp only [WF_pair, WF_merkleCap, WF_openingSet, WF_friProof]

/-- `ProofWithPublicInputs`: additionally the number of public inputs fits the 8-byte count -/
def ProofWithPisOk (s : Shape) (p : ProofWithPis) : Prop := ProofOk s p.proof ∧ p.publicInputs.length < 2 ^ 64

theorem WF_proofWithPis (s : Shape) (p : ProofWithPis) : WF (proofWithPis s) p ↔ ProofWithPisOk s p := by
  unfold proofWithPis ProofWithPisOk
  rw [WF_map _ _ _ _ (by cases p; rfl)]
  simp only [WF_pair, WF_proof, WF_publicInputs]

/-- **Plain proofs round-trip**, with the side condition in explicit form: a proof whose every list
has the length the common data prescribes, whose Merkle proofs have fewer than 256 siblings and
whose public inputs number fewer than 2^64 is decoded back from its encoding, whatever follows. -/
theorem proofWithPis_roundtrip_explicit (s : Shape) (p : ProofWithPis) (rest : Bytes) (h : ProofWithPisOk s p) :
    (proofWithPis s).read ((proofWithPis s).write p ++ rest) = some (p, rest) :=
  roundtrip _ p rest ((WF_proofWithPis s p).2 h)

/-! ### the input-driven lengths are bounded by the input -/

theorem read_field_length (bs : Bytes) (x : GL) (rest : Bytes) (h : field.read bs = some (x, rest)) :
    bs.length = 8 + rest.length := by
  simp only [field, Codec.read] at h
  split at h
  · simp at h
  · rename_i n r hn
    simp only [Option.some.injEq, Prod.mk.injEq] at h
    obtain ⟨_, rfl⟩ := h
    obtain ⟨_, pre, rfl, hl⟩ := readLE_spec hn
    simp [hl]

theorem readSeq_length_const {α} (r : Nat → Bytes → Option (α × Bytes)) (m : Nat)
    (hr : ∀ i bs x rest, r i bs = some (x, rest) → bs.length = m + rest.length)
    (n i : Nat) (bs : Bytes) (xs : List α) (rest : Bytes) (h : readSeq r n i bs = some (xs, rest)) :
    xs.length = n ∧ bs.length = n * m + rest.length := by
  induction n generalizing i bs xs with
  | zero =>
    simp only [readSeq, Option.some.injEq, Prod.mk.injEq] at h
    obtain ⟨rfl, rfl⟩ := h
    simp
  | succ n ih =>
    simp only [readSeq] at h
    split at h
    · simp at h
    · rename_i x r1 hx
      split at h
      · simp at h
      · rename_i ys r2 hys
        simp only [Option.some.injEq, Prod.mk.injEq] at h
        obtain ⟨rfl, rfl⟩ := h
        have h1 := hr _ _ _ _ hx
        obtain ⟨hl, h2⟩ := ih _ _ _ hys
        refine ⟨by simp [hl], ?_⟩
        rw [h1, h2, Nat.succ_mul]; omega

theorem read_hash_length (bs : Bytes) (d : Digest) (rest : Bytes) (h : hash.read bs = some (d, rest)) :
    bs.length = 32 + rest.length := by
  simp only [P2.Codec.hash, vecN, Codec.read] at h
  have := (readSeq_length_const (fun _ => field.read) 8 (fun _ bs x rest hx => read_field_length bs x rest hx)
    4 0 bs d rest h).2
  omega

/-- **Public inputs of a plain proof.** The count is read from the input (8 bytes), but decoding
succeeds only if that many 8-byte elements really follow: `8 + 8·count + unread = available`. -/
theorem publicInputs_bounded (bs : Bytes) (pis : List GL) (rest : Bytes)
    (h : (vecLen field).read bs = some (pis, rest)) : bs.length = 8 + 8 * pis.length + rest.length := by
  simp only [vecLen, vecLenK, vecN, Codec.read] at h
  split at h
  · simp at h
  · rename_i a r ha
    simp only [Option.some.injEq, Prod.mk.injEq] at h
    obtain ⟨rfl, rfl⟩ := h
    obtain ⟨n, xs⟩ := a
    split at ha
    · simp at ha
    · rename_i n' r1 hn
      split at ha
      · simp at ha
      · rename_i ys r2 hys
        simp only [Option.some.injEq, Prod.mk.injEq] at ha
        obtain ⟨⟨rfl, rfl⟩, rfl⟩ := ha
        obtain ⟨_, pre, rfl, hl⟩ := readLE_spec hn
        obtain ⟨hlen, h2⟩ := readSeq_length_const (fun _ => field.read) 8
          (fun _ bs x rest hx => read_field_length bs x rest hx) _ 0 _ _ _ hys
        simp only [List.length_append, hl, h2, hlen]; omega

/-- **Merkle proofs.** The sibling count is read from the input — one byte, so at most 255 — and
decoding succeeds only if that many 32-byte hashes follow. -/
theorem merkleProof_bounded (bs : Bytes) (p : List Digest) (rest : Bytes)
    (h : merkleProof.read bs = some (p, rest)) :
    p.length < 256 ∧ bs.length = 1 + 32 * p.length + rest.length := by
  simp only [merkleProof, vecLenU8, vecLenK, vecN, Codec.read] at h
  split at h
  · simp at h
  · rename_i a r ha
    simp only [Option.some.injEq, Prod.mk.injEq] at h
    obtain ⟨rfl, rfl⟩ := h
    obtain ⟨n, xs⟩ := a
    split at ha
    · simp at ha
    · rename_i n' r1 hn
      split at ha
      · simp at ha
      · rename_i ys r2 hys
        simp only [Option.some.injEq, Prod.mk.injEq] at ha
        obtain ⟨⟨rfl, rfl⟩, rfl⟩ := ha
        obtain ⟨hlt, pre, rfl, hl⟩ := readLE_spec hn
        obtain ⟨hlen, h2⟩ := readSeq_length_const (fun _ => hash.read) 32
          (fun _ bs x rest hx => read_hash_length bs x rest hx) _ 0 _ _ _ hys
        refine ⟨by simpa [hlen] using hlt, ?_⟩
        simp only [List.length_append, hl, h2, hlen]; omega

/-! ### the `< 256` guard is necessary -/

/-- A Merkle proof with 256 siblings is not encodable, and indeed does not round-trip: its count
byte wraps to 0 and the decoder returns the EMPTY proof, leaving all the sibling bytes unread.
(The Rust writer refuses such a proof with a panic instead of writing a wrong count:
`expect("Merkle proof length must fit in u8.")`.) -/
theorem u8_guard_necessary (p : List Digest) (h : p.length = 256) :
    ¬ WF merkleProof p ∧
    (∃ unread, merkleProof.read (merkleProof.write p) = some ([], unread)) ∧
    merkleProof.read (merkleProof.write p) ≠ some (p, []) := by
  have hw : ∃ unread, merkleProof.read (merkleProof.write p) = some ([], unread) := by
    have h0 : leBytes 1 256 = [0] := by decide
    simp only [merkleProof, vecLenU8, vecLenK, Codec.write, Codec.read, h, h0, List.cons_append,
      List.nil_append, readLE]
    exact ⟨_, rfl⟩
  refine ⟨?_, hw, ?_⟩
  · rw [WF_merkleProof]; omega
  · obtain ⟨u, hu⟩ := hw
    rw [hu]
    intro hc
    simp only [Option.some.injEq, Prod.mk.injEq] at hc
    have := congrArg List.length hc.1
    simp [h] at this

/-- the same phenomenon on the smallest instance, by evaluation: 256 one-byte items behind a
one-byte count decode to the empty list -/
theorem u8_guard_necessary_decided :
    ¬ WF (vecLenU8 u8) (List.replicate 256 7) ∧
    (vecLenU8 u8).read ((vecLenU8 u8).write (List.replicate 256 7)) = some ([], List.replicate 256 7) ∧
    WF (vecLenU8 u8) (List.replicate 255 7) ∧
    (vecLenU8 u8).read ((vecLenU8 u8).write (List.replicate 255 7)) = some (List.replicate 255 7, []) := by
  set_option maxRecDepth 20000 in decide

/-- …while 255 siblings are fine -/
theorem u8_guard_sharp : WF merkleProof (List.replicate 255 [0, 0, 0, 0]) := by
  rw [WF_merkleProof]
  refine ⟨by rw [List.length_replicate]; decide, fun d hd => ?_⟩
  rw [List.eq_of_mem_replicate hd]; rfl

end P2.Props.C17
