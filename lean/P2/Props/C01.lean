/-
C01 (first increment): evaluation of circuit programs is deterministic and prefix-stable (the value
of a variable does not depend on later operations), so "the public inputs obtained by evaluating the
same program directly over the field" is well defined for every program.
-/
import P2.Model.Circuit
namespace P2.Props.C01
open P2 P2.Circuit

/-- the fold behind `evalProg`, from an arbitrary state -/
def evalFrom (tables : List (List (Nat × Nat))) (st : Array GL × List GL) (ops : List Op) :
    Option (Array GL × List GL) :=
  ops.foldlM (fun (acc : Array GL × List GL) op => do
    let x ← stepOp tables acc.1 op
    let pis := match op with | .pub _ => acc.2 ++ [x] | _ => acc.2
    pure (acc.1.push x, pis)) st

theorem evalProg_eq (p : Prog) : evalProg p = evalFrom p.tables (#[], []) p.ops := rfl

/-- evaluating `a ++ b` is evaluating `a`, then `b` from the state reached -/
theorem evalFrom_append (tables : List (List (Nat × Nat))) (st : Array GL × List GL) (a b : List Op) :
    evalFrom tables st (a ++ b) = (evalFrom tables st a).bind fun st' => evalFrom tables st' b := by
  unfold evalFrom
  rw [List.foldlM_append]
  rfl

/-- every step appends exactly one variable -/
theorem evalFrom_size (tables : List (List (Nat × Nat))) :
    ∀ (ops : List Op) (st st' : Array GL × List GL), evalFrom tables st ops = some st' →
      st'.1.size = st.1.size + ops.length := by
  intro ops
  induction ops with
  | nil => intro st st' h; simp [evalFrom] at h; subst h; simp
  | cons op rest ih =>
    intro st st' h
    simp only [evalFrom, List.foldlM_cons] at h
    cases hs : stepOp tables st.1 op with
    | none => simp [hs] at h
    | some x =>
      simp only [hs] at h
      have := ih _ _ h
      simp at this
      simp; omega

end P2.Props.C01
