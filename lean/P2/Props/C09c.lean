/-
C09 (c): the Fiat–Shamir transcript of the STARK verifier (`Stark.getChallenges`) as a history of
challenger operations — what is absorbed, in which order relative to each challenge, and
injectivity of the absorbed data in every component. The C04 theorems on `Challenger.run`
(causality `run_prefix`, `state_dependence`, …) apply to these histories.

Imports Mathlib transitively (through `P2.Lemmas.C04`): write `P2.GL`.
-/
import P2.Lemmas.StarkSchedule
import P2.Props.C04b
import P2.Props.C09
namespace P2.Props.C09c
open P2 P2.Stark P2.Challenger P2.Lemmas.C04 P2.Lemmas.C13 P2.Lemmas.StarkTranscript
  P2.Lemmas.StarkSchedule

/-- outputs of the operations `post` when they follow the history `pre` -/
theorem run_drop (pre post : List Op) :
    (run Stark.perm (pre ++ post)).drop (drawn pre) = (runFrom Stark.perm (runState Stark.perm pre).1 post).2 := by
  rw [run_eq_runState, runState, runFrom_append, ← runFrom_length Stark.perm (init Stark.perm) pre]
  exact List.drop_left

/-- the operations of a single-table `get_challenges` up to and including ζ′: public inputs, the
configuration, the trace cap, [lookup challenges, aux cap — iff the proof has an aux cap], α′, the
dummy ζs, ζ′ -/
def headOf (a : Air.Air) (c : Config) (pp : ProofWithPis) : List Op :=
  Op.obs pp.publicInputs :: headOps c pp.proof none false (dummyZetaCount a pp.proof)

/-- history before the αs are drawn: …, then the (dummy) constraint evaluations `ce` -/
def preAlphas (a : Air.Air) (c : Config) (pp : ProofWithPis) (ce : List GL2) : List Op :=
  headOf a c pp ++ [Op.obs (flattenExt ce)]

/-- history before ζ is drawn: …, the αs, then the quotient cap (if any) -/
def preZeta (a : Air.Air) (c : Config) (pp : ProofWithPis) (ce : List GL2) : List Op :=
  preAlphas a c pp ce ++ [Op.get c.numChallenges] ++
    (match pp.proof.quotientCap with
     | some cap => [Op.obs (flattenCap cap)]
     | none => [])

/-- history before `fri_challenges`: …, ζ, then all openings -/
def preFri (a : Air.Air) (c : Config) (pp : ProofWithPis) (ce : List GL2) : List Op :=
  preZeta a c pp ce ++ [Op.get 2, Op.obs (pp.proof.openings.toFriOpenings.flatMap flattenExt)]

/-- history before the lookup challenges are drawn -/
def preLookup (c : Config) (pp : ProofWithPis) : List Op :=
  [Op.obs pp.publicInputs, Op.obs c.observed, Op.obs (flattenCap pp.proof.traceCap)]

theorem preFri_eq (a : Air.Air) (c : Config) (pp : ProofWithPis) (ce : List GL2) :
    preFri a c pp ce = headOf a c pp ++ tailOps c pp.proof ce := by
  unfold preFri preZeta preAlphas tailOps
  cases pp.proof.quotientCap <;> simp

theorem state_headOf (a : Air.Air) (c : Config) (pp : ProofWithPis) :
    (runState Stark.perm (headOf a c pp)).1 =
      midState (obs (Challenger.init Stark.perm) pp.publicInputs) a c pp.proof none false := by
  rw [midState_eq, headOf, runState, runFrom_cons_obs]

/-- **Order of the transcript.** Whenever `get_challenges` returns `ch` there is a list `ce` (the
constraint evaluations on the dummy openings) such that
* the lookup challenges (if the proof has an aux cap) are the `2·num_challenges` elements squeezed
  right after `public inputs, config, trace cap`;
* the αs are squeezed right after `preAlphas` (… aux cap, α′, dummy ζs, ζ′, `ce`);
* ζ is squeezed right after `preZeta` (… αs, **quotient cap**);
* the FRI challenges are `fri_challenges` run from the state after `preFri` (… ζ, **all openings**). -/
theorem getChallenges_order (a : Air.Air) (c : Config) (pp : ProofWithPis) (pad : Option PadParams)
    (ch : Stark.Challenges) (h : getChallenges a c pp pad = .ok ch) :
    ∃ db ce, recoverDegreeBits pp.proof c = .ok db ∧
      ch.lookupSet = (match pp.proof.auxCap with
        | none => none
        | some _ =>
          let xs := (run Stark.perm (preLookup c pp ++ [Op.get (2 * c.numChallenges)]))
          some ((List.range c.numChallenges).map fun i => (xs.getD (2 * i) 0, xs.getD (2 * i + 1) 0))) ∧
      ch.alphas = (run Stark.perm (preAlphas a c pp ce ++ [Op.get c.numChallenges])).drop
        (drawn (preAlphas a c pp ce)) ∧
      ch.zeta = mkExt ((run Stark.perm (preZeta a c pp ce ++ [Op.get 2])).drop (drawn (preZeta a c pp ce))) ∧
      ch.fri = friChallenges (runState Stark.perm (preFri a c pp ce)).1 pp.proof.openingProof db c.fri pad := by
  obtain ⟨db, ce, hdb, hch⟩ := getChallengesFrom_ok _ a c pp pad none none false ch h
  refine ⟨db, ce, hdb, ?_⟩
  have hmid := state_headOf a c pp
  subst hch
  refine ⟨?_, ?_, ?_, ?_⟩
  · unfold tailFrom
    simp only [lookupDraw, stage1, Bool.false_eq_true, if_false]
    cases pp.proof.auxCap with
    | none => rfl
    | some cap =>
      simp only []
      rw [run_eq_runState, runState]
      simp only [preLookup, List.cons_append, List.nil_append, runFrom_cons_obs, runFrom_get]
  · rw [run_drop, preAlphas, runState, runFrom_append_state, ← runState, hmid, runFrom_get]
    simp only [runFrom_obs]
    rfl
  · rw [run_drop, preZeta, preAlphas, runState]
    simp only [runFrom_append_state]
    rw [← runState, hmid, runFrom_get]
    simp only [runFrom_obs, runFrom_get]
    unfold tailFrom
    cases pp.proof.quotientCap <;> simp only [obsOpt, runFrom_nil, runFrom_obs, getExt]
  · rw [preFri_eq, runState, runFrom_append_state, ← runState, hmid, tailFrom_eq]

/-- **Coverage.** The history before `fri_challenges` absorbs, in this order: the public inputs,
the configuration (security bits, number of challenges, all FRI parameters), the trace cap, the
auxiliary cap, the constraint evaluations on the dummy openings (which depend on the public inputs
and on α′, ζ′), the quotient cap and every opening. -/
theorem stark_schedule_observes (a : Air.Air) (c : Config) (pp : ProofWithPis) (ce : List GL2) :
    observed (preFri a c pp ce) =
      pp.publicInputs ++ c.observed ++ flattenCap pp.proof.traceCap ++
      flattenCap (pp.proof.auxCap.getD []) ++ flattenExt ce ++ flattenCap (pp.proof.quotientCap.getD []) ++
      pp.proof.openings.toFriOpenings.flatMap flattenExt := by
  rw [preFri_eq, observed, P2.Props.C04.observed_append]
  have h1 := headOps_observed c pp.proof none false (dummyZetaCount a pp.proof)
  have h2 := tailOps_observed c pp.proof ce
  simp only [observed] at h1 h2
  rw [h2, headOf, P2.Props.C04.observed, h1]
  simp

/-- what precedes the αs / ζ -/
theorem preAlphas_observes (a : Air.Air) (c : Config) (pp : ProofWithPis) (ce : List GL2) :
    observed (preAlphas a c pp ce) =
      pp.publicInputs ++ c.observed ++ flattenCap pp.proof.traceCap ++
      flattenCap (pp.proof.auxCap.getD []) ++ flattenExt ce := by
  rw [preAlphas, observed, P2.Props.C04.observed_append]
  have h1 := headOps_observed c pp.proof none false (dummyZetaCount a pp.proof)
  simp only [observed] at h1
  rw [headOf, P2.Props.C04.observed, h1]
  simp [P2.Props.C04.observed]

theorem preZeta_observes (a : Air.Air) (c : Config) (pp : ProofWithPis) (ce : List GL2) :
    observed (preZeta a c pp ce) =
      pp.publicInputs ++ c.observed ++ flattenCap pp.proof.traceCap ++
      flattenCap (pp.proof.auxCap.getD []) ++ flattenExt ce ++ flattenCap (pp.proof.quotientCap.getD []) := by
  rw [preZeta, observed, P2.Props.C04.observed_append, P2.Props.C04.observed_append]
  have h1 := preAlphas_observes a c pp ce
  simp only [observed] at h1
  rw [h1]
  cases pp.proof.quotientCap <;> simp [P2.Props.C04.observed, flattenCap]

theorem preLookup_observes (c : Config) (pp : ProofWithPis) :
    observed (preLookup c pp) = pp.publicInputs ++ c.observed ++ flattenCap pp.proof.traceCap := by
  simp [preLookup, observed, P2.Props.C04.observed]

/-- **Injectivity.** Two transcripts with component-wise equal lengths coincide only if every
component coincides: public inputs, configuration, trace cap, aux cap, constraint evaluations,
quotient cap and all openings. -/
theorem stark_observed_inj (a a' : Air.Air) (c c' : Config) (pp pp' : ProofWithPis) (ce ce' : List GL2)
    (l1 : pp.publicInputs.length = pp'.publicInputs.length)
    (l2 : c.observed.length = c'.observed.length)
    (l3 : (flattenCap pp.proof.traceCap).length = (flattenCap pp'.proof.traceCap).length)
    (l4 : (flattenCap (pp.proof.auxCap.getD [])).length = (flattenCap (pp'.proof.auxCap.getD [])).length)
    (l5 : ce.length = ce'.length)
    (l6 : (flattenCap (pp.proof.quotientCap.getD [])).length =
      (flattenCap (pp'.proof.quotientCap.getD [])).length)
    (h : observed (preFri a c pp ce) = observed (preFri a' c' pp' ce')) :
    pp.publicInputs = pp'.publicInputs ∧ c.observed = c'.observed ∧
    flattenCap pp.proof.traceCap = flattenCap pp'.proof.traceCap ∧
    flattenCap (pp.proof.auxCap.getD []) = flattenCap (pp'.proof.auxCap.getD []) ∧ ce = ce' ∧
    flattenCap (pp.proof.quotientCap.getD []) = flattenCap (pp'.proof.quotientCap.getD []) ∧
    pp.proof.openings.toFriOpenings.flatten = pp'.proof.openings.toFriOpenings.flatten := by
  rw [stark_schedule_observes, stark_schedule_observes] at h
  have l5' : (flattenExt ce).length = (flattenExt ce').length := by
    simp [flattenExt, List.length_flatMap, l5]
  obtain ⟨e1, e2, e3, e4, e5, e6, e7⟩ := append_inj7 _ _ _ _ _ _ _ _ _ _ _ _ _ _ l1 l2 l3 l4 l5' l6 h
  refine ⟨e1, e2, e3, e4, flattenExt_inj _ _ e5, e6, ?_⟩
  have := flatMap_flattenExt pp.proof.openings.toFriOpenings
  have h' := flatMap_flattenExt pp'.proof.openings.toFriOpenings
  exact flattenExt_inj _ _ (this ▸ h' ▸ e7)

/-- two proofs for the same AIR/configuration that differ in the public inputs, the trace cap, the
aux cap, the quotient cap or any opening (caps of the same numbers of well-formed digests, same
number of public inputs) have different transcripts before `fri_challenges` -/
theorem statement_or_cap_changes_transcript (a : Air.Air) (c : Config) (pp pp' : ProofWithPis) (ce : List GL2)
    (kp : pp.publicInputs.length = pp'.publicInputs.length)
    (ht : ∀ d ∈ pp.proof.traceCap, d.length = 4) (ht' : ∀ d ∈ pp'.proof.traceCap, d.length = 4)
    (ha : ∀ d ∈ pp.proof.auxCap.getD [], d.length = 4) (ha' : ∀ d ∈ pp'.proof.auxCap.getD [], d.length = 4)
    (hq : ∀ d ∈ pp.proof.quotientCap.getD [], d.length = 4)
    (hq' : ∀ d ∈ pp'.proof.quotientCap.getD [], d.length = 4)
    (kt : pp.proof.traceCap.length = pp'.proof.traceCap.length)
    (ka : (pp.proof.auxCap.getD []).length = (pp'.proof.auxCap.getD []).length)
    (kq : (pp.proof.quotientCap.getD []).length = (pp'.proof.quotientCap.getD []).length)
    (hne : pp.publicInputs ≠ pp'.publicInputs ∨ pp.proof.traceCap ≠ pp'.proof.traceCap ∨
      pp.proof.auxCap.getD [] ≠ pp'.proof.auxCap.getD [] ∨
      pp.proof.quotientCap.getD [] ≠ pp'.proof.quotientCap.getD [] ∨
      pp.proof.openings.toFriOpenings.flatten ≠ pp'.proof.openings.toFriOpenings.flatten) :
    observed (preFri a c pp ce) ≠ observed (preFri a c pp' ce) := by
  intro h
  have fl : ∀ (x y : List Merkle.Digest), (∀ d ∈ x, d.length = 4) → (∀ d ∈ y, d.length = 4) →
      x.length = y.length → (flattenCap x).length = (flattenCap y).length := by
    intro x y hx hy hxy
    have e1 := flattenCap_length x hx
    have e2 := flattenCap_length y hy
    show (Plonk.flattenCap x).length = (Plonk.flattenCap y).length
    rw [e1, e2, hxy]
  obtain ⟨e1, _, e3, e4, _, e6, e7⟩ := stark_observed_inj a a c c pp pp' ce ce kp rfl
    (fl _ _ ht ht' kt) (fl _ _ ha ha' ka) rfl (fl _ _ hq hq' kq) h
  rcases hne with h | h | h | h | h
  · exact h e1
  · exact h (flattenCap_inj _ _ ht ht' e3)
  · exact h (flattenCap_inj _ _ ha ha' e4)
  · exact h (flattenCap_inj _ _ hq hq' e6)
  · exact h e7

/-! ### the inside of `fri_challenges` -/

/-- **Order of the FRI part of the transcript** (no padding). With `outs` the outputs of `friOps`
(FRI α; per commit-phase cap: observe the cap, draw its β; observe the final polynomial; observe
the PoW witness; draw the PoW response; draw the query indices) run right after `preFri`:
`ch.fri.alpha = mkExt outs`, `β_i = mkExt (outs.drop (2+2i))`, the PoW response is
`outs[2+2·#caps]`, the query indices are the remaining outputs reduced mod the LDE size.
Together with `friOps_beta_split` / `friOps_pow_split` (which operation produces which output) and
causality of the challenger (`P2.Props.C04.run_prefix`): cap `i` is absorbed before `β_i`, the final
polynomial and the PoW witness before the PoW response, and that before the query indices. -/
theorem getChallenges_fri_order (a : Air.Air) (c : Config) (pp : ProofWithPis)
    (ch : Stark.Challenges) (h : getChallenges a c pp none = .ok ch) :
    ∃ db ce, recoverDegreeBits pp.proof c = .ok db ∧
      ch.alphas = (run Stark.perm (preAlphas a c pp ce ++ [Op.get c.numChallenges])).drop
        (drawn (preAlphas a c pp ce)) ∧
      ch.zeta = mkExt ((run Stark.perm (preZeta a c pp ce ++ [Op.get 2])).drop (drawn (preZeta a c pp ce))) ∧
      ch.fri = friOfOuts
        ((run Stark.perm (preFri a c pp ce ++ friOps pp.proof.openingProof c.fri.numQueryRounds)).drop
          (drawn (preFri a c pp ce)))
        pp.proof.openingProof.commitCaps.length (2 ^ ((db + c.fri.rateBits) % 64)) := by
  obtain ⟨db, ce, hdb, _, h2, h3, h4⟩ := getChallenges_order a c pp none ch h
  exact ⟨db, ce, hdb, h2, h3, by rw [h4, friChallenges_eq, run_drop]⟩

/-- the `get 2` that produces `β_i` (outputs `2+2i`, `2+2i+1` of `friOps`) comes right after the
observation of commit-phase cap `i` (and after all earlier caps) -/
theorem friOps_beta_split (fp : Fri.Proof) (nq i : Nat) (hi : i < fp.commitCaps.length) :
    ∃ pre post, friOps fp nq = pre ++ [Op.get 2] ++ post ∧ drawn pre = 2 + 2 * i ∧
      pre = [Op.get 2] ++ ((fp.commitCaps.take i).flatMap fun cap => [Op.obs (flattenCap cap), Op.get 2]) ++
        [Op.obs (flattenCap fp.commitCaps[i])] := by
  refine ⟨_, ((fp.commitCaps.drop (i + 1)).flatMap fun cap => [Op.obs (flattenCap cap), Op.get 2]) ++
    [Op.obs (flattenExt fp.finalPoly), Op.obs [fp.powWitness], Op.get 1, Op.get nq], ?_, ?_, rfl⟩
  · have hc : fp.commitCaps = fp.commitCaps.take i ++ fp.commitCaps[i] :: fp.commitCaps.drop (i + 1) := by
      rw [List.getElem_cons_drop, List.take_append_drop]
    unfold friOps
    conv => lhs; rw [hc]
    simp only [List.flatMap_append, List.flatMap_cons, List.append_assoc, List.cons_append, List.nil_append]
  · simp only [drawn_append, drawn, drawn_capsOps, List.length_take, Nat.min_eq_left (Nat.le_of_lt hi)]; omega

/-- the `get 1` producing the PoW response (output `2+2·#caps` of `friOps`) comes right after the
observations of the final polynomial and of the PoW witness; the query indices come after it -/
theorem friOps_pow_split (fp : Fri.Proof) (nq : Nat) :
    ∃ pre, friOps fp nq = pre ++ [Op.get 1] ++ [Op.get nq] ∧ drawn pre = 2 + 2 * fp.commitCaps.length ∧
      pre = [Op.get 2] ++ (fp.commitCaps.flatMap fun cap => [Op.obs (flattenCap cap), Op.get 2]) ++
        [Op.obs (flattenExt fp.finalPoly), Op.obs [fp.powWitness]] := by
  refine ⟨_, ?_, ?_, rfl⟩
  · simp [friOps]
  · simp only [drawn_append, drawn, drawn_capsOps]; omega

/-- coverage of the FRI messages: every commit-phase cap, every final-polynomial coefficient, the
PoW witness -/
theorem friOps_observes (fp : Fri.Proof) (nq : Nat) :
    observed (friOps fp nq) =
      fp.commitCaps.flatMap flattenCap ++ flattenExt fp.finalPoly ++ [fp.powWitness] :=
  P2.Props.C04.fri_schedule_observes fp nq

/-- injectivity of the FRI part: for commit-phase caps of a fixed shape (`m` digests of 4 elements)
and final polynomials of the same length, equal transcripts force equal caps, final polynomial and
PoW witness -/
theorem friOps_observed_inj (fp fp' : Fri.Proof) (nq nq' m : Nat) (hm : 0 < m)
    (hc : ∀ cap ∈ fp.commitCaps, cap.length = m ∧ ∀ d ∈ cap, d.length = 4)
    (hc' : ∀ cap ∈ fp'.commitCaps, cap.length = m ∧ ∀ d ∈ cap, d.length = 4)
    (hn : fp.commitCaps.length = fp'.commitCaps.length)
    (hf : fp.finalPoly.length = fp'.finalPoly.length)
    (h : observed (friOps fp nq) = observed (friOps fp' nq')) :
    fp.commitCaps = fp'.commitCaps ∧ fp.finalPoly = fp'.finalPoly ∧ fp.powWitness = fp'.powWitness :=
  P2.Props.C04.fri_observed_inj fp fp' nq nq' m hm hc hc' hn hf h

/-! ### non-vacuity -/

def isOk {α : Type} : Except String α → Bool
  | .ok _ => true
  | .error _ => false
theorem exists_of_isOk {α : Type} (x : Except String α) (h : isOk x = true) : ∃ v, x = .ok v := by
  cases x with
  | ok v => exact ⟨v, rfl⟩
  | error e => cases h

open P2.Props.C09 in
/-- `get_challenges` returns on the tiny proof of `P2.Props.C09` (Poseidon evaluated by the kernel) -/
theorem tiny_getChallenges : ∃ ch, getChallenges tinyAir tinyCfg tinyProof none = .ok ch :=
  exists_of_isOk _ (by decide +kernel)

open P2.Props.C09 in
example : ∃ (ch : Stark.Challenges) (db : Nat) (ce : List GL2), recoverDegreeBits tinyProof.proof tinyCfg = .ok db ∧
    ch.alphas = (run Stark.perm (preAlphas tinyAir tinyCfg tinyProof ce ++ [Op.get tinyCfg.numChallenges])).drop
      (drawn (preAlphas tinyAir tinyCfg tinyProof ce)) := by
  obtain ⟨ch, h⟩ := tiny_getChallenges
  obtain ⟨db, ce, h1, _, h2, _⟩ := getChallenges_order _ _ _ _ ch h
  exact ⟨ch, db, ce, h1, h2⟩

open P2.Props.C09 in
example : observed (preFri tinyAir tinyCfg tinyProof []) ≠
    observed (preFri tinyAir tinyCfg { tinyProof with publicInputs := [4] } []) :=
  statement_or_cap_changes_transcript _ _ _ _ _ rfl (by decide) (by decide) (by decide) (by decide)
    (by decide) (by decide) rfl rfl rfl (Or.inl (by decide))

open P2.Props.C09 in
example : ∃ (ch : Stark.Challenges) (db : Nat) (ce : List GL2), ch.fri = friOfOuts
    ((run Stark.perm (preFri tinyAir tinyCfg tinyProof ce ++
      friOps tinyProof.proof.openingProof tinyCfg.fri.numQueryRounds)).drop
        (drawn (preFri tinyAir tinyCfg tinyProof ce)))
    tinyProof.proof.openingProof.commitCaps.length (2 ^ ((db + tinyCfg.fri.rateBits) % 64)) := by
  obtain ⟨ch, h⟩ := tiny_getChallenges
  obtain ⟨db, ce, _, _, _, h4⟩ := getChallenges_fri_order _ _ _ ch h
  exact ⟨ch, db, ce, h4⟩

example : ∃ pre post, friOps ⟨[[[1,2,3,4]], [[5,6,7,8]]], [], [], 0⟩ 3 = pre ++ [Op.get 2] ++ post ∧
    drawn pre = 4 :=
  let ⟨pre, post, h1, h2, _⟩ := friOps_beta_split ⟨[[[1,2,3,4]], [[5,6,7,8]]], [], [], 0⟩ 3 1 (by decide)
  ⟨pre, post, h1, h2⟩

example : friOps_observed_inj ⟨[[[1,2,3,4]]], [], [⟨1, 0⟩], 7⟩ ⟨[[[1,2,3,4]]], [], [⟨1, 0⟩], 7⟩ 3 3 1
    (by decide) (by decide) (by decide) rfl rfl rfl = ⟨rfl, rfl, rfl⟩ := rfl

end P2.Props.C09c
