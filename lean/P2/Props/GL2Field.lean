/-
GL2Field: the model's quadratic extension `GL2 = GL[X]/(X² − 7)` IS a Mathlib field, and the
executable operations record `instFOpsGL2` IS `FOps.ofField GL2`. Consequently every theorem stated
over an arbitrary field `K` through `FOps.ofField K` (C02b, C05b, C09b, C10b, C07b, …) applies to
the code the verifier actually runs (challenges, openings, `ζ` live in `GL2`).

 1. `7` is a quadratic non-residue modulo `GLP` (Euler's criterion; the power is evaluated by the
    kernel through `L0.powMod`, the function already used for the Lucas primality proof);
 2. the base field: `GL.pow = ^`, `GL.inv = ⁻¹`, `instFOpsGL = FOps.ofField GL` (now including
    `inv`), `GL.primitiveRoot k` is a primitive `2^k`-th root of unity;
 3. `gl2Field : Field GL2`, with every operation the model's BY `rfl`;
 4. the bridge `fops_GL2_eq`, and the derived operations (`FOps.pow`, `FOps.reduceWithPowers`,
    `GL2.ofBase` as ring homomorphism, `GL2.scalarMul`, characteristic, cardinality);
 5. MODEL-LEVEL corollaries — sections A, B, C are elaborated WITHOUT any local instance: every
    operation occurring in those statements is the model's (`GL2.zero`, `GL2.one`, `*`/`-` of
    `instFOpsGL2`, `FOps.pow`, `FOps.reduceWithPowers`, `Fri.reduceExt`, `Air.Consumer`,
    `Plonk.evalL0`, `Stark.evalL0LLast`), and no typeclass argument is left open.
-/
import P2.Lemmas.GL2Field
import P2.Props.C02b
import P2.Props.C09b
namespace P2.Props.GL2Field
open P2 P2.Lemmas.C07

/-! ## 1. seven is not a square -/

/-- `7^((p−1)/2) = −1` in `ZMod GLP` -/
theorem seven_pow_half : (7 : ZMod GLP) ^ (GLP / 2) = -1 := Lemmas.GL2Field.seven_pow_half

/-- `X² − 7` is irreducible over Goldilocks: `7` is a quadratic non-residue -/
theorem seven_nonsquare : ¬ IsSquare (7 : ZMod GLP) := Lemmas.GL2Field.seven_nonsquare

/-- the same on the model's carrier and with the model's constant `GL2.W` -/
theorem W_nonsquare : ¬ ∃ r : P2.GL, GL2.W = r * r := fun ⟨r, hr⟩ =>
  Lemmas.GL2Field.seven_nonsquare ⟨r, hr⟩

/-- the norm form is anisotropic (all operations are the model's `Fin GLP` operations) -/
theorem norm_ne_zero (x : GL2) (hx : x ≠ GL2.zero) : x.a * x.a - GL2.W * (x.b * x.b) ≠ 0 :=
  Lemmas.GL2Field.norm_ne_zero x hx

/-- non-vacuity: the norm of `3 + 2X` is `9 − 28 = −19` -/
example : (⟨3, 2⟩ : GL2) ≠ GL2.zero := by decide
example : ((3 : P2.GL) * 3 - GL2.W * (2 * 2)) = GL.ofNat (GLP - 19) := by decide +kernel

/-! ## 2. the base field -/

section Base
attribute [local instance] glField

/-- the model's `GL.pow` (a `for` loop over the bits of `e`) is `^` of `ZMod GLP` -/
theorem GL_pow_eq (b : P2.GL) (e : Nat) : GL.pow b e = b ^ e := Lemmas.GL2Field.GL_pow_eq b e

/-- the model's `GL.inv` (Fermat) is `⁻¹` of `ZMod GLP`, including `0 ↦ 0` -/
theorem GL_inv_eq (x : P2.GL) : GL.inv x = x⁻¹ := Lemmas.GL2Field.GL_inv_eq x

/-- C07's `fops_GL_eq` without the `inv` exception -/
theorem fops_GL_eq : instFOpsGL = FOps.ofField P2.GL := Lemmas.GL2Field.fops_GL_eq'

/-- `POWER_OF_TWO_GENERATOR` has order exactly `2^32` -/
theorem pow2Gen_order : orderOf (GL.pow2Gen : P2.GL) = 2 ^ 32 := Lemmas.GL2Field.pow2Gen_order

/-- `primitive_root_of_unity(k)` is a primitive `2^k`-th root of unity for every `k ≤ 32` -/
theorem primitiveRoot_primitive (k : ℕ) (hk : k ≤ 32) :
    IsPrimitiveRoot (GL.primitiveRoot k : P2.GL) (2 ^ k) :=
  Lemmas.GL2Field.primitiveRoot_primitive k hk

end Base

/-! ## 3. `GL2` is a field, with the model's operations -/

/-- the field structure (a `@[reducible] def`, to be activated with
`attribute [local instance] gl2Field`, like `glField`) -/
@[reducible] def gl2Field : Field GL2 := Lemmas.GL2Field.gl2Field

/-- the two axioms that are not ring identities, on the model's functions -/
theorem mul_inv_cancel (x : GL2) (hx : x ≠ GL2.zero) : GL2.mul x (GL2.inv x) = GL2.one :=
  Lemmas.GL2Field.mul_inv_cancel' x hx
theorem inv_zero : GL2.inv GL2.zero = GL2.zero := Lemmas.GL2Field.inv_zero'

example : GL2.mul ⟨3, 2⟩ (GL2.inv ⟨3, 2⟩) = GL2.one := by decide +kernel

section Field
attribute [local instance] glField gl2Field

theorem zero_def : (0 : GL2) = GL2.zero := rfl
theorem one_def : (1 : GL2) = GL2.one := rfl
theorem add_def (x y : GL2) : x + y = GL2.add x y := rfl
theorem mul_def (x y : GL2) : x * y = GL2.mul x y := rfl
theorem sub_def (x y : GL2) : x - y = GL2.sub x y := rfl
theorem neg_def (x : GL2) : -x = GL2.neg x := rfl
theorem inv_def (x : GL2) : x⁻¹ = GL2.inv x := rfl
theorem div_def (x y : GL2) : x / y = GL2.mul x (GL2.inv y) := rfl
theorem natCast_def (n : ℕ) : (n : GL2) = GL2.ofBase (GL.ofNat n) := rfl

/-! ## 4. the bridge -/

/-- the model's equality test decides equality -/
theorem beq_eq (x y : GL2) : (x == y) = decide (x = y) := Lemmas.GL2Field.beq_eq x y

/-- THE BRIDGE: the executable operations record of `GL2` is the record of the field `GL2`
(all fields, including `inv` and `beq`) -/
theorem fops_GL2_eq : instFOpsGL2 = FOps.ofField P2.GL2 := Lemmas.GL2Field.fops_GL2_eq

/-- field by field; left sides are the `FOps` operations of `instFOpsGL2`, right sides the field's -/
theorem fops_zero : (FOps.zero : GL2) = 0 := rfl
theorem fops_one : (FOps.one : GL2) = 1 := rfl
theorem fops_add (x y : GL2) :
    @HAdd.hAdd GL2 GL2 GL2 (@instHAdd GL2 instFOpsGL2.toAdd) x y = x + y := rfl
theorem fops_mul (x y : GL2) :
    @HMul.hMul GL2 GL2 GL2 (@instHMul GL2 instFOpsGL2.toMul) x y = x * y := rfl
theorem fops_sub (x y : GL2) :
    @HSub.hSub GL2 GL2 GL2 (@instHSub GL2 instFOpsGL2.toSub) x y = x - y := rfl
theorem fops_neg (x : GL2) : @Neg.neg GL2 instFOpsGL2.toNeg x = -x := rfl
theorem fops_inv (x : GL2) : (FOps.inv x : GL2) = x⁻¹ := rfl
theorem fops_ofNat (n : ℕ) : (FOps.ofNat n : GL2) = (n : GL2) := rfl
theorem fops_beq (x y : GL2) :
    @BEq.beq GL2 instFOpsGL2.toBEq x y = decide (x = y) := Lemmas.GL2Field.beq_eq x y

/-- the model's square-and-multiply -/
theorem fops_pow (x : GL2) (n : ℕ) : FOps.pow x n = x ^ n := Lemmas.GL2Field.fops_pow x n

/-- the model's Horner `reduce_with_powers` -/
theorem fops_reduceWithPowers (xs : List GL2) (α : GL2) :
    FOps.reduceWithPowers xs α = ∑ i : Fin xs.length, xs[i] * α ^ (i : ℕ) :=
  Lemmas.GL2Field.fops_reduceWithPowers xs α
theorem fops_reduceWithPowers_range (xs : List GL2) (α : GL2) :
    FOps.reduceWithPowers xs α = ∑ i ∈ Finset.range xs.length, xs.getD i 0 * α ^ i :=
  Lemmas.GL2Field.fops_reduceWithPowers_range xs α
theorem fops_reduceWithPowers_mapIdx (xs : List GL2) (α : GL2) :
    FOps.reduceWithPowers xs α = (xs.mapIdx fun i x => x * α ^ i).sum :=
  Lemmas.GL2Field.fops_reduceWithPowers_mapIdx xs α
/-- `Fri.reduceExt` and `PlonkAlg.reduceWithPowers` are the same function -/
theorem reduceExt_eq (xs : List GL2) (α : GL2) :
    Fri.reduceExt xs α = FOps.reduceWithPowers xs α := rfl
theorem plonkAlg_reduceWithPowers_eq (xs : List GL2) (α : GL2) :
    PlonkAlg.reduceWithPowers xs α = FOps.reduceWithPowers xs α := rfl

/-- `GL2.ofBase` as a ring homomorphism `GL →+* GL2` (`toFun` is `GL2.ofBase` by `rfl`) -/
def ofBaseHom : P2.GL →+* GL2 := Lemmas.GL2Field.ofBaseHom
theorem ofBaseHom_apply (x : P2.GL) : ofBaseHom x = GL2.ofBase x := rfl
theorem ofBase_injective : Function.Injective GL2.ofBase := Lemmas.GL2Field.ofBase_injective
theorem ofBase_add (x y : P2.GL) : GL2.ofBase (x + y) = GL2.ofBase x + GL2.ofBase y :=
  map_add ofBaseHom x y
theorem ofBase_mul (x y : P2.GL) : GL2.ofBase (x * y) = GL2.ofBase x * GL2.ofBase y :=
  map_mul ofBaseHom x y
theorem ofBase_pow (x : P2.GL) (n : ℕ) : GL2.ofBase (GL.pow x n) = GL2.ofBase x ^ n :=
  Lemmas.GL2Field.ofBase_GLpow x n
theorem ofBase_inv (x : P2.GL) : GL2.ofBase (GL.inv x) = (GL2.ofBase x)⁻¹ :=
  Lemmas.GL2Field.ofBase_inv x

/-- the `GL`-algebra structure whose `algebraMap` is `GL2.ofBase` -/
@[reducible] def gl2Algebra : Algebra P2.GL GL2 := Lemmas.GL2Field.gl2Algebra
theorem algebraMap_apply (x : P2.GL) : @algebraMap P2.GL GL2 _ _ gl2Algebra x = GL2.ofBase x := rfl

/-- `scalar_mul` is multiplication by the embedded scalar -/
theorem scalarMul_eq (x : GL2) (s : P2.GL) : GL2.scalarMul x s = x * GL2.ofBase s :=
  Lemmas.GL2Field.scalarMul_eq x s

/-- `GL2 = GL ⊕ GL·X` with `X² = 7` -/
theorem X_sq : (⟨0, 1⟩ : GL2) * ⟨0, 1⟩ = GL2.ofBase GL2.W := Lemmas.GL2Field.X_sq
theorem decomp (x : GL2) : x = GL2.ofBase x.a + GL2.ofBase x.b * ⟨0, 1⟩ :=
  Lemmas.GL2Field.decomp x

/-- characteristic `GLP` -/
theorem charP : CharP GL2 GLP := Lemmas.GL2Field.gl2CharP
theorem natCast_eq_zero_iff (n : ℕ) : (n : GL2) = 0 ↔ GLP ∣ n :=
  Lemmas.GL2Field.natCast_eq_zero_iff n
/-- the side condition `hinj` of C02b's filter theorems holds in `GL2` -/
theorem hinj : ∀ a b : Nat, a < 2 ^ 32 → b < 2 ^ 32 → (a : GL2) = (b : GL2) → a = b :=
  haveI := Lemmas.GL2Field.gl2CharP
  Lemmas.PlonkAlg.hinj_of_charP GLP (by norm_num)

/-- `|GL2| = p²` -/
theorem natCard : Nat.card GL2 = GLP ^ 2 := Lemmas.GL2Field.natCard_GL2
theorem card : @Fintype.card GL2 Lemmas.GL2Field.gl2Fintype = GLP ^ 2 := Lemmas.GL2Field.card_GL2

/-- the image of `primitive_root_of_unity(k)` is a primitive `2^k`-th root of unity of `GL2` -/
theorem ofBase_primitiveRoot_primitive (k : ℕ) (hk : k ≤ 32) :
    IsPrimitiveRoot (GL2.ofBase (GL.primitiveRoot k)) (2 ^ k) :=
  Lemmas.GL2Field.ofBase_primitiveRoot_primitive k hk

end Field

/-! ## 5. corollaries at the model's own types

No local instance is active from here on: `*`, `-`, `==` on `GL2` can only be those of
`instFOpsGL2`; `L.gl2Field` appears in proofs only. -/

section ModelLevel
open P2.Air P2.PlonkAlg
local notation "L.gl2Field" => Lemmas.GL2Field.gl2Field
local notation "L.bridge" => Lemmas.GL2Field.fops_GL2_eq

/-! ### A. the α-combination (C02b §B at `K := GL2`) -/

/-- C02b `terms_zero_of_many_zeros` for the model's `FOps.reduceWithPowers` on `List GL2`: if the
α-combination vanishes for at least `terms.length` distinct `α ∈ GL2`, every term is zero -/
theorem reduceWithPowers_terms_zero_of_many_zeros (terms : List GL2) (S : Finset GL2)
    (hcard : terms.length ≤ S.card)
    (hS : ∀ α ∈ S, FOps.reduceWithPowers terms α = GL2.zero) : ∀ t ∈ terms, t = GL2.zero := by
  have := @C02.terms_zero_of_many_zeros GL2 L.gl2Field _ terms S hcard
  rw [← L.bridge] at this
  exact this hS

/-- C02b `reduceWithPowers_zeros_card` -/
theorem reduceWithPowers_zeros_card (terms : List GL2) (h : ∃ t ∈ terms, t ≠ GL2.zero)
    (S : Finset GL2) (hS : ∀ α ∈ S, FOps.reduceWithPowers terms α = GL2.zero) :
    S.card ≤ terms.length - 1 := by
  have := @C02.reduceWithPowers_zeros_card GL2 L.gl2Field _ terms h S
  rw [← L.bridge] at this
  exact this hS

/-- C02b `reduceWithPowers_zero_set`: a non-zero term list is annihilated by at most
`length − 1` of the `p²` possible challenges -/
theorem reduceWithPowers_zero_set (terms : List GL2) (h : ∃ t ∈ terms, t ≠ GL2.zero) :
    {α : GL2 | FOps.reduceWithPowers terms α = GL2.zero}.Finite ∧
    {α : GL2 | FOps.reduceWithPowers terms α = GL2.zero}.ncard ≤ terms.length - 1 := by
  have := @C02.reduceWithPowers_zero_set GL2 L.gl2Field _ terms h
  rw [← L.bridge] at this
  exact this

/-- the form `eval_vanishing_poly` uses (`Plonk.evalVanishingPoly` ends with
`ch.alphas.map fun a => Fri.reduceExt terms (GL2.ofBase a)`): BASE-field challenges -/
theorem reduceExt_terms_zero_of_many_base_alphas (terms : List GL2) (S : Finset P2.GL)
    (hcard : terms.length ≤ S.card)
    (hS : ∀ a ∈ S, Fri.reduceExt terms (GL2.ofBase a) = GL2.zero) : ∀ t ∈ terms, t = GL2.zero :=
  Lemmas.GL2Field.m_reduceExt_terms_zero terms S hcard hS

/-- … and its counting form: a non-zero term list survives at most `length − 1` of the `p`
base-field challenges -/
theorem reduceExt_base_zeros_card (terms : List GL2) (h : ∃ t ∈ terms, t ≠ GL2.zero)
    (S : Finset P2.GL) (hS : ∀ a ∈ S, Fri.reduceExt terms (GL2.ofBase a) = GL2.zero) :
    S.card ≤ terms.length - 1 := by
  by_contra hc
  obtain ⟨t, ht, hne⟩ := h
  exact hne (reduceExt_terms_zero_of_many_base_alphas terms S (by omega) hS t ht)


/-! ### B. the STARK constraint consumer (C09b §A at `K := GL2`) -/

/-- C09b `consumer_all_zero_of_many_alphas` for the model's `Air.Consumer GL2` -/
theorem consumer_all_zero_of_many_alphas (alphas : List GL2) (z l0 ll : GL2) (cs : List GL2)
    (hcard : cs.length ≤ alphas.toFinset.card)
    (h : ∀ a ∈ (cs.foldl Consumer.constraint (Consumer.new alphas z l0 ll)).accs, a = GL2.zero) :
    ∀ c ∈ cs, c = GL2.zero := by
  have := @C09b.consumer_all_zero_of_many_alphas GL2 L.gl2Field _ alphas z l0 ll cs hcard
  rw [← L.bridge] at this
  exact this h

/-- C09b `consumer_acc_zero_mem`: a non-zero constraint list passes only for challenges in a set
of at most `length − 1` elements -/
theorem consumer_acc_zero_mem (alphas : List GL2) (z l0 ll : GL2) (cs : List GL2)
    (hne : ∃ c ∈ cs, c ≠ GL2.zero)
    (h : ∀ a ∈ (cs.foldl Consumer.constraint (Consumer.new alphas z l0 ll)).accs, a = GL2.zero) :
    ∃ B : Finset GL2, B.card ≤ cs.length - 1 ∧ ∀ α ∈ alphas, α ∈ B := by
  have := @C09b.consumer_acc_zero_mem GL2 L.gl2Field _ alphas z l0 ll cs hne
  rw [← L.bridge] at this
  exact this h

/-- C09b `consumer_accs_eq_reduce`: accumulator `i` is `reduce_with_powers` of the reversed
constraint list at `α_i` -/
theorem consumer_accs_eq_reduce (alphas : List GL2) (z l0 ll : GL2) (cs : List GL2) :
    (cs.foldl Consumer.constraint (Consumer.new alphas z l0 ll)).accs
      = alphas.map fun α => FOps.reduceWithPowers cs.reverse α := by
  have := @C09b.consumer_accs_eq_reduce GL2 L.gl2Field _ alphas z l0 ll cs
  rw [← L.bridge] at this
  exact this

/-- the consumer as `Stark.consumerAt` builds it: base-field challenges embedded by `GL2.ofBase` -/
theorem consumer_all_zero_of_many_base_alphas (alphas : List P2.GL) (z l0 ll : GL2) (cs : List GL2)
    (hcard : cs.length ≤ alphas.toFinset.card)
    (h : ∀ a ∈ (cs.foldl Consumer.constraint
        (Consumer.new (alphas.map GL2.ofBase) z l0 ll)).accs, a = GL2.zero) :
    ∀ c ∈ cs, c = GL2.zero := by
  apply consumer_all_zero_of_many_alphas (alphas.map GL2.ofBase) z l0 ll cs _ h
  have e : (alphas.map GL2.ofBase).toFinset = alphas.toFinset.image GL2.ofBase := by
    ext x; simp
  rw [e, Finset.card_image_of_injective _ Lemmas.GL2Field.ofBase_injective]
  exact hcard

/-- the interpreted AIR (`Air.evalConstraints`, the model of `eval_packed_generic` for the DSL
AIRs): if every accumulator is zero and there are at least as many distinct challenges as
constraints, every weighted constraint value is zero -/
theorem air_constraints_zero_of_many_alphas (a : Air) (lv nv pis : Array GL2) (alphas : List GL2)
    (z l0 ll : GL2) (hcard : a.constraints.length ≤ alphas.toFinset.card)
    (h : ∀ acc ∈ (a.evalConstraints lv nv pis (Consumer.new alphas z l0 ll)).accs,
      acc = GL2.zero) :
    ∀ p ∈ a.constraints,
      Lemmas.StarkAlg.weigh z l0 ll p.1 (p.2.eval lv nv pis) = GL2.zero := by
  rw [Lemmas.StarkAlg.evalConstraints_eq] at h
  intro p hp
  apply consumer_all_zero_of_many_alphas alphas z l0 ll _ (by rw [List.length_map]; exact hcard) h
  exact List.mem_map.2 ⟨p, hp, rfl⟩


/-! ### C. the Lagrange selectors (C02b §D, C09b §B at `K := GL2`, at the model's roots of unity) -/

/-- `L_0(1) = 1` -/
theorem evalL0_one (n : ℕ) : Plonk.evalL0 n GL2.one = GL2.one := Lemmas.GL2Field.m_evalL0_one n

/-- C02b `evalL0_root` for the model's `Plonk.evalL0` (= `PlonkAlg.evalL0` on `GL2`) on the model's
subgroup: at the `j`-th power of `primitive_root_of_unity(k)` (embedded by `GL2.ofBase`), `L_0` of
the subgroup of order `2^k` is the indicator of `j ≡ 0` -/
theorem evalL0_root (k : ℕ) (hk : k ≤ 32) (j : ℕ) :
    Plonk.evalL0 (2 ^ k) (GL2.ofBase (GL.pow (GL.primitiveRoot k) j))
      = if j % 2 ^ k = 0 then GL2.one else GL2.zero :=
  Lemmas.GL2Field.m_evalL0_root k hk j

/-- C02b `evalL0_mul`: off the point 1, `L_0(x)·n·(x − 1) = x^n − 1` (`n` not a multiple of `p`;
`FOps.pow` is the model's square-and-multiply) -/
theorem evalL0_mul (n : ℕ) (hn : ¬ GLP ∣ n) (x : GL2) (hx : x ≠ GL2.one) :
    Plonk.evalL0 n x * (GL2.ofBase (GL.ofNat n) * (x - GL2.one)) = FOps.pow x n - GL2.one :=
  Lemmas.GL2Field.m_evalL0_mul n hn x hx

/-- C02b `evalL0_of_pow_eq_one`: every other `n`-th root of unity of `GL2` is a zero of `L_0` -/
theorem evalL0_of_pow_eq_one (n : ℕ) (x : GL2) (hx : x ≠ GL2.one)
    (hxn : FOps.pow x n = GL2.one) : Plonk.evalL0 n x = GL2.zero :=
  Lemmas.GL2Field.m_evalL0_of_pow_eq_one n x hx hxn

/-- C09b `l0_eq_evalL0` / `lLast_eq_evalL0` for the model's `Stark.evalL0LLast` itself (not the
twin `evalL0LLastK`): whenever `eval_l_0_and_l_last` returns, `log N ≤ 32`, the point is neither
the first nor the last row's point, `L_0` is PLONK's `eval_l_0(x)`, `L_last` is `eval_l_0(g·x)`,
and `z_last = x − g⁻¹ ≠ 0` -/
theorem evalL0LLast_ok_spec (logN : ℕ) (x : GL2) (r : GL2 × GL2 × GL2)
    (h : Stark.evalL0LLast logN x = .ok r) :
    logN ≤ 32 ∧ x ≠ GL2.one ∧ GL2.scalarMul x (GL.primitiveRoot logN) ≠ GL2.one ∧
    r.1 = Plonk.evalL0 (2 ^ logN) x ∧
    r.2.1 = Plonk.evalL0 (2 ^ logN) (GL2.scalarMul x (GL.primitiveRoot logN)) ∧
    r.2.2 = x - GL2.ofBase (GL.inv (GL.primitiveRoot logN)) ∧
    r.2.2 ≠ GL2.zero :=
  Lemmas.GL2Field.m_evalL0LLast_ok logN x r h

/-- C09b `l0_mul` for the model's function -/
theorem evalL0LLast_l0_mul (logN : ℕ) (x : GL2) (r : GL2 × GL2 × GL2)
    (h : Stark.evalL0LLast logN x = .ok r) :
    r.1 * (GL2.ofBase (GL.ofNat (2 ^ logN)) * (x - GL2.one))
      = FOps.pow x (2 ^ logN) - GL2.one := by
  obtain ⟨_, hx, _, h1, _⟩ := evalL0LLast_ok_spec logN x r h
  rw [h1]
  apply evalL0_mul _ _ x hx
  intro hd
  have := (Nat.Prime.dvd_of_dvd_pow glPrime.out hd)
  exact absurd (Nat.le_of_dvd (by norm_num) this) (by norm_num)

/-- C09b `l0_of_pow_eq_one` / `lLast_of_pow_eq_one` for the model's function: on the trace domain
(where it returns at all) both Lagrange values vanish -/
theorem evalL0LLast_on_subgroup (logN : ℕ) (x : GL2) (r : GL2 × GL2 × GL2)
    (h : Stark.evalL0LLast logN x = .ok r) (hx : FOps.pow x (2 ^ logN) = GL2.one) :
    r.1 = GL2.zero ∧ r.2.1 = GL2.zero :=
  Lemmas.GL2Field.m_evalL0LLast_on_subgroup logN x r h hx

/-! ### non-vacuity of A, B, C -/

/-- non-vacuity (A): `X² − 3X + 2` (coefficients `[2, −3, 1]`) vanishes at `1` and `2`, and two
zeros is what the bound allows for three terms -/
example : ({⟨1, 0⟩, ⟨2, 0⟩} : Finset GL2).card ≤ 3 - 1 :=
  reduceWithPowers_zeros_card [⟨2, 0⟩, GL2.neg ⟨3, 0⟩, ⟨1, 0⟩] ⟨⟨1, 0⟩, by simp, by decide⟩ _ (by
    intro α hα
    simp only [Finset.mem_insert, Finset.mem_singleton] at hα
    rcases hα with rfl | rfl <;> decide +kernel)
/-- the hypotheses of `reduceWithPowers_terms_zero_of_many_zeros` are satisfiable -/
example : ∀ t ∈ [GL2.zero, GL2.zero], t = GL2.zero :=
  reduceWithPowers_terms_zero_of_many_zeros _ {⟨1, 0⟩, ⟨2, 1⟩}
    (by rw [Finset.card_pair (by decide)]; decide) (by
    intro α hα
    simp only [Finset.mem_insert, Finset.mem_singleton] at hα
    rcases hα with rfl | rfl <;> decide +kernel)
/-- … and of the base-field form -/
example : ({1, 2} : Finset P2.GL).card ≤ 3 - 1 :=
  reduceExt_base_zeros_card [⟨2, 0⟩, GL2.neg ⟨3, 0⟩, ⟨1, 0⟩] ⟨⟨1, 0⟩, by simp, by decide⟩ _ (by
    intro α hα
    simp only [Finset.mem_insert, Finset.mem_singleton] at hα
    rcases hα with rfl | rfl <;> decide +kernel)
/-- non-vacuity (B): constraints `[0, 0]`, challenges `5` and `7 + X` -/
example : ∀ c ∈ [GL2.zero, GL2.zero], c = GL2.zero :=
  consumer_all_zero_of_many_alphas [⟨5, 0⟩, ⟨7, 1⟩] GL2.zero GL2.zero GL2.zero _
    (by
      have e : ([⟨5, 0⟩, ⟨7, 1⟩] : List GL2).toFinset = {⟨5, 0⟩, ⟨7, 1⟩} := by simp
      rw [e, Finset.card_pair (by decide)]; decide)
    (by decide +kernel)
/-- … and a non-zero constraint list `[1, −3, 2]` (`x² − 3x + 2`) passing for `α = 1, 2` -/
example : ∃ B : Finset GL2, B.card ≤ 3 - 1 ∧ ∀ α ∈ [(⟨1, 0⟩ : GL2), ⟨2, 0⟩], α ∈ B :=
  consumer_acc_zero_mem [⟨1, 0⟩, ⟨2, 0⟩] GL2.zero GL2.zero GL2.zero
    [⟨1, 0⟩, GL2.neg ⟨3, 0⟩, ⟨2, 0⟩] ⟨⟨1, 0⟩, by simp, by decide⟩ (by decide +kernel)
/-- what the consumer computes on `[1, −3, 2]` at `α = 2, 10`: `0` and `72` -/
example : ([⟨1, 0⟩, GL2.neg ⟨3, 0⟩, ⟨2, 0⟩].foldl Consumer.constraint
    (Consumer.new [(⟨2, 0⟩ : GL2), ⟨10, 0⟩] GL2.zero GL2.zero GL2.zero)).accs
      = [GL2.zero, ⟨72, 0⟩] := by decide +kernel

/-- non-vacuity (C): `N = 2`, rows at `1, −1`; `x = −1` is the second row -/
example : Plonk.evalL0 (2 ^ 1) (GL2.ofBase (GL.pow (GL.primitiveRoot 1) 1)) = GL2.zero :=
  evalL0_root 1 (by norm_num) 1
example : GL.pow (GL.primitiveRoot 1) 1 = GL.ofNat (GLP - 1) := by decide +kernel
example : Plonk.evalL0 2 ⟨3, 0⟩ = ⟨2, 0⟩ := by decide +kernel
example : Plonk.evalL0 2 ⟨3, 0⟩ * (GL2.ofBase (GL.ofNat 2) * ((⟨3, 0⟩ : GL2) - GL2.one))
    = FOps.pow ⟨3, 0⟩ 2 - GL2.one := evalL0_mul 2 (by norm_num) ⟨3, 0⟩ (by decide)
/-- `eval_l_0_and_l_last` returns at `log N = 1`, `x = 2` (C09b) -/
example : ∃ r, Stark.evalL0LLast 1 (⟨2, 0⟩ : GL2) = .ok r := by
  have h : (match Stark.evalL0LLast 1 (⟨2, 0⟩ : GL2) with
      | .ok _ => true | .error _ => false) = true := by decide +kernel
  cases he : Stark.evalL0LLast 1 (⟨2, 0⟩ : GL2) with
  | ok r => exact ⟨r, rfl⟩
  | error e => rw [he] at h; exact absurd h (by simp)

end ModelLevel

end P2.Props.GL2Field
