/-
C05b (FRI algebra over an arbitrary field `K`):
 F1 the model's `Poly.lagrangeEval` is Mathlib's Lagrange interpolant; interpolating the values of
    a polynomial of degree `< #points` gives back the polynomial;
 F2 the fold identity: interpolating `P` on the coset `x·⟨g⟩` and evaluating at `β` is the prover's
    fold `Σ β^i P_i` evaluated at `x^r` (completeness of every FRI layer check);
 F3 the verifier's combination `(reduce(evals) − reduce(openings))/(x − z)` is the evaluation at `x`
    of the quotient polynomial `divide_by_linear` produces, when the openings are the true values;
 F4 a wrong opening makes the batched numerator non-divisible by `X − z` for all but `≤ n − 1`
    values of `α`.
-/
import P2.Lemmas.Alg2
import P2.Props.C15
namespace P2.Props.C05
open P2 Polynomial P2.Lemmas.Alg2

variable {K : Type} [Field K] [DecidableEq K]

/-! ## F1 `lagrangeEval` is Lagrange interpolation -/

/-- `Poly.lagrangeEval` (over the operations of a field) is the evaluation at `x` of Mathlib's
`Lagrange.interpolate` through the listed points, indexed by position. No distinctness hypothesis
is needed for this equality: both sides use `0⁻¹ = 0` in the same way. -/
theorem lagrangeEval_eq_interpolate (pts : List (K × K)) (x : K) :
    @Poly.lagrangeEval K (FOps.ofField K) pts x
      = (Lagrange.interpolate Finset.univ (fun i : Fin pts.length => pts[i].1)
          (fun i : Fin pts.length => pts[i].2)).eval x :=
  lagrangeEval_eq_interpolate_univ pts x

/-- the same with nodes a `Finset K`: for pairwise distinct x-coordinates and any function `r`
taking the listed values, `lagrangeEval` is `interpolate nodes id r` evaluated at `x` -/
theorem lagrangeEval_eq_interpolate_finset (pts : List (K × K)) (hn : (pts.map Prod.fst).Nodup)
    (r : K → K) (hr : ∀ p ∈ pts, r p.1 = p.2) (x : K) :
    @Poly.lagrangeEval K (FOps.ofField K) pts x
      = (Lagrange.interpolate (pts.map Prod.fst).toFinset id r).eval x := by
  rw [lagrangeEval_eq_interpolate_univ]
  congr 1
  have hinj : Set.InjOn (fun i : Fin pts.length => pts[i].1) (Finset.univ : Finset (Fin pts.length)) := by
    intro i _ j _ h
    apply Fin.ext
    have := (List.Nodup.getElem_inj_iff hn (i := i.1) (j := j.1)
      (hi := by simp) (hj := by simp)).1 (by simpa using h)
    exact this
  apply Lagrange.eq_interpolate_of_eval_eq
  · exact Set.injOn_id _
  · rw [List.toFinset_card_of_nodup hn, List.length_map]
    simpa using Lagrange.degree_interpolate_lt (r := fun i : Fin pts.length => pts[i].2) hinj
  · intro a ha
    simp only [List.mem_toFinset, List.mem_map] at ha
    obtain ⟨p, hp, rfl⟩ := ha
    obtain ⟨i, hi, rfl⟩ := List.getElem_of_mem hp
    have := Lagrange.eval_interpolate_at_node (r := fun i : Fin pts.length => pts[i].2) hinj
      (Finset.mem_univ (⟨i, hi⟩ : Fin pts.length))
    show eval pts[i].1 _ = _
    rw [hr _ hp]
    exact this

/-- interpolation reproduces polynomials: if the points are the values of `p` at pairwise distinct
nodes and `deg p < #points`, then `lagrangeEval points x = p(x)` for every `x` -/
theorem lagrangeEval_eq_poly_eval (nodes : List K) (hn : nodes.Nodup) (p : K[X])
    (hp : p.natDegree < nodes.length) (pts : List (K × K))
    (hpts : pts = nodes.map (fun a => (a, p.eval a))) (x : K) :
    @Poly.lagrangeEval K (FOps.ofField K) pts x = p.eval x := by
  subst hpts
  exact lagrangeEval_of_poly nodes hn p
    (lt_of_le_of_lt degree_le_natDegree (by exact_mod_cast hp)) x

/-- the same with the `degree` bound (covers `p = 0` with no points) -/
theorem lagrangeEval_eq_poly_eval' (nodes : List K) (hn : nodes.Nodup) (p : K[X])
    (hp : p.degree < nodes.length) (x : K) :
    @Poly.lagrangeEval K (FOps.ofField K) (nodes.map fun a => (a, p.eval a)) x = p.eval x :=
  lagrangeEval_of_poly nodes hn p hp x

/-! ## F2 the fold identity -/

omit [DecidableEq K] in
/-- `P = Σ_{i<r} X^i·P_i(X^r)` evaluated: `P(w) = Σ w^i · P_i(w^r)` -/
theorem splitPoly_eval (r : Nat) (Pi : Fin r → K[X]) (w : K) :
    (splitPoly Pi).eval w = ∑ i : Fin r, w ^ (i : Nat) * (Pi i).eval (w ^ r) :=
  Lemmas.Alg2.splitPoly_eval Pi w

omit [DecidableEq K] in
/-- `Q(Y) = Σ_{i<r} P_i(x^r)·Y^i` has degree `< r` … -/
theorem cosetPoly_degree_lt (r : Nat) (Pi : Fin r → K[X]) (y : K) :
    (cosetPoly Pi y).degree < r := Lemmas.Alg2.cosetPoly_degree_lt Pi y

omit [DecidableEq K] in
/-- … and agrees with `P` on the whole coset `x·⟨g⟩` (`g^r = 1` suffices) -/
theorem splitPoly_eq_cosetPoly_on_coset (r : Nat) (Pi : Fin r → K[X]) (g x : K) (hg : g ^ r = 1)
    (j : Nat) :
    (splitPoly Pi).eval (x * g ^ j) = (cosetPoly Pi (x ^ r)).eval (x * g ^ j) :=
  Lemmas.Alg2.splitPoly_eval_coset Pi hg x j

omit [DecidableEq K] in
/-- `Q(β)` is the prover's fold `Σ β^i P_i` at `x^r` -/
theorem cosetPoly_eval_eq_fold (r : Nat) (Pi : Fin r → K[X]) (y β : K) :
    (cosetPoly Pi y).eval β = (foldPoly Pi β).eval y := by
  rw [cosetPoly_eval, foldPoly_eval]

/-- **fold identity**: with `g` a primitive `r`-th root of unity and `x ≠ 0`, interpolating
`{(x·g^j, P(x·g^j))}_{j<r}` and evaluating at `β` gives `Σ_{i<r} β^i · P_i(x^r)`. -/
theorem fold_identity (r : Nat) (g x : K) (hg : IsPrimitiveRoot g r) (hx : x ≠ 0)
    (Pi : Fin r → K[X]) (β : K) :
    @Poly.lagrangeEval K (FOps.ofField K)
        ((List.range r).map fun j => (x * g ^ j, (splitPoly Pi).eval (x * g ^ j))) β
      = ∑ i : Fin r, β ^ (i : Nat) * (Pi i).eval (x ^ r) := by
  have h1 : ((List.range r).map fun j => (x * g ^ j, (splitPoly Pi).eval (x * g ^ j)))
      = ((List.range r).map fun j => x * g ^ j).map
          fun a => (a, (cosetPoly Pi (x ^ r)).eval a) := by
    rw [List.map_map]
    apply List.map_congr_left
    intro j _
    simp [Lemmas.Alg2.splitPoly_eval_coset Pi hg.pow_eq_one x j]
  rw [h1, lagrangeEval_of_poly _ (coset_nodup hg hx) _ (by simpa using Lemmas.Alg2.cosetPoly_degree_lt Pi (x ^ r)),
    cosetPoly_eval]

/-- the statement with `P` and the fold spelled out (no auxiliary definitions) -/
theorem fold_identity_explicit (r : Nat) (g x : K) (hg : IsPrimitiveRoot g r) (hx : x ≠ 0)
    (Pi : Fin r → K[X]) (β : K) :
    @Poly.lagrangeEval K (FOps.ofField K)
        ((List.range r).map fun j =>
          (x * g ^ j, (∑ i : Fin r, X ^ (i : Nat) * (Pi i).comp (X ^ r) : K[X]).eval (x * g ^ j))) β
      = (∑ i : Fin r, C (β ^ (i : Nat)) * Pi i : K[X]).eval (x ^ r) := by
  have := fold_identity r g x hg hx Pi β
  rw [← foldPoly_eval] at this
  exact this

/-- `r = 2^a` (the FRI arities) -/
theorem fold_identity_pow2 (a : Nat) (g x : K) (hg : IsPrimitiveRoot g (2 ^ a)) (hx : x ≠ 0)
    (Pi : Fin (2 ^ a) → K[X]) (β : K) :
    @Poly.lagrangeEval K (FOps.ofField K)
        ((List.range (2 ^ a)).map fun j => (x * g ^ j, (splitPoly Pi).eval (x * g ^ j))) β
      = (foldPoly Pi β).eval (x ^ 2 ^ a) := by
  rw [fold_identity _ g x hg hx Pi β, foldPoly_eval]

/-- completeness of one FRI layer check, in the shape of `compute_evaluation`: the verifier is
handed the coset evaluations `ev` (already in natural order) and interpolates the points
`(cosetStart·g^i, ev[i])`; if `ev` are the true values of `P`, the result is the value at `x^r`
of the prover's next-layer polynomial `Σ β^i P_i`. -/
theorem fold_layer_complete (a : Nat) (g cosetStart : K) (hg : IsPrimitiveRoot g (2 ^ a))
    (hx : cosetStart ≠ 0) (Pi : Fin (2 ^ a) → K[X]) (β : K) (ev : List K)
    (hev : ∀ j, j < 2 ^ a → ev.getD j 0 = (splitPoly Pi).eval (cosetStart * g ^ j)) :
    @Poly.lagrangeEval K (FOps.ofField K)
        ((List.range (2 ^ a)).map fun i => (cosetStart * g ^ i, ev.getD i 0)) β
      = (foldPoly Pi β).eval (cosetStart ^ 2 ^ a) := by
  rw [← fold_identity_pow2 a g cosetStart hg hx Pi β]
  congr 1
  apply List.map_congr_left
  intro j hj
  rw [hev j (List.mem_range.1 hj)]

omit [DecidableEq K] in
/-- every polynomial has such a split (so the fold identity applies to every `P`), and a degree
bound `deg P < d·r` gives `deg P_i < d`, hence `deg (Σ β^i P_i) < d`: folding divides the degree
bound by the arity -/
theorem split_exists (P : K[X]) (d r : Nat) (hlt : P.natDegree < d * r) :
    ∃ Pi : Fin r → K[X], splitPoly Pi = P ∧ (∀ i, (Pi i).degree < d) ∧
      ∀ β, (foldPoly Pi β).degree < d := by
  obtain ⟨Pi, h1, h2⟩ := exists_splitPoly_of_natDegree_lt P d r hlt
  exact ⟨Pi, h1, h2, fun β => foldPoly_degree_lt Pi β d h2⟩

/-- **completeness of a FRI layer for an arbitrary polynomial** of degree `< d·2^a`: there is a
polynomial `P'` of degree `< d` (the prover's fold) such that, for every `x ≠ 0`, interpolating the
values of `P` on the coset `x·⟨g⟩` and evaluating at `β` gives `P'(x^(2^a))` -/
theorem fold_layer_complete_any (a : Nat) (g : K) (hg : IsPrimitiveRoot g (2 ^ a)) (P : K[X])
    (d : Nat) (hlt : P.natDegree < d * 2 ^ a) (β : K) :
    ∃ P' : K[X], P'.degree < d ∧ ∀ x : K, x ≠ 0 →
      @Poly.lagrangeEval K (FOps.ofField K)
          ((List.range (2 ^ a)).map fun j => (x * g ^ j, P.eval (x * g ^ j))) β
        = P'.eval (x ^ 2 ^ a) := by
  obtain ⟨Pi, h1, _, h3⟩ := split_exists P d (2 ^ a) hlt
  refine ⟨foldPoly Pi β, h3 β, fun x hx => ?_⟩
  rw [← h1]
  exact fold_identity_pow2 a g x hg hx Pi β

/-! ## F3 combining openings (completeness direction) -/

omit [DecidableEq K] in
/-- the quotient by `X − z`, evaluated off `z` -/
theorem quotient_eval (F : K[X]) (z x : K) (hx : x ≠ z) :
    (F /ₘ (X - C z)).eval x = (F.eval x - F.eval z) / (x - z) := by
  have h := congrArg (eval x) (modByMonic_add_div F (X - C z))
  rw [modByMonic_X_sub_C_eq_C_eval] at h
  simp only [eval_add, eval_C, eval_mul, eval_sub, eval_X] at h
  rw [eq_div_iff (sub_ne_zero.2 hx), ← h]
  ring

omit [DecidableEq K] in
/-- dividing by `X − z` commutes with the `α`-combination -/
theorem combine_divByMonic (n : Nat) (F : Nat → K[X]) (α z : K) :
    (∑ k ∈ Finset.range n, C (α ^ k) * F k) /ₘ (X - C z)
      = ∑ k ∈ Finset.range n, C (α ^ k) * (F k /ₘ (X - C z)) := by
  refine (div_modByMonic_unique _ (C (∑ k ∈ Finset.range n, α ^ k * (F k).eval z))
    (monic_X_sub_C z) ⟨?_, ?_⟩).1
  · rw [map_sum, Finset.mul_sum, ← Finset.sum_add_distrib]
    apply Finset.sum_congr rfl
    intro k _
    have := modByMonic_add_div (F k) (X - C z)
    rw [modByMonic_X_sub_C_eq_C_eval] at this
    rw [C_mul]
    linear_combination (C (α ^ k)) * this
  · rw [degree_X_sub_C]
    exact lt_of_le_of_lt degree_C_le (by norm_num)

omit [DecidableEq K] in
/-- **combine identity**: when the claimed openings are the true values `F_k(z)`, the verifier's
`(Σ α^k F_k(x) − Σ α^k F_k(z)) / (x − z)` is the evaluation at `x` of the batched quotient
polynomial `Σ α^k · (F_k /ₘ (X − z))` the prover committed to. -/
theorem combine_identity (n : Nat) (F : Nat → K[X]) (α z x : K) (hx : x ≠ z) :
    (∑ k ∈ Finset.range n, α ^ k * (F k).eval x - ∑ k ∈ Finset.range n, α ^ k * (F k).eval z)
        / (x - z)
      = (∑ k ∈ Finset.range n, C (α ^ k) * (F k /ₘ (X - C z))).eval x := by
  rw [eval_finsetSum, ← Finset.sum_sub_distrib, div_eq_mul_inv, Finset.sum_mul]
  apply Finset.sum_congr rfl
  intro k _
  rw [eval_mul, eval_C, quotient_eval _ _ _ hx]
  ring

omit [DecidableEq K] in
/-- the same with the quotient of the batched polynomial -/
theorem combine_identity' (n : Nat) (F : Nat → K[X]) (α z x : K) (hx : x ≠ z) :
    (∑ k ∈ Finset.range n, α ^ k * (F k).eval x - ∑ k ∈ Finset.range n, α ^ k * (F k).eval z)
        / (x - z)
      = ((∑ k ∈ Finset.range n, C (α ^ k) * F k) /ₘ (X - C z)).eval x := by
  rw [combine_identity n F α z x hx, combine_divByMonic]

/-- the model's `divide_by_linear` on coefficient lists is `/ₘ (X − C z)` -/
theorem divideByLinear_eq_divByMonic (c : List K) (z : K) :
    ofList (@Poly.divideByLinear K (FOps.ofField K) c z) = ofList c /ₘ (X - C z) :=
  ofList_divideByLinear c z

/-- **combine identity on the model's own operations**: with `reduce_with_powers`, Horner
evaluation and `divide_by_linear` as modelled, for coefficient lists `cs`:
`(reduce(evals at x) − reduce(evals at z)) · (x − z)⁻¹ = reduce(evals of the quotients at x)` -/
theorem combine_identity_lists (cs : List (List K)) (α z x : K) (hx : x ≠ z) :
    (@FOps.reduceWithPowers K (FOps.ofField K)
          (cs.map fun c => @Poly.eval K (FOps.ofField K) c x) α
        - @FOps.reduceWithPowers K (FOps.ofField K)
          (cs.map fun c => @Poly.eval K (FOps.ofField K) c z) α) * (x - z)⁻¹
      = @FOps.reduceWithPowers K (FOps.ofField K)
          (cs.map fun c =>
            @Poly.eval K (FOps.ofField K) (@Poly.divideByLinear K (FOps.ofField K) c z) x) α := by
  have hne : x - z ≠ 0 := sub_ne_zero.2 hx
  rw [mul_inv_eq_iff_eq_mul₀ hne]
  induction cs with
  | nil => show (0 : K) - 0 = 0 * (x - z); ring
  | cons c cs ih =>
    simp only [FOps.reduceWithPowers, List.map_cons, List.foldr_cons] at ih ⊢
    have hs := Props.C15.divideByLinear_spec c z x
    linear_combination (α) * ih + hs

/-! ## F4 combining openings (soundness direction) -/

omit [DecidableEq K] in
/-- if some claimed opening is wrong, `Σ α^k (F_k − v_k)` is divisible by `X − z` for at most
`n − 1` values of `α` -/
theorem combine_soundness (n : Nat) (F : Nat → K[X]) (v : Nat → K) (z : K)
    (hbad : ∃ k, k < n ∧ v k ≠ (F k).eval z) (A : Finset K)
    (hA : ∀ α ∈ A, (X - C z) ∣ ∑ k ∈ Finset.range n, C (α ^ k) * (F k - C (v k))) :
    A.card ≤ n - 1 := by
  obtain ⟨k0, hk0, hne⟩ := hbad
  set D : K[X] := ∑ k : Fin n, C ((F k).eval z - v k) * X ^ (k : Nat) with hD
  have hDdeg : D.degree < n := degree_sum_fin_lt _
  have hD0 : D ≠ 0 := by
    intro h
    have := congrArg (fun p => p.coeff k0) h
    simp only [hD, finsetSum_coeff, coeff_C_mul, coeff_X_pow, coeff_zero] at this
    rw [Finset.sum_eq_single (⟨k0, hk0⟩ : Fin n)] at this
    · simp only [if_true, mul_one] at this
      exact hne (sub_eq_zero.1 this).symm
    · intro b _ hb
      have : k0 ≠ (b : Nat) := fun e => hb (Fin.ext e.symm)
      simp [this]
    · simp
  have hnat : D.natDegree < n := (natDegree_lt_iff_degree_lt hD0).2 hDdeg
  have hsub : A.val ⊆ D.roots := by
    intro α hα
    rw [mem_roots hD0, IsRoot.def]
    have h := (dvd_iff_isRoot.1 (hA α hα))
    rw [IsRoot.def, eval_finsetSum] at h
    rw [hD, eval_finsetSum, ← h, ← Fin.sum_univ_eq_sum_range
      (fun k => eval z (C (α ^ k) * (F k - C (v k))))]
    apply Finset.sum_congr rfl
    intro k _
    simp [mul_comm]
  have := card_le_degree_of_subset_roots hsub
  omega

/-! ## non-vacuity -/

/-- two points: the line through `(1, 3)` and `(2, 5)` at `x = 4` -/
example : @Poly.lagrangeEval ℚ (FOps.ofField ℚ) [(1, 3), (2, 5)] 4 = 9 := by
  rw [lagrangeEval_formula]
  simp [Fin.sum_univ_succ, Fin.prod_univ_succ]
  norm_num

/-- `r = 2`, `g = −1` over `ℚ`: folding `P = P₀(X²) + X·P₁(X²)` -/
example (P0 P1 : ℚ[X]) (x β : ℚ) (hx : x ≠ 0) :
    @Poly.lagrangeEval ℚ (FOps.ofField ℚ)
        ((List.range 2).map fun j =>
          (x * (-1) ^ j, (splitPoly ![P0, P1]).eval (x * (-1) ^ j))) β
      = P0.eval (x ^ 2) + β * P1.eval (x ^ 2) := by
  have hg : IsPrimitiveRoot (-1 : ℚ) 2 := by
    refine IsPrimitiveRoot.mk_of_lt _ (by norm_num) (by norm_num) ?_
    intro l hl0 hl2
    obtain rfl : l = 1 := by omega
    norm_num
  rw [fold_identity 2 (-1) x hg hx]
  simp [Fin.sum_univ_succ]

end P2.Props.C05
