/-
C10: the mathematical meaning of the trace-level lookup semantics `Air.firstBadLookup` and of the
cross-table-lookup semantics `CtlSpec.holds` (both in `P2/Model/Air.lean`).

Both functions keep an association list (value ↦ accumulated weight) that they update with
`bump` / `bumpTuple`, and finally test "all stored weights are 0". The theorems below say what
that computes: for EVERY value `v` (resp. tuple `t`), the sum over all rows of the multiplicities
with which `v` is looked up equals the sum of the multiplicities with which the table offers it.

All weights live in `GL = Fin GLP`; every sum below is a sum in `GL`, i.e. MODULO the Goldilocks
prime p. A filter value is an arbitrary field element, not a 0/1 flag, and a value looked up p times
with multiplicity 1 counts as not looked up at all.
-/
import P2.Lemmas.StarkLookup
namespace P2.Props.C10
open P2 P2.Air P2.Lemmas.StarkLookup

/-! ### the quantities the model evaluates on row `r` -/

/-- local row `r` (missing row reads as the empty row) -/
def lvAt (rows : Array (Array GL)) (r : Nat) : Array GL := rows.getD r #[]
/-- next row, cyclically -/
def nvAt (rows : Array (Array GL)) (r : Nat) : Array GL := rows.getD ((r + 1) % rows.size) #[]

/-- value of a column combination on row `r` (`Column::eval_with_next`, next row cyclic) -/
def colVal (c : ColSpec) (rows : Array (Array GL)) (r : Nat) : GL :=
  c.evalWithNext (fun x => x) (lvAt rows r) (nvAt rows r)
/-- value of a filter on row `r` -/
def filterVal (f : FilterSpec) (rows : Array (Array GL)) (r : Nat) : GL :=
  f.eval (fun x => x) (lvAt rows r) (nvAt rows r)

/-! ### lookups inside one table -/

/-- looking side of row `r`: one (column value, filter value) pair per (column, filter) -/
def lookingRowEvents (l : LookupSpec) (rows : Array (Array GL)) (r : Nat) : List (GL × GL) :=
  (l.columns.zip l.filters).map fun cf => (colVal cf.1 rows r, filterVal cf.2 rows r)

/-- table side of row `r`: (table value, frequency value) -/
def tableRowEvent (l : LookupSpec) (rows : Array (Array GL)) (r : Nat) : GL × GL :=
  (colVal l.table rows r, colVal l.freq rows r)

/-- everything `firstBadLookup` bumps for lookup `l`, in order: per row the looking pairs, then the
table value with the NEGATED frequency -/
def lookupEvents (l : LookupSpec) (rows : Array (Array GL)) : List (GL × GL) :=
  (List.range rows.size).flatMap fun r =>
    lookingRowEvents l rows r ++ [((tableRowEvent l rows r).1, 0 - (tableRowEvent l rows r).2)]

/-- all looking events of the trace -/
def lookingEvents (l : LookupSpec) (rows : Array (Array GL)) : List (GL × GL) :=
  (List.range rows.size).flatMap (lookingRowEvents l rows)
/-- all table events of the trace (positive frequencies) -/
def tableEvents (l : LookupSpec) (rows : Array (Array GL)) : List (GL × GL) :=
  (List.range rows.size).map (tableRowEvent l rows)

/-- the association list `firstBadLookup` builds for lookup `l` (its inner fold, verbatim) -/
def lookupTable (l : LookupSpec) (rows : Array (Array GL)) : List (GL × GL) :=
  let n := rows.size
  let id : GL → GL := fun x => x
  (List.range n).foldl (fun (m : List (GL × GL)) r =>
    let lv := rows.getD r #[]
    let nv := rows.getD ((r + 1) % n) #[]
    let m := (l.columns.zip l.filters).foldl (fun m (c, f) =>
      bump m (c.evalWithNext id lv nv) (f.eval id lv nv)) m
    bump m (l.table.evalWithNext id lv nv) (0 - l.freq.evalWithNext id lv nv)) []

/-- `firstBadLookup` is: first lookup whose association list has a non-zero entry -/
theorem firstBadLookup_eq (a : Air) (rows : Array (Array GL)) :
    a.firstBadLookup rows = (a.lookups.zipIdx).findSome? fun li =>
      if (lookupTable li.1 rows).all (fun p => p.2 == 0) then none else some li.2 := rfl

/-- **the inner fold of `firstBadLookup` is "bump every event of `lookupEvents`, in order"** -/
theorem lookupTable_eq (l : LookupSpec) (rows : Array (Array GL)) :
    lookupTable l rows = (lookupEvents l rows).foldl (fun m e => bump m e.1 e.2) [] := by
  unfold lookupEvents lookingRowEvents
  simp only [List.foldl_flatMap, List.foldl_append, List.foldl_map, List.foldl_cons,
    List.foldl_nil]
  rfl

/-- the lookup `l` holds on the trace: every value has total weight 0 (mod p) -/
theorem lookupTable_all_zero_iff (l : LookupSpec) (rows : Array (Array GL)) :
    (lookupTable l rows).all (fun p => p.2 == 0) = true ↔
      ∀ v : GL, weight (lookupEvents l rows) v = 0 := by
  rw [lookupTable_eq]
  exact bumpAll_all_zero_iff (lookupEvents l rows)

/-- `findSome?` over `zipIdx` with a "first failing index" body returns `none` iff nothing fails -/
theorem findSome?_zipIdx_none {α : Type} (P : α → Bool) (xs : List α) (k : Nat) :
    (xs.zipIdx k).findSome? (fun xi => if P xi.1 then none else some xi.2) = none ↔
      ∀ x ∈ xs, P x = true := by
  induction xs generalizing k with
  | nil => simp only [List.zipIdx_nil, List.findSome?_nil, List.not_mem_nil, false_imp_iff,
      implies_true]
  | cons x xs ih =>
    rw [List.zipIdx_cons, List.findSome?_cons]
    cases hx : P x with
    | true =>
      simp only [if_true, ih, List.mem_cons, forall_eq_or_imp, hx, true_and]
    | false =>
      simp only [Bool.false_eq_true, if_false, List.mem_cons, forall_eq_or_imp, hx, false_and,
        reduceCtorEq]

/-- … and returns `some i` iff `i` is the first failing position -/
theorem findSome?_zipIdx_some {α : Type} (P : α → Bool) (xs : List α) (k i : Nat) :
    (xs.zipIdx k).findSome? (fun xi => if P xi.1 then none else some xi.2) = some i ↔
      k ≤ i ∧ (∃ x, xs[i - k]? = some x ∧ P x = false) ∧ ∀ y ∈ xs.take (i - k), P y = true := by
  induction xs generalizing k with
  | nil => simp
  | cons x xs ih =>
    rw [List.zipIdx_cons, List.findSome?_cons]
    cases hx : P x with
    | false =>
      simp only [Bool.false_eq_true, if_false, Option.some.injEq]
      constructor
      · rintro rfl
        refine ⟨Nat.le_refl _, ⟨x, ?_, hx⟩, ?_⟩
        · simp
        · simp
      · rintro ⟨hk, _, hall⟩
        by_cases hik : i = k
        · exact hik.symm
        · obtain ⟨j, hj⟩ : ∃ j, i - k = j + 1 := ⟨i - k - 1, by omega⟩
          rw [hj, List.take_succ_cons] at hall
          have := hall x (List.mem_cons_self)
          rw [hx] at this; cases this
    | true =>
      simp only [if_true]
      rw [ih (k + 1)]
      constructor
      · rintro ⟨hk, ⟨y, hy, hPy⟩, hall⟩
        obtain ⟨j, hj⟩ : ∃ j, i - k = j + 1 := ⟨i - k - 1, by omega⟩
        have hj' : i - (k + 1) = j := by omega
        rw [hj'] at hy hall
        refine ⟨by omega, ⟨y, ?_, hPy⟩, ?_⟩
        · rw [hj, List.getElem?_cons_succ]; exact hy
        · rw [hj, List.take_succ_cons]
          intro z hz
          rcases List.mem_cons.1 hz with rfl | hz
          · exact hx
          · exact hall z hz
      · rintro ⟨hk, ⟨y, hy, hPy⟩, hall⟩
        by_cases hik : i = k
        · subst hik
          simp only [Nat.sub_self, List.getElem?_cons_zero, Option.some.injEq] at hy
          rw [← hy, hx] at hPy; cases hPy
        · obtain ⟨j, hj⟩ : ∃ j, i - k = j + 1 := ⟨i - k - 1, by omega⟩
          have hj' : i - (k + 1) = j := by omega
          rw [hj, List.getElem?_cons_succ] at hy
          rw [hj, List.take_succ_cons] at hall
          rw [hj']
          exact ⟨by omega, ⟨y, hy, hPy⟩, fun z hz => hall z (List.mem_cons_of_mem _ hz)⟩

/-- **`firstBadLookup = none`, sum form.** No lookup is reported iff for every declared lookup and
every field element `v`, the weights of all events with key `v` — filter values of the looking
columns that evaluate to `v`, and NEGATED frequencies of the rows whose table value is `v` — sum to
0 in `GL` (mod p). -/
theorem firstBadLookup_none_iff (a : Air) (rows : Array (Array GL)) :
    a.firstBadLookup rows = none ↔
      ∀ l ∈ a.lookups, ∀ v : GL,
        wsum (((lookupEvents l rows).filter (·.1 == v)).map (·.2)) = 0 := by
  rw [firstBadLookup_eq,
    findSome?_zipIdx_none (fun l => (lookupTable l rows).all (fun p => p.2 == 0)) a.lookups 0]
  simp only [lookupTable_all_zero_iff, weight_eq_wsum]

/-- splitting the events of a lookup into looking side minus table side -/
theorem weight_lookupEvents (l : LookupSpec) (rows : Array (Array GL)) (v : GL) :
    weight (lookupEvents l rows) v =
      weight (lookingEvents l rows) v + (0 - weight (tableEvents l rows) v) := by
  unfold lookupEvents lookingEvents tableEvents
  rw [weight_flatMap_append, ← weight_map_neg, List.map_map, List.map_eq_flatMap]
  rfl

/-- **`firstBadLookup = none`, multiset form.** For every lookup and every value `v`: the total
multiplicity (mod p) with which the looking columns take the value `v` equals the total
frequency (mod p) of the rows whose table value is `v`. -/
theorem firstBadLookup_none_iff_weights (a : Air) (rows : Array (Array GL)) :
    a.firstBadLookup rows = none ↔
      ∀ l ∈ a.lookups, ∀ v : GL,
        weight (lookingEvents l rows) v = weight (tableEvents l rows) v := by
  rw [firstBadLookup_none_iff]
  simp only [← weight_eq_wsum, weight_lookupEvents, gl_add_neg_eq_zero]

/-- lookup `l` holds on the trace: looking multiset = table multiset, weights mod p -/
def LookupHolds (l : LookupSpec) (rows : Array (Array GL)) : Prop :=
  ∀ v : GL, weight (lookingEvents l rows) v = weight (tableEvents l rows) v

theorem lookupTable_all_zero_iff_holds (l : LookupSpec) (rows : Array (Array GL)) :
    (lookupTable l rows).all (fun p => p.2 == 0) = true ↔ LookupHolds l rows := by
  rw [lookupTable_all_zero_iff]
  simp only [LookupHolds, weight_lookupEvents, gl_add_neg_eq_zero]

/-- **`firstBadLookup = some i`**: lookup number `i` exists and does not hold, and all earlier
lookups hold -/
theorem firstBadLookup_some_iff (a : Air) (rows : Array (Array GL)) (i : Nat) :
    a.firstBadLookup rows = some i ↔
      (∃ l, a.lookups[i]? = some l ∧ ¬ LookupHolds l rows) ∧
        ∀ l ∈ a.lookups.take i, LookupHolds l rows := by
  rw [firstBadLookup_eq,
    findSome?_zipIdx_some (fun l => (lookupTable l rows).all (fun p => p.2 == 0)) a.lookups 0 i]
  simp only [Nat.zero_le, true_and, Nat.sub_zero, ← lookupTable_all_zero_iff_holds,
    Bool.not_eq_true]

/-- **`firstBadLookup = none`, written out.** For every lookup and every value `v`,
`Σ_rows Σ_(col,filter) [col(row) = v]·filter(row) = Σ_rows [table(row) = v]·freq(row)` in `GL`
(mod p); columns and filters are paired positionally (`zip`: surplus columns or filters are
ignored), next rows are cyclic. -/
theorem firstBadLookup_none_iff_sums (a : Air) (rows : Array (Array GL)) :
    a.firstBadLookup rows = none ↔
      ∀ l ∈ a.lookups, ∀ v : GL,
        wsum ((List.range rows.size).map fun r =>
          wsum ((l.columns.zip l.filters).map fun cf =>
            if colVal cf.1 rows r == v then filterVal cf.2 rows r else 0))
        = wsum ((List.range rows.size).map fun r =>
            if colVal l.table rows r == v then colVal l.freq rows r else 0) := by
  rw [firstBadLookup_none_iff_weights]
  simp only [lookingEvents, tableEvents, lookingRowEvents, tableRowEvent, weight_flatMap_eq_wsum,
    weight_map_eq_wsum]
  exact Iff.rfl

/-! ### cross-table lookups -/

/-- the events of one side: per row of its table, (tuple of column values, ± filter value) -/
def sideEvents (traces : Array (Array (Array GL))) (s : CtlSide) (neg : Bool) :
    List (List GL × GL) :=
  let rows := traces.getD s.table #[]
  (List.range rows.size).map fun r =>
    (s.columns.map fun col => colVal col rows r,
      if neg then 0 - filterVal s.filter rows r else filterVal s.filter rows r)

/-- everything `CtlSpec.holds` bumps, in order: the looking sides (positive), then the looked side
(negated) -/
def ctlEvents (c : CtlSpec) (traces : Array (Array (Array GL))) : List (List GL × GL) :=
  c.looking.flatMap (fun s => sideEvents traces s false) ++ sideEvents traces c.looked true

/-- **`holds` is "bump every event of `ctlEvents`, then test all-zero"** -/
theorem holds_eq (c : CtlSpec) (traces : Array (Array (Array GL))) :
    c.holds traces =
      ((ctlEvents c traces).foldl (fun m e => bumpTuple m e.1 e.2) []).all (fun p => p.2 == 0) := by
  unfold ctlEvents sideEvents
  simp only [List.foldl_append, List.foldl_flatMap, List.foldl_map]
  rfl

/-- **`holds`, sum form**: every tuple has total weight 0 (mod p) -/
theorem holds_iff (c : CtlSpec) (traces : Array (Array (Array GL))) :
    c.holds traces = true ↔
      ∀ t : List GL, wsum (((ctlEvents c traces).filter (·.1 == t)).map (·.2)) = 0 := by
  rw [holds_eq]
  simp only [← weight_eq_wsum]
  exact bumpAll_all_zero_iff (ctlEvents c traces)

theorem sideEvents_neg (traces : Array (Array (Array GL))) (s : CtlSide) :
    sideEvents traces s true = (sideEvents traces s false).map fun p => (p.1, 0 - p.2) := by
  unfold sideEvents
  rw [List.map_map]
  rfl

/-- **`holds`, multiset form**: for every tuple `t`, the total multiplicity (mod p) of `t` among
the filtered rows of all looking tables equals its total multiplicity among the filtered rows of
the looked table -/
theorem holds_iff_weights (c : CtlSpec) (traces : Array (Array (Array GL))) :
    c.holds traces = true ↔
      ∀ t : List GL,
        weight (c.looking.flatMap fun s => sideEvents traces s false) t =
          weight (sideEvents traces c.looked false) t := by
  rw [holds_iff]
  simp only [← weight_eq_wsum, ctlEvents, weight_append, sideEvents_neg, weight_map_neg,
    gl_add_neg_eq_zero]

/-- **`holds`, written out**: `Σ_(looking side s) Σ_(rows of table s) [tuple_s(row) = t]·filter_s(row)
= Σ_(rows of the looked table) [tuple(row) = t]·filter(row)` in `GL` (mod p) -/
theorem holds_iff_sums (c : CtlSpec) (traces : Array (Array (Array GL))) :
    c.holds traces = true ↔
      ∀ t : List GL,
        wsum (c.looking.map fun s =>
          wsum ((List.range (traces.getD s.table #[]).size).map fun r =>
            if (s.columns.map fun col => colVal col (traces.getD s.table #[]) r) == t
            then filterVal s.filter (traces.getD s.table #[]) r else 0))
        = wsum ((List.range (traces.getD c.looked.table #[]).size).map fun r =>
            if (c.looked.columns.map fun col => colVal col (traces.getD c.looked.table #[]) r) == t
            then filterVal c.looked.filter (traces.getD c.looked.table #[]) r else 0) := by
  rw [holds_iff_weights]
  simp only [sideEvents, weight_flatMap_eq_wsum, weight_map_eq_wsum, Bool.false_eq_true, if_false,
    iff_self]

/-! ### non-vacuity: concrete instances evaluated by `decide` -/

section Examples

/-- column 0 is looked up in column 1 with frequencies in column 2; the filter is column 3 -/
def exLookup : LookupSpec :=
  { columns := [⟨[(0, 1)], [], 0⟩], table := ⟨[(1, 1)], [], 0⟩, freq := ⟨[(2, 1)], [], 0⟩,
    filters := [⟨[], [⟨[(3, 1)], [], 0⟩]⟩] }
def exAir : Air :=
  { cols := 4, pis := 0, degree := 3, constraints := [], lookups := [exLookup],
    requiresCtls := false }

/-- 5 looked up twice, offered with frequency 2 (and 7 offered with frequency 0): holds -/
def exGood : Array (Array GL) := #[#[5, 5, 2, 1], #[5, 7, 0, 1]]
/-- same with frequency 1: fails -/
def exBad : Array (Array GL) := #[#[5, 5, 1, 1], #[5, 7, 0, 1]]
/-- the sums are mod p: 5 looked up twice with filter value −1 = p − 1, offered with frequency
p − 2 -/
def exModP : Array (Array GL) :=
  #[#[5, 5, 18446744069414584319, 18446744069414584320], #[5, 7, 0, 18446744069414584320]]

example : exAir.firstBadLookup exGood = none := by decide
example : exAir.firstBadLookup exBad = some 0 := by decide
example : exAir.firstBadLookup exModP = none := by decide
example : lookupEvents exLookup exGood = [(5, 1), (5, 0 - 2), (5, 1), (7, 0)] := by decide
example : lookingEvents exLookup exGood = [(5, 1), (5, 1)] := by decide
example : tableEvents exLookup exGood = [(5, 2), (7, 0)] := by decide
/-- the right-hand side of `firstBadLookup_none_iff_weights` is really decided by the data: at
`v = 5` the two sides are 2 = 2 on `exGood` and 2 ≠ 1 on `exBad` -/
example : weight (lookingEvents exLookup exGood) 5 = weight (tableEvents exLookup exGood) 5 := by
  decide
example : weight (lookingEvents exLookup exBad) 5 ≠ weight (tableEvents exLookup exBad) 5 := by
  decide
example : ¬ LookupHolds exLookup exBad := fun h => absurd (h 5) (by decide)
/-- the theorem applied: from the computed `none`, the multiset equation for every value -/
example (v : GL) : weight (lookingEvents exLookup exGood) v = weight (tableEvents exLookup exGood) v :=
  (firstBadLookup_none_iff_weights exAir exGood).1 (by decide) exLookup (List.mem_singleton.2 rfl) v

/-- tables 0 and 1 (columns: value, filter) look up their filtered values in table 2 -/
def exCtl : CtlSpec :=
  { looking := [⟨0, [⟨[(0, 1)], [], 0⟩], ⟨[], [⟨[(1, 1)], [], 0⟩]⟩⟩,
                ⟨1, [⟨[(0, 1)], [], 0⟩], ⟨[], [⟨[(1, 1)], [], 0⟩]⟩⟩],
    looked := ⟨2, [⟨[(0, 1)], [], 0⟩], ⟨[], [⟨[(1, 1)], [], 0⟩]⟩⟩ }
/-- {3, 4} ∪ {4} (the row with filter 0 is ignored) = {4 (twice), 3}, in another order -/
def exCtlGood : Array (Array (Array GL)) :=
  #[#[#[3, 1], #[4, 1]], #[#[4, 1], #[9, 0]], #[#[4, 2], #[3, 1]]]
def exCtlBad : Array (Array (Array GL)) :=
  #[#[#[3, 1], #[4, 1]], #[#[4, 1], #[9, 1]], #[#[4, 2], #[3, 1]]]

example : exCtl.holds exCtlGood = true := by decide
example : exCtl.holds exCtlBad = false := by decide
example : ctlEvents exCtl exCtlGood =
    [([3], 1), ([4], 1), ([4], 1), ([9], 0), ([4], 0 - 2), ([3], 0 - 1)] := by decide
example : weight (exCtl.looking.flatMap fun s => sideEvents exCtlBad s false) [9] ≠
    weight (sideEvents exCtlBad exCtl.looked false) [9] := by decide

end Examples

end P2.Props.C10
