/-
C10 (general theorems over an arbitrary field `K`): the logUp algebra behind
`eval_helper_columns` / `eval_packed_lookups_generic` (`starky/src/lookup.rs`).

 A. helper columns: the constraint emitted for a chunk of one or two columns holds iff the helper
    value is the sum of the `filter/(column + α)` fractions of the chunk (denominators non-zero);
 B. the running sum `Z`: the per-row constraint `(Z(next) − Z)·(t + α) − (Σ helpers·(t + α) − m) = 0`
    on a cyclic domain forces `Σ_rows (Σ helpers − m/(t + α)) = 0`; combined with A:
    `Σ_rows Σ_columns f/(x + α) = Σ_rows m/(t + α)`.
The classical logUp conclusion (equality of the two rational functions in `α` ⇒ multiset
relation) is not stated here.
-/
import P2.Lemmas.StarkAlg
import Mathlib.Algebra.Field.Rat
import Mathlib.Algebra.Order.Ring.Rat
namespace P2.Props.C10b
open P2 P2.Lemmas.StarkAlg

variable {K : Type} [Field K]

/-! ## A. helper columns -/

/-- the value `eval_helper_columns` hands to the consumer for a chunk of two columns
(`combin1 * combin0 * h - f0 * combin1 - f1 * combin0`) is zero iff … -/
theorem helper_pair_constraint_iff (c0 c1 h f0 f1 : K) :
    c1 * c0 * h - f0 * c1 - f1 * c0 = 0 ↔ h * (c0 * c1) = f0 * c1 + f1 * c0 := by
  constructor <;> intro e <;> linear_combination e

/-- … and for a chunk of one column (`combin * h - f0`) -/
theorem helper_single_constraint_iff (c h f : K) : c * h - f = 0 ↔ h * c = f := by
  constructor <;> intro e <;> linear_combination e

/-- soundness of a two-column helper: it is the sum of the two fractions -/
theorem helper_pair_sound (h f₁ f₂ x y α : K) :
    h * ((x + α) * (y + α)) = f₁ * (y + α) + f₂ * (x + α) → x + α ≠ 0 → y + α ≠ 0 →
    h = f₁ / (x + α) + f₂ / (y + α) :=
  fun e hx hy => (helper_pair h f₁ f₂ x y α hx hy).1 e

/-- completeness of a two-column helper -/
theorem helper_pair_complete (h f₁ f₂ x y α : K) (hx : x + α ≠ 0) (hy : y + α ≠ 0) :
    h = f₁ / (x + α) + f₂ / (y + α) →
    h * ((x + α) * (y + α)) = f₁ * (y + α) + f₂ * (x + α) :=
  (helper_pair h f₁ f₂ x y α hx hy).2

theorem helper_pair_iff (h f₁ f₂ x y α : K) (hx : x + α ≠ 0) (hy : y + α ≠ 0) :
    h * ((x + α) * (y + α)) = f₁ * (y + α) + f₂ * (x + α) ↔
      h = f₁ / (x + α) + f₂ / (y + α) :=
  helper_pair h f₁ f₂ x y α hx hy

/-- soundness of a one-column helper -/
theorem helper_single_sound (h f x α : K) : h * (x + α) = f → x + α ≠ 0 → h = f / (x + α) :=
  fun e hx => (helper_single h f x α hx).1 e

/-- completeness of a one-column helper -/
theorem helper_single_complete (h f x α : K) (hx : x + α ≠ 0) :
    h = f / (x + α) → h * (x + α) = f :=
  (helper_single h f x α hx).2

/-- why the non-vanishing hypothesis is needed: at `x + α = 0` with `f = 0` the constraint holds
for EVERY helper value -/
theorem helper_single_degenerate (h x α : K) (hx : x + α = 0) : h * (x + α) = 0 := by
  rw [hx, mul_zero]

/-- in the model, the combination of a one-element tuple with `β = 1` (the lookup case) is
`column + challenge` -/
theorem combine_single (γ : P2.GL) (c : GL2) :
    Stark.combine 1 γ [c] = c + GL2.ofBase γ := by
  show (⟨_, _⟩ : GL2) = ⟨_, _⟩
  congr 1
  · show (0 * (1 : P2.GL) + GL2.W * (0 * 0)) + c.a + γ = c.a + γ
    simp only [Fin.zero_mul, Fin.mul_zero, Fin.add_zero, Fin.zero_add]
  · show (0 * (0 : P2.GL) + 0 * 1) + c.b + 0 = c.b + 0
    simp only [Fin.zero_mul, Fin.add_zero, Fin.zero_add]

example : (3 : ℚ) = 4 / (1 + 1) + 3 / (2 + 1) :=
  helper_pair_sound 3 4 3 1 2 1 (by norm_num) (by norm_num) (by norm_num)
example : (2 : ℚ) = 4 / (1 + 1) :=
  helper_single_sound 2 4 1 1 (by norm_num) (by norm_num)
example : (3 : ℚ) * ((1 + 1) * (2 + 1)) = 4 * (2 + 1) + 3 * (1 + 1) :=
  helper_pair_complete 3 4 3 1 2 1 (by norm_num) (by norm_num) (by norm_num)

/-! ## B. the running sum -/

/-- the value `eval_packed_lookups_generic` hands to the consumer for the running sum
(`(next_z - z) * twc - y` with `y = Σhelpers * twc - freq`) is zero iff … -/
theorem running_constraint_iff (nz z twc hs fr : K) :
    (nz - z) * twc - (hs * twc - fr) = 0 ↔ (nz - z) * twc = hs * twc - fr :=
  sub_eq_zero

/-- cyclic telescoping on rows `0 … n−1` with next row `(r + 1) % n` (the domain of the STARK is
a cyclic group: the "next" of the last row is the first) -/
theorem running_sum_telescopes (n : Nat) (Z d : Nat → K)
    (h : ∀ r, r < n → Z ((r + 1) % n) - Z r = d r) :
    ∑ r ∈ Finset.range n, d r = 0 :=
  cyclic_telescope n Z d h

/-- the same on `Fin n`, `i + 1` being the cyclic successor -/
theorem running_sum_telescopes_fin (n : Nat) [NeZero n] (Z d : Fin n → K)
    (h : ∀ i, Z (i + 1) - Z i = d i) : ∑ i, d i = 0 :=
  cyclic_telescope_fin n Z d h

/-- completeness: if the increments sum to zero, their prefix sums (starting at `Z(first) = 0`,
which is the `constraint_first_row(z)` of the code) satisfy the cyclic recurrence -/
theorem running_sum_complete (n : Nat) (d : Nat → K) (hd : ∑ r ∈ Finset.range n, d r = 0)
    (r : Nat) (hr : r < n) :
    (∑ i ∈ Finset.range ((r + 1) % n), d i) - ∑ i ∈ Finset.range r, d i = d r := by
  by_cases hlast : r + 1 = n
  · rw [hlast, Nat.mod_self, Finset.sum_range_zero]
    rw [← hlast, Finset.sum_range_succ] at hd
    linear_combination (-1 : K) * hd
  · rw [Nat.mod_eq_of_lt (by omega), Finset.sum_range_succ]
    ring

/-- the running-sum constraint on every row, with non-vanishing table denominators: the helper
sums and the table fractions balance over the whole domain -/
theorem logup_running_sum (n : Nat) (Z hs t m : Nat → K) (α : K)
    (ht : ∀ r, r < n → t r + α ≠ 0)
    (h : ∀ r, r < n → (Z ((r + 1) % n) - Z r) * (t r + α) = hs r * (t r + α) - m r) :
    ∑ r ∈ Finset.range n, (hs r - m r / (t r + α)) = 0 :=
  running_sum n Z hs t m α ht h

/-- with the helper sum spelled out as a sum over helper columns `j ∈ J` -/
theorem logup_running_sum_helpers {ι : Type} (J : Finset ι) (n : Nat) (Z t m : Nat → K)
    (h : ι → Nat → K) (α : K)
    (ht : ∀ r, r < n → t r + α ≠ 0)
    (hrun : ∀ r, r < n →
      (Z ((r + 1) % n) - Z r) * (t r + α) = (∑ j ∈ J, h j r) * (t r + α) - m r) :
    ∑ r ∈ Finset.range n, (∑ j ∈ J, h j r - m r / (t r + α)) = 0 :=
  running_sum n Z (fun r => ∑ j ∈ J, h j r) t m α ht hrun

/-- logUp, helper columns covering ONE column each: helper constraints + running-sum constraint
on every row, all denominators non-zero ⇒ the looking fractions and the table fractions have the
same total over the domain -/
theorem logup_single {ι : Type} (J : Finset ι) (n : Nat) (Z t m : Nat → K)
    (h x f : ι → Nat → K) (α : K)
    (hx : ∀ r, r < n → ∀ j ∈ J, x j r + α ≠ 0)
    (ht : ∀ r, r < n → t r + α ≠ 0)
    (hhelp : ∀ r, r < n → ∀ j ∈ J, h j r * (x j r + α) = f j r)
    (hrun : ∀ r, r < n →
      (Z ((r + 1) % n) - Z r) * (t r + α) = (∑ j ∈ J, h j r) * (t r + α) - m r) :
    ∑ r ∈ Finset.range n, ∑ j ∈ J, f j r / (x j r + α)
      = ∑ r ∈ Finset.range n, m r / (t r + α) := by
  have h0 := logup_running_sum_helpers J n Z t m h α ht hrun
  rw [Finset.sum_sub_distrib, sub_eq_zero] at h0
  rw [← h0]
  apply Finset.sum_congr rfl
  intro r hr
  apply Finset.sum_congr rfl
  intro j hj
  have hr' := Finset.mem_range.1 hr
  exact (helper_single_sound _ _ _ _ (hhelp r hr' j hj) (hx r hr' j hj)).symm

/-- logUp, general chunking (constraint degree 3: chunks of two columns, possibly a last chunk of
one): helper columns `j ∈ P` cover the two columns `x0 j, x1 j`, helper columns `j ∈ S` cover the
single column `xs j` -/
theorem logup_mixed {ι κ : Type} (P : Finset ι) (S : Finset κ) (n : Nat) (Z t m : Nat → K)
    (hp x0 x1 f0 f1 : ι → Nat → K) (hs xs fs : κ → Nat → K) (α : K)
    (hx0 : ∀ r, r < n → ∀ j ∈ P, x0 j r + α ≠ 0)
    (hx1 : ∀ r, r < n → ∀ j ∈ P, x1 j r + α ≠ 0)
    (hxs : ∀ r, r < n → ∀ j ∈ S, xs j r + α ≠ 0)
    (ht : ∀ r, r < n → t r + α ≠ 0)
    (hpair : ∀ r, r < n → ∀ j ∈ P,
      hp j r * ((x0 j r + α) * (x1 j r + α)) = f0 j r * (x1 j r + α) + f1 j r * (x0 j r + α))
    (hsingle : ∀ r, r < n → ∀ j ∈ S, hs j r * (xs j r + α) = fs j r)
    (hrun : ∀ r, r < n →
      (Z ((r + 1) % n) - Z r) * (t r + α)
        = (∑ j ∈ P, hp j r + ∑ j ∈ S, hs j r) * (t r + α) - m r) :
    ∑ r ∈ Finset.range n,
        (∑ j ∈ P, (f0 j r / (x0 j r + α) + f1 j r / (x1 j r + α)) + ∑ j ∈ S, fs j r / (xs j r + α))
      = ∑ r ∈ Finset.range n, m r / (t r + α) := by
  have h0 := logup_running_sum n Z (fun r => ∑ j ∈ P, hp j r + ∑ j ∈ S, hs j r) t m α ht hrun
  rw [Finset.sum_sub_distrib, sub_eq_zero] at h0
  rw [← h0]
  apply Finset.sum_congr rfl
  intro r hr
  have hr' := Finset.mem_range.1 hr
  congr 1
  · apply Finset.sum_congr rfl
    intro j hj
    exact (helper_pair_sound _ _ _ _ _ _ (hpair r hr' j hj) (hx0 r hr' j hj) (hx1 r hr' j hj)).symm
  · apply Finset.sum_congr rfl
    intro j hj
    exact (helper_single_sound _ _ _ _ (hsingle r hr' j hj) (hxs r hr' j hj)).symm

/-- two rows, increments `5, −5`: `Z = (0, 5)` closes cyclically -/
example : ∑ r ∈ Finset.range 2, (fun r => if r = 0 then (5 : ℚ) else -5) r = 0 :=
  running_sum_telescopes 2 (fun r => if r = 0 then 0 else 5) _ (by
    intro r hr
    interval_cases r <;> norm_num)
/-- two rows, one looking column `x = (1, 2)` with filter 1, table `t = (2, 1)` with multiplicity 1,
`α = 1`: helpers `(1/2, 1/3)`, `Z = (0, 1/6)` -/
example : ∑ r ∈ Finset.range 2, ∑ j ∈ ({()} : Finset Unit),
      (fun _ _ => (1 : ℚ)) j r / ((fun _ r => if r = 0 then (1 : ℚ) else 2) j r + 1)
    = ∑ r ∈ Finset.range 2,
      (fun _ => (1 : ℚ)) r / ((fun r => if r = 0 then (2 : ℚ) else 1) r + 1) :=
  logup_single {()} 2 (fun r => if r = 0 then 0 else 1 / 6) _ _
    (fun _ r => if r = 0 then 1 / 2 else 1 / 3) _ _ 1
    (by intro r hr j _; interval_cases r <;> norm_num)
    (by intro r hr; interval_cases r <;> norm_num)
    (by intro r hr j _; interval_cases r <;> norm_num)
    (by intro r hr; interval_cases r <;> norm_num)

example : ∑ i : Fin 2, (![5, -5] : Fin 2 → ℚ) i = 0 :=
  running_sum_telescopes_fin 2 ![0, 5] ![5, -5] (by
    rw [Fin.forall_fin_two, show (1 + 1 : Fin 2) = 0 from rfl]; norm_num)
example : (∑ i ∈ Finset.range ((1 + 1) % 2), (fun r => if r = 0 then (5 : ℚ) else -5) i)
    - ∑ i ∈ Finset.range 1, (fun r => if r = 0 then (5 : ℚ) else -5) i
    = (fun r => if r = 0 then (5 : ℚ) else -5) 1 :=
  running_sum_complete 2 _ (by norm_num [Finset.sum_range_succ]) 1 (by norm_num)
/-- one row, one pair helper (`4/(1+1) + 3/(2+1) = 3`), one single helper (`2/(1+1) = 1`), table
value 1 with multiplicity 8, `α = 1` -/
example : (4 : ℚ) / (1 + 1) + 3 / (2 + 1) + 2 / (1 + 1) = 8 / (1 + 1) := by
  simpa using logup_mixed ({()} : Finset Unit) ({()} : Finset Unit) 1 (fun _ => 0) (fun _ => 1)
    (fun _ => 8) (fun _ _ => 3) (fun _ _ => 1) (fun _ _ => 2) (fun _ _ => 4) (fun _ _ => 3)
    (fun _ _ => 1) (fun _ _ => 1) (fun _ _ => 2) (1 : ℚ)
    (by intro r _ j _; norm_num) (by intro r _ j _; norm_num) (by intro r _ j _; norm_num)
    (by intro r _; norm_num) (by intro r _ j _; norm_num) (by intro r _ j _; norm_num)
    (by intro r _; norm_num)

end P2.Props.C10b
