/-
C02c: the glue between the vanishing-polynomial algebra (C02b, C01b, C07b, C08b) and the MODEL
function `Plonk.evalVanishingPoly` / `Plonk.identityHolds` / `Plonk.verify` itself.

 (a) `vanishingTerms`: the list of constraint terms `eval_vanishing_poly` α-combines, in the model's
     order; `evalVanishingPoly = alphas.map (reduceExt vanishingTerms ∘ ofBase)`; its length.
 (b) every constraint family is a sublist of it: `L_0(x)(Z_i(x) − 1)`, the partial-product checks,
     the lookup checks (when the circuit has lookups) and the gate constraints — none can be
     dropped without changing `vanishingTerms`.
 (c) `evaluateGateConstraints` at index `j` is the filtered sum over the gates, in fold order; with
     selector semantics (all filters but one are zero) it is the one selected gate's constraint.
 (d) acceptance exposes the quotient identity per challenge, free of `all`/`zipIdx`/`getD` plumbing.
 (e) the α-combination of the model is `PlonkAlg.reduceWithPowers` at `K = GL2`, the function the
     Schwartz–Zippel statements of C02b are about.
 (f) STARK model: `Stark.evalVanishingPoly` without lookups/CTLs is `alphas.map` of the Horner
     combination of the weighted constraint list; with lookups/CTLs the table constraints enter first.
-/
import P2.Lemmas.Vanishing
import P2.Props.C03
import P2.Props.C02b
import P2.Lemmas.StarkAlg
namespace P2.Props.C02c
open P2 P2.Plonk P2.Gates P2.Merkle P2.Lemmas.Vanishing
open P2.Fri (Verdict)

/-! ## (a) the term list -/

/-- `L_0(x)·(Z_i(x) − 1)` -/
def zTerm (c : CommonData) (x : GL2) (o : OpeningSet) (i : Nat) : GL2 :=
  evalL0 (2 ^ c.degreeBits) x * (o.plonkZs.getD i FOps.zero - FOps.one)

/-- numerators `w_j + β_i·k_j·x + γ_i` of the permutation argument for challenge `i` -/
def ppNums (c : CommonData) (x : GL2) (o : OpeningSet) (ch : Challenges) (i : Nat) : List GL2 :=
  (List.range c.config.numRoutedWires).map fun j =>
    o.wires.getD j FOps.zero + GL2.scalarMul (GL2.scalarMul x (c.kIs.getD j 0)) (ch.betas.getD i 0) +
      GL2.ofBase (ch.gammas.getD i 0)

/-- denominators `w_j + β_i·σ_j(x) + γ_i` -/
def ppDens (c : CommonData) (o : OpeningSet) (ch : Challenges) (i : Nat) : List GL2 :=
  (List.range c.config.numRoutedWires).map fun j =>
    o.wires.getD j FOps.zero + GL2.scalarMul (o.plonkSigmas.getD j FOps.zero) (ch.betas.getD i 0) +
      GL2.ofBase (ch.gammas.getD i 0)

/-- the partial-product openings of challenge `i` -/
def ppPartials (c : CommonData) (o : OpeningSet) (i : Nat) : List GL2 :=
  (o.partialProducts.drop (i * c.numPartialProducts)).take c.numPartialProducts

/-- the partial-product checks of challenge `i` -/
def ppTerms (c : CommonData) (x : GL2) (o : OpeningSet) (ch : Challenges) (i : Nat) : List GL2 :=
  checkPartialProducts (ppNums c x o ch i) (ppDens c o ch i) (ppPartials c o i)
    (o.plonkZs.getD i FOps.zero) (o.plonkZsNext.getD i FOps.zero) c.quotientDegreeFactor

/-- the lookup checks of challenge `i` (as called by `eval_vanishing_poly` when the circuit has
lookups) -/
def lookupTermsAt (c : CommonData) (o : OpeningSet) (ch : Challenges) (i : Nat) : List GL2 :=
  checkLookupConstraints c o.wires
    ((o.lookupZs.drop (c.numLookupPolys * i)).take c.numLookupPolys)
    ((o.lookupZsNext.drop (c.numLookupPolys * i)).take c.numLookupPolys)
    ((o.constants.drop c.numSelectors).take c.numLookupSelectors)
    ((ch.deltas.drop (NUM_COINS_LOOKUP * i)).take NUM_COINS_LOOKUP)

def lookupTerms (c : CommonData) (o : OpeningSet) (ch : Challenges) (i : Nat) : List GL2 :=
  if c.numLookupPolys ≠ 0 then lookupTermsAt c o ch i else []

/-- the `terms` list of `eval_vanishing_poly`: all `L_0(Z_i − 1)`, then all partial-product checks,
then all lookup checks, then the gate constraints -/
def vanishingTerms (c : CommonData) (x : GL2) (o : OpeningSet) (pih : Digest) (ch : Challenges) :
    List GL2 :=
  (List.range c.config.numChallenges).map (zTerm c x o) ++
  (List.range c.config.numChallenges).flatMap (ppTerms c x o ch) ++
  (List.range c.config.numChallenges).flatMap (lookupTerms c o ch) ++
  evaluateGateConstraints c o.constants o.wires pih

/-- **Structure of the vanishing combination**: one Horner combination of the SAME term list per
`α`. -/
theorem evalVanishingPoly_eq (c : CommonData) (x : GL2) (o : OpeningSet) (pih : Digest)
    (ch : Challenges) :
    evalVanishingPoly c x o pih ch =
      ch.alphas.map fun a => Fri.reduceExt (vanishingTerms c x o pih ch) (GL2.ofBase a) := by
  simp only [evalVanishingPoly, vanishingTerms, List.map_map, List.flatMap_map]
  rfl

theorem evalVanishingPoly_length (c : CommonData) (x : GL2) (o : OpeningSet) (pih : Digest)
    (ch : Challenges) : (evalVanishingPoly c x o pih ch).length = ch.alphas.length := by
  rw [evalVanishingPoly_eq, List.length_map]

theorem evalVanishingPoly_getElem? (c : CommonData) (x : GL2) (o : OpeningSet) (pih : Digest)
    (ch : Challenges) (i : Nat) :
    (evalVanishingPoly c x o pih ch)[i]? =
      ch.alphas[i]?.map fun a => Fri.reduceExt (vanishingTerms c x o pih ch) (GL2.ofBase a) := by
  rw [evalVanishingPoly_eq, List.getElem?_map]

/-- number of partial-product checks per challenge: `⌈num_routed_wires / quotient_degree_factor⌉` -/
def numPPChecks (c : CommonData) : Nat :=
  if c.quotientDegreeFactor = 0 then 0
  else (c.config.numRoutedWires + c.quotientDegreeFactor - 1) / c.quotientDegreeFactor

/-- number of lookup checks per challenge: `Z_RE`-initial/final and `SLDC`-initial (3), one per LUT
(`num_lookup_selectors − 4`), the `RE` recurrence (1), two per `SLDC` polynomial -/
def numLookupChecks (c : CommonData) : Nat :=
  if c.numLookupPolys ≠ 0 then 4 + (c.numLookupSelectors - 4) + 2 * (c.numLookupPolys - 1) else 0

theorem ppTerms_length (c : CommonData) (x : GL2) (o : OpeningSet) (ch : Challenges) (i : Nat) :
    (ppTerms c x o ch i).length = numPPChecks c := by
  unfold ppTerms numPPChecks
  rw [checkPartialProducts_length]
  simp [ppNums]

theorem lookupTerms_length (c : CommonData) (o : OpeningSet) (ch : Challenges) (i : Nat)
    (hi : i < c.config.numChallenges) (hl : o.lookupZs.length = c.numAllLookupPolys) :
    (lookupTerms c o ch i).length = numLookupChecks c := by
  unfold lookupTerms numLookupChecks
  by_cases h0 : c.numLookupPolys = 0
  · simp [h0]
  · simp only [ne_eq, h0, not_false_eq_true, if_true, lookupTermsAt, checkLookupConstraints_length,
      List.length_take, List.length_drop, hl, CommonData.numAllLookupPolys]
    have : c.numLookupPolys * (i + 1) ≤ c.config.numChallenges * c.numLookupPolys := by
      rw [Nat.mul_comm]; exact Nat.mul_le_mul_right _ hi
    rw [Nat.mul_succ] at this
    have : min c.numLookupPolys (c.config.numChallenges * c.numLookupPolys - c.numLookupPolys * i)
        = c.numLookupPolys := by omega
    rw [this]

/-- **Length of the term list** under the one shape fact it depends on (the lookup openings have
the validated length): `num_challenges·(1 + #pp-checks + #lookup-checks) + num_gate_constraints`. -/
theorem vanishingTerms_length (c : CommonData) (x : GL2) (o : OpeningSet) (pih : Digest)
    (ch : Challenges) (hl : o.lookupZs.length = c.numAllLookupPolys) :
    (vanishingTerms c x o pih ch).length =
      c.config.numChallenges + c.config.numChallenges * numPPChecks c +
        c.config.numChallenges * numLookupChecks c + c.numGateConstraints := by
  unfold vanishingTerms
  simp only [List.length_append, List.length_map, List.length_range, evaluateGateConstraints_length]
  rw [length_flatMap_const _ _ (numPPChecks c) (fun i _ => ppTerms_length c x o ch i),
    length_flatMap_const _ _ (numLookupChecks c)
      (fun i hi => lookupTerms_length c o ch i (List.mem_range.1 hi) hl),
    List.length_range]

/-- … in plonky2's own parameters: `num_partial_products = ⌈routed/qdf⌉ − 1` (as
`CircuitBuilder::build` sets it) gives `num_partial_products + 1` checks per challenge. -/
theorem vanishingTerms_length_plonky2 (c : CommonData) (x : GL2) (o : OpeningSet) (pih : Digest)
    (ch : Challenges) (hl : o.lookupZs.length = c.numAllLookupPolys)
    (hq : 0 < c.quotientDegreeFactor)
    (hpp : c.numPartialProducts + 1 =
      (c.config.numRoutedWires + c.quotientDegreeFactor - 1) / c.quotientDegreeFactor) :
    (vanishingTerms c x o pih ch).length =
      c.config.numChallenges * (1 + (c.numPartialProducts + 1) + numLookupChecks c) +
        c.numGateConstraints := by
  rw [vanishingTerms_length c x o pih ch hl]
  have : numPPChecks c = c.numPartialProducts + 1 := by
    unfold numPPChecks
    have : c.quotientDegreeFactor ≠ 0 := by omega
    simp only [this, if_false, hpp]
  rw [this]
  simp only [Nat.mul_add, Nat.mul_one]

/-! ## (b) every constraint family enters -/

/-- `L_0(x)·(Z_i(x) − 1)` is the `i`-th term, for every challenge index -/
theorem zTerm_getElem? (c : CommonData) (x : GL2) (o : OpeningSet) (pih : Digest) (ch : Challenges)
    (i : Nat) (hi : i < c.config.numChallenges) :
    (vanishingTerms c x o pih ch)[i]? =
      some (evalL0 (2 ^ c.degreeBits) x * (o.plonkZs.getD i FOps.zero - FOps.one)) := by
  unfold vanishingTerms
  rw [List.append_assoc, List.append_assoc, List.getElem?_append_left (by simpa using hi)]
  simp [hi, zTerm]

theorem zTerm_mem (c : CommonData) (x : GL2) (o : OpeningSet) (pih : Digest) (ch : Challenges)
    (i : Nat) (hi : i < c.config.numChallenges) :
    evalL0 (2 ^ c.degreeBits) x * (o.plonkZs.getD i FOps.zero - FOps.one) ∈
      vanishingTerms c x o pih ch :=
  List.mem_of_getElem? (zTerm_getElem? c x o pih ch i hi)

/-- every partial-product check of every challenge index is a term -/
theorem ppTerm_mem (c : CommonData) (x : GL2) (o : OpeningSet) (pih : Digest) (ch : Challenges)
    (i : Nat) (hi : i < c.config.numChallenges) (t : GL2)
    (ht : t ∈ checkPartialProducts (ppNums c x o ch i) (ppDens c o ch i) (ppPartials c o i)
      (o.plonkZs.getD i FOps.zero) (o.plonkZsNext.getD i FOps.zero) c.quotientDegreeFactor) :
    t ∈ vanishingTerms c x o pih ch := by
  unfold vanishingTerms
  simp only [List.mem_append, List.mem_flatMap, List.mem_range]
  exact Or.inl (Or.inl (Or.inr ⟨i, hi, ht⟩))

/-- when the circuit has lookups, every lookup check of every challenge index is a term -/
theorem lookupTerm_mem (c : CommonData) (x : GL2) (o : OpeningSet) (pih : Digest) (ch : Challenges)
    (hlk : c.numLookupPolys ≠ 0) (i : Nat) (hi : i < c.config.numChallenges) (t : GL2)
    (ht : t ∈ checkLookupConstraints c o.wires
      ((o.lookupZs.drop (c.numLookupPolys * i)).take c.numLookupPolys)
      ((o.lookupZsNext.drop (c.numLookupPolys * i)).take c.numLookupPolys)
      ((o.constants.drop c.numSelectors).take c.numLookupSelectors)
      ((ch.deltas.drop (NUM_COINS_LOOKUP * i)).take NUM_COINS_LOOKUP)) :
    t ∈ vanishingTerms c x o pih ch := by
  unfold vanishingTerms
  simp only [List.mem_append, List.mem_flatMap, List.mem_range]
  refine Or.inl (Or.inr ⟨i, hi, ?_⟩)
  simp only [lookupTerms, ne_eq, hlk, not_false_eq_true, if_true]
  exact ht

/-- every gate constraint is a term; they are the LAST `num_gate_constraints` terms -/
theorem gateTerm_mem (c : CommonData) (x : GL2) (o : OpeningSet) (pih : Digest) (ch : Challenges)
    (t : GL2) (ht : t ∈ evaluateGateConstraints c o.constants o.wires pih) :
    t ∈ vanishingTerms c x o pih ch := by
  unfold vanishingTerms
  exact List.mem_append_right _ ht

theorem gateTerms_suffix (c : CommonData) (x : GL2) (o : OpeningSet) (pih : Digest) (ch : Challenges) :
    (vanishingTerms c x o pih ch).drop
        ((vanishingTerms c x o pih ch).length - c.numGateConstraints) =
      evaluateGateConstraints c o.constants o.wires pih := by
  unfold vanishingTerms
  rw [List.length_append, evaluateGateConstraints_length, Nat.add_sub_cancel,
    List.drop_left]

/-- conversely nothing else is a term -/
theorem mem_vanishingTerms_iff (c : CommonData) (x : GL2) (o : OpeningSet) (pih : Digest)
    (ch : Challenges) (t : GL2) :
    t ∈ vanishingTerms c x o pih ch ↔
      (∃ i, i < c.config.numChallenges ∧ t = zTerm c x o i) ∨
      (∃ i, i < c.config.numChallenges ∧ t ∈ ppTerms c x o ch i) ∨
      (c.numLookupPolys ≠ 0 ∧ ∃ i, i < c.config.numChallenges ∧ t ∈ lookupTermsAt c o ch i) ∨
      t ∈ evaluateGateConstraints c o.constants o.wires pih := by
  unfold vanishingTerms
  simp only [List.mem_append, List.mem_flatMap, List.mem_map, List.mem_range, lookupTerms]
  by_cases hlk : c.numLookupPolys = 0
  · simp only [hlk, ne_eq, not_true_eq_false, if_false, List.not_mem_nil, and_false, exists_false,
      false_and, or_false, false_or]
    constructor
    · rintro ((⟨i, hi, rfl⟩ | h) | h)
      · exact Or.inl ⟨i, hi, rfl⟩
      · exact Or.inr (Or.inl h)
      · exact Or.inr (Or.inr h)
    · rintro (⟨i, hi, rfl⟩ | h | h)
      · exact Or.inl (Or.inl ⟨i, hi, rfl⟩)
      · exact Or.inl (Or.inr h)
      · exact Or.inr h
  · simp only [ne_eq, hlk, not_false_eq_true, if_true, true_and]
    constructor
    · rintro (((⟨i, hi, rfl⟩ | h) | h) | h)
      · exact Or.inl ⟨i, hi, rfl⟩
      · exact Or.inr (Or.inl h)
      · exact Or.inr (Or.inr (Or.inl h))
      · exact Or.inr (Or.inr (Or.inr h))
    · rintro (⟨i, hi, rfl⟩ | h | h | h)
      · exact Or.inl (Or.inl (Or.inl ⟨i, hi, rfl⟩))
      · exact Or.inl (Or.inl (Or.inr h))
      · exact Or.inl (Or.inr h)
      · exact Or.inr h

/-! ## (c) gate-constraint accumulation -/

/-- the evaluation variables every gate sees: the constants after the selector and lookup-selector
columns, all wires, the public-inputs hash embedded in `GL2` -/
def gateVars (c : CommonData) (constants wires : List GL2) (pih : Digest) : EvalVars GL2 :=
  Lemmas.Vanishing.gateVars c constants wires pih

/-- the filter of the gate at index `i`: `compute_filter(i, group of its selector, selector value,
num_selectors > 1)` -/
def gateFilter (c : CommonData) (constants : List GL2) (i : Nat) : GL2 :=
  computeFilter i (c.groups.getD (c.selectorIndices.getD i 0) (0, 0))
    (constants.getD (c.selectorIndices.getD i 0) FOps.zero) (c.numSelectors > 1)

/-- gate `g` with filter `filter` contributes `filter·(g's j-th constraint)` to the running sum `s`
if it has a `j`-th constraint, nothing otherwise -/
def addFiltered (filter : GL2) (cs : List GL2) (j : Nat) (s : GL2) : GL2 :=
  match cs[j]? with
  | some cv => s + filter * cv
  | none => s

theorem evaluateGateConstraints_length (c : CommonData) (constants wires : List GL2) (pih : Digest) :
    (evaluateGateConstraints c constants wires pih).length = c.numGateConstraints :=
  Lemmas.Vanishing.evaluateGateConstraints_length c constants wires pih

/-- **Gate constraint accumulation**: for `j < num_gate_constraints`, the `j`-th gate term is
`Σ_i filter_i · (gate_i.eval_unfiltered vars)[j]` over the gates having a `j`-th constraint, summed
from `0` in gate order (no field law is used: this is the model's own association order). -/
theorem evaluateGateConstraints_getElem? (c : CommonData) (constants wires : List GL2) (pih : Digest)
    (j : Nat) (hj : j < c.numGateConstraints) :
    (evaluateGateConstraints c constants wires pih)[j]? =
      some ((c.gates.zipIdx).foldl (fun s (gi : GateKind × Nat) =>
        addFiltered (gateFilter c constants gi.2)
          (gi.1.evalUnfiltered (gateVars c constants wires pih)) j s) FOps.zero) :=
  Lemmas.Vanishing.evaluateGateConstraints_getElem? c constants wires pih j hj

/-- constraints of a gate beyond `num_gate_constraints` are DROPPED by `evaluate_gate_constraints`
(the Rust code asserts `num_gate_constraints ≥ gate.num_constraints()` when building the circuit;
the verifier itself does not): no term exists at such an index -/
theorem evaluateGateConstraints_getElem?_none (c : CommonData) (constants wires : List GL2)
    (pih : Digest) (j : Nat) (hj : c.numGateConstraints ≤ j) :
    (evaluateGateConstraints c constants wires pih)[j]? = none := by
  rw [List.getElem?_eq_none_iff, evaluateGateConstraints_length]
  exact hj

/-- **Selector semantics.** If the filter of every gate other than the one at index `i0` is zero
(what `C02.filters_disjoint`/`filter_unused_eq_zero` give on a row selected for `i0`), the `j`-th
gate term is `filter_{i0} · (gate_{i0}'s j-th constraint)` — zero if it has none. (Uses only
`s + 0·x = s` and `0 + x = x` in `GL2`.) -/
theorem evaluateGateConstraints_single (c : CommonData) (constants wires : List GL2) (pih : Digest)
    (j : Nat) (hj : j < c.numGateConstraints) (i0 : Nat) (g : GateKind)
    (hg : c.gates[i0]? = some g)
    (h0 : ∀ i, i < c.gates.length → i ≠ i0 → gateFilter c constants i = FOps.zero) :
    (evaluateGateConstraints c constants wires pih)[j]? =
      some (match (g.evalUnfiltered (gateVars c constants wires pih))[j]? with
        | some cv => gateFilter c constants i0 * cv
        | none => FOps.zero) := by
  rw [evaluateGateConstraints_getElem? c constants wires pih j hj]
  exact congrArg some
    (foldl_addAt_single (gateFilter c constants) (gateVars c constants wires pih) j c.gates i0 g hg h0)

/-! ## (d) acceptance exposes the quotient identity per challenge -/

/-- the openings of the `i`-th challenge's quotient chunks `t_{i,0}, …, t_{i,qdf−1}` at `ζ` -/
def quotientChunk (c : CommonData) (o : OpeningSet) (i : Nat) : List GL2 :=
  (o.quotientPolys.drop (i * c.quotientDegreeFactor)).take c.quotientDegreeFactor

theorem getChallenges_alphas_length (c : CommonData) (pih circuitDigest : Digest) (p : Proof) :
    (getChallenges c pih circuitDigest p).alphas.length = c.config.numChallenges :=
  Lemmas.Vanishing.getChallenges_alphas_length c pih circuitDigest p

/-- **The verifier's algebraic check, without list plumbing.** With the validated number of
quotient openings and one `α` per challenge, `identityHolds` is exactly: for every challenge index
`i`, `Σ_k terms[k]·α_i^k = Z_H(ζ) · Σ_k t_{i,k}(ζ)·(ζ^n)^k` with `n = 2^degree_bits`,
`Z_H(ζ) = ζ^n − 1`, `terms = vanishingTerms`. -/
theorem identityHolds_iff_forall (c : CommonData) (p : Proof) (pih : Digest) (ch : Challenges)
    (hq : 0 < c.quotientDegreeFactor)
    (hlen : p.openings.quotientPolys.length = c.numQuotientPolys)
    (ha : ch.alphas.length = c.config.numChallenges) :
    identityHolds c p pih ch = true ↔
      ∀ i, i < c.config.numChallenges →
        Fri.reduceExt (vanishingTerms c ch.zeta p.openings pih ch) (GL2.ofBase (ch.alphas.getD i 0)) =
          (FOps.pow ch.zeta (2 ^ c.degreeBits) - FOps.one) *
            Fri.reduceExt (quotientChunk c p.openings i) (FOps.pow ch.zeta (2 ^ c.degreeBits)) := by
  have hcl : (Plonk.chunksOf c.quotientDegreeFactor p.openings.quotientPolys).length =
      c.config.numChallenges := chunksOf_length_exact _ _ _ hq hlen
  rw [identityHolds_iff]
  constructor
  · intro H i hi
    obtain ⟨v, hv, he⟩ := H i (hcl ▸ hi)
    rw [evalVanishingPoly_getElem?, List.getElem?_eq_getElem (ha ▸ hi)] at hv
    simp only [Option.map_some, Option.some.injEq] at hv
    rw [chunksOf_getElem] at he
    rw [List.getD_eq_getElem?_getD, List.getElem?_eq_getElem (ha ▸ hi), Option.getD_some, hv, he]
    rfl
  · intro H i hi
    have hi' : i < c.config.numChallenges := hcl ▸ hi
    refine ⟨Fri.reduceExt (vanishingTerms c ch.zeta p.openings pih ch)
      (GL2.ofBase (ch.alphas[i]'(ha ▸ hi'))), ?_, ?_⟩
    · rw [evalVanishingPoly_getElem?, List.getElem?_eq_getElem (ha ▸ hi')]
      rfl
    · have := H i hi'
      rw [List.getD_eq_getElem?_getD, List.getElem?_eq_getElem (ha ▸ hi'), Option.getD_some] at this
      rw [chunksOf_getElem]
      exact this

/-- an accepted identity check needs one `α` per challenge: too few `α`s make it fail -/
theorem identityHolds_alphas_length_ge (c : CommonData) (p : Proof) (pih : Digest) (ch : Challenges)
    (hq : 0 < c.quotientDegreeFactor)
    (hlen : p.openings.quotientPolys.length = c.numQuotientPolys)
    (h : identityHolds c p pih ch = true) : c.config.numChallenges ≤ ch.alphas.length := by
  have hcl : (Plonk.chunksOf c.quotientDegreeFactor p.openings.quotientPolys).length =
      c.config.numChallenges := chunksOf_length_exact _ _ _ hq hlen
  rw [identityHolds_iff] at h
  cases hn : c.config.numChallenges with
  | zero => exact Nat.zero_le _
  | succ n =>
    obtain ⟨v, hv, _⟩ := h n (by omega)
    have := (List.getElem?_eq_some_iff.1 hv).1
    rw [evalVanishingPoly_length] at this
    omega

/-- Why `0 < quotient_degree_factor` is a hypothesis: with `quotient_degree_factor = 0` the model
has no quotient chunk to compare with and the identity check is vacuous. (The Rust code calls
`chunks(0)`, which panics; plonky2 builds circuits with `quotient_degree_factor ≥ 1` only —
an admissibility condition on the common data, not on the proof.) -/
theorem identityHolds_of_qdf_zero (c : CommonData) (p : Proof) (pih : Digest) (ch : Challenges)
    (hq : c.quotientDegreeFactor = 0) : identityHolds c p pih ch = true := by
  rw [identityHolds_iff]
  intro i hi
  simp [Plonk.chunksOf, PlonkAlg.chunksOf, hq] at hi

/-- **Acceptance exposes the identity per challenge** (`verify_with_challenges`, any challenges). -/
theorem verifyWithChallenges_accept_identity (c : CommonData) (vd : VerifierOnly) (p : Proof)
    (pih : Digest) (ch : Challenges) (hq : 0 < c.quotientDegreeFactor)
    (hlen : p.openings.quotientPolys.length = c.numQuotientPolys)
    (ha : ch.alphas.length = c.config.numChallenges)
    (hacc : verifyWithChallenges c vd p pih ch = .accept) :
    ∀ i, i < c.config.numChallenges →
      Fri.reduceExt (vanishingTerms c ch.zeta p.openings pih ch) (GL2.ofBase (ch.alphas.getD i 0)) =
        (FOps.pow ch.zeta (2 ^ c.degreeBits) - FOps.one) *
          Fri.reduceExt (quotientChunk c p.openings i) (FOps.pow ch.zeta (2 ^ c.degreeBits)) := by
  apply (identityHolds_iff_forall c p pih ch hq hlen ha).1
  unfold verifyWithChallenges at hacc
  by_cases hi : identityHolds c p pih ch = true
  · exact hi
  · simp [hi] at hacc

/-- **Acceptance exposes the identity per challenge** (`verify`): for the challenges `ζ`, `α_i`
recomputed from the statement and the proof, every accepted proof satisfies, for every challenge
index `i < num_challenges`,
`reduce(vanishingTerms(ζ), α_i) = (ζ^n − 1) · reduce(quotient chunk i, ζ^n)`. -/
theorem verify_accept_identity (c : CommonData) (vd : VerifierOnly) (pp : ProofWithPis)
    (hq : 0 < c.quotientDegreeFactor) (hacc : Plonk.verify c vd pp = .accept) :
    let pih := publicInputsHash pp.publicInputs
    let ch := getChallenges c pih vd.circuitDigest pp.proof
    ∀ i, i < c.config.numChallenges →
      Fri.reduceExt (vanishingTerms c ch.zeta pp.proof.openings pih ch)
          (GL2.ofBase (ch.alphas.getD i 0)) =
        (FOps.pow ch.zeta (2 ^ c.degreeBits) - FOps.one) *
          Fri.reduceExt (quotientChunk c pp.proof.openings i) (FOps.pow ch.zeta (2 ^ c.degreeBits)) := by
  intro pih ch
  obtain ⟨hs, hid, _⟩ := (C03.verify_accept_iff c vd pp).1 hacc
  have hl := (C03.shape_accept_lengths c pp hs).2.2.2.2.2.2.2.2.2.1
  exact (identityHolds_iff_forall c pp.proof pih ch hq hl
    (getChallenges_alphas_length c pih vd.circuitDigest pp.proof)).1 hid


/-! ## non-vacuity: concrete instances (one `ConstantGate`, one challenge) -/

/-- one routed wire, one `ConstantGate(1)` in a single selector group, `quotient_degree_factor = 1`,
`num_partial_products = ⌈1/1⌉ − 1 = 0`, no lookups, FRI without query rounds -/
def tinyC : CommonData :=
  { config := ⟨1, 1, 1, 0, 1, false, 1⟩
    friParams := ⟨⟨0, 0, 0, .fixed [], 0⟩, false, 0, []⟩
    gates := [.constant 1]
    selectorIndices := [0]
    groups := [(0, 1)]
    quotientDegreeFactor := 1
    numGateConstraints := 1
    numConstants := 2
    numPublicInputs := 0
    kIs := [1]
    numPartialProducts := 0
    numLookupPolys := 0
    numLookupSelectors := 0
    luts := [] }
/-- openings at `ζ = 2`: selector `0`, constant `5`, wire `7` (so the gate constraint is `5 − 7`),
`σ(ζ) = k·ζ = 2`, `Z(ζ) = Z(gζ) = 1`, quotient opening `−8` -/
def tinyO : OpeningSet :=
  { constants := [⟨0, 0⟩, ⟨5, 0⟩], plonkSigmas := [⟨2, 0⟩], wires := [⟨7, 0⟩], plonkZs := [⟨1, 0⟩],
    plonkZsNext := [⟨1, 0⟩], partialProducts := [], quotientPolys := [⟨18446744069414584313, 0⟩],
    lookupZs := [], lookupZsNext := [] }
def tinyCh : Challenges := ⟨[3], [4], [2], [], ⟨2, 0⟩, ⟨⟨1, 0⟩, [], 0, []⟩⟩
def tinyP : Proof := ⟨[[0,0,0,0]], [[0,0,0,0]], [[0,0,0,0]], tinyO, ⟨[], [], [⟨0, 0⟩], 0⟩⟩
def tinyVd : VerifierOnly := ⟨[[0,0,0,0]], [0,0,0,0]⟩

/-- the three terms: `L_0(2)·(1 − 1) = 0`, the partial-product check `1·(7+3·2+4) − 1·(7+3·2+4) = 0`,
the filtered gate constraint `1·(5 − 7) = −2` -/
example : vanishingTerms tinyC tinyCh.zeta tinyO [0,0,0,0] tinyCh =
    [⟨0, 0⟩, ⟨0, 0⟩, ⟨18446744069414584319, 0⟩] := by decide +kernel
/-- `0 + 0·2 + (−2)·2² = −8 = (2 − 1)·(−8)`: the identity holds with non-zero sides -/
example : identityHolds tinyC tinyP [0,0,0,0] tinyCh = true := by decide +kernel
example : verifyWithChallenges tinyC tinyVd tinyP [0,0,0,0] tinyCh = .accept := by decide +kernel
example : validateShape tinyC ⟨tinyP, []⟩ = .accept := by decide +kernel
/-- … and a wrong quotient opening is rejected -/
example : verifyWithChallenges tinyC tinyVd
    { tinyP with openings := { tinyO with quotientPolys := [⟨1, 0⟩] } } [0,0,0,0] tinyCh
    = .reject "identity" := by decide +kernel
-- hypotheses of `vanishingTerms_length(_plonky2)`, `identityHolds_iff_forall`,
-- `verifyWithChallenges_accept_identity`:
example : tinyO.lookupZs.length = tinyC.numAllLookupPolys := by decide
example : 0 < tinyC.quotientDegreeFactor ∧ tinyC.numPartialProducts + 1 =
    (tinyC.config.numRoutedWires + tinyC.quotientDegreeFactor - 1) / tinyC.quotientDegreeFactor := by decide
example : tinyO.quotientPolys.length = tinyC.numQuotientPolys ∧
    tinyCh.alphas.length = tinyC.config.numChallenges := by decide
example : (vanishingTerms tinyC tinyCh.zeta tinyO [0,0,0,0] tinyCh).length = 3 := by
  rw [vanishingTerms_length_plonky2 _ _ _ _ _ (by decide) (by decide) (by decide)]; decide
-- hypotheses of the membership lemmas (b) and of (c):
example : (0 : Nat) < tinyC.config.numChallenges ∧ (0 : Nat) < tinyC.numGateConstraints := by decide
/-- hypotheses of `evaluateGateConstraints_single` (a circuit with one gate: no other filter) -/
example : tinyC.gates[0]? = some (.constant 1) ∧
    ∀ i, i < tinyC.gates.length → i ≠ 0 → gateFilter tinyC tinyO.constants i = FOps.zero :=
  ⟨rfl, fun _ hi hne => absurd (Nat.lt_one_iff.1 hi) hne⟩
/-- … with a second gate whose filter vanishes on the row: two `ConstantGate`s in one group,
selector value `0` selects gate `0`; the filter of gate `1` is `0 − 0 = 0` -/
def tinyC2 : CommonData :=
  { tinyC with
    gates := [.constant 1, .constant 1]
    selectorIndices := [0, 0]
    groups := [(0, 2)] }
example : ∀ i, i < tinyC2.gates.length → i ≠ 0 → gateFilter tinyC2 tinyO.constants i = FOps.zero := by
  intro i hi hne
  have : i = 1 := by simp [tinyC2] at hi; omega
  subst this
  decide +kernel
/-- a lookup circuit shape for `lookupTerm_mem` (`num_lookup_polys ≠ 0`) -/
example : ({ tinyC with numLookupPolys := 2, numLookupSelectors := 5 } : CommonData).numLookupPolys ≠ 0 := by
  decide

/-- one `ConstantGate(1)`, no routed wire: every term is zero whatever the challenges are, so the
proof below is accepted by `verify` with its Fiat–Shamir challenges (Poseidon evaluated in the
kernel) — the hypothesis of `verify_accept_identity` is satisfiable with `num_challenges = 1` -/
def tinyC0 : CommonData := { tinyC with config := ⟨1, 0, 1, 0, 1, false, 1⟩, kIs := [] }
def tinyP0 : Proof := ⟨[[0,0,0,0]], [[0,0,0,0]], [[0,0,0,0]],
  { tinyO with plonkSigmas := [], wires := [⟨5, 0⟩], quotientPolys := [⟨0, 0⟩] }, ⟨[], [], [⟨0, 0⟩], 0⟩⟩
set_option maxRecDepth 100000 in
example : Plonk.verify tinyC0 tinyVd ⟨tinyP0, []⟩ = .accept := by decide +kernel
example : 0 < tinyC0.quotientDegreeFactor ∧ 0 < tinyC0.config.numChallenges := by decide

/-! ## (e) the α-combination is `reduce_with_powers`: how (a) feeds the Schwartz–Zippel statements -/

/-- the model's `reduceExt` is the field-generic `PlonkAlg.reduceWithPowers` at `K = GL2` — the
function `C02.reduceWithPowers_eq_sum`, `C02.reduceWithPowers_zero_set` and
`C02.terms_zero_of_many_zeros` are about (there over a Mathlib field through `FOps.ofField`). -/
theorem reduceExt_eq_reduceWithPowers (xs : List GL2) (α : GL2) :
    Fri.reduceExt xs α = PlonkAlg.reduceWithPowers xs α := rfl

/-- (a) with `reduceWithPowers`: entry `i` of `eval_vanishing_poly` is
`reduce_with_powers(vanishingTerms, α_i)`. -/
theorem evalVanishingPoly_eq_reduceWithPowers (c : CommonData) (x : GL2) (o : OpeningSet)
    (pih : Digest) (ch : Challenges) :
    evalVanishingPoly c x o pih ch =
      ch.alphas.map fun a =>
        PlonkAlg.reduceWithPowers (vanishingTerms c x o pih ch) (GL2.ofBase a) :=
  evalVanishingPoly_eq c x o pih ch

section field
variable {K : Type} [Field K] [DecidableEq K]
open P2.PlonkAlg

/-- `C02.terms_zero_of_many_zeros` for a term list of the shape (a) establishes: if the
α-combination of `zs ++ pps ++ lks ++ gts` (the four families of `vanishingTerms`) vanishes at
`length`-many distinct `α`, then EVERY term of EVERY family is zero; contrapositive with
`C02.reduceWithPowers_zero_set`: one non-zero constraint term is annihilated by at most
`length − 1` values of `α`. Over `K = GL2` as a field this is the statement about
`Fri.reduceExt (vanishingTerms …)` by `reduceExt_eq_reduceWithPowers`. -/
theorem families_zero_of_many_zeros (zs pps lks gts : List K) (S : Finset K)
    (hcard : (zs ++ pps ++ lks ++ gts).length ≤ S.card)
    (hS : ∀ α ∈ S, @reduceWithPowers K (FOps.ofField K) (zs ++ pps ++ lks ++ gts) α = 0) :
    (∀ t ∈ zs, t = 0) ∧ (∀ t ∈ pps, t = 0) ∧ (∀ t ∈ lks, t = 0) ∧ (∀ t ∈ gts, t = 0) := by
  have h := C02.terms_zero_of_many_zeros _ S hcard hS
  refine ⟨fun t ht => h t ?_, fun t ht => h t ?_, fun t ht => h t ?_, fun t ht => h t ?_⟩ <;>
    simp [ht]

example : (([0] : List ℚ) ++ [0] ++ [] ++ [0]).length ≤ ({0, 1, 2} : Finset ℚ).card ∧
    ∀ α ∈ ({0, 1, 2} : Finset ℚ),
      @reduceWithPowers ℚ (FOps.ofField ℚ) ([0] ++ [0] ++ [] ++ [0]) α = 0 := by
  refine ⟨by decide, fun α _ => ?_⟩
  rw [C02.reduceWithPowers_eq_sum_range]
  simp [Finset.sum_range_succ]
end field

/-! ## (f) the STARK vanishing combination -/

section stark
open P2.Air P2.Lemmas.StarkAlg

/-- the weighted table-constraint values the consumer receives, in emission order: constraint
value × (`lagrange_first` | `lagrange_last` | `z_last` | 1) according to its kind -/
def starkConstraintTerms (a : Air) (lv nv : List GL2) (pis : List P2.GL) (z l0 ll : GL2) : List GL2 :=
  a.constraints.map fun p =>
    weigh z l0 ll p.1 (p.2.eval lv.toArray nv.toArray (pis.map GL2.ofBase).toArray)

/-- **STARK `eval_vanishing_poly` without lookups/CTLs**: entry `i` is the Horner combination in
`α_i` of `starkConstraintTerms` — the FIRST constraint gets the highest power, i.e.
`reduce_with_powers` of the reversed list. Never a panic (`some`). -/
theorem stark_evalVanishingPoly_plain (a : Air) (lv nv : List GL2) (pis : List P2.GL)
    (alphas : List P2.GL) (z l0 ll : GL2) :
    Stark.evalVanishingPoly a lv nv pis none none (Consumer.new (alphas.map GL2.ofBase) z l0 ll) =
      some (alphas.map fun α =>
        Fri.reduceExt (starkConstraintTerms a lv nv pis z l0 ll).reverse (GL2.ofBase α)) := by
  show some (a.evalConstraints lv.toArray nv.toArray (pis.map GL2.ofBase).toArray _).accs = _
  rw [evalConstraints_eq]
  show some ((starkConstraintTerms a lv nv pis z l0 ll).foldl Consumer.constraint
    (Consumer.new (alphas.map GL2.ofBase) z l0 ll)).accs = _
  rw [consumer_foldl_accs, List.map_map]
  congr 1
  apply List.map_congr_left
  intro α _
  exact horner_eq_reduce_generic _ _

/-- **With lookups and/or CTLs the table constraints still enter first**: `eval_vanishing_poly` is
the lookup and CTL stages run from the consumer that has absorbed `starkConstraintTerms`.
(`_partial`: the lookup/CTL stages are not unrolled into a term list here; their per-term algebra is
C10b, their panic conditions C18b/`StarkNoPanic`.) -/
theorem stark_evalVanishingPoly_constraints_first_partial (a : Air) (lv nv : List GL2)
    (pis : List P2.GL) (lk : Option (List GL2 × List GL2 × List P2.GL))
    (ctl : Option (List Stark.CtlVars)) (s : Consumer GL2) :
    Stark.evalVanishingPoly a lv nv pis lk ctl s =
      Stark.evalVanishingPoly { a with constraints := [] } lv nv pis lk ctl
        ((starkConstraintTerms a lv nv pis s.zLast s.lagrangeFirst s.lagrangeLast).foldl
          Consumer.constraint s) := by
  have h := evalConstraints_eq a lv.toArray nv.toArray (pis.map GL2.ofBase).toArray s
  unfold Stark.evalVanishingPoly
  simp only []
  rw [h]
  rfl


/-- a one-constraint AIR at a point: `local[0] − public[0] = 5 − 3`, weight 1 (kind `all`) -/
example : starkConstraintTerms
    { cols := 1, pis := 1, degree := 1, requiresCtls := false, lookups := [],
      constraints := [(Kind.all, Expr.sub (.loc 0) (.pub 0))] }
    [⟨5, 0⟩] [⟨5, 0⟩] [3] ⟨1, 0⟩ ⟨1, 0⟩ ⟨1, 0⟩ = [⟨2, 0⟩] := by decide +kernel
end stark

end P2.Props.C02c
