/-
C20 (components): selection denotes `if` on every component, and the out-of-circuit verifier-data
check accepts exactly when the data embedded at the end of the public inputs equal the circuit's.
-/
import P2.Model.CircuitVerifier
namespace P2.Props.C20
open P2 P2.CircuitVerifier

/-- element-wise selection of lists (`select_hash`, `select_cap`, … are element-wise `select`) -/
theorem select_struct {α} (b : Bool) (xs ys : List α) (h : xs.length = ys.length) :
    List.zipWith (select b) xs ys = if b then xs else ys := by
  cases b
  · simp only [select, Bool.false_eq_true, if_false]
    induction xs generalizing ys with
    | nil => cases ys <;> simp_all
    | cons x xs ih =>
      cases ys with
      | nil => simp at h
      | cons y ys => simp only [List.zipWith_cons_cons]; rw [ih ys (by simpa using h)]; simp [select]
  · simp only [select, if_true]
    induction xs generalizing ys with
    | nil => cases ys <;> simp_all
    | cons x xs ih =>
      cases ys with
      | nil => simp at h
      | cons y ys => simp only [List.zipWith_cons_cons]; rw [ih ys (by simpa using h)]; simp [select]

/-- **Conditional verification verifies exactly the selected pair.** For any verification predicate
`V` (the in-circuit verifier, C06), checking `V` on the element-wise selection equals checking it on
the selected branch — the other branch does not occur in the right-hand side. -/
theorem conditional_verifies_selected {P VD} (V : P → VD → Prop) (b : Bool) (p0 p1 : P) (v0 v1 : VD) :
    V (select b p0 p1) (select b v0 v1) ↔ (if b then V p0 v0 else V p1 v1) := by
  cases b <;> simp [select]

/-- **The verifier-data check** accepts iff the public inputs are long enough and their last
`4 + 4·capLen` elements are `digest ‖ cap`. -/
theorem check_cyclic_vd_iff (pis : List GL) (capLen : Nat) (digest cap : List GL)
    (hd : digest.length = 4) :
    checkCyclicVd pis capLen digest cap = true ↔
      4 + 4 * capLen ≤ pis.length ∧ pis.drop (pis.length - (4 + 4 * capLen)) = digest ++ cap := by
  unfold checkCyclicVd vdFromSlice
  by_cases hl : pis.length < 4 + 4 * capLen
  · simp [hl]; omega
  · simp only [hl, if_false]
    have hle : 4 + 4 * capLen ≤ pis.length := by omega
    simp only [Bool.and_eq_true, beq_iff_eq, hle, true_and]
    constructor
    · rintro ⟨h1, h2⟩
      rw [← List.take_append_drop 4 (pis.drop (pis.length - (4 + 4 * capLen))), h1, h2]
    · intro h
      rw [h]
      constructor
      · rw [List.take_append_of_le_length (by omega)]; simp [← hd]
      · rw [List.drop_append_of_le_length (by omega)]; simp [← hd]

/-- altering any single element of the embedded data makes the check fail -/
theorem altered_embedded_vd_rejected (pis pis' : List GL) (capLen : Nat) (digest cap : List GL)
    (hd : digest.length = 4) (h : checkCyclicVd pis capLen digest cap = true)
    (_hlen : pis'.length = pis.length)
    (hne : pis'.drop (pis'.length - (4 + 4 * capLen)) ≠ pis.drop (pis.length - (4 + 4 * capLen))) :
    checkCyclicVd pis' capLen digest cap = false := by
  have h1 := (check_cyclic_vd_iff pis capLen digest cap hd).1 h
  by_cases h2 : checkCyclicVd pis' capLen digest cap = true
  · have h3 := (check_cyclic_vd_iff pis' capLen digest cap hd).1 h2
    exact absurd (h3.2.trans h1.2.symm) hne
  · simpa using h2

end P2.Props.C20
