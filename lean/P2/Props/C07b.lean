/-
C07 (second increment): for the built-in gates of the model (`P2/Model/Gates.lean`), in every
parameterisation,

  * T0  the generic single-replacement lemmas;
  * T1  the evaluator returns exactly `numConstraints` constraints (all 16 gate kinds);
  * T2/T3  per gate: the row the gate's generator fills in satisfies every constraint
        (`…_sat_iff` / `…_gen_sat` over an arbitrary field, `…_generate_sat` for the model's
        `GateKind.generate` over Goldilocks), every generator-written value is pinned by a named
        constraint (`…_pinned…`), the other constraints do not move (`…_others…`), and the two
        halves combined on the model's own generated row (`…_C07On`);
  * T4  every constraint has degree at most `GateKind.degree` along every line (`…_degree`).

Vocabulary (defined in `P2/Lemmas/C07.lean`, `P2/Lemmas/C07On.lean`, `P2/Lemmas/C07Degree.lean`):
  `evalF g v`   = `@GateKind.evalUnfiltered K (FOps.ofField K) _ g v`, the model's evaluator with
                  the operations of the Mathlib field `K`;
  `con g v i`   = `(evalF g v).getD i 0`, constraint number `i`;
  `Sat g v`     = every constraint of `evalF g v` is `0`;
  `DiffersOnlyAt v v' k` = `v'` has the same constants and public-input hash as `v`, the same value
                  in every wire `j ≠ k`, and a DIFFERENT value in wire `k`
                  (`setW v k x` = `v` with `wires.set! k x` is one whenever `k` is in range and
                  `x ≠ v.wires[k]!`: `setW_differs`);
  `genRow g consts wires pih` = `⟨consts, g.generate consts wires, pih⟩`;
  `C07On g consts wires pih`  = C07 on the model's own generated row over `GL`, with the model's
                  executable evaluator: all constraints vanish on `g.generate consts wires`, and for
                  every `k ∈ g.generatedWires` and `x ≠ row[k]!` some constraint of the row with
                  column `k` set to `x` is non-zero;
  `DegLE d f`, `Line V` : polynomial functions of degree ≤ d, rows moving along a line.
Side conditions that the proofs forced are hypotheses of the statements and are discussed in the
doc comments (`baseSum`: `(b : K) ≠ 0`; `randomAccess`: `(2 : K) ≠ 0`; contracts: sum `< b^l`,
power bits boolean, access index `< 2^bits`).
-/
import P2.Lemmas.C07
import P2.Lemmas.C07On
import P2.Lemmas.C07Arith
import P2.Lemmas.C07Simple
import P2.Lemmas.C07GenGL
import P2.Lemmas.C07Counts
import P2.Lemmas.C07BaseSum
import P2.Lemmas.C07Exp
import P2.Lemmas.C07Reducing
import P2.Lemmas.C07RandomAccess
import P2.Lemmas.C07FinalArith
import P2.Lemmas.C07FinalA
import P2.Lemmas.C07FinalB
import P2.Lemmas.C07Degree
import P2.Lemmas.C07Mds
import P2.Lemmas.C07Poseidon
import Mathlib.Tactic.NormNum
import Mathlib.Algebra.Field.Rat

set_option linter.unusedSectionVars false
set_option linter.unusedVariables false

namespace P2.Props.C07
open P2 P2.Gates P2.Lemmas.C07

/-! ## T0: generic replacement lemmas -/

section T0
variable {K : Type} [Field K] [Inhabited K]

/-- constraint `w_k − e(row)` with `e` independent of wire `k`: replacing wire `k` of a row on
which the constraint vanishes by any other value makes it non-zero -/
theorem replace_pins_sub [DecidableEq K] (ws : Array K) (k : Nat) (hk : k < ws.size)
    (e : Array K → K) (hind : ∀ x, e (ws.set! k x) = e ws) (h0 : ws[k]! - e ws = 0)
    (x : K) (hx : x ≠ ws[k]!) : (ws.set! k x)[k]! - e (ws.set! k x) ≠ 0 :=
  replace_sub ws k hk e hind h0 x hx

/-- the mirrored shape `e(row) − w_k` -/
theorem replace_pins_sub' [DecidableEq K] (ws : Array K) (k : Nat) (hk : k < ws.size)
    (e : Array K → K) (hind : ∀ x, e (ws.set! k x) = e ws) (h0 : e ws - ws[k]! = 0)
    (x : K) (hx : x ≠ ws[k]!) : e (ws.set! k x) - (ws.set! k x)[k]! ≠ 0 :=
  replace_sub' ws k hk e hind h0 x hx

/-- affine shape `a(row)·w_k + b(row)`, `a`, `b` independent of wire `k`, `a(row) ≠ 0` -/
theorem replace_pins_affine [DecidableEq K] (ws : Array K) (k : Nat) (hk : k < ws.size)
    (a b : Array K → K) (ha : ∀ x, a (ws.set! k x) = a ws) (hb : ∀ x, b (ws.set! k x) = b ws)
    (hne : a ws ≠ 0) (h0 : a ws * ws[k]! + b ws = 0) (x : K) (hx : x ≠ ws[k]!) :
    a (ws.set! k x) * (ws.set! k x)[k]! + b (ws.set! k x) ≠ 0 :=
  replace_affine ws k hk a b ha hb hne h0 x hx

/-- rows as functions `Nat → K` (no bounds) -/
theorem replace_pins_sub_fun [DecidableEq K] (w : Nat → K) (k : Nat) (e : (Nat → K) → K)
    (hind : ∀ x, e (Function.update w k x) = e w) (h0 : w k - e w = 0)
    (x : K) (hx : x ≠ w k) : (Function.update w k x) k - e (Function.update w k x) ≠ 0 :=
  replace_sub_fun w k e hind h0 x hx

theorem replace_pins_affine_fun [DecidableEq K] (w : Nat → K) (k : Nat) (a b : (Nat → K) → K)
    (ha : ∀ x, a (Function.update w k x) = a w) (hb : ∀ x, b (Function.update w k x) = b w)
    (hne : a w ≠ 0) (h0 : a w * w k + b w = 0) (x : K) (hx : x ≠ w k) :
    a (Function.update w k x) * (Function.update w k x) k + b (Function.update w k x) ≠ 0 :=
  replace_affine_fun w k a b ha hb hne h0 x hx

/-- a single-column replacement inside the row IS a `DiffersOnlyAt` pair -/
theorem setW_is_replacement (v : EvalVars K) (k : Nat) (x : K) (hk : k < v.wires.size)
    (hx : x ≠ v.wires[k]!) : DiffersOnlyAt v (setW v k x) k := setW_differs v k x hk hx

end T0

/-! ## T1: exactly as many constraints as declared — every gate kind, every parameter, every row,
any operations record (no side condition; in particular none for `cosetInterpolation`) -/

theorem count_all {K : Type} [FOps K] [Inhabited K] (g : GateKind) (v : EvalVars K) :
    (g.evalUnfiltered v).length = g.numConstraints := Lemmas.C07.count_all g v

section Gates
variable {K : Type} [Field K] [DecidableEq K] [Inhabited K]

/-! ## T2: arithmetic gate `.arithmetic n` (outputs: wires `4i+3`, constraint `i`) -/

/-- (a) the row satisfies the gate iff every output wire holds the generator's value -/
theorem arithmetic_sat_iff (n : Nat) (v : EvalVars K) :
    Sat (.arithmetic n) v ↔ ∀ i, i < n →
      v.wires[4 * i + 3]! = v.wires[4 * i]! * v.wires[4 * i + 1]! * v.constants[0]!
        + v.wires[4 * i + 2]! * v.constants[1]! := Lemmas.C07.arithmetic_sat_iff n v

/-- (b) output `i` is pinned by constraint `i` -/
theorem arithmetic_pinned (n : Nat) (v v' : EvalVars K) (i : Nat) (hi : i < n)
    (hd : DiffersOnlyAt v v' (4 * i + 3)) (h0 : con (.arithmetic n) v i = 0) :
    con (.arithmetic n) v' i ≠ 0 := Lemmas.C07.arithmetic_pinned n v v' i hi hd h0

/-- (c) all other constraints keep their value -/
theorem arithmetic_others (n : Nat) (v v' : EvalVars K) (i : Nat)
    (hd : DiffersOnlyAt v v' (4 * i + 3)) (j : Nat) (hj : j ≠ i) :
    con (.arithmetic n) v' j = con (.arithmetic n) v j :=
  Lemmas.C07.arithmetic_others n v v' i hd j hj

/-! ## T3: constant gate (no generator; wire `i` vs constant `i`) -/

theorem constant_sat_iff (n : Nat) (v : EvalVars K) :
    Sat (.constant n) v ↔ ∀ i, i < n → v.wires[i]! = v.constants[i]! :=
  Lemmas.C07.constant_sat_iff n v

theorem constant_pinned (n : Nat) (v v' : EvalVars K) (i : Nat) (hi : i < n)
    (hd : DiffersOnlyAt v v' i) (h0 : con (.constant n) v i = 0) :
    con (.constant n) v' i ≠ 0 := Lemmas.C07.constant_pinned n v v' i hi hd h0

theorem constant_others (n : Nat) (v v' : EvalVars K) (i : Nat)
    (hd : DiffersOnlyAt v v' i) (j : Nat) (hj : j ≠ i) :
    con (.constant n) v' j = con (.constant n) v j := Lemmas.C07.constant_others n v v' i hd j hj

/-! ## T3: public-input gate (wires 0..3 vs the public-inputs hash) -/

theorem publicInput_sat_iff (v : EvalVars K) :
    Sat .publicInput v ↔ ∀ i, i < 4 → v.wires[i]! = v.pih[i]! :=
  Lemmas.C07.publicInput_sat_iff v

theorem publicInput_pinned (v v' : EvalVars K) (i : Nat) (hi : i < 4)
    (hd : DiffersOnlyAt v v' i) (h0 : con .publicInput v i = 0) :
    con .publicInput v' i ≠ 0 := Lemmas.C07.publicInput_pinned v v' i hi hd h0

theorem publicInput_others (v v' : EvalVars K) (i : Nat)
    (hd : DiffersOnlyAt v v' i) (j : Nat) (hj : j ≠ i) :
    con .publicInput v' j = con .publicInput v j := Lemmas.C07.publicInput_others v v' i hd j hj

/-! ## T3: arithmetic-extension gate (outputs: algebra element at wires `8i+6, 8i+7`; constraints
`2i, 2i+1`).  `arithExtGen v i` is the pair `(m0·m1)·c0 + addend·c1` computed in `K[X]/(X²−7)` from
wires `8i … 8i+5` and constants 0, 1 (`arithExtOut`). -/

theorem arithmeticExt_sat_iff (n : Nat) (v : EvalVars K) :
    Sat (.arithmeticExt n) v ↔ ∀ i, i < n →
      v.wires[8 * i + 6]! = (arithExtGen v i).1 ∧ v.wires[8 * i + 7]! = (arithExtGen v i).2 :=
  Lemmas.C07.arithmeticExt_sat_iff n v

/-- the generator's value, spelled out -/
theorem arithExtGen_eq (v : EvalVars K) (i : Nat) :
    arithExtGen v i =
      ((v.wires[8 * i]! * v.wires[8 * i + 2]! + 7 * (v.wires[8 * i + 1]! * v.wires[8 * i + 3]!))
          * v.constants[0]! + v.wires[8 * i + 4]! * v.constants[1]!,
       (v.wires[8 * i]! * v.wires[8 * i + 3]! + v.wires[8 * i + 1]! * v.wires[8 * i + 2]!)
          * v.constants[0]! + v.wires[8 * i + 5]! * v.constants[1]!) := rfl

/-- component wire `8i+6+r` (`r < 2`) is pinned by constraint `2i+r` -/
theorem arithmeticExt_pinned (n : Nat) (v v' : EvalVars K) (i r : Nat) (hi : i < n) (hr : r < 2)
    (hd : DiffersOnlyAt v v' (8 * i + 6 + r)) (h0 : con (.arithmeticExt n) v (2 * i + r) = 0) :
    con (.arithmeticExt n) v' (2 * i + r) ≠ 0 :=
  Lemmas.C07.arithmeticExt_pinned n v v' i r hi hr hd h0

theorem arithmeticExt_others (n : Nat) (v v' : EvalVars K) (i r : Nat) (hr : r < 2)
    (hd : DiffersOnlyAt v v' (8 * i + 6 + r)) (j : Nat) (hj : j ≠ 2 * i + r) :
    con (.arithmeticExt n) v' j = con (.arithmeticExt n) v j :=
  Lemmas.C07.arithmeticExt_others n v v' i r hr hd j hj

/-! ## T3: multiplication-extension gate (outputs at wires `6i+4, 6i+5`; constraints `2i, 2i+1`) -/

theorem mulExt_sat_iff (n : Nat) (v : EvalVars K) :
    Sat (.mulExt n) v ↔ ∀ i, i < n →
      v.wires[6 * i + 4]! = (mulExtGen v i).1 ∧ v.wires[6 * i + 5]! = (mulExtGen v i).2 :=
  Lemmas.C07.mulExt_sat_iff n v

theorem mulExtGen_eq (v : EvalVars K) (i : Nat) :
    mulExtGen v i =
      ((v.wires[6 * i]! * v.wires[6 * i + 2]! + 7 * (v.wires[6 * i + 1]! * v.wires[6 * i + 3]!))
          * v.constants[0]!,
       (v.wires[6 * i]! * v.wires[6 * i + 3]! + v.wires[6 * i + 1]! * v.wires[6 * i + 2]!)
          * v.constants[0]!) := rfl

theorem mulExt_pinned (n : Nat) (v v' : EvalVars K) (i r : Nat) (hi : i < n) (hr : r < 2)
    (hd : DiffersOnlyAt v v' (6 * i + 4 + r)) (h0 : con (.mulExt n) v (2 * i + r) = 0) :
    con (.mulExt n) v' (2 * i + r) ≠ 0 := Lemmas.C07.mulExt_pinned n v v' i r hi hr hd h0

theorem mulExt_others (n : Nat) (v v' : EvalVars K) (i r : Nat) (hr : r < 2)
    (hd : DiffersOnlyAt v v' (6 * i + 4 + r)) (j : Nat) (hj : j ≠ 2 * i + r) :
    con (.mulExt n) v' j = con (.mulExt n) v j := Lemmas.C07.mulExt_others n v v' i r hr hd j hj

/-! ## T3: base-sum gate `.baseSum b l` (wire 0 = sum, wires `1+i` = limbs written by
`BaseSplitGenerator`; constraint 0 = `Σ limb_i·b^i − sum`, constraint `1+i` = `∏_{d<b}(limb_i − d)`)

Findings.  (1) The generated row satisfies the gate under the contract `s < b^l` only (no condition
on the characteristic).  (2) A changed limb `i` is caught by the SUM constraint iff `(b:K)^i ≠ 0`;
when the characteristic divides `b` it is not caught at all: `baseSum_pinned_needs_side_condition`
exhibits two fully satisfying rows over `ZMod 2` (b = 2, l = 2) that differ in one limb only.  Over
Goldilocks `(b : GL) ≠ 0` for `0 < b < p`.  (3) The digits are the ONLY satisfying limbs when
`Nat.cast` is injective on `[0, b^l)` (`baseSum_sat_unique`); over `GL` this needs `b^l ≤ p`, which
fails e.g. for base 2 with 64 limbs (`s` and `s + p` are both `< 2^64` for small `s`). -/

theorem baseSum_con0 (b l : Nat) (v : EvalVars K) :
    con (.baseSum b l) v 0 = (∑ i ∈ Finset.range l, v.wires[1 + i]! * (b : K) ^ i) - v.wires[0]! :=
  Lemmas.C07.baseSum_con0 b l v

theorem baseSum_con_succ (b l : Nat) (v : EvalVars K) (i : Nat) :
    con (.baseSum b l) v (1 + i)
      = if i < l then ∏ d ∈ Finset.range b, (v.wires[1 + i]! - (d : K)) else 0 :=
  Lemmas.C07.baseSum_con_succ' b l v i

/-- (a) sum `s < b^l`, limbs = base-`b` digits of `s` ⟹ all constraints vanish (any field) -/
theorem baseSum_gen_sat (b l s : Nat) (hs : s < b ^ l) (v : EvalVars K)
    (h0 : v.wires[0]! = (s : K))
    (hl : ∀ i, i < l → v.wires[1 + i]! = (((s / b ^ i) % b : ℕ) : K)) :
    Sat (.baseSum b l) v := Lemmas.C07.baseSum_gen_sat b l s hs v h0 hl

/-- (b) limb `i` is pinned by the sum constraint (index 0) provided `(b:K) ≠ 0` (or `i = 0`) -/
theorem baseSum_pinned (b l : Nat) (v v' : EvalVars K) (i : Nat) (hi : i < l)
    (hb : (b : K) ≠ 0 ∨ i = 0) (hd : DiffersOnlyAt v v' (1 + i))
    (h0 : con (.baseSum b l) v 0 = 0) : con (.baseSum b l) v' 0 ≠ 0 :=
  Lemmas.C07.baseSum_pinned' b l v v' i hi hb hd h0

/-- the side condition of `baseSum_pinned` cannot be dropped: if `(b:K)^i = 0` the sum constraint
does not see limb `i` at all -/
theorem baseSum_con0_blind (b l : Nat) (v v' : EvalVars K) (i : Nat) (hi : i < l)
    (hb : (b : K) ^ i = 0) (hd : DiffersOnlyAt v v' (1 + i)) :
    con (.baseSum b l) v' 0 = con (.baseSum b l) v 0 :=
  Lemmas.C07.baseSum_con0_blind b l v v' i hi hb hd

/-- … and then C07's replacement clause is FALSE: over `ZMod 2`, base 2, two limbs, sum 0, two rows
differing only in limb 1 both satisfy every constraint -/
theorem baseSum_pinned_needs_side_condition :
    ∃ v v' : EvalVars (ZMod 2), DiffersOnlyAt v v' (1 + 1) ∧ v.wires[0]! = ((0 : ℕ) : ZMod 2) ∧
      Sat (.baseSum 2 2) v ∧ Sat (.baseSum 2 2) v' :=
  Lemmas.C07.baseSum_pinned_needs_side_condition

/-- (c) the range constraints of the other limbs keep their value -/
theorem baseSum_others (b l : Nat) (v v' : EvalVars K) (i : Nat)
    (hd : DiffersOnlyAt v v' (1 + i)) (j : Nat) (hj : j ≠ i) :
    con (.baseSum b l) v' (1 + j) = con (.baseSum b l) v (1 + j) :=
  Lemmas.C07.baseSum_others b l v v' i hd j hj

/-- uniqueness (the strongest pinning statement): if `Nat.cast` is injective on `[0, b^l)`, a
satisfying row whose sum is `s < b^l` has exactly the base-`b` digits of `s` as limbs -/
theorem baseSum_sat_unique (b l s : Nat) (hs : s < b ^ l)
    (hinj : ∀ m n, m < b ^ l → n < b ^ l → (m : K) = (n : K) → m = n)
    (v : EvalVars K) (hsat : Sat (.baseSum b l) v) (h0 : v.wires[0]! = (s : K)) :
    ∀ i, i < l → v.wires[1 + i]! = (((s / b ^ i) % b : ℕ) : K) :=
  Lemmas.C07.baseSum_sat_unique b l s hs hinj v hsat h0

/-- … so under that injectivity NO single-limb replacement of a satisfying row satisfies the gate -/
theorem baseSum_pinned_sat (b l s : Nat) (hs : s < b ^ l)
    (hinj : ∀ m n, m < b ^ l → n < b ^ l → (m : K) = (n : K) → m = n)
    (v v' : EvalVars K) (i : Nat) (hi : i < l) (hd : DiffersOnlyAt v v' (1 + i))
    (hsat : Sat (.baseSum b l) v) (h0 : v.wires[0]! = (s : K)) : ¬ Sat (.baseSum b l) v' :=
  Lemmas.C07.baseSum_pinned_sat b l s hs hinj v v' i hi hd hsat h0

/-- the injectivity hypothesis holds in characteristic 0 or `≥ b^l` -/
theorem natCast_inj_of_charP (p : Nat) [CharP K p] (N : Nat) (hN : N ≤ p ∨ p = 0) :
    ∀ m n, m < N → n < N → (m : K) = (n : K) → m = n := Lemmas.C07.natCast_inj_of_charP p N hN

/-! ## T3: exponentiation gate `.exponentiation n` (wire 0 = base, wires `1+i` = power bits,
wire `1+n` = output, wires `2+n+i` = intermediates; constraint `i < n` pins intermediate `i`,
constraint `n` pins the output).  `expPrev n v i` = `1` for `i = 0`, else `intermediate_{i−1}²`.
Contract: power bits boolean (needed: the generator tests `bit = 1` only; see the example in
`P2/Lemmas/C07Exp.lean` with bit = 2). -/

theorem exponentiation_sat_iff (n : Nat) (v : EvalVars K) :
    Sat (.exponentiation n) v ↔
      (∀ i, i < n → v.wires[2 + n + i]! =
        expPrev n v i * (v.wires[1 + (n - i - 1)]! * v.wires[0]! + (1 - v.wires[1 + (n - i - 1)]!)))
      ∧ v.wires[1 + n]! = v.wires[2 + n + (n - 1)]! := Lemmas.C07.exponentiation_sat_iff n v

/-- (a) boolean power bits, intermediates and output as `ExponentiationGenerator` computes them
⟹ all constraints vanish -/
theorem exponentiation_gen_sat (n : Nat) (v : EvalVars K)
    (hb : ∀ i, i < n → v.wires[1 + i]! = 0 ∨ v.wires[1 + i]! = 1)
    (hi : ∀ i, i < n → v.wires[2 + n + i]! =
      if v.wires[1 + (n - i - 1)]! = 1 then expPrev n v i * v.wires[0]! else expPrev n v i)
    (ho : v.wires[1 + n]! = v.wires[2 + n + (n - 1)]!) : Sat (.exponentiation n) v :=
  Lemmas.C07.exponentiation_gen_sat n v hb hi ho

/-- the gate computes exponentiation: on a satisfying row with boolean bits,
`output = base ^ Σ_j bit_j·2^j` -/
theorem exponentiation_semantics (n : Nat) (hn : 1 ≤ n) (v : EvalVars K)
    (hb : ∀ i, i < n → v.wires[1 + i]! = 0 ∨ v.wires[1 + i]! = 1)
    (hs : Sat (.exponentiation n) v) :
    v.wires[1 + n]! = v.wires[0]! ^ (∑ j ∈ Finset.range n, expBitVal v j * 2 ^ j) :=
  Lemmas.C07.exponentiation_semantics n hn v hb hs

/-- (b) intermediate `i` is pinned by constraint `i` -/
theorem exponentiation_pinned_intermediate (n : Nat) (v v' : EvalVars K) (i : Nat) (hi : i < n)
    (hd : DiffersOnlyAt v v' (2 + n + i)) (h0 : con (.exponentiation n) v i = 0) :
    con (.exponentiation n) v' i ≠ 0 :=
  Lemmas.C07.exponentiation_pinned_intermediate n v v' i hi hd h0

/-- (b) the output is pinned by constraint `n` (every `n`, including 0) -/
theorem exponentiation_pinned_output (n : Nat) (v v' : EvalVars K)
    (hd : DiffersOnlyAt v v' (1 + n)) (h0 : con (.exponentiation n) v n = 0) :
    con (.exponentiation n) v' n ≠ 0 := Lemmas.C07.exponentiation_pinned_output n v v' hd h0

/-- (c) replacing intermediate `i` can only move constraints `i` and `i+1` -/
theorem exponentiation_others_intermediate (n : Nat) (v v' : EvalVars K) (i : Nat)
    (hd : DiffersOnlyAt v v' (2 + n + i)) (j : Nat) (hj : j ≠ i) (hj' : j ≠ i + 1) :
    con (.exponentiation n) v' j = con (.exponentiation n) v j :=
  Lemmas.C07.exponentiation_others_intermediate n v v' i hd j hj hj'

theorem exponentiation_others_output (n : Nat) (v v' : EvalVars K)
    (hd : DiffersOnlyAt v v' (1 + n)) (j : Nat) (hj : j ≠ n) :
    con (.exponentiation n) v' j = con (.exponentiation n) v j :=
  Lemmas.C07.exponentiation_others_output n v v' hd j hj

/-! ## T3: reducing gates (`.reducing n`: base-field coefficients at wires `6+i`; `.reducingExt n`:
algebra coefficients at `6+2i`).  Output/last accumulator = wires 0,1; alpha = 2,3; old_acc = 4,5;
accumulator `i` at `redWiresAccs n i` (resp. `redExtWiresAccs n i`); `redPrev n i` is the position
of the previous accumulator (`4` for `i = 0`).  Constraints `2i`, `2i+1` pin the two component
wires of accumulator `i`. -/

theorem reducing_sat_iff (n : Nat) (v : EvalVars K) :
    Sat (.reducing n) v ↔ ∀ i, i < n →
      v.wires[redWiresAccs n i]! = v.wires[redPrev n i]! * v.wires[2]!
          + 7 * (v.wires[redPrev n i + 1]! * v.wires[3]!) + v.wires[6 + i]! ∧
      v.wires[redWiresAccs n i + 1]! = v.wires[redPrev n i]! * v.wires[3]!
          + v.wires[redPrev n i + 1]! * v.wires[2]! := Lemmas.C07.reducing_sat_iff n v

theorem reducing_pinned (n : Nat) (v v' : EvalVars K) (i comp : Nat) (hi : i < n) (hc : comp < 2)
    (hd : DiffersOnlyAt v v' (redWiresAccs n i + comp))
    (h0 : con (.reducing n) v (2 * i + comp) = 0) : con (.reducing n) v' (2 * i + comp) ≠ 0 :=
  Lemmas.C07.reducing_pinned n v v' i comp hi hc hd h0

/-- only the wire's own constraint and the pair where accumulator `i` is the previous value can
move -/
theorem reducing_others (n : Nat) (v v' : EvalVars K) (i comp : Nat) (hi : i < n) (hc : comp < 2)
    (hd : DiffersOnlyAt v v' (redWiresAccs n i + comp)) (j : Nat)
    (h1 : j ≠ 2 * i + comp) (h2 : j ≠ 2 * (i + 1)) (h3 : j ≠ 2 * (i + 1) + 1) :
    con (.reducing n) v' j = con (.reducing n) v j :=
  Lemmas.C07.reducing_others n v v' i comp hi hc hd j h1 h2 h3

theorem reducingExt_sat_iff (n : Nat) (v : EvalVars K) :
    Sat (.reducingExt n) v ↔ ∀ i, i < n →
      v.wires[redExtWiresAccs n i]! = v.wires[redExtPrev n i]! * v.wires[2]!
          + 7 * (v.wires[redExtPrev n i + 1]! * v.wires[3]!) + v.wires[6 + 2 * i]! ∧
      v.wires[redExtWiresAccs n i + 1]! = v.wires[redExtPrev n i]! * v.wires[3]!
          + v.wires[redExtPrev n i + 1]! * v.wires[2]! + v.wires[6 + 2 * i + 1]! :=
  Lemmas.C07.reducingExt_sat_iff n v

theorem reducingExt_pinned (n : Nat) (v v' : EvalVars K) (i comp : Nat) (hi : i < n)
    (hc : comp < 2) (hd : DiffersOnlyAt v v' (redExtWiresAccs n i + comp))
    (h0 : con (.reducingExt n) v (2 * i + comp) = 0) :
    con (.reducingExt n) v' (2 * i + comp) ≠ 0 :=
  Lemmas.C07.reducingExt_pinned n v v' i comp hi hc hd h0

theorem reducingExt_others (n : Nat) (v v' : EvalVars K) (i comp : Nat) (hi : i < n)
    (hc : comp < 2) (hd : DiffersOnlyAt v v' (redExtWiresAccs n i + comp)) (j : Nat)
    (h1 : j ≠ 2 * i + comp) (h2 : j ≠ 2 * (i + 1)) (h3 : j ≠ 2 * (i + 1) + 1) :
    con (.reducingExt n) v' j = con (.reducingExt n) v j :=
  Lemmas.C07.reducingExt_others n v v' i comp hi hc hd j h1 h2 h3

/-! ## T3: random-access gate `.randomAccess bits copies extra`.  Per copy `c`: constraints
`(bits+2)c + i` (`i < bits`) booleanity of bit `i`, `(bits+2)c + bits` index reconstruction,
`(bits+2)c + bits + 1` claimed element vs the mux tree; then `extra` constant constraints.

Findings.  The exact solution set is `randomAccess_sat_iff` (no condition on the characteristic).
The claimed element is pinned unconditionally.  A bit wire `i` is pinned by the index constraint iff
`(2:K)^i ≠ 0`; in characteristic 2 C07's replacement clause is false for bit wires `i ≥ 1`
(`randomAccess_bit_not_pinned_char2`: two satisfying rows over `ZMod 2` differing in one bit wire).
Over Goldilocks `2 ≠ 0`. -/

/-- (a) and its converse: the satisfying rows are exactly those where, per copy, the access index
is some `k < 2^bits`, the bit wires are the binary digits of `k`, the claimed element is list item
`k`, and the extra-constant wires equal the constants -/
theorem randomAccess_sat_iff (bits copies extra : Nat) (v : EvalVars K) :
    Sat (.randomAccess bits copies extra) v ↔
      (∀ c, c < copies → ∃ k : ℕ, k < 2 ^ bits ∧
        v.wires[raWireAccessIndex bits c]! = (k : K) ∧
        (∀ i, i < bits → v.wires[raWireBit bits copies extra i c]! = ((k / 2 ^ i % 2 : ℕ) : K)) ∧
        v.wires[raWireClaimedElement bits c]! = v.wires[raWireListItem bits k c]!) ∧
      ∀ i, i < extra → v.wires[raWireExtraConstant bits copies i]! = v.constants[i]! :=
  Lemmas.C07.randomAccess_sat_iff bits copies extra v

/-- (b) the claimed element of copy `c` is pinned by the mux constraint -/
theorem randomAccess_pinned_claimed (bits copies extra : Nat) (v v' : EvalVars K) (c : Nat)
    (hc : c < copies) (hd : DiffersOnlyAt v v' (raWireClaimedElement bits c))
    (h0 : con (.randomAccess bits copies extra) v ((bits + 2) * c + bits + 1) = 0) :
    con (.randomAccess bits copies extra) v' ((bits + 2) * c + bits + 1) ≠ 0 :=
  Lemmas.C07.randomAccess_pinned_claimed bits copies extra v v' c hc hd h0

/-- (b) bit wire `i` of copy `c` is pinned by the index constraint, provided `2 ≠ 0` in `K`
(or `i = 0`) -/
theorem randomAccess_pinned_bit (bits copies extra : Nat) (v v' : EvalVars K) (c i : Nat)
    (hc : c < copies) (hi : i < bits) (h2 : (2 : K) ≠ 0 ∨ i = 0)
    (hd : DiffersOnlyAt v v' (raWireBit bits copies extra i c))
    (h0 : con (.randomAccess bits copies extra) v ((bits + 2) * c + bits) = 0) :
    con (.randomAccess bits copies extra) v' ((bits + 2) * c + bits) ≠ 0 :=
  Lemmas.C07.randomAccess_pinned_bit' bits copies extra v v' c i hc hi h2 hd h0

/-- the side condition is necessary: over `ZMod 2`, `bits = 2`, one copy, bit wire 1 (= wire 7) -/
theorem randomAccess_bit_not_pinned_char2 :
    raWireBit 2 1 0 1 0 = 7 ∧ DiffersOnlyAt raC2Row raC2Row' (raWireBit 2 1 0 1 0) ∧
      Sat (.randomAccess 2 1 0) raC2Row ∧ Sat (.randomAccess 2 1 0) raC2Row' :=
  Lemmas.C07.randomAccess_bit_not_pinned_char2

/-- (c) -/
theorem randomAccess_others_claimed (bits copies extra : Nat) (v v' : EvalVars K) (c : Nat)
    (hc : c < copies) (hd : DiffersOnlyAt v v' (raWireClaimedElement bits c)) (j : Nat)
    (hj : j ≠ (bits + 2) * c + bits + 1) :
    con (.randomAccess bits copies extra) v' j = con (.randomAccess bits copies extra) v j :=
  Lemmas.C07.randomAccess_others_claimed bits copies extra v v' c hc hd j hj

theorem randomAccess_others_bit (bits copies extra : Nat) (v v' : EvalVars K) (c i : Nat)
    (hi : i < bits) (hd : DiffersOnlyAt v v' (raWireBit bits copies extra i c)) (j : Nat)
    (h1 : j ≠ (bits + 2) * c + i) (h2 : j ≠ (bits + 2) * c + bits)
    (h3 : j ≠ (bits + 2) * c + bits + 1) :
    con (.randomAccess bits copies extra) v' j = con (.randomAccess bits copies extra) v j :=
  Lemmas.C07.randomAccess_others_bit bits copies extra v v' c i hi hd j h1 h2 h3

/-! ## extra: Poseidon-MDS gate (inputs: 12 algebra elements at wires `2i, 2i+1`; outputs at
`2(12+i), 2(12+i)+1`, constraints `2i, 2i+1`).  `mdsOut v i` is `mds_row_shf_algebra(i, inputs)`
(`mdsRowShfAlg`) computed from wires `< 24`. -/

theorem poseidonMds_sat_iff (v : EvalVars K) :
    Sat .poseidonMds v ↔ ∀ i, i < 12 →
      v.wires[2 * (12 + i)]! = (mdsOut v i).1 ∧ v.wires[2 * (12 + i) + 1]! = (mdsOut v i).2 :=
  Lemmas.C07.poseidonMds_sat_iff v

theorem poseidonMds_pinned (v v' : EvalVars K) (i r : Nat) (hi : i < 12) (hr : r < 2)
    (hd : DiffersOnlyAt v v' (2 * (12 + i) + r)) (h0 : con .poseidonMds v (2 * i + r) = 0) :
    con .poseidonMds v' (2 * i + r) ≠ 0 := Lemmas.C07.poseidonMds_pinned v v' i r hi hr hd h0

theorem poseidonMds_others (v v' : EvalVars K) (i r : Nat) (hr : r < 2)
    (hd : DiffersOnlyAt v v' (2 * (12 + i) + r)) (j : Nat) (hj : j ≠ 2 * i + r) :
    con .poseidonMds v' j = con .poseidonMds v j :=
  Lemmas.C07.poseidonMds_others v v' i r hr hd j hj

end Gates

/-! ## the model's generators over Goldilocks: `GateKind.generate` produces satisfying rows, and
both halves of C07 on the model's own generated row (`C07On`) -/

section OverGL
attribute [local instance] glField

/-- on `GL` the executable evaluator is `evalF` (so every field-level theorem above applies to the
model's own `evalUnfiltered`) -/
theorem evalGL_eq_evalF :
    (∀ n v, (GateKind.arithmetic n).evalUnfiltered (K := P2.GL) v = evalF (.arithmetic n) v) ∧
    (∀ n v, (GateKind.arithmeticExt n).evalUnfiltered (K := P2.GL) v = evalF (.arithmeticExt n) v) ∧
    (∀ n v, (GateKind.mulExt n).evalUnfiltered (K := P2.GL) v = evalF (.mulExt n) v) ∧
    (∀ b l v, (GateKind.baseSum b l).evalUnfiltered (K := P2.GL) v = evalF (.baseSum b l) v) ∧
    (∀ n v, (GateKind.constant n).evalUnfiltered (K := P2.GL) v = evalF (.constant n) v) ∧
    (∀ n v, (GateKind.exponentiation n).evalUnfiltered (K := P2.GL) v
      = evalF (.exponentiation n) v) ∧
    (∀ v, GateKind.publicInput.evalUnfiltered (K := P2.GL) v = evalF .publicInput v) ∧
    (∀ b c e v, (GateKind.randomAccess b c e).evalUnfiltered (K := P2.GL) v
      = evalF (.randomAccess b c e) v) ∧
    (∀ n v, (GateKind.reducing n).evalUnfiltered (K := P2.GL) v = evalF (.reducing n) v) ∧
    (∀ n v, (GateKind.reducingExt n).evalUnfiltered (K := P2.GL) v = evalF (.reducingExt n) v) :=
  ⟨evalGL_arithmetic, evalGL_arithmeticExt, evalGL_mulExt, evalGL_baseSum, evalGL_constant,
    evalGL_exponentiation, evalGL_publicInput, evalGL_randomAccess, evalGL_reducing,
    evalGL_reducingExt⟩

theorem arithmetic_generate_sat (n : Nat) (consts wires pih : Array P2.GL) :
    ∀ c ∈ (GateKind.arithmetic n).evalUnfiltered (genRow (.arithmetic n) consts wires pih),
      c = 0 := Lemmas.C07.arithmetic_generate_sat n consts wires pih

theorem arithmeticExt_generate_sat (n : Nat) (consts wires pih : Array P2.GL) :
    ∀ c ∈ (GateKind.arithmeticExt n).evalUnfiltered (genRow (.arithmeticExt n) consts wires pih),
      c = 0 := Lemmas.C07.arithmeticExt_generate_sat n consts wires pih

theorem mulExt_generate_sat (n : Nat) (consts wires pih : Array P2.GL) :
    ∀ c ∈ (GateKind.mulExt n).evalUnfiltered (genRow (.mulExt n) consts wires pih), c = 0 :=
  Lemmas.C07.mulExt_generate_sat n consts wires pih

/-- contract: the canonical value of the sum wire is `< b^l` -/
theorem baseSum_generate_sat (b l : Nat) (consts wires pih : Array P2.GL)
    (hs : ((wires ++ Array.replicate (1 + l - wires.size) 0)[0]!).val < b ^ l) :
    ∀ c ∈ (GateKind.baseSum b l).evalUnfiltered (genRow (.baseSum b l) consts wires pih), c = 0 :=
  Lemmas.C07.baseSum_generate_sat b l consts wires pih hs

/-- over `GL` with `b^l ≤ p` the limbs of a satisfying row are unique -/
theorem baseSum_sat_unique_GL (b l : Nat) (hbl : b ^ l ≤ GLP) (v : EvalVars P2.GL)
    (hs : (v.wires[0]!).val < b ^ l) (hsat : Sat (.baseSum b l) v) :
    ∀ i, i < l → v.wires[1 + i]! = ((((v.wires[0]!).val / b ^ i) % b : ℕ) : P2.GL) :=
  Lemmas.C07.baseSum_sat_unique_GL b l hbl v hs hsat

/-- contract: power bits boolean -/
theorem exponentiation_generate_sat (n : Nat) (consts wires pih : Array P2.GL)
    (hb : ∀ i, i < n → wires[1 + i]! = 0 ∨ wires[1 + i]! = 1) :
    ∀ c ∈ (GateKind.exponentiation n).evalUnfiltered (genRow (.exponentiation n) consts wires pih),
      c = 0 := Lemmas.C07.exponentiation_generated_sat n consts wires pih hb

/-- end to end: the generator writes `base ^ exponent` into the output column -/
theorem exponentiation_generate_value (n : Nat) (hn : 1 ≤ n) (consts wires : Array P2.GL)
    (hb : ∀ i, i < n → wires[1 + i]! = 0 ∨ wires[1 + i]! = 1) :
    ((GateKind.exponentiation n).generate consts wires)[1 + n]! =
      wires[0]! ^ (∑ j ∈ Finset.range n, (if wires[1 + j]! = 1 then 1 else 0) * 2 ^ j) :=
  Lemmas.C07.exponentiation_generated_value n hn consts wires hb

theorem reducing_generate_sat (n : Nat) (consts wires pih : Array P2.GL) :
    ∀ c ∈ (GateKind.reducing n).evalUnfiltered (genRow (.reducing n) consts wires pih), c = 0 :=
  Lemmas.C07.reducing_gen_sat n consts wires pih

theorem reducingExt_generate_sat (n : Nat) (consts wires pih : Array P2.GL) :
    ∀ c ∈ (GateKind.reducingExt n).evalUnfiltered (genRow (.reducingExt n) consts wires pih),
      c = 0 := Lemmas.C07.reducingExt_gen_sat n consts wires pih

/-- contracts: every access index `< 2^bits`; the extra-constant wires (not written by this
generator) already hold the constants.  `raPad` is the zero-padded input row. -/
theorem randomAccess_generate_sat (bits copies extra : Nat) (consts wires pih : Array P2.GL)
    (hacc : ∀ c, c < copies →
      ((raPad bits copies extra wires)[raWireAccessIndex bits c]!).val < 2 ^ bits)
    (hextra : ∀ i, i < extra →
      (raPad bits copies extra wires)[raWireExtraConstant bits copies i]! = consts[i]!) :
    ∀ c ∈ (GateKind.randomAccess bits copies extra).evalUnfiltered
        (genRow (.randomAccess bits copies extra) consts wires pih), c = 0 :=
  Lemmas.C07.randomAccess_generate_sat bits copies extra consts wires pih hacc hextra

theorem raPad_eq (bits copies extra : Nat) (wires : Array P2.GL) :
    raPad bits copies extra wires =
      wires ++ Array.replicate ((GateKind.randomAccess bits copies extra).numWires - wires.size) 0 :=
  rfl

/-! ### C07 on the model's own generated row -/

theorem arithmetic_C07On (n : Nat) (consts wires pih : Array P2.GL) :
    C07On (.arithmetic n) consts wires pih := Lemmas.C07.arithmetic_C07On n consts wires pih

theorem arithmeticExt_C07On (n : Nat) (consts wires pih : Array P2.GL) :
    C07On (.arithmeticExt n) consts wires pih := Lemmas.C07.arithmeticExt_C07On n consts wires pih

theorem mulExt_C07On (n : Nat) (consts wires pih : Array P2.GL) :
    C07On (.mulExt n) consts wires pih := Lemmas.C07.mulExt_C07On n consts wires pih

/-- base-sum gate: contract `sum < b^l`; side condition `l ≤ 1 ∨ ¬ p ∣ b` (i.e. `(b : GL) ≠ 0`
whenever a limb of index `≥ 1` exists) -/
theorem baseSum_C07On (b l : Nat) (consts wires pih : Array P2.GL)
    (hb : l ≤ 1 ∨ ¬ GLP ∣ b)
    (hs : ((wires ++ Array.replicate (1 + l - wires.size) 0)[0]!).val < b ^ l) :
    C07On (.baseSum b l) consts wires pih := Lemmas.C07.baseSum_C07On b l consts wires pih hb hs

/-- in particular for every base `0 < b < p` -/
theorem baseSum_C07On' (b l : Nat) (consts wires pih : Array P2.GL) (hb : 0 < b) (hbp : b < GLP)
    (hs : ((wires ++ Array.replicate (1 + l - wires.size) 0)[0]!).val < b ^ l) :
    C07On (.baseSum b l) consts wires pih :=
  Lemmas.C07.baseSum_C07On' b l consts wires pih hb hbp hs

/-- … and the side condition is necessary: for a base divisible by `p` and at least two limbs C07
FAILS on the generated row (the sum constraint is blind to limb 1 and every field element passes
the range check `∏_{e<b}(x − e)`) -/
theorem baseSum_C07On_fails (b l : Nat) (consts wires pih : Array P2.GL)
    (hl : 2 ≤ l) (hdvd : GLP ∣ b)
    (hs : ((wires ++ Array.replicate (1 + l - wires.size) 0)[0]!).val < b ^ l) :
    ¬ C07On (.baseSum b l) consts wires pih :=
  Lemmas.C07.baseSum_C07On_fails b l consts wires pih hl hdvd hs

example : C07On (.baseSum 2 3) #[] #[5] #[] :=
  Lemmas.C07.baseSum_C07On' 2 3 #[] #[5] #[] (by decide) (by decide) (by decide)

/-- exponentiation gate, every `n`; contract: power bits boolean -/
theorem exponentiation_C07On (n : Nat) (consts wires pih : Array P2.GL)
    (hb : ∀ i, i < n → wires[1 + i]! = 0 ∨ wires[1 + i]! = 1) :
    C07On (.exponentiation n) consts wires pih :=
  Lemmas.C07.exponentiation_C07On n consts wires pih hb

theorem reducing_C07On (n : Nat) (consts wires pih : Array P2.GL) :
    C07On (.reducing n) consts wires pih := Lemmas.C07.reducing_C07On n consts wires pih

theorem reducingExt_C07On (n : Nat) (consts wires pih : Array P2.GL) :
    C07On (.reducingExt n) consts wires pih := Lemmas.C07.reducingExt_C07On n consts wires pih

/-- random-access gate; contracts as in `randomAccess_generate_sat` -/
theorem randomAccess_C07On (bits copies extra : Nat) (consts wires pih : Array P2.GL)
    (hacc : ∀ c, c < copies →
      ((raPad bits copies extra wires)[raWireAccessIndex bits c]!).val < 2 ^ bits)
    (hextra : ∀ i, i < extra →
      (raPad bits copies extra wires)[raWireExtraConstant bits copies i]! = consts[i]!) :
    C07On (.randomAccess bits copies extra) consts wires pih :=
  Lemmas.C07.randomAccess_C07On bits copies extra consts wires pih hacc hextra

example : C07On (.exponentiation 2) #[] #[3, 1, 1] #[] :=
  Lemmas.C07.exponentiation_C07On 2 #[] #[3, 1, 1] #[] (by decide)

example : C07On (.randomAccess 2 1 1) #[5] #[2, 0, 10, 11, 12, 13, 5] #[] :=
  Lemmas.C07.randomAccess_C07On 2 1 1 #[5] #[2, 0, 10, 11, 12, 13, 5] #[] (by decide) (by decide)

theorem poseidonMds_generate_sat (consts wires pih : Array P2.GL) :
    ∀ c ∈ GateKind.poseidonMds.evalUnfiltered (genRow .poseidonMds consts wires pih), c = 0 :=
  Lemmas.C07.poseidonMds_generate_sat consts wires pih

theorem poseidonMds_C07On (consts wires pih : Array P2.GL) :
    C07On .poseidonMds consts wires pih := Lemmas.C07.poseidonMds_C07On consts wires pih

/-- T5 (in general form rather than one `decide`d row): `PoseidonGenerator` — the row produced by
`genPoseidon` satisfies all 123 constraints of the Poseidon gate, for every input row whose swap
wire is boolean (the gate's contract), directly for the model's executable evaluator -/
theorem poseidon_generate_sat (consts wires pih : Array P2.GL)
    (hswap : let ws := wires ++ Array.replicate (GateKind.poseidon.numWires - wires.size) 0
      ws[posWireSwap]! = 0 ∨ ws[posWireSwap]! = 1) :
    ∀ c ∈ GateKind.poseidon.evalUnfiltered
      (⟨consts, GateKind.poseidon.generate consts wires, pih⟩ : EvalVars P2.GL), c = 0 :=
  Lemmas.C07.poseidon_generate_sat consts wires pih hswap

/-- non-vacuity: the all-zero input row (swap = 0) meets the contract -/
example : ∀ c ∈ GateKind.poseidon.evalUnfiltered
    (⟨#[], GateKind.poseidon.generate #[] #[], #[]⟩ : EvalVars P2.GL), c = 0 :=
  Lemmas.C07.poseidon_generate_sat #[] #[] #[] (by
    intro ws
    left
    have h : GateKind.poseidon.numWires = 135 := rfl
    simp [ws, posWireSwap, spongeWidth, Gen.SPONGE_RATE, Gen.SPONGE_CAPACITY, h])

end OverGL

/-! ## T4: degrees.  Semantic notion: `DegLE d f` = "`f : K → K` is a polynomial function of degree
`≤ d`"; `Line V` = "`V : K → EvalVars K` is a family of rows in which every wire, constant and
public-input-hash entry is a polynomial of degree ≤ 1 in the parameter".  A polynomial in many
variables has total degree `≤ d` iff its restriction to every line has degree `≤ d` (large fields),
so "`t ↦ con g (V t) i` is `DegLE g.degree` for every line `V`" says constraint `i` has degree at
most the declared one.  Side conditions (`DegreeOK`): `1 ≤ base` for `baseSum`, `2 ≤ degree` for
`cosetInterpolation` — both necessary (`baseSum_zero_degree_fails`,
`cosetInterpolation_low_degree_fails`); the Rust constructors exclude them
(`CosetInterpolationGate::with_max_degree` asserts `max_degree > 1`; base 0 is degenerate). -/

section Degrees
variable {K : Type} [Field K] [DecidableEq K] [Inhabited K]

/-- every constraint of every gate kind has degree at most `GateKind.degree` along every line -/
theorem gate_degree (g : GateKind) (hg : DegreeOK g) (V : K → EvalVars K) (hV : Line V) (i : Nat) :
    DegLE g.degree (fun t => con g (V t) i) := Lemmas.C07.gate_degree g hg V hV i

theorem degreeOK_iff (g : GateKind) : DegreeOK g ↔
    match g with
    | .baseSum b _ => 1 ≤ b
    | .cosetInterpolation _ d _ => 2 ≤ d
    | _ => True := by
  cases g <;> exact Iff.rfl

theorem arithmetic_degree (V : K → EvalVars K) (hV : Line V) (n i : Nat) :
    DegLE 3 (fun t => con (.arithmetic n) (V t) i) := Lemmas.C07.arithmetic_degree V hV n i

theorem constant_degree (V : K → EvalVars K) (hV : Line V) (n i : Nat) :
    DegLE 1 (fun t => con (.constant n) (V t) i) := Lemmas.C07.constant_degree V hV n i

theorem publicInput_degree (V : K → EvalVars K) (hV : Line V) (i : Nat) :
    DegLE 1 (fun t => con .publicInput (V t) i) := Lemmas.C07.publicInput_degree V hV i

theorem arithmeticExt_degree (V : K → EvalVars K) (hV : Line V) (n i : Nat) :
    DegLE 3 (fun t => con (.arithmeticExt n) (V t) i) := Lemmas.C07.arithmeticExt_degree V hV n i

theorem mulExt_degree (V : K → EvalVars K) (hV : Line V) (n i : Nat) :
    DegLE 3 (fun t => con (.mulExt n) (V t) i) := Lemmas.C07.mulExt_degree V hV n i

theorem baseSum_degree (V : K → EvalVars K) (hV : Line V) (b l : Nat) (hb : 1 ≤ b) (i : Nat) :
    DegLE b (fun t => con (.baseSum b l) (V t) i) := Lemmas.C07.baseSum_degree V hV b l hb i

/-- the notion is not vacuous: over an infinite field `t ↦ t²` is not of degree ≤ 1 … -/
theorem degLE_not_sq [Infinite K] : ¬ DegLE 1 (fun t : K => t ^ 2) := DegLE.not_sq

/-- … lines exist through every row (`affineRow`: entry `(a, b)` moves as `a + t·b`), scaling a row
is a line … -/
theorem affineRow_line (cs ws ps : Array (K × K)) : Line (affineRow cs ws ps) :=
  Lemmas.C07.affineRow_line cs ws ps

theorem scale_line (v : EvalVars K) :
    Line (fun t => (⟨v.constants.map (t * ·), v.wires.map (t * ·), v.pih.map (t * ·)⟩ : EvalVars K)) :=
  Lemmas.C07.scale_line v

/-- … and the declared degree 3 of the arithmetic gate is attained -/
theorem arithmetic_degree_tight [Infinite K] :
    ∃ V : K → EvalVars K, Line V ∧ ¬ DegLE 2 (fun t => con (.arithmetic 1) (V t) 0) :=
  Lemmas.C07.arithmetic_degree_tight

/-- base 0: declared degree 0, but the sum constraint has degree 1 -/
theorem baseSum_zero_degree_fails :
    ∃ V : K → EvalVars K, Line V ∧
      ¬ DegLE (GateKind.baseSum 0 1).degree (fun t => con (.baseSum 0 1) (V t) 0) :=
  Lemmas.C07.baseSum_zero_degree_fails

/-- coset interpolation with declared degree 1: the first constraint
`evaluation_point − shifted·shift` is quadratic -/
theorem cosetInterpolation_low_degree_fails [Infinite K] :
    ∃ V : K → EvalVars K, Line V ∧
      ¬ DegLE (GateKind.cosetInterpolation 0 1 []).degree
        (fun t => con (.cosetInterpolation 0 1 []) (V t) 0) :=
  Lemmas.C07.cosetInterpolation_low_degree_fails

end Degrees

/-! ## non-vacuity: concrete rows over `ℚ` meeting the hypotheses of the theorems above
(more in the `P2/Lemmas/C07*.lean` files: exponentiation, base-sum, random-access rows) -/

section Examples

/-- T0 on a concrete row: constraint `w_2 − w_0·w_1`, row `(2, 3, 6)`, replace `w_2` by 7 -/
example : ((#[2, 3, 6] : Array ℚ).set! 2 7)[2]! -
    (fun ws : Array ℚ => ws[0]! * ws[1]!) ((#[2, 3, 6] : Array ℚ).set! 2 7) ≠ 0 :=
  replace_pins_sub (#[2, 3, 6] : Array ℚ) 2 (by simp) (fun ws => ws[0]! * ws[1]!)
    (fun x => by
      show ((#[2, 3, 6] : Array ℚ).set! 2 x)[0]! * ((#[2, 3, 6] : Array ℚ).set! 2 x)[1]! = _
      rw [getElem!_set!_ne _ _ _ _ (by decide), getElem!_set!_ne _ _ _ _ (by decide)])
    (by norm_num) 7 (by norm_num)

/-- arithmetic gate, one operation, constants (2, 3): `5·7·2 + 11·3 = 103` -/
example : Sat (.arithmetic 1) (⟨#[2, 3], #[5, 7, 11, 103], #[]⟩ : EvalVars ℚ) := by
  rw [arithmetic_sat_iff]
  intro i hi
  obtain rfl : i = 0 := by omega
  norm_num

/-- … and the hypotheses of the pinning theorem are met by replacing the output by 104 -/
example :
    con (.arithmetic 1) (setW (⟨#[2, 3], #[5, 7, 11, 103], #[]⟩ : EvalVars ℚ) 3 104) 0 ≠ 0 := by
  apply arithmetic_pinned 1 _ _ 0 (by omega)
  · exact setW_differs _ 3 104 (by simp) (by norm_num)
  · rw [arithmetic_con]; norm_num

/-- arithmetic-extension gate: `(1+2X)(3+4X)·1 + (5+6X)·2 = 69 + 22X` modulo `X² − 7` -/
example : Sat (.arithmeticExt 1) (⟨#[1, 2], #[1, 2, 3, 4, 5, 6, 69, 22], #[]⟩ : EvalVars ℚ) := by
  rw [arithmeticExt_sat_iff]
  intro i hi
  obtain rfl : i = 0 := by omega
  simp [arithExtGen, arithExtOut]; norm_num

/-- multiplication-extension gate: `(1+2X)(3+4X)·2 = 118 + 20X` -/
example : Sat (.mulExt 1) (⟨#[2], #[1, 2, 3, 4, 118, 20], #[]⟩ : EvalVars ℚ) := by
  rw [mulExt_sat_iff]
  intro i hi
  obtain rfl : i = 0 := by omega
  simp [mulExtGen]; norm_num

example : Sat (.constant 2) (⟨#[4, 9], #[4, 9], #[]⟩ : EvalVars ℚ) := by
  rw [constant_sat_iff]; intro i hi; interval_cases i <;> simp

example : Sat .publicInput (⟨#[], #[1, 2, 3, 4], #[1, 2, 3, 4]⟩ : EvalVars ℚ) := by
  rw [publicInput_sat_iff]; intro i hi; interval_cases i <;> simp

end Examples

end P2.Props.C07
