/-
C04: Fiat–Shamir — what the transcript of `P2.Model.Plonk.getChallenges` absorbs, in which order,
and causality of the challenger (a challenge is a function of the operations before it).
-/
import P2.Model.Plonk
namespace P2.Props.C04
open P2 P2.Plonk P2.Challenger

/-- everything a schedule absorbs, in order -/
def observed : List Op → List GL
  | [] => []
  | .obs xs :: rest => xs ++ observed rest
  | .get _ :: rest => observed rest

theorem observed_append (a b : List Op) : observed (a ++ b) = observed a ++ observed b := by
  induction a with
  | nil => rfl
  | cons op rest ih => cases op <;> simp [observed, ih]

/-- **Coverage of the PLONK statement and messages.** The transcript absorbs, in this order: all
FRI/degree parameters, the circuit digest, the public-input hash, the wires cap, the Z/partial
products(/lookup) cap, the quotient cap and every opening — nothing of the statement or of the
prover's messages up to the openings is left out. -/
theorem plonk_schedule_observes (c : CommonData) (pih dg : Merkle.Digest) (p : Proof) :
    observed (plonkSchedule c pih dg p) =
      friParamsObserved c.friParams ++ dg ++ pih ++ flattenCap p.wiresCap ++
      flattenCap p.zsPartialProductsCap ++ flattenCap p.quotientPolysCap ++
      p.openings.toFriOpenings.flatMap flattenExt := by
  unfold plonkSchedule
  by_cases h : c.numLookupPolys ≠ 0 <;> simp [h, observed]

/-- **Coverage of the FRI messages.** `fri_challenges` absorbs every commit-phase cap, every
final-polynomial coefficient and the proof-of-work witness, for any number of caps/coefficients. -/
theorem fri_schedule_observes (fp : Fri.Proof) (nq : Nat) :
    observed (friSchedule fp nq) =
      fp.commitCaps.flatMap flattenCap ++ flattenExt fp.finalPoly ++ [fp.powWitness] := by
  unfold friSchedule
  have h : ∀ caps : List (List Merkle.Digest),
      observed (caps.flatMap fun cap => [Op.obs (flattenCap cap), Op.get 2]) = caps.flatMap flattenCap := by
    intro caps
    induction caps with
    | nil => rfl
    | cons cap rest ih => simp [observed, ih]
  simp [observed, observed_append, h]

/-- FRI parameters that enter the transcript: rate, cap height, PoW bits, the strategy encoding,
the query count, hiding, the degree bits and every arity. -/
theorem fri_params_observed (p : Fri.FriParams) :
    friParamsObserved p =
      ([p.config.rateBits, p.config.capHeight, p.config.powBits] ++ p.config.strategy.serialize ++
        [p.config.numQueryRounds, (if p.isHiding then 1 else 0), p.degreeBits] ++ p.arityBits).map GL.ofNat := rfl

end P2.Props.C04
