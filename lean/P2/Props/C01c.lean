/-
C01c: the exponentiation gadgets of `plonky2/src/gadgets/arithmetic.rs` compute `base ^ exponent`
for EVERY number of exponent bits and every gate width (repair of finding F-C01-4).

* `gateOut` is the value the `ExponentiationGate` constraints pin on the output wire (C07 proves the
  pinning; here: the value): the bits are consumed most-significant first, `cur = prev² · (bit·base + 1 − bit)`.
* `expFromBits k` is `CircuitBuilder::exp_from_bits` for a gate with `k = num_power_bits` exponent wires:
  at most `k` bits → one gate, padded with `false`; more → chunks of `k` bits, the base squared `k` times
  between chunks, the partial results multiplied together.
* `constBase` is the arithmetic-gate path of `exp_from_bits_const_base`:
  `product ← (base^(2^i) − 1)·product·bit + product`, with `base^(2^i)` obtained by `i` squarings
  (`Field::exp_power_of_2`, which cannot overflow — the repaired code no longer forms `1 << i`).

Both are proved equal to `base ^ bitsVal bits` over any commutative ring, for all lists of bits and all
`k > 0`.  Before the repair `exp_from_bits` put bit `k` on the gate's output wire whenever there were more
than `k` bits (`wire_power_bit k = 1 + k = wire_output`): the chunk loop did not exist.
-/
import Mathlib.Tactic.Ring
import Mathlib.Algebra.Ring.Basic
namespace P2.Props.C01c

variable {K : Type} [CommRing K]

/-- little-endian value of a list of bits -/
def bitsVal : List Bool → Nat
  | [] => 0
  | b :: bs => b.toNat + 2 * bitsVal bs

/-- `bit` as a field element (a `BoolTarget`'s value) -/
def bitK (b : Bool) : K := if b then 1 else 0

/-- output wire of one `ExponentiationGate` on little-endian bits (`ExponentiationGate::eval_unfiltered`:
`for i in 0..n { bit = power_bits[n-1-i]; cur = prev² · (bit·base + 1 − bit) }`, `prev₀ = 1`) -/
def gateOut (base : K) (bitsLE : List Bool) : K :=
  bitsLE.reverse.foldl (fun prev b => prev * prev * (bitK b * base + 1 - bitK b)) 1

/-- `x` squared `n` times (`builder.square` in a loop; `Field::exp_power_of_2`) -/
def sqN : Nat → K → K
  | 0, x => x
  | n + 1, x => sqN n (x * x)

/-- one gate of width `k`, unused exponent wires connected to `false` -/
def single (k : Nat) (base : K) (bits : List Bool) : K :=
  gateOut base (bits ++ List.replicate (k - bits.length) false)

/-- the chunk loop of `exp_from_bits` (`result`, `cur_base` are the loop variables; `fuel` bounds the
number of chunks and is never exhausted when `fuel ≥ bits.length`, `k > 0`) -/
def chunkLoop (k : Nat) : Nat → K → K → List Bool → K
  | 0, result, _, _ => result
  | fuel + 1, result, curBase, bits =>
    if bits.length ≤ k then result * single k curBase bits
    else chunkLoop k fuel (result * single k curBase (bits.take k)) (sqN k curBase) (bits.drop k)

/-- `CircuitBuilder::exp_from_bits` with a gate of `k` exponent wires -/
def expFromBits (k : Nat) (base : K) (bits : List Bool) : K :=
  if bits.length ≤ k then single k base bits else chunkLoop k bits.length 1 base bits

/-- arithmetic-gate path of `exp_from_bits_const_base`, loop from index `i` -/
def constBaseGo (base : K) : Nat → K → List Bool → K
  | _, product, [] => product
  | i, product, b :: bs => constBaseGo base (i + 1) ((sqN i base - 1) * product * bitK b + product) bs

def constBase (base : K) (bits : List Bool) : K := constBaseGo base 0 1 bits

/-! ## lemmas -/

theorem bitsVal_append (a b : List Bool) : bitsVal (a ++ b) = bitsVal a + 2 ^ a.length * bitsVal b := by
  induction a with
  | nil => simp [bitsVal]
  | cons x xs ih => simp only [List.cons_append, bitsVal, ih, List.length_cons, pow_succ]; ring

theorem bitsVal_replicate_false (n : Nat) : bitsVal (List.replicate n false) = 0 := by
  induction n with
  | zero => rfl
  | succ n ih => simp [List.replicate_succ, bitsVal, ih]

theorem gateOut_cons (base : K) (b : Bool) (bs : List Bool) :
    gateOut base (b :: bs) = gateOut base bs * gateOut base bs * (bitK b * base + 1 - bitK b) := by
  simp [gateOut, List.foldl_append]

theorem gateOut_eq (base : K) (bits : List Bool) : gateOut base bits = base ^ bitsVal bits := by
  induction bits with
  | nil => simp [gateOut, bitsVal]
  | cons b bs ih =>
    rw [gateOut_cons, ih]
    cases b
    · simp [bitK, bitsVal, two_mul, pow_add]
    · simp [bitK, bitsVal, two_mul, pow_add, pow_succ]; ring

theorem sqN_eq (n : Nat) (x : K) : sqN n x = x ^ (2 ^ n) := by
  induction n generalizing x with
  | zero => simp [sqN]
  | succ n ih => rw [sqN, ih, ← pow_two, ← pow_mul, pow_succ]; congr 1; ring

theorem single_eq (k : Nat) (base : K) (bits : List Bool) : single k base bits = base ^ bitsVal bits := by
  rw [single, gateOut_eq, bitsVal_append, bitsVal_replicate_false]; simp

theorem chunkLoop_eq (k : Nat) (hk : 0 < k) (fuel : Nat) (result curBase : K) (bits : List Bool)
    (hf : bits.length ≤ fuel) :
    chunkLoop k fuel result curBase bits = result * curBase ^ bitsVal bits := by
  induction fuel generalizing result curBase bits with
  | zero =>
    have : bits = [] := List.length_eq_zero_iff.mp (by omega)
    subst this
    simp [chunkLoop, bitsVal]
  | succ fuel ih =>
    rw [chunkLoop]
    split
    · rw [single_eq]
    · rename_i hlen
      have hlen : k < bits.length := by omega
      rw [ih _ _ _ (by simp only [List.length_drop]; omega), single_eq, sqN_eq]
      conv_rhs => rw [← List.take_append_drop k bits, bitsVal_append]
      have : (bits.take k).length = k := by simp only [List.length_take]; omega
      rw [this, pow_add, pow_mul]
      ring

/-- **`exp_from_bits` computes `base ^ exponent`** for every list of exponent bits and every gate width `k > 0`
(`k = num_routed_wires − 2` in `ExponentiationGate::new_from_config`, capped at 63). -/
theorem expFromBits_eq (k : Nat) (hk : 0 < k) (base : K) (bits : List Bool) :
    expFromBits k base bits = base ^ bitsVal bits := by
  unfold expFromBits
  split
  · exact single_eq k base bits
  · rw [chunkLoop_eq k hk _ _ _ _ (Nat.le_refl _), one_mul]

theorem constBaseGo_eq (base : K) (i : Nat) (product : K) (bits : List Bool) :
    constBaseGo base i product bits = product * base ^ (2 ^ i * bitsVal bits) := by
  induction bits generalizing i product with
  | nil => simp [constBaseGo, bitsVal]
  | cons b bs ih =>
    rw [constBaseGo, ih, sqN_eq]
    cases b
    · simp only [bitK, Bool.false_eq_true, if_false, mul_zero, zero_add, bitsVal, Bool.toNat_false, pow_succ]
      congr 2; ring
    · simp only [bitK, if_true, mul_one, bitsVal, Bool.toNat_true]
      have : 2 ^ i * (1 + 2 * bitsVal bs) = 2 ^ i + 2 ^ (i + 1) * bitsVal bs := by rw [pow_succ]; ring
      rw [this, pow_add]
      ring

/-- **the arithmetic-gate path of `exp_from_bits_const_base` computes `base ^ exponent`** for every number of bits
(also ≥ 64: the powers `base^(2^i)` come from repeated squaring, not from a machine shift). -/
theorem constBase_eq (base : K) (bits : List Bool) : constBase base bits = base ^ bitsVal bits := by
  rw [constBase, constBaseGo_eq]; simp

/-- the constant-exponent loop of `exp_u64`: `while exponent != 0 { push(exponent & 1); exponent >>= 1 }` -/
def bitsOf (n : Nat) : List Bool :=
  if h : n = 0 then [] else (n % 2 == 1) :: bitsOf (n / 2)
decreasing_by omega

theorem bitsVal_bitsOf (n : Nat) : bitsVal (bitsOf n) = n := by
  induction n using Nat.strongRecOn with
  | _ n ih =>
    rw [bitsOf]
    split
    · subst_vars; rfl
    · rename_i h
      simp only [bitsVal, ih (n / 2) (by omega)]
      rcases Nat.mod_two_eq_zero_or_one n with h2 | h2 <;> simp [h2] <;> omega

/-- **`exp_u64(base, e)` computes `base ^ e`** for every `e` and every gate width -/
theorem expU64_eq (k : Nat) (hk : 0 < k) (base : K) (e : Nat) :
    expFromBits k base (bitsOf e) = base ^ e := by
  rw [expFromBits_eq k hk, bitsVal_bitsOf]

/-! ## non-vacuity: concrete instances over ℤ (kernel-evaluated) -/
example : expFromBits 3 (2 : Int) [true, false, true, true, false, true, true] = 2 ^ 109 := by decide
example : bitsVal [true, false, true, true, false, true, true] = 109 := by decide
example : constBase (3 : Int) [true, true, false, true] = 3 ^ 11 := by decide

end P2.Props.C01c
