/-
C13 property theorems: the optimised Poseidon layers of `P2.PoseidonFast` compute, on every
(not necessarily canonical) `u64` representation and without tripping any unchecked assumption, the
textbook layers modulo `P`; the native and the in-circuit challenger agree on every history; the
S-box is a permutation of the field.  Proofs live in `P2.Lemmas.C13`.
-/
import P2.Lemmas.C13
namespace P2.Props.C13
open P2 P2.L0 P2.PoseidonFast P2.Lemmas.C13

/-! ### T1: the frequency-domain routine is the integer circulant product, for ALL integers -/

/-- `mds_multiply_freq` equals the circulant product `out[r] = Σ_i circ[i]·s[(i+r) mod 12]` on
every integer input (no range restriction: the routine is linear with literal block constants). -/
theorem mdsMultiplyFreq_eq_circulant (s0 s1 s2 s3 s4 s5 s6 s7 s8 s9 s10 s11 : Int) :
    mdsMultiplyFreq #[s0, s1, s2, s3, s4, s5, s6, s7, s8, s9, s10, s11] =
      (List.range 12).map (circulant #[s0, s1, s2, s3, s4, s5, s6, s7, s8, s9, s10, s11]) := by
  rw [mdsFreq_unfold, circulant_unfold]

/-- the same for any 12-element array -/
theorem mdsMultiplyFreq_eq_circulant_array (s : Array Int) (hs : s.size = 12) :
    mdsMultiplyFreq s = (List.range 12).map (circulant s) := by
  obtain ⟨s0, s1, s2, s3, s4, s5, s6, s7, s8, s9, s10, s11, rfl⟩ := arr12 s hs
  exact mdsMultiplyFreq_eq_circulant ..

/-- the twelve outputs as explicit linear forms (first row of the circulant:
`17 15 41 16 2 28 13 13 39 18 34 20`) -/
theorem mdsMultiplyFreq_explicit (s0 s1 s2 s3 s4 s5 s6 s7 s8 s9 s10 s11 : Int) :
    mdsMultiplyFreq #[s0, s1, s2, s3, s4, s5, s6, s7, s8, s9, s10, s11] =
   [17*s0 + 15*s1 + 41*s2 + 16*s3 + 2*s4 + 28*s5 + 13*s6 + 13*s7 + 39*s8 + 18*s9 + 34*s10 + 20*s11,
    17*s1 + 15*s2 + 41*s3 + 16*s4 + 2*s5 + 28*s6 + 13*s7 + 13*s8 + 39*s9 + 18*s10 + 34*s11 + 20*s0,
    17*s2 + 15*s3 + 41*s4 + 16*s5 + 2*s6 + 28*s7 + 13*s8 + 13*s9 + 39*s10 + 18*s11 + 34*s0 + 20*s1,
    17*s3 + 15*s4 + 41*s5 + 16*s6 + 2*s7 + 28*s8 + 13*s9 + 13*s10 + 39*s11 + 18*s0 + 34*s1 + 20*s2,
    17*s4 + 15*s5 + 41*s6 + 16*s7 + 2*s8 + 28*s9 + 13*s10 + 13*s11 + 39*s0 + 18*s1 + 34*s2 + 20*s3,
    17*s5 + 15*s6 + 41*s7 + 16*s8 + 2*s9 + 28*s10 + 13*s11 + 13*s0 + 39*s1 + 18*s2 + 34*s3 + 20*s4,
    17*s6 + 15*s7 + 41*s8 + 16*s9 + 2*s10 + 28*s11 + 13*s0 + 13*s1 + 39*s2 + 18*s3 + 34*s4 + 20*s5,
    17*s7 + 15*s8 + 41*s9 + 16*s10 + 2*s11 + 28*s0 + 13*s1 + 13*s2 + 39*s3 + 18*s4 + 34*s5 + 20*s6,
    17*s8 + 15*s9 + 41*s10 + 16*s11 + 2*s0 + 28*s1 + 13*s2 + 13*s3 + 39*s4 + 18*s5 + 34*s6 + 20*s7,
    17*s9 + 15*s10 + 41*s11 + 16*s0 + 2*s1 + 28*s2 + 13*s3 + 13*s4 + 39*s5 + 18*s6 + 34*s7 + 20*s8,
    17*s10 + 15*s11 + 41*s0 + 16*s1 + 2*s2 + 28*s3 + 13*s4 + 13*s5 + 39*s6 + 18*s7 + 34*s8 + 20*s9,
    17*s11 + 15*s0 + 41*s1 + 16*s2 + 2*s3 + 28*s4 + 13*s5 + 13*s6 + 39*s7 + 18*s8 + 34*s9 + 20*s10] :=
  mdsFreq_unfold ..

/-! ### T2: on 32-bit limbs every output is a non-negative integer below `2^40` (hence a valid
`u64`/`i64`: the `as u64` casts of the Rust code are value-preserving) -/

theorem mdsMultiplyFreq_range (s0 s1 s2 s3 s4 s5 s6 s7 s8 s9 s10 s11 : Int)
    (h0 : 0 ≤ s0 ∧ s0 < 2 ^ 32) (h1 : 0 ≤ s1 ∧ s1 < 2 ^ 32) (h2 : 0 ≤ s2 ∧ s2 < 2 ^ 32)
    (h3 : 0 ≤ s3 ∧ s3 < 2 ^ 32) (h4 : 0 ≤ s4 ∧ s4 < 2 ^ 32) (h5 : 0 ≤ s5 ∧ s5 < 2 ^ 32)
    (h6 : 0 ≤ s6 ∧ s6 < 2 ^ 32) (h7 : 0 ≤ s7 ∧ s7 < 2 ^ 32) (h8 : 0 ≤ s8 ∧ s8 < 2 ^ 32)
    (h9 : 0 ≤ s9 ∧ s9 < 2 ^ 32) (h10 : 0 ≤ s10 ∧ s10 < 2 ^ 32) (h11 : 0 ≤ s11 ∧ s11 < 2 ^ 32) :
    ∀ x ∈ mdsMultiplyFreq #[s0, s1, s2, s3, s4, s5, s6, s7, s8, s9, s10, s11],
      0 ≤ x ∧ x < 2 ^ 40 := by
  rw [mdsFreq_unfold]
  norm_num at *
  omega

/-- array form, with the `2^64` bound used by `mdsLayer`'s `okRange` flag as a corollary -/
theorem mdsMultiplyFreq_range_array (s : Array Int) (hs : s.size = 12)
    (hb : ∀ i, i < 12 → (0 : Int) ≤ s[i]! ∧ s[i]! < (2 : Int) ^ 32) :
    ∀ x ∈ mdsMultiplyFreq s, 0 ≤ x ∧ x < 2 ^ 40 ∧ x < (W64 : Int) := by
  obtain ⟨s0, s1, s2, s3, s4, s5, s6, s7, s8, s9, s10, s11, rfl⟩ := arr12 s hs
  intro x hx
  have := mdsMultiplyFreq_range s0 s1 s2 s3 s4 s5 s6 s7 s8 s9 s10 s11
    (hb 0 (by decide)) (hb 1 (by decide)) (hb 2 (by decide)) (hb 3 (by decide))
    (hb 4 (by decide)) (hb 5 (by decide)) (hb 6 (by decide)) (hb 7 (by decide))
    (hb 8 (by decide)) (hb 9 (by decide)) (hb 10 (by decide)) (hb 11 (by decide)) x hx
  refine ⟨this.1, this.2, ?_⟩
  have h := this.2
  simp only [W64]
  norm_num at h ⊢
  omega

/-! ### T3: the Goldilocks `mds_layer` is the MDS matrix–vector product modulo `P` -/

/-- for every state of twelve `u64` words (canonical or not): no trap, outputs are `u64`s, and
`out[r] ≡ Σ_i circ[i]·s[(i+r) mod 12] + diag[r]·s[r]  (mod P)` -/
theorem mdsLayer_spec (s : Array Nat) (hs : s.size = 12) (hb : ∀ i, i < 12 → s[i]! < W64) :
    (mdsLayer s).trap = false ∧ (mdsLayer s).st.size = 12 ∧
    ∀ r, r < 12 → (mdsLayer s).st[r]! < W64 ∧
      (mdsLayer s).st[r]! % P =
        (((List.range 12).map fun i => circ i * s[(i + r) % 12]!).sum + diag r * s[r]!) % P :=
  mdsLayer_spec' s hs hb

/-- the same with the diagonal spelled out (`diag = [8, 0, …, 0]`) -/
theorem mdsLayer_spec_diag (s : Array Nat) (hs : s.size = 12) (hb : ∀ i, i < 12 → s[i]! < W64) :
    (mdsLayer s).trap = false ∧
    ∀ r, r < 12 → (mdsLayer s).st[r]! < W64 ∧
      (mdsLayer s).st[r]! % P =
        (((List.range 12).map fun i => circ i * s[(i + r) % 12]!).sum +
          (if r = 0 then 8 * s[0]! else 0)) % P := by
  obtain ⟨h1, _, h3⟩ := mdsLayer_spec s hs hb
  refine ⟨h1, fun r hr => ?_⟩
  obtain ⟨a, b⟩ := h3 r hr
  refine ⟨a, ?_⟩
  rw [b]
  by_cases h0 : r = 0
  · subst h0; simp only [if_true, diag0]
  · simp only [h0, if_false, diag_pos r (Nat.pos_of_ne_zero h0) hr, Nat.zero_mul]

/-! ### T4: S-box and constant layer -/

theorem sbox_spec (x : Nat) (hx : x < W64) :
    (sbox x).trap = false ∧ (sbox x).val < W64 ∧ (sbox x).val % P = x ^ 7 % P :=
  sbox_spec' x hx

theorem constantLayer_spec (s : Array Nat) (round : Nat) (hb : ∀ i, i < 12 → s[i]! < W64)
    (hr : round < 30) :
    (constantLayer s round).trap = false ∧ (constantLayer s round).st.size = 12 ∧
    ∀ i, i < 12 → (constantLayer s round).st[i]! < W64 ∧
      (constantLayer s round).st[i]! % P =
        (s[i]! + Gen.ALL_ROUND_CONSTANTS[i + 12 * round]!) % P :=
  constantLayer_spec' s round hb hr

/-! ### T5: native and in-circuit challengers agree on every history -/

theorem run_eq_rRun (p : Sponge.Perm) (ops : List Challenger.Op) (h0 : 0 < p.rate)
    (h1 : p.rate ≤ p.width)
    (h2 : ∀ st : Array P2.GL, st.size = p.width → (p.permute st).size = p.width) :
    Challenger.run p ops = Challenger.rRun p ops :=
  run_eq_rRun' p ops ⟨h0, h1, h2⟩

theorem observeMany_append (p : Sponge.Perm) (s : Challenger.St) (xs ys : List P2.GL) :
    Challenger.observeMany p s (xs ++ ys) =
      Challenger.observeMany p (Challenger.observeMany p s xs) ys :=
  observeMany_append' p s xs ys

/-! ### T6: `x ↦ x^7` permutes the field (`18446744069414584321 = L0.P`; primality is proved
elsewhere and taken as an instance argument) -/

theorem sbox_bijective [Fact (Nat.Prime 18446744069414584321)] :
    Function.Bijective (fun x : ZMod 18446744069414584321 => x ^ 7) :=
  sbox_bijective'

end P2.Props.C13
