/-
C08c (the ROW-LEVEL constraint system of plonky2's lookup argument, tied to the logUp identity of
C08b; over an arbitrary field `K`). Model and helper lemmas: `P2.Lemmas.LookupTrace`.

 T1 `sldc_chain`: the transition constraints alone give
      `z_{s−1}(lastLu) = z_{s−1}(firstLut+1) + Σ Sum terms − Σ LDC terms`.
 T2 `repaired_pin_sound` / `repaired_pin_satisfiable_iff`: with the repaired initial constraint
      (`pinIndex = s − 1`) the system is satisfiable IFF the two totals agree.
 T3 `original_pin_unsound`: with the original initial constraint (`pinIndex = 0`) and `s ≥ 2`
      the system is satisfiable for ARBITRARY terms (finding F-C08-1);
    `original_pin_sound_iff_one_poly`: for `s = 1` the two pins are the same constraint.
 T4 `verifier_rows_iff_constraints`: the cleared-denominator terms the verifier evaluates, with the
      selector values of `selectors_lookup`, are equivalent to the rational system off the combos.
 T5 `lookup_trace_sound` (+ `_mem`, `_multiset`, `_count`): accepting SLDC values for `≥ #combos`
      challenges `α` force the logUp multiset statement.
 T6 `checkLookupConstraints_structure`: the positions of these terms in the verifier model's list.
 T7 `model_rows_iff_verifier_rows`, `model_lookup_trace_sound`: at the model's field `GL2`, the SLDC
      entries of `Plonk.checkLookupConstraints` on every row ARE `VerifierRows … (s − 1)`; hence T5
      for the model's own terms.
 Non-vacuity: concrete instances over `ℚ` at the end.
-/
import P2.Lemmas.LookupTrace
import P2.Lemmas.LookupStructure
import P2.Lemmas.LookupTraceGL2

namespace P2.Props.C08c
open P2 Finset P2.Lemmas.LookupTrace

variable {K : Type} [Field K]

/-! ## T1 the chain -/

/-- **the SLDC chain telescopes** over rows and polys (transition constraints only; any pin) -/
theorem sldc_chain (L : Layout) (sumTerm ldcTerm : ℕ → ℕ → K) (z : ℕ → ℕ → K) (pin : ℕ)
    (h : Constraints L sumTerm ldcTerm z pin) :
    z L.lastLu (L.s - 1) =
      z (L.firstLut + 1) (L.s - 1) + sumTotal L sumTerm - ldcTotal L ldcTerm :=
  chain_total L sumTerm ldcTerm z h.sre h.ldc

/-! ## T2 the repaired pin -/

/-- **soundness of the repaired initial constraint**: `Constraints (s − 1)` forces
`Σ_{LUT rows} Σ_{k<s} sumTerm = Σ_{LU rows} Σ_{k<s} ldcTerm` -/
theorem repaired_pin_sound (L : Layout) (sumTerm ldcTerm : ℕ → ℕ → K) (z : ℕ → ℕ → K)
    (h : Constraints L sumTerm ldcTerm z (L.s - 1)) :
    ∑ r ∈ Ico L.lastLut (L.firstLut + 1), ∑ k ∈ range L.s, sumTerm r k
      = ∑ r ∈ Ico L.lastLu L.lastLut, ∑ k ∈ range L.s, ldcTerm r k := by
  have hc := sldc_chain L sumTerm ldcTerm z _ h
  rw [h.last _ rfl, h.init _ rfl] at hc
  have : sumTotal L sumTerm = ldcTotal L ldcTerm := by linear_combination -hc
  exact this

/-- **completeness**: balanced terms have SLDC values satisfying the repaired system -/
theorem repaired_pin_complete (L : Layout) (sumTerm ldcTerm : ℕ → ℕ → K)
    (hbal : sumTotal L sumTerm = ldcTotal L ldcTerm) :
    ∃ z, Constraints L sumTerm ldcTerm z (L.s - 1) := by
  refine ⟨zEnd L sumTerm ldcTerm, (zEnd_transitions L sumTerm ldcTerm).1,
    (zEnd_transitions L sumTerm ldcTerm).2, ?_, ?_⟩
  · intro r hr
    rw [hr, zEnd_init, hbal]
    ring
  · intro r hr
    rw [hr, zEnd_last]

/-- the repaired system is satisfiable exactly for balanced terms -/
theorem repaired_pin_satisfiable_iff (L : Layout) (sumTerm ldcTerm : ℕ → ℕ → K) :
    (∃ z, Constraints L sumTerm ldcTerm z (L.s - 1))
      ↔ sumTotal L sumTerm = ldcTotal L ldcTerm :=
  ⟨fun ⟨z, h⟩ => repaired_pin_sound L sumTerm ldcTerm z h, repaired_pin_complete L sumTerm ldcTerm⟩

/-! ## T3 the original pin (finding F-C08-1) -/

/-- **the original initial constraint is unsound for `s ≥ 2`**: for ARBITRARY terms (any lookups
against any table) there are SLDC values satisfying every constraint. The witness starts the chain
at `z_{s−1}(firstLut+1) = −(Σ Sum terms − Σ LDC terms)` — the one value the chain reads from the
`InitSre` row, which `z_0(firstLut+1) = 0` does not constrain — exactly the adversarial prover
`verif_hooks::SLDC_COMPENSATE` of `compute_lookup_polys`. -/
theorem original_pin_unsound (L : Layout) (hs : 2 ≤ L.s) :
    ∀ sumTerm ldcTerm : ℕ → ℕ → K, ∃ z, Constraints L sumTerm ldcTerm z 0 ∧
      z (L.firstLut + 1) (L.s - 1) = - (sumTotal L sumTerm - ldcTotal L ldcTerm) := by
  intro sumTerm ldcTerm
  have hLu := L.hLu
  have hLut := L.hLut
  refine ⟨zBad L sumTerm ldcTerm, ⟨?_, ?_, ?_, ?_⟩, ?_⟩
  · intro r hr k hk
    rw [zBad_eq L sumTerm ldcTerm r k hr.2, zBad_prev L hs sumTerm ldcTerm r k hr.2]
    exact (zEnd_transitions L sumTerm ldcTerm).1 r hr k hk
  · intro r hr k hk
    have hr' : r ≤ L.firstLut := by unfold Layout.transLdc at hr; omega
    rw [zBad_eq L sumTerm ldcTerm r k hr', zBad_prev L hs sumTerm ldcTerm r k hr']
    exact (zEnd_transitions L sumTerm ldcTerm).2 r hr k hk
  · intro r hr
    obtain rfl : r = L.firstLut + 1 := hr
    simp [zBad]
  · intro r hr
    rw [hr, zBad_eq L sumTerm ldcTerm _ _ (by omega), zEnd_last]
  · unfold zBad
    rw [if_neg (by omega), zEnd_init]

/-- in particular: unbalanced terms pass the original system whenever `s ≥ 2`, whereas no SLDC
values pass the repaired one -/
theorem original_pin_accepts_unbalanced (L : Layout) (hs : 2 ≤ L.s) (sumTerm ldcTerm : ℕ → ℕ → K)
    (hne : sumTotal L sumTerm ≠ ldcTotal L ldcTerm) :
    (∃ z, Constraints L sumTerm ldcTerm z 0) ∧ ¬ ∃ z, Constraints L sumTerm ldcTerm z (L.s - 1) :=
  ⟨(original_pin_unsound L hs sumTerm ldcTerm).imp fun _ h => h.1,
   fun h => hne ((repaired_pin_satisfiable_iff L sumTerm ldcTerm).1 h)⟩

/-- for a single SLDC polynomial the original and the repaired pin are the same constraint -/
theorem original_pin_sound_iff_one_poly (L : Layout) (hs : L.s = 1) (sumTerm ldcTerm : ℕ → ℕ → K)
    (z : ℕ → ℕ → K) :
    Constraints L sumTerm ldcTerm z 0 ↔ Constraints L sumTerm ldcTerm z (L.s - 1) := by
  rw [hs]

/-- hence for `s = 1` the original system is sound -/
theorem original_pin_sound_one_poly (L : Layout) (hs : L.s = 1) (sumTerm ldcTerm : ℕ → ℕ → K)
    (z : ℕ → ℕ → K) (h : Constraints L sumTerm ldcTerm z 0) :
    sumTotal L sumTerm = ldcTotal L ldcTerm :=
  repaired_pin_sound L sumTerm ldcTerm z ((original_pin_sound_iff_one_poly L hs _ _ z).1 h)

/-! ## T4 the verifier's cleared-denominator terms -/

/-- the terms of `check_lookup_constraints` on the SLDC polynomials, with the selector values of
`selectors_lookup`, vanish on all rows iff the rational system holds — for `α` off the combos -/
theorem verifier_rows_iff_constraints (L : Layout) (D : Slots K) (α : K) (hα : D.Avoids L α)
    (z : ℕ → ℕ → K) (pin : ℕ) :
    VerifierRows L D α z pin ↔ Constraints L (D.sumTerm α) (D.ldcTerm α) z pin :=
  verifierRows_iff L D α hα z pin

/-! ## T5 from accepting SLDC values to the logUp multiset statement -/

section sound
variable [DecidableEq K]

/-- for one challenge `α` off the combos: accepting SLDC values (the verifier's cleared-denominator
terms vanish on all rows, repaired pin) give the rational logUp identity at `α` -/
theorem lookup_trace_identity_at (L : Layout) (D : Slots K)
    (hlut : D.nLut ≤ L.s * D.lutDeg) (hlu : D.nLu ≤ L.s * D.luDeg)
    (α : K) (hα : α ∉ combos L D) (z : ℕ → ℕ → K) (h : VerifierRows L D α z (L.s - 1)) :
    ∑ a ∈ combos L D, (lookingCount L D a : K) / (α - a)
      = ∑ a ∈ combos L D, lookedWeight L D a / (α - a) := by
  have hc := (verifierRows_iff L D α (avoids_of_not_mem L D α hα) z _).1 h
  have hb : sumTotal L (D.sumTerm α) = ldcTotal L (D.ldcTerm α) :=
    repaired_pin_sound L _ _ z hc
  rw [← sumTotal_eq L D hlut α, ← ldcTotal_eq L D hlu α, hb]

/-- **row-level soundness of the lookup argument (repaired pin)**.
`L` the rows of one table, `D` the wire data on them (`looked`/`mult` on LUT rows, `looking` on LU
rows, as combinations under challenge A), the SLDC chunks covering all slots. If for every `α` in a
set `T` of at least `#combos` challenges outside the combos SOME SLDC values make all the verifier's
SLDC terms vanish on all rows, then for every field element `a`:
  (number of LU slots looking up `a`) = Σ (multiplicity wires of the LUT slots holding `a`)   in `K`.

NOT covered here: that the LUT rows hold the declared table (the RE chain with challenges B, δ:
C08b `re_polynomial_binds_table`), that a combination under challenge A binds the (input, output)
pair (C08b `pair_binding`), that row-level vanishing follows from the quotient check at `ζ`
(C02/C03), several tables sharing the four selector polynomials (this is one table; the system
only involves rows `lastLu … firstLut + 1`), and the challenges being sampled together. -/
theorem lookup_trace_sound (L : Layout) (D : Slots K)
    (hlut : D.nLut ≤ L.s * D.lutDeg) (hlu : D.nLu ≤ L.s * D.luDeg)
    (T : Finset K) (hdisj : Disjoint T (combos L D)) (hcard : (combos L D).card ≤ T.card)
    (hacc : ∀ α ∈ T, ∃ z, VerifierRows L D α z (L.s - 1)) :
    ∀ a, (lookingCount L D a : K) = lookedWeight L D a := by
  intro a
  by_cases ha : a ∈ combos L D
  · refine P2.Props.C08.logup_rational_weights (combos L D) T (fun a => (lookingCount L D a : K))
      (lookedWeight L D) hdisj hcard ?_ a ha
    intro α hα
    obtain ⟨z, hz⟩ := hacc α hα
    exact lookup_trace_identity_at L D hlut hlu α (Finset.disjoint_left.1 hdisj hα) z hz
  · rw [lookingCount_eq_zero L D ha, lookedWeight_eq_zero L D ha, Nat.cast_zero]

/-- the counting form: if the multiset statement FAILS, fewer than `#combos` challenges outside the
combos have accepting SLDC values (at most `#combos` more lie in the combos) -/
theorem lookup_trace_sound_count (L : Layout) (D : Slots K)
    (hlut : D.nLut ≤ L.s * D.lutDeg) (hlu : D.nLu ≤ L.s * D.luDeg)
    (hbad : ∃ a, (lookingCount L D a : K) ≠ lookedWeight L D a)
    (T : Finset K) (hdisj : Disjoint T (combos L D))
    (hacc : ∀ α ∈ T, ∃ z, VerifierRows L D α z (L.s - 1)) :
    T.card < (combos L D).card := by
  by_contra hlt
  obtain ⟨a, ha⟩ := hbad
  exact ha (lookup_trace_sound L D hlut hlu T hdisj (not_lt.1 hlt) hacc a)

/-- **every looked-up combination is in the table rows**: when the number of lookups is below the
characteristic, each LU slot's combination equals the combination of some LUT slot with non-zero
multiplicity wire -/
theorem lookup_trace_sound_mem (L : Layout) (D : Slots K)
    (hlut : D.nLut ≤ L.s * D.lutDeg) (hlu : D.nLu ≤ L.s * D.luDeg)
    (hchar : ∀ n : ℕ, 0 < n → n ≤ (luIdx L D).card → (n : K) ≠ 0)
    (T : Finset K) (hdisj : Disjoint T (combos L D)) (hcard : (combos L D).card ≤ T.card)
    (hacc : ∀ α ∈ T, ∃ z, VerifierRows L D α z (L.s - 1)) :
    ∀ r ∈ L.luRows, ∀ i < D.nLu, ∃ r' ∈ L.lutRows, ∃ i' < D.nLut,
      D.looked r' i' = D.looking r i ∧ D.mult r' i' ≠ 0 := by
  intro r hr i hi
  have key := lookup_trace_sound L D hlut hlu T hdisj hcard hacc (D.looking r i)
  have hpos : 0 < lookingCount L D (D.looking r i) :=
    Finset.card_pos.2 ⟨(r, i), Finset.mem_filter.2 ⟨(mem_luIdx L D).2 ⟨hr, hi⟩, rfl⟩⟩
  have hne : lookedWeight L D (D.looking r i) ≠ 0 := by
    rw [← key]
    exact hchar _ hpos (Finset.card_filter_le _ _)
  obtain ⟨x, hx, hx0⟩ := Finset.exists_ne_zero_of_sum_ne_zero hne
  rw [Finset.mem_filter] at hx
  exact ⟨x.1, ((mem_lutIdx L D).1 hx.1).1, x.2, ((mem_lutIdx L D).1 hx.1).2, hx.2, hx0⟩

/-- **the multiset form**: if moreover the multiplicity wires are (casts of) naturals `m` and
lookups and multiplicities stay below a bound `N` on which `ℕ → K` is injective (C08b
`natCast_inj_below_char`), the multiset of looked-up combinations is the multiset of the LUT
slots' combinations with their multiplicities -/
theorem lookup_trace_sound_multiset (L : Layout) (D : Slots K)
    (hlut : D.nLut ≤ L.s * D.lutDeg) (hlu : D.nLu ≤ L.s * D.luDeg)
    (m : ℕ → ℕ → ℕ) (hm : ∀ x ∈ lutIdx L D, D.mult x.1 x.2 = (m x.1 x.2 : K))
    (N : ℕ) (hchar : ∀ n k : ℕ, n < N → k < N → (n : K) = (k : K) → n = k)
    (hN : (luIdx L D).card < N) (hmN : ∑ x ∈ lutIdx L D, m x.1 x.2 < N)
    (T : Finset K) (hdisj : Disjoint T (combos L D)) (hcard : (combos L D).card ≤ T.card)
    (hacc : ∀ α ∈ T, ∃ z, VerifierRows L D α z (L.s - 1)) :
    (luIdx L D).val.map (fun x => D.looking x.1 x.2)
      = ∑ x ∈ lutIdx L D, m x.1 x.2 • ({D.looked x.1 x.2} : Multiset K) := by
  ext a
  have key := lookup_trace_sound L D hlut hlu T hdisj hcard hacc a
  have hw : lookedWeight L D a
      = ((∑ x ∈ (lutIdx L D).filter (fun x => D.looked x.1 x.2 = a), m x.1 x.2 : ℕ) : K) := by
    rw [lookedWeight, Nat.cast_sum]
    exact Finset.sum_congr rfl fun x hx => hm x (Finset.mem_filter.1 hx).1
  rw [hw] at key
  have hcount := hchar _ _ (lt_of_le_of_lt (Finset.card_filter_le _ _) hN)
    (lt_of_le_of_lt (Finset.sum_le_sum_of_subset (Finset.filter_subset _ _)) hmN) key
  rw [Multiset.count_map, Multiset.count_sum']
  simp only [Multiset.count_nsmul, Multiset.count_singleton]
  rw [Finset.sum_filter] at hcount
  simp only [eq_comm (a := a), mul_ite, mul_one, mul_zero]
  rw [← hcount, Finset.card_def, Finset.filter_val]

/-- **completeness** (and non-vacuity of the hypothesis `hacc`): if the counts agree with the
declared multiplicities, EVERY challenge outside the combos has accepting SLDC values -/
theorem lookup_trace_complete (L : Layout) (D : Slots K)
    (hlut : D.nLut ≤ L.s * D.lutDeg) (hlu : D.nLu ≤ L.s * D.luDeg)
    (h : ∀ a, (lookingCount L D a : K) = lookedWeight L D a)
    (α : K) (hα : α ∉ combos L D) : ∃ z, VerifierRows L D α z (L.s - 1) := by
  have hb : sumTotal L (D.sumTerm α) = ldcTotal L (D.ldcTerm α) := by
    rw [sumTotal_eq L D hlut α, ldcTotal_eq L D hlu α]
    exact Finset.sum_congr rfl fun a _ => by rw [h a]
  obtain ⟨z, hz⟩ := repaired_pin_complete L _ _ hb
  exact ⟨z, (verifierRows_iff L D α (avoids_of_not_mem L D α hα) z _).2 hz⟩

/-- with the ORIGINAL pin and `s ≥ 2`, EVERY challenge outside the combos has accepting SLDC
values, whatever the lookups and the table -/
theorem lookup_trace_original_pin_accepts_all (L : Layout) (hs : 2 ≤ L.s) (D : Slots K)
    (α : K) (hα : α ∉ combos L D) : ∃ z, VerifierRows L D α z 0 := by
  obtain ⟨z, hz, _⟩ := original_pin_unsound L hs (D.sumTerm α) (D.ldcTerm α)
  exact ⟨z, (verifierRows_iff L D α (avoids_of_not_mem L D α hα) z _).2 hz⟩

end sound

/-! ## T6 the verifier model evaluates exactly these terms -/

section structure_
open P2.Plonk P2.Lemmas.LookupStructure

/-- **structure of `Plonk.checkLookupConstraints`** (the list the verifier model evaluates at `ζ`
for one challenge index), with `s = localZs.length − 1`, `sel i = lookupSelectors[i]`,
`z_k = localZs[k + 1]`, `zRe = localZs[0]`:
  position `0`: `sel 3 * z_{s−1}`  (LastLdc),
  position `1`: `sel 2 * z_{s−1}`  (InitSre — on the LAST SLDC polynomial: the repaired pin),
  position `2`: `sel 2 * zRe`,
  position `4 + #tables + 2·poly`:     `sel 0 * (lut_prod·(z_poly − prev) − lut_sum_prods_with_mul)`,
  position `4 + #tables + 2·poly + 1`: `sel 1 * (lu_prod·(z_poly − prev) + lu_sum_prods)`,
with `prev = nextZs[s]` (the last SLDC poly of the next row) for `poly = 0` and `z_{poly−1}`
otherwise: term by term the fields of `VerifierRows … (s − 1)`. The named pieces
(`sumTransition`, `sldcPrev`, `lutProd`, …) are the `let`s of the model, by `rfl`
(`P2.Lemmas.LookupStructure.checkLookupConstraints_eq`). -/
theorem checkLookupConstraints_structure (c : CommonData) (wires localZs nextZs sels : List GL2)
    (deltas : List P2.GL) :
    let l := checkLookupConstraints c wires localZs nextZs sels deltas
    let s := localZs.length - 1
    let sel := fun i => sels.getD i FOps.zero
    let z := fun k => localZs.getD (k + 1) FOps.zero
    let prev := fun poly => if poly = 0 then nextZs.getD (s - 1 + 1) FOps.zero else z (poly - 1)
    l[0]? = some (sel 3 * z (s - 1)) ∧
    l[1]? = some (sel 2 * z (s - 1)) ∧
    l[2]? = some (sel 2 * localZs.getD 0 FOps.zero) ∧
    ∀ poly, poly < s →
      l[4 + (c.numLookupSelectors - 4) + 2 * poly]? =
        some (sel 0 * (lutProd c wires localZs deltas poly * (z poly - prev poly)
          - lutSumProdsMul c wires localZs deltas poly)) ∧
      l[4 + (c.numLookupSelectors - 4) + 2 * poly + 1]? =
        some (sel 1 * (luProd c wires deltas poly * (z poly - prev poly)
          + luSumProds c wires deltas poly)) :=
  checkLookupConstraints_positions c wires localZs nextZs sels deltas

/-- the model's InitSre term is on the last SLDC polynomial, and differs from the pre-repair term
`sel 2 * z_0` as soon as there are two SLDC polynomials with different values -/
theorem checkLookupConstraints_pin (c : CommonData) (wires localZs nextZs sels : List GL2)
    (deltas : List P2.GL) :
    (checkLookupConstraints c wires localZs nextZs sels deltas)[1]? =
      some (sels.getD 2 FOps.zero * localZs.getD (localZs.length - 1 - 1 + 1) FOps.zero) :=
  (checkLookupConstraints_positions c wires localZs nextZs sels deltas).2.1

end structure_

/-! ## T7 at the model's own field: the rows of `Plonk.checkLookupConstraints` -/

section model
open P2.Plonk P2.Lemmas.LookupTraceGL2 P2.Lemmas.GL2Field
attribute [local instance] gl2Field

/-- **the verifier model evaluates the row-level system.** `t` the trace region (wires and the
`s + 1` lookup-polynomial values per row, the four challenges), `sels` the lookup selector values
per row as `selectors_lookup` sets them for the table `L`. The SLDC entries of
`Plonk.checkLookupConstraints` (positions as in `checkLookupConstraints_structure`; local values the
row's, next values the next row's) vanish on every row iff `VerifierRows` holds — with pin `s − 1`,
the repaired initial constraint — for the slot data, `α` and SLDC values read off the trace. -/
theorem model_rows_iff_verifier_rows (t : Trace) (L : Layout) (sels : ℕ → List GL2)
    (hlen : ∀ r, (t.zs r).length = L.s + 1) (hsel : SelectorsOf L sels) :
    ModelRowsVanish t L sels ↔ VerifierRows L (t.slots L.s) t.alpha t.z (L.s - 1) :=
  modelRowsVanish_iff t L sels hlen hsel

/-- the slot data of the model for wires `wires` and challenge A (independent of the other
challenges and of the lookup polynomials) -/
def modelSlots (c : CommonData) (wires : ℕ → List GL2) (dA : P2.GL) (s : ℕ) : Slots GL2 :=
  (Trace.mk c wires (fun _ => []) [dA]).slots s

/-- **row-level soundness for the verifier model's terms.** Wires, table layout, selectors and
challenge A fixed. If for every `α` in a set `T ⊆ GL2` of at least `#combos` points outside the
combos there are a base-field challenge `α'` with `ofBase α' = α` and lookup-polynomial values
(`s + 1` per row) for which the SLDC entries of `Plonk.checkLookupConstraints` vanish on every row,
then for every `a`: (number of LU slots whose combination is `a`) = Σ multiplicity wires of the LUT
slots whose combination is `a`; and when there are fewer than `p = GLP` LU slots, every LU slot's
combination is the combination of an LUT slot with non-zero multiplicity wire.
(`hlu`: the SLDC polys cover the LU slots, `num_sldc_polys ≥ ⌈num_lu_slots / lu_degree⌉`; the LUT
slots are covered by the definition of `lut_degree`.) Not covered: as for `lookup_trace_sound`. -/
theorem model_lookup_trace_sound (c : CommonData) (wires : ℕ → List GL2) (L : Layout)
    (sels : ℕ → List GL2) (hsel : SelectorsOf L sels) (dA dB dDelta : P2.GL)
    (hlu : c.config.numRoutedWires / 2 ≤ L.s * (c.quotientDegreeFactor - 1))
    (T : Finset GL2) (hdisj : Disjoint T (combos L (modelSlots c wires dA L.s)))
    (hcard : (combos L (modelSlots c wires dA L.s)).card ≤ T.card)
    (hacc : ∀ α ∈ T, ∃ (α' : P2.GL) (zs : ℕ → List GL2), GL2.ofBase α' = α ∧
      (∀ r, (zs r).length = L.s + 1) ∧
      ModelRowsVanish ⟨c, wires, zs, [dA, dB, α', dDelta]⟩ L sels) :
    (∀ a, (lookingCount L (modelSlots c wires dA L.s) a : GL2)
        = lookedWeight L (modelSlots c wires dA L.s) a) ∧
    ((luIdx L (modelSlots c wires dA L.s)).card < GLP →
      ∀ r ∈ L.luRows, ∀ i < c.config.numRoutedWires / 2,
        ∃ r' ∈ L.lutRows, ∃ i' < c.config.numRoutedWires / 3,
          (modelSlots c wires dA L.s).looked r' i' = (modelSlots c wires dA L.s).looking r i ∧
          (modelSlots c wires dA L.s).mult r' i' ≠ 0) := by
  have hs := L.hs
  have hlut : (modelSlots c wires dA L.s).nLut ≤ L.s * (modelSlots c wires dA L.s).lutDeg := by
    show c.config.numRoutedWires / 3
      ≤ L.s * (if L.s = 0 then 0 else (c.config.numRoutedWires / 3 + L.s - 1) / L.s)
    rw [if_neg (by omega)]
    exact lutDegree_covers _ _ hs
  have hlu' : (modelSlots c wires dA L.s).nLu ≤ L.s * (modelSlots c wires dA L.s).luDeg := hlu
  have hacc' : ∀ α ∈ T, ∃ z, VerifierRows L (modelSlots c wires dA L.s) α z (L.s - 1) := by
    intro α hα
    obtain ⟨α', zs, rfl, hlen, hv⟩ := hacc α hα
    exact ⟨_, (modelRowsVanish_iff ⟨c, wires, zs, [dA, dB, α', dDelta]⟩ L sels hlen hsel).1 hv⟩
  refine ⟨lookup_trace_sound L _ hlut hlu' T hdisj hcard hacc', fun hp => ?_⟩
  exact lookup_trace_sound_mem L _ hlut hlu'
    (fun n h0 hn => natCast_ne_zero n h0 (lt_of_le_of_lt hn hp)) T hdisj hcard hacc'

end model

/-! ## non-vacuity (`s = 2`, one LU row `0`, one LUT row `1`, Noop row `2`) -/

/-- the tiny layout -/
def exLayout : Layout := ⟨0, 1, 1, 2, by omega, by omega, by omega⟩

/-- balanced: LUT row contributes `1/2 + 1/3`, LU row looks up `1/2 + 1/3` -/
def exSum : ℕ → ℕ → ℚ := fun r k => if r = 1 then (if k = 0 then 1/2 else 1/3) else 0
def exLdc : ℕ → ℕ → ℚ := fun r k => if r = 0 then (if k = 0 then 1/3 else 1/2) else 0
/-- the honest accumulator: `0` on the Noop row, `1/2, 5/6` on the LUT row, `1/2, 0` on the LU row -/
def exZ : ℕ → ℕ → ℚ := fun r k =>
  if r = 1 then (if k = 0 then 1/2 else 5/6) else if r = 0 then (if k = 0 then 1/2 else 0) else 0

/-- the repaired system has a solution with balanced, non-zero terms -/
theorem ex_repaired_ok : Constraints exLayout exSum exLdc exZ 1 := by
  refine ⟨?_, ?_, ?_, ?_⟩
  · intro r hr k hk
    obtain rfl : r = 1 := by simp only [Layout.transSre, exLayout] at hr; omega
    have : k = 0 ∨ k = 1 := by simp only [exLayout] at hk; omega
    rcases this with rfl | rfl <;> norm_num [prev, exZ, exSum, exLayout]
  · intro r hr k hk
    obtain rfl : r = 0 := by simp only [Layout.transLdc, exLayout] at hr; omega
    have : k = 0 ∨ k = 1 := by simp only [exLayout] at hk; omega
    rcases this with rfl | rfl <;> norm_num [prev, exZ, exLdc, exLayout]
  · intro r hr
    obtain rfl : r = 2 := hr
    norm_num [exZ]
  · intro r hr
    obtain rfl : r = 0 := hr
    norm_num [exZ, exLayout]

/-- UNBALANCED: the table contributes `1/2 + 1/3` but the LU row looks up `1/5 + 1/7`
(values not in the table) -/
def badLdc : ℕ → ℕ → ℚ := fun r k => if r = 0 then (if k = 0 then 1/5 else 1/7) else 0
/-- the compensating accumulator: starts at `z_1(2) = −(5/6 − 12/35) = −103/210`, `z_0(2) = 0` -/
def badZ : ℕ → ℕ → ℚ := fun r k =>
  if r = 2 then (if k = 0 then 0 else -103/210)
  else if r = 1 then (if k = 0 then 1/2 - 103/210 else 12/35)
  else if r = 0 then (if k = 0 then 1/7 else 0) else 0

/-- the bug: unbalanced terms satisfy the ORIGINAL system … -/
theorem ex_original_accepts_unbalanced : Constraints exLayout exSum badLdc badZ 0 := by
  refine ⟨?_, ?_, ?_, ?_⟩
  · intro r hr k hk
    obtain rfl : r = 1 := by simp only [Layout.transSre, exLayout] at hr; omega
    have : k = 0 ∨ k = 1 := by simp only [exLayout] at hk; omega
    rcases this with rfl | rfl <;> norm_num [prev, badZ, exSum, exLayout]
  · intro r hr k hk
    obtain rfl : r = 0 := by simp only [Layout.transLdc, exLayout] at hr; omega
    have : k = 0 ∨ k = 1 := by simp only [exLayout] at hk; omega
    rcases this with rfl | rfl <;> norm_num [prev, badZ, badLdc, exLayout]
  · intro r hr
    obtain rfl : r = 2 := hr
    norm_num [badZ]
  · intro r hr
    obtain rfl : r = 0 := hr
    norm_num [badZ, exLayout]

/-- … but not the repaired one, with these or any other SLDC values -/
theorem ex_repaired_rejects_unbalanced : ¬ ∃ z, Constraints exLayout exSum badLdc z 1 := by
  rintro ⟨z, h⟩
  have := repaired_pin_sound exLayout exSum badLdc z h
  simp only [exLayout] at this
  norm_num [exSum, badLdc, Finset.sum_range_succ] at this

end P2.Props.C08c
