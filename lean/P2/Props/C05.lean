/-
C05: decision logic of the FRI verifier model (`P2.Model.Fri`) stated outright, and the arity
schedule. Every statement is for arbitrary proofs, instances, parameters and challenges.
The proximity soundness of FRI itself is NOT proved here (see DESIGN.md, trusted base).
-/
import P2.Model.Fri
namespace P2.Props.C05
open P2 P2.Fri P2.Merkle

theorem firstBad_accept_iff (vs : List Verdict) : firstBad vs = .accept ↔ ∀ v ∈ vs, v = .accept := by
  induction vs with
  | nil => simp [firstBad]
  | cons v rest ih =>
    cases v with
    | accept => simp [firstBad, ih]
    | reject s => simp [firstBad]
    | panic s => simp [firstBad]

/-- a rejection/panic reported by `firstBad` is one of the listed checks' verdicts -/
theorem firstBad_mem (vs : List Verdict) (h : firstBad vs ≠ .accept) : firstBad vs ∈ vs := by
  induction vs with
  | nil => simp [firstBad] at h
  | cons v rest ih =>
    cases v with
    | accept =>
      simp only [firstBad] at h ⊢
      exact List.mem_cons_of_mem _ (ih h)
    | reject s => simp [firstBad]
    | panic s => simp [firstBad]

/-- **Acceptance is the conjunction of all checks** (top level): shape validation, proof of work,
query count, and every query round. -/
theorem verify_accept_iff (inst : Instance) (openings : List (List GL2)) (ch : Challenges)
    (caps : List (List Digest)) (proof : Proof) (p : FriParams) :
    verify inst openings ch caps proof p = .accept ↔
      validateShape proof inst p = .accept ∧
      powOk ch.powResponse p.config.powBits = true ∧
      p.config.numQueryRounds = proof.queries.length ∧
      ∀ xq ∈ ch.queryIndices.zip proof.queries,
        queryRound inst ch (openings.map fun vals => reduceExt vals ch.alpha) caps proof xq.1 xq.2 p = .accept := by
  unfold verify
  cases hs : validateShape proof inst p with
  | accept =>
    simp only [true_and]
    by_cases hp : powOk ch.powResponse p.config.powBits = true
    · by_cases hq : p.config.numQueryRounds = proof.queries.length
      · have hq' : ¬ (p.config.numQueryRounds ≠ proof.queries.length) := by simp [hq]
        simp only [hp, Bool.not_true, Bool.false_eq_true, if_false, if_neg hq', true_and]
        rw [firstBad_accept_iff]
        constructor
        · intro h
          refine ⟨hq, ?_⟩
          intro xq hxq
          exact h _ (List.mem_map.2 ⟨xq, hxq, by rcases xq with ⟨a, b⟩; rfl⟩)
        · rintro ⟨_, h⟩ v hv
          rcases List.mem_map.1 hv with ⟨xq, hxq, rfl⟩
          rcases xq with ⟨a, b⟩
          exact h (a, b) hxq
      · simp [hp, hq]
    · simp [hp]
  | reject s => simp
  | panic s => simp

/-- an insufficient proof-of-work response is rejected, whatever else the proof contains -/
theorem bad_pow_rejected (inst : Instance) (openings : List (List GL2)) (ch : Challenges)
    (caps : List (List Digest)) (proof : Proof) (p : FriParams)
    (h : powOk ch.powResponse p.config.powBits = false) :
    verify inst openings ch caps proof p ≠ .accept := by
  intro hacc
  have := (verify_accept_iff inst openings ch caps proof p).1 hacc
  rw [h] at this
  exact absurd this.2.1 (by simp)

/-- **Acceptance of one query round** implies each named check of that round:
every initial Merkle opening verifies against its cap, the combination of the openings is defined,
the whole reduction chain passes, and the final polynomial evaluates to the last folded value. -/
theorem queryRound_accept (inst : Instance) (ch : Challenges) (red : List GL2)
    (caps : List (List Digest)) (proof : Proof) (x0 : Nat) (q : QueryRound) (p : FriParams)
    (h : queryRound inst ch red caps proof x0 q p = .accept) :
    (∀ lc ∈ q.initial.zip caps, verifyToCap digestHasher lc.1.1 x0 lc.2 lc.1.2 = .ok) ∧
    ∃ old0 lastEval xf,
      combineInitial inst q.initial ch.alpha
        (GL.multGen * GL.pow (GL.primitiveRoot p.ldeBits) (BitRev.bitrev p.ldeBits x0)) red p = some old0 ∧
      stepsFrom proof ch q p.arityBits 0 x0
        (GL.multGen * GL.pow (GL.primitiveRoot p.ldeBits) (BitRev.bitrev p.ldeBits x0)) old0
          = (.accept, lastEval, xf) ∧
      (Poly.eval proof.finalPoly (GL2.ofBase xf) == lastEval) = true := by
  unfold queryRound at h
  cases hfb : firstBad (initialChecks q.initial caps x0) with
  | reject s => simp [hfb] at h
  | panic s => simp [hfb] at h
  | accept =>
    simp only [hfb] at h
    constructor
    · intro lc hlc
      have hall := (firstBad_accept_iff _).1 hfb
      have : (match verifyToCap digestHasher lc.1.1 x0 lc.2 lc.1.2 with
          | .ok => Verdict.accept
          | .err => .reject "merkle-initial"
          | .panic => .panic "cap index out of range") = .accept := by
        apply hall
        unfold initialChecks
        exact List.mem_map.2 ⟨lc, hlc, by rcases lc with ⟨⟨a, b⟩, c⟩; rfl⟩
      cases hv : verifyToCap digestHasher lc.1.1 x0 lc.2 lc.1.2 with
      | ok => rfl
      | err => simp [hv] at this
      | panic => simp [hv] at this
    · cases hc : combineInitial inst q.initial ch.alpha
          (GL.multGen * GL.pow (GL.primitiveRoot p.ldeBits) (BitRev.bitrev p.ldeBits x0)) red p with
      | none => simp [hc] at h
      | some old0 =>
        simp only [hc] at h
        generalize hst : stepsFrom proof ch q p.arityBits 0 x0
          (GL.multGen * GL.pow (GL.primitiveRoot p.ldeBits) (BitRev.bitrev p.ldeBits x0)) old0 = r at h
        obtain ⟨v, lastEval, xf⟩ := r
        cases v with
        | reject s => simp at h
        | panic s => simp at h
        | accept =>
          refine ⟨old0, lastEval, xf, rfl, hst, ?_⟩
          by_cases hf : (Poly.eval proof.finalPoly (GL2.ofBase xf) == lastEval) = true
          · exact hf
          · simp [hf] at h

/-- **One reduction layer**: if the chain from layer `i` is accepted then at layer `i` the queried
evaluation equals the value carried from the previous layer (consistency), the coset's Merkle
opening verifies against that layer's cap at the coset index, and the chain continues from the
interpolated value `compute_evaluation` at the point `x^arity`. -/
theorem stepsFrom_accept_cons (proof : Proof) (ch : Challenges) (q : QueryRound)
    (ab : Nat) (rest : List Nat) (i xIndex : Nat) (x : GL) (oldEval lastEval : GL2) (xf : GL)
    (h : stepsFrom proof ch q (ab :: rest) i xIndex x oldEval = (.accept, lastEval, xf)) :
    ∃ st e beta cap,
      q.steps[i]? = some st ∧ st.evals[xIndex % 2 ^ ab]? = some e ∧ (e == oldEval) = true ∧
      ch.betas[i]? = some beta ∧ proof.commitCaps[i]? = some cap ∧
      verifyToCap digestHasher (st.evals.flatMap fun v => [v.a, v.b]) (xIndex / 2 ^ ab) cap st.merkleProof = .ok ∧
      stepsFrom proof ch q rest (i + 1) (xIndex / 2 ^ ab) (GL.pow x (2 ^ ab))
        (computeEvaluation x (xIndex % 2 ^ ab) ab st.evals beta) = (.accept, lastEval, xf) := by
  simp only [stepsFrom] at h
  cases hs : q.steps[i]? with
  | none => simp [hs] at h
  | some st =>
    simp only [hs] at h
    cases he : st.evals[xIndex % 2 ^ ab]? with
    | none => simp [he] at h
    | some e =>
      simp only [he] at h
      by_cases hcons : (e == oldEval) = true
      · simp only [hcons, Bool.not_true, Bool.false_eq_true, if_false] at h
        cases hb : ch.betas[i]? with
        | none => simp [hb] at h
        | some beta =>
          simp only [hb] at h
          cases hcap : proof.commitCaps[i]? with
          | none => simp [hcap] at h
          | some cap =>
            simp only [hcap] at h
            cases hv : verifyToCap digestHasher (st.evals.flatMap fun v => [v.a, v.b]) (xIndex / 2 ^ ab) cap st.merkleProof with
            | err => simp [hv] at h
            | panic => simp [hv] at h
            | ok =>
              simp only [hv] at h
              exact ⟨st, e, beta, cap, rfl, he, hcons, rfl, rfl, hv, h⟩
      · simp [hcons] at h

/-- with no reduction layers the chain returns the combined value unchanged -/
theorem stepsFrom_nil (proof : Proof) (ch : Challenges) (q : QueryRound) (i xIndex : Nat) (x : GL)
    (oldEval : GL2) : stepsFrom proof ch q [] i xIndex x oldEval = (.accept, oldEval, x) := rfl

/-! ### arity schedule of `ConstantArityBits` -/

theorem constantArityBits_spec (a f rateBits capHeight : Nat) :
    ∀ fuel degreeBits l, constantArityBits a f rateBits capHeight fuel degreeBits = some l →
      (∀ x ∈ l, x = a) ∧ l.foldl (· + ·) 0 ≤ degreeBits := by
  intro fuel
  induction fuel with
  | zero => intro d l h; simp [constantArityBits] at h; subst h; simp
  | succ n ih =>
    intro d l h
    simp only [constantArityBits] at h
    split at h
    · split at h
      · simp at h
      · rename_i hlt
        cases hr : constantArityBits a f rateBits capHeight n (d - a) with
        | none => simp [hr] at h
        | some l' =>
          simp [hr] at h
          subst h
          have := ih (d - a) l' hr
          constructor
          · intro x hx
            rcases List.mem_cons.1 hx with rfl | hx
            · rfl
            · exact this.1 x hx
          · have hfold : ∀ (l : List Nat) (s : Nat), l.foldl (· + ·) s = s + l.foldl (· + ·) 0 := by
              intro l
              induction l with
              | nil => intro s; simp
              | cons y t iht => intro s; simp only [List.foldl_cons]; rw [iht (s + y), iht (0 + y)]; omega
            simp only [List.foldl_cons]
            rw [hfold l' (0 + a)]
            have := this.2
            omega
    · simp at h; subst h; simp

/-- non-vacuity: the standard strategy `ConstantArityBits(4, 5)` at degree 2^12, rate 3, cap 4 -/
example : constantArityBits 4 5 3 4 14 12 = some [4, 4] := by decide

end P2.Props.C05
