/-
C09 (h), continued: `verify_stark_proof_with_challenges` / `verify_stark_proof` never panic after
`recover_degree_bits` — for AIRs WITH lookups and with cross-table-lookup check variables (the
restriction of `C09.verifyWithChallenges_never_panics_partial` / `C09.verify_never_panics_partial`
removed). Helper lemmas in `P2/Lemmas/StarkNoPanic2.lean`. Core Lean only.

What has to be assumed about the AIR (verifier-side data, nothing about the proof):

* `LookupsOK a`: for every lookup of the AIR, `HelperOK a.degree #columns #filters`, i.e.
  - `constraint_degree ≠ 1` (the chunk size `constraint_degree.checked_sub(1).unwrap_or(1)` is
    non-zero). When this fails, `Lookup::num_helper_columns` divides by zero: the panic is reached in
    `validate_proof_shape` / `get_challenges` for EVERY proof (`lookups_degree_one_panics`);
  - every chunk of looking columns has length ≤ 2: `constraint_degree ≤ 3` or at most two columns
    (`min chunk #columns ≤ 2`). When this fails, `eval_helper_columns` reaches
    `todo!("Allow other constraint degrees")` (witness `todo_reachable`);
  - there is a filter for every looking column (`#columns ≤ #filters`). When this fails,
    `fs[0]` / `fs[1]` in `eval_helper_columns` can be an index panic (witness `filter_index_reachable`;
    with fewer filter CHUNKS than column chunks the `zip` silently drops helper constraints instead).
  All three are loud refusals of the library on the AIR definition: they do not depend on the proof
  beyond its passing shape validation. An AIR without lookups satisfies `LookupsOK` vacuously (any
  `constraint_degree`, also 0 and 1).
* `CtlVarsOK a.degree v` for every CTL check variable handed to the verifier (`ctlVars = some _`):
  with helper columns the same `HelperOK`; without, at least one column tuple and a filter for each
  of the (at most two) tuples that are looked at.
* `a.wf` (column/public-input indices in range) is not used by the proofs: the model reads an
  out-of-range index as zero where the code would panic, so `a.wf` is what makes the model describe
  the code; it is a hypothesis of the two main theorems for that reason.
-/
import P2.Lemmas.StarkNoPanic2
import P2.Lemmas.StarkGetChallenges
import P2.Props.C09
namespace P2.Props.C09d
open P2 P2.Air P2.Stark P2.Lemmas.Stark P2.Lemmas.StarkNoPanic P2.Lemmas.StarkNoPanic2
open P2.Lemmas.StarkGetChallenges (alphasPrime zetaPrime alphaPrimeDraw)
open P2.Fri (Verdict firstBad)
open P2.Props.C09 (tinyCfg)

/-! ## the well-formedness predicates, spelled out -/

/-- `chunk_size = constraint_degree.checked_sub(1).unwrap_or(1)` -/
theorem lookupChunk_def (degree : Nat) : lookupChunk degree = if degree = 0 then 1 else degree - 1 := rfl

theorem helperOK_iff (degree nc nf : Nat) :
    HelperOK degree nc nf ↔ degree ≠ 1 ∧ (degree ≤ 3 ∨ nc ≤ 2) ∧ nc ≤ nf := by
  unfold HelperOK lookupChunk
  by_cases h : degree = 0
  · subst h; simp; omega
  · simp only [h, if_false]; omega

theorem lookupsOK_iff (a : Air) :
    LookupsOK a ↔ ∀ l ∈ a.lookups,
      a.degree ≠ 1 ∧ (a.degree ≤ 3 ∨ l.columns.length ≤ 2) ∧ l.columns.length ≤ l.filters.length := by
  unfold LookupsOK
  constructor
  · intro h l hl; exact (helperOK_iff _ _ _).1 (h l hl)
  · intro h l hl; exact (helperOK_iff _ _ _).2 (h l hl)

theorem ctlVarsOK_iff (degree : Nat) (v : CtlVars) :
    CtlVarsOK degree v ↔
      (v.helperColumns ≠ [] → degree ≠ 1 ∧ (degree ≤ 3 ∨ v.columns.length ≤ 2) ∧
        v.columns.length ≤ v.filters.length) ∧
      (v.helperColumns = [] → 1 ≤ v.columns.length ∧ min 2 v.columns.length ≤ v.filters.length) := by
  unfold CtlVarsOK
  rw [helperOK_iff]

/-- an AIR without lookups needs nothing -/
theorem lookupsOK_of_no_lookups (a : Air) (h : a.lookups = []) : LookupsOK a := by
  intro l hl; rw [h] at hl; cases hl

/-! ## `num_helper_columns` -/

/-- `Lookup::num_helper_columns` for `constraint_degree ≠ 1`: `⌈#columns / chunk⌉ + 1` -/
theorem numHelperColumns_eq (l : LookupSpec) (degree : Nat) (h : degree ≠ 1) :
    numHelperColumns l degree =
      some ((l.columns.length + lookupChunk degree - 1) / lookupChunk degree + 1) :=
  Lemmas.StarkNoPanic2.numHelperColumns_eq l degree (fun e => h ((lookupChunk_eq_zero_iff _).1 e))

/-- `Stark::num_lookup_helper_columns` is `num_challenges · Σ num_helper_columns` … -/
theorem numLookupHelperColumns_eq (a : Air) (c : Config) (h : a.lookups = [] ∨ a.degree ≠ 1) :
    numLookupHelperColumns a c = some (sumNh a.degree a.lookups * c.numChallenges) :=
  Lemmas.StarkNoPanic2.numLookupHelperColumns_eq a c
    (h.imp id fun h e => h ((lookupChunk_eq_zero_iff _).1 e))

/-- … and undefined (division by zero) exactly for an AIR with lookups and `constraint_degree = 1` -/
theorem numLookupHelperColumns_none_iff (a : Air) (c : Config) :
    numLookupHelperColumns a c = none ↔ a.lookups ≠ [] ∧ a.degree = 1 :=
  Lemmas.StarkNoPanic2.numLookupHelperColumns_none_iff a c

/-- **the panic that remains when `constraint_degree = 1` and the AIR has lookups**: shape validation
(and with it `verify_stark_proof_with_challenges`) panics for every proof with the right number of
public inputs — a loud refusal of the AIR definition, independent of the proof -/
theorem lookups_degree_one_panics (a : Air) (c : Config) (pp : ProofWithPis) (ch : Stark.Challenges)
    (ctlVars : Option (List CtlVars)) (db : Nat) (fp : Fri.FriParams)
    (hl : a.lookups ≠ []) (hd : a.degree = 1) (hp : pp.publicInputs.length = a.pis)
    (hdb : recoverDegreeBits pp.proof c = .ok db) (hfp : c.friParams db = some fp) :
    verifyWithChallenges a c pp ch ctlVars = .panic "num_helper_columns" := by
  have hn := (numLookupHelperColumns_none_iff a c).2 ⟨hl, hd⟩
  unfold verifyWithChallenges
  simp only [hdb]
  have hv : ∀ nh nz, validateShape a c pp db nh nz = .panic "num_helper_columns" := by
    intro nh nz
    unfold validateShape
    simp [hp, hfp, hn]
  simp only [hv]

/-- … and `get_challenges` (so `verify_stark_proof`) panics there as well -/
theorem lookups_degree_one_verify_panics (a : Air) (c : Config) (pp : ProofWithPis) (pad : Option PadParams)
    (db : Nat) (hl : a.lookups ≠ []) (hd : a.degree = 1) (hp : pp.publicInputs.length = a.pis)
    (hdb : recoverDegreeBits pp.proof c = .ok db) :
    Stark.verify a c pp pad = .panic "num_helper_columns: division by zero" := by
  have hn := (numLookupHelperColumns_none_iff a c).2 ⟨hl, hd⟩
  unfold Stark.verify getChallenges getChallengesFrom
  simp [hp, hdb, hn, bind, Except.bind, orPanic]

/-! ## the lookup and CTL terms return, and keep one accumulator per α -/

/-- `eval_helper_columns` returns (no `todo!()`, no index panic) -/
theorem evalHelperColumns_some (n : Nat) (filters : List FilterSpec) (columns : List (List GL2))
    (lv nv : Array GL2) (helpers : List GL2) (degree : Nat) (beta gamma : GL) (s : Consumer GL2)
    (hs : s.accs.length = n ∧ s.alphas.length = n)
    (hok : helpers = [] ∨ HelperOK degree columns.length filters.length) :
    ∃ s', evalHelperColumns filters columns lv nv helpers degree beta gamma s = some s' ∧
      s'.accs.length = n ∧ s'.alphas.length = n :=
  Lemmas.StarkNoPanic2.evalHelperColumns_some n filters columns lv nv helpers degree beta gamma s hs hok

/-- **`eval_packed_lookups_generic` returns** when the auxiliary openings it is handed hold
`num_challenges · Σ num_helper_columns` values (all slices `[start .. start + nh − 1]` and indices
`start + nh − 1` are in range), and the number of accumulators is preserved -/
theorem evalLookups_some (n : Nat) (a : Air) (lv nv : Array GL2) (localAux nextAux : List GL2) (chs : List GL)
    (s : Consumer GL2) (hok : LookupsOK a) (hs : s.accs.length = n ∧ s.alphas.length = n)
    (h1 : sumNh a.degree a.lookups * chs.length ≤ localAux.length)
    (h2 : sumNh a.degree a.lookups * chs.length ≤ nextAux.length) :
    ∃ s', evalLookups a lv nv localAux nextAux chs s = some s' ∧ s'.accs.length = n ∧ s'.alphas.length = n :=
  Lemmas.StarkNoPanic2.evalLookups_some n a lv nv localAux nextAux chs s hok hs h1 h2

/-- **`eval_cross_table_lookup_checks` returns** on well-formed CTL variables -/
theorem evalCtlChecks_some (n : Nat) (cv : List CtlVars) (lv nv : Array GL2) (degree : Nat) (s : Consumer GL2)
    (hok : ∀ v ∈ cv, CtlVarsOK degree v) (hs : s.accs.length = n ∧ s.alphas.length = n) :
    ∃ s', evalCtlChecks cv lv nv degree s = some s' ∧ s'.accs.length = n ∧ s'.alphas.length = n :=
  Lemmas.StarkNoPanic2.evalCtlChecks_some n cv lv nv degree s hok hs

/-- **`eval_vanishing_poly` returns one value per α** (so `vanishing_polys_zeta[i]` is in range for
every chunk of quotient openings) -/
theorem evalVanishingPoly_some (n : Nat) (a : Air) (lv nv : List GL2) (pis : List GL)
    (lookupVars : Option (List GL2 × List GL2 × List GL)) (ctlVars : Option (List CtlVars)) (s : Consumer GL2)
    (hs : s.accs.length = n ∧ s.alphas.length = n)
    (hlk : ∀ la na chs, lookupVars = some (la, na, chs) → LookupsOK a ∧
      sumNh a.degree a.lookups * chs.length ≤ la.length ∧ sumNh a.degree a.lookups * chs.length ≤ na.length)
    (hctl : ∀ cv, ctlVars = some cv → ∀ v ∈ cv, CtlVarsOK a.degree v) :
    ∃ van, evalVanishingPoly a lv nv pis lookupVars ctlVars s = some van ∧ van.length = n :=
  Lemmas.StarkNoPanic2.evalVanishingPoly_some n a lv nv pis lookupVars ctlVars s hs hlk hctl

/-! ## the `lookup_challenge_set` of `get_challenges` -/

/-- **`get_challenges` and the lookup challenge set** (any caller: `shared` = challenges handed in
by a multi-table system): the set returned is the one handed in, if any; otherwise it is present
exactly when the proof carries an auxiliary cap and then holds `num_challenges` pairs; and
`get_challenges` only returns for an AIR with lookups if the set is present (it panics on
`lookup_challenge_set.unwrap()` otherwise) -/
theorem getChallengesFrom_lookupSet (s : ChSt) (a : Air) (c : Config) (pp : ProofWithPis)
    (pad : Option PadParams) (shared : Option (List (GL × GL))) (ctlVars : Option (List CtlVars)) (ign : Bool)
    (ch : Stark.Challenges) (h : getChallengesFrom s a c pp pad shared ctlVars ign = .ok ch) :
    (∀ sh, shared = some sh → ch.lookupSet = some sh) ∧
    (shared = none → ch.lookupSet.isSome = pp.proof.auxCap.isSome ∧
      ∀ ls, ch.lookupSet = some ls → ls.length = c.numChallenges) ∧
    (a.usesLookups = true → ch.lookupSet.isSome = true) :=
  Lemmas.StarkNoPanic2.getChallengesFrom_lookupSet s a c pp pad shared ctlVars ign ch h

/-- the single-table case: the `unwrap` of `lookup_challenge_set` in
`verify_stark_proof_with_challenges` cannot fail on challenges that `get_challenges` returned -/
theorem getChallenges_lookupSet (a : Air) (c : Config) (pp : ProofWithPis) (pad : Option PadParams)
    (ch : Stark.Challenges) (h : getChallenges a c pp pad = .ok ch) :
    ch.lookupSet.isSome = pp.proof.auxCap.isSome ∧
    (a.usesLookups = true → ∃ ls, ch.lookupSet = some ls ∧ ls.length = c.numChallenges) := by
  obtain ⟨_, hB, hC⟩ := getChallengesFrom_lookupSet _ a c pp pad none none false ch h
  refine ⟨(hB rfl).1, fun hU => ?_⟩
  obtain ⟨ls, hls⟩ := Option.isSome_iff_exists.mp (hC hU)
  exact ⟨ls, hls, (hB rfl).2 ls hls⟩

/-- after shape validation the lookup challenge set of `get_challenges` is present exactly when the
AIR uses lookups or requires CTLs (single table) -/
theorem getChallenges_lookupSet_iff (a : Air) (c : Config) (pp : ProofWithPis) (pad : Option PadParams)
    (ch : Stark.Challenges) (db nh nz : Nat) (h : getChallenges a c pp pad = .ok ch)
    (hsh : validateShape a c pp db nh nz = .accept) :
    ch.lookupSet.isSome = (a.usesLookups || a.requiresCtls) := by
  rw [(getChallenges_lookupSet a c pp pad ch h).1]
  obtain ⟨_, _, nlc, _, _, _, _, _, _, _, _, _, haux⟩ := (Lemmas.Stark.validateShape_accept_iff a c pp db nh nz).1 hsh
  unfold AuxOK at haux
  split at haux
  · rename_i hu
    obtain ⟨cap, _, _, e, _⟩ := haux
    rw [e, hu]; rfl
  · rename_i hu
    rw [haux.1]
    simp only [Bool.not_eq_true] at hu
    rw [hu]; rfl

/-! ## never panics -/

/-- **No panic after `recover_degree_bits`, any AIR** (lookups and CTLs included). Hypotheses — all on
verifier-side data, nothing about the proof:
* `hwf`, `hlo`, `hcv`: see the header (`a.wf` is not used by the proof);
* `hdb`: `recover_degree_bits` returned `db`; `hfp`: `fri_params(db)` is defined (configuration);
* `hcons`: the consumer can be set up at ζ (`db ≤ 32`, ζ ∉ {1, g⁻¹} — `C09.consumerAt_error_iff`);
* `hal`, `hls`, `hbetas`, `hidx`: the challenges have the shapes `get_challenges` produces
  (`C09.getChallenges_shapes`, `getChallenges_lookupSet`; for a multi-table caller,
  `getChallengesFrom_lookupSet` with a shared set of `num_challenges` pairs). -/
theorem verifyWithChallenges_never_panics_lookups (a : Air) (c : Config) (pp : ProofWithPis) (ch : Stark.Challenges)
    (ctlVars : Option (List CtlVars)) (db : Nat) (fp : Fri.FriParams)
    (_hwf : a.wf = true) (hlo : LookupsOK a)
    (hcv : ∀ cv, ctlVars = some cv → ∀ v ∈ cv, CtlVarsOK a.degree v)
    (hdb : recoverDegreeBits pp.proof c = .ok db) (hfp : c.friParams db = some fp)
    (hcons : ∃ s, consumerAt ch.alphas db ch.zeta = .ok s)
    (hal : ch.alphas.length = c.numChallenges)
    (hls : a.usesLookups = true → ∃ ls, ch.lookupSet = some ls ∧ ls.length = c.numChallenges)
    (hbetas : ch.fri.betas.length = pp.proof.openingProof.commitCaps.length)
    (hidx : ∀ xi ∈ ch.fri.queryIndices, xi < 2 ^ (db + c.fri.rateBits)) :
    ∀ t, verifyWithChallenges a c pp ch ctlVars ≠ .panic t :=
  Lemmas.StarkNoPanic2.verifyWithChallenges_no_panic a c pp ch ctlVars db fp hlo hcv hdb hfp hcons hal hls
    hbetas hidx

/-- **`verify_stark_proof` never panics once `get_challenges` has returned** (single table, any
AIR with `LookupsOK`): the only panics of the single-table verifier are those of `get_challenges`
(which include `recover_degree_bits`, F-C18-3, and the `lookup_challenge_set` unwrap for a proof
without auxiliary cap) and the set-up of the consumer at ζ. -/
theorem verify_never_panics_lookups (a : Air) (c : Config) (pp : ProofWithPis) (pad : Option PadParams)
    (ch : Stark.Challenges) (db : Nat) (fp : Fri.FriParams)
    (hwf : a.wf = true) (hlo : LookupsOK a)
    (hch : getChallenges a c pp pad = .ok ch)
    (hdb : recoverDegreeBits pp.proof c = .ok db) (hfp : c.friParams db = some fp)
    (hsmall : db + c.fri.rateBits < 64)
    (hcons : ∃ s, consumerAt ch.alphas db ch.zeta = .ok s) :
    ∀ t, Stark.verify a c pp pad ≠ .panic t := by
  intro t
  unfold Stark.verify
  split
  · simp
  · simp only [hch]
    obtain ⟨db', hdb', hal, hb, hi⟩ := P2.Props.C09.getChallenges_shapes a c pp pad ch hch
    rw [hdb] at hdb'; cases hdb'
    rw [Nat.mod_eq_of_lt hsmall] at hi
    exact verifyWithChallenges_never_panics_lookups a c pp ch none db fp hwf hlo (fun cv h => by cases h)
      hdb hfp hcons hal (getChallenges_lookupSet a c pp pad ch hch).2 hb hi t

/-! ## when `get_challenges` returns (single table) -/

/-- **`get_dummy_polys` never panics** (its slice bounds always hold): it returns `num_trace` local
and next values, and auxiliary values exactly when `num_aux > 0` -/
theorem getDummyPolys_some (s : ChSt) (nt na pd : Nat) :
    ∃ dl dn da dan, (getDummyPolys s nt na pd).2 = some (dl, dn, da, dan) ∧ dl.length = nt ∧ dn.length = nt ∧
      (na = 0 → da = none ∧ dan = none) ∧
      (0 < na → ∃ x y, da = some x ∧ dan = some y ∧ x.length = na ∧ na ≤ y.length) :=
  Lemmas.StarkGetChallenges.getDummyPolys_some s nt na pd

/-- the α′ of the constraint-binding step: drawn after the configuration, the trace cap, the lookup
challenges (if there is an auxiliary cap) and the auxiliary cap have been absorbed -/
theorem alphasPrime_def (c : Config) (pp : ProofWithPis) :
    alphasPrime c pp =
      (getN (Lemmas.StarkTranscript.obsOpt
        (Lemmas.StarkTranscript.lookupDraw
          (Lemmas.StarkTranscript.stage1 (obs (Challenger.init perm) pp.publicInputs) c pp.proof false)
          pp.proof c.numChallenges none).1 pp.proof.auxCap) c.numChallenges).2 := rfl

/-- the ζ′ of the constraint-binding step: drawn after the dummy ζs of `get_dummy_polys` -/
theorem zetaPrime_def (a : Air) (c : Config) (pp : ProofWithPis) :
    zetaPrime a c pp =
      (getExt (getDummyPolys (alphaPrimeDraw c pp).1 a.cols
        ((pp.proof.openings.auxPolys.map (·.length)).getD 0) (max 2 (a.degree + 1))).1).2 := rfl

/-- **`get_challenges` returns** (single table, `LookupsOK a`) when — all on the still UNVALIDATED
proof, these are the panics of finding F-C18-3 —
* `hp`: the number of public inputs is right (else `from_values` asserts);
* `hdb`: `recover_degree_bits` found its Merkle path;
* `haux`: for an AIR with lookups the proof has an auxiliary cap (else `lookup_challenge_set`
  unwrap), and at least one and at least `num_lookup_helper_columns` auxiliary openings (else the
  dummy `auxiliary_polys` unwrap resp. slice panics);
* `hcons`: the consumer can be set up at the dummy point ζ′ with the α′ (`C09.consumerAt_error_iff`). -/
theorem getChallenges_returns (a : Air) (c : Config) (pp : ProofWithPis) (pad : Option PadParams) (db : Nat)
    (hlo : LookupsOK a) (hp : pp.publicInputs.length = a.pis)
    (hdb : recoverDegreeBits pp.proof c = .ok db)
    (haux : a.usesLookups = true → pp.proof.auxCap.isSome = true ∧
      ∃ aux, pp.proof.openings.auxPolys = some aux ∧ 0 < aux.length ∧
        sumNh a.degree a.lookups * c.numChallenges ≤ aux.length)
    (hcons : ∃ s, consumerAt (alphasPrime c pp) db (zetaPrime a c pp) = .ok s) :
    ∃ ch, getChallenges a c pp pad = .ok ch :=
  Lemmas.StarkGetChallenges.getChallenges_returns a c pp pad db hlo hp hdb haux hcons

/-- **the panic surface of `verify_stark_proof`** (single table, `LookupsOK a`, `fri_params` defined,
`degree_bits + rate_bits < 64`): under the four conditions of `getChallenges_returns` the challenges
exist, and then the verifier panics only if the consumer cannot be set up at ζ -/
theorem verify_panic_surface (a : Air) (c : Config) (pp : ProofWithPis) (pad : Option PadParams) (db : Nat)
    (fp : Fri.FriParams) (hwf : a.wf = true) (hlo : LookupsOK a) (hp : pp.publicInputs.length = a.pis)
    (hdb : recoverDegreeBits pp.proof c = .ok db) (hfp : c.friParams db = some fp)
    (hsmall : db + c.fri.rateBits < 64)
    (haux : a.usesLookups = true → pp.proof.auxCap.isSome = true ∧
      ∃ aux, pp.proof.openings.auxPolys = some aux ∧ 0 < aux.length ∧
        sumNh a.degree a.lookups * c.numChallenges ≤ aux.length)
    (hcons' : ∃ s, consumerAt (alphasPrime c pp) db (zetaPrime a c pp) = .ok s) :
    ∃ ch, getChallenges a c pp pad = .ok ch ∧
      ((∃ s, consumerAt ch.alphas db ch.zeta = .ok s) → ∀ t, Stark.verify a c pp pad ≠ .panic t) := by
  obtain ⟨ch, hch⟩ := getChallenges_returns a c pp pad db hlo hp hdb haux hcons'
  exact ⟨ch, hch, fun hcons => verify_never_panics_lookups a c pp pad ch db fp hwf hlo hch hdb hfp hsmall hcons⟩

/-! ## the CTL variables of a multi-table system are well-formed -/

/-- **`CtlCheckVars::from_proof` builds well-formed CTL variables**: whatever the proof, if it
returns, every variable satisfies `CtlVarsOK`, provided `constraint_degree ∈ {0, 2, 3}` or no CTL of
the table has helper columns (`byCtl` = helper columns per CTL, as `num_ctl_helpers_zs_all` reports) -/
theorem ctlVarsFromProof_ok (degree table : Nat) (p : Stark.Proof) (ctls : List CtlSpec)
    (chs : List (GL × GL)) (nlc total : Nat) (byCtl : List Nat) (out : List CtlVars)
    (hd : (degree ≠ 1 ∧ degree ≤ 3) ∨ ∀ n ∈ byCtl, n = 0)
    (h : ctlVarsFromProof table p ctls chs nlc total byCtl = .ok out) :
    ∀ v ∈ out, CtlVarsOK degree v :=
  Lemmas.StarkNoPanic2.ctlVarsFromProof_ok degree table p ctls chs nlc total byCtl out hd h

/-- for `constraint_degree ≤ 1`, `num_ctl_helpers_zs_all` either panics (a table appearing twice in
a CTL: division by `constraint_degree − 1`) or reports no helper columns at all -/
theorem numCtlHelpersZsAll_byCtl (ctls : List CtlSpec) (table n degree th tz : Nat) (byCtl : List Nat)
    (h : numCtlHelpersZsAll ctls table n degree = some (th, tz, byCtl)) (hd : degree ≤ 1) :
    ∀ k ∈ byCtl, k = 0 :=
  Lemmas.StarkNoPanic2.numCtlHelpersZsAll_byCtl ctls table n degree th tz byCtl h hd

/-- **the per-table call of a multi-table verifier never panics** (`verify_multi` of the harness:
`num_ctl_helpers_zs_all`, `CtlCheckVars::from_proof`, then `verify_stark_proof_with_challenges` with
those variables), for `constraint_degree ≤ 3`; the remaining hypotheses as in
`verifyWithChallenges_never_panics_lookups` -/
theorem verifyWithChallenges_never_panics_ctl (a : Air) (c : Config) (pp : ProofWithPis) (ch : Stark.Challenges)
    (table : Nat) (ctls : List CtlSpec) (chs : List (GL × GL)) (nlc th tz : Nat) (byCtl : List Nat)
    (cv : List CtlVars) (db : Nat) (fp : Fri.FriParams)
    (hwf : a.wf = true) (hlo : LookupsOK a) (hdeg : a.degree ≤ 3)
    (hnum : numCtlHelpersZsAll ctls table c.numChallenges a.degree = some (th, tz, byCtl))
    (hcv : ctlVarsFromProof table pp.proof ctls chs nlc th byCtl = .ok cv)
    (hdb : recoverDegreeBits pp.proof c = .ok db) (hfp : c.friParams db = some fp)
    (hcons : ∃ s, consumerAt ch.alphas db ch.zeta = .ok s)
    (hal : ch.alphas.length = c.numChallenges)
    (hls : a.usesLookups = true → ∃ ls, ch.lookupSet = some ls ∧ ls.length = c.numChallenges)
    (hbetas : ch.fri.betas.length = pp.proof.openingProof.commitCaps.length)
    (hidx : ∀ xi ∈ ch.fri.queryIndices, xi < 2 ^ (db + c.fri.rateBits)) :
    ∀ t, verifyWithChallenges a c pp ch (some cv) ≠ .panic t := by
  have hd : (a.degree ≠ 1 ∧ a.degree ≤ 3) ∨ ∀ n ∈ byCtl, n = 0 := by
    by_cases h1 : a.degree ≤ 1
    · exact Or.inr (numCtlHelpersZsAll_byCtl ctls table _ a.degree th tz byCtl hnum h1)
    · exact Or.inl ⟨by omega, hdeg⟩
  have hok := ctlVarsFromProof_ok a.degree table pp.proof ctls chs nlc th byCtl cv hd hcv
  exact verifyWithChallenges_never_panics_lookups a c pp ch (some cv) db fp hwf hlo
    (fun cv' h => by cases h; exact hok) hdb hfp hcons hal hls hbetas hidx

/-! ## witnesses and non-vacuity

A two-column AIR with one lookup (column 0 looked up in column 1, frequency 1, filter 1),
`constraint_degree = 2`, on a one-row trace (`degree_bits = 0`), one challenge. -/

def col0 : ColSpec := ⟨[(0, 1)], [], 0⟩
def col1 : ColSpec := ⟨[(1, 1)], [], 0⟩
def one1 : ColSpec := ⟨[], [], 1⟩
def filt1 : FilterSpec := ⟨[], [one1]⟩
def lookAir : Air :=
  { cols := 2, pis := 0, degree := 2, requiresCtls := false, constraints := [],
    lookups := [⟨[col0], col1, one1, [filt1]⟩] }
/-- auxiliary openings `[h, Z]` with `h = 3`, `Z = 0`; `q` = the quotient opening -/
def lookOpenings (q : GL2) : OpeningSet :=
  ⟨[⟨5,0⟩, ⟨5,0⟩], [⟨5,0⟩, ⟨5,0⟩], some [⟨3,0⟩, ⟨0,0⟩], some [⟨3,0⟩, ⟨0,0⟩], none, some [q]⟩
def lookFri : Fri.Proof := ⟨[], [⟨[([0,0],[]),([0,0],[]),([0],[])], []⟩], [⟨0,0⟩], 0⟩
def lookProof (q : GL2) : ProofWithPis :=
  ⟨⟨[[0,0,0,0]], some [[0,0,0,0]], some [[0,0,0,0]], lookOpenings q, lookFri⟩, []⟩
def lookCh : Stark.Challenges := ⟨some [(7, 9)], [1], ⟨2,0⟩, ⟨⟨1,0⟩, [], 0, []⟩⟩
def lookFp : Fri.FriParams := ⟨tinyCfg.fri, false, 0, []⟩

theorem lookAir_ok : LookupsOK lookAir := by
  rw [lookupsOK_iff]; intro l hl
  simp only [lookAir, List.mem_singleton] at hl
  subst hl; decide

theorem look_consumer : ∃ s, consumerAt lookCh.alphas 0 lookCh.zeta = .ok s := by
  have h : (match consumerAt lookCh.alphas 0 lookCh.zeta with | .ok _ => true | .error _ => false) = true := by
    decide +kernel
  split at h
  · exact ⟨_, ‹_›⟩
  · cases h

/-- the lookup terms are evaluated (`h·(5 + 7) − 1`, `Z·L_0`, `(Z' − Z)·(5 + 7) − (h·(5 + 7) − 1)`
sum to 0 at α = 1) and the quotient identity `0 = (ζ − 1)·0` is checked: accepted … -/
example : verifyWithChallenges lookAir tinyCfg (lookProof ⟨0,0⟩) lookCh none = .accept := by decide +kernel
/-- … a wrong quotient opening is rejected at the identity … -/
example : verifyWithChallenges lookAir tinyCfg (lookProof ⟨1,0⟩) lookCh none = .reject "identity" := by
  decide +kernel
/-- … and so is a wrong next-row `Z` opening (the lookup terms do enter the combination) -/
example : verifyWithChallenges lookAir tinyCfg
    { lookProof ⟨0,0⟩ with proof := { (lookProof ⟨0,0⟩).proof with openings :=
      { lookOpenings ⟨0,0⟩ with auxPolysNext := some [⟨3,0⟩, ⟨1,0⟩] } } } lookCh none = .reject "identity" := by
  decide +kernel

/-- non-vacuity of `verifyWithChallenges_never_panics_lookups` (an AIR with a lookup) -/
example : ∀ t, verifyWithChallenges lookAir tinyCfg (lookProof ⟨0,0⟩) lookCh none ≠ .panic t :=
  verifyWithChallenges_never_panics_lookups lookAir tinyCfg (lookProof ⟨0,0⟩) lookCh none 0 lookFp
    (by decide) lookAir_ok (fun cv h => by cases h) rfl rfl look_consumer (by decide)
    (fun _ => ⟨_, rfl, rfl⟩) (by decide) (by decide)

/-- a proof that drops one auxiliary opening is refused by shape validation, not by a slice panic -/
example : verifyWithChallenges lookAir tinyCfg
    { lookProof ⟨0,0⟩ with proof := { (lookProof ⟨0,0⟩).proof with openings :=
      { lookOpenings ⟨0,0⟩ with auxPolys := some [⟨3,0⟩] } } } lookCh none = .reject "shape" := by
  decide +kernel

/-! ### with CTL check variables -/

/-- the same table, now also looked at by a cross-table lookup (one Z polynomial, no helper columns) -/
def ctlAir : Air := { lookAir with requiresCtls := true }
def ctlVar : CtlVars := ⟨[], ⟨0,0⟩, ⟨0,0⟩, 3, 4, [[col0]], [filt1]⟩
def ctlOpenings (q : GL2) : OpeningSet :=
  ⟨[⟨5,0⟩, ⟨5,0⟩], [⟨5,0⟩, ⟨5,0⟩], some [⟨3,0⟩, ⟨0,0⟩, ⟨0,0⟩], some [⟨3,0⟩, ⟨0,0⟩, ⟨0,0⟩], some [0], some [q]⟩
def ctlFri : Fri.Proof := ⟨[], [⟨[([0,0],[]),([0,0,0],[]),([0],[])], []⟩], [⟨0,0⟩], 0⟩
def ctlProof (q : GL2) : ProofWithPis :=
  ⟨⟨[[0,0,0,0]], some [[0,0,0,0]], some [[0,0,0,0]], ctlOpenings q, ctlFri⟩, []⟩

theorem ctlVar_ok : CtlVarsOK ctlAir.degree ctlVar := by
  rw [ctlVarsOK_iff]; decide

/-- non-vacuity of `verifyWithChallenges_never_panics_lookups` with `ctlVars = some _` -/
example : ∀ t, verifyWithChallenges ctlAir tinyCfg (ctlProof ⟨0,0⟩) lookCh (some [ctlVar]) ≠ .panic t :=
  verifyWithChallenges_never_panics_lookups ctlAir tinyCfg (ctlProof ⟨0,0⟩) lookCh (some [ctlVar]) 0 lookFp
    (by decide) lookAir_ok
    (fun cv h v hv => by
      cases h
      simp only [List.mem_singleton] at hv
      subst hv; exact ctlVar_ok)
    rfl rfl look_consumer (by decide) (fun _ => ⟨_, rfl, rfl⟩) (by decide) (by decide)
/-- the verdict on that input: the CTL terms `(5·3 + 4)·Z − 1` (last row, transition) are non-zero,
the quotient identity fails -/
example : verifyWithChallenges ctlAir tinyCfg (ctlProof ⟨0,0⟩) lookCh (some [ctlVar]) = .reject "identity" := by
  decide +kernel
/-- CTL variables without any column tuple are not well-formed, and `evals[0]` panics -/
example : verifyWithChallenges ctlAir tinyCfg (ctlProof ⟨0,0⟩) lookCh
    (some [{ ctlVar with columns := [] }]) = .panic "eval_vanishing_poly" := by decide +kernel
example : ¬ CtlVarsOK ctlAir.degree { ctlVar with columns := [] } := by
  rw [ctlVarsOK_iff]; decide

/-- a one-CTL system in which table 0 is the looked table -/
def ctlSpec : CtlSpec := ⟨[⟨1, [col0], filt1⟩], ⟨0, [col0], filt1⟩⟩

/-- non-vacuity of `verifyWithChallenges_never_panics_ctl`: the CTL variables are the ones
`CtlCheckVars::from_proof` reads off the proof -/
example : ∃ cv, ctlVarsFromProof 0 (ctlProof ⟨0,0⟩).proof [ctlSpec] [(3, 4)] 2 0 [0] = .ok cv ∧
    numCtlHelpersZsAll [ctlSpec] 0 tinyCfg.numChallenges ctlAir.degree = some (0, 1, [0]) ∧
    cv.length = 1 ∧ ∀ t, verifyWithChallenges ctlAir tinyCfg (ctlProof ⟨0,0⟩) lookCh (some cv) ≠ .panic t := by
  refine ⟨[ctlVar], rfl, by decide +kernel, rfl, ?_⟩
  exact verifyWithChallenges_never_panics_ctl ctlAir tinyCfg (ctlProof ⟨0,0⟩) lookCh 0 [ctlSpec] [(3, 4)] 2 0 1
    [0] [ctlVar] 0 lookFp (by decide) lookAir_ok (by decide) (by decide +kernel) rfl rfl rfl
    look_consumer (by decide) (fun _ => ⟨_, rfl, rfl⟩) (by decide) (by decide)

/-! ### the panics that remain when `LookupsOK` fails -/

/-- `constraint_degree = 1` with a lookup: division by zero in `num_helper_columns` -/
example : verifyWithChallenges { lookAir with degree := 1 } tinyCfg (lookProof ⟨0,0⟩) lookCh none
    = .panic "num_helper_columns" :=
  lookups_degree_one_panics _ _ _ _ _ 0 lookFp (by decide) rfl rfl rfl rfl

/-- `constraint_degree = 4` and a lookup with three columns: chunks of three columns,
`todo!("Allow other constraint degrees")` -/
def todoAir : Air :=
  { lookAir with degree := 4, lookups := [⟨[col0, col0, col0], col1, one1, [filt1, filt1, filt1]⟩] }
def todoProof : ProofWithPis :=
  { lookProof ⟨0,0⟩ with proof := { (lookProof ⟨0,0⟩).proof with openings :=
    { lookOpenings ⟨0,0⟩ with quotientPolys := some [⟨0,0⟩, ⟨0,0⟩, ⟨0,0⟩] } } }
theorem todo_reachable :
    verifyWithChallenges todoAir tinyCfg todoProof lookCh none = .panic "eval_vanishing_poly" ∧
    validateShape todoAir tinyCfg todoProof 0 0 0 = .accept ∧ ¬ LookupsOK todoAir := by
  refine ⟨by decide +kernel, by decide +kernel, ?_⟩
  rw [lookupsOK_iff]
  intro h
  have := h _ List.mem_cons_self
  revert this; decide

/-- `constraint_degree = 3` and a lookup with two columns but one filter: `fs[1]` is an index panic
(a lookup with NO filter at all does not panic: `zip` stops at the shorter list and the helper
constraints are silently skipped) -/
def noFilterAir : Air := { lookAir with degree := 3, lookups := [⟨[col0, col0], col1, one1, [filt1]⟩] }
def noFilterProof : ProofWithPis :=
  { lookProof ⟨0,0⟩ with proof := { (lookProof ⟨0,0⟩).proof with openings :=
    { lookOpenings ⟨0,0⟩ with quotientPolys := some [⟨0,0⟩, ⟨0,0⟩] } } }
theorem filter_index_reachable :
    verifyWithChallenges noFilterAir tinyCfg noFilterProof lookCh none = .panic "eval_vanishing_poly" ∧
    validateShape noFilterAir tinyCfg noFilterProof 0 0 0 = .accept ∧ ¬ LookupsOK noFilterAir := by
  refine ⟨by decide +kernel, by decide +kernel, ?_⟩
  rw [lookupsOK_iff]
  intro h
  have := h _ List.mem_cons_self
  revert this; decide

/-- the lookup challenge set missing (challenges not from `get_challenges`): the `unwrap` panics -/
example : verifyWithChallenges lookAir tinyCfg (lookProof ⟨0,0⟩) { lookCh with lookupSet := none } none
    = .panic "unwrap" := by decide +kernel

/-! ### `verify_stark_proof` on the lookup AIR -/

/-- `get_challenges` returns on the example proof and the consumer can be set up at its ζ
(kernel evaluation of the whole Fiat–Shamir transcript) -/
theorem look_getChallenges : (match getChallenges lookAir tinyCfg (lookProof ⟨0,0⟩) none with
    | .ok ch => (match consumerAt ch.alphas 0 ch.zeta with | .ok _ => true | .error _ => false)
    | .error _ => false) = true := by decide +kernel

/-- non-vacuity of `verify_never_panics_lookups` -/
example : ∀ t, Stark.verify lookAir tinyCfg (lookProof ⟨0,0⟩) none ≠ .panic t := by
  have h := look_getChallenges
  split at h
  · rename_i ch hch
    split at h
    · rename_i s hs
      exact verify_never_panics_lookups lookAir tinyCfg _ none ch 0 lookFp (by decide) lookAir_ok hch rfl rfl
        (by decide) ⟨s, hs⟩
    · cases h
  · cases h

theorem isOk_exists {ε α : Type} (x : Except ε α)
    (h : (match x with | .ok _ => true | .error _ => false) = true) : ∃ s, x = .ok s := by
  cases x with
  | ok s => exact ⟨s, rfl⟩
  | error e => cases h

/-- the consumer can be set up at the dummy point ζ′ of the example proof (kernel evaluation of the
transcript up to ζ′) -/
theorem look_consumerPrime :
    ∃ s, consumerAt (alphasPrime tinyCfg (lookProof ⟨0,0⟩)) 0 (zetaPrime lookAir tinyCfg (lookProof ⟨0,0⟩)) = .ok s :=
  isOk_exists _ (by decide +kernel)

/-- non-vacuity of `getChallenges_returns` / `verify_panic_surface` -/
example : ∃ ch, getChallenges lookAir tinyCfg (lookProof ⟨0,0⟩) none = .ok ch ∧
    ((∃ s, consumerAt ch.alphas 0 ch.zeta = .ok s) →
      ∀ t, Stark.verify lookAir tinyCfg (lookProof ⟨0,0⟩) none ≠ .panic t) :=
  verify_panic_surface lookAir tinyCfg (lookProof ⟨0,0⟩) none 0 lookFp (by decide) lookAir_ok rfl rfl rfl
    (by decide) (fun _ => ⟨rfl, [⟨3,0⟩, ⟨0,0⟩], rfl, by decide, by decide⟩) look_consumerPrime

end P2.Props.C09d
