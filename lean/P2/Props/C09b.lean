/-
C09 (general theorems over an arbitrary field `K`): the algebra of the STARK vanishing-polynomial
check, with the model's operations instantiated through `FOps.ofField K`.

 A. the `ConstraintConsumer` is Horner in `α` from the left: accumulator `i` is
    `Σ_j c_j · α_i^(n−1−j)` (= `reduce_with_powers` of the REVERSED constraint list), hence a
    constraint list with a non-zero value is annihilated by at most `n − 1` values of `α`;
 B. `eval_l_0_and_l_last`: the two Lagrange values and `z_last`, through a field-generic twin
    `evalL0LLastK` of the model's `P2.Stark.evalL0LLast` (which is fixed to `GL2`), and the link
    between the two.
-/
import P2.Lemmas.StarkAlg
import Mathlib.Algebra.Field.Rat
import Mathlib.Algebra.Order.Ring.Rat
namespace P2.Props.C09b
open P2 P2.Air P2.PlonkAlg P2.Lemmas.StarkAlg

variable {K : Type} [Field K] [DecidableEq K]

/-! ## A. the α-combination of the consumer -/

/-- `acc ← acc·α + c` over `cs`, from 0, is `reduce_with_powers` of the reversed list -/
theorem horner_eq_reduce (cs : List K) (α : K) :
    cs.foldl (fun acc c => acc * α + c) (0 : K)
      = @reduceWithPowers K (FOps.ofField K) cs.reverse α :=
  Lemmas.StarkAlg.horner_eq_reduce cs α

/-- the same with `FOps.reduceWithPowers` (of which `PlonkAlg.reduceWithPowers` is a synonym) -/
theorem horner_eq_reduce' (cs : List K) (α : K) :
    cs.foldl (fun acc c => acc * α + c) (0 : K)
      = @FOps.reduceWithPowers K (FOps.ofField K) cs.reverse α :=
  Lemmas.StarkAlg.horner_eq_reduce cs α

/-- the first constraint emitted gets the highest power of `α` -/
theorem horner_eq_sum (cs : List K) (α : K) :
    cs.foldl (fun acc c => acc * α + c) (0 : K)
      = ∑ i : Fin cs.length, cs[i] * α ^ (cs.length - 1 - (i : Nat)) :=
  Lemmas.StarkAlg.horner_eq_sum cs α

theorem horner_eq_sum_range (cs : List K) (α : K) :
    cs.foldl (fun acc c => acc * α + c) (0 : K)
      = ∑ i ∈ Finset.range cs.length, cs.getD i 0 * α ^ (cs.length - 1 - i) :=
  Lemmas.StarkAlg.horner_eq_sum_range cs α

/-- Schwartz–Zippel for one accumulator: if some constraint value is non-zero, at most
`length − 1` values of `α` make the accumulator vanish -/
theorem consumer_acc_zero_set (cs : List K) (h : ∃ c ∈ cs, c ≠ 0) :
    {α : K | cs.foldl (fun acc c => acc * α + c) (0 : K) = 0}.Finite ∧
    {α : K | cs.foldl (fun acc c => acc * α + c) (0 : K) = 0}.ncard ≤ cs.length - 1 :=
  horner_zero_set cs h

theorem consumer_acc_zeros_card (cs : List K) (h : ∃ c ∈ cs, c ≠ 0) (S : Finset K)
    (hS : ∀ α ∈ S, cs.foldl (fun acc c => acc * α + c) (0 : K) = 0) :
    S.card ≤ cs.length - 1 :=
  horner_zeros_card cs h S hS

/-- contrapositive: vanishing for `cs.length` distinct `α` forces every constraint value to be 0 -/
theorem consumer_terms_zero_of_many_zeros (cs : List K) (S : Finset K)
    (hcard : cs.length ≤ S.card)
    (hS : ∀ α ∈ S, cs.foldl (fun acc c => acc * α + c) (0 : K) = 0) :
    ∀ c ∈ cs, c = 0 :=
  horner_terms_zero_of_many_zeros cs S hcard hS

/-- completeness: all constraint values zero ⇒ the accumulator is zero for every `α` -/
theorem consumer_acc_of_all_zero (cs : List K) (h : ∀ c ∈ cs, c = 0) (α : K) :
    cs.foldl (fun acc c => acc * α + c) (0 : K) = 0 :=
  horner_of_all_zero cs h α

/-- on the model's consumer: after `constraint` has been called with the values `cs`, the
accumulator of `α` is `Σ_i cs[i]·α^(n−1−i)` -/
theorem consumer_accs_eq_sum (alphas : List K) (z l0 ll : K) (cs : List K) :
    (cs.foldl (@Consumer.constraint K (FOps.ofField K))
        (@Consumer.new K (FOps.ofField K) alphas z l0 ll)).accs
      = alphas.map fun α => ∑ i : Fin cs.length, cs[i] * α ^ (cs.length - 1 - (i : Nat)) := by
  rw [consumer_accs_field]
  exact List.map_congr_left fun α _ => Lemmas.StarkAlg.horner_eq_sum cs α

theorem consumer_accs_eq_reduce (alphas : List K) (z l0 ll : K) (cs : List K) :
    (cs.foldl (@Consumer.constraint K (FOps.ofField K))
        (@Consumer.new K (FOps.ofField K) alphas z l0 ll)).accs
      = alphas.map fun α => @reduceWithPowers K (FOps.ofField K) cs.reverse α := by
  rw [consumer_accs_field]
  exact List.map_congr_left fun α _ => Lemmas.StarkAlg.horner_eq_reduce cs α

/-- if all accumulators are zero and the challenges contain at least `cs.length` distinct values,
every constraint value is zero -/
theorem consumer_all_zero_of_many_alphas (alphas : List K) (z l0 ll : K) (cs : List K)
    (hcard : cs.length ≤ alphas.toFinset.card)
    (h : ∀ a ∈ (cs.foldl (@Consumer.constraint K (FOps.ofField K))
        (@Consumer.new K (FOps.ofField K) alphas z l0 ll)).accs, a = 0) :
    ∀ c ∈ cs, c = 0 := by
  rw [consumer_accs_field] at h
  apply horner_terms_zero_of_many_zeros cs alphas.toFinset hcard
  intro α hα
  exact h _ (List.mem_map.2 ⟨α, List.mem_toFinset.1 hα, rfl⟩)

/-- for ONE challenge `α` and a non-zero constraint list: the accumulator vanishes only for `α` in
a set of at most `cs.length − 1` elements (the soundness error of the α-combination is
`(cs.length − 1)/|K|` per challenge) -/
theorem consumer_acc_zero_mem (alphas : List K) (z l0 ll : K) (cs : List K)
    (hne : ∃ c ∈ cs, c ≠ 0)
    (h : ∀ a ∈ (cs.foldl (@Consumer.constraint K (FOps.ofField K))
        (@Consumer.new K (FOps.ofField K) alphas z l0 ll)).accs, a = 0) :
    ∃ B : Finset K, B.card ≤ cs.length - 1 ∧ ∀ α ∈ alphas, α ∈ B := by
  rw [consumer_accs_field] at h
  obtain ⟨hfin, hcard⟩ := horner_zero_set cs hne
  refine ⟨hfin.toFinset, ?_, ?_⟩
  · rwa [← Set.ncard_eq_toFinset_card _ hfin]
  · intro α hα
    rw [Set.Finite.mem_toFinset]
    exact h _ (List.mem_map.2 ⟨α, hα, rfl⟩)

/-- the interpreted AIR's `eval_packed_generic`: every constraint value is multiplied by the
weight of its kind (`lagrange_first`, `lagrange_last`, `z_last`, or nothing) and the accumulator
of `α` is the Horner combination of these products -/
theorem evalConstraints_accs (a : Air) (lv nv pis : Array K) (alphas : List K) (z l0 ll : K) :
    (@Air.evalConstraints K (FOps.ofField K) a lv nv pis
        (@Consumer.new K (FOps.ofField K) alphas z l0 ll)).accs
      = alphas.map fun α =>
          (a.constraints.map fun p =>
            @weigh K (FOps.ofField K) z l0 ll p.1
              (@Expr.eval K (FOps.ofField K) lv nv pis p.2)).foldl
            (fun acc c => acc * α + c) (0 : K) := by
  rw [@evalConstraints_eq K (FOps.ofField K)]
  exact consumer_accs_field alphas z l0 ll _

example : [1, 2, 3].foldl (fun acc c => acc * (2 : ℚ) + c) 0 = 11 := by
  norm_num [horner_eq_sum_range, Finset.sum_range_succ]
example : ([1, 2, 3].foldl (@Consumer.constraint ℚ (FOps.ofField ℚ))
    (@Consumer.new ℚ (FOps.ofField ℚ) [2, 10] 0 0 0)).accs = [11, 123] := by
  rw [consumer_accs_field]
  norm_num
/-- `x² − 3x + 2` vanishes at 1 and 2: two zeros for three terms, not three -/
example : ∀ α ∈ ({1, 2} : Finset ℚ), [1, -3, 2].foldl (fun acc c => acc * α + c) (0 : ℚ) = 0 := by
  intro α hα
  simp only [Finset.mem_insert, Finset.mem_singleton] at hα
  rcases hα with rfl | rfl <;> norm_num
example : ({1, 2} : Finset ℚ).card ≤ [(1 : ℚ), -3, 2].length - 1 :=
  consumer_acc_zeros_card [1, -3, 2] ⟨1, by simp, by norm_num⟩ {1, 2} (by
    intro α hα
    simp only [Finset.mem_insert, Finset.mem_singleton] at hα
    rcases hα with rfl | rfl <;> norm_num)
/-- hypotheses of `consumer_all_zero_of_many_alphas` are satisfiable -/
example : ∀ c ∈ [(0 : ℚ), 0], c = 0 :=
  consumer_all_zero_of_many_alphas [5, 7] 0 0 0 [0, 0] (by decide) (by
    rw [consumer_accs_field]; norm_num)

example : {α : ℚ | [1, -3, 2].foldl (fun acc c => acc * α + c) (0 : ℚ) = 0}.ncard ≤ 2 :=
  (consumer_acc_zero_set [1, -3, 2] ⟨1, by simp, by norm_num⟩).2
example : ∃ B : Finset ℚ, B.card ≤ 2 ∧ ∀ α ∈ [(1 : ℚ), 2], α ∈ B :=
  consumer_acc_zero_mem [1, 2] 0 0 0 [1, -3, 2] ⟨1, by simp, by norm_num⟩ (by
    rw [consumer_accs_field]; norm_num)
example : ∀ c ∈ [(0 : ℚ), 0], c = 0 :=
  consumer_terms_zero_of_many_zeros [0, 0] {5, 7} (by decide) (by
    intro α _; norm_num)

/-! ## B. `eval_l_0_and_l_last` -/

/-- the twin over a field, in Mathlib notation -/
theorem evalL0LLastK_eq (N : Nat) (ω x : K) :
    @evalL0LLastK K (FOps.ofField K) (N : K) ω N x
      = ((x ^ N - 1) * ((N : K) * (x - 1))⁻¹, (x ^ N - 1) * ((N : K) * (ω * x - 1))⁻¹,
          x - ω⁻¹) :=
  Lemmas.StarkAlg.evalL0LLastK_eq N ω x

/-- `FOps.pow` is `^` -/
theorem fopsPow_eq (x : K) (e : Nat) : @FOps.pow K (FOps.ofField K) x e = x ^ e :=
  Lemmas.C15.pow_eq x e

/-- off the point 1: `L_0(x) · N · (x − 1) = x^N − 1` -/
theorem l0_mul (N : Nat) (hN : (N : K) ≠ 0) (ω x : K) (hx : x ≠ 1) :
    (@evalL0LLastK K (FOps.ofField K) (N : K) ω N x).1 * ((N : K) * (x - 1)) = x ^ N - 1 := by
  rw [evalL0LLastK_eq]
  exact l0F_mul N hN x hx

/-- the FORMULA vanishes at every `N`-th root of unity — including `x = 1`, where the true `L_0`
is 1: there the denominator is zero, and the model (like the code) refuses to evaluate -/
theorem l0_of_pow_eq_one (N : Nat) (ω x : K) (hxn : x ^ N = 1) :
    (@evalL0LLastK K (FOps.ofField K) (N : K) ω N x).1 = 0 := by
  rw [evalL0LLastK_eq]
  exact l0F_of_pow_eq_one N x hxn

/-- off the point 1 it is `eval_l_0` of PLONK (C02b `evalL0_root`: the indicator of the first row
on the subgroup) -/
theorem l0_eq_evalL0 (N : Nat) (ω x : K) (hx : x ≠ 1) :
    (@evalL0LLastK K (FOps.ofField K) (N : K) ω N x).1 = @evalL0 K (FOps.ofField K) N x := by
  rw [evalL0LLastK_eq]
  exact l0F_eq_evalL0 N x hx

/-- off the point 1 it is the polynomial `(1/N)·Σ_{j<N} x^j`, … -/
theorem l0_eq_geom (N : Nat) (ω x : K) (hx : x ≠ 1) :
    (@evalL0LLastK K (FOps.ofField K) (N : K) ω N x).1
      = (N : K)⁻¹ * ∑ j ∈ Finset.range N, x ^ j := by
  rw [evalL0LLastK_eq]
  exact l0F_eq_geom N x hx

omit [DecidableEq K] in
/-- … whose value at 1 is 1 -/
theorem l0_poly_at_one (N : Nat) (hN : (N : K) ≠ 0) :
    (N : K)⁻¹ * ∑ j ∈ Finset.range N, (1 : K) ^ j = 1 :=
  geom_at_one N hN

/-- `L_last(x) = L_0(ω·x)` (formula level), for `ω^N = 1` -/
theorem lLast_eq_l0 (N : Nat) (ω x : K) (hω : ω ^ N = 1) :
    (@evalL0LLastK K (FOps.ofField K) (N : K) ω N x).2.1
      = (@evalL0LLastK K (FOps.ofField K) (N : K) ω N (ω * x)).1 := by
  rw [evalL0LLastK_eq, evalL0LLastK_eq, mul_pow_of_root N ω x hω]

/-- `L_last(x) · N · (ω·x − 1) = x^N − 1` off the last row's point -/
theorem lLast_mul (N : Nat) (hN : (N : K) ≠ 0) (ω x : K) (hx : ω * x ≠ 1) :
    (@evalL0LLastK K (FOps.ofField K) (N : K) ω N x).2.1 * ((N : K) * (ω * x - 1))
      = x ^ N - 1 := by
  rw [evalL0LLastK_eq]
  exact inv_mul_cancel_right₀ (mul_ne_zero hN (sub_ne_zero.2 hx)) _

/-- the formula vanishes at every `N`-th root of unity (at `x = ω⁻¹` by division by zero) -/
theorem lLast_of_pow_eq_one (N : Nat) (ω x : K) (hxn : x ^ N = 1) :
    (@evalL0LLastK K (FOps.ofField K) (N : K) ω N x).2.1 = 0 := by
  rw [evalL0LLastK_eq]
  show (x ^ N - 1) * _ = 0
  rw [hxn, sub_self, zero_mul]

/-- off the last row's point it is `eval_l_0(ω·x)`, the indicator of the last row … -/
theorem lLast_eq_evalL0 (N : Nat) (ω x : K) (hω : ω ^ N = 1) (hx : ω * x ≠ 1) :
    (@evalL0LLastK K (FOps.ofField K) (N : K) ω N x).2.1
      = @evalL0 K (FOps.ofField K) N (ω * x) := by
  rw [lLast_eq_l0 N ω x hω, l0_eq_evalL0 N ω (ω * x) hx]

/-- … on the subgroup: `eval_l_0(ω·ω^k)` is 1 on row `N − 1` and 0 elsewhere -/
theorem lLast_poly_root (N : Nat) (ω : K) (hω : IsPrimitiveRoot ω N) (k : Nat) :
    @evalL0 K (FOps.ofField K) N (ω * ω ^ k) = if (k + 1) % N = 0 then 1 else 0 := by
  rw [← pow_succ']
  exact Lemmas.PlonkAlg.evalL0_root N ω hω (k + 1)

/-- the polynomial form: `(1/N)·Σ_{j<N} (ω·x)^j` -/
theorem lLast_eq_geom (N : Nat) (ω x : K) (hω : ω ^ N = 1) (hx : ω * x ≠ 1) :
    (@evalL0LLastK K (FOps.ofField K) (N : K) ω N x).2.1
      = (N : K)⁻¹ * ∑ j ∈ Finset.range N, (ω * x) ^ j := by
  rw [lLast_eq_l0 N ω x hω, l0_eq_geom N ω (ω * x) hx]

/-- `z_last` vanishes exactly at the last row's point `ω⁻¹ = ω^(N−1)` -/
theorem zLast_eq_zero_iff (N : Nat) (hN : 0 < N) (ω x : K) (hω : IsPrimitiveRoot ω N) :
    (@evalL0LLastK K (FOps.ofField K) (N : K) ω N x).2.2 = 0 ↔ x = ω ^ (N - 1) := by
  rw [evalL0LLastK_eq, ← inv_eq_pow_pred N hN ω hω.pow_eq_one]
  exact sub_eq_zero

/-- on the subgroup: `z_last(ω^k) = 0` iff `k` is the last row (mod `N`) -/
theorem zLast_root (N : Nat) (hN : 0 < N) (ω : K) (hω : IsPrimitiveRoot ω N) (k : Nat) :
    (@evalL0LLastK K (FOps.ofField K) (N : K) ω N (ω ^ k)).2.2 = 0 ↔ (k + 1) % N = 0 := by
  rw [evalL0LLastK_eq, ← pow_eq_inv_iff N ω hω hN k]
  exact sub_eq_zero

/-! ### the model's `evalL0LLast` -/

/-- when `eval_l_0_and_l_last` returns, it returns the three expressions of the twin with
`n = 2^logN` embedded, `N = 2^logN`, multiplication by `g` being `scalar_mul`, and `g⁻¹` taken in
the base field -/
theorem evalL0LLast_ok (logN : Nat) (x : GL2) (r : GL2 × GL2 × GL2)
    (h : Stark.evalL0LLast logN x = .ok r) :
    r = ((FOps.pow x (2 ^ logN) - FOps.one) *
            FOps.inv (GL2.ofBase (GL.ofNat (2 ^ logN)) * (x - FOps.one)),
         (FOps.pow x (2 ^ logN) - FOps.one) *
            FOps.inv (GL2.ofBase (GL.ofNat (2 ^ logN)) *
              (GL2.scalarMul x (GL.primitiveRoot logN) - FOps.one)),
         x - GL2.ofBase (GL.inv (GL.primitiveRoot logN))) :=
  Lemmas.StarkAlg.evalL0LLast_ok logN x r h

/-- `L_0` and `L_last` are literally the twin's (at `K = GL2`, `g` embedded); `z_last` differs only
in where `g` is inverted -/
theorem evalL0LLast_eq_twin (logN : Nat) (x : GL2) (r : GL2 × GL2 × GL2)
    (h : Stark.evalL0LLast logN x = .ok r) :
    r.1 = (evalL0LLastK (GL2.ofBase (GL.ofNat (2 ^ logN))) (GL2.ofBase (GL.primitiveRoot logN))
            (2 ^ logN) x).1 ∧
    r.2.1 = (evalL0LLastK (GL2.ofBase (GL.ofNat (2 ^ logN))) (GL2.ofBase (GL.primitiveRoot logN))
            (2 ^ logN) x).2.1 ∧
    r.2.2 = x - GL2.ofBase (GL.inv (GL.primitiveRoot logN)) := by
  rw [Lemmas.StarkAlg.evalL0LLast_ok logN x r h]
  refine ⟨rfl, ?_, rfl⟩
  show _ = _ * FOps.inv (_ * (GL2.ofBase (GL.primitiveRoot logN) * x - FOps.one))
  rw [← scalarMul_eq x (GL.primitiveRoot logN)]

/-- it fails (a panic in the code) exactly for `logN > 32` or a zero denominator -/
theorem evalL0LLast_error_iff (logN : Nat) (x : GL2) :
    (∃ e, Stark.evalL0LLast logN x = .error e) ↔
      logN > 32 ∨
      ((GL2.ofBase (GL.ofNat (2 ^ logN)) * (x - FOps.one)) *
        (GL2.ofBase (GL.ofNat (2 ^ logN)) *
          (GL2.scalarMul x (GL.primitiveRoot logN) - FOps.one)) == (FOps.zero : GL2)) = true :=
  Lemmas.StarkAlg.evalL0LLast_error_iff logN x

/-- the hypothesis of `evalL0LLast_ok` is satisfiable: `logN = 1`, `x = 2` -/
example : ∃ r, Stark.evalL0LLast 1 (⟨2, 0⟩ : GL2) = .ok r := by
  have h : (match Stark.evalL0LLast 1 (⟨2, 0⟩ : GL2) with
      | .ok _ => true | .error _ => false) = true := by decide +kernel
  cases he : Stark.evalL0LLast 1 (⟨2, 0⟩ : GL2) with
  | ok r => exact ⟨r, rfl⟩
  | error e => rw [he] at h; exact absurd h (by simp)
/-- … and so is the error case: the first row's point `x = 1` -/
example : ∃ e, Stark.evalL0LLast 1 (⟨1, 0⟩ : GL2) = .error e := by
  rw [evalL0LLast_error_iff]
  right
  decide +kernel

/-- `-1` is a primitive 2nd root of unity in ℚ: `N = 2`, rows at `1, −1` -/
theorem negOne_primitive : IsPrimitiveRoot (-1 : ℚ) 2 := by
  rw [show (2 : ℕ) = 2 ^ 1 by norm_num]; exact IsPrimitiveRoot.neg_one 0 (by norm_num)

example : (@evalL0LLastK ℚ (FOps.ofField ℚ) ((2 : ℕ) : ℚ) (-1) 2 3) = (2, -1, 4) := by
  rw [evalL0LLastK_eq]; norm_num
example : (@evalL0LLastK ℚ (FOps.ofField ℚ) ((2 : ℕ) : ℚ) (-1) 2 3).1 * (((2 : ℕ) : ℚ) * (3 - 1))
    = 3 ^ 2 - 1 := l0_mul 2 (by norm_num) (-1) 3 (by norm_num)
example : (@evalL0LLastK ℚ (FOps.ofField ℚ) ((2 : ℕ) : ℚ) (-1) 2 (-1)).1 = 0 :=
  l0_of_pow_eq_one 2 (-1) (-1) (by norm_num)
example : (@evalL0LLastK ℚ (FOps.ofField ℚ) ((2 : ℕ) : ℚ) (-1) 2 1).2.1 = 0 :=
  lLast_of_pow_eq_one 2 (-1) 1 (by norm_num)
example : (@evalL0LLastK ℚ (FOps.ofField ℚ) ((2 : ℕ) : ℚ) (-1) 2 3).2.1
    = @evalL0 ℚ (FOps.ofField ℚ) 2 (-1 * 3) :=
  lLast_eq_evalL0 2 (-1) 3 (by norm_num) (by norm_num)
example : (@evalL0LLastK ℚ (FOps.ofField ℚ) ((2 : ℕ) : ℚ) (-1) 2 (-1)).2.2 = 0 :=
  (zLast_eq_zero_iff 2 (by norm_num) (-1) (-1) negOne_primitive).2 (by norm_num)
example : @evalL0 ℚ (FOps.ofField ℚ) 2 (-1 * (-1) ^ 1) = 1 := by
  simpa using lLast_poly_root 2 (-1 : ℚ) negOne_primitive 1

end P2.Props.C09b
