/-
C05 (batched variant): decision logic of the batch FRI verifier model (`P2.Model.BatchFri`) stated
outright, for arbitrary proofs, instances, parameters and challenges, and its agreement with the
single-degree verifier (`P2.Model.Fri`) on a single instance.
The proximity soundness of FRI itself is NOT proved here (see DESIGN.md, trusted base).
-/
import P2.Model.BatchFri
import P2.Props.C05
namespace P2.Props.C05c
open P2 P2.Fri P2.Merkle P2.Props.C05

/-- **Acceptance is the conjunction of all checks** (top level of `verify_batch_fri_proof`): shape
validation over all instances, proof of work, query count, and every query round. -/
theorem verifyBatch_accept_iff (insts : List Instance) (openings : List (List (List GL2)))
    (ch : Challenges) (degreeBits : List Nat) (caps : List (List Digest)) (proof : Proof)
    (p : FriParams) :
    BatchFri.verifyBatch insts openings ch degreeBits caps proof p = .accept ↔
      BatchFri.validateShape proof insts p = .accept ∧
      powOk ch.powResponse p.config.powBits = true ∧
      p.config.numQueryRounds = proof.queries.length ∧
      ∀ xq ∈ ch.queryIndices.zip proof.queries,
        BatchFri.queryRound insts ch
          (openings.map fun op => op.map fun vals => reduceExt vals ch.alpha)
          (degreeBits.map (· + p.config.rateBits)) caps proof xq.1 xq.2 p = .accept := by
  unfold BatchFri.verifyBatch
  cases hs : BatchFri.validateShape proof insts p with
  | accept =>
    simp only [true_and]
    by_cases hp : powOk ch.powResponse p.config.powBits = true
    · by_cases hq : p.config.numQueryRounds = proof.queries.length
      · have hq' : ¬ (p.config.numQueryRounds ≠ proof.queries.length) := by simp [hq]
        simp only [hp, Bool.not_true, Bool.false_eq_true, if_false, if_neg hq', true_and]
        rw [firstBad_accept_iff]
        constructor
        · intro h
          refine ⟨hq, ?_⟩
          intro xq hxq
          exact h _ (List.mem_map.2 ⟨xq, hxq, by rcases xq with ⟨a, b⟩; rfl⟩)
        · rintro ⟨_, h⟩ v hv
          rcases List.mem_map.1 hv with ⟨xq, hxq, rfl⟩
          rcases xq with ⟨a, b⟩
          exact h (a, b) hxq
      · simp [hp, hq]
    · simp [hp]
  | reject s => simp
  | panic s => simp

/-- an insufficient proof-of-work response is rejected, whatever else the proof contains -/
theorem bad_pow_rejected (insts : List Instance) (openings : List (List (List GL2)))
    (ch : Challenges) (degreeBits : List Nat) (caps : List (List Digest)) (proof : Proof)
    (p : FriParams) (h : powOk ch.powResponse p.config.powBits = false) :
    BatchFri.verifyBatch insts openings ch degreeBits caps proof p ≠ .accept := by
  intro hacc
  have := (verifyBatch_accept_iff insts openings ch degreeBits caps proof p).1 hacc
  rw [h] at this
  exact absurd this.2.1 (by simp)

/-! ### a single instance: the batch verifier is the single-degree verifier -/

section loops
theorem forIn_zip_map {m : Type → Type} [Monad m] {α β γ σ : Type} (l : List α) (os : List β) (f : β → γ) (init : σ)
    (b1 : α × γ → σ → m (ForInStep σ)) (b2 : α × β → σ → m (ForInStep σ))
    (h : ∀ a o s, b1 (a, f o) s = b2 (a, o) s) :
    forIn (l.zip (os.map f)) init b1 = forIn (l.zip os) init b2 := by
  induction l generalizing os init with
  | nil => simp
  | cons a l ih =>
    cases os with
    | nil => simp
    | cons o os =>
      simp only [List.map_cons, List.zip_cons_cons, List.forIn_cons, h]
      congr
      funext r
      cases r <;> simp [ih]

theorem zip_replicate_map {β : Type} (os : List β) (f : β → Nat) :
    ((List.replicate os.length 0).zip os).map (fun x => x.1 + f x.2) = os.map f := by
  induction os with
  | nil => simp
  | cons o os ih => simp [List.replicate_succ, ih]

theorem leafLens_single (hid : Bool) (inst : Instance) (n : Nat) :
    BatchFri.leafLens hid n [inst] (List.replicate n 0) =
      if n ≠ inst.oracles.length then none
      else some (inst.oracles.map fun o => o.numPolys + saltSize (o.blinding && hid)) := by
  unfold BatchFri.leafLens
  by_cases h : n = inst.oracles.length
  · subst h
    simp only [ne_eq, not_true_eq_false, if_false, BatchFri.leafLens]
    congr 1
    exact zip_replicate_map inst.oracles (fun o => o.numPolys + saltSize (o.blinding && hid))
  · simp [h]

theorem forIn_body_congr {m : Type → Type} [Monad m] {α σ : Type} (l : List α) (init : σ)
    (b1 b2 : α → σ → m (ForInStep σ)) (h : ∀ x s, b1 x s = b2 x s) :
    forIn l init b1 = forIn l init b2 := by
  have : b1 = b2 := funext fun x => funext (h x)
  rw [this]

theorem validateShape_single (proof : Proof) (inst : Instance) (p : FriParams) :
    BatchFri.validateShape proof [inst] p = Fri.validateShape proof inst p := by
  unfold BatchFri.validateShape Fri.validateShape
  simp only [Id.run, bind, pure]
  split
  · rfl
  · split
    · rfl
    · congr 2
      apply forIn_body_congr
      intro q s
      rw [leafLens_single]
      by_cases h : q.initial.length = inst.oracles.length
      · simp only [ne_eq, h, not_true_eq_false, if_false]
        rw [forIn_zip_map (m := Id) q.initial inst.oracles (fun o => o.numPolys + saltSize (o.blinding && p.isHiding))]
        intro a o s
        rfl
      · simp [h]

theorem forIn_inv {α σ : Type} (body : α → Option Verdict × σ → Id (ForInStep (Option Verdict × σ)))
    (Q : List α → σ → Prop) (R : Verdict → Prop)
    (hyield : ∀ x rest s r, body x (none, s) = ForInStep.yield r → r.1 = none ∧ (Q rest r.2 → Q (x :: rest) s))
    (hdone : ∀ x s r, body x (none, s) = ForInStep.done r → ∃ v, r.1 = some v ∧ R v)
    (hnil : ∀ s, Q [] s) (l : List α) :
    ∀ s, match (forIn (m := Id) l (none, s) body).fst with
      | none => Q l s
      | some v => R v := by
  induction l with
  | nil => intro s; exact hnil s
  | cons x rest ih =>
    intro s
    rw [List.forIn_cons]
    cases hb : body x (none, s) with
    | done r =>
      obtain ⟨v, hv, hR⟩ := hdone x s r hb
      show match r.fst with | none => _ | some v => R v
      rw [hv]; exact hR
    | yield r =>
      obtain ⟨hn, hq⟩ := hyield x rest s r hb
      have hr : r = (none, r.2) := by rw [← hn]
      have := ih r.2
      rw [← hr] at this
      show match (forIn (m := Id) rest r body).fst with | none => _ | some v => R v
      split at this
      · exact hq this
      · exact this

theorem forIn_some_R {α σ : Type} (body : α → Option Verdict × σ → Id (ForInStep (Option Verdict × σ)))
    (Q : List α → σ → Prop) (R : Verdict → Prop) (l : List α) (s : σ) (v : Verdict)
    (h : (forIn (m := Id) l (none, s) body).fst = some v)
    (hyield : ∀ x rest s r, body x (none, s) = ForInStep.yield r → r.1 = none ∧ (Q rest r.2 → Q (x :: rest) s))
    (hdone : ∀ x s r, body x (none, s) = ForInStep.done r → ∃ v, r.1 = some v ∧ R v)
    (hnil : ∀ s, Q [] s) : R v := by
  have := forIn_inv body Q R hyield hdone hnil l s
  rw [h] at this; exact this

theorem forIn_none_Q {α σ : Type} (body : α → Option Verdict × σ → Id (ForInStep (Option Verdict × σ)))
    (Q : List α → σ → Prop) (R : Verdict → Prop) (l : List α) (s : σ)
    (h : (forIn (m := Id) l (none, s) body).fst = none)
    (hyield : ∀ x rest s r, body x (none, s) = ForInStep.yield r → r.1 = none ∧ (Q rest r.2 → Q (x :: rest) s))
    (hdone : ∀ x s r, body x (none, s) = ForInStep.done r → ∃ v, r.1 = some v ∧ R v)
    (hnil : ∀ s, Q [] s) : Q l s := by
  have := forIn_inv body Q R hyield hdone hnil l s
  rw [h] at this; exact this

def noUF : List Nat → Nat → Prop
  | [], _ => True
  | ab :: r, b => ab ≤ b ∧ noUF r (b - ab)

def QFacts (inst : Instance) (p : FriParams) (q : QueryRound) : Prop :=
  q.initial.length = inst.oracles.length ∧
  (∀ x ∈ q.initial.zip inst.oracles,
     x.1.1.length = x.2.numPolys + saltSize (x.2.blinding && p.isHiding) ∧
     x.1.2.length + p.config.capHeight = p.ldeBits) ∧
  q.steps.length = p.arityBits.length ∧
  noUF ((q.steps.zip p.arityBits).map (·.2)) p.ldeBits

theorem validateShape_facts (proof : Proof) (inst : Instance) (p : FriParams)
    (h : Fri.validateShape proof inst p = .accept) :
    ∀ q ∈ proof.queries, QFacts inst p q := by
  unfold Fri.validateShape at h
  simp only [Id.run, bind, pure] at h
  split at h
  · cases h
  split at h
  · rename_i r heq
    have hR : r ≠ .accept := by
      refine forIn_some_R _ (fun _ _ => True) (fun v => v ≠ .accept) _ _ _ heq ?_ ?_ ?_
      · intro x rest s r hb
        split at hb
        · cases hb
        · cases hb; exact ⟨rfl, fun _ => trivial⟩
      · intro x s r hb
        split at hb
        · cases hb; exact ⟨_, rfl, by simp⟩
        · cases hb
      · intro _; trivial
    exact absurd h hR
  · generalize hB : Prod.fst (forIn (m := Id) proof.queries ((none : Option Verdict), ()) _) = res at h
    have key : (match (generalizing := false) res with
        | none => ∀ q ∈ proof.queries, QFacts inst p q
        | some v => v ≠ Verdict.accept) := by
      rw [← hB]
      refine forIn_inv _ (fun l _ => ∀ q ∈ l, QFacts inst p q) (fun v => v ≠ .accept) ?_ ?_ ?_ proof.queries ()
      · intro q rest s r hb
        split at hb
        · cases hb
        · rename_i hlen
          split at hb
          · cases hb
          · rename_i heq2
            split at hb
            · cases hb
            · rename_i hsteps
              split at hb
              · cases hb
              · rename_i heq3
                cases hb
                refine ⟨rfl, fun hrest q' hq' => ?_⟩
                rcases List.mem_cons.1 hq' with rfl | hq'
                · refine ⟨Decidable.not_not.1 hlen, ?_, Decidable.not_not.1 hsteps, ?_⟩
                  · refine forIn_none_Q _ (fun l _ => ∀ x ∈ l, x.1.1.length = x.2.numPolys + saltSize (x.2.blinding && p.isHiding) ∧ x.1.2.length + p.config.capHeight = p.ldeBits) (fun v => v ≠ .accept) _ _ heq2 ?_ ?_ ?_
                    · intro x rest s r hb
                      split at hb
                      · cases hb
                      · rename_i h1
                        split at hb
                        · cases hb
                        · rename_i h2
                          cases hb
                          refine ⟨rfl, fun hrest y hy => ?_⟩
                          rcases List.mem_cons.1 hy with rfl | hy
                          · exact ⟨Decidable.not_not.1 h1, Decidable.not_not.1 h2⟩
                          · exact hrest y hy
                    · intro x s r hb
                      split at hb
                      · cases hb; exact ⟨_, rfl, by simp⟩
                      · split at hb
                        · cases hb; exact ⟨_, rfl, by simp⟩
                        · cases hb
                    · intro _ y hy; cases hy
                  · refine forIn_none_Q _ (fun l b => noUF (l.map (·.2)) b) (fun v => v ≠ .accept) _ _ heq3 ?_ ?_ ?_
                    · intro x rest s r hb
                      split at hb
                      · cases hb
                      · rename_i h1
                        split at hb
                        · cases hb
                        · split at hb
                          · cases hb
                          · cases hb
                            refine ⟨rfl, fun hrest => ?_⟩
                            exact ⟨Nat.le_of_not_lt h1, hrest⟩
                    · intro x s r hb
                      split at hb
                      · cases hb; exact ⟨_, rfl, by simp⟩
                      · split at hb
                        · cases hb; exact ⟨_, rfl, by simp⟩
                        · split at hb
                          · cases hb; exact ⟨_, rfl, by simp⟩
                          · cases hb
                    · intro _; trivial
                · exact hrest q' hq'
      · intro q s r hb
        split at hb
        · cases hb; exact ⟨_, rfl, by simp⟩
        · split at hb
          · rename_i r' heq2
            cases hb
            refine ⟨_, rfl, ?_⟩
            refine forIn_some_R _ (fun _ _ => True) (fun v => v ≠ .accept) _ _ _ heq2 ?_ ?_ ?_
            · intro x rest s r hb
              split at hb
              · cases hb
              · split at hb
                · cases hb
                · cases hb; exact ⟨rfl, fun _ => trivial⟩
            · intro x s r hb
              split at hb
              · cases hb; exact ⟨_, rfl, by simp⟩
              · split at hb
                · cases hb; exact ⟨_, rfl, by simp⟩
                · cases hb
            · intro _; trivial
          · split at hb
            · cases hb; exact ⟨_, rfl, by simp⟩
            · split at hb
              · rename_i r' heq3
                cases hb
                refine ⟨_, rfl, ?_⟩
                refine forIn_some_R _ (fun _ _ => True) (fun v => v ≠ .accept) _ _ _ heq3 ?_ ?_ ?_
                · intro x rest s r hb
                  split at hb
                  · cases hb
                  · split at hb
                    · cases hb
                    · split at hb
                      · cases hb
                      · cases hb; exact ⟨rfl, fun _ => trivial⟩
                · intro x s r hb
                  split at hb
                  · cases hb; exact ⟨_, rfl, by simp⟩
                  · split at hb
                    · cases hb; exact ⟨_, rfl, by simp⟩
                    · split at hb
                      · cases hb; exact ⟨_, rfl, by simp⟩
                      · cases hb
                · intro _; trivial
              · cases hb
      · intro _ q hq; cases hq
    cases res with
    | none => exact key
    | some v =>
      exact absurd h key

end loops

theorem batchFold_single (h : Hasher (List GL) Digest) (row : List GL) (H : Nat) :
    ∀ (mp : List Digest) (cur : Digest) (height idx : Nat), mp.length ≤ height →
      BatchFri.batchFold h [row] [H] cur height idx 1 mp =
        some ((foldPath h cur idx mp).1, (foldPath h cur idx mp).2, 1) := by
  intro mp
  induction mp with
  | nil => intro cur height idx _; simp [BatchFri.batchFold, foldPath]
  | cons s rest ih =>
    intro cur height idx hlen
    have hpos : height ≠ 0 := by simp at hlen; omega
    simp only [BatchFri.batchFold, foldPath, hpos, if_false]
    have : ([H] : List Nat)[1]? = none := rfl
    simp only [this]
    apply ih
    simp at hlen; omega

theorem verifyBatchToCap_single (leaf : List GL) (H x : Nat) (cap : List Digest) (mp : List Digest)
    (hlen : mp.length ≤ H) :
    BatchFri.verifyBatchToCap digestHasher [leaf] [H] x cap mp =
      match verifyToCap digestHasher leaf x cap mp with
      | .ok => .ok
      | .err => .err
      | .panic => .panic "cap index out of range" := by
  unfold BatchFri.verifyBatchToCap verifyToCap
  simp only [List.length_cons, List.length_nil, ne_eq, not_true_eq_false, if_false]
  rw [batchFold_single _ _ _ _ _ _ _ hlen]
  simp only
  cases hc : cap[(foldPath digestHasher (digestHasher.hashLeaf leaf) x mp).2]? with
  | none => simp
  | some c =>
    by_cases hd : (foldPath digestHasher (digestHasher.hashLeaf leaf) x mp).1 = c <;> simp [hd]

theorem saltSize_false : saltSize false = 0 := rfl

theorem splitLeaf_single (i : Nat) (leaf : List GL) (inst : Instance) (o : OracleInfo)
    (ho : inst.oracles[i]? = some o) (hl : leaf.length = o.numPolys) :
    BatchFri.splitLeaf i leaf [inst] 0 = some [leaf] := by
  simp only [BatchFri.splitLeaf, ho]
  have : ¬ (o.numPolys ≠ 0 ∧ leaf.length < 0 + o.numPolys) := by omega
  simp only [this, if_false, Option.map_some, List.drop_zero]
  rw [← hl, List.take_length]

theorem initialChecks_single (inst : Instance) (p : FriParams) (q : QueryRound)
    (caps : List (List Digest)) (x : Nat) (hf : QFacts inst p q)
    (hsalt : ∀ o ∈ inst.oracles, (o.blinding && p.isHiding) = false) :
    BatchFri.initialChecks [inst] [p.ldeBits] q.initial caps x = Fri.initialChecks q.initial caps x := by
  obtain ⟨hlen, hleaf, _, _⟩ := hf
  unfold BatchFri.initialChecks Fri.initialChecks
  apply List.ext_getElem
  · simp
  · intro i h1 h2
    simp only [List.getElem_map, List.getElem_zipIdx, List.getElem_zip, Nat.zero_add]
    have hi : i < q.initial.length := by simp at h2; omega
    have hio : i < inst.oracles.length := hlen ▸ hi
    have hmem : (q.initial[i], inst.oracles[i]) ∈ q.initial.zip inst.oracles := by
      rw [← List.getElem_zip (h := by simp; omega)]
      exact List.getElem_mem _
    have hfact := hleaf _ hmem
    have hs := hsalt _ (List.getElem_mem hio)
    rw [hs, saltSize_false, Nat.add_zero] at hfact
    rw [splitLeaf_single i _ inst inst.oracles[i] (List.getElem?_eq_getElem hio) hfact.1]
    simp only
    have hmp : q.initial[i].2.length ≤ p.ldeBits := by have := hfact.2; simp only at this; omega
    have hic : i < caps.length := by simp at h2; omega
    rw [verifyBatchToCap_single _ _ _ _ _ hmp]
    cases verifyToCap digestHasher q.initial[i].1 x caps[i] q.initial[i].2 <;> rfl

theorem stepsFrom_single (inst : Instance) (red : List GL2) (H : Nat) (proof : Proof) (ch : Challenges)
    (q : QueryRound) (p : FriParams) :
    ∀ (arities : List Nat) (i xIndex : Nat) (x : GL) (old : GL2) (n : Nat), noUF arities n →
      BatchFri.stepsFrom [inst] [red] [H] proof ch q p arities i xIndex x old n 1 =
        ((Fri.stepsFrom proof ch q arities i xIndex x old).1,
         (Fri.stepsFrom proof ch q arities i xIndex x old).2.1,
         (Fri.stepsFrom proof ch q arities i xIndex x old).2.2, 1) := by
  intro arities
  induction arities with
  | nil => intro i xIndex x old n _; simp [BatchFri.stepsFrom, Fri.stepsFrom]
  | cons ab rest ih =>
    intro i xIndex x old n hn
    obtain ⟨hab, hrest⟩ := hn
    simp only [BatchFri.stepsFrom, Fri.stepsFrom]
    cases hs : q.steps[i]? with
    | none => simp
    | some st =>
      simp only
      cases he : st.evals[xIndex % 2 ^ ab]? with
      | none => simp
      | some e =>
        simp only
        by_cases hcons : (e == old) = true
        · simp only [hcons, Bool.not_true, Bool.false_eq_true, if_false]
          cases hb : ch.betas[i]? with
          | none => simp
          | some beta =>
            simp only
            cases hcap : proof.commitCaps[i]? with
            | none => simp
            | some cap =>
              simp only
              cases hv : verifyToCap digestHasher (st.evals.flatMap fun v => [v.a, v.b]) (xIndex / 2 ^ ab) cap st.merkleProof with
              | err => simp
              | panic => simp
              | ok =>
                simp only
                have hlt : ¬ (n < ab) := by omega
                have h1 : ([H] : List Nat)[1]? = none := rfl
                simp only [hlt, if_false, h1]
                exact ih _ _ _ _ _ hrest
        · simp [hcons]

theorem queryRound_single (inst : Instance) (ch : Challenges) (red : List GL2)
    (caps : List (List Digest)) (proof : Proof) (x0 : Nat) (q : QueryRound) (p : FriParams)
    (hf : QFacts inst p q) (hsalt : ∀ o ∈ inst.oracles, (o.blinding && p.isHiding) = false) :
    BatchFri.queryRound [inst] ch [red] [p.ldeBits] caps proof x0 q p =
      Fri.queryRound inst ch red caps proof x0 q p := by
  unfold BatchFri.queryRound Fri.queryRound
  rw [initialChecks_single inst p q caps x0 hf hsalt]
  have hnoUF : noUF p.arityBits p.ldeBits := by
    obtain ⟨_, _, hsl, hu⟩ := hf
    rwa [List.map_snd_zip (by omega)] at hu
  cases hfb : firstBad (Fri.initialChecks q.initial caps x0) with
  | reject s => rfl
  | panic s => rfl
  | accept =>
    simp only [BatchFri.combineAt, BatchFri.subgroupX, List.getElem?_cons_zero]
    cases hc : combineInitial inst q.initial ch.alpha
        (GL.multGen * GL.pow (GL.primitiveRoot p.ldeBits) (BitRev.bitrev p.ldeBits x0)) red p with
    | none => rfl
    | some old0 =>
      simp only
      rw [stepsFrom_single inst red p.ldeBits proof ch q p p.arityBits 0 x0 _ old0 p.ldeBits hnoUF]
      generalize Fri.stepsFrom proof ch q p.arityBits 0 x0
        (GL.multGen * GL.pow (GL.primitiveRoot p.ldeBits) (BitRev.bitrev p.ldeBits x0)) old0 = r
      obtain ⟨v, lastEval, xf⟩ := r
      cases v <;> simp

/-- **On a single instance the batch verifier is the single-degree verifier**, on every input whose
oracles carry no salt (`blinding && hiding` false for every oracle): same verdict, same stage. -/
theorem verifyBatch_single (inst : Instance) (openings : List (List GL2)) (ch : Challenges)
    (caps : List (List Digest)) (proof : Proof) (p : FriParams)
    (hsalt : ∀ o ∈ inst.oracles, (o.blinding && p.isHiding) = false) :
    BatchFri.verifyBatch [inst] [openings] ch [p.degreeBits] caps proof p =
      Fri.verify inst openings ch caps proof p := by
  unfold BatchFri.verifyBatch Fri.verify
  rw [validateShape_single]
  cases hs : Fri.validateShape proof inst p with
  | reject s => rfl
  | panic s => rfl
  | accept =>
    simp only
    split
    · rfl
    · split
      · rfl
      · congr 1
        apply List.map_congr_left
        rintro ⟨xi, q⟩ hxq
        have hq : q ∈ proof.queries := (List.of_mem_zip hxq).2
        exact queryRound_single inst ch _ caps proof xi q p (validateShape_facts proof inst p hs q hq) hsalt

/-! ### what acceptance of a batched query round means -/

/-- **Acceptance of one batched query round** implies each named check of that round: every batched
initial Merkle opening verifies, the combination of the largest instance is defined, the whole
reduction chain passes having folded in every instance, and the final polynomial evaluates to the
last folded value. -/
theorem queryRound_accept (insts : List Instance) (ch : Challenges) (red : List (List GL2))
    (heights : List Nat) (caps : List (List Digest)) (proof : Proof) (x0 : Nat) (q : QueryRound)
    (p : FriParams)
    (h : BatchFri.queryRound insts ch red heights caps proof x0 q p = .accept) :
    (∀ v ∈ BatchFri.initialChecks insts heights q.initial caps x0, v = .accept) ∧
    ∃ n rest old0 lastEval xf,
      heights = n :: rest ∧
      BatchFri.combineAt insts red 0 q.initial ch.alpha (BatchFri.subgroupX n x0) p = some old0 ∧
      BatchFri.stepsFrom insts red heights proof ch q p p.arityBits 0 x0 (BatchFri.subgroupX n x0) old0 n 1
        = (.accept, lastEval, xf, insts.length) ∧
      (Poly.eval proof.finalPoly (GL2.ofBase xf) == lastEval) = true := by
  unfold BatchFri.queryRound at h
  cases hfb : firstBad (BatchFri.initialChecks insts heights q.initial caps x0) with
  | reject s => simp [hfb] at h
  | panic s => simp [hfb] at h
  | accept =>
    simp only [hfb] at h
    refine ⟨(firstBad_accept_iff _).1 hfb, ?_⟩
    cases heights with
    | nil => simp at h
    | cons n rest =>
      simp only at h
      cases hc : BatchFri.combineAt insts red 0 q.initial ch.alpha (BatchFri.subgroupX n x0) p with
      | none => simp [hc] at h
      | some old0 =>
        simp only [hc] at h
        generalize hst : BatchFri.stepsFrom insts red (n :: rest) proof ch q p p.arityBits 0 x0
          (BatchFri.subgroupX n x0) old0 n 1 = r at h
        obtain ⟨v, lastEval, xf, k⟩ := r
        cases v with
        | reject s => simp at h
        | panic s => simp at h
        | accept =>
          simp only at h
          by_cases hk : k = insts.length
          · subst hk
            refine ⟨n, rest, old0, lastEval, xf, rfl, hc, hst, ?_⟩
            by_cases hf : (Poly.eval proof.finalPoly (GL2.ofBase xf) == lastEval) = true
            · exact hf
            · simp [hf] at h
          · simp [hk] at h

/-- **One reduction layer of the batched chain**: if the chain from layer `i` is accepted then at
layer `i` the queried evaluation equals the value carried from the previous layer, the coset's
Merkle opening verifies against that layer's cap, and the chain continues at the point `x^arity` on
the domain of `n − arity_bits` bits: from `compute_evaluation · β + (combined value of instance k)` when
that domain is the one of the next instance `k` (which is then consumed), from `compute_evaluation`
otherwise. -/
theorem stepsFrom_accept_cons (insts : List Instance) (red : List (List GL2)) (heights : List Nat)
    (proof : Proof) (ch : Challenges) (q : QueryRound) (p : FriParams)
    (ab : Nat) (rest : List Nat) (i xIndex : Nat) (x : GL) (oldEval lastEval : GL2) (xf : GL)
    (n k kf : Nat)
    (h : BatchFri.stepsFrom insts red heights proof ch q p (ab :: rest) i xIndex x oldEval n k
      = (.accept, lastEval, xf, kf)) :
    ∃ st e beta cap,
      q.steps[i]? = some st ∧ st.evals[xIndex % 2 ^ ab]? = some e ∧ (e == oldEval) = true ∧
      ch.betas[i]? = some beta ∧ proof.commitCaps[i]? = some cap ∧
      verifyToCap digestHasher (st.evals.flatMap fun v => [v.a, v.b]) (xIndex / 2 ^ ab) cap st.merkleProof = .ok ∧
      ab ≤ n ∧
      ((heights[k]? = some (n - ab) ∧ ∃ ev,
          BatchFri.combineAt insts red k q.initial ch.alpha (BatchFri.subgroupX (n - ab) (xIndex / 2 ^ ab)) p = some ev ∧
          BatchFri.stepsFrom insts red heights proof ch q p rest (i + 1) (xIndex / 2 ^ ab) (GL.pow x (2 ^ ab))
            (computeEvaluation x (xIndex % 2 ^ ab) ab st.evals beta * beta + ev) (n - ab) (k + 1)
              = (.accept, lastEval, xf, kf)) ∨
       (heights[k]? ≠ some (n - ab) ∧
          BatchFri.stepsFrom insts red heights proof ch q p rest (i + 1) (xIndex / 2 ^ ab) (GL.pow x (2 ^ ab))
            (computeEvaluation x (xIndex % 2 ^ ab) ab st.evals beta) (n - ab) k
              = (.accept, lastEval, xf, kf))) := by
  simp only [BatchFri.stepsFrom] at h
  cases hs : q.steps[i]? with
  | none => simp [hs] at h
  | some st =>
    simp only [hs] at h
    cases he : st.evals[xIndex % 2 ^ ab]? with
    | none => simp [he] at h
    | some e =>
      simp only [he] at h
      by_cases hcons : (e == oldEval) = true
      · simp only [hcons, Bool.not_true, Bool.false_eq_true, if_false] at h
        cases hb : ch.betas[i]? with
        | none => simp [hb] at h
        | some beta =>
          simp only [hb] at h
          cases hcap : proof.commitCaps[i]? with
          | none => simp [hcap] at h
          | some cap =>
            simp only [hcap] at h
            cases hv : verifyToCap digestHasher (st.evals.flatMap fun v => [v.a, v.b]) (xIndex / 2 ^ ab) cap st.merkleProof with
            | err => simp [hv] at h
            | panic => simp [hv] at h
            | ok =>
              simp only [hv] at h
              by_cases hlt : n < ab
              · simp [hlt] at h
              · simp only [hlt, if_false] at h
                refine ⟨st, e, beta, cap, rfl, he, hcons, rfl, rfl, hv, Nat.le_of_not_lt hlt, ?_⟩
                cases hk : heights[k]? with
                | none =>
                  simp only [hk] at h
                  exact Or.inr ⟨by simp, h⟩
                | some hk' =>
                  simp only [hk] at h
                  by_cases heq : n - ab = hk'
                  · simp only [heq, if_true] at h
                    left
                    refine ⟨by rw [heq], ?_⟩
                    rw [heq]
                    cases hcomb : BatchFri.combineAt insts red k q.initial ch.alpha
                        (BatchFri.subgroupX hk' (xIndex / 2 ^ ab)) p with
                    | none => simp [hcomb] at h
                    | some ev =>
                      simp only [hcomb] at h
                      exact ⟨ev, rfl, h⟩
                  · simp only [heq, if_false] at h
                    right
                    refine ⟨?_, h⟩
                    intro hc
                    exact heq (Option.some.inj hc).symm
      · simp [hcons] at h

/-- what `batch_fri_verify_initial_proof` hashes for an oracle on a single instance: the first
`num_polys` values of the leaf — the salt columns that `validate_batch_fri_proof_shape` requires
for a blinded oracle are cut off (finding F-C05b-1: honest hiding proofs are rejected). -/
theorem splitLeaf_single_take (i : Nat) (leaf : List GL) (inst : Instance) (o : OracleInfo)
    (ho : inst.oracles[i]? = some o) (hl : o.numPolys ≤ leaf.length) :
    BatchFri.splitLeaf i leaf [inst] 0 = some [leaf.take o.numPolys] := by
  simp only [BatchFri.splitLeaf, ho]
  have : ¬ (o.numPolys ≠ 0 ∧ leaf.length < 0 + o.numPolys) := by omega
  simp only [this, if_false, Option.map_some, List.drop_zero]

end P2.Props.C05c
