/-
C12 (batch Merkle trees): property theorems about `P2.Model.BatchMerkle` for an arbitrary hasher
and an arbitrary digest embedding `toVec` (`GenericHashOut::to_vec`).
(a) a batch verification with a single matrix is the plain verification;
(b) binding of batch openings (two accepted openings at the same index against the same cap with
    the same heights open the same rows of all matrices, or exhibit a collision);
(c) completeness for two matrices (every honest opening of a two-matrix tree is accepted).
-/
import P2.Model.BatchMerkle
import P2.Model.Keccak
import P2.Props.C12
import P2.Props.C12b
namespace P2.Props.C12
open P2 P2.Merkle P2.BatchMerkle P2.Lemmas.Merkle

variable {D : Type}

/-! ### (a) one matrix: `verify_merkle_proof_to_cap` is literally a batch call -/

/-- with nothing left to fold in and a height counter that cannot pass zero, the loop of
`verify_batch_merkle_proof_to_cap` is `foldPath` -/
theorem batchFold_nil (h : Hasher (List GL) D) (toVec : D → List GL) (ovf : Bool) :
    ∀ (π : List D) (cur : D) (ht idx : Nat), π.length ≤ ht →
      batchFold h toVec ovf cur ht idx [] π =
        some ((foldPath h cur idx π).1, (foldPath h cur idx π).2, []) := by
  intro π
  induction π with
  | nil => intro cur ht idx _; simp [batchFold, foldPath]
  | cons s rest ih =>
    intro cur ht idx hlen
    have hpos : ht ≠ 0 := by simp at hlen; omega
    have hlen' : rest.length ≤ ht - 1 := by simp at hlen; omega
    simp only [batchFold, foldPath, hpos, false_and, if_false]
    exact ih _ _ _ hlen'

/-- **(a)** `verify_merkle_proof_to_cap(leaf, i, cap, proof)` is defined in the code as
`verify_batch_merkle_proof_to_cap(&[leaf], &[proof.len()], i, cap, proof)`; on the model the two
agree for every hasher, every embedding, both overflow modes, every index, cap and proof. -/
theorem verifyBatch_single [DecidableEq D] (h : Hasher (List GL) D) (toVec : D → List GL)
    (ovf : Bool) (leaf : List GL) (index : Nat) (cap proof : List D) :
    verifyBatch h toVec ovf [leaf] [proof.length] index cap proof =
      verifyToCap h leaf index cap proof := by
  unfold verifyBatch verifyToCap
  simp only [List.length_cons, List.length_nil, ne_eq, not_true_eq_false, if_false, List.zip_cons_cons,
    List.zip_nil_right]
  rw [batchFold_nil h toVec ovf proof _ _ _ (Nat.le_refl _)]
  simp only [List.isEmpty_nil, Bool.not_true, Bool.false_eq_true, if_false]
  rfl

/-! ### (b) binding -/

/-- the embedding hypothesis of the binding theorem: the field-element image of a digest produced
by `two`, followed by a row, determines both the digest and the row (true when `toVec` is injective
and all digests have the same number of field elements: `HashOut` ↦ 4, `BytesHash<N>` ↦ ⌈N/7⌉) -/
def EmbedsTwo (h : Hasher (List GL) D) (toVec : D → List GL) : Prop :=
  ∀ a b a' b' (r r' : List GL),
    toVec (h.two a b) ++ r = toVec (h.two a' b') ++ r' → h.two a b = h.two a' b' ∧ r = r'

/-- one step: equal parents from (sibling, current) pairs at the same index -/
theorem step_inj (h : Hasher (List GL) D) (idx : Nat) (s s' cur cur' : D)
    (heq : (if idx % 2 = 1 then h.two s cur else h.two cur s) =
           (if idx % 2 = 1 then h.two s' cur' else h.two cur' s')) :
    (cur = cur' ∧ s = s') ∨ (∃ a b a' b', (a, b) ≠ (a', b') ∧ h.two a b = h.two a' b') := by
  by_cases hb : idx % 2 = 1
  · simp only [hb, if_true] at heq
    by_cases hp : (s, cur) = (s', cur')
    · left; have := Prod.mk.inj hp; exact ⟨this.2, this.1⟩
    · right; exact ⟨s, cur, s', cur', hp, heq⟩
  · simp only [hb, if_false] at heq
    by_cases hp : (cur, s) = (cur', s')
    · left; have := Prod.mk.inj hp; exact ⟨this.1, this.2⟩
    · right; exact ⟨cur, s, cur', s', hp, heq⟩

/-- the loop is injective in (current digest, rows still to fold in, siblings) — or a collision -/
theorem batchFold_inj (h : Hasher (List GL) D) (toVec : D → List GL) (ovf : Bool)
    (hemb : EmbedsTwo h toVec) :
    ∀ (π π' : List D) (cur cur' : D) (ht idx : Nat) (rest rest' : List (List GL × Nat))
      (d : D) (j j' : Nat),
      π.length = π'.length → rest.map (·.2) = rest'.map (·.2) →
      batchFold h toVec ovf cur ht idx rest π = some (d, j, []) →
      batchFold h toVec ovf cur' ht idx rest' π' = some (d, j', []) →
      (cur = cur' ∧ rest = rest' ∧ π = π') ∨ Collision h := by
  intro π
  induction π with
  | nil =>
    intro π' cur cur' ht idx rest rest' d j j' hl _ h1 h2
    cases π' with
    | cons _ _ => simp at hl
    | nil =>
      simp only [batchFold, Option.some.injEq, Prod.mk.injEq] at h1 h2
      left
      exact ⟨h1.1.trans h2.1.symm, h1.2.2.trans h2.2.2.symm, rfl⟩
  | cons s π ih =>
    intro π' cur cur' ht idx rest rest' d j j' hl hh h1 h2
    cases π' with
    | nil => simp at hl
    | cons s' π' =>
      have hl' : π.length = π'.length := by simpa using hl
      by_cases hz : ht = 0 ∧ ovf = true
      · simp [batchFold, hz] at h1
      · simp only [batchFold, hz, if_false] at h1 h2
        cases rest with
        | nil =>
          cases rest' with
          | cons _ _ => simp at hh
          | nil =>
            simp only at h1 h2
            rcases ih π' _ _ _ _ [] [] d j j' hl' rfl h1 h2 with ⟨e1, _, e3⟩ | c
            · rcases step_inj h idx s s' cur cur' e1 with ⟨a, b⟩ | c
              · left; exact ⟨a, rfl, by rw [b, e3]⟩
              · right; left; exact c
            · right; exact c
        | cons p r =>
          cases rest' with
          | nil => simp at hh
          | cons p' r' =>
            obtain ⟨row, g⟩ := p
            obtain ⟨row', g'⟩ := p'
            simp only [List.map_cons, List.cons.injEq] at hh
            obtain ⟨hg, hr⟩ := hh
            subst hg
            simp only at h1 h2
            by_cases hf : (if ht = 0 then usizeMax else ht - 1) = g
            · simp only [hf, if_true] at h1 h2
              rcases ih π' _ _ _ _ r r' d j j' hl' hr h1 h2 with ⟨e1, e2, e3⟩ | c
              · -- equal leaf hashes of `toVec parent ++ row`
                by_cases hv :
                    toVec (if idx % 2 = 1 then h.two s cur else h.two cur s) ++ row =
                    toVec (if idx % 2 = 1 then h.two s' cur' else h.two cur' s') ++ row'
                · have hpar : (if idx % 2 = 1 then h.two s cur else h.two cur s) =
                      (if idx % 2 = 1 then h.two s' cur' else h.two cur' s') ∧ row = row' := by
                    by_cases hb : idx % 2 = 1
                    · simp only [hb, if_true] at hv ⊢
                      exact hemb _ _ _ _ _ _ hv
                    · simp only [hb, if_false] at hv ⊢
                      exact hemb _ _ _ _ _ _ hv
                  rcases step_inj h idx s s' cur cur' hpar.1 with ⟨a, b⟩ | c
                  · left; exact ⟨a, by rw [hpar.2, e2], by rw [b, e3]⟩
                  · right; left; exact c
                · right; right; exact ⟨_, _, hv, e1⟩
              · right; exact c
            · simp only [hf, if_false] at h1 h2
              rcases ih π' _ _ _ _ ((row, g) :: r) ((row', g) :: r') d j j' hl'
                  (by simp [hr]) h1 h2 with ⟨e1, e2, e3⟩ | c
              · rcases step_inj h idx s s' cur cur' e1 with ⟨a, b⟩ | c
                · left; exact ⟨a, e2, by rw [b, e3]⟩
                · right; left; exact c
              · right; exact c

/-- two row lists zipped with the same height list of their common length coincide if the zips do -/
theorem zip_left_inj {α β : Type} : ∀ (l l' : List α) (hs : List β),
    l.length = hs.length → l'.length = hs.length → l.zip hs = l'.zip hs → l = l' := by
  intro l
  induction l with
  | nil => intro l' hs h1 h2 _; cases l' with
    | nil => rfl
    | cons _ _ => simp at h1; rw [← h1] at h2; simp at h2
  | cons a t ih =>
    intro l' hs h1 h2 hz
    cases hs with
    | nil => simp at h1
    | cons b hs =>
      cases l' with
      | nil => simp at h2
      | cons a' t' =>
        simp only [List.zip_cons_cons, List.cons.injEq, Prod.mk.injEq] at hz
        rw [hz.1.1, ih t' hs (by simpa using h1) (by simpa using h2) hz.2]

theorem map_snd_zip_of_len {α β : Type} : ∀ (l : List α) (hs : List β),
    l.length = hs.length → (l.zip hs).map (·.2) = hs := by
  intro l
  induction l with
  | nil => intro hs h; cases hs with
    | nil => rfl
    | cons _ _ => simp at h
  | cons a t ih =>
    intro hs h
    cases hs with
    | nil => simp at h
    | cons b hs => simp [ih hs (by simpa using h)]

/-- what an accepted batch verification says -/
theorem verifyBatch_ok [DecidableEq D] (h : Hasher (List GL) D) (toVec : D → List GL) (ovf : Bool)
    (data : List (List GL)) (heights : List Nat) (i : Nat) (cap π : List D)
    (hok : verifyBatch h toVec ovf data heights i cap π = .ok) :
    data.length = heights.length ∧
    ∃ d0 h0 rest c j, data.zip heights = (d0, h0) :: rest ∧
      batchFold h toVec ovf (h.hashLeaf d0) h0 i rest π = some (c, j, []) ∧ cap[j]? = some c := by
  unfold verifyBatch at hok
  by_cases hl : data.length = heights.length
  · refine ⟨hl, ?_⟩
    simp only [hl, ne_eq, not_true_eq_false, if_false] at hok
    cases hz : data.zip heights with
    | nil => simp [hz] at hok
    | cons p rest =>
      obtain ⟨d0, h0⟩ := p
      simp only [hz] at hok
      cases hf : batchFold h toVec ovf (h.hashLeaf d0) h0 i rest π with
      | none => simp [hf] at hok
      | some r =>
        obtain ⟨c, j, rest'⟩ := r
        simp only [hf] at hok
        cases rest' with
        | cons _ _ => simp at hok
        | nil =>
          simp only [List.isEmpty_nil, Bool.not_true, Bool.false_eq_true, if_false] at hok
          cases hc : cap[j]? with
          | none => simp [hc] at hok
          | some c' =>
            simp only [hc] at hok
            by_cases e : c = c'
            · exact ⟨d0, h0, rest, c, j, rfl, hf, by rw [hc, e]⟩
            · simp [e] at hok
  · simp [hl] at hok

/-- the index left after the loop depends only on the start index and the number of siblings -/
theorem batchFold_index (h : Hasher (List GL) D) (toVec : D → List GL) (ovf : Bool) :
    ∀ (π : List D) (cur : D) (ht idx : Nat) (rest : List (List GL × Nat)) (r),
      batchFold h toVec ovf cur ht idx rest π = some r → r.2.1 = idx / 2 ^ π.length := by
  intro π
  induction π with
  | nil => intro cur ht idx rest r hr; simp [batchFold] at hr; subst hr; simp
  | cons s π ih =>
    intro cur ht idx rest r hr
    have hdiv : idx / 2 / 2 ^ π.length = idx / 2 ^ (π.length + 1) := by
      rw [Nat.div_div_eq_div_mul, Nat.pow_succ, Nat.mul_comm]
    by_cases hz : ht = 0 ∧ ovf = true
    · simp [batchFold, hz] at hr
    · simp only [batchFold, hz, if_false] at hr
      cases rest with
      | nil => simp only at hr; rw [List.length_cons, ← hdiv]; exact ih _ _ _ _ _ hr
      | cons p rest =>
        obtain ⟨row, g⟩ := p
        simp only at hr
        by_cases hf : (if ht = 0 then usizeMax else ht - 1) = g
        · simp only [hf, if_true] at hr; rw [List.length_cons, ← hdiv]; exact ih _ _ _ _ _ hr
        · simp only [hf, if_false] at hr; rw [List.length_cons, ← hdiv]; exact ih _ _ _ _ _ hr

/-- **(b) Binding of batch openings.** Two batch openings accepted at the same index against the
same cap, for the same list of heights and with equally many siblings, open the same row of every
matrix with the same siblings — or the run exhibits an explicit collision of the compression
function or of the leaf hash. Holds for every hasher, every embedding satisfying `EmbedsTwo`, both
overflow modes, every cap, index, height list and proof length. -/
theorem verifyBatch_binds [DecidableEq D] (h : Hasher (List GL) D) (toVec : D → List GL)
    (ovf : Bool) (hemb : EmbedsTwo h toVec) (cap : List D) (i : Nat) (heights : List Nat)
    (data data' : List (List GL)) (π π' : List D) (hlen : π.length = π'.length)
    (h1 : verifyBatch h toVec ovf data heights i cap π = .ok)
    (h2 : verifyBatch h toVec ovf data' heights i cap π' = .ok) :
    (data = data' ∧ π = π') ∨ Collision h := by
  obtain ⟨l1, d0, h0, rest, c, j, z1, f1, c1⟩ := verifyBatch_ok h toVec ovf data heights i cap π h1
  obtain ⟨l2, d0', h0', rest', c', j', z2, f2, c2⟩ :=
    verifyBatch_ok h toVec ovf data' heights i cap π' h2
  have s1 := map_snd_zip_of_len data heights l1
  have s2 := map_snd_zip_of_len data' heights l2
  rw [z1] at s1
  rw [z2] at s2
  have hs : h0 :: rest.map (·.2) = h0' :: rest'.map (·.2) := by
    simpa using s1.trans s2.symm
  simp only [List.cons.injEq] at hs
  obtain ⟨hh0, hrest⟩ := hs
  subst hh0
  have j1 := batchFold_index h toVec ovf π _ _ _ _ _ f1
  have j2 := batchFold_index h toVec ovf π' _ _ _ _ _ f2
  simp only at j1 j2
  rw [← hlen] at j2
  have hj : j = j' := j1.trans j2.symm
  subst hj
  have hc : c = c' := by rw [c1] at c2; exact Option.some.inj c2
  subst hc
  rcases batchFold_inj h toVec ovf hemb π π' _ _ _ _ rest rest' c j j hlen hrest f1 f2 with
    ⟨e1, e2, e3⟩ | col
  · by_cases hd : d0 = d0'
    · left
      refine ⟨?_, e3⟩
      apply zip_left_inj data data' heights l1 l2
      rw [z1, z2, hd, e2]
    · right; right; exact ⟨d0, d0', hd, e1⟩
  · right; exact col

/-- Corollary in the property's words: another row of any matrix, or altered siblings, cannot also
be accepted unless a collision is exhibited. -/
theorem other_batch_opening_rejected [DecidableEq D] (h : Hasher (List GL) D)
    (toVec : D → List GL) (ovf : Bool) (hemb : EmbedsTwo h toVec) (cap : List D) (i : Nat)
    (heights : List Nat) (data data' : List (List GL)) (π π' : List D)
    (hlen : π.length = π'.length) (hne : data ≠ data' ∨ π ≠ π')
    (h1 : verifyBatch h toVec ovf data heights i cap π = .ok) :
    verifyBatch h toVec ovf data' heights i cap π' ≠ .ok ∨ Collision h := by
  by_cases h2 : verifyBatch h toVec ovf data' heights i cap π' = .ok
  · rcases verifyBatch_binds h toVec ovf hemb cap i heights data data' π π' hlen h1 h2 with
      ⟨a, b⟩ | c
    · rcases hne with hne | hne
      · exact absurd a hne
      · exact absurd b hne
    · right; exact c
  · left; exact h2

/-- an altered cap entry is rejected (no hash assumption needed) -/
theorem altered_batch_cap_rejected [DecidableEq D] (h : Hasher (List GL) D) (toVec : D → List GL)
    (ovf : Bool) (cap cap' : List D) (i : Nat) (heights : List Nat) (data : List (List GL))
    (π : List D) (h1 : verifyBatch h toVec ovf data heights i cap π = .ok)
    (hne : cap'[i / 2 ^ π.length]? ≠ cap[i / 2 ^ π.length]?) :
    verifyBatch h toVec ovf data heights i cap' π ≠ .ok := by
  intro h2
  obtain ⟨_, d0, h0, rest, c, j, z1, f1, c1⟩ := verifyBatch_ok h toVec ovf data heights i cap π h1
  obtain ⟨_, d0', h0', rest', c', j', z2, f2, c2⟩ :=
    verifyBatch_ok h toVec ovf data heights i cap' π h2
  rw [z1] at z2
  simp only [List.cons.injEq, Prod.mk.injEq] at z2
  obtain ⟨⟨e1, e2⟩, e3⟩ := z2
  subst e1 e2 e3
  rw [f1] at f2
  simp only [Option.some.injEq, Prod.mk.injEq] at f2
  obtain ⟨ec, ej, _⟩ := f2
  subst ec ej
  have j1 := batchFold_index h toVec ovf π _ _ _ _ _ f1
  simp only at j1
  subst j1
  exact hne (c2.trans c1.symm)

/-! ### (c) completeness for two matrices -/

theorem log2Strict_pow (k : Nat) : log2Strict (2 ^ k) = some k := by
  unfold log2Strict
  have : 2 ^ k ≠ 0 := Nat.ne_of_gt (Nat.two_pow_pos k)
  simp [Nat.log2_two_pow]

theorem mapM_id_some {α : Type} (l : List α) : (l.map some).mapM id = some l := by
  induction l with
  | nil => rfl
  | cons a t ih => simp [List.mapM_cons, ih]

theorem capOf_length {L : Type} (h : Hasher L D) (k c : Nat) (leaves : List L)
    (hl : leaves.length = 2 ^ k) (hc : c ≤ k) : (capOf h k c leaves).length = 2 ^ c := by
  rw [capOf_eq_lv, lv_length h k (k - c) _ (by simpa using hl) (by omega)]
  congr 1; omega

theorem mapM_some' {α : Type} (l : List α) : List.mapM (m := Option) some l = some l := by
  induction l with
  | nil => rfl
  | cons a t ih => simp [List.mapM_cons, ih]

/-- one `fill_digests_buf` stage on `2^k` leaves: the textbook cap -/
theorem stage_eq (h : Hasher (List GL) D) (k c : Nat) (leaves : List (List GL))
    (hl : leaves.length = 2 ^ k) (hc : c ≤ k) :
    stage h k c leaves = some ((build h k c leaves).1, capOf h k c leaves) := by
  have hcap := cap_eq_levelwise h k c leaves hl hc
  unfold stage
  cases hb : build h k c leaves with
  | mk ds capO =>
    rw [hb] at hcap
    simp only at hcap
    subst hcap
    simp [mapM_some']

theorem build_digests_length [DecidableEq D] {L : Type} (h : Hasher L D) (k c : Nat)
    (leaves : List L) (hl : leaves.length = 2 ^ k) (hc : c ≤ k) :
    (build h k c leaves).1.length = 2 * (2 ^ k - 2 ^ c) := by
  obtain ⟨π, hp, _⟩ := prove_verifies h k c leaves hl hc 0 (Nat.two_pow_pos k) _
    (cap_eq_levelwise h k c leaves hl hc)
  by_cases hd : 2 * (2 ^ k - 2 ^ c) = (build h k c leaves).1.length
  · exact hd.symm
  · simp [merkleTreeProve, hd] at hp

/-- the first `ht − g` siblings (at least one) of a batch proof are folded like a plain path; the
row of height `g` is folded in right after the last of them -/
theorem batchFold_prefix (h : Hasher (List GL) D) (toVec : D → List GL) (ovf : Bool)
    (row : List GL) (g : Nat) (r : List (List GL × Nat)) (π1 : List D) :
    ∀ (π0 : List D) (cur : D) (ht idx : Nat), π0 ≠ [] → ht = g + π0.length →
      batchFold h toVec ovf cur ht idx ((row, g) :: r) (π0 ++ π1) =
        batchFold h toVec ovf (h.hashLeaf (toVec (foldPath h cur idx π0).1 ++ row)) g
          (foldPath h cur idx π0).2 r π1 := by
  intro π0
  induction π0 with
  | nil => intro _ _ _ hne _; exact absurd rfl hne
  | cons s t ih =>
    intro cur ht idx _ hht
    have hpos : ht ≠ 0 := by simp at hht; omega
    simp only [List.cons_append, batchFold, hpos, false_and, if_false, foldPath]
    cases t with
    | nil =>
      have : ht - 1 = g := by simp at hht; omega
      simp [this, foldPath]
    | cons s2 t2 =>
      have hne : ¬ (ht - 1 = g) := by simp at hht; omega
      simp only [hne, if_false]
      exact ih _ _ _ (by simp) (by simp at hht ⊢; omega)


/-- what an accepted plain verification says -/
theorem verifyToCap_ok [DecidableEq D] {L : Type} (h : Hasher L D) (leaf : L) (i : Nat)
    (cap π : List D) (hok : verifyToCap h leaf i cap π = .ok) :
    cap[(foldPath h (h.hashLeaf leaf) i π).2]? = some (foldPath h (h.hashLeaf leaf) i π).1 := by
  unfold verifyToCap at hok
  generalize foldPath h (h.hashLeaf leaf) i π = r at hok ⊢
  obtain ⟨d, j⟩ := r
  simp only at hok ⊢
  cases hc : cap[j]? with
  | none => simp [hc] at hok
  | some c =>
    simp only [hc] at hok
    by_cases e : d = c
    · rw [e]
    · simp [e] at hok

/-- the leaves of the second stage: `cap_hash.to_vec() ++ row` -/
def newLeaves (toVec : D → List GL) (cap : List D) (m : List (List GL)) : List (List GL) :=
  (cap.zip m).map fun (c, row) => toVec c ++ row

/-- **(c) Completeness for two matrices.** For matrices of `2^k0 > 2^k1` rows and every cap height
`c ≤ k1`, `BatchMerkleTree::new` succeeds; for every leaf index `i < 2^k0`, `open_batch(i)` returns
`k0 − c` siblings, `values(i)` the rows `m0[i]`, `m1[i >> (k0 − k1)]`, and
`verify_batch_merkle_proof_to_cap` accepts them against the tree's cap (both overflow modes,
every hasher and embedding). -/
theorem batch_two_complete [DecidableEq D] (h : Hasher (List GL) D) (toVec : D → List GL)
    (ovf : Bool) (m0 m1 : List (List GL)) (k0 k1 c : Nat)
    (hl0 : m0.length = 2 ^ k0) (hl1 : m1.length = 2 ^ k1) (hk : k1 < k0) (hc : c ≤ k1)
    (i : Nat) (hi : i < 2 ^ k0) :
    ∃ digs cap π vals, batchBuild h toVec [m0, m1] c = some (digs, cap, [k0, k1]) ∧
      cap.length = 2 ^ c ∧
      batchOpen i [k0, k1] cap.length digs = some π ∧ π.length = k0 - c ∧
      values [m0, m1] [k0, k1] i = some vals ∧
      vals = [m0[i]'(by omega), m1[i / 2 ^ (k0 - k1)]'(by
        rw [hl1]; apply Nat.div_lt_of_lt_mul; rw [← Nat.pow_add]
        have : k0 - k1 + k1 = k0 := by omega
        rw [this]; exact hi)] ∧
      verifyBatch h toVec ovf vals [k0, k1] i cap π = .ok := by
  have hi' : i / 2 ^ (k0 - k1) < 2 ^ k1 := by
    apply Nat.div_lt_of_lt_mul; rw [← Nat.pow_add]
    have : k0 - k1 + k1 = k0 := by omega
    rw [this]; exact hi
  -- stage 0
  have hcap0 := capOf_length h k0 k1 m0 hl0 (Nat.le_of_lt hk)
  have hst0 := stage_eq h k0 k1 m0 hl0 (Nat.le_of_lt hk)
  have hd0 := build_digests_length h k0 k1 m0 hl0 (Nat.le_of_lt hk)
  obtain ⟨π0, hp0, hπ0, hv0⟩ := prove_verifies h k0 k1 m0 hl0 (Nat.le_of_lt hk) i hi _
    (cap_eq_levelwise h k0 k1 m0 hl0 (Nat.le_of_lt hk))
  -- stage 1
  have hnl : (newLeaves toVec (capOf h k0 k1 m0) m1).length = 2 ^ k1 := by
    simp [newLeaves, hcap0, hl1]
  have hcap1 := capOf_length h k1 c _ hnl hc
  have hst1 := stage_eq h k1 c _ hnl hc
  have hd1 := build_digests_length h k1 c _ hnl hc
  obtain ⟨π1, hp1, hπ1, hv1⟩ := prove_verifies h k1 c _ hnl hc _ hi' _
    (cap_eq_levelwise h k1 c _ hnl hc)
  refine ⟨(build h k0 k1 m0).1 ++ (build h k1 c (newLeaves toVec (capOf h k0 k1 m0) m1)).1,
    capOf h k1 c (newLeaves toVec (capOf h k0 k1 m0) m1), π0 ++ π1, _, ?_, hcap1, ?_, ?_, ?_, rfl, ?_⟩
  · -- BatchMerkleTree::new
    have hshape : checkShape [m0, m1] c = some [k0, k1] := by
      simp [checkShape, List.mapM_cons, hl0, hl1, log2Strict_pow, hk, hc]
    simp only [batchBuild, hshape, List.tail_cons, List.cons_append, List.nil_append, hst0,
      laterStages, hl1, log2Strict_pow]
    rw [show ((capOf h k0 k1 m0).zip m1).map (fun x => toVec x.1 ++ x.2) =
      newLeaves toVec (capOf h k0 k1 m0) m1 from rfl, hst1]
    simp
  · -- open_batch
    generalize (build h k0 k1 m0).1 = ds0 at hd0 hp0 ⊢
    generalize (build h k1 c (newLeaves toVec (capOf h k0 k1 m0) m1)).1 = ds1 at hd1 hp1 ⊢
    have e0 : ((ds0 ++ ds1).drop 0).take (2 * (2 ^ k0 - 2 ^ k1)) = ds0 := by
      rw [List.drop_zero]; exact List.take_left' hd0
    have e1 : ((ds0 ++ ds1).drop (0 + 2 * (2 ^ k0 - 2 ^ k1))).take (2 * (2 ^ k1 - 2 ^ c)) = ds1 := by
      rw [Nat.zero_add, List.drop_left' hd0, ← hd1]; exact List.take_length
    have hlt0 : ¬ ((ds0 ++ ds1).length < 0 + 2 * (2 ^ k0 - 2 ^ k1)) := by
      rw [List.length_append, hd0]; omega
    have hlt1 : ¬ ((ds0 ++ ds1).length < 0 + 2 * (2 ^ k0 - 2 ^ k1) + 2 * (2 ^ k1 - 2 ^ c)) := by
      rw [List.length_append, hd0, hd1]; omega
    have hi0 : i / 2 ^ (k0 - k0) = i := by simp
    simp only [batchOpen, hcap1, log2Strict_pow, List.head?_cons, List.cons_append,
      List.nil_append, List.tail_cons, List.zip_cons_cons, List.zip_nil_right, List.foldl_cons,
      List.foldl_nil, hlt0, hlt1, if_false, e0, e1, hi0, hp0, hp1, Option.map_some]
  · simp [hπ0, hπ1]; omega
  · -- values
    have g0 : m0[i]? = some (m0[i]'(by omega)) := List.getElem?_eq_getElem _
    have g1 : m1[i / 2 ^ (k0 - k1)]? = some (m1[i / 2 ^ (k0 - k1)]'(by rw [hl1]; exact hi')) :=
      List.getElem?_eq_getElem _
    simp [values, List.mapM_cons, g0, g1]
  · -- verification
    have hπ0ne : π0 ≠ [] := by
      intro e; rw [e] at hπ0; simp at hπ0; omega
    have hf0 := verifyToCap_ok h _ _ _ _ hv0
    have hidx0 := foldPath_index h π0 (h.hashLeaf (m0[i]'(by omega))) i
    rw [hπ0] at hidx0
    rw [hidx0] at hf0
    have hnl_i : (newLeaves toVec (capOf h k0 k1 m0) m1)[i / 2 ^ (k0 - k1)]'(by rw [hnl]; exact hi') =
        toVec (foldPath h (h.hashLeaf (m0[i]'(by omega))) i π0).1 ++
          m1[i / 2 ^ (k0 - k1)]'(by rw [hl1]; exact hi') := by
      rw [List.getElem_eq_iff]
      unfold newLeaves
      rw [List.getElem?_map]
      have : ((capOf h k0 k1 m0).zip m1)[i / 2 ^ (k0 - k1)]? =
          some ((foldPath h (h.hashLeaf (m0[i]'(by omega))) i π0).1,
            m1[i / 2 ^ (k0 - k1)]'(by rw [hl1]; exact hi')) := by
        rw [List.getElem?_zip_eq_some]
        exact ⟨hf0, List.getElem?_eq_getElem _⟩
      rw [this]; rfl
    rw [hnl_i] at hv1
    have hf1 := verifyToCap_ok h _ _ _ _ hv1
    unfold verifyBatch
    simp only [List.length_cons, List.length_nil, ne_eq, not_true_eq_false, if_false,
      List.zip_cons_cons, List.zip_nil_right]
    rw [batchFold_prefix h toVec ovf _ k1 [] π1 π0 _ k0 i hπ0ne (by rw [hπ0]; omega), hidx0,
      batchFold_nil h toVec ovf π1 _ _ _ (by rw [hπ1]; omega)]
    simp [hf1]


/-! ### concrete embeddings, non-vacuity -/

theorem setFrom_size' (s : Array GL) (xs : List GL) (k : Nat) :
    (Sponge.setFrom s xs k).size = s.size := by
  unfold Sponge.setFrom
  generalize xs.zipIdx = l
  induction l generalizing s with
  | nil => rfl
  | cons a t ih =>
    rw [List.foldl_cons, ih]
    obtain ⟨x, i⟩ := a
    simp

/-- the embedding hypothesis of (b) holds for every sponge hasher (`HashOut` digests, `to_vec` the
identity) whose permutation keeps the state width (≥ 4): all `two_to_one` outputs have 4 elements -/
theorem embedsTwo_sponge (p : Sponge.Perm) (hw : 4 ≤ p.width)
    (hsz : ∀ st : Array GL, st.size = p.width → (p.permute st).size = p.width) :
    EmbedsTwo (⟨Sponge.hashOrNoop p, Sponge.twoToOne p⟩ : Hasher (List GL) (List GL)) id := by
  have hlen : ∀ x y, (Sponge.twoToOne p x y).length = 4 := by
    intro x y
    unfold Sponge.twoToOne
    simp only [List.length_take, Array.length_toList]
    rw [hsz _ (by rw [setFrom_size', setFrom_size']; simp)]
    omega
  intro a b a' b' r r' he
  simp only [id] at he
  exact List.append_inj he (by rw [hlen, hlen])

/-! #### `KeccakHash<N>` with `BytesHash::to_vec` (7-byte little-endian chunks) -/
section keccak
open P2.Keccak

theorem keccakNat_length (m : List Nat) : (keccakNat m).length = 32 := by
  simp [keccakNat, keccak256, laneBytes, List.range_succ]

theorem keccakNat_lt (m : List Nat) : ∀ b ∈ keccakNat m, b < 256 := by
  intro b hb
  simp only [keccakNat, List.mem_map] at hb
  obtain ⟨u, _, rfl⟩ := hb
  exact UInt8.toNat_lt u

theorem ofLeBytes_inj : ∀ (a b : List Nat), a.length = b.length → (∀ x ∈ a, x < 256) →
    (∀ x ∈ b, x < 256) → ofLeBytes a = ofLeBytes b → a = b := by
  intro a
  induction a with
  | nil => intro b hl _ _ _; cases b with
    | nil => rfl
    | cons _ _ => simp at hl
  | cons x t ih =>
    intro b hl ha hb he
    cases b with
    | nil => simp at hl
    | cons y u =>
      have hx := ha x (by simp)
      have hy := hb y (by simp)
      simp only [ofLeBytes, List.foldr_cons] at he
      have h1 : x = y := by omega
      have h2 : List.foldr (fun b acc => b + 256 * acc) 0 t = List.foldr (fun b acc => b + 256 * acc) 0 u := by omega
      rw [h1, ih u (by simpa using hl) (fun z hz => ha z (by simp [hz])) (fun z hz => hb z (by simp [hz])) h2]

theorem ofLeBytes_lt : ∀ (a : List Nat), (∀ x ∈ a, x < 256) → ofLeBytes a < 256 ^ a.length := by
  intro a
  induction a with
  | nil => intro _; simp [ofLeBytes]
  | cons x t ih =>
    intro ha
    have hx := ha x (by simp)
    have ht := ih (fun z hz => ha z (by simp [hz]))
    simp only [ofLeBytes, List.foldr_cons, List.length_cons, Nat.pow_succ] at ht ⊢
    omega


theorem toVec_length (d : List Nat) : (toVec d).length = (d.length + 6) / 7 := by
  simp [toVec, chunksOf]

theorem glOfNat_inj (a b : Nat) (ha : a < GLP) (hb : b < GLP) (h : GL.ofNat a = GL.ofNat b) :
    a = b := by
  have := congrArg Fin.val h
  simp only [GL.ofNat, Fin.val_ofNat] at this
  rwa [Nat.mod_eq_of_lt ha, Nat.mod_eq_of_lt hb] at this

theorem toVec_chunk (d d' : List Nat) (hl : d.length = d'.length) (hb : ∀ b ∈ d, b < 256)
    (hb' : ∀ b ∈ d', b < 256) (ht : toVec d = toVec d') (i : Nat) (hi : i < (d.length + 6) / 7) :
    (d.drop (i * 7)).take 7 = (d'.drop (i * 7)).take 7 := by
  have hi' : i < (d'.length + 6) / 7 := by rw [← hl]; exact hi
  have h := congrArg (·[i]?) ht
  simp only [toVec, chunksOf, List.getElem?_map] at h
  simp only [show (7 : Nat) ≠ 0 by decide, if_false, show d.length + 7 - 1 = d.length + 6 by omega,
    show d'.length + 7 - 1 = d'.length + 6 by omega, List.getElem?_map, List.getElem?_range hi,
    List.getElem?_range hi', Option.map_some, Option.some.injEq] at h
  have hm : ∀ x ∈ (d.drop (i * 7)).take 7, x < 256 :=
    fun x hx => hb x (List.mem_of_mem_drop (List.mem_of_mem_take hx))
  have hm' : ∀ x ∈ (d'.drop (i * 7)).take 7, x < 256 :=
    fun x hx => hb' x (List.mem_of_mem_drop (List.mem_of_mem_take hx))
  have hlen : ((d.drop (i * 7)).take 7).length = ((d'.drop (i * 7)).take 7).length := by
    simp [hl]
  have hlt : ∀ (c : List Nat), c.length ≤ 7 → (∀ x ∈ c, x < 256) → ofLeBytes c < GLP := by
    intro c hc hcb
    have := ofLeBytes_lt c hcb
    have h2 : 256 ^ c.length ≤ 256 ^ 7 := Nat.pow_le_pow_right (by decide) hc
    have h3 : 256 ^ 7 < GLP := by decide
    omega
  apply ofLeBytes_inj _ _ hlen hm hm'
  exact glOfNat_inj _ _ (hlt _ (by simp; omega) hm) (hlt _ (by simp; omega) hm') h

theorem toVec_inj (d d' : List Nat) (hl : d.length = d'.length) (hb : ∀ b ∈ d, b < 256)
    (hb' : ∀ b ∈ d', b < 256) (ht : toVec d = toVec d') : d = d' := by
  apply List.ext_getElem?
  intro j
  by_cases hj : j < d.length
  · have hi : j / 7 < (d.length + 6) / 7 := by omega
    have hc := toVec_chunk d d' hl hb hb' ht (j / 7) hi
    have h := congrArg (·[j % 7]?) hc
    have hlt : j % 7 < 7 := Nat.mod_lt _ (by decide)
    simp only [List.getElem?_take, hlt, if_true, List.getElem?_drop] at h
    have e : j / 7 * 7 + j % 7 = j := by omega
    rwa [e] at h
  · rw [List.getElem?_eq_none (by omega), List.getElem?_eq_none (by omega)]

/-- the embedding hypothesis of (b) holds for `KeccakHash<N>` with `BytesHash::to_vec` -/
theorem embedsTwo_keccak (N : Nat) : EmbedsTwo (keccakHasher N) toVec := by
  intro a b a' b' r r' he
  simp only [keccakHasher, twoToOne] at he ⊢
  have hl : ((keccakNat (a ++ b)).take N).length = ((keccakNat (a' ++ b')).take N).length := by
    simp [keccakNat_length]
  have hb1 : ∀ x ∈ (keccakNat (a ++ b)).take N, x < 256 :=
    fun x hx => keccakNat_lt _ x (List.mem_of_mem_take hx)
  have hb2 : ∀ x ∈ (keccakNat (a' ++ b')).take N, x < 256 :=
    fun x hx => keccakNat_lt _ x (List.mem_of_mem_take hx)
  have hs := List.append_inj he (by rw [toVec_length, toVec_length, hl])
  exact ⟨toVec_inj _ _ hl hb1 hb2 hs.1, hs.2⟩

end keccak

/-- non-vacuity: a toy hasher on two matrices (4 rows and 2 rows, root cap): `new`, `open_batch`,
`values`; the honest opening is accepted in both overflow modes; a wrong row of the second matrix
is rejected; with a height that is never reached the final assertion fires (panic); an extended
proof passes height 0: panic with overflow checks, a verdict without. -/
def toyB : Hasher (List GL) Nat := ⟨fun l => l.foldl (fun a x => 3 * a + x.val + 1) 0,
  fun a b => 2 * a + 3 * b + 7⟩
def toyVec (d : Nat) : List GL := [GL.ofNat d]

example :
    batchBuild toyB toyVec [[[1], [2], [3], [4]], [[5], [6]]] 0 =
      some ([2, 3, 4, 5, 69, 100], [445], [2, 1]) ∧
    batchOpen 2 [2, 1] 1 [2, 3, 4, 5, 69, 100] = some [5, 69] ∧
    values [[[1], [2], [3], [4]], [[5], [6]]] [2, 1] 2 = some [[3], [6]] ∧
    verifyBatch toyB toyVec true [[3], [6]] [2, 1] 2 [445] [5, 69] = .ok ∧
    verifyBatch toyB toyVec false [[3], [6]] [2, 1] 2 [445] [5, 69] = .ok ∧
    verifyBatch toyB toyVec false [[3], [5]] [2, 1] 2 [445] [5, 69] = .err ∧
    verifyBatch toyB toyVec false [[3], [6]] [2, 3] 2 [445] [5, 69] = .panic ∧
    verifyBatch toyB toyVec false [[3], [6]] [2, 1] 2 [445] [5, 69, 0] = .err ∧
    verifyBatch toyB toyVec true [[3], [6]] [2, 1] 2 [445] [5, 69, 0] = .panic := by decide

end P2.Props.C12
