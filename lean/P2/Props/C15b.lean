/-
C15b (polynomial algebra of `field/src/polynomial`, `fft.rs`, `interpolation.rs`, `zero_poly_coset.rs`
over an arbitrary field `K`, model functions instantiated with `FOps.ofField K`):

 (a) `trim` / `degreePlusOne` against `Polynomial.natDegree`;
 (b) `add`, `sub`, `mul` are the ring operations of `K[X]` on coefficient lists;
 (c) `divRem` is Euclidean division: `a = q·b + r`, `deg r < deg b`, trimmed outputs, hence
     `q = a / b`, `r = a % b` in `K[X]`; exactly when it answers `none`; the loop leaves by its exit
     test (not by running out of fuel) for every fuel above `degreePlusOne r`;
 (d) coset transforms and low-degree extension as the driver `P2/Drv/C15.lean` composes them
     (pure forms `P2.C15b.fft`, `ifft`, `cosetFft`, `cosetIfft`, `ldeCoeffs`, `lde` in
     `P2/Lemmas/C15Poly.lean`);
 (e) `barycentricWeights` are Mathlib's `Lagrange.nodalWeight`; the barycentric formula of
     `interpolation.rs::interpolate` is `Lagrange.interpolate` (= `Poly.lagrangeEval`, C05b);
 (f) `Z_H(x) = x^n − 1` on the coset `g·⟨w⟩` is periodic with period `2^rate`:
     `ZeroPolyOnCoset::eval(i) = evals[i % rate]`.

`toPoly c = Σ_i C c[i] · X^i` (low degree first).
-/
import Mathlib.Algebra.Field.ZMod
import P2.Lemmas.C15Poly
import P2.Props.C05b
namespace P2.Props.C15b
open P2 Polynomial P2.Fft P2.Lemmas.C15Poly

section
variable {K : Type} [Field K] [DecidableEq K]

/-! ## the coefficient-list ↔ polynomial bridge -/

omit [DecidableEq K] in
theorem toPoly_def (c : List K) : toPoly c = ∑ i : Fin c.length, C c[i] * X ^ (i : Nat) := rfl

omit [DecidableEq K] in
theorem toPoly_coeff (c : List K) (k : Nat) : (toPoly c).coeff k = c.getD k 0 :=
  Lemmas.C15Poly.toPoly_coeff c k

/-- Horner evaluation of the model is evaluation of the polynomial -/
theorem toPoly_eval (c : List K) (x : K) :
    (toPoly c).eval x = @Poly.eval K (FOps.ofField K) c x :=
  Lemmas.C15Poly.toPoly_eval c x

/-! ## (a) `trim`, `degreePlusOne` -/

theorem toPoly_trim (c : List K) : toPoly (@Poly.trim K (FOps.ofField K) c) = toPoly c :=
  Lemmas.C15Poly.toPoly_trim c

theorem trim_getLast?_ne_zero (c : List K) :
    (@Poly.trim K (FOps.ofField K) c).getLast? ≠ some 0 :=
  Lemmas.C15Poly.trim_getLast?_ne c

theorem trim_length (c : List K) :
    (@Poly.trim K (FOps.ofField K) c).length = @Poly.degreePlusOne K (FOps.ofField K) c :=
  Lemmas.C15Poly.length_trim c

theorem degreePlusOne_eq_zero_iff (c : List K) :
    @Poly.degreePlusOne K (FOps.ofField K) c = 0 ↔ toPoly c = 0 :=
  Lemmas.C15Poly.dpo_eq_zero_iff c

theorem degreePlusOne_eq_natDegree_succ (c : List K) (h : toPoly c ≠ 0) :
    @Poly.degreePlusOne K (FOps.ofField K) c = (toPoly c).natDegree + 1 :=
  Lemmas.C15Poly.dpo_eq_natDegree_succ c h

/-- the same without a case split: `degreePlusOne c ≤ n ↔ deg (toPoly c) < n` (`deg 0 = ⊥`) -/
theorem degreePlusOne_le_iff (c : List K) (n : Nat) :
    @Poly.degreePlusOne K (FOps.ofField K) c ≤ n ↔ (toPoly c).degree < n :=
  Lemmas.C15Poly.dpo_le_iff_degree_lt c n

/-- a list is a fixed point of `trim` iff its last entry (if any) is nonzero -/
theorem trim_eq_self_iff (c : List K) :
    @Poly.trim K (FOps.ofField K) c = c ↔ c.getLast? ≠ some 0 :=
  Lemmas.C15Poly.trim_eq_self_iff c

/-- trimmed coefficient lists are a normal form: `trim a = trim b ↔ toPoly a = toPoly b` -/
theorem trim_eq_trim_iff (a b : List K) :
    @Poly.trim K (FOps.ofField K) a = @Poly.trim K (FOps.ofField K) b ↔ toPoly a = toPoly b :=
  ⟨fun h => by rw [← Lemmas.C15Poly.toPoly_trim a, h, Lemmas.C15Poly.toPoly_trim], trim_congr⟩

/-! ## (b) `add`, `sub`, `mul` -/

theorem toPoly_add (a b : List K) :
    toPoly (@Poly.add K (FOps.ofField K) a b) = toPoly a + toPoly b :=
  Lemmas.C15Poly.toPoly_add a b

theorem toPoly_sub (a b : List K) :
    toPoly (@Poly.sub K (FOps.ofField K) a b) = toPoly a - toPoly b :=
  Lemmas.C15Poly.toPoly_sub a b

theorem toPoly_mul (a b : List K) :
    toPoly (@Poly.mul K (FOps.ofField K) a b) = toPoly a * toPoly b :=
  Lemmas.C15Poly.toPoly_mul a b

theorem mul_length (a b : List K) (ha : a ≠ []) (hb : b ≠ []) :
    (@Poly.mul K (FOps.ofField K) a b).length = a.length + b.length - 1 :=
  Lemmas.C15Poly.length_mul a b ha hb

theorem add_length (a b : List K) :
    (@Poly.add K (FOps.ofField K) a b).length = max a.length b.length :=
  Lemmas.C15Poly.length_add a b

theorem sub_length (a b : List K) :
    (@Poly.sub K (FOps.ofField K) a b).length = max a.length b.length :=
  Lemmas.C15Poly.length_sub a b

/-- coefficient `k` of the schoolbook product is the convolution sum -/
theorem mul_coeff (a b : List K) (k : Nat) :
    (@Poly.mul K (FOps.ofField K) a b).getD k 0
      = ∑ i ∈ Finset.range (k + 1), a.getD i 0 * b.getD (k - i) 0 :=
  Lemmas.C15Poly.getD_mul a b k

theorem eval_mul (a b : List K) (x : K) :
    @Poly.eval K (FOps.ofField K) (@Poly.mul K (FOps.ofField K) a b) x
      = @Poly.eval K (FOps.ofField K) a x * @Poly.eval K (FOps.ofField K) b x := by
  rw [← toPoly_eval, ← toPoly_eval, ← toPoly_eval, toPoly_mul, Polynomial.eval_mul]

theorem eval_add (a b : List K) (x : K) :
    @Poly.eval K (FOps.ofField K) (@Poly.add K (FOps.ofField K) a b) x
      = @Poly.eval K (FOps.ofField K) a x + @Poly.eval K (FOps.ofField K) b x := by
  rw [← toPoly_eval, ← toPoly_eval, ← toPoly_eval, toPoly_add, Polynomial.eval_add]

theorem eval_sub (a b : List K) (x : K) :
    @Poly.eval K (FOps.ofField K) (@Poly.sub K (FOps.ofField K) a b) x
      = @Poly.eval K (FOps.ofField K) a x - @Poly.eval K (FOps.ofField K) b x := by
  rw [← toPoly_eval, ← toPoly_eval, ← toPoly_eval, toPoly_sub, Polynomial.eval_sub]

/-! ## (c) `divRem` is Euclidean division -/

/-- **Euclidean division**: for a nonzero divisor the model answers `some (q, r)` with
`a = q·b + r`, `deg r < deg b` (`deg 0 = ⊥`, so this covers `r = 0`), and both outputs trimmed -/
theorem divRem_spec (a b : List K) (hb : toPoly b ≠ 0) :
    ∃ q r, @Poly.divRem K (FOps.ofField K) a b = some (q, r) ∧
      toPoly a = toPoly q * toPoly b + toPoly r ∧
      (toPoly r).degree < (toPoly b).degree ∧
      q.getLast? ≠ some 0 ∧ r.getLast? ≠ some 0 :=
  Lemmas.C15Poly.divRem_spec a b hb

/-- the form `r = 0 ∨ deg r < deg b` -/
theorem divRem_spec' (a b : List K) (hb : toPoly b ≠ 0) :
    ∃ q r, @Poly.divRem K (FOps.ofField K) a b = some (q, r) ∧
      toPoly a = toPoly q * toPoly b + toPoly r ∧
      (toPoly r = 0 ∨ (toPoly r).degree < (toPoly b).degree) ∧
      q.getLast? ≠ some 0 ∧ r.getLast? ≠ some 0 := by
  obtain ⟨q, r, h1, h2, h3, h4, h5⟩ := divRem_spec a b hb
  exact ⟨q, r, h1, h2, Or.inr h3, h4, h5⟩

/-- quotient and remainder are Mathlib's `/` and `%` of `K[X]` -/
theorem divRem_eq_div_mod (a b : List K) (hb : toPoly b ≠ 0) :
    ∃ q r, @Poly.divRem K (FOps.ofField K) a b = some (q, r) ∧
      toPoly q = toPoly a / toPoly b ∧ toPoly r = toPoly a % toPoly b ∧
      q.getLast? ≠ some 0 ∧ r.getLast? ≠ some 0 :=
  Lemmas.C15Poly.divRem_eq_div_mod a b hb

omit [DecidableEq K] in
/-- uniqueness of quotient and remainder in `K[X]` (the step from `divRem_spec` to `/`, `%`) -/
theorem div_mod_unique {a b q r : K[X]} (hb : b ≠ 0) (h : a = q * b + r)
    (hr : r.degree < b.degree) : q = a / b ∧ r = a % b :=
  Lemmas.C15Poly.div_mod_unique hb h hr

/-- `none` (Rust: panic "Division by zero polynomial") exactly for a zero divisor and a nonzero
dividend -/
theorem divRem_eq_none_iff (a b : List K) :
    @Poly.divRem K (FOps.ofField K) a b = none ↔ toPoly b = 0 ∧ toPoly a ≠ 0 :=
  Lemmas.C15Poly.divRem_none_iff a b

/-- a zero dividend is answered `some ([], [])` for EVERY divisor, the zero divisor included -/
theorem divRem_zero_left (a b : List K) (ha : toPoly a = 0) :
    @Poly.divRem K (FOps.ofField K) a b = some ([], []) :=
  Lemmas.C15Poly.divRem_zero_left a b ha

/-- every `some` answer (zero divisor included) satisfies the division identity with trimmed
outputs; the degree bound holds whenever the divisor is nonzero -/
theorem divRem_some (a b q r : List K) (h : @Poly.divRem K (FOps.ofField K) a b = some (q, r)) :
    toPoly a = toPoly q * toPoly b + toPoly r ∧ q.getLast? ≠ some 0 ∧ r.getLast? ≠ some 0 ∧
      (toPoly b ≠ 0 → (toPoly r).degree < (toPoly b).degree) :=
  Lemmas.C15Poly.divRem_some a b q r h

/-- **the fuel suffices**: started with any fuel above `degreePlusOne r` (the model starts with
`degreePlusOne a + 1` and `r = trim a`), from a state satisfying the invariant
`P = q·b + r`, `degreePlusOne r < |q| + |b|`, `q_j = 0` for `j + |b| ≤ degreePlusOne r`,
the loop `divRem.go` returns a state with the same invariant AND `degreePlusOne r < |b|`, i.e. it
leaves through its exit test: `degreePlusOne r` strictly decreases in every round. (`b` trimmed and
nonempty; `leadInv` is the inverse of its last entry.) -/
theorem divRem_loop_spec (bt : List K) (hbt : bt.getLast? ≠ some 0) (hb0 : bt ≠ []) (P : K[X])
    (fuel : Nat) (q : Array K) (r : List K)
    (hfuel : @Poly.degreePlusOne K (FOps.ofField K) r < fuel)
    (hP : P = toPoly q.toList * toPoly bt + toPoly r)
    (hsize : @Poly.degreePlusOne K (FOps.ofField K) r < q.size + bt.length)
    (hq : ∀ j, j + bt.length ≤ @Poly.degreePlusOne K (FOps.ofField K) r → q.toList.getD j 0 = 0) :
    P = toPoly (@Poly.divRem.go K (FOps.ofField K) bt bt.length (bt.getLast?.getD 1)⁻¹ fuel q r).1.toList
            * toPoly bt
          + toPoly (@Poly.divRem.go K (FOps.ofField K) bt bt.length (bt.getLast?.getD 1)⁻¹ fuel q r).2
      ∧ @Poly.degreePlusOne K (FOps.ofField K)
          (@Poly.divRem.go K (FOps.ofField K) bt bt.length (bt.getLast?.getD 1)⁻¹ fuel q r).2
        < bt.length :=
  Lemmas.C15Poly.go_spec bt hbt hb0 P fuel q r hfuel hP hsize hq

end

/-! ## (d) coset transforms and low-degree extension -/

section
variable {K : Type} [Field K] [DecidableEq K] [Inhabited K]

omit [DecidableEq K] [Inhabited K] in
/-- a field with a primitive `2^lgN`-th root of unity has `2^lgN ≠ 0` (so `n⁻¹` is an inverse) -/
theorem two_pow_ne_zero_of_primitive {ω : K} {lgN : Nat} (hω : IsPrimitiveRoot ω (2 ^ lgN)) :
    ((2 ^ lgN : Nat) : K) ≠ 0 := by
  classical
  have : Inhabited K := ⟨0⟩
  exact Lemmas.C15Poly.two_pow_ne_zero_of_primitive hω

/-- `fft` (= `fft_classic` over `fft_root_table`) evaluates `toPoly c` at `ω^i` -/
theorem fft_spec (pr : Nat → K) {lgN : Nat} (hω : IsPrimitiveRoot (pr lgN) (2 ^ lgN))
    (c : Array K) (hs : c.size = 2 ^ lgN) :
    ∃ v, @C15b.fft K (FOps.ofField K) _ pr lgN c = .ok v ∧ v.size = 2 ^ lgN ∧
      ∀ i, i < 2 ^ lgN → v[i]! = (toPoly c.toList).eval (pr lgN ^ i) :=
  Lemmas.C15Poly.fft_spec pr hω c hs

/-- `coset_fft(shift)` evaluates `toPoly c` at `shift·ω^i` -/
theorem cosetFft_spec (pr : Nat → K) {lgN : Nat} (hω : IsPrimitiveRoot (pr lgN) (2 ^ lgN))
    (shift : K) (c : Array K) (hs : c.size = 2 ^ lgN) :
    ∃ v, @C15b.cosetFft K (FOps.ofField K) _ pr lgN shift c = .ok v ∧ v.size = 2 ^ lgN ∧
      ∀ i, i < 2 ^ lgN → v[i]! = (toPoly c.toList).eval (shift * pr lgN ^ i) :=
  Lemmas.C15Poly.cosetFft_spec pr hω shift c hs

/-- `coset_ifft(shift) ∘ coset_fft(shift) = id` for `shift ≠ 0` -/
theorem cosetIfft_cosetFft (pr : Nat → K) {lgN : Nat} (hω : IsPrimitiveRoot (pr lgN) (2 ^ lgN))
    (shift : K) (hsh : shift ≠ 0) (c : Array K) (hs : c.size = 2 ^ lgN) :
    ∃ v, @C15b.cosetFft K (FOps.ofField K) _ pr lgN shift c = .ok v ∧
      @C15b.cosetIfft K (FOps.ofField K) _ pr lgN shift v = .ok c :=
  Lemmas.C15Poly.cosetIfft_cosetFft pr hω shift hsh c hs

/-- `coset_fft(shift) ∘ coset_ifft(shift) = id` for `shift ≠ 0` -/
theorem cosetFft_cosetIfft (pr : Nat → K) {lgN : Nat} (hω : IsPrimitiveRoot (pr lgN) (2 ^ lgN))
    (shift : K) (hsh : shift ≠ 0) (v : Array K) (hs : v.size = 2 ^ lgN) :
    ∃ c, @C15b.cosetIfft K (FOps.ofField K) _ pr lgN shift v = .ok c ∧
      @C15b.cosetFft K (FOps.ofField K) _ pr lgN shift c = .ok v :=
  Lemmas.C15Poly.cosetFft_cosetIfft pr hω shift hsh v hs

/-- zero-padding to `2^(lgN+rate)` and transforming there evaluates the SAME polynomial on the
larger subgroup -/
theorem ldeCoeffs_spec (pr : Nat → K) {lgN rate : Nat}
    (hΩ : IsPrimitiveRoot (pr (lgN + rate)) (2 ^ (lgN + rate)))
    (c : Array K) (hs : c.size ≤ 2 ^ (lgN + rate)) :
    ∃ w, @C15b.ldeCoeffs K (FOps.ofField K) _ pr lgN rate c = .ok w ∧ w.size = 2 ^ (lgN + rate) ∧
      ∀ k, k < 2 ^ (lgN + rate) → w[k]! = (toPoly c.toList).eval (pr (lgN + rate) ^ k) :=
  Lemmas.C15Poly.ldeCoeffs_spec pr hΩ c hs

/-- the entries of the extension at multiples of `2^rate` are the evaluations on the small
subgroup (`pr (lgN+rate) ^ 2^rate = pr lgN`, as for `primitive_root_of_unity`) -/
theorem ldeCoeffs_subsample (pr : Nat → K) {lgN rate : Nat}
    (hω : IsPrimitiveRoot (pr lgN) (2 ^ lgN))
    (hΩ : IsPrimitiveRoot (pr (lgN + rate)) (2 ^ (lgN + rate)))
    (hrel : pr (lgN + rate) ^ (2 ^ rate) = pr lgN)
    (c : Array K) (hs : c.size = 2 ^ lgN) :
    ∃ v w, @C15b.fft K (FOps.ofField K) _ pr lgN c = .ok v ∧
      @C15b.ldeCoeffs K (FOps.ofField K) _ pr lgN rate c = .ok w ∧
      ∀ i, i < 2 ^ lgN → w[i * 2 ^ rate]! = v[i]! :=
  Lemmas.C15Poly.ldeCoeffs_subsample pr hω hΩ hrel c hs

/-- the driver's `lde` request (values → `ifft` → pad → `fft`): `co = ifft v` interpolates `v` on
the small subgroup, the output `w` holds the values of `toPoly co` on the large subgroup, and
`w[i·2^rate] = v[i]` -/
theorem lde_spec (pr : Nat → K) {lgN rate : Nat}
    (hω : IsPrimitiveRoot (pr lgN) (2 ^ lgN))
    (hΩ : IsPrimitiveRoot (pr (lgN + rate)) (2 ^ (lgN + rate)))
    (hrel : pr (lgN + rate) ^ (2 ^ rate) = pr lgN)
    (v : Array K) (hs : v.size = 2 ^ lgN) :
    ∃ co w, @C15b.ifft K (FOps.ofField K) _ pr lgN v = .ok co ∧ co.size = 2 ^ lgN ∧
      (∀ i, i < 2 ^ lgN → (toPoly co.toList).eval (pr lgN ^ i) = v[i]!) ∧
      @C15b.lde K (FOps.ofField K) _ pr lgN rate v = .ok w ∧ w.size = 2 ^ (lgN + rate) ∧
      (∀ k, k < 2 ^ (lgN + rate) → w[k]! = (toPoly co.toList).eval (pr (lgN + rate) ^ k)) ∧
      (∀ i, i < 2 ^ lgN → w[i * 2 ^ rate]! = v[i]!) :=
  Lemmas.C15Poly.lde_spec pr hω hΩ hrel v hs

end

/-! ## (e) barycentric weights, barycentric formula -/

section
variable {K : Type} [Field K] [DecidableEq K]

theorem barycentricWeights_length (xs : List K) :
    (@Poly.barycentricWeights K (FOps.ofField K) xs).length = xs.length :=
  Lemmas.C15Poly.barycentricWeights_length xs

/-- `w_i = (∏_{j≠i} (x_i − x_j))⁻¹` (no distinctness hypothesis; `0⁻¹ = 0`) -/
theorem barycentricWeights_formula (xs : List K) (i : Fin xs.length) :
    (@Poly.barycentricWeights K (FOps.ofField K) xs).getD i 0
      = (∏ j : Fin xs.length, if (i : Nat) = j then 1 else (xs[i] - xs[j]))⁻¹ :=
  Lemmas.C15Poly.barycentricWeights_getD xs i

/-- `barycentric_weights` = Mathlib's `Lagrange.nodalWeight` -/
theorem barycentricWeights_eq_nodalWeight (xs : List K) (i : Fin xs.length) :
    (@Poly.barycentricWeights K (FOps.ofField K) xs).getD i 0
      = Lagrange.nodalWeight Finset.univ (fun k : Fin xs.length => xs[k]) i :=
  Lemmas.C15Poly.barycentricWeights_eq_nodalWeight xs i

/-- the pair `barycentric_weights` / `interpolate` of `interpolation.rs` (node test, then
`l(x)·Σ w_i/(x − x_i)·y_i`) computes the evaluation of Mathlib's Lagrange interpolant, for
pairwise distinct nodes -/
theorem baryInterpolate_eq_interpolate (pts : List (K × K)) (hn : (pts.map Prod.fst).Nodup) (x : K) :
    @C15b.baryInterpolate K (FOps.ofField K) pts x
        (@Poly.barycentricWeights K (FOps.ofField K) (pts.map Prod.fst))
      = (Lagrange.interpolate Finset.univ (fun i : Fin pts.length => pts[i].1)
          (fun i : Fin pts.length => pts[i].2)).eval x :=
  Lemmas.C15Poly.baryInterpolate_eq pts hn x

/-- … which is the model's definitional `lagrangeEval` (C05b `lagrangeEval_eq_interpolate`) -/
theorem baryInterpolate_eq_lagrangeEval (pts : List (K × K)) (hn : (pts.map Prod.fst).Nodup) (x : K) :
    @C15b.baryInterpolate K (FOps.ofField K) pts x
        (@Poly.barycentricWeights K (FOps.ofField K) (pts.map Prod.fst))
      = @Poly.lagrangeEval K (FOps.ofField K) pts x := by
  rw [baryInterpolate_eq_interpolate pts hn x, Props.C05.lagrangeEval_eq_interpolate]

/-! ## (f) `Z_H` on a coset -/

omit [DecidableEq K] in
/-- `Z_H(g·w^i) = g^n·(w^n)^(i mod 2^rate) − 1` for `n = 2^nLog`, `w^(n·2^rate) = 1` -/
theorem zpoly_periodic (g w : K) (nLog rate i : Nat) (hw : w ^ (2 ^ (nLog + rate)) = 1) :
    (g * w ^ i) ^ (2 ^ nLog) - 1 = g ^ (2 ^ nLog) * (w ^ (2 ^ nLog)) ^ (i % 2 ^ rate) - 1 := by
  classical
  have : Inhabited K := ⟨0⟩
  exact Lemmas.C15Poly.zpoly_periodic g w nLog rate i hw

/-- `ZeroPolyOnCoset::eval(i) = evals[i % rate]` is `Z_H(g·w^i)` as the driver's `zpoly` request
computes it, for every `i` (`v = w^n` the generator of the subgroup of order `2^rate`) -/
theorem zeroPolyOnCosetEval_eq (g w v : K) (nLog rate i : Nat) (hw : w ^ (2 ^ (nLog + rate)) = 1)
    (hv : w ^ (2 ^ nLog) = v) :
    @C15b.zeroPolyOnCosetEval K (FOps.ofField K) g v nLog rate i
      = @C15b.zpolyAt K (FOps.ofField K) g w nLog i := by
  have : Inhabited K := ⟨0⟩
  exact Lemmas.C15Poly.zeroPolyOnCosetEval_eq g w v nLog rate i hw hv

end

/-! ## non-vacuity -/

section
open P2.C15b

theorem toPoly_ne_zero_of_coeff {K : Type} [Field K] (c : List K) (k : Nat) (h : c.getD k 0 ≠ 0) :
    toPoly c ≠ 0 :=
  fun e => h (by rw [← Lemmas.C15Poly.toPoly_coeff, e]; simp)

private theorem b_ne : toPoly ([1, 1] : List ℚ) ≠ 0 := toPoly_ne_zero_of_coeff _ 0 (by norm_num)

/-- (a) `1 + 2X + 0·X²` -/
example : @Poly.degreePlusOne ℚ (FOps.ofField ℚ) [1, 2, 0] = (toPoly ([1, 2, 0] : List ℚ)).natDegree + 1 :=
  degreePlusOne_eq_natDegree_succ _ (toPoly_ne_zero_of_coeff _ 0 (by norm_num))

example : @Poly.degreePlusOne ℚ (FOps.ofField ℚ) [1, 2, 0] = 2 := by decide
example : @Poly.trim ℚ (FOps.ofField ℚ) [1, 2, 0] = [1, 2] := by decide

/-- (b) -/
example : (@Poly.mul ℚ (FOps.ofField ℚ) [1, 1] [1, 1]).length = 3 :=
  mul_length _ _ (by simp) (by simp)
example : @Poly.mul ℚ (FOps.ofField ℚ) [1, 1] [-1, 1] = [-1, 0, 1] := by decide +kernel

/-- (c) `X² − 1 = (X − 1)(X + 1)`; `X² + 1 = (X − 1)(X + 1) + 2` -/
example : ∃ q r, @Poly.divRem ℚ (FOps.ofField ℚ) [-1, 0, 1] [1, 1] = some (q, r) ∧
    toPoly ([-1, 0, 1] : List ℚ) = toPoly q * toPoly [1, 1] + toPoly r ∧
    (toPoly r).degree < (toPoly ([1, 1] : List ℚ)).degree ∧
    q.getLast? ≠ some 0 ∧ r.getLast? ≠ some 0 := divRem_spec _ _ b_ne
example : ∃ q r, @Poly.divRem ℚ (FOps.ofField ℚ) [-1, 0, 1] [1, 1] = some (q, r) ∧
    toPoly q = toPoly ([-1, 0, 1] : List ℚ) / toPoly [1, 1] ∧
    toPoly r = toPoly ([-1, 0, 1] : List ℚ) % toPoly [1, 1] ∧
    q.getLast? ≠ some 0 ∧ r.getLast? ≠ some 0 := divRem_eq_div_mod _ _ b_ne
example : @Poly.divRem ℚ (FOps.ofField ℚ) [-1, 0, 1] [1, 1] = some ([-1, 1], []) := by decide +kernel
example : @Poly.divRem ℚ (FOps.ofField ℚ) [1, 0, 1] [1, 1, 0] = some ([-1, 1], [2]) := by decide +kernel
/-- zero divisor, nonzero dividend: `none`; zero dividend: `some ([], [])` even for the zero divisor -/
example : @Poly.divRem ℚ (FOps.ofField ℚ) [1] [0, 0] = none :=
  (divRem_eq_none_iff _ _).2 ⟨by
    apply (degreePlusOne_eq_zero_iff _).1; decide, toPoly_ne_zero_of_coeff _ 0 (by norm_num)⟩
example : @Poly.divRem ℚ (FOps.ofField ℚ) [0, 0] [] = some ([], []) :=
  divRem_zero_left _ _ ((degreePlusOne_eq_zero_iff _).1 (by decide))
example := divRem_some ([0, 0] : List ℚ) [] [] []
  (divRem_zero_left _ _ ((degreePlusOne_eq_zero_iff _).1 (by decide)))
example : (X : ℚ[X]) = (X ^ 2) / X ∧ (0 : ℚ[X]) = (X ^ 2) % X :=
  div_mod_unique X_ne_zero (by ring) (by simp)
/-- the loop from the initial state of `divRem [0,0,1] [1,1]` -/
example := divRem_loop_spec ([1, 1] : List ℚ) (by simp) (by simp) (toPoly [0, 0, 1]) 4 #[0, 0] [0, 0, 1]
  (lt_of_le_of_lt (Lemmas.C15Poly.dpo_le_length _) (by simp))
  (by rw [show (#[0, 0] : Array ℚ).toList = List.replicate 2 0 from rfl,
        Lemmas.C15Poly.toPoly_replicate_zero]; simp)
  (lt_of_le_of_lt (Lemmas.C15Poly.dpo_le_length _) (by simp))
  (by intro j _; rcases j with _ | _ | j <;> rfl)

/-- (d) over `ZMod 17`: `16` has order 2, `4` has order 4, `4² = 16` -/
instance : Fact (Nat.Prime 17) := ⟨by decide⟩

def pr17 (n : Nat) : ZMod 17 := if n = 1 then 16 else if n = 2 then 4 else 1

theorem pr17_one : IsPrimitiveRoot (pr17 1) (2 ^ 1) := by
  show IsPrimitiveRoot (16 : ZMod 17) 2
  refine IsPrimitiveRoot.mk_of_lt _ (by decide) (by decide) ?_
  intro l h0 hl
  interval_cases l
  decide

theorem pr17_two : IsPrimitiveRoot (pr17 (1 + 1)) (2 ^ (1 + 1)) := by
  show IsPrimitiveRoot (4 : ZMod 17) 4
  refine IsPrimitiveRoot.mk_of_lt _ (by decide) (by decide) ?_
  intro l h0 hl
  interval_cases l <;> decide

example := two_pow_ne_zero_of_primitive pr17_one
example := fft_spec pr17 pr17_one #[1, 2] rfl
example := cosetFft_spec pr17 pr17_one 3 #[1, 2] rfl
example := cosetIfft_cosetFft pr17 pr17_one 3 (by decide) #[1, 2] rfl
example := cosetFft_cosetIfft pr17 pr17_one 3 (by decide) #[1, 2] rfl
example := ldeCoeffs_spec pr17 (lgN := 1) (rate := 1) pr17_two #[1, 2] (by decide)
example := ldeCoeffs_subsample pr17 pr17_one pr17_two (by decide) #[1, 2] rfl
example := lde_spec pr17 pr17_one pr17_two (by decide) #[1, 2] rfl

/-- (e) -/
example := baryInterpolate_eq_interpolate ([(1, 3), (2, 5)] : List (ℚ × ℚ)) (by simp) 4
example := baryInterpolate_eq_lagrangeEval ([(1, 3), (2, 5)] : List (ℚ × ℚ)) (by simp) 4
example : @C15b.baryInterpolate ℚ (FOps.ofField ℚ) [(1, 3), (2, 5)] 4
    (@Poly.barycentricWeights ℚ (FOps.ofField ℚ) [1, 2]) = 9 := by decide +kernel

/-- distinctness is needed: with a repeated node the Rust-style `interpolate` returns the first
listed value, the definitional `lagrangeEval` returns `0` (`0⁻¹ = 0` in every term) -/
example : @C15b.baryInterpolate ℚ (FOps.ofField ℚ) [(1, 3), (1, 5)] 1
    (@Poly.barycentricWeights ℚ (FOps.ofField ℚ) [1, 1]) = 3 := by decide +kernel
example : @Poly.lagrangeEval ℚ (FOps.ofField ℚ) [(1, 3), (1, 5)] 1 = 0 := by decide +kernel

/-- (f) over `ZMod 17`: `n = 2`, `rate = 2`, `w = 2` of order 8, `v = w² = 4`, `g = 3`, `i = 5` -/
example := zpoly_periodic (3 : ZMod 17) 2 1 2 5 (by decide)
example := zeroPolyOnCosetEval_eq (3 : ZMod 17) 2 4 1 2 5 (by decide) (by decide)

end

end P2.Props.C15b
