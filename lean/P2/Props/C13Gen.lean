/-
C13 (translator tie): facts about the Poseidon tables extracted from /repo on this run.
-/
import P2.Gen.Poseidon
import P2.Model.Goldilocks
import P2.Model.PoseidonFast
namespace P2.Props.C13Gen
open P2

/-- shapes of all tables -/
theorem table_shapes :
    Gen.SPONGE_RATE = 8 ∧ Gen.SPONGE_CAPACITY = 4 ∧ Gen.HALF_N_FULL_ROUNDS = 4 ∧
    Gen.N_PARTIAL_ROUNDS = 22 ∧ Gen.NUM_HASH_OUT_ELTS = 4 ∧
    Gen.ALL_ROUND_CONSTANTS.length = 12 * 30 ∧
    Gen.MDS_MATRIX_CIRC.length = 12 ∧ Gen.MDS_MATRIX_DIAG.length = 12 ∧
    Gen.FAST_PARTIAL_FIRST_ROUND_CONSTANT.length = 12 ∧
    Gen.FAST_PARTIAL_ROUND_CONSTANTS.length = 22 ∧
    Gen.FAST_PARTIAL_ROUND_VS.length = 22 ∧ (∀ row ∈ Gen.FAST_PARTIAL_ROUND_VS, row.length = 11) ∧
    Gen.FAST_PARTIAL_ROUND_W_HATS.length = 22 ∧ (∀ row ∈ Gen.FAST_PARTIAL_ROUND_W_HATS, row.length = 11) ∧
    Gen.FAST_PARTIAL_ROUND_INITIAL_MATRIX.length = 11 ∧
    (∀ row ∈ Gen.FAST_PARTIAL_ROUND_INITIAL_MATRIX, row.length = 11) ∧
    Gen.MDS_FREQ_BLOCK_ONE.length = 3 ∧ Gen.MDS_FREQ_BLOCK_TWO.length = 3 ∧
    (∀ row ∈ Gen.MDS_FREQ_BLOCK_TWO, row.length = 2) ∧ Gen.MDS_FREQ_BLOCK_THREE.length = 3 := by
  decide +kernel

/-- `constant_layer` uses `add_canonical_u64` legitimately: every round constant is canonical -/
theorem round_constants_canonical : ∀ c ∈ Gen.ALL_ROUND_CONSTANTS, c < L0.P := by decide +kernel

/-- the fast partial-round constants added with `add_canonical_u64` are canonical -/
theorem fast_partial_round_constants_canonical :
    ∀ c ∈ Gen.FAST_PARTIAL_ROUND_CONSTANTS, c < L0.P := by decide +kernel

/-- `from_canonical_u64` of the other fast tables is legitimate as well -/
theorem fast_tables_canonical :
    (∀ c ∈ Gen.FAST_PARTIAL_FIRST_ROUND_CONSTANT, c < L0.P) ∧
    (∀ row ∈ Gen.FAST_PARTIAL_ROUND_VS, ∀ c ∈ row, c < L0.P) ∧
    (∀ row ∈ Gen.FAST_PARTIAL_ROUND_W_HATS, ∀ c ∈ row, c < L0.P) ∧
    (∀ row ∈ Gen.FAST_PARTIAL_ROUND_INITIAL_MATRIX, ∀ c ∈ row, c < L0.P) := by decide +kernel

/-- "The values of MDS_MATRIX_CIRC and MDS_MATRIX_DIAG are known to be small": the u128 row
accumulation of twelve `u64 × entry` products plus the diagonal term stays below `2^96`
(entries sum to less than `2^32`), and only `diag[0]` is non-zero (the Goldilocks override adds
only that term). -/
theorem mds_entries_small :
    (Gen.MDS_MATRIX_CIRC.foldl (· + ·) 0) + (Gen.MDS_MATRIX_DIAG.foldl (· + ·) 0) < 2 ^ 32 ∧
    (∀ i, i < 12 → 0 < i → Gen.MDS_MATRIX_DIAG[i]! = 0) := by decide +kernel

/-- the frequency-domain block constants are the (pre-scaled) 3-point transforms of the
circulant's first row: multiplying by them is the circulant product. Checked here on the twelve unit
vectors; linearity (proved in `P2.Props.C13`) extends it to all inputs. -/
theorem freq_blocks_match_circulant_on_basis :
    ∀ k, k < 12 → ∀ r, r < 12 →
      (PoseidonFast.mdsMultiplyFreq ((Array.replicate 12 (0 : Int)).set! k 1))[r]! =
        PoseidonFast.circulant ((Array.replicate 12 (0 : Int)).set! k 1) r := by
  decide +kernel

end P2.Props.C13Gen
