/-
C11 (component equivalences): the variable-degree gadgets of the in-circuit STARK verifier compute
what the native verifier computes.
 (i)   `degree = 2^degree_bits` from the `degree_bits` target: equal to the native value exactly when
       `degree_bits < 2^width`, unsatisfiable otherwise (the width condition that seeded change
       C11-m1 violates for circuits whose degree_bits is a power of two); `zeta^degree` from the
       bits of `degree` equals the native `exp_power_of_2`;
 (ii)  recombining a chunk of quotient openings with `ReducingFactorTarget(ζ^n)` is the native
       `reduce_with_powers`; seeded change C11-m2 computes it for the REVERSED chunk;
 (iii) the conditional Merkle gadget with a window of final states checks exactly the native
       verification of the path prefix whose length the degree selects;
 (iv)  evaluating the zero-padded final polynomial equals evaluating the unpadded one.
Core Lean only.
-/
import P2.Model.StarkCircuit
import P2.Props.C06
namespace P2.Props.C11
open P2 P2.Merkle P2.CircuitVerifier P2.StarkCircuit

variable {K : Type}

/-! ## (i) degree from bits -/

/-- the multiplicative laws the power lemmas need (a monoid) -/
structure MulLaws (K : Type) [Mul K] (one : K) : Prop where
  one_mul : ∀ x : K, one * x = x
  mul_one : ∀ x : K, x * one = x
  mul_assoc : ∀ x y z : K, x * y * z = x * (y * z)

theorem natLaws : MulLaws Nat 1 := ⟨Nat.one_mul, Nat.mul_one, Nat.mul_assoc⟩

/-- `x^n` by repeated multiplication on the right -/
def npow [Mul K] (one x : K) : Nat → K
  | 0 => one
  | n + 1 => npow one x n * x

/-- value of little-endian bits -/
def bitsVal : List Bool → Nat
  | [] => 0
  | b :: bs => (if b then 1 else 0) + 2 * bitsVal bs

section
variable [Mul K] {one : K} (L : MulLaws K one)
include L

theorem npow_add (x : K) (a b : Nat) : npow one x (a + b) = npow one x a * npow one x b := by
  induction b with
  | zero => simp [npow, L.mul_one]
  | succ b ih => rw [← Nat.add_assoc]; simp only [npow]; rw [ih, L.mul_assoc]

theorem npow_comm (x : K) (n : Nat) : x * npow one x n = npow one x n * x := by
  induction n with
  | zero => simp [npow, L.mul_one, L.one_mul]
  | succ n ih => simp only [npow]; rw [← L.mul_assoc, ih]

theorem npow_sq (x : K) (n : Nat) : npow one (x * x) n = npow one x (2 * n) := by
  induction n with
  | zero => simp [npow]
  | succ n ih =>
    have : 2 * (n + 1) = 2 * n + 1 + 1 := by omega
    rw [this]; simp only [npow]; rw [ih, L.mul_assoc]

/-- the exponentiation gate computes `base^(value of the bits)` -/
theorem expFromBits_eq (base : K) (bs : List Bool) :
    expFromBits one base bs = npow one base (bitsVal bs) := by
  unfold expFromBits
  rw [List.foldl_reverse]
  induction bs with
  | nil => simp [bitsVal, npow]
  | cons b bs ih =>
    simp only [List.foldr_cons, bitsVal]
    rw [ih, ← npow_add L]
    cases b with
    | false =>
      simp only [Bool.false_eq_true, if_false, L.mul_one]
      congr 1; omega
    | true =>
      simp only [if_true]
      have : 1 + 2 * bitsVal bs = (bitsVal bs + bitsVal bs) + 1 := by omega
      rw [this]; simp [npow]

/-- `exp_extension_from_bits` computes `res · base^(value of the bits)` -/
theorem expExtFromBits_eq (bs : List Bool) : ∀ (base res : K),
    expExtFromBits base bs res = res * npow one base (bitsVal bs) := by
  induction bs with
  | nil => intro base res; simp [expExtFromBits, bitsVal, npow, L.mul_one]
  | cons b bs ih =>
    intro base res
    simp only [expExtFromBits, bitsVal]
    rw [ih, npow_sq L]
    cases b with
    | false => simp
    | true =>
      simp only [if_true]
      have : 1 + 2 * bitsVal bs = 2 * bitsVal bs + 1 := by omega
      rw [this]; simp only [npow]
      rw [L.mul_assoc, npow_comm L]

/-- native `exp_power_of_2` -/
theorem expPowerOf2_eq (d : Nat) : ∀ x : K, expPowerOf2 x d = npow one x (2 ^ d) := by
  induction d with
  | zero => intro x; simp [expPowerOf2, npow, L.one_mul]
  | succ d ih =>
    intro x
    simp only [expPowerOf2]
    rw [ih, npow_sq L]
    congr 1; rw [Nat.pow_succ]; omega

end

theorem bitsVal_lowBits (n x : Nat) : bitsVal (lowBits n x) = x % 2 ^ n := by
  induction n generalizing x with
  | zero => simp [lowBits, bitsVal, Nat.mod_one]
  | succ n ih =>
    simp only [lowBits, bitsVal, ih]
    have h2 : 2 ^ (n + 1) = 2 * 2 ^ n := by rw [Nat.pow_succ]; omega
    rw [h2, Nat.mod_mul]
    by_cases hb : x % 2 = 1
    · simp [hb]
    · have : x % 2 = 0 := by omega
      simp [this]

theorem npow_nat (b n : Nat) : npow 1 b n = b ^ n := by
  induction n with
  | zero => rfl
  | succ n ih => simp [npow, ih, Nat.pow_succ]

/-- **`builder.exp`**: the exponent must fit the declared width, and then the result is the power. -/
theorem expGadget_eq [Mul K] {one : K} (L : MulLaws K one) (base : K) (e n : Nat) :
    expGadget one base e n = if e < 2 ^ n then some (npow one base e) else none := by
  unfold expGadget splitLe
  by_cases h : e < 2 ^ n
  · simp only [h, if_true, Option.map_some]
    rw [expFromBits_eq L, bitsVal_lowBits, Nat.mod_eq_of_lt h]
  · simp [h]

/-- **The degree gadget.** `exp(2, degree_bits, width)` yields the native `2^degree_bits` exactly
when `degree_bits < 2^width`; otherwise the decomposition of `degree_bits` into `width` bits is
unsatisfiable and the circuit rejects. -/
theorem degreeGadget_eq (width d : Nat) :
    degreeGadget width d = if d < 2 ^ width then some (2 ^ d) else none := by
  unfold degreeGadget
  rw [expGadget_eq natLaws, npow_nat]

/-- the code's width `degree_bits(circuit) + 1` is always enough: every supported length works -/
theorem degreeGadget_code_width (maxBits d : Nat) (h : d ≤ maxBits) :
    degreeGadget (maxBits + 1) d = some (2 ^ d) := by
  rw [degreeGadget_eq]
  have : d < 2 ^ (maxBits + 1) :=
    Nat.lt_of_le_of_lt h (Nat.lt_trans (Nat.lt_succ_self _) Nat.lt_two_pow_self)
  simp [this]

/-- a width of `j` bits cannot carry `degree_bits = 2^j`: with seeded change C11-m1 the width is
`log2_ceil(degree_bits(circuit))`, which is `j` for a circuit sized for `2^j`, and a proof of
exactly the circuit's length is rejected -/
theorem degreeGadget_too_narrow (width d : Nat) (h : 2 ^ width ≤ d) : degreeGadget width d = none := by
  rw [degreeGadget_eq]; simp [Nat.not_lt.mpr h]

example : degreeGadget (log2Ceil 4) 4 = none := by decide
example : degreeGadget (log2Ceil 8) 8 = none := by decide
example : degreeGadget (log2Ceil 2) 2 = none := by decide
example : degreeGadget (log2Ceil 5) 5 = some 32 := by decide
example : degreeGadget (log2Ceil 8) 7 = some 128 := by decide
example : degreeGadget (8 + 1) 8 = some 256 := by decide

/-- **`degree_bits_vec`.** For a supported length the bits are those of `2^degree_bits`; a
`degree_bits` above the circuit's maximum fails the range check `split_le(degree, maxBits + 1)`. -/
theorem degreeBitsVec_eq (maxBits d : Nat) :
    degreeBitsVec (maxBits + 1) maxBits d =
      if d ≤ maxBits then some (lowBits (maxBits + 1) (2 ^ d)) else none := by
  unfold degreeBitsVec
  rw [degreeGadget_eq]
  by_cases h : d ≤ maxBits
  · have h1 : d < 2 ^ (maxBits + 1) :=
      Nat.lt_of_le_of_lt h (Nat.lt_trans (Nat.lt_succ_self _) Nat.lt_two_pow_self)
    have h2 : 2 ^ d < 2 ^ (maxBits + 1) := Nat.pow_lt_pow_right (by omega) (by omega)
    simp [h, h1, splitLe, h2]
  · have h2 : ¬ 2 ^ d < 2 ^ (maxBits + 1) := by
      intro hh
      have := (Nat.pow_lt_pow_iff_right (a := 2) (by omega)).mp hh
      omega
    by_cases h1 : d < 2 ^ (maxBits + 1)
    · simp [h, h1, splitLe, h2]
    · simp [h, h1]

/-- **`zeta_pow_deg` in the circuit = native `zeta.exp_power_of_2(degree_bits)`** for every
supported length; rejection above the maximum. -/
theorem zetaPowDeg_eq_native [Mul K] {one : K} (L : MulLaws K one) (zeta : K) (maxBits d : Nat) :
    zetaPowDeg one zeta (maxBits + 1) maxBits d =
      if d ≤ maxBits then some (expPowerOf2 zeta d) else none := by
  unfold zetaPowDeg
  rw [degreeBitsVec_eq]
  by_cases h : d ≤ maxBits
  · have h2 : 2 ^ d < 2 ^ (maxBits + 1) := Nat.pow_lt_pow_right (by omega) (by omega)
    simp only [h, if_true, Option.map_some]
    rw [expExtFromBits_eq L, bitsVal_lowBits, Nat.mod_eq_of_lt h2, L.one_mul, expPowerOf2_eq L]
  · simp [h]

/-! ## (ii) quotient recombination, (iv) zero-padded final polynomial -/

theorem foldr_replicate_zero (f : K → K → K) (z : K) (hz : f z z = z) (k : Nat) :
    List.foldr f z (List.replicate k z) = z := by
  induction k with
  | zero => rfl
  | succ k ih => simp [List.replicate_succ, ih, hz]

section Reduce
variable [FOps K]

/-- **`ReducingFactorTarget::reduce` = native `reduce_with_powers`**, whatever the number of zeros
that fill up the last reducing gate. `hc`: multiplication by `α` commutes (the circuit multiplies
`α·acc`, the native code `acc·α`); `hz`: `α·0 + 0 = 0`. -/
theorem reducingReduce_eq_native (alpha : K) (terms : List K) (pad : Nat)
    (hc : ∀ x : K, alpha * x = x * alpha) (hz : alpha * (FOps.zero : K) + FOps.zero = FOps.zero) :
    reducingReduce FOps.zero alpha terms pad = FOps.reduceWithPowers terms alpha := by
  unfold reducingReduce FOps.reduceWithPowers
  rw [List.foldl_reverse, List.foldr_append,
    foldr_replicate_zero (fun t acc => alpha * acc + t) FOps.zero hz]
  congr 1
  funext t acc
  rw [hc]

/-- the circuit's identity check on a chunk is the native one -/
theorem quotientCheck_circuit_eq_native (vanishing zH zetaPow : K) (chunk : List K)
    (hc : ∀ x : K, zetaPow * x = x * zetaPow)
    (hz : zetaPow * (FOps.zero : K) + FOps.zero = FOps.zero) :
    quotientCheckCircuit vanishing zH zetaPow chunk = quotientCheckNative vanishing zH zetaPow chunk := by
  unfold quotientCheckCircuit quotientCheckNative
  rw [reducingReduce_eq_native zetaPow chunk 0 hc hz]

/-- **Seeded change C11-m2 recombines the REVERSED chunk**: its Horner loop takes `chunk[0]` as
the leading coefficient. (`hz0`: `0·α + c = c`.) -/
theorem seededM2_is_reversed (alpha c0 : K) (rest : List K)
    (hz0 : ∀ c : K, (FOps.zero : K) * alpha + c = c) :
    seededM2Reduce alpha (c0 :: rest) = some (FOps.reduceWithPowers (c0 :: rest).reverse alpha) := by
  unfold seededM2Reduce FOps.reduceWithPowers
  rw [List.foldr_reverse]
  simp [List.foldl_cons, hz0]

/-- **(iv) The zero-padded final polynomial evaluates like the unpadded one**: what
`set_fri_proof_target` assigns to a final-polynomial target longer than the proof's polynomial
(a proof of a shorter trace in the variable-degree circuit) does not change `eval_scalar`. -/
theorem paddedFinalPolyEval_eq_native (x : K) (coeffs : List K) (targetLen pad : Nat)
    (hc : ∀ y : K, x * y = y * x) (hz : x * (FOps.zero : K) + FOps.zero = FOps.zero) :
    paddedFinalPolyEval FOps.zero x coeffs targetLen pad = FOps.reduceWithPowers coeffs x := by
  unfold paddedFinalPolyEval reducingReduce
  rw [List.append_assoc, List.replicate_append_replicate]
  exact reducingReduce_eq_native x coeffs _ hc hz

end Reduce

/-- over the integers the seeded recombination differs from the native one as soon as a chunk has
two elements (`quotient_degree_factor = 2`, constraint degree 3) … -/
example : seededM2Reduce 2 [1, 0] = some 2 ∧ (List.foldr (fun x acc => acc * 2 + x) 0 [1, 0] : Nat) = 1 := by decide
/-- … and agrees on one-element chunks (constraint degree ≤ 2), where it goes unnoticed -/
example : seededM2Reduce 7 [5] = some 5 ∧ (List.foldr (fun x acc => acc * 7 + x) 0 [5] : Nat) = 5 := by decide

/-! ## (iii) conditional Merkle verification with a window of final states -/

theorem lowBits_take (n i k : Nat) (h : k ≤ n) : (lowBits n i).take k = lowBits k i := by
  induction n generalizing i k with
  | zero => have : k = 0 := by omega
            subst this; simp [lowBits]
  | succ n ih =>
    cases k with
    | zero => simp [lowBits]
    | succ k => simp only [lowBits, List.take_succ_cons]; rw [ih _ _ (by omega)]

section Window
variable {L D : Type}

/-- the states after 1, 2, … layers -/
def pathStates (h : Hasher L D) : D → List (Bool × D) → List D
  | _, [] => []
  | st, bs :: rest => layer h st bs :: pathStates h (layer h st bs) rest

theorem pathStates_length (h : Hasher L D) (l : List (Bool × D)) : ∀ st, (pathStates h st l).length = l.length := by
  induction l with
  | nil => intro st; rfl
  | cons b l ih => intro st; simp [pathStates, ih]

/-- entry `i` of `pathStates` is the state after the first `i + 1` layers -/
theorem pathStates_get (h : Hasher L D) (l : List (Bool × D)) : ∀ (st : D) (i : Nat), i < l.length →
    (pathStates h st l)[i]? = some ((l.take (i + 1)).foldl (layer h) st) := by
  induction l with
  | nil => intro st i hi; simp at hi
  | cons b l ih =>
    intro st i hi
    cases i with
    | zero => simp [pathStates]
    | succ i =>
      simp only [pathStates, List.getElem?_cons_succ, List.take_succ_cons, List.foldl_cons]
      exact ih _ i (by simpa using hi)

/-- the window after all layers: the last `num` entries of `num` copies of the leaf hash followed
by the path states -/
theorem window_invariant (h : Hasher L D) (num : Nat) (hn : 1 ≤ num) (l : List (Bool × D)) :
    ∀ (st : D) (pre : List D) (t : Nat), t + num = pre.length →
      (l.foldl (fun (sw : D × List D) bs =>
          let s := layer h sw.1 bs
          (s, sw.2.drop 1 ++ [s])) (st, pre.drop t)).2
        = (pre ++ pathStates h st l).drop (t + l.length) := by
  induction l with
  | nil => intro st pre t _; simp [pathStates]
  | cons b l ih =>
    intro st pre t ht
    simp only [List.foldl_cons, pathStates]
    have hdrop : (pre.drop t).drop 1 ++ [layer h st b] = (pre ++ [layer h st b]).drop (t + 1) := by
      rw [List.drop_drop, List.drop_append_of_le_length (by omega)]
    rw [hdrop, ih (layer h st b) (pre ++ [layer h st b]) (t + 1) (by simp; omega)]
    simp only [List.append_assoc, List.singleton_append, List.length_cons]
    congr 1
    omega

theorem take_zip' {α β : Type} (l1 : List α) (l2 : List β) (n : Nat) :
    (l1.zip l2).take n = (l1.take n).zip (l2.take n) := by
  induction l1 generalizing l2 n with
  | nil => simp
  | cons a l1 ih =>
    cases l2 with
    | nil => simp
    | cons b l2 =>
      cases n with
      | zero => simp
      | succ n => simp [ih]

/-- **Entry `j` of `final_states`**: with `n = min(bits, siblings)` layers hashed, entry `j` of the
window holds the state after `k = n + j + 1 − num` layers (provided that many layers exist;
`k = 0` is the leaf hash the window is initialised with). -/
theorem windowStates_get (h : Hasher L D) (leaf : L) (bits : List Bool) (proof : List D)
    (num j k : Nat) (hj : j < num) (hk : k + num = (bits.zip proof).length + j + 1) :
    (windowStates h leaf bits proof num)[j]? =
      some (circuitPathState h leaf (bits.take k) (proof.take k)) := by
  unfold windowStates circuitPathState
  have hn : 1 ≤ num := by omega
  have inv := window_invariant h num hn (bits.zip proof) (h.hashLeaf leaf)
    (List.replicate num (h.hashLeaf leaf)) 0 (by simp)
  simp only [List.drop_zero, Nat.zero_add] at inv
  rw [inv, List.getElem?_drop, ← take_zip']
  generalize hnl : (bits.zip proof).length = n at hk
  by_cases hlt : num ≤ n + j
  · have h1 : (List.replicate num (h.hashLeaf leaf)).length ≤ n + j := by simpa using hlt
    rw [List.getElem?_append_right h1]
    simp only [List.length_replicate]
    have h2 : n + j - num < (bits.zip proof).length := by omega
    rw [pathStates_get h _ _ _ h2]
    have e : n + j - num + 1 = k := by omega
    rw [e]
    rfl
  · have hk0 : k = 0 := by omega
    have h1 : n + j < (List.replicate num (h.hashLeaf leaf)).length := by simp; omega
    rw [List.getElem?_append_left h1, hk0]
    simp [List.getElem?_replicate]
    omega

/-- **The conditional Merkle gadget ⇔ native verification of the selected prefix.** The circuit is
built for paths of up to `proof.length` siblings and `bits` are the canonical low bits of the leaf
index; `nIndex` (the degree index) selects the window entry holding the state after `k` layers,
`k = proof.length + nIndex + 1 − num`. With the condition on, the gadget's assertion holds iff
native `verify_merkle_proof_to_cap` accepts the first `k` siblings against the cap entry
`capIndex = index / 2^k`. -/
theorem condMerkle_iff_native [DecidableEq D] (h : Hasher L D) (leaf : L) (index : Nat)
    (cap : List D) (proof : List D) (num nIndex k : Nat) (hj : nIndex < num)
    (hk : k + num = proof.length + nIndex + 1) :
    condMerkleHolds h true leaf (lowBits proof.length index) num nIndex (index / 2 ^ k) cap proof = true ↔
      verifyToCap h leaf index cap (proof.take k) = .ok := by
  have hz : ((lowBits proof.length index).zip proof).length = proof.length := by
    simp [P2.Props.C06.lowBits_length]
  have hw := windowStates_get h leaf (lowBits proof.length index) proof num nIndex k hj (by rw [hz]; exact hk)
  have hkl : k ≤ proof.length := by omega
  have hnat := P2.Props.C06.merkle_circuit_iff_native h leaf index cap (proof.take k)
  rw [List.length_take, Nat.min_eq_left hkl] at hnat
  rw [← hnat]
  unfold condMerkleHolds circuitMerkleHolds
  rw [hw, lowBits_take _ _ _ hkl]
  cases hc : cap[index / 2 ^ k]? with
  | none => simp
  | some c => simp

/-- with the condition off (a skipped FRI step) the assertion only needs both indices in range -/
theorem condMerkle_off [DecidableEq D] (h : Hasher L D) (leaf : L) (bits : List Bool)
    (num nIndex capIndex : Nat) (cap : List D) (proof : List D)
    (h1 : capIndex < cap.length) (h2 : nIndex < num) :
    condMerkleHolds h false leaf bits num nIndex capIndex cap proof = true := by
  unfold condMerkleHolds
  have hl : (windowStates h leaf bits proof num).length = num := by
    unfold windowStates
    have : ∀ (l : List (Bool × D)) (st : D) (w : List D), w.length = num →
        ((l.foldl (fun (sw : D × List D) bs =>
          let s := layer h sw.1 bs
          (s, sw.2.drop 1 ++ [s])) (st, w)).2).length = num := by
      intro l
      induction l with
      | nil => intro st w hw; simpa using hw
      | cons b l ih =>
        intro st w hw
        simp only [List.foldl_cons]
        apply ih
        simp; omega
    exact this _ _ _ (by simp)
  rw [List.getElem?_eq_getElem h1, List.getElem?_eq_getElem (by rw [hl]; exact h2)]
  simp

end Window

/-! ## (v) the skipped FRI steps are the ones the native schedule does not have -/

/-- bit `i` of `2^d − 1` is set iff `i < d` -/
theorem lowBits_pred_two_pow (n : Nat) : ∀ (d i : Nat), i < n →
    (lowBits n (2 ^ d - 1))[i]? = some (decide (i < d)) := by
  induction n with
  | zero => intro d i hi; omega
  | succ n ih =>
    intro d i hi
    cases d with
    | zero =>
      cases i with
      | zero => simp [lowBits]
      | succ i =>
        have := ih 0 i (by omega)
        simp only [Nat.pow_zero, Nat.sub_self] at this
        simp [lowBits, this]
    | succ d =>
      have h1 : (2 ^ (d + 1) - 1) % 2 = 1 := by
        have : 2 ^ (d + 1) = 2 * 2 ^ d := by rw [Nat.pow_succ]; omega
        have hp : 0 < 2 ^ d := Nat.pow_pos (by omega)
        omega
      have h2 : (2 ^ (d + 1) - 1) / 2 = 2 ^ d - 1 := by
        have : 2 ^ (d + 1) = 2 * 2 ^ d := by rw [Nat.pow_succ]; omega
        have hp : 0 < 2 ^ d := Nat.pow_pos (by omega)
        omega
      cases i with
      | zero => simp [lowBits, h1]
      | succ i =>
        simp only [lowBits, h2, List.getElem?_cons_succ]
        rw [ih d i (by omega)]
        simp

/-- **`step_active`**: for a supported length, step `j` of the circuit's schedule is active iff the
trace is long enough to reach it: `finalBits + j·a < degree_bits` -/
theorem stepActive_eq (maxBits d finalBits a j : Nat) (hd : d ≤ maxBits)
    (hj : finalBits + j * a < maxBits) :
    (degreeSubOneBits maxBits d).map (fun v => stepActive v finalBits a j)
      = some (decide (finalBits + j * a < d)) := by
  unfold degreeSubOneBits splitLe stepActive
  have hp : 0 < 2 ^ d := Nat.pow_pos (by omega)
  have h2 : 2 ^ d ≤ 2 ^ maxBits := Nat.pow_le_pow_right (by omega) hd
  have hlt : 2 ^ d - 1 < 2 ^ maxBits := by omega
  simp only [hlt, if_true, Option.map_some, List.getD_eq_getElem?_getD]
  rw [lowBits_pred_two_pow maxBits d _ hj]
  rfl

/-- number of reductions of the native `ConstantArityBits(a, f)` schedule under the cap height the
variable-degree mode needs -/
def numSteps (a f d : Nat) : Nat := if d ≤ f + 1 then 0 else (d - f - 2) / a + 1

theorem lt_numSteps_iff (a f d j : Nat) (ha : 1 ≤ a) : j < numSteps a f d ↔ f + 1 + j * a < d := by
  unfold numSteps
  by_cases h : d ≤ f + 1
  · simp only [h, if_true]
    constructor
    · intro hh; omega
    · intro hh
      have : 0 ≤ j * a := Nat.zero_le _
      omega
  · simp only [h, if_false]
    rw [Nat.lt_succ_iff, Nat.le_div_iff_mul_le (by omega)]
    omega

/-- **The native schedule.** With `cap_height = f + 2 + rate_bits − a` (the relation under which one
circuit can serve every shorter length, see `gen_var_config` in harness/src/c11.rs), `1 ≤ a ≤ f + 2`
and `rate_bits ≥ 1`, `ConstantArityBits(a, f)` reduces a trace of `2^d` rows exactly
`numSteps a f d` times — i.e. (by `lt_numSteps_iff` and `stepActive_eq` with `finalBits = f + 1`)
step `j` exists natively iff the circuit's `step_active` flag of step `j` is on. -/
theorem constantArityBits_var (a f rate cap : Nat) (ha : 1 ≤ a) (haf : a ≤ f + 2) (hr : 1 ≤ rate)
    (hcap : cap + a = f + 2 + rate) :
    ∀ fuel d, d ≤ fuel →
      Fri.constantArityBits a f rate cap fuel d = some (List.replicate (numSteps a f d) a) := by
  intro fuel
  induction fuel with
  | zero =>
    intro d hd
    have : d = 0 := by omega
    subst this
    simp [Fri.constantArityBits, numSteps]
  | succ fuel ih =>
    intro d hd
    simp only [Fri.constantArityBits]
    by_cases hstep : f + 2 ≤ d
    · have hc : d > f ∧ (d + rate < a ∨ d + rate ≥ cap + a) := ⟨by omega, Or.inr (by omega)⟩
      have hda : ¬ d < a := by omega
      rw [if_pos hc, if_neg hda, ih (d - a) (by omega)]
      simp only [Option.map_some]
      have hn : numSteps a f d = numSteps a f (d - a) + 1 := by
        unfold numSteps
        have h1 : ¬ d ≤ f + 1 := by omega
        simp only [h1, if_false]
        by_cases h2 : d - a ≤ f + 1
        · simp only [h2, if_true]
          have : (d - f - 2) / a = 0 := Nat.div_eq_of_lt (by omega)
          omega
        · simp only [h2, if_false]
          have e : d - f - 2 = (d - a - f - 2) + a := by omega
          rw [e, Nat.add_div_right _ (by omega)]
      rw [hn, List.replicate_succ]
    · have hc : ¬ (d > f ∧ (d + rate < a ∨ d + rate ≥ cap + a)) := by
        intro ⟨h1, h2⟩
        cases h2 with
        | inl h => omega
        | inr h => omega
      rw [if_neg hc]
      have : numSteps a f d = 0 := by unfold numSteps; simp; omega
      simp [this]

end P2.Props.C11
