/-
C08b (the algebra behind the logUp-style lookup argument, over an arbitrary field `K`):
 L1 the cleared-denominator form of `Σ_a m(a)/(X − a) = Σ_a m'(a)/(X − a)` forces `m = m'` on `S`
    (in `K`, and in `ℕ` below the characteristic);
 L2 specialised to looked-up values `f` and a table `t` with multiplicities: the multiset of
    looked-up values is the table with its multiplicities, in particular every looked-up value is
    in the table; also from the rational identity at `≥ #S` challenge points;
 L3 Horner accumulation (`lutPolyEval`) binds the coefficient list, and two linear combinations
    bind a pair — together the RE polynomial binds the declared table;
 L4 telescoping of the running-sum columns.
-/
import P2.Lemmas.Alg2
namespace P2.Props.C08
open P2 Polynomial P2.Lemmas.Alg2

variable {K : Type} [Field K] [DecidableEq K]

/-! ## L1 the polynomial form of the logUp identity -/

/-- **logUp, polynomial form**: if
`Σ_{a∈S} m(a)·∏_{b∈S∖a}(X − b) = Σ_{a∈S} m'(a)·∏_{b∈S∖a}(X − b)` in `K[X]`
(the identity `Σ_a m(a)/(X − a) = Σ_a m'(a)/(X − a)` multiplied by `∏_{b∈S}(X − b)`),
then `m(a) = m'(a)` in `K` for every `a ∈ S`. (Evaluate at `X = a`.) -/
theorem logup_polynomial_form (S : Finset K) (m m' : K → ℕ)
    (h : ∑ a ∈ S, (m a : K) • ∏ b ∈ S.erase a, (X - C b)
       = ∑ a ∈ S, (m' a : K) • ∏ b ∈ S.erase a, (X - C b)) :
    ∀ a ∈ S, (m a : K) = (m' a : K) :=
  logupPoly_inj S (fun a => (m a : K)) (fun a => (m' a : K)) h

/-- the same for arbitrary weights in `K` -/
theorem logup_polynomial_form_weights (S : Finset K) (w w' : K → K)
    (h : ∑ a ∈ S, w a • ∏ b ∈ S.erase a, (X - C b) = ∑ a ∈ S, w' a • ∏ b ∈ S.erase a, (X - C b)) :
    ∀ a ∈ S, w a = w' a :=
  logupPoly_inj S w w' h

/-- **logUp, multiplicities as naturals**: when all multiplicities are below a bound `N` on which
`ℕ → K` is injective (`N ≤ char K`, or any `N` in characteristic zero), they agree in `ℕ`. -/
theorem logup_polynomial_form_nat (S : Finset K) (m m' : K → ℕ) (N : ℕ)
    (hchar : ∀ n k : ℕ, n < N → k < N → (n : K) = (k : K) → n = k)
    (hm : ∀ a ∈ S, m a < N ∧ m' a < N)
    (h : ∑ a ∈ S, (m a : K) • ∏ b ∈ S.erase a, (X - C b)
       = ∑ a ∈ S, (m' a : K) • ∏ b ∈ S.erase a, (X - C b)) :
    ∀ a ∈ S, m a = m' a :=
  fun a ha => hchar _ _ (hm a ha).1 (hm a ha).2 (logup_polynomial_form S m m' h a ha)

omit [DecidableEq K] in
/-- the side condition `hchar` holds for `N ≤ p` in characteristic `p > 0`, and for every `N` in
characteristic `0` -/
theorem natCast_inj_below_char (p : ℕ) [CharP K p] (N : ℕ) (hN : p ≠ 0 → N ≤ p) :
    ∀ n k : ℕ, n < N → k < N → (n : K) = (k : K) → n = k := by
  intro n k hn hk h
  by_cases hp : p = 0
  · subst hp
    have := CharP.charP_to_charZero K
    exact Nat.cast_injective h
  · exact CharP.natCast_injOn_Iio K p (lt_of_lt_of_le hn (hN hp)) (lt_of_lt_of_le hk (hN hp)) h

/-- the characteristic hypothesis is necessary: in characteristic `p > 0` the multiplicities `0`
and `p` satisfy the polynomial identity (`S = {0}`) but differ in `ℕ` -/
theorem logup_nat_false_without_char (p : ℕ) [CharP K p] (hp : p ≠ 0) :
    ∃ (S : Finset K) (m m' : K → ℕ),
      (∑ a ∈ S, (m a : K) • ∏ b ∈ S.erase a, (X - C b)
        = ∑ a ∈ S, (m' a : K) • ∏ b ∈ S.erase a, (X - C b))
      ∧ ∃ a ∈ S, m a ≠ m' a :=
  ⟨{0}, fun _ => 0, fun _ => p, by simp, 0, by simp, by simpa using hp.symm⟩

/-! ## L1' from the rational identity at enough points -/

/-- if `Σ_{a∈S} w(a)/(x − a) = Σ_{a∈S} w'(a)/(x − a)` at `≥ #S` points `x ∉ S`, the polynomial
identity of L1 holds (both sides have degree `< #S`) -/
theorem logup_rational_form (S T : Finset K) (w w' : K → K) (hdisj : Disjoint T S)
    (hcard : S.card ≤ T.card)
    (h : ∀ x ∈ T, ∑ a ∈ S, w a / (x - a) = ∑ a ∈ S, w' a / (x - a)) :
    ∑ a ∈ S, w a • ∏ b ∈ S.erase a, (X - C b) = ∑ a ∈ S, w' a • ∏ b ∈ S.erase a, (X - C b) :=
  logupPoly_eq_of_evals S T w w' hdisj hcard h

/-- hence the weights agree on `S` -/
theorem logup_rational_weights (S T : Finset K) (w w' : K → K) (hdisj : Disjoint T S)
    (hcard : S.card ≤ T.card)
    (h : ∀ x ∈ T, ∑ a ∈ S, w a / (x - a) = ∑ a ∈ S, w' a / (x - a)) :
    ∀ a ∈ S, w a = w' a :=
  logupPoly_inj S w w' (logupPoly_eq_of_evals S T w w' hdisj hcard h)

/-! ## L2 looked-up values against a table with multiplicities -/

/-- **logUp, multiset form**: `f` the looked-up values, `t` the table values, `mult` the claimed
multiplicities (only `mult a` for `a ∈ t` matters). If the L1 identity holds on
`S = f ∪ t` with `m = count in f` and `m' = mult` on `t`, `0` off `t`, and multiplicities are below
the characteristic bound, then the count of every value in `f` is its multiplicity, every looked-up
value is in the table, and `f` as a multiset is the table with its multiplicities. -/
theorem logup_multiset (f t : List K) (mult : K → ℕ) (N : ℕ)
    (hchar : ∀ n k : ℕ, n < N → k < N → (n : K) = (k : K) → n = k)
    (hf : f.length < N) (hmult : ∀ a ∈ t, mult a < N)
    (h : ∑ a ∈ f.toFinset ∪ t.toFinset,
            (f.count a : K) • ∏ b ∈ (f.toFinset ∪ t.toFinset).erase a, (X - C b)
       = ∑ a ∈ f.toFinset ∪ t.toFinset,
            ((if a ∈ t then mult a else 0 : ℕ) : K) • ∏ b ∈ (f.toFinset ∪ t.toFinset).erase a, (X - C b)) :
    (∀ a, f.count a = if a ∈ t then mult a else 0) ∧
    (∀ a ∈ f, a ∈ t ∧ 0 < mult a) ∧
    (↑f : Multiset K) = ∑ a ∈ t.toFinset, mult a • ({a} : Multiset K) := by
  have hN : 0 < N := by omega
  have key : ∀ a, f.count a = if a ∈ t then mult a else 0 := by
    intro a
    by_cases ha : a ∈ f.toFinset ∪ t.toFinset
    · refine logup_polynomial_form_nat _ (fun a => f.count a) (fun a => if a ∈ t then mult a else 0)
        N hchar ?_ h a ha
      intro b _
      refine ⟨lt_of_le_of_lt List.count_le_length hf, ?_⟩
      by_cases hb : b ∈ t
      · simpa [hb] using hmult b hb
      · simpa [hb] using hN
    · simp only [Finset.mem_union, List.mem_toFinset, not_or] at ha
      rw [if_neg ha.2, List.count_eq_zero_of_not_mem ha.1]
  refine ⟨key, ?_, ?_⟩
  · intro a ha
    have hc : 0 < f.count a := List.count_pos_iff.2 ha
    rw [key a] at hc
    by_cases hat : a ∈ t
    · rw [if_pos hat] at hc; exact ⟨hat, hc⟩
    · rw [if_neg hat] at hc; omega
  · ext a
    rw [Multiset.coe_count, key a, Multiset.count_sum']
    simp only [Multiset.count_nsmul, Multiset.count_singleton]
    by_cases hat : a ∈ t
    · rw [if_pos hat, Finset.sum_eq_single a]
      · simp
      · intro b _ hb; simp [hb.symm]
      · intro h'; exact absurd (List.mem_toFinset.2 hat) h'
    · rw [if_neg hat, Finset.sum_eq_zero]
      intro b hb
      have : a ≠ b := fun e => hat (e ▸ List.mem_toFinset.1 hb)
      simp [this]

/-- **logUp, from challenge evaluations**: `t` duplicate-free. If the verifier-side identity
`Σ_j 1/(x − f_j) = Σ_i mult(t_i)/(x − t_i)` holds at `≥ #(f ∪ t)` points `x` outside `f ∪ t`,
the conclusions of `logup_multiset` hold. (For a single random `x` this is the Schwartz–Zippel
step: a violation leaves at most `#(f ∪ t) − 1` good `x`.) -/
theorem logup_multiset_of_evals (f t : List K) (ht : t.Nodup) (mult : K → ℕ) (N : ℕ)
    (hchar : ∀ n k : ℕ, n < N → k < N → (n : K) = (k : K) → n = k)
    (hf : f.length < N) (hmult : ∀ a ∈ t, mult a < N)
    (T : Finset K) (hdisj : Disjoint T (f.toFinset ∪ t.toFinset))
    (hcard : (f.toFinset ∪ t.toFinset).card ≤ T.card)
    (h : ∀ x ∈ T, (f.map fun a => (x - a)⁻¹).sum = (t.map fun a => (mult a : K) * (x - a)⁻¹).sum) :
    (∀ a, f.count a = if a ∈ t then mult a else 0) ∧
    (∀ a ∈ f, a ∈ t ∧ 0 < mult a) ∧
    (↑f : Multiset K) = ∑ a ∈ t.toFinset, mult a • ({a} : Multiset K) := by
  apply logup_multiset f t mult N hchar hf hmult
  apply logup_rational_form _ T _ _ hdisj hcard
  intro x hx
  have h1 := sum_map_eq_count_sum f (f.toFinset ∪ t.toFinset) Finset.subset_union_left
    (fun a => (x - a)⁻¹)
  have h2 := sum_map_eq_ite_sum t ht (f.toFinset ∪ t.toFinset) Finset.subset_union_right
    (fun a => (mult a : K) * (x - a)⁻¹)
  have := h x hx
  rw [h1, h2] at this
  simp only [div_eq_mul_inv]
  rw [this]
  apply Finset.sum_congr rfl
  intro a _
  by_cases hat : a ∈ t <;> simp [hat]

/-- a violation is caught by all but `< #(f ∪ t)` challenges: if some looked-up value is not in
the table, every set of challenges (off `f ∪ t`) at which the identity holds is smaller than
`#(f ∪ t)` -/
theorem logup_soundness (f t : List K) (ht : t.Nodup) (mult : K → ℕ) (N : ℕ)
    (hchar : ∀ n k : ℕ, n < N → k < N → (n : K) = (k : K) → n = k)
    (hf : f.length < N) (hmult : ∀ a ∈ t, mult a < N)
    (hbad : ∃ a ∈ f, a ∉ t)
    (T : Finset K) (hdisj : Disjoint T (f.toFinset ∪ t.toFinset))
    (h : ∀ x ∈ T, (f.map fun a => (x - a)⁻¹).sum = (t.map fun a => (mult a : K) * (x - a)⁻¹).sum) :
    T.card < (f.toFinset ∪ t.toFinset).card := by
  by_contra hlt
  obtain ⟨a, haf, hat⟩ := hbad
  exact hat ((logup_multiset_of_evals f t ht mult N hchar hf hmult T hdisj (not_lt.1 hlt) h).2.1
    a haf).1

/-! ## L3 the RE polynomial binds the table -/

/-- **Horner accumulation binds the coefficients**: two coefficient lists of the same length `n`
whose Horner evaluations agree at `≥ n` distinct points are equal -/
theorem re_polynomial (c c' : List K) (hl : c.length = c'.length) (D : Finset K)
    (hD : c.length ≤ D.card)
    (h : ∀ δ ∈ D, @Poly.eval K (FOps.ofField K) c δ = @Poly.eval K (FOps.ofField K) c' δ) :
    c = c' := by
  apply ofList_injective_of_length hl
  apply eq_of_degrees_lt_of_eval_finset_eq D
  · exact (ofList_degree_lt c).trans_le (by exact_mod_cast hD)
  · exact (ofList_degree_lt c').trans_le (by rw [← hl]; exact_mod_cast hD)
  · intro δ hδ
    rw [ofList_eval, ofList_eval, h δ hδ]

/-- soundness count: distinct lists of the same length `n ≥ 1` agree at fewer than `n` points -/
theorem re_polynomial_soundness (c c' : List K) (hl : c.length = c'.length) (hne : c ≠ c')
    (D : Finset K)
    (h : ∀ δ ∈ D, @Poly.eval K (FOps.ofField K) c δ = @Poly.eval K (FOps.ofField K) c' δ) :
    D.card < c.length := by
  by_contra hlt
  exact hne (re_polynomial c c' hl D (not_lt.1 hlt) h)

omit [DecidableEq K] in
/-- **two linear combinations bind a pair** -/
theorem pair_binding (a o a' o' b₁ b₂ : K) (hb : b₁ ≠ b₂)
    (h₁ : a + b₁ * o = a' + b₁ * o') (h₂ : a + b₂ * o = a' + b₂ * o') :
    a = a' ∧ o = o' := by
  have hne : b₁ - b₂ ≠ 0 := sub_ne_zero.2 hb
  have ho : o = o' := by
    have : (b₁ - b₂) * (o - o') = 0 := by linear_combination h₁ - h₂
    rcases mul_eq_zero.1 this with h | h
    · exact absurd h hne
    · exact sub_eq_zero.1 h
  subst ho
  exact ⟨by linear_combination h₁, rfl⟩

/-- **the RE polynomial binds the declared table** (shape of `lutPolyEval`: coefficients
`inp + b·out`, reversed, Horner at `δ`): tables of the same length `n` whose accumulations agree
for two distinct `b` and, for each, at `≥ n` distinct `δ`, are equal entry by entry -/
theorem re_polynomial_binds_table (tab tab' : List (K × K)) (hl : tab.length = tab'.length)
    (b₁ b₂ : K) (hb : b₁ ≠ b₂) (D₁ D₂ : Finset K) (hD₁ : tab.length ≤ D₁.card)
    (hD₂ : tab.length ≤ D₂.card)
    (h₁ : ∀ δ ∈ D₁, @Poly.eval K (FOps.ofField K) (tab.map fun p => p.1 + b₁ * p.2).reverse δ
      = @Poly.eval K (FOps.ofField K) (tab'.map fun p => p.1 + b₁ * p.2).reverse δ)
    (h₂ : ∀ δ ∈ D₂, @Poly.eval K (FOps.ofField K) (tab.map fun p => p.1 + b₂ * p.2).reverse δ
      = @Poly.eval K (FOps.ofField K) (tab'.map fun p => p.1 + b₂ * p.2).reverse δ) :
    tab = tab' := by
  have e₁ := List.reverse_injective
    (re_polynomial _ _ (by simp [hl]) D₁ (by simpa using hD₁) h₁)
  have e₂ := List.reverse_injective
    (re_polynomial _ _ (by simp [hl]) D₂ (by simpa using hD₂) h₂)
  apply List.ext_getElem hl
  intro i hi hi'
  have g₁ := congrArg (fun l => l[i]?) e₁
  have g₂ := congrArg (fun l => l[i]?) e₂
  simp only [List.getElem?_map, List.getElem?_eq_getElem hi, List.getElem?_eq_getElem hi',
    Option.map_some, Option.some.injEq] at g₁ g₂
  obtain ⟨p1, p2⟩ := pair_binding _ _ _ _ b₁ b₂ hb g₁ g₂
  exact Prod.ext p1 p2

/-! ## L4 telescoping of the running-sum (SLDC) columns -/

omit [DecidableEq K] in
/-- if `z 0 = 0` and every step satisfies `(z (i+1) − z i)·d_i = n_i` with `d_i ≠ 0`, then
`z n = Σ_{i<n} n_i / d_i` -/
theorem sum_telescope (z num den : ℕ → K) (n : ℕ) (h0 : z 0 = 0)
    (hstep : ∀ i, i < n → (z (i + 1) - z i) * den i = num i)
    (hden : ∀ i, i < n → den i ≠ 0) :
    z n = ∑ i ∈ Finset.range n, num i / den i := by
  induction n with
  | zero => simpa using h0
  | succ n ih =>
    rw [Finset.sum_range_succ, ← ih (fun i hi => hstep i (by omega)) (fun i hi => hden i (by omega)),
      ← hstep n (by omega), mul_div_cancel_right₀ _ (hden n (by omega))]
    ring

omit [DecidableEq K] in
/-- one step of the running sum as the verifier checks it (`check_lookup_constraints`):
`Δ · ∏_{i∈I}(α − t_i) = Σ_{i∈I} m_i · ∏_{j∈I∖i}(α − t_j)` with `α` off the `t_i` gives
`Δ = Σ_{i∈I} m_i/(α − t_i)` -/
theorem sldc_step {ι : Type} [DecidableEq ι] (I : Finset ι) (t m : ι → K) (α Δ : K)
    (hα : ∀ i ∈ I, α - t i ≠ 0)
    (h : Δ * ∏ i ∈ I, (α - t i) = ∑ i ∈ I, m i * ∏ j ∈ I.erase i, (α - t j)) :
    Δ = ∑ i ∈ I, m i / (α - t i) := by
  have hP : ∏ i ∈ I, (α - t i) ≠ 0 := Finset.prod_ne_zero_iff.2 hα
  rw [← mul_left_inj' hP, h, Finset.sum_mul]
  apply Finset.sum_congr rfl
  intro i hi
  rw [← Finset.mul_prod_erase I (fun j => α - t j) hi]
  have := hα i hi
  field_simp

/-! ## non-vacuity -/

/-- `f = [1,1,2]`, `t = [1,2,3]`, multiplicities `2,1,0` over `ℚ`: the hypothesis of
`logup_multiset` holds -/
example :
    let f : List ℚ := [1, 1, 2]
    let t : List ℚ := [1, 2, 3]
    let mult : ℚ → ℕ := fun a => if a = 1 then 2 else if a = 2 then 1 else 0
    ∑ a ∈ f.toFinset ∪ t.toFinset,
        (f.count a : ℚ) • ∏ b ∈ (f.toFinset ∪ t.toFinset).erase a, (X - C b)
      = ∑ a ∈ f.toFinset ∪ t.toFinset,
        ((if a ∈ t then mult a else 0 : ℕ) : ℚ) • ∏ b ∈ (f.toFinset ∪ t.toFinset).erase a, (X - C b) := by
  intro f t mult
  apply Finset.sum_congr rfl
  intro a ha
  have : a = 1 ∨ a = 2 ∨ a = 3 := by
    simp [f, t] at ha; tauto
  rcases this with rfl | rfl | rfl <;> simp [f, t, mult]

example : @Poly.eval ℚ (FOps.ofField ℚ) [1, 2, 3] 2 = 17 := by
  show (((0 : ℚ) * 2 + 3) * 2 + 2) * 2 + 1 = 17
  norm_num

end P2.Props.C08
