/-
C12 (batch Merkle trees, continued): completeness of `BatchMerkleTree::new` / `open_batch` /
`values` / `verify_batch_merkle_proof_to_cap` (model `P2.Model.BatchMerkle`) for ANY number of
matrices of strictly decreasing heights `2^k0 > 2^k1 > … > 2^km ≥ 2^c`, for an arbitrary hasher and
an arbitrary digest embedding `toVec` (generalises `P2.Props.C12.batch_two_complete`).
-/
import P2.Props.C12c
namespace P2.Props.C12d
open P2 P2.Merkle P2.BatchMerkle P2.Lemmas.Merkle P2.Props.C12

variable {D : Type}

/-! ### the honest tree, stage by stage -/

/-- the `next_cap_height` of the stage that is followed by matrices of heights `ks` -/
def nH (c : Nat) : List Nat → Nat
  | [] => c
  | k :: _ => k

/-- the digest buffer written from the stage with leaves `lv` (`2^k` of them) on, when matrices
`rest` of heights `ks` follow and the final cap height is `c` -/
def hDigs (h : Hasher (List GL) D) (toVec : D → List GL) (c : Nat) :
    Nat → List (List GL) → List (List (List GL)) → List Nat → List D
  | k, lv, m :: rest, k' :: ks =>
    (build h k k' lv).1 ++ hDigs h toVec c k' (newLeaves toVec (capOf h k k' lv) m) rest ks
  | k, lv, _, _ => (build h k c lv).1

/-- the final cap (same arguments as `hDigs`) -/
def hCap (h : Hasher (List GL) D) (toVec : D → List GL) (c : Nat) :
    Nat → List (List GL) → List (List (List GL)) → List Nat → List D
  | k, lv, m :: rest, k' :: ks =>
    hCap h toVec c k' (newLeaves toVec (capOf h k k' lv) m) rest ks
  | k, lv, _, _ => capOf h k c lv

/-- the shape hypothesis in inductive form: the current stage has height `k`, the following
matrices `rest` have `2^k'` rows for the strictly decreasing heights `ks` below `k`, all `≥ c` -/
inductive Shape (c : Nat) : Nat → List (List (List GL)) → List Nat → Prop
  | nil (k : Nat) : c ≤ k → Shape c k [] []
  | cons (k k' : Nat) (m : List (List GL)) (rest : List (List (List GL))) (ks : List Nat) :
      m.length = 2 ^ k' → k' < k → Shape c k' rest ks → Shape c k (m :: rest) (k' :: ks)

theorem Shape.le {c k : Nat} {rest : List (List (List GL))} {ks : List Nat}
    (hs : Shape c k rest ks) : c ≤ k := by
  induction hs with
  | nil k hc => exact hc
  | cons k k' m rest ks _ hk _ ih => omega

theorem Shape.nH_le {c k : Nat} {rest : List (List (List GL))} {ks : List Nat}
    (hs : Shape c k rest ks) : nH c ks ≤ k := by
  cases hs with
  | nil k hc => exact hc
  | cons k k' m rest ks _ hk _ => exact Nat.le_of_lt hk

/-- the hypotheses of the main theorem give the inductive shape -/
theorem shape_of (c : Nat) : ∀ (rest : List (List (List GL))) (ks : List Nat) (k : Nat),
    rest.map List.length = ks.map (2 ^ ·) → (k :: ks).Pairwise (· > ·) →
    (∀ x ∈ k :: ks, c ≤ x) → Shape c k rest ks := by
  intro rest
  induction rest with
  | nil =>
    intro ks k hl _ hc
    cases ks with
    | nil => exact Shape.nil k (hc k (by simp))
    | cons _ _ => simp at hl
  | cons m rest ih =>
    intro ks k hl hd hc
    cases ks with
    | nil => simp at hl
    | cons k' ks =>
      simp only [List.map_cons, List.cons.injEq] at hl
      rw [List.pairwise_cons] at hd
      exact Shape.cons k k' m rest ks hl.1 (hd.1 k' (by simp)) (ih ks k' hl.2 hd.2
        (fun x hx => hc x (by simp [hx])))

/-! ### index arithmetic -/

theorem idx_lt {i k0 k : Nat} (hi : i < 2 ^ k0) (hk : k ≤ k0) : i / 2 ^ (k0 - k) < 2 ^ k := by
  apply Nat.div_lt_of_lt_mul
  rw [← Nat.pow_add]
  have : k0 - k + k = k0 := by omega
  rw [this]; exact hi

theorem idx_div (i : Nat) {k0 k c : Nat} (hc : c ≤ k) (hk : k ≤ k0) :
    i / 2 ^ (k0 - k) / 2 ^ (k - c) = i / 2 ^ (k0 - c) := by
  rw [Nat.div_div_eq_div_mul, ← Nat.pow_add]
  congr 2; omega

/-! ### one stage -/

/-- everything C12/C12b prove about one `fill_digests_buf` stage and `merkle_tree_prove` on it -/
theorem stage_facts [DecidableEq D] (h : Hasher (List GL) D) (k n : Nat) (lv : List (List GL))
    (hl : lv.length = 2 ^ k) (hn : n ≤ k) (j : Nat) (hj : j < 2 ^ k) :
    stage h k n lv = some ((build h k n lv).1, capOf h k n lv) ∧
    (capOf h k n lv).length = 2 ^ n ∧
    (build h k n lv).1.length = 2 * (2 ^ k - 2 ^ n) ∧
    ∃ π, merkleTreeProve j (2 ^ k) k n (build h k n lv).1 = some π ∧ π.length = k - n ∧
      ∀ leaf, lv[j]? = some leaf →
        (capOf h k n lv)[j / 2 ^ (k - n)]? = some (foldPath h (h.hashLeaf leaf) j π).1 ∧
        (foldPath h (h.hashLeaf leaf) j π).2 = j / 2 ^ (k - n) := by
  refine ⟨stage_eq h k n lv hl hn, capOf_length h k n lv hl hn,
    build_digests_length h k n lv hl hn, ?_⟩
  obtain ⟨π, hp, hπ, hv⟩ := prove_verifies h k n lv hl hn j hj _ (cap_eq_levelwise h k n lv hl hn)
  refine ⟨π, hp, hπ, ?_⟩
  intro leaf hleaf
  obtain ⟨hjl, rfl⟩ := List.getElem?_eq_some_iff.mp hleaf
  have hf := verifyToCap_ok h _ _ _ _ hv
  have hidx := foldPath_index h π (h.hashLeaf lv[j]) j
  rw [hπ] at hidx
  rw [hidx] at hf
  exact ⟨hf, hidx⟩

theorem newLeaves_length (toVec : D → List GL) (cap : List D) (m : List (List GL)) (n : Nat)
    (hc : cap.length = n) (hm : m.length = n) : (newLeaves toVec cap m).length = n := by
  simp [newLeaves, hc, hm]

theorem newLeaves_getElem? (toVec : D → List GL) (cap : List D) (m : List (List GL)) (j : Nat)
    (d : D) (row : List GL) (hd : cap[j]? = some d) (hr : m[j]? = some row) :
    (newLeaves toVec cap m)[j]? = some (toVec d ++ row) := by
  unfold newLeaves
  rw [List.getElem?_map]
  have : (cap.zip m)[j]? = some (d, row) := by
    rw [List.getElem?_zip_eq_some]; exact ⟨hd, hr⟩
  rw [this]; rfl

/-! ### `BatchMerkleTree::new` -/

theorem nexts_split (c : Nat) (ks : List Nat) : ks ++ [c] = nH c ks :: (ks ++ [c]).tail := by
  cases ks <;> rfl

/-- the loop of `new` after the stage on `lv` writes the honest buffer and returns the honest cap -/
theorem later_spec (h : Hasher (List GL) D) (toVec : D → List GL) {c k : Nat}
    {rest : List (List (List GL))} {ks : List Nat} (hs : Shape c k rest ks) :
    ∀ (lv : List (List GL)) (pre : List D), lv.length = 2 ^ k →
      laterStages h toVec rest (ks ++ [c]).tail (pre ++ (build h k (nH c ks) lv).1)
          (capOf h k (nH c ks) lv) =
        some (pre ++ hDigs h toVec c k lv rest ks, hCap h toVec c k lv rest ks) := by
  induction hs with
  | nil k hc => intro lv pre _; rfl
  | cons k k' m rest ks hm hk hs' ih =>
    intro lv pre hl
    have hcap := capOf_length h k k' lv hl (Nat.le_of_lt hk)
    have hnl := newLeaves_length toVec _ m _ hcap hm
    have hst := stage_eq h k' (nH c ks) _ hnl hs'.nH_le
    show laterStages h toVec (m :: rest) (ks ++ [c]) (pre ++ (build h k k' lv).1)
      (capOf h k k' lv) = _
    rw [nexts_split c ks]
    simp only [laterStages, hm, log2Strict_pow]
    rw [show ((capOf h k k' lv).zip m).map (fun x => toVec x.1 ++ x.2) =
      newLeaves toVec (capOf h k k' lv) m from rfl, hst]
    simp only
    rw [ih _ _ hnl]
    simp [hDigs, hCap]

/-! ### `open_batch` -/

/-- the body of the loop of `open_batch` over `cap_heights.windows(2)` -/
def openStep (digests : List D) (leafIndex initial : Nat) (acc : Option (List D × Nat))
    (w : Nat × Nat) : Option (List D × Nat) :=
  match acc with
  | none => none
  | some (sibs, pos) =>
    let (cur, next) := w
    let num := 2 * (2 ^ cur - 2 ^ next)
    if digests.length < pos + num then none else
    match merkleTreeProve (leafIndex / 2 ^ (initial - cur)) (2 ^ cur) cur next
        ((digests.drop pos).take num) with
    | none => none
    | some p => some (sibs ++ p, pos + num)

/-- the windows of `cap_heights` from the stage of height `k` on -/
def wins (k : Nat) (ks : List Nat) (c : Nat) : List (Nat × Nat) :=
  (k :: (ks ++ [c])).zip (ks ++ [c])

theorem batchOpen_eq (i k0 : Nat) (ks : List Nat) (c : Nat) (digs : List D) :
    batchOpen i (k0 :: ks) (2 ^ c) digs =
      ((wins k0 ks c).foldl (openStep digs i k0) (some ([], 0))).map (·.1) := by
  simp only [batchOpen, log2Strict_pow, List.head?_cons]
  rfl

/-- one honest step of the loop: the stage buffer `ds` sits at position `pre.length` -/
theorem openStep_honest (pre ds post sibs π : List D) (i k0 k n : Nat)
    (hd : ds.length = 2 * (2 ^ k - 2 ^ n))
    (hp : merkleTreeProve (i / 2 ^ (k0 - k)) (2 ^ k) k n ds = some π) :
    openStep (pre ++ (ds ++ post)) i k0 (some (sibs, pre.length)) (k, n) =
      some (sibs ++ π, (pre ++ ds).length) := by
  have e : ((pre ++ (ds ++ post)).drop pre.length).take (2 * (2 ^ k - 2 ^ n)) = ds := by
    rw [List.drop_left, ← hd]; exact List.take_left
  simp only [openStep, e, hp, List.length_append, hd]
  rw [if_neg (by omega)]

/-! ### the invariant: builder, prover and verifier from one stage on -/

/-- From the stage of height `k ≤ k0` with leaves `lv` on (followed by matrices `rest` of heights
`ks`): the final cap has `2^c` entries; there is a sibling list `π` of length `k − c` which the
remaining iterations of `open_batch(i)` append to what they have; and the loop of
`verify_batch_merkle_proof_to_cap`, started at the hash of leaf `i >> (k0 − k)` of this stage with
the rows of the remaining matrices still to fold in, ends with entry `i >> (k0 − c)` of the cap. -/
theorem tail_spec [DecidableEq D] (h : Hasher (List GL) D) (toVec : D → List GL) (ovf : Bool)
    (k0 i : Nat) (hi : i < 2 ^ k0) {c k : Nat} {rest : List (List (List GL))} {ks : List Nat}
    (hs : Shape c k rest ks) :
    ∀ (lv : List (List GL)), lv.length = 2 ^ k → k ≤ k0 →
      (hCap h toVec c k lv rest ks).length = 2 ^ c ∧
      ∃ π : List D, π.length = k - c ∧
        (∀ pre sibs, (wins k ks c).foldl (openStep (pre ++ hDigs h toVec c k lv rest ks) i k0)
            (some (sibs, pre.length)) =
          some (sibs ++ π, (pre ++ hDigs h toVec c k lv rest ks).length)) ∧
        (∀ (leaf : List GL) (rows : List (List GL)), lv[i / 2 ^ (k0 - k)]? = some leaf →
          rows.map some = (rest.zip ks).map (fun p => p.1[i / 2 ^ (k0 - p.2)]?) →
          ∃ d, (hCap h toVec c k lv rest ks)[i / 2 ^ (k0 - c)]? = some d ∧
            batchFold h toVec ovf (h.hashLeaf leaf) k (i / 2 ^ (k0 - k)) (rows.zip ks) π =
              some (d, i / 2 ^ (k0 - c), [])) := by
  induction hs with
  | nil k hc =>
    intro lv hl hk
    obtain ⟨_, hcap, hd, π, hp, hπ, hv⟩ := stage_facts h k c lv hl hc _ (idx_lt hi hk)
    refine ⟨hcap, π, hπ, ?_, ?_⟩
    · intro pre sibs
      show List.foldl _ _ [(k, c)] = _
      simp only [List.foldl_cons, List.foldl_nil]
      have := openStep_honest pre (build h k c lv).1 [] sibs π i k0 k c hd hp
      rw [List.append_nil] at this
      exact this
    · intro leaf rows hleaf hrows
      obtain ⟨h1, h2⟩ := hv leaf hleaf
      have hr : rows = [] := by simpa using hrows
      subst hr
      rw [idx_div i hc hk] at h1 h2
      refine ⟨_, h1, ?_⟩
      show batchFold h toVec ovf _ k _ [] π = _
      rw [batchFold_nil h toVec ovf π _ _ _ (by rw [hπ]; omega), h2]
  | cons k k' m rest ks hm hk' hs' ih =>
    intro lv hl hk
    have hc' := hs'.le
    obtain ⟨_, hcap, hd, π0, hp0, hπ0, hv0⟩ :=
      stage_facts h k k' lv hl (Nat.le_of_lt hk') _ (idx_lt hi hk)
    have hnl := newLeaves_length toVec _ m _ hcap hm
    obtain ⟨hcapL, π1, hπ1, hopen, hver⟩ := ih _ hnl (by omega)
    refine ⟨hcapL, π0 ++ π1, by rw [List.length_append, hπ0, hπ1]; omega, ?_, ?_⟩
    · intro pre sibs
      show List.foldl (openStep (pre ++ ((build h k k' lv).1 ++
          hDigs h toVec c k' (newLeaves toVec (capOf h k k' lv) m) rest ks)) i k0) _
        ((k, k') :: wins k' ks c) = some (_, (pre ++ ((build h k k' lv).1 ++
          hDigs h toVec c k' (newLeaves toVec (capOf h k k' lv) m) rest ks)).length)
      rw [List.foldl_cons, openStep_honest pre _ _ sibs π0 i k0 k k' hd hp0]
      have := hopen (pre ++ (build h k k' lv).1) (sibs ++ π0)
      simpa only [List.append_assoc] using this
    · intro leaf rows hleaf hrows
      obtain ⟨h1, h2⟩ := hv0 leaf hleaf
      rw [idx_div i (Nat.le_of_lt hk') hk] at h1 h2
      cases rows with
      | nil => simp at hrows
      | cons row rows' =>
        simp only [List.zip_cons_cons, List.map_cons, List.cons.injEq] at hrows
        obtain ⟨hrow, hrows'⟩ := hrows
        have hleaf' := newLeaves_getElem? toVec _ m _ _ row h1 hrow.symm
        obtain ⟨d, hd1, hd2⟩ := hver _ rows' hleaf' hrows'
        refine ⟨d, hd1, ?_⟩
        have hne : π0 ≠ [] := by intro e; rw [e] at hπ0; simp at hπ0; omega
        show batchFold h toVec ovf _ k _ ((row, k') :: rows'.zip ks) (π0 ++ π1) = _
        rw [batchFold_prefix h toVec ovf row k' _ π1 π0 _ k _ hne (by rw [hπ0]; omega), h2]
        exact hd2

/-! ### the assertions of `new`, and `values` -/

theorem mapM_log2 : ∀ (mats : List (List (List GL))) (ks : List Nat),
    mats.map List.length = ks.map (2 ^ ·) →
    mats.mapM (fun m => log2Strict m.length) = some ks := by
  intro mats
  induction mats with
  | nil => intro ks hl; cases ks with
    | nil => rfl
    | cons _ _ => simp at hl
  | cons m mats ih =>
    intro ks hl
    cases ks with
    | nil => simp at hl
    | cons k ks =>
      simp only [List.map_cons, List.cons.injEq] at hl
      simp [List.mapM_cons, hl.1, log2Strict_pow, ih ks hl.2]

theorem all_dec : ∀ (hs : List Nat), hs.Pairwise (· > ·) →
    (hs.zip hs.tail).all (fun (a, b) => decide (b < a)) = true := by
  intro hs
  induction hs with
  | nil => intro _; rfl
  | cons a t ih =>
    intro hp
    cases t with
    | nil => rfl
    | cons b t' =>
      rw [List.pairwise_cons] at hp
      have h1 : b < a := hp.1 b (by simp)
      have h2 := ih hp.2
      simp only [List.tail_cons, List.zip_cons_cons, List.all_cons, Bool.and_eq_true,
        decide_eq_true_eq] at h2 ⊢
      exact ⟨h1, h2⟩

theorem checkShape_ok (mats : List (List (List GL))) (ks : List Nat) (c : Nat)
    (hl : mats.map List.length = ks.map (2 ^ ·)) (hne : ks ≠ []) (hd : ks.Pairwise (· > ·))
    (hc : ∀ x ∈ ks, c ≤ x) : checkShape mats c = some ks := by
  unfold checkShape
  rw [mapM_log2 mats ks hl]
  simp only
  rw [List.getLast?_eq_some_getLast hne]
  simp only
  rw [if_pos]
  rw [Bool.and_eq_true]
  exact ⟨all_dec ks hd, decide_eq_true (hc _ (List.getLast_mem hne))⟩

theorem mapM_of_map {α β : Type} (f : α → Option β) : ∀ (l : List α) (vs : List β),
    vs.map some = l.map f → l.mapM f = some vs := by
  intro l
  induction l with
  | nil => intro vs hv; cases vs with
    | nil => rfl
    | cons _ _ => simp at hv
  | cons a l ih =>
    intro vs hv
    cases vs with
    | nil => simp at hv
    | cons v vs =>
      simp only [List.map_cons, List.cons.injEq] at hv
      simp [List.mapM_cons, ← hv.1, ih vs hv.2]

/-- the rows above leaf `i` exist in all remaining matrices -/
theorem rows_exist {k0 i : Nat} (hi : i < 2 ^ k0) {c k : Nat} {rest : List (List (List GL))}
    {ks : List Nat} (hs : Shape c k rest ks) : k ≤ k0 →
    ∃ rows : List (List GL),
      rows.map some = (rest.zip ks).map (fun p => p.1[i / 2 ^ (k0 - p.2)]?) := by
  induction hs with
  | nil k _ => intro _; exact ⟨[], rfl⟩
  | cons k k' m rest ks hm hk' _ ih =>
    intro hk
    obtain ⟨rows, hr⟩ := ih (by omega)
    have hlt : i / 2 ^ (k0 - k') < m.length := by rw [hm]; exact idx_lt hi (by omega)
    exact ⟨m[i / 2 ^ (k0 - k')] :: rows, by
      simp only [List.map_cons, List.zip_cons_cons, hr, List.getElem?_eq_getElem hlt]⟩

/-! ### the main theorem -/

/-- **Completeness of batch Merkle trees for any number of matrices.** For matrices `m0 :: rest`
of `2^k0 > 2^k1 > … > 2^km` rows (`k0 :: ks` strictly decreasing) and every cap height `c ≤ km`,
`BatchMerkleTree::new` succeeds and returns a cap of `2^c` entries; for every leaf index `i < 2^k0`,
`open_batch(i)` returns `k0 − c` siblings, `values(i)` returns row `i >> (k0 − kj)` of matrix `j`
for every `j` (all in range), and `verify_batch_merkle_proof_to_cap` accepts these rows with these
siblings against the tree's cap — for every hasher, every embedding `toVec`, both overflow modes. -/
theorem batch_complete [DecidableEq D] (h : Hasher (List GL) D) (toVec : D → List GL)
    (ovf : Bool) (m0 : List (List GL)) (rest : List (List (List GL))) (k0 : Nat) (ks : List Nat)
    (c : Nat) (hl0 : m0.length = 2 ^ k0) (hl : rest.map List.length = ks.map (2 ^ ·))
    (hdec : (k0 :: ks).Pairwise (· > ·)) (hc : ∀ k ∈ k0 :: ks, c ≤ k)
    (i : Nat) (hi : i < 2 ^ k0) :
    ∃ digs cap π vals, batchBuild h toVec (m0 :: rest) c = some (digs, cap, k0 :: ks) ∧
      cap.length = 2 ^ c ∧
      batchOpen i (k0 :: ks) cap.length digs = some π ∧ π.length = k0 - c ∧
      values (m0 :: rest) (k0 :: ks) i = some vals ∧
      vals.map some = ((m0 :: rest).zip (k0 :: ks)).map (fun p => p.1[i / 2 ^ (k0 - p.2)]?) ∧
      verifyBatch h toVec ovf vals (k0 :: ks) i cap π = .ok := by
  have hs := shape_of c rest ks k0 hl hdec hc
  obtain ⟨hcapL, π, hπ, hopen, hver⟩ := tail_spec h toVec ovf k0 i hi hs m0 hl0 (Nat.le_refl _)
  obtain ⟨rows, hrows⟩ := rows_exist hi hs (Nat.le_refl _)
  have e : i / 2 ^ (k0 - k0) = i := by simp
  rw [e] at hver
  have hil : i < m0.length := by omega
  have hleaf : m0[i]? = some m0[i] := List.getElem?_eq_getElem hil
  obtain ⟨d, hd1, hd2⟩ := hver _ rows hleaf hrows
  have hvals : (m0[i] :: rows).map some =
      ((m0 :: rest).zip (k0 :: ks)).map (fun p => p.1[i / 2 ^ (k0 - p.2)]?) := by
    simp only [List.map_cons, List.zip_cons_cons, hrows, e, hleaf]
  refine ⟨hDigs h toVec c k0 m0 rest ks, hCap h toVec c k0 m0 rest ks, π, m0[i] :: rows,
    ?_, hcapL, ?_, hπ, ?_, hvals, ?_⟩
  · -- BatchMerkleTree::new
    have hshape : checkShape (m0 :: rest) c = some (k0 :: ks) :=
      checkShape_ok _ _ c (by simp [hl0, hl]) (by simp) hdec hc
    have hlater := later_spec h toVec hs m0 [] hl0
    simp only [List.nil_append] at hlater
    simp only [batchBuild, hshape, List.tail_cons]
    rw [nexts_split c ks]
    simp only [stage_eq h k0 (nH c ks) m0 hl0 hs.nH_le, hlater, Option.map_some]
  · -- open_batch
    rw [hcapL, batchOpen_eq]
    have := hopen [] []
    simp only [List.nil_append, List.length_nil] at this
    rw [this]; rfl
  · -- values
    unfold values
    simp only [List.head?_cons]
    exact mapM_of_map _ _ _ hvals
  · -- verify_batch_merkle_proof_to_cap
    have hlen : rows.length = ks.length := by
      have a := congrArg List.length hrows
      have b := congrArg List.length hl
      simp only [List.length_map, List.length_zip] at a b
      omega
    unfold verifyBatch
    simp only [List.length_cons, hlen, ne_eq, not_true_eq_false, if_false, List.zip_cons_cons,
      hd2, List.isEmpty_nil, Bool.not_true, Bool.false_eq_true, hd1, if_true]

/-- the `values` clause of `batch_complete` read entry by entry: entry `j` of the opened rows is
row `i >> (k0 − kj)` of matrix `j`, and that row index is in range -/
theorem vals_pointwise (mats : List (List (List GL))) (ks : List Nat) (vals : List (List GL))
    (i k0 : Nat)
    (hv : vals.map some = (mats.zip ks).map (fun p => p.1[i / 2 ^ (k0 - p.2)]?))
    (j : Nat) (m : List (List GL)) (k : Nat) (hm : mats[j]? = some m) (hk : ks[j]? = some k) :
    ∃ hlt : i / 2 ^ (k0 - k) < m.length, vals[j]? = some m[i / 2 ^ (k0 - k)] := by
  have hz : (mats.zip ks)[j]? = some (m, k) := by
    rw [List.getElem?_zip_eq_some]; exact ⟨hm, hk⟩
  have := congrArg (·[j]?) hv
  simp only [List.getElem?_map, hz, Option.map_some] at this
  cases hvj : vals[j]? with
  | none => rw [hvj] at this; simp at this
  | some v =>
    rw [hvj] at this
    simp only [Option.map_some, Option.some.injEq] at this
    obtain ⟨hlt, e⟩ := List.getElem?_eq_some_iff.mp this.symm
    exact ⟨hlt, by rw [e]⟩

/-- `batch_complete` for a plain list of matrices `mats` with heights `ks` (first height `k0`) -/
theorem batch_complete_list [DecidableEq D] (h : Hasher (List GL) D) (toVec : D → List GL)
    (ovf : Bool) (mats : List (List (List GL))) (ks : List Nat) (k0 c : Nat)
    (hl : mats.map List.length = ks.map (2 ^ ·)) (hk0 : ks.head? = some k0)
    (hdec : ks.Pairwise (· > ·)) (hc : ∀ k ∈ ks, c ≤ k) (i : Nat) (hi : i < 2 ^ k0) :
    ∃ digs cap π vals, batchBuild h toVec mats c = some (digs, cap, ks) ∧
      cap.length = 2 ^ c ∧
      batchOpen i ks cap.length digs = some π ∧ π.length = k0 - c ∧
      values mats ks i = some vals ∧
      vals.map some = (mats.zip ks).map (fun p => p.1[i / 2 ^ (k0 - p.2)]?) ∧
      verifyBatch h toVec ovf vals ks i cap π = .ok := by
  cases ks with
  | nil => simp at hk0
  | cons k ks =>
    simp only [List.head?_cons, Option.some.injEq] at hk0
    subst hk0
    cases mats with
    | nil => simp at hl
    | cons m0 rest =>
      simp only [List.map_cons, List.cons.injEq] at hl
      exact batch_complete h toVec ovf m0 rest k ks c hl.1 hl.2 hdec hc i hi

/-! ### non-vacuity -/

/-- the hypotheses of `batch_complete` are satisfiable: three matrices of 4, 2 and 1 rows, root cap,
leaf 2, the toy hasher of C12c -/
example : ∃ digs cap π vals,
    batchBuild toyB toyVec [[[1], [2], [3], [4]], [[5], [6]], [[7]]] 0 = some (digs, cap, [2, 1, 0]) ∧
    cap.length = 2 ^ 0 ∧ batchOpen 2 [2, 1, 0] cap.length digs = some π ∧ π.length = 2 - 0 ∧
    values [[[1], [2], [3], [4]], [[5], [6]], [[7]]] [2, 1, 0] 2 = some vals ∧
    vals.map some = (([[[1], [2], [3], [4]], [[5], [6]], [[7]]] : List (List (List GL))).zip
      [2, 1, 0]).map (fun p => p.1[2 / 2 ^ (2 - p.2)]?) ∧
    verifyBatch toyB toyVec true vals [2, 1, 0] 2 cap π = .ok :=
  batch_complete toyB toyVec true [[1], [2], [3], [4]] [[[5], [6]], [[7]]] 2 [1, 0] 0 rfl rfl
    (by decide) (by decide) 2 (by decide)

/-- the same instance computed: the tree, the opening of leaf 2, its acceptance (both overflow
modes), and rejection of a wrong row of the last matrix; with cap height 1 the third matrix (one row)
violates `cap_height ≤ last height` and `new` panics -/
example :
    batchBuild toyB toyVec [[[1], [2], [3], [4]], [[5], [6]], [[7]]] 0 =
      some ([2, 3, 4, 5, 69, 100], [toyB.hashLeaf (toyVec 445 ++ [7])], [2, 1, 0]) ∧
    batchOpen 2 [2, 1, 0] 1 [2, 3, 4, 5, 69, 100] = some [5, 69] ∧
    values [[[1], [2], [3], [4]], [[5], [6]], [[7]]] [2, 1, 0] 2 = some [[3], [6], [7]] ∧
    verifyBatch toyB toyVec true [[3], [6], [7]] [2, 1, 0] 2
      [toyB.hashLeaf (toyVec 445 ++ [7])] [5, 69] = .ok ∧
    verifyBatch toyB toyVec false [[3], [6], [7]] [2, 1, 0] 2
      [toyB.hashLeaf (toyVec 445 ++ [7])] [5, 69] = .ok ∧
    verifyBatch toyB toyVec false [[3], [6], [8]] [2, 1, 0] 2
      [toyB.hashLeaf (toyVec 445 ++ [7])] [5, 69] = .err ∧
    batchBuild toyB toyVec [[[1], [2], [3], [4]], [[5], [6]], [[7]]] 1 = none := by decide

end P2.Props.C12d
