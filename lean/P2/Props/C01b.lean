/-
C01 (general theorems over an arbitrary field `K`): `CircuitBuilder::arithmetic_special_cases`
(`P2.Circuit.arithmeticSpecialCases`) is sound — whenever the builder short-circuits
`arithmetic(c0, c1, x, y, z)` to an existing target or a constant, that target denotes
`c0·x·y + c1·z`. Also (F) the trivial completeness direction of the vanishing combination.
-/
import P2.Lemmas.PlonkAlg
import Mathlib.Algebra.Field.Rat
import Mathlib.Algebra.Order.Ring.Rat
namespace P2.Props.C01
open P2 P2.Circuit P2.PlonkAlg P2.Lemmas.PlonkAlg

variable {K : Type} [Field K] [DecidableEq K]

omit [DecidableEq K] in
/-- `Operand.Consistent o` (defined in `P2.Lemmas.PlonkAlg`): the constant the builder believes the
operand to be is its value, and the zero target has value `0` -/
theorem operand_consistent_iff (o : Operand K) :
    o.Consistent ↔ (∀ c, o.knownConst = some c → o.value = c) ∧ (o.isZeroTarget = true → o.value = 0) :=
  Iff.rfl

/-- every special case of the builder's `arithmetic` returns a target denoting `c0·x·y + c1·z` -/
theorem arithmetic_special_cases_denote (c0 c1 : K) (m0 m1 ad : Operand K)
    (h0 : m0.Consistent) (h1 : m1.Consistent) (ha : ad.Consistent) (r : Special K)
    (h : @arithmeticSpecialCases K (FOps.ofField K) c0 c1 m0 m1 ad = some r) :
    @Special.denote K m0 m1 ad r = c0 * m0.value * m1.value + c1 * ad.value :=
  arithmeticSpecialCases_sound c0 c1 m0 m1 ad h0 h1 ha r h

/-! non-vacuity: each result variant occurs -/

/-- an operand the builder knows nothing about / knows to be the constant `c` -/
private def unk (v : ℚ) : Operand ℚ := ⟨v, none, false⟩
private def cst (c : ℚ) : Operand ℚ := ⟨c, some c, false⟩

example : @arithmeticSpecialCases ℚ (FOps.ofField ℚ) 2 3 (cst 5) (cst 7) (cst 11)
    = some (.constant 103) := by
  norm_num [arithmeticSpecialCases, cst, FOps.zero, FOps.one]
example : @arithmeticSpecialCases ℚ (FOps.ofField ℚ) 0 1 (unk 5) (unk 7) (unk 11) = some .addend := by
  norm_num [arithmeticSpecialCases, unk, FOps.zero, FOps.one]
example : @arithmeticSpecialCases ℚ (FOps.ofField ℚ) (1 / 5) 0 (cst 5) (unk 7) (unk 11)
    = some .multiplicand1 := by
  norm_num [arithmeticSpecialCases, unk, cst, FOps.zero, FOps.one]
example : @arithmeticSpecialCases ℚ (FOps.ofField ℚ) (1 / 7) 0 (unk 5) (cst 7) (unk 11)
    = some .multiplicand0 := by
  norm_num [arithmeticSpecialCases, unk, cst, FOps.zero, FOps.one]
example : @arithmeticSpecialCases ℚ (FOps.ofField ℚ) 2 3 (unk 5) (unk 7) (unk 11) = none := by
  norm_num [arithmeticSpecialCases, unk, FOps.zero, FOps.one]
example : (cst 5).Consistent := ⟨fun c h => by simpa [cst] using h, fun h => by simp [cst] at h⟩

/-! ## F. completeness of the vanishing combination -/

/-- if every gate-constraint term, every partial-product term and every `L_0·(Z−1)` term is zero,
the α-combination is zero for every `α`, so `vanishing(ζ) = Z_H(ζ)·t(ζ)` holds with `t(ζ) = 0` -/
theorem vanishing_complete (l0Terms ppTerms gateTerms : List K)
    (h1 : ∀ t ∈ l0Terms, t = 0) (h2 : ∀ t ∈ ppTerms, t = 0) (h3 : ∀ t ∈ gateTerms, t = 0)
    (α zH : K) :
    @reduceWithPowers K (FOps.ofField K) (l0Terms ++ ppTerms ++ gateTerms) α = zH * 0 := by
  rw [mul_zero]
  apply reduce_of_all_zero
  intro t ht
  simp only [List.mem_append] at ht
  rcases ht with (ht | ht) | ht
  · exact h1 t ht
  · exact h2 t ht
  · exact h3 t ht

end P2.Props.C01
