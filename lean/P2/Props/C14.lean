/-
C14: the L0 Goldilocks model computes field arithmetic modulo `P` and never traps on
well-formed inputs.  Property theorems only; helpers live in `P2/Lemmas/`.
-/
import P2.Lemmas.GL0
import P2.Lemmas.GL1
import P2.Lemmas.GL3

namespace P2.Props.C14
open P2.L0

/-! ### 1–4: add / sub / neg / canonical form -/

theorem glAdd_spec (a b : Nat) (ha : a < W64) (hb : b < W64) :
    (glAdd a b).trap = false ∧ (glAdd a b).val < W64 ∧ (glAdd a b).val % P = (a + b) % P :=
  glAdd_good a b ha hb

theorem glSub_spec (a b : Nat) (ha : a < W64) (hb : b < W64) :
    (glSub a b).trap = false ∧ (glSub a b).val < W64 ∧ ((glSub a b).val + b) % P = a % P :=
  glSub_good a b ha hb

theorem glNeg_spec (a : Nat) (ha : a < W64) :
    (glNeg a).trap = false ∧ (glNeg a).val < P ∧ ((glNeg a).val + a) % P = 0 :=
  glNeg_good a ha

theorem toCanonical_spec (a : Nat) (ha : a < W64) : toCanonical a = a % P :=
  toCanonical_eq a ha

/-! ### 5–7: the reductions -/

theorem reduce96_spec (xlo xhi : Nat) (h1 : xlo < W64) (h2 : xhi < W32) :
    (reduce96 xlo xhi).trap = false ∧ (reduce96 xlo xhi).val < W64 ∧
      (reduce96 xlo xhi).val % P = (xlo + xhi * W64) % P :=
  reduce96_good xlo xhi h1 h2

theorem reduce128_spec (x : Nat) (hx : x < W128) :
    (reduce128 x).trap = false ∧ (reduce128 x).val < W64 ∧ (reduce128 x).val % P = x % P :=
  reduce128_good x hx

example : 1461501636990620551361974531767172749817708281856 = 2 ^ 160 - 2 ^ 128 + 2 ^ 96 ∧
    1461501636990620551361974531767172749817708281856 = 2 ^ 96 * P := by decide

/-- the bound is `2^160 - 2^128 + 2^96 = 2^96 * P` -/
theorem reduce160_spec (xlo xhi : Nat) (h1 : xlo < W128) (h2 : xhi < W32)
    (h3 : xlo + xhi * W128 < 1461501636990620551361974531767172749817708281856) :
    (reduce160 xlo xhi).trap = false ∧ (reduce160 xlo xhi).val < W64 ∧
      (reduce160 xlo xhi).val % P = (xlo + xhi * W128) % P :=
  reduce160_good xlo xhi h1 h2 h3

/-! ### 8: multiplication -/

theorem glMul_spec (a b : Nat) (ha : a < W64) (hb : b < W64) :
    (glMul a b).trap = false ∧ (glMul a b).val < W64 ∧ (glMul a b).val % P = (a * b) % P :=
  glMul_good a b ha hb

theorem glSquare_spec (a : Nat) (ha : a < W64) :
    (glSquare a).trap = false ∧ (glSquare a).val < W64 ∧ (glSquare a).val % P = (a * a) % P :=
  glSquare_good a ha

theorem glMulAcc_spec (s x y : Nat) (hs : s < W64) (hx : x < W64) (hy : y < W64) :
    (glMulAcc s x y).trap = false ∧ (glMulAcc s x y).val < W64 ∧
      (glMulAcc s x y).val % P = (s + x * y) % P :=
  glMulAcc_good s x y hs hx hy

/-! ### 9: add/sub of a canonical `u64` -/

theorem addCanonicalU64_spec (a rhs : Nat) (ha : a < W64) (hr : rhs < P) :
    (addCanonicalU64 a rhs).trap = false ∧ (addCanonicalU64 a rhs).val < W64 ∧
      (addCanonicalU64 a rhs).val % P = (a + rhs) % P :=
  addCanonicalU64_good a rhs ha hr

theorem subCanonicalU64_spec (a rhs : Nat) (ha : a < W64) (hr : rhs < P) :
    (subCanonicalU64 a rhs).trap = false ∧ (subCanonicalU64 a rhs).val < W64 ∧
      ((subCanonicalU64 a rhs).val + rhs) % P = a % P :=
  subCanonicalU64_good a rhs ha hr

/-- the guard `rhs < P` is necessary: a non-canonical `rhs` can trap -/
example : P ≤ 18446744073709551615 ∧ 18446744073709551615 < W64 ∧
    (addCanonicalU64 18446744073709551615 18446744073709551615).trap = true := by decide

/-! ### 10: `from_noncanonical_i64` -/

theorem fromNoncanonicalI64_spec (n : Nat) (hn : n < W64) :
    (fromNoncanonicalI64 n).trap = false ∧ (fromNoncanonicalI64 n).val < P ∧
      ((fromNoncanonicalI64 n).val : Int) % 18446744069414584321 =
        (if 9223372036854775808 ≤ n then (n : Int) - 18446744073709551616 else (n : Int)) %
          18446744069414584321 :=
  fromNoncanonicalI64_good n hn

/-! ### 11: exponentiation -/

theorem expPow2_spec (a k : Nat) (ha : a < W64) :
    (expPow2 a k).trap = false ∧ (expPow2 a k).val < W64 ∧
      (expPow2 a k).val % P = (a ^ (2 ^ k)) % P :=
  expPow2_good k a a ha rfl

theorem expU64_spec (a e : Nat) (ha : a < W64) (_he : e < W64) :
    (expU64 a e).trap = false ∧ (expU64 a e).val < W64 ∧ (expU64 a e).val % P = (a ^ e) % P :=
  expU64_good a e ha

/-! ### 12: `P` is prime -/

theorem P_prime : Nat.Prime P := P_prime_lit

/-! ### 13: `try_inverse` -/

theorem tryInverse_spec (a : Nat) (ha : a < W64) :
    (a % P = 0 → tryInverse a = none) ∧
    (a % P ≠ 0 → ∃ r, tryInverse a = some r ∧ r.trap = false ∧ r.val < W64 ∧
      (r.val * a) % P = 1) :=
  tryInverse_good a ha

/-! ### 14: delayed-reduction extension multiplication

`extAddProds d w k a b` is coefficient `k` of `a * b` in `GF(P)[X]/(X^d - w)`:
`Σ_{i+j=k} a_i b_j + w * Σ_{i+j=k+d} a_i b_j`. -/

/-- `ext2_mul` (`X^2 = 7`): every coefficient is reduced correctly and nothing traps -/
theorem extMul_spec2 (a0 a1 b0 b1 : Nat)
    (ha0 : a0 < W64) (ha1 : a1 < W64)
    (hb0 : b0 < W64) (hb1 : b1 < W64) :
    ((extAddProds 2 7 0 #[a0, a1] #[b0, b1]).trap = false ∧
      (extAddProds 2 7 0 #[a0, a1] #[b0, b1]).val < W64 ∧
      (extAddProds 2 7 0 #[a0, a1] #[b0, b1]).val % P =
        (a0 * b0 + 7 * (a1 * b1)) % P) ∧
    ((extAddProds 2 7 1 #[a0, a1] #[b0, b1]).trap = false ∧
      (extAddProds 2 7 1 #[a0, a1] #[b0, b1]).val < W64 ∧
      (extAddProds 2 7 1 #[a0, a1] #[b0, b1]).val % P =
        (a0 * b1 + a1 * b0) % P) :=
  ⟨ext2_0_good a0 a1 b0 b1 ha0 ha1 hb0 hb1,
   ext2_1_good a0 a1 b0 b1 ha0 ha1 hb0 hb1⟩

/-- `ext4_mul` (`X^4 = 7`): every coefficient is reduced correctly and nothing traps -/
theorem extMul_spec4 (a0 a1 a2 a3 b0 b1 b2 b3 : Nat)
    (ha0 : a0 < W64) (ha1 : a1 < W64) (ha2 : a2 < W64) (ha3 : a3 < W64)
    (hb0 : b0 < W64) (hb1 : b1 < W64) (hb2 : b2 < W64) (hb3 : b3 < W64) :
    ((extAddProds 4 7 0 #[a0, a1, a2, a3] #[b0, b1, b2, b3]).trap = false ∧
      (extAddProds 4 7 0 #[a0, a1, a2, a3] #[b0, b1, b2, b3]).val < W64 ∧
      (extAddProds 4 7 0 #[a0, a1, a2, a3] #[b0, b1, b2, b3]).val % P =
        (a0 * b0 + 7 * (a1 * b3 + a2 * b2 + a3 * b1)) % P) ∧
    ((extAddProds 4 7 1 #[a0, a1, a2, a3] #[b0, b1, b2, b3]).trap = false ∧
      (extAddProds 4 7 1 #[a0, a1, a2, a3] #[b0, b1, b2, b3]).val < W64 ∧
      (extAddProds 4 7 1 #[a0, a1, a2, a3] #[b0, b1, b2, b3]).val % P =
        (a0 * b1 + a1 * b0 + 7 * (a2 * b3 + a3 * b2)) % P) ∧
    ((extAddProds 4 7 2 #[a0, a1, a2, a3] #[b0, b1, b2, b3]).trap = false ∧
      (extAddProds 4 7 2 #[a0, a1, a2, a3] #[b0, b1, b2, b3]).val < W64 ∧
      (extAddProds 4 7 2 #[a0, a1, a2, a3] #[b0, b1, b2, b3]).val % P =
        (a0 * b2 + a1 * b1 + a2 * b0 + 7 * (a3 * b3)) % P) ∧
    ((extAddProds 4 7 3 #[a0, a1, a2, a3] #[b0, b1, b2, b3]).trap = false ∧
      (extAddProds 4 7 3 #[a0, a1, a2, a3] #[b0, b1, b2, b3]).val < W64 ∧
      (extAddProds 4 7 3 #[a0, a1, a2, a3] #[b0, b1, b2, b3]).val % P =
        (a0 * b3 + a1 * b2 + a2 * b1 + a3 * b0) % P) :=
  ⟨ext4_0_good a0 a1 a2 a3 b0 b1 b2 b3 ha0 ha1 ha2 ha3 hb0 hb1 hb2 hb3,
   ext4_1_good a0 a1 a2 a3 b0 b1 b2 b3 ha0 ha1 ha2 ha3 hb0 hb1 hb2 hb3,
   ext4_2_good a0 a1 a2 a3 b0 b1 b2 b3 ha0 ha1 ha2 ha3 hb0 hb1 hb2 hb3,
   ext4_3_good a0 a1 a2 a3 b0 b1 b2 b3 ha0 ha1 ha2 ha3 hb0 hb1 hb2 hb3⟩

/-- `ext5_mul` (`X^5 = 3`): every coefficient is reduced correctly and nothing traps -/
theorem extMul_spec5 (a0 a1 a2 a3 a4 b0 b1 b2 b3 b4 : Nat)
    (ha0 : a0 < W64) (ha1 : a1 < W64) (ha2 : a2 < W64) (ha3 : a3 < W64) (ha4 : a4 < W64)
    (hb0 : b0 < W64) (hb1 : b1 < W64) (hb2 : b2 < W64) (hb3 : b3 < W64) (hb4 : b4 < W64) :
    ((extAddProds 5 3 0 #[a0, a1, a2, a3, a4] #[b0, b1, b2, b3, b4]).trap = false ∧
      (extAddProds 5 3 0 #[a0, a1, a2, a3, a4] #[b0, b1, b2, b3, b4]).val < W64 ∧
      (extAddProds 5 3 0 #[a0, a1, a2, a3, a4] #[b0, b1, b2, b3, b4]).val % P =
        (a0 * b0 + 3 * (a1 * b4 + a2 * b3 + a3 * b2 + a4 * b1)) % P) ∧
    ((extAddProds 5 3 1 #[a0, a1, a2, a3, a4] #[b0, b1, b2, b3, b4]).trap = false ∧
      (extAddProds 5 3 1 #[a0, a1, a2, a3, a4] #[b0, b1, b2, b3, b4]).val < W64 ∧
      (extAddProds 5 3 1 #[a0, a1, a2, a3, a4] #[b0, b1, b2, b3, b4]).val % P =
        (a0 * b1 + a1 * b0 + 3 * (a2 * b4 + a3 * b3 + a4 * b2)) % P) ∧
    ((extAddProds 5 3 2 #[a0, a1, a2, a3, a4] #[b0, b1, b2, b3, b4]).trap = false ∧
      (extAddProds 5 3 2 #[a0, a1, a2, a3, a4] #[b0, b1, b2, b3, b4]).val < W64 ∧
      (extAddProds 5 3 2 #[a0, a1, a2, a3, a4] #[b0, b1, b2, b3, b4]).val % P =
        (a0 * b2 + a1 * b1 + a2 * b0 + 3 * (a3 * b4 + a4 * b3)) % P) ∧
    ((extAddProds 5 3 3 #[a0, a1, a2, a3, a4] #[b0, b1, b2, b3, b4]).trap = false ∧
      (extAddProds 5 3 3 #[a0, a1, a2, a3, a4] #[b0, b1, b2, b3, b4]).val < W64 ∧
      (extAddProds 5 3 3 #[a0, a1, a2, a3, a4] #[b0, b1, b2, b3, b4]).val % P =
        (a0 * b3 + a1 * b2 + a2 * b1 + a3 * b0 + 3 * (a4 * b4)) % P) ∧
    ((extAddProds 5 3 4 #[a0, a1, a2, a3, a4] #[b0, b1, b2, b3, b4]).trap = false ∧
      (extAddProds 5 3 4 #[a0, a1, a2, a3, a4] #[b0, b1, b2, b3, b4]).val < W64 ∧
      (extAddProds 5 3 4 #[a0, a1, a2, a3, a4] #[b0, b1, b2, b3, b4]).val % P =
        (a0 * b4 + a1 * b3 + a2 * b2 + a3 * b1 + a4 * b0) % P) :=
  ⟨ext5_0_good a0 a1 a2 a3 a4 b0 b1 b2 b3 b4 ha0 ha1 ha2 ha3 ha4 hb0 hb1 hb2 hb3 hb4,
   ext5_1_good a0 a1 a2 a3 a4 b0 b1 b2 b3 b4 ha0 ha1 ha2 ha3 ha4 hb0 hb1 hb2 hb3 hb4,
   ext5_2_good a0 a1 a2 a3 a4 b0 b1 b2 b3 b4 ha0 ha1 ha2 ha3 ha4 hb0 hb1 hb2 hb3 hb4,
   ext5_3_good a0 a1 a2 a3 a4 b0 b1 b2 b3 b4 ha0 ha1 ha2 ha3 ha4 hb0 hb1 hb2 hb3 hb4,
   ext5_4_good a0 a1 a2 a3 a4 b0 b1 b2 b3 b4 ha0 ha1 ha2 ha3 ha4 hb0 hb1 hb2 hb3 hb4⟩

/-- array form of `extMul_spec2`: arbitrary operands of size 2 with `u64` limbs -/
theorem extMul_spec2_arr (a b : Array Nat) (ha : a.size = 2) (hb : b.size = 2)
    (hA : ∀ i, i < 2 → a[i]! < W64) (hB : ∀ i, i < 2 → b[i]! < W64) :
    ((extAddProds 2 7 0 a b).trap = false ∧ (extAddProds 2 7 0 a b).val < W64 ∧
      (extAddProds 2 7 0 a b).val % P =
        (a[0]! * b[0]! + 7 * (a[1]! * b[1]!)) % P) ∧
    ((extAddProds 2 7 1 a b).trap = false ∧ (extAddProds 2 7 1 a b).val < W64 ∧
      (extAddProds 2 7 1 a b).val % P =
        (a[0]! * b[1]! + a[1]! * b[0]!) % P) := by
  obtain ⟨x0, x1, rfl⟩ := arr2 a ha
  obtain ⟨y0, y1, rfl⟩ := arr2 b hb
  exact extMul_spec2 x0 x1 y0 y1 (hA 0 (by decide)) (hA 1 (by decide)) (hB 0 (by decide)) (hB 1 (by decide))

/-- array form of `extMul_spec4`: arbitrary operands of size 4 with `u64` limbs -/
theorem extMul_spec4_arr (a b : Array Nat) (ha : a.size = 4) (hb : b.size = 4)
    (hA : ∀ i, i < 4 → a[i]! < W64) (hB : ∀ i, i < 4 → b[i]! < W64) :
    ((extAddProds 4 7 0 a b).trap = false ∧ (extAddProds 4 7 0 a b).val < W64 ∧
      (extAddProds 4 7 0 a b).val % P =
        (a[0]! * b[0]! + 7 * (a[1]! * b[3]! + a[2]! * b[2]! + a[3]! * b[1]!)) % P) ∧
    ((extAddProds 4 7 1 a b).trap = false ∧ (extAddProds 4 7 1 a b).val < W64 ∧
      (extAddProds 4 7 1 a b).val % P =
        (a[0]! * b[1]! + a[1]! * b[0]! + 7 * (a[2]! * b[3]! + a[3]! * b[2]!)) % P) ∧
    ((extAddProds 4 7 2 a b).trap = false ∧ (extAddProds 4 7 2 a b).val < W64 ∧
      (extAddProds 4 7 2 a b).val % P =
        (a[0]! * b[2]! + a[1]! * b[1]! + a[2]! * b[0]! + 7 * (a[3]! * b[3]!)) % P) ∧
    ((extAddProds 4 7 3 a b).trap = false ∧ (extAddProds 4 7 3 a b).val < W64 ∧
      (extAddProds 4 7 3 a b).val % P =
        (a[0]! * b[3]! + a[1]! * b[2]! + a[2]! * b[1]! + a[3]! * b[0]!) % P) := by
  obtain ⟨x0, x1, x2, x3, rfl⟩ := arr4 a ha
  obtain ⟨y0, y1, y2, y3, rfl⟩ := arr4 b hb
  exact extMul_spec4 x0 x1 x2 x3 y0 y1 y2 y3 (hA 0 (by decide)) (hA 1 (by decide)) (hA 2 (by decide)) (hA 3 (by decide)) (hB 0 (by decide)) (hB 1 (by decide)) (hB 2 (by decide)) (hB 3 (by decide))

/-- array form of `extMul_spec5`: arbitrary operands of size 5 with `u64` limbs -/
theorem extMul_spec5_arr (a b : Array Nat) (ha : a.size = 5) (hb : b.size = 5)
    (hA : ∀ i, i < 5 → a[i]! < W64) (hB : ∀ i, i < 5 → b[i]! < W64) :
    ((extAddProds 5 3 0 a b).trap = false ∧ (extAddProds 5 3 0 a b).val < W64 ∧
      (extAddProds 5 3 0 a b).val % P =
        (a[0]! * b[0]! + 3 * (a[1]! * b[4]! + a[2]! * b[3]! + a[3]! * b[2]! + a[4]! * b[1]!)) % P) ∧
    ((extAddProds 5 3 1 a b).trap = false ∧ (extAddProds 5 3 1 a b).val < W64 ∧
      (extAddProds 5 3 1 a b).val % P =
        (a[0]! * b[1]! + a[1]! * b[0]! + 3 * (a[2]! * b[4]! + a[3]! * b[3]! + a[4]! * b[2]!)) % P) ∧
    ((extAddProds 5 3 2 a b).trap = false ∧ (extAddProds 5 3 2 a b).val < W64 ∧
      (extAddProds 5 3 2 a b).val % P =
        (a[0]! * b[2]! + a[1]! * b[1]! + a[2]! * b[0]! + 3 * (a[3]! * b[4]! + a[4]! * b[3]!)) % P) ∧
    ((extAddProds 5 3 3 a b).trap = false ∧ (extAddProds 5 3 3 a b).val < W64 ∧
      (extAddProds 5 3 3 a b).val % P =
        (a[0]! * b[3]! + a[1]! * b[2]! + a[2]! * b[1]! + a[3]! * b[0]! + 3 * (a[4]! * b[4]!)) % P) ∧
    ((extAddProds 5 3 4 a b).trap = false ∧ (extAddProds 5 3 4 a b).val < W64 ∧
      (extAddProds 5 3 4 a b).val % P =
        (a[0]! * b[4]! + a[1]! * b[3]! + a[2]! * b[2]! + a[3]! * b[1]! + a[4]! * b[0]!) % P) := by
  obtain ⟨x0, x1, x2, x3, x4, rfl⟩ := arr5 a ha
  obtain ⟨y0, y1, y2, y3, y4, rfl⟩ := arr5 b hb
  exact extMul_spec5 x0 x1 x2 x3 x4 y0 y1 y2 y3 y4 (hA 0 (by decide)) (hA 1 (by decide)) (hA 2 (by decide)) (hA 3 (by decide)) (hA 4 (by decide)) (hB 0 (by decide)) (hB 1 (by decide)) (hB 2 (by decide)) (hB 3 (by decide)) (hB 4 (by decide))

/-! ### 15: branch witnesses (non-vacuity) -/

/-- both `overflowing_add`s of `glAdd` overflow -/
example :
    (oadd64 18446744073709551615 18446744073709551615).2 = true ∧
    (oadd64 (oadd64 18446744073709551615 18446744073709551615).1 EPS).2 = true ∧
    glAdd 18446744073709551615 18446744073709551615 = ⟨8589934588, false⟩ := by decide

/-- both `overflowing_sub`s of `glSub` underflow -/
example :
    (osub64 0 18446744073709551615).2 = true ∧
    (osub64 (osub64 0 18446744073709551615).1 EPS).2 = true ∧
    glSub 0 18446744073709551615 = ⟨18446744065119617027, false⟩ := by decide

/-- the borrow branch of `reduce128` (`x_lo < x_hi_hi`) -/
example :
    (osub64 (79228162514264337593543950336 % W64) (79228162514264337593543950336 / W64 / W32)).2 = true ∧
    reduce128 79228162514264337593543950336 = ⟨18446744069414584320, false⟩ := by decide

end P2.Props.C14
