/-
C12: Merkle commitments open only to the committed leaf at the committed position.
Property theorems about `P2.Model.Merkle` for an arbitrary hasher (all heights, positions, caps).
-/
import P2.Model.Merkle
namespace P2.Props.C12
open P2.Merkle

variable {L D : Type}

/-- an explicit collision of the compression function or of the leaf hash -/
def Collision (h : Hasher L D) : Prop :=
  (∃ a b a' b', (a, b) ≠ (a', b') ∧ h.two a b = h.two a' b') ∨
  (∃ l l', l ≠ l' ∧ h.hashLeaf l = h.hashLeaf l')

/-- folding two sibling lists of equal length from two digests at the same index to the same
digest forces the digests and the sibling lists to coincide, or exhibits a collision of `two`. -/
theorem foldPath_inj (h : Hasher L D) :
    ∀ (π π' : List D) (c c' : D) (i : Nat), π.length = π'.length →
      (foldPath h c i π).1 = (foldPath h c' i π').1 →
      (c = c' ∧ π = π') ∨ (∃ a b a' b', (a, b) ≠ (a', b') ∧ h.two a b = h.two a' b') := by
  intro π
  induction π with
  | nil =>
    intro π' c c' i hl heq
    cases π' with
    | nil => left; exact ⟨by simpa [foldPath] using heq, rfl⟩
    | cons _ _ => simp at hl
  | cons s rest ih =>
    intro π' c c' i hl heq
    cases π' with
    | nil => simp at hl
    | cons s' rest' =>
      have hl' : rest.length = rest'.length := by simpa using hl
      simp only [foldPath] at heq
      by_cases hb : i % 2 = 1
      · simp only [hb, if_true] at heq
        rcases ih rest' _ _ _ hl' heq with ⟨h1, h2⟩ | hc
        · by_cases hp : (s, c) = (s', c')
          · left
            have := Prod.mk.inj hp
            exact ⟨this.2, by rw [this.1, h2]⟩
          · right; exact ⟨s, c, s', c', hp, h1⟩
        · right; exact hc
      · simp only [hb, if_false] at heq
        rcases ih rest' _ _ _ hl' heq with ⟨h1, h2⟩ | hc
        · by_cases hp : (c, s) = (c', s')
          · left
            have := Prod.mk.inj hp
            exact ⟨this.1, by rw [this.2, h2]⟩
          · right; exact ⟨c, s, c', s', hp, h1⟩
        · right; exact hc

/-- the index left after folding depends only on the start index and the proof length -/
theorem foldPath_index (h : Hasher L D) :
    ∀ (π : List D) (c : D) (i : Nat), (foldPath h c i π).2 = i / 2 ^ π.length := by
  intro π
  induction π with
  | nil => intro c i; simp [foldPath]
  | cons s rest ih =>
    intro c i
    simp only [foldPath, ih, List.length_cons]
    rw [Nat.div_div_eq_div_mul, Nat.pow_succ, Nat.mul_comm]

/-- **Binding.** Two openings accepted at the same position against the same cap, with proofs of
the same length, open the same leaf with the same siblings — or the run exhibits an explicit
collision of the compression function or of the leaf hash. Holds for every hasher, every cap
(any length), every position and proof length. -/
theorem verify_binds [DecidableEq D] (h : Hasher L D) (cap : List D) (i : Nat)
    (l l' : L) (π π' : List D) (hlen : π.length = π'.length)
    (h1 : verifyToCap h l i cap π = .ok) (h2 : verifyToCap h l' i cap π' = .ok) :
    (l = l' ∧ π = π') ∨ Collision h := by
  unfold verifyToCap at h1 h2
  have e1 := foldPath_index h π (h.hashLeaf l) i
  have e2 := foldPath_index h π' (h.hashLeaf l') i
  rw [← hlen] at e2
  generalize hf1 : foldPath h (h.hashLeaf l) i π = r1 at h1 e1
  generalize hf2 : foldPath h (h.hashLeaf l') i π' = r2 at h2 e2
  obtain ⟨d1, j1⟩ := r1
  obtain ⟨d2, j2⟩ := r2
  simp only at h1 h2 e1 e2
  subst e1 e2
  cases hc : cap[i / 2 ^ π.length]? with
  | none => simp [hc] at h1
  | some c =>
    simp only [hc] at h1 h2
    have hd1 : d1 = c := by
      by_cases hh : d1 = c
      · exact hh
      · simp [hh] at h1
    have hd2 : d2 = c := by
      by_cases hh : d2 = c
      · exact hh
      · simp [hh] at h2
    have heq : (foldPath h (h.hashLeaf l) i π).1 = (foldPath h (h.hashLeaf l') i π').1 := by
      rw [hf1, hf2]; simp [hd1, hd2]
    rcases foldPath_inj h π π' _ _ i hlen heq with ⟨hh, hp⟩ | hc2
    · by_cases hl : l = l'
      · left; exact ⟨hl, hp⟩
      · right; right; exact ⟨l, l', hl, hh⟩
    · right; left; exact hc2

/-- Corollary in the property's words: a different leaf at the same position, or altered siblings,
cannot also be accepted unless a collision is exhibited. -/
theorem other_opening_rejected [DecidableEq D] (h : Hasher L D) (cap : List D) (i : Nat)
    (l l' : L) (π π' : List D) (hlen : π.length = π'.length)
    (hne : l ≠ l' ∨ π ≠ π') (h1 : verifyToCap h l i cap π = .ok) :
    verifyToCap h l' i cap π' ≠ .ok ∨ Collision h := by
  by_cases h2 : verifyToCap h l' i cap π' = .ok
  · rcases verify_binds h cap i l l' π π' hlen h1 h2 with ⟨a, b⟩ | c
    · rcases hne with hne | hne
      · exact absurd a hne
      · exact absurd b hne
    · right; exact c
  · left; exact h2

/-- an altered cap entry is rejected (no hash assumption needed) -/
theorem altered_cap_rejected [DecidableEq D] (h : Hasher L D) (cap cap' : List D) (i : Nat)
    (l : L) (π : List D) (h1 : verifyToCap h l i cap π = .ok)
    (hne : cap'[i / 2 ^ π.length]? ≠ cap[i / 2 ^ π.length]?) :
    verifyToCap h l i cap' π ≠ .ok := by
  unfold verifyToCap at h1 ⊢
  have e1 := foldPath_index h π (h.hashLeaf l) i
  generalize hf1 : foldPath h (h.hashLeaf l) i π = r1 at h1 e1 ⊢
  obtain ⟨d1, j1⟩ := r1
  simp only at h1 e1 ⊢
  subst e1
  cases hc : cap[i / 2 ^ π.length]? with
  | none => simp [hc] at h1
  | some c =>
    simp only [hc] at h1 hne
    have hd1 : d1 = c := by
      by_cases hh : d1 = c
      · exact hh
      · simp [hh] at h1
    cases hc' : cap'[i / 2 ^ π.length]? with
    | none => simp
    | some c' =>
      have : c' ≠ c := by
        intro e; apply hne; rw [hc', e]
      simp only [hd1]
      intro hh
      by_cases e : c = c'
      · exact this e.symm
      · simp [e] at hh

/-- non-vacuity: a concrete two-leaf tree (toy hasher on `Nat`) whose honest openings are accepted -/
def toy : Hasher Nat Nat := ⟨fun l => l + 1, fun a b => 2 * a + 3 * b + 7⟩
example : verifyToCap toy 5 0 [2 * 6 + 3 * 10 + 7] [10] = .ok ∧
          verifyToCap toy 9 1 [2 * 6 + 3 * 10 + 7] [6] = .ok := by decide

end P2.Props.C12
