/-
C04 property theorems, part b: causality of the Fiat–Shamir challenger (challenges already drawn do
not depend on later messages), injectivity of the absorption step under an injective permutation,
state dependence (altering an absorbed element changes the sponge state every later challenge is
squeezed from, unless a capacity collision occurred), the squeeze as a function of that state, and
injectivity of the PLONK/FRI transcripts in every component for fixed shapes.
Proofs live in `P2.Lemmas.C04`; definitions used in the statements:
`runFrom p s ops = ops.foldl step (s, [])`, `runState p ops = runFrom p (init p) ops`
(`Challenger.run p ops = (runState p ops).2` by `rfl`).
-/
import P2.Lemmas.C04
namespace P2.Props.C04
open P2 P2.Sponge P2.Challenger P2.Plonk P2.Lemmas.C04 P2.Lemmas.C13

/-! ### T1: causality -/

/-- `run` is the output component of `runState` (definitional) -/
theorem run_eq_runState (p : Perm) (ops : List Op) : run p ops = (runState p ops).2 := rfl

/-- running `a ++ b` = running `a`, then running `b` from the state reached after `a` -/
theorem runState_append (p : Perm) (a b : List Op) :
    runState p (a ++ b) =
      ((runFrom p (runState p a).1 b).1, run p a ++ (runFrom p (runState p a).1 b).2) :=
  runFrom_append p (init p) a b

theorem run_append (p : Perm) (a b : List Op) :
    run p (a ++ b) = run p a ++ (runFrom p (runState p a).1 b).2 := by
  rw [run_eq_runState, runState_append]

/-- challenges already drawn do not depend on later messages -/
theorem run_prefix (p : Perm) (a b : List Op) : run p a <+: run p (a ++ b) :=
  ⟨_, (run_append p a b).symm⟩

/-- a history draws `drawn ops` challenges (the sum of its `get n`) -/
theorem run_length (p : Perm) (ops : List Op) : (run p ops).length = drawn ops :=
  runFrom_length p (init p) ops

/-- two histories with a common prefix `a` produce the same challenges during `a` (the first
`drawn a` ones), namely `run p a` -/
theorem run_congr_prefix (p : Perm) (a b c : List Op) :
    (run p (a ++ b)).take (drawn a) = run p a ∧
    (run p (a ++ b)).take (drawn a) = (run p (a ++ c)).take (drawn a) := by
  have h : ∀ b, (run p (a ++ b)).take (drawn a) = run p a := by
    intro b
    rw [run_append, ← run_length p a, List.take_left']
    rfl
  exact ⟨h b, (h b).trans (h c).symm⟩

/-! ### T2: duplexing is injective in what it absorbs -/

/-- for an injective permutation, the post-duplexing sponge determines the absorbed block and every
cell of the pre-state that the block did not overwrite -/
theorem duplexing_inj (p : Perm) (hinj : Function.Injective p.permute) (hr : p.rate ≤ p.width)
    (s s' : St) (hs : s.sponge.size = p.width) (hs' : s'.sponge.size = p.width)
    (hl : s.input.length = s'.input.length) (hle : s.input.length ≤ p.rate)
    (h : (duplexing p s).sponge = (duplexing p s').sponge) :
    s.input = s'.input ∧ ∀ i, s.input.length ≤ i → i < p.width → s.sponge[i]! = s'.sponge[i]! := by
  obtain ⟨h1, h2⟩ := duplexing_inj' p hinj s s' hs hs' hl (by omega) h
  exact ⟨h1, fun i hi _ => h2 i hi⟩

/-- different blocks of the same length absorbed into the same pre-state give different post-states -/
theorem duplexing_differs (p : Perm) (hinj : Function.Injective p.permute) (hr : p.rate ≤ p.width)
    (s s' : St) (hs : s.sponge.size = p.width) (hsp : s.sponge = s'.sponge)
    (hl : s.input.length = s'.input.length) (hle : s.input.length ≤ p.rate)
    (hne : s.input ≠ s'.input) :
    (duplexing p s).sponge ≠ (duplexing p s').sponge := fun h =>
  hne (duplexing_inj p hinj hr s s' hs (hsp ▸ hs) hl hle h).1

/-! ### T3: state dependence -/

/-- **State dependence.** Absorb two different messages `xs ≠ ys` of the same length from the same
challenger state and force a duplexing (draw one challenge). Then either the sponge states from
which all later challenges are squeezed differ, or an inner collision occurred: at the same point
`k` of the two runs the sponge states were different although they agree on the whole capacity
part (all indices `≥ rate`). -/
theorem state_dependence (p : Perm) (hinj : Function.Injective p.permute)
    (h0 : 0 < p.rate) (h1 : p.rate ≤ p.width)
    (hsz : ∀ st : Array P2.GL, st.size = p.width → (p.permute st).size = p.width)
    (s : St) (hs : s.sponge.size = p.width) (hi : s.input.length < p.rate)
    (xs ys : List P2.GL) (hl : xs.length = ys.length) (hne : xs ≠ ys) :
    (getChallenge p (observeMany p s xs)).1.sponge ≠ (getChallenge p (observeMany p s ys)).1.sponge ∨
    ∃ k, k < xs.length ∧
      (observeMany p s (xs.take k)).sponge ≠ (observeMany p s (ys.take k)).sponge ∧
      (observeMany p s (xs.take k)).sponge.size = p.width ∧
      (observeMany p s (ys.take k)).sponge.size = p.width ∧
      ∀ i, p.rate ≤ i →
        (observeMany p s (xs.take k)).sponge[i]! = (observeMany p s (ys.take k)).sponge[i]! := by
  have hp : Good p := ⟨h0, h1, hsz⟩
  have hinv : Inv p s := ⟨hs, hi⟩
  have ready : ∀ zs : List P2.GL, zs.length = xs.length →
      (getChallenge p (observeMany p s zs)).1.sponge = fin p (observeMany p s zs) := by
    intro zs hz
    have hpos : zs.length = (zs.length - 1) + 1 := by
      have : xs ≠ [] := by
        intro e; subst e
        have : ys = [] := List.eq_nil_of_length_eq_zero hl.symm
        exact hne this.symm
      have := List.length_pos_of_ne_nil this
      omega
    obtain ⟨z0, z, rfl, _⟩ := exists_concat zs _ hpos
    rw [observeMany_concat]
    exact getChallenge_sponge p _ (observe_ready hp _ z (observeMany_inv hp z0 s hinv))
  rw [ready xs rfl, ready ys hl.symm]
  exact fin_differs_or_collision hp hinj s hinv xs.length xs ys rfl hl.symm hne

/-- **State dependence, block-boundary form.** As `state_dependence`, and the collision point `k`
is a block boundary (`k > 0` observations after which the input buffer had just been absorbed):
the colliding states are the outputs of the permutation at the same duplexing of the two runs. -/
theorem state_dependence_boundary (p : Perm) (hinj : Function.Injective p.permute)
    (h0 : 0 < p.rate) (h1 : p.rate ≤ p.width)
    (hsz : ∀ st : Array P2.GL, st.size = p.width → (p.permute st).size = p.width)
    (s : St) (hs : s.sponge.size = p.width) (hi : s.input.length < p.rate)
    (xs ys : List P2.GL) (hl : xs.length = ys.length) (hne : xs ≠ ys) :
    (getChallenge p (observeMany p s xs)).1.sponge ≠ (getChallenge p (observeMany p s ys)).1.sponge ∨
    ∃ k, 0 < k ∧ k < xs.length ∧ (s.input.length + k) % p.rate = 0 ∧
      (observeMany p s (xs.take k)).input = [] ∧ (observeMany p s (ys.take k)).input = [] ∧
      (observeMany p s (xs.take k)).sponge ≠ (observeMany p s (ys.take k)).sponge ∧
      (observeMany p s (xs.take k)).sponge.size = p.width ∧
      (observeMany p s (ys.take k)).sponge.size = p.width ∧
      ∀ i, p.rate ≤ i →
        (observeMany p s (xs.take k)).sponge[i]! = (observeMany p s (ys.take k)).sponge[i]! := by
  have hp : Good p := ⟨h0, h1, hsz⟩
  have hinv : Inv p s := ⟨hs, hi⟩
  rcases state_dependence p hinj h0 h1 hsz s hs hi xs ys hl hne with h | ⟨k, hk, hd, hsx, hsy, hag⟩
  · exact Or.inl h
  · right
    have hkx : (xs.take k).length = k := by rw [List.length_take]; omega
    have hky : (ys.take k).length = k := by rw [List.length_take]; omega
    have bx := sponge_at_boundary hp (xs.take k) s hinv
    have by' := sponge_at_boundary hp (ys.take k) s hinv
    rw [hkx, List.take_take, Nat.min_eq_left (boundary_le _ _ _)] at bx
    rw [hky, List.take_take, Nat.min_eq_left (boundary_le _ _ _)] at by'
    obtain ⟨b, hb⟩ : ∃ b, b = boundary p.rate s.input.length k := ⟨_, rfl⟩
    rw [← hb] at bx by'
    have hbk : b ≤ k := by rw [hb]; exact boundary_le _ _ _
    simp only [bx, by'] at hd hsx hsy hag
    have hbpos : 0 < b := by
      rcases Nat.eq_zero_or_pos b with e | e
      · rw [e] at hd; exact absurd rfl hd
      · exact e
    have hmod : (s.input.length + b) % p.rate = 0 := by
      rw [hb] at hbpos ⊢; exact boundary_mod _ _ _ hbpos
    have hin : ∀ zs : List P2.GL, b ≤ zs.length → (observeMany p s (zs.take b)).input = [] := by
      intro zs hz
      apply List.eq_nil_of_length_eq_zero
      rw [observeMany_input_mod hp _ s hinv, List.length_take, Nat.min_eq_left hz, hmod]
    exact ⟨b, hbpos, by omega, hmod, hin xs (by omega), hin ys (by omega), hd, hsx, hsy, hag⟩

/-- single block, explicit: if everything observed still fits into the current block, the state after
the forced duplexing is the permutation of the pre-state overwritten with the buffered block -/
theorem single_block_state (p : Perm) (h0 : 0 < p.rate) (h1 : p.rate ≤ p.width)
    (hsz : ∀ st : Array P2.GL, st.size = p.width → (p.permute st).size = p.width)
    (s : St) (hs : s.sponge.size = p.width) (xs : List P2.GL) (hx : xs ≠ [])
    (hfit : s.input.length + xs.length ≤ p.rate) :
    (getChallenge p (observeMany p s xs)).1.sponge = p.permute (setFrom s.sponge (s.input ++ xs) 0) := by
  have hp : Good p := ⟨h0, h1, hsz⟩
  have hpos : xs.length = (xs.length - 1) + 1 := by
    have := List.length_pos_of_ne_nil hx
    omega
  obtain ⟨x0, x, rfl, hx0⟩ := exists_concat xs _ hpos
  have hlt : s.input.length + x0.length < p.rate := by simp at hfit; omega
  have hinv : Inv p s := ⟨hs, by omega⟩
  obtain ⟨e1, e2⟩ := observeMany_no_duplex p x0 s hlt
  rw [observeMany_concat,
    getChallenge_sponge p _ (observe_ready hp _ x (observeMany_inv hp x0 s hinv)), fin_observe, e1, e2,
    List.append_assoc]

/-- **State dependence, single block**: no collision disjunct — the post-duplexing states differ -/
theorem state_dependence_single_block (p : Perm) (hinj : Function.Injective p.permute)
    (h0 : 0 < p.rate) (h1 : p.rate ≤ p.width)
    (hsz : ∀ st : Array P2.GL, st.size = p.width → (p.permute st).size = p.width)
    (s : St) (hs : s.sponge.size = p.width)
    (xs ys : List P2.GL) (hl : xs.length = ys.length) (hne : xs ≠ ys)
    (hfit : s.input.length + xs.length ≤ p.rate) :
    (getChallenge p (observeMany p s xs)).1.sponge ≠ (getChallenge p (observeMany p s ys)).1.sponge := by
  have hx : xs ≠ [] := by
    intro e; subst e
    exact hne (List.eq_nil_of_length_eq_zero hl.symm).symm
  have hy : ys ≠ [] := by
    intro e; subst e
    exact hne (List.eq_nil_of_length_eq_zero hl)
  rw [single_block_state p h0 h1 hsz s hs xs hx hfit,
    single_block_state p h0 h1 hsz s hs ys hy (by omega)]
  intro h
  have := (setFrom0_inj _ _ _ _ (by simp [hl]) (by simp; omega) rfl (hinj h)).1
  exact hne (List.append_cancel_left this)

/-- **State dependence inside a history.** After any history `pre`, replacing the next message
`xs` by a different one of the same length changes the challenger's sponge state right after the
next challenge is drawn — unless a capacity collision occurred while absorbing the message. -/
theorem history_state_dependence (p : Perm) (hinj : Function.Injective p.permute)
    (h0 : 0 < p.rate) (h1 : p.rate ≤ p.width)
    (hsz : ∀ st : Array P2.GL, st.size = p.width → (p.permute st).size = p.width)
    (pre : List Op) (xs ys : List P2.GL) (hl : xs.length = ys.length) (hne : xs ≠ ys) :
    (runState p (pre ++ [.obs xs, .get 1])).1.sponge ≠ (runState p (pre ++ [.obs ys, .get 1])).1.sponge ∨
    ∃ k, k < xs.length ∧
      (runState p (pre ++ [.obs (xs.take k)])).1.sponge ≠ (runState p (pre ++ [.obs (ys.take k)])).1.sponge ∧
      (runState p (pre ++ [.obs (xs.take k)])).1.sponge.size = p.width ∧
      (runState p (pre ++ [.obs (ys.take k)])).1.sponge.size = p.width ∧
      ∀ i, p.rate ≤ i →
        (runState p (pre ++ [.obs (xs.take k)])).1.sponge[i]! =
          (runState p (pre ++ [.obs (ys.take k)])).1.sponge[i]! := by
  have hp : Good p := ⟨h0, h1, hsz⟩
  have hinv := runState_inv hp pre
  have e1 : ∀ zs : List P2.GL, (runState p (pre ++ [.obs zs, .get 1])).1 =
      (getChallenge p (observeMany p (runState p pre).1 zs)).1 := by
    intro zs
    rw [runState_append, runFrom_obs_get1]
  have e2 : ∀ zs : List P2.GL, (runState p (pre ++ [.obs zs])).1 =
      observeMany p (runState p pre).1 zs := by
    intro zs
    rw [runState_append]; rfl
  simp only [e1, e2]
  exact state_dependence p hinj h0 h1 hsz _ hinv.size hinv.len xs ys hl hne

/-! ### T4: the challenges are a function of the post-duplexing state -/

/-- explicit squeeze: after a forced duplexing, the first `n ≤ rate` challenges are the rate part
of the new sponge state read backwards -/
theorem challenges_explicit (p : Perm) (s : St) (n : Nat) (hd : s.input ≠ [] ∨ s.output = [])
    (hn : n ≤ p.rate) (hsz : p.rate ≤ (duplexing p s).sponge.size) :
    (getN p s n).2 = ((duplexing p s).sponge.toList.take p.rate).reverse.take n := by
  cases n with
  | zero => simp [getN]
  | succ m => rw [getN_explicit p s (m + 1) hd (by omega) hn hsz]

/-- any number of challenges drawn after a forced duplexing depends on the post-duplexing sponge
state only (and so does the challenger state reached, once at least one challenge is drawn) -/
theorem challenges_from_state (p : Perm) (s s' : St) (n : Nat)
    (hd : s.input ≠ [] ∨ s.output = []) (hd' : s'.input ≠ [] ∨ s'.output = [])
    (h : (duplexing p s).sponge = (duplexing p s').sponge) :
    (getN p s n).2 = (getN p s' n).2 ∧ (0 < n → (getN p s n).1 = (getN p s' n).1) :=
  getN_congr p s s' n hd hd' h

/-! ### T5: the transcripts are injective in every component (fixed shapes) -/

/-- two PLONK transcripts with component-wise equal lengths coincide only if every component
coincides: parameters, circuit digest, public-input hash, the three caps and the openings -/
theorem plonk_observed_inj (c c' : CommonData) (pih pih' dg dg' : Merkle.Digest) (p p' : Proof)
    (l1 : (friParamsObserved c.friParams).length = (friParamsObserved c'.friParams).length)
    (l2 : dg.length = dg'.length) (l3 : pih.length = pih'.length)
    (l4 : (flattenCap p.wiresCap).length = (flattenCap p'.wiresCap).length)
    (l5 : (flattenCap p.zsPartialProductsCap).length = (flattenCap p'.zsPartialProductsCap).length)
    (l6 : (flattenCap p.quotientPolysCap).length = (flattenCap p'.quotientPolysCap).length)
    (h : observed (plonkSchedule c pih dg p) = observed (plonkSchedule c' pih' dg' p')) :
    friParamsObserved c.friParams = friParamsObserved c'.friParams ∧ dg = dg' ∧ pih = pih' ∧
    flattenCap p.wiresCap = flattenCap p'.wiresCap ∧
    flattenCap p.zsPartialProductsCap = flattenCap p'.zsPartialProductsCap ∧
    flattenCap p.quotientPolysCap = flattenCap p'.quotientPolysCap ∧
    p.openings.toFriOpenings.flatten = p'.openings.toFriOpenings.flatten := by
  rw [plonk_schedule_observes, plonk_schedule_observes] at h
  obtain ⟨e1, e2, e3, e4, e5, e6, e7⟩ := append_inj7 _ _ _ _ _ _ _ _ _ _ _ _ _ _ l1 l2 l3 l4 l5 l6 h
  refine ⟨e1, e2, e3, e4, e5, e6, ?_⟩
  rw [flatMap_flattenExt, flatMap_flattenExt] at e7
  exact flattenExt_inj _ _ e7

/-- two proofs whose wires caps differ (same number of well-formed digests; the other caps of the
same sizes) have different transcripts -/
theorem wires_cap_changes_transcript (c : CommonData) (pih dg : Merkle.Digest) (p p' : Proof)
    (hw : ∀ d ∈ p.wiresCap, d.length = 4) (hw' : ∀ d ∈ p'.wiresCap, d.length = 4)
    (hlen : p.wiresCap.length = p'.wiresCap.length)
    (l5 : (flattenCap p.zsPartialProductsCap).length = (flattenCap p'.zsPartialProductsCap).length)
    (l6 : (flattenCap p.quotientPolysCap).length = (flattenCap p'.quotientPolysCap).length)
    (hne : p.wiresCap ≠ p'.wiresCap) :
    observed (plonkSchedule c pih dg p) ≠ observed (plonkSchedule c pih dg p') := by
  intro h
  have l4 : (flattenCap p.wiresCap).length = (flattenCap p'.wiresCap).length := by
    rw [flattenCap_length _ hw, flattenCap_length _ hw', hlen]
  have := (plonk_observed_inj c c pih pih dg dg p p' rfl rfl rfl l4 l5 l6 h).2.2.2.1
  exact hne (flattenCap_inj _ _ hw hw' this)

/-- the same for the other two caps, the public-input hash and the circuit digest -/
theorem statement_or_cap_changes_transcript (c : CommonData) (pih pih' dg dg' : Merkle.Digest)
    (p p' : Proof)
    (l2 : dg.length = dg'.length) (l3 : pih.length = pih'.length)
    (hw : ∀ d ∈ p.wiresCap, d.length = 4) (hw' : ∀ d ∈ p'.wiresCap, d.length = 4)
    (hz : ∀ d ∈ p.zsPartialProductsCap, d.length = 4) (hz' : ∀ d ∈ p'.zsPartialProductsCap, d.length = 4)
    (hq : ∀ d ∈ p.quotientPolysCap, d.length = 4) (hq' : ∀ d ∈ p'.quotientPolysCap, d.length = 4)
    (k4 : p.wiresCap.length = p'.wiresCap.length)
    (k5 : p.zsPartialProductsCap.length = p'.zsPartialProductsCap.length)
    (k6 : p.quotientPolysCap.length = p'.quotientPolysCap.length)
    (hne : dg ≠ dg' ∨ pih ≠ pih' ∨ p.wiresCap ≠ p'.wiresCap ∨
      p.zsPartialProductsCap ≠ p'.zsPartialProductsCap ∨ p.quotientPolysCap ≠ p'.quotientPolysCap ∨
      p.openings.toFriOpenings.flatten ≠ p'.openings.toFriOpenings.flatten) :
    observed (plonkSchedule c pih dg p) ≠ observed (plonkSchedule c pih' dg' p') := by
  intro h
  obtain ⟨_, e2, e3, e4, e5, e6, e7⟩ := plonk_observed_inj c c pih pih' dg dg' p p' rfl l2 l3
    (by rw [flattenCap_length _ hw, flattenCap_length _ hw', k4])
    (by rw [flattenCap_length _ hz, flattenCap_length _ hz', k5])
    (by rw [flattenCap_length _ hq, flattenCap_length _ hq', k6]) h
  rcases hne with h | h | h | h | h | h
  · exact h e2
  · exact h e3
  · exact h (flattenCap_inj _ _ hw hw' e4)
  · exact h (flattenCap_inj _ _ hz hz' e5)
  · exact h (flattenCap_inj _ _ hq hq' e6)
  · exact h e7

/-- FRI transcript: for commit-phase caps of a fixed shape (`m` digests of 4 elements) and final
polynomials of the same length, equal transcripts force equal caps, final polynomial and PoW witness -/
theorem fri_observed_inj (fp fp' : Fri.Proof) (nq nq' m : Nat) (hm : 0 < m)
    (hc : ∀ cap ∈ fp.commitCaps, cap.length = m ∧ ∀ d ∈ cap, d.length = 4)
    (hc' : ∀ cap ∈ fp'.commitCaps, cap.length = m ∧ ∀ d ∈ cap, d.length = 4)
    (hn : fp.commitCaps.length = fp'.commitCaps.length)
    (hf : fp.finalPoly.length = fp'.finalPoly.length)
    (h : observed (friSchedule fp nq) = observed (friSchedule fp' nq')) :
    fp.commitCaps = fp'.commitCaps ∧ fp.finalPoly = fp'.finalPoly ∧ fp.powWitness = fp'.powWitness := by
  rw [fri_schedule_observes, fri_schedule_observes] at h
  have lcaps : ∀ (a b : List (List Merkle.Digest)),
      (∀ cap ∈ a, cap.length = m ∧ ∀ d ∈ cap, d.length = 4) →
      (∀ cap ∈ b, cap.length = m ∧ ∀ d ∈ cap, d.length = 4) → a.length = b.length →
      (a.flatMap flattenCap).length = (b.flatMap flattenCap).length := by
    intro a
    induction a with
    | nil =>
      intro b _ _ hl
      cases b with
      | nil => rfl
      | cons d t => simp at hl
    | cons x t ih =>
      intro b ha hb hl
      cases b with
      | nil => simp at hl
      | cons y t' =>
        have hx := ha x (by simp)
        have hy := hb y (by simp)
        simp only [List.flatMap_cons, List.length_append]
        rw [flattenCap_length x hx.2, flattenCap_length y hy.2, hx.1, hy.1,
          ih t' (fun z hz => ha z (by simp [hz])) (fun z hz => hb z (by simp [hz])) (by simpa using hl)]
  have lext : (flattenExt fp.finalPoly).length = (flattenExt fp'.finalPoly).length := by
    have : ∀ l : List GL2, (flattenExt l).length = 2 * l.length := by
      intro l
      unfold flattenExt
      induction l with
      | nil => rfl
      | cons a t ih => simp only [List.flatMap_cons, List.length_append, List.length_cons, ih]; simp; omega
    rw [this, this, hf]
  obtain ⟨h12, h3⟩ := List.append_inj h (by
    rw [List.length_append, List.length_append, lcaps _ _ hc hc' hn, lext])
  obtain ⟨h1, h2⟩ := List.append_inj h12 (lcaps _ _ hc hc' hn)
  refine ⟨flatMap_flattenCap_inj m hm _ _ hc hc' h1, flattenExt_inj _ _ h2, ?_⟩
  simpa using h3

end P2.Props.C04
