/-
C09: decision logic of the STARK verifier model (`P2/Model/Stark.lean`) and the meaning of
"the trace satisfies the constraints" (`P2/Model/Air.lean`).
-/
import P2.Model.Stark
import P2.Lemmas.Stark
import P2.Lemmas.StarkNoPanic
namespace P2.Props.C09
open P2 P2.Air P2.Stark P2.Lemmas.Stark
open P2.Fri (Verdict firstBad)

section consumer
variable {K : Type} [FOps K]

theorem zip_map_accs (alphas : List K) (f : K → K) (c : K) :
    ((alphas.zip (alphas.map f)).map fun (p : K × K) => p.2 * p.1 + c) = alphas.map fun α => f α * α + c := by
  induction alphas with
  | nil => rfl
  | cons a as ih => simp only [List.map_cons, List.zip_cons_cons, ih]

theorem constraint_map (alphas : List K) (zLast l0 lLast : K) (f : K → K) (c : K) :
    (Consumer.constraint ⟨alphas, alphas.map f, zLast, l0, lLast⟩ c : Consumer K)
      = ⟨alphas, alphas.map (fun α => f α * α + c), zLast, l0, lLast⟩ := by
  simp only [Consumer.constraint, Consumer.mk.injEq, true_and, and_true]
  exact zip_map_accs alphas f c

/-- **The constraint consumer is one Horner accumulator per challenge.** After the constraints `cs`
have been handed to a fresh consumer, the accumulator of challenge `α` is
`(((0·α + c₀)·α + c₁)·α + …)`, i.e. `Σ cᵢ·α^(n-1-i)`: every constraint value enters the combination,
each with its own power of `α`. -/
theorem consumer_accs (alphas : List K) (zLast l0 lLast : K) (cs : List K) (accs₀ : List K)
    (f : K → K) (h₀ : accs₀ = alphas.map f) :
    (cs.foldl Consumer.constraint ⟨alphas, accs₀, zLast, l0, lLast⟩).accs
      = alphas.map fun α => cs.foldl (fun acc c => acc * α + c) (f α) := by
  subst h₀
  induction cs generalizing f with
  | nil => rfl
  | cons c cs ih =>
    simp only [List.foldl_cons]
    rw [constraint_map]
    exact ih (fun α => f α * α + c)

theorem consumer_new_accs (alphas : List K) (zLast l0 lLast : K) (cs : List K) :
    (cs.foldl Consumer.constraint (Consumer.new alphas zLast l0 lLast)).accs
      = alphas.map fun α => cs.foldl (fun acc c => acc * α + c) FOps.zero :=
  consumer_accs alphas zLast l0 lLast cs _ (fun _ => FOps.zero) rfl

/-- the three filtered forms are the unfiltered one applied to the filtered value -/
theorem emit_eq (s : Consumer K) (k : Kind) (c : K) :
    s.emit k c = s.constraint (match k with
      | .first => c * s.lagrangeFirst | .last => c * s.lagrangeLast
      | .transition => c * s.zLast | .all => c) := by
  cases k <;> rfl
end consumer

/-- **Meaning of "the trace satisfies the AIR"**: no violation is found iff on every row every
constraint whose kind is active on that row evaluates to zero (next row taken cyclically;
transition constraints skip the wrap-around row). -/
theorem satisfied_iff (a : Air) (rows : Array (Array GL)) (pis : Array GL) :
    a.satisfied rows pis = true ↔
      ∀ r, r < rows.size → ∀ ke ∈ a.constraints,
        ke.1.activeAt r rows.size = true →
          (ke.2.eval (rows.getD r #[]) (rows.getD ((r + 1) % rows.size) #[]) pis : GL) = 0 := by
  unfold Air.satisfied Air.firstViolation
  simp only [Option.isNone_iff_eq_none, List.findSome?_eq_none_iff, List.mem_range]
  constructor
  · intro h r hr ke hke hact
    have h1 := h r hr
    obtain ⟨i, hi⟩ := List.mem_iff_getElem.mp hke
    obtain ⟨hi1, hi2⟩ := hi
    have hmem : (ke, i) ∈ a.constraints.zipIdx := by
      rw [List.mem_zipIdx_iff_getElem?]
      simp [hi2.symm, hi1]
    have h2 := h1 (ke, i) hmem
    simp only [hact, Bool.true_and] at h2
    by_cases hz : (ke.2.eval (rows.getD r #[]) (rows.getD ((r + 1) % rows.size) #[]) pis : GL) = 0
    · exact hz
    · have : (!(ke.2.eval (rows.getD r #[]) (rows.getD ((r + 1) % rows.size) #[]) pis == (0 : GL))) = true := by
        simpa using hz
      rw [if_pos this] at h2
      cases h2
  · intro h r hr kei hmem
    obtain ⟨ke, i⟩ := kei
    have hke : ke ∈ a.constraints := by
      rw [List.mem_zipIdx_iff_getElem?] at hmem
      exact List.mem_of_getElem? hmem
    by_cases hact : ke.1.activeAt r rows.size = true
    · have := h r hr ke hke hact
      simp only [this, beq_self_eq_true, Bool.not_true, Bool.and_false, Bool.false_eq_true, if_false]
    · simp only [hact, Bool.false_and, Bool.false_eq_true, if_false]

/-- a proof with the wrong number of public inputs is rejected before anything else is looked at -/
theorem wrong_public_input_count_rejected (a : Air) (c : Config) (pp : ProofWithPis) (pad : Option PadParams)
    (h : pp.publicInputs.length ≠ a.pis) : verify a c pp pad = .reject "shape" := by
  unfold verify; simp [h]

/-- **F-C09-2 as repaired**: a proof that omits the quotient commitment of an AIR that has quotient
polynomials fails shape validation (whatever else it contains), and so does one that carries a
quotient commitment for an AIR without quotient polynomials. -/
theorem quotient_cap_presence_enforced (a : Air) (c : Config) (pp : ProofWithPis) (db nh nz : Nat)
    (h : pp.proof.quotientCap.isSome ≠ decide (0 < numQuotientPolys a c)) :
    validateShape a c pp db nh nz ≠ .accept := by
  unfold validateShape
  intro hacc
  split at hacc
  · cases hacc
  · split at hacc
    · cases hacc
    · simp only [] at hacc
      split at hacc
      · cases hacc
      · rw [firstBad_accept_iff] at hacc
        have h2 := hacc _ (List.mem_append_left _ (List.mem_cons_of_mem _ List.mem_cons_self))
        cases hq : pp.proof.quotientCap with
        | none =>
          simp only [hq, Option.isSome_none, quotientCapMustMatch, if_true, ensure_accept_iff,
            beq_iff_eq] at h h2
          apply h; simp [h2]
        | some q =>
          simp only [hq, Option.isSome_some, quotientCapMustMatch, Bool.true_and] at h h2
          split at h2
          · cases h2
          · rename_i hn
            apply h
            simp only [beq_iff_eq] at hn
            simp; omega

/-- non-vacuity: the Fibonacci AIR on a 4-row trace -/
def fibAir : Air :=
  { cols := 2, pis := 3, degree := 2, requiresCtls := false, lookups := [],
    constraints := [(.first, .sub (.loc 0) (.pub 0)), (.first, .sub (.loc 1) (.pub 1)),
      (.last, .sub (.loc 1) (.pub 2)),
      (.transition, .sub (.nxt 0) (.loc 1)), (.transition, .sub (.nxt 1) (.add (.loc 0) (.loc 1)))] }

example : fibAir.satisfied #[#[0, 1], #[1, 1], #[1, 2], #[2, 3]] #[0, 1, 3] = true := by decide
example : fibAir.satisfied #[#[0, 1], #[1, 1], #[1, 3], #[2, 3]] #[0, 1, 3] = false := by decide

/-! ## (b) what an accepted shape validation establishes -/

/-- **Shape validation, stated outright** (`nh`, `nz`: the numbers of CTL helper columns and CTL Z
polynomials the caller expects; `0`, `0` for a single table). `validate_proof_shape` accepts iff
* the number of public inputs is `a.pis`; `fri_params` and `num_lookup_helper_columns` are defined;
* the trace cap has `2^cap_height` entries;
* the quotient cap is present iff the AIR has quotient polynomials (F-C09-2 repaired), and then has
  `2^cap_height` entries;
* `ctl_zs_first` is present iff the AIR requires CTLs (F-C09-1 repaired);
* local and next values have `a.cols` entries;
* the quotient OPENINGS are present iff the AIR has quotient polynomials (repair of the `chunks(0)`
  panic found with this model), and then there are `num_quotient_polys` of them;
* the auxiliary cap / openings are present iff the AIR has lookups or CTLs, with
  `2^cap_height` resp. `nlc + nh + nz` entries (and `ctl_zs_first` has `nz`), else all absent. -/
theorem validateShape_accept_iff (a : Air) (c : Config) (pp : ProofWithPis) (db nh nz : Nat) :
    validateShape a c pp db nh nz = .accept ↔
      pp.publicInputs.length = a.pis ∧
      (∃ fp, c.friParams db = some fp) ∧
      ∃ nlc, numLookupHelperColumns a c = some nlc ∧
        pp.proof.traceCap.length = 2 ^ c.fri.capHeight ∧
        pp.proof.quotientCap.isSome = decide (0 < numQuotientPolys a c) ∧
        (∀ q, pp.proof.quotientCap = some q → q.length = 2 ^ c.fri.capHeight) ∧
        pp.proof.openings.ctlZsFirst.isSome = a.requiresCtls ∧
        pp.proof.openings.localValues.length = a.cols ∧
        pp.proof.openings.nextValues.length = a.cols ∧
        pp.proof.openings.quotientPolys.isSome = decide (0 < numQuotientPolys a c) ∧
        (pp.proof.openings.quotientPolys.getD []).length = numQuotientPolys a c ∧
        (if (a.usesLookups || a.requiresCtls) = true then
          ∃ cap aux auxNext, pp.proof.auxCap = some cap ∧ pp.proof.openings.auxPolys = some aux ∧
            pp.proof.openings.auxPolysNext = some auxNext ∧ cap.length = 2 ^ c.fri.capHeight ∧
            aux.length = nlc + nh + nz ∧ auxNext.length = nlc + nh + nz ∧
            ∀ zs, pp.proof.openings.ctlZsFirst = some zs → zs.length = nz
        else pp.proof.auxCap = none ∧ pp.proof.openings.auxPolys = none ∧
          pp.proof.openings.auxPolysNext = none) :=
  Lemmas.Stark.validateShape_accept_iff a c pp db nh nz

/-- the quotient cap is present exactly when there are quotient polynomials -/
theorem shape_quotientCap_iff (a : Air) (c : Config) (pp : ProofWithPis) (db nh nz : Nat)
    (h : validateShape a c pp db nh nz = .accept) :
    pp.proof.quotientCap.isSome = true ↔ 0 < numQuotientPolys a c := by
  have := ((validateShape_accept_iff a c pp db nh nz).1 h).2.2
  obtain ⟨_, _, _, h2, _⟩ := this
  rw [h2]; simp

/-- the quotient openings are present exactly when there are quotient polynomials -/
theorem shape_quotientPolys_iff (a : Air) (c : Config) (pp : ProofWithPis) (db nh nz : Nat)
    (h : validateShape a c pp db nh nz = .accept) :
    pp.proof.openings.quotientPolys.isSome = true ↔ 0 < numQuotientPolys a c := by
  have := ((validateShape_accept_iff a c pp db nh nz).1 h).2.2
  obtain ⟨_, _, _, _, _, _, _, _, h2, _⟩ := this
  rw [h2]; simp

/-- **`chunks(0)` is unreachable after shape validation** (`num_quotient_polys =
quotient_degree_factor · num_challenges`): if quotient openings are present, the chunk size
`quotient_degree_factor` handed to `chunks` is non-zero -/
theorem chunks0_unreachable_after_shape (a : Air) (c : Config) (pp : ProofWithPis) (db nh nz : Nat)
    (h : validateShape a c pp db nh nz = .accept) (hq : pp.proof.openings.quotientPolys.isSome = true) :
    a.quotientDegreeFactor ≠ 0 :=
  qdf_ne_zero_of_shape a c pp db nh nz h hq

/-- shape validation never panics once `fri_params` and `num_lookup_helper_columns` are defined
(both depend on the AIR and the configuration only, not on the proof) -/
theorem validateShape_no_panic (a : Air) (c : Config) (pp : ProofWithPis) (db nh nz : Nat) (s : String)
    (hf : (c.friParams db).isSome) (hn : (numLookupHelperColumns a c).isSome) :
    validateShape a c pp db nh nz ≠ .panic s := by
  unfold validateShape
  obtain ⟨fp, hf⟩ := Option.isSome_iff_exists.mp hf
  obtain ⟨nlc, hn⟩ := Option.isSome_iff_exists.mp hn
  simp only [hf, hn]
  split
  · simp
  · apply firstBad_ensure_no_panic
    intro v hv t
    simp only [List.mem_append, List.mem_cons, List.not_mem_nil, or_false] at hv
    have he : ∀ b, ensure b ≠ .panic t := fun b => by cases b <;> simp [ensure]
    rcases hv with (rfl | rfl | rfl | rfl | rfl | rfl) | hv
    · exact he _
    · split
      · simp only [quotientCapMustMatch, if_true]; exact he _
      · split
        · simp
        · exact he _
    · simp only [ctlZsFirstMustMatch, if_true]; exact he _
    · exact he _
    · exact he _
    · split <;> exact he _
    · unfold checkLookupOptions at hv
      simp only [] at hv
      split at hv
      · split at hv
        · simp only [List.mem_cons, List.not_mem_nil, or_false] at hv
          rcases hv with rfl | rfl | rfl | rfl
          · split
            · exact he _
            · simp
          · exact he _
          · exact he _
          · exact he _
        · simp only [List.mem_singleton] at hv; subst hv; simp
      · simp only [List.mem_cons, List.not_mem_nil, or_false] at hv
        rcases hv with rfl | rfl | rfl <;> exact he _

/-! ## (a) acceptance is the conjunction of every check -/

/-- **`verify_stark_proof_with_challenges` accepts iff** `recover_degree_bits` succeeds with some
`db`, shape validation accepts, and (`AfterShape`, spelled out in `verify_accept_imp` below) the
consumer can be set up at ζ, `eval_vanishing_poly` returns, *the quotient identity
`vanishing[i] = Z_H(ζ)·Σ_j chunk_i[j]·ζ^(n·j)` holds for every chunk of quotient openings*, the
commit-phase cap count and arities fit, and the FRI verifier accepts the openings against
`[trace cap] ++ aux cap ++ quotient cap`. -/
theorem verifyWithChallenges_accept_iff (a : Air) (c : Config) (pp : ProofWithPis) (ch : Challenges)
    (ctlVars : Option (List CtlVars)) :
    verifyWithChallenges a c pp ch ctlVars = .accept ↔
      ∃ db, recoverDegreeBits pp.proof c = .ok db ∧
        validateShape a c pp db (ctlHelpersCount ctlVars) (ctlZsCount ctlVars) = .accept ∧
        ∃ s nlc fp lv vanishing,
          consumerAt ch.alphas db ch.zeta = .ok s ∧
          numLookupHelperColumns a c = some nlc ∧ c.friParams db = some fp ∧
          lookupVarsOf a ch pp.proof.openings nlc = .ok lv ∧
          evalVanishingPoly a pp.proof.openings.localValues pp.proof.openings.nextValues pp.publicInputs lv
            ctlVars s = some vanishing ∧
          (∀ (i : Nat) (chunk : List GL2), (quotientChunks a pp.proof.openings)[i]? = some chunk →
            vanishing[i]? = some ((FOps.pow ch.zeta (2 ^ db) - FOps.one) *
              Fri.reduceExt chunk (FOps.pow ch.zeta (2 ^ db)))) ∧
          pp.proof.openingProof.commitCaps.length = fp.arityBits.length ∧ fp.totalArities ≤ db ∧
          Fri.verify (friInstance a c ch.zeta (GL.primitiveRoot db) nlc (ctlHelpersCount ctlVars)
              (ctlZsCount ctlVars)) pp.proof.openings.toFriOpenings ch.fri (friCaps pp.proof)
            pp.proof.openingProof fp = .accept :=
  Lemmas.Stark.verifyWithChallenges_accept_iff a c pp ch ctlVars

/-- **`verify_stark_proof` accepts iff** the public-input count is right, the Fiat–Shamir
challenges can be recomputed *from the proof and the public inputs* (`getChallenges`), and
`verify_stark_proof_with_challenges` accepts with exactly those challenges. -/
theorem verify_accept_iff (a : Air) (c : Config) (pp : ProofWithPis) (pad : Option PadParams) :
    Stark.verify a c pp pad = .accept ↔
      pp.publicInputs.length = a.pis ∧
      ∃ ch, getChallenges a c pp pad = .ok ch ∧ verifyWithChallenges a c pp ch = .accept := by
  unfold Stark.verify
  by_cases hp : pp.publicInputs.length = a.pis
  · simp only [hp, ne_eq, not_true_eq_false, if_false, true_and]
    cases hc : getChallenges a c pp pad with
    | error e => simp
    | ok ch => simp
  · simp [hp]

/-- the facts an accepted single-table proof satisfies, all at once -/
theorem verify_accept_imp (a : Air) (c : Config) (pp : ProofWithPis) (pad : Option PadParams)
    (h : Stark.verify a c pp pad = .accept) :
    pp.publicInputs.length = a.pis ∧
    ∃ ch db s nlc fp lv vanishing,
      getChallenges a c pp pad = .ok ch ∧
      recoverDegreeBits pp.proof c = .ok db ∧
      validateShape a c pp db 0 0 = .accept ∧
      consumerAt ch.alphas db ch.zeta = .ok s ∧
      numLookupHelperColumns a c = some nlc ∧ c.friParams db = some fp ∧
      lookupVarsOf a ch pp.proof.openings nlc = .ok lv ∧
      evalVanishingPoly a pp.proof.openings.localValues pp.proof.openings.nextValues pp.publicInputs lv
        none s = some vanishing ∧
      (∀ (i : Nat) (chunk : List GL2), (quotientChunks a pp.proof.openings)[i]? = some chunk →
        vanishing[i]? = some ((FOps.pow ch.zeta (2 ^ db) - FOps.one) *
          Fri.reduceExt chunk (FOps.pow ch.zeta (2 ^ db)))) ∧
      Fri.verify (friInstance a c ch.zeta (GL.primitiveRoot db) nlc 0 0) pp.proof.openings.toFriOpenings
        ch.fri (friCaps pp.proof) pp.proof.openingProof fp = .accept := by
  obtain ⟨hp, ch, hc, hv⟩ := (verify_accept_iff a c pp pad).1 h
  obtain ⟨db, hdb, hs, s, nlc, fp, lv, van, h1, h2, h3, h4, h5, h7, _, _, h10⟩ :=
    (verifyWithChallenges_accept_iff a c pp ch none).1 hv
  exact ⟨hp, ch, db, s, nlc, fp, lv, van, hc, hdb, hs, h1, h2, h3, h4, h5, h7, h10⟩

/-- every chunk of quotient openings is checked: with `num_quotient_polys = qdf·num_challenges`
openings there are `num_challenges` chunks -/
theorem quotientChunks_length (a : Air) (c : Config) (pp : ProofWithPis) (db nh nz : Nat)
    (h : validateShape a c pp db nh nz = .accept) (hq : 0 < a.quotientDegreeFactor) :
    (quotientChunks a pp.proof.openings).length = c.numChallenges := by
  obtain ⟨_, _, _, _, _, _, _, _, _, _, _, h8, _⟩ := (validateShape_accept_iff a c pp db nh nz).1 h
  unfold quotientChunks
  cases hqp : pp.proof.openings.quotientPolys with
  | none =>
    simp only [hqp, Option.getD_none, List.length_nil, numQuotientPolys] at h8 ⊢
    rcases Nat.mul_eq_zero.mp h8.symm with h0 | h0
    · omega
    · exact h0.symm
  | some q =>
    simp only [hqp, Option.getD_some, numQuotientPolys] at h8 ⊢
    simp only [chunksOf, List.length_map, List.length_range, h8]
    rw [Nat.add_sub_assoc hq, Nat.mul_add_div hq]
    rw [Nat.div_eq_of_lt (show a.quotientDegreeFactor - Nat.succ 0 < a.quotientDegreeFactor by omega)]
    rfl

/-! ### non-vacuity: a concrete accepted proof (one row, `local[0] = public[0]`) -/

def tinyAir : Air :=
  { cols := 1, pis := 1, degree := 1, requiresCtls := false, lookups := [],
    constraints := [(Kind.all, Expr.sub (.loc 0) (.pub 0))] }
def tinyCfg : Config := ⟨0, 1, ⟨0, 0, 0, .fixed [], 1⟩⟩
def tinyOpenings : OpeningSet := ⟨[⟨5,0⟩], [⟨5,0⟩], none, none, none, some [⟨2,0⟩]⟩
def tinyFri : Fri.Proof := ⟨[], [⟨[([0],[]),([0],[])], []⟩], [⟨0,0⟩], 0⟩
def tinyProof : ProofWithPis := ⟨⟨[[0,0,0,0]], none, some [[0,0,0,0]], tinyOpenings, tinyFri⟩, [3]⟩
def tinyCh : Stark.Challenges := ⟨none, [1], ⟨2,0⟩, ⟨⟨1,0⟩, [], 0, []⟩⟩

/-- with challenges that select no query the (vacuous) FRI check accepts; the quotient identity
`5 − 3 = (ζ − 1)·2` at `ζ = 2` is checked -/
example : verifyWithChallenges tinyAir tinyCfg tinyProof tinyCh none = .accept := by decide +kernel
/-- … and a wrong quotient opening is rejected at the identity -/
example : verifyWithChallenges tinyAir tinyCfg
    { tinyProof with proof := { tinyProof.proof with openings := { tinyOpenings with quotientPolys := some [⟨3,0⟩] } } }
    tinyCh none = .reject "identity" := by decide +kernel
example : validateShape tinyAir tinyCfg tinyProof 0 0 0 = .accept := by decide +kernel
example : (quotientChunks tinyAir tinyProof.proof.openings).length = tinyCfg.numChallenges := by decide +kernel
/-- dropping the quotient cap is caught by shape validation (F-C09-2 repaired) -/
example : validateShape tinyAir tinyCfg
    { tinyProof with proof := { tinyProof.proof with quotientCap := none } } 0 0 0 = .reject "shape" := by
  decide +kernel
example : Stark.verify tinyAir tinyCfg { tinyProof with publicInputs := [] } none = .reject "shape" :=
  wrong_public_input_count_rejected _ _ _ _ (by decide)

/-! ## (h) panics: where they are, and where they cannot be

The model has panic paths *before* shape validation (known finding F-C18-3): `recover_degree_bits`
indexes `query_round_proofs[0].initial_trees_proof.evals_proofs[0]` of an unvalidated proof, and
`get_challenges` runs `compute_eval_vanishing_poly` (inverse of `n·(ζ′−1)·n·(g·ζ′−1)`). After a
successful `recover_degree_bits` and challenge generation, an AIR without lookups/CTLs cannot panic.
(`chunks(0)`, found with this model for `constraint_degree = 0`, is excluded by shape validation now.) -/

/-- `recover_degree_bits` fails exactly when there is no query round, or the first query round
has no initial-tree opening -/
theorem recoverDegreeBits_error_iff (p : Proof) (c : Config) (e : String) :
    recoverDegreeBits p c = .error e ↔
      (p.openingProof.queries = [] ∧ e = "query_round_proofs[0]") ∨
      (∃ q rest, p.openingProof.queries = q :: rest ∧ q.initial = [] ∧ e = "evals_proofs[0]") := by
  unfold recoverDegreeBits
  cases hq : p.openingProof.queries with
  | nil => simp [eq_comm]
  | cons q rest =>
    cases hi : q.initial with
    | nil => simp [hi, eq_comm]
    | cons x t => obtain ⟨l, sib⟩ := x; simp [hi]

/-- … and otherwise returns `cap_height + (length of the first Merkle path) − rate_bits`, wrapping -/
theorem recoverDegreeBits_ok_iff (p : Proof) (c : Config) (db : Nat) :
    recoverDegreeBits p c = .ok db ↔
      ∃ q rest leaf sib t, p.openingProof.queries = q :: rest ∧ q.initial = (leaf, sib) :: t ∧
        db = (c.fri.capHeight + sib.length + usizeModulus - c.fri.rateBits) % usizeModulus := by
  unfold recoverDegreeBits
  cases hq : p.openingProof.queries with
  | nil => simp
  | cons q rest =>
    cases hi : q.initial with
    | nil => simp [hi]
    | cons x t =>
      obtain ⟨l, sib⟩ := x
      simp only [hi, Except.ok.injEq]
      constructor
      · intro h; exact ⟨q, rest, l, sib, t, rfl, hi, h.symm⟩
      · rintro ⟨q', rest', l', sib', t', h1, h2, h3⟩
        cases h1; rw [hi] at h2; cases h2; exact h3.symm

/-- **F-C18-3 in the model**: a proof without query rounds (or with an empty first opening) makes
`verify_stark_proof` panic — before any shape validation — whatever else it contains -/
theorem verify_panics_of_recoverDegreeBits_error (a : Air) (c : Config) (pp : ProofWithPis)
    (pad : Option PadParams) (e : String) (hp : pp.publicInputs.length = a.pis)
    (h : recoverDegreeBits pp.proof c = .error e) : Stark.verify a c pp pad = .panic e := by
  unfold Stark.verify getChallenges getChallengesFrom
  simp [hp, h, bind, Except.bind]

/-- `verify_stark_proof_with_challenges` panics in the same way -/
theorem verifyWithChallenges_panics_of_recoverDegreeBits_error (a : Air) (c : Config) (pp : ProofWithPis)
    (ch : Challenges) (cv : Option (List CtlVars)) (e : String)
    (h : recoverDegreeBits pp.proof c = .error e) : verifyWithChallenges a c pp ch cv = .panic e := by
  unfold verifyWithChallenges
  simp [h]

/-- when the consumer cannot be set up: `log_n > 32` or a zero denominator of `L_0`/`L_last` -/
theorem consumerAt_error_iff (alphas : List GL) (db : Nat) (x : GL2) :
    (∃ e, consumerAt alphas db x = .error e) ↔
      db > 32 ∨ ((GL2.ofBase (GL.ofNat (2 ^ db)) * (x - FOps.one)) *
        (GL2.ofBase (GL.ofNat (2 ^ db)) * (GL2.scalarMul x (GL.primitiveRoot db) - FOps.one)) == FOps.zero) = true := by
  unfold consumerAt evalL0LLast
  by_cases h1 : db > 32
  · simp [h1, bind, Except.bind]
  · simp only [h1, if_false, false_or]
    split <;> simp_all [bind, Except.bind, pure, Except.pure]

/-- **No panic after `recover_degree_bits`** (AIRs without lookups and cross-table lookups, the
single-table verifier). `_partial`: MISSING is the case of AIRs with lookups (`hl`) or CTLs (`hctl`,
`ctlVars = some _`): it needs `evalLookups` / `evalCtlChecks` (loops over `numHelperColumns`
slices of the auxiliary openings, `todo!()` for chunks longer than 2) shown to return `some` from
the shape facts, and the accumulator count to be preserved through them; the `"unwrap"` of
`lookup_challenge_set` also has to be tied to `get_challenges`. Everything else (shape validation,
quotient identity indices, `chunks(0)`, FRI) is covered for all AIRs by the lemmas used here.
Hypotheses — all on verifier-side data:
* `hdb`: `recover_degree_bits` returned `db`; `hfp`: `fri_params(db)` is defined (configuration);
* `hcons`: the consumer can be set up at ζ (`db ≤ 32`, ζ ∉ {1, g⁻¹} — `consumerAt_error_iff`);
* `hal`, `hbetas`, `hidx`: the challenges have the shapes `get_challenges` produces
  (`getChallenges_shapes`).
Nothing is assumed about the proof (in particular `constraint_degree = 0` is allowed: `chunks(0)`
is excluded by shape validation since its repair). -/
theorem verifyWithChallenges_never_panics_partial (a : Air) (c : Config) (pp : ProofWithPis) (ch : Challenges)
    (db : Nat) (fp : Fri.FriParams)
    (hl : a.lookups = []) (hctl : a.requiresCtls = false)
    (hdb : recoverDegreeBits pp.proof c = .ok db) (hfp : c.friParams db = some fp)
    (hcons : ∃ s, consumerAt ch.alphas db ch.zeta = .ok s)
    (hal : ch.alphas.length = c.numChallenges)
    (hbetas : ch.fri.betas.length = pp.proof.openingProof.commitCaps.length)
    (hidx : ∀ xi ∈ ch.fri.queryIndices, xi < 2 ^ (db + c.fri.rateBits)) :
    ∀ t, verifyWithChallenges a c pp ch none ≠ .panic t :=
  Lemmas.StarkNoPanic.verifyWithChallenges_no_panic a c pp ch db fp hl hctl hdb hfp hcons hal hbetas hidx

/-- the challenges `get_challenges` returns have the shapes the theorem above asks for -/
theorem getChallenges_shapes (a : Air) (c : Config) (pp : ProofWithPis) (pad : Option PadParams)
    (ch : Challenges) (h : getChallenges a c pp pad = .ok ch) :
    ∃ db, recoverDegreeBits pp.proof c = .ok db ∧ ch.alphas.length = c.numChallenges ∧
      ch.fri.betas.length = pp.proof.openingProof.commitCaps.length ∧
      ∀ xi ∈ ch.fri.queryIndices, xi < 2 ^ ((db + c.fri.rateBits) % 64) :=
  Lemmas.StarkNoPanic.getChallengesFrom_shapes _ a c pp pad none none false ch h

/-- **`verify_stark_proof` never panics once `get_challenges` has returned** (no lookups/CTLs):
the only panics of the single-table verifier are those of `get_challenges` (which include
`recover_degree_bits`, F-C18-3) and the set-up of the consumer at ζ. `_partial`: MISSING are AIRs
with lookups/CTLs (see `verifyWithChallenges_never_panics_partial`) and a characterisation of when
`get_challenges` itself returns. -/
theorem verify_never_panics_partial (a : Air) (c : Config) (pp : ProofWithPis) (pad : Option PadParams)
    (ch : Challenges) (db : Nat) (fp : Fri.FriParams)
    (hl : a.lookups = []) (hctl : a.requiresCtls = false)
    (hch : getChallenges a c pp pad = .ok ch)
    (hdb : recoverDegreeBits pp.proof c = .ok db) (hfp : c.friParams db = some fp)
    (hsmall : db + c.fri.rateBits < 64)
    (hcons : ∃ s, consumerAt ch.alphas db ch.zeta = .ok s) :
    ∀ t, Stark.verify a c pp pad ≠ .panic t := by
  intro t
  unfold Stark.verify
  split
  · simp
  · simp only [hch]
    obtain ⟨db', hdb', hal, hb, hi⟩ := getChallenges_shapes a c pp pad ch hch
    rw [hdb] at hdb'; cases hdb'
    rw [Nat.mod_eq_of_lt hsmall] at hi
    exact verifyWithChallenges_never_panics_partial a c pp ch db fp hl hctl hdb hfp hcons hal hb hi t

/-! ### witnesses -/

/-- F-C18-3: no query round -/
example : Stark.verify tinyAir tinyCfg
    { tinyProof with proof := { tinyProof.proof with openingProof := { tinyFri with queries := [] } } } none
    = .panic "query_round_proofs[0]" :=
  verify_panics_of_recoverDegreeBits_error _ _ _ _ _ (by decide) rfl
/-- F-C18-3: a query round without initial-tree openings -/
example : Stark.verify tinyAir tinyCfg
    { tinyProof with proof := { tinyProof.proof with openingProof := { tinyFri with queries := [⟨[], []⟩] } } } none
    = .panic "evals_proofs[0]" :=
  verify_panics_of_recoverDegreeBits_error _ _ _ _ _ (by decide) rfl
/-- ζ = 1 makes `eval_l_0_and_l_last` invert zero -/
example : verifyWithChallenges tinyAir tinyCfg tinyProof { tinyCh with zeta := ⟨1, 0⟩ } none
    = .panic "batch_multiplicative_inverse of zero" := by decide +kernel
def tinyProof0 : ProofWithPis :=
  ⟨⟨[[0,0,0,0]], none, none, { tinyOpenings with quotientPolys := some [] }, { tinyFri with queries := [⟨[([0], [])], []⟩] }⟩, [3]⟩
/-- the former `chunks(0)` witness (`constraint_degree = 0`, `quotient_polys = Some([])`, no quotient
cap): since the repair it is rejected by shape validation -/
example : verifyWithChallenges { tinyAir with degree := 0 } tinyCfg tinyProof0 tinyCh none
    = .reject "shape" := by decide +kernel
/-- … and the honest shape for that AIR (no quotient openings at all) passes shape validation -/
example : validateShape { tinyAir with degree := 0 } tinyCfg
    { tinyProof0 with proof := { tinyProof0.proof with openings := { tinyOpenings with quotientPolys := none } } }
    0 0 0 = .accept := by decide +kernel

theorem tiny_consumer : ∃ s, consumerAt tinyCh.alphas 0 tinyCh.zeta = .ok s := by
  have h : (match consumerAt tinyCh.alphas 0 tinyCh.zeta with | .ok _ => true | .error _ => false) = true := by
    decide +kernel
  split at h
  · exact ⟨_, ‹_›⟩
  · cases h
/-- non-vacuity of `verifyWithChallenges_never_panics_partial` -/
example : ∀ t, verifyWithChallenges tinyAir tinyCfg tinyProof tinyCh none ≠ .panic t :=
  verifyWithChallenges_never_panics_partial tinyAir tinyCfg tinyProof tinyCh 0 ⟨tinyCfg.fri, false, 0, []⟩ rfl rfl
    rfl rfl tiny_consumer (by decide) (by decide) (by decide)

end P2.Props.C09
