/-
C09: decision logic of the STARK verifier model (`P2/Model/Stark.lean`) and the meaning of
"the trace satisfies the constraints" (`P2/Model/Air.lean`).
-/
import P2.Model.Stark
namespace P2.Props.C09
open P2 P2.Air P2.Stark
open P2.Fri (Verdict firstBad)

section consumer
variable {K : Type} [FOps K]

theorem zip_map_accs (alphas : List K) (f : K → K) (c : K) :
    ((alphas.zip (alphas.map f)).map fun (p : K × K) => p.2 * p.1 + c) = alphas.map fun α => f α * α + c := by
  induction alphas with
  | nil => rfl
  | cons a as ih => simp only [List.map_cons, List.zip_cons_cons, ih]

theorem constraint_map (alphas : List K) (zLast l0 lLast : K) (f : K → K) (c : K) :
    (Consumer.constraint ⟨alphas, alphas.map f, zLast, l0, lLast⟩ c : Consumer K)
      = ⟨alphas, alphas.map (fun α => f α * α + c), zLast, l0, lLast⟩ := by
  simp only [Consumer.constraint, Consumer.mk.injEq, true_and, and_true]
  exact zip_map_accs alphas f c

/-- **The constraint consumer is one Horner accumulator per challenge.** After the constraints `cs`
have been handed to a fresh consumer, the accumulator of challenge `α` is
`(((0·α + c₀)·α + c₁)·α + …)`, i.e. `Σ cᵢ·α^(n-1-i)`: every constraint value enters the combination,
each with its own power of `α`. -/
theorem consumer_accs (alphas : List K) (zLast l0 lLast : K) (cs : List K) (accs₀ : List K)
    (f : K → K) (h₀ : accs₀ = alphas.map f) :
    (cs.foldl Consumer.constraint ⟨alphas, accs₀, zLast, l0, lLast⟩).accs
      = alphas.map fun α => cs.foldl (fun acc c => acc * α + c) (f α) := by
  subst h₀
  induction cs generalizing f with
  | nil => rfl
  | cons c cs ih =>
    simp only [List.foldl_cons]
    rw [constraint_map]
    exact ih (fun α => f α * α + c)

theorem consumer_new_accs (alphas : List K) (zLast l0 lLast : K) (cs : List K) :
    (cs.foldl Consumer.constraint (Consumer.new alphas zLast l0 lLast)).accs
      = alphas.map fun α => cs.foldl (fun acc c => acc * α + c) FOps.zero :=
  consumer_accs alphas zLast l0 lLast cs _ (fun _ => FOps.zero) rfl

/-- the three filtered forms are the unfiltered one applied to the filtered value -/
theorem emit_eq (s : Consumer K) (k : Kind) (c : K) :
    s.emit k c = s.constraint (match k with
      | .first => c * s.lagrangeFirst | .last => c * s.lagrangeLast
      | .transition => c * s.zLast | .all => c) := by
  cases k <;> rfl
end consumer

/-- **Meaning of "the trace satisfies the AIR"**: no violation is found iff on every row every
constraint whose kind is active on that row evaluates to zero (next row taken cyclically;
transition constraints skip the wrap-around row). -/
theorem satisfied_iff (a : Air) (rows : Array (Array GL)) (pis : Array GL) :
    a.satisfied rows pis = true ↔
      ∀ r, r < rows.size → ∀ ke ∈ a.constraints,
        ke.1.activeAt r rows.size = true →
          (ke.2.eval (rows.getD r #[]) (rows.getD ((r + 1) % rows.size) #[]) pis : GL) = 0 := by
  unfold Air.satisfied Air.firstViolation
  simp only [Option.isNone_iff_eq_none, List.findSome?_eq_none_iff, List.mem_range]
  constructor
  · intro h r hr ke hke hact
    have h1 := h r hr
    obtain ⟨i, hi⟩ := List.mem_iff_getElem.mp hke
    obtain ⟨hi1, hi2⟩ := hi
    have hmem : (ke, i) ∈ a.constraints.zipIdx := by
      rw [List.mem_zipIdx_iff_getElem?]
      simp [hi2.symm, hi1]
    have h2 := h1 (ke, i) hmem
    simp only [hact, Bool.true_and] at h2
    by_cases hz : (ke.2.eval (rows.getD r #[]) (rows.getD ((r + 1) % rows.size) #[]) pis : GL) = 0
    · exact hz
    · have : (!(ke.2.eval (rows.getD r #[]) (rows.getD ((r + 1) % rows.size) #[]) pis == (0 : GL))) = true := by
        simpa using hz
      rw [if_pos this] at h2
      cases h2
  · intro h r hr kei hmem
    obtain ⟨ke, i⟩ := kei
    have hke : ke ∈ a.constraints := by
      rw [List.mem_zipIdx_iff_getElem?] at hmem
      exact List.mem_of_getElem? hmem
    by_cases hact : ke.1.activeAt r rows.size = true
    · have := h r hr ke hke hact
      simp only [this, beq_self_eq_true, Bool.not_true, Bool.and_false, Bool.false_eq_true, if_false]
    · simp only [hact, Bool.false_and, Bool.false_eq_true, if_false]

/-- a proof with the wrong number of public inputs is rejected before anything else is looked at -/
theorem wrong_public_input_count_rejected (a : Air) (c : Config) (pp : ProofWithPis) (pad : Option PadParams)
    (h : pp.publicInputs.length ≠ a.pis) : verify a c pp pad = .reject "shape" := by
  unfold verify; simp [h]

theorem firstBad_accept_iff (vs : List Verdict) : firstBad vs = .accept ↔ ∀ v ∈ vs, v = .accept := by
  induction vs with
  | nil => simp [firstBad]
  | cons w ws ih =>
    cases w with
    | accept => simp [firstBad, ih]
    | reject s => simp [firstBad]
    | panic s => simp [firstBad]

theorem ensure_accept_iff (b : Bool) : ensure b = .accept ↔ b = true := by
  cases b <;> simp [ensure]

/-- **F-C09-2 as repaired**: a proof that omits the quotient commitment of an AIR that has quotient
polynomials fails shape validation (whatever else it contains), and so does one that carries a
quotient commitment for an AIR without quotient polynomials. -/
theorem quotient_cap_presence_enforced (a : Air) (c : Config) (pp : ProofWithPis) (db nh nz : Nat)
    (h : pp.proof.quotientCap.isSome ≠ decide (0 < numQuotientPolys a c)) :
    validateShape a c pp db nh nz ≠ .accept := by
  unfold validateShape
  intro hacc
  split at hacc
  · cases hacc
  · split at hacc
    · cases hacc
    · simp only [] at hacc
      split at hacc
      · cases hacc
      · rw [firstBad_accept_iff] at hacc
        have h2 := hacc _ (List.mem_append_left _ (List.mem_cons_of_mem _ List.mem_cons_self))
        cases hq : pp.proof.quotientCap with
        | none =>
          simp only [hq, Option.isSome_none, quotientCapMustMatch, if_true, ensure_accept_iff,
            beq_iff_eq] at h h2
          apply h; simp [h2]
        | some q =>
          simp only [hq, Option.isSome_some, quotientCapMustMatch, Bool.true_and] at h h2
          split at h2
          · cases h2
          · rename_i hn
            apply h
            simp only [beq_iff_eq] at hn
            simp; omega

/-- non-vacuity: the Fibonacci AIR on a 4-row trace -/
def fibAir : Air :=
  { cols := 2, pis := 3, degree := 2, requiresCtls := false, lookups := [],
    constraints := [(.first, .sub (.loc 0) (.pub 0)), (.first, .sub (.loc 1) (.pub 1)),
      (.last, .sub (.loc 1) (.pub 2)),
      (.transition, .sub (.nxt 0) (.loc 1)), (.transition, .sub (.nxt 1) (.add (.loc 0) (.loc 1)))] }

example : fibAir.satisfied #[#[0, 1], #[1, 1], #[1, 2], #[2, 3]] #[0, 1, 3] = true := by decide
example : fibAir.satisfied #[#[0, 1], #[1, 1], #[1, 3], #[2, 3]] #[0, 1, 3] = false := by decide

end P2.Props.C09
