/-
C18b: SHAPE VALIDATION EXCLUDES EVERY PANIC OF THE FRI VERIFIER.

`Fri.verify` (the model of `verify_fri_proof`) makes every out-of-bounds index / `usize` underflow
of the Rust code an explicit `.panic`:
  `validateShape` ("codeword_len_bits underflow", "final_poly_bits underflow"),
  `initialChecks` / `stepsFrom` ("cap index out of range" from `Merkle.verifyToCap`),
  `queryRound` ("fri_combine_initial index" from `combineInitial = none`),
  `stepsFrom` ("steps index", "evals index", "betas index", "commit cap index").
The theorems below show that none of them is reachable: everything about the attacker-controlled
`proof` is obtained from `Fri.validateShape proof inst p = .accept` (which `Fri.verify` checks
first); the hypotheses only speak about verifier-side data (parameters, instance, challenges, the
initial caps).  No FINDING: every panic point of the model is excluded (the earlier finding F-C18-5,
the missing commit-cap count check, is the first line of `validateShape` now and is what makes
`betas[i]` / `commit_phase_merkle_caps[i]` safe).

Helper lemmas (and the loop-free restatement `validateShapeP` with `validateShape_eq`) are in
`P2/Lemmas/FriShape.lean`.
-/
import P2.Lemmas.FriShape
import P2.Props.C18
namespace P2.Props.C18b
open P2 P2.Fri P2.Lemmas.FriShape

/-! ### shape validation of the FRI proof -/

/-- `validate_fri_proof_shape` never panics (no `codeword_len_bits -= arity_bits` underflow, no
`degree_bits - total_arities` underflow in `final_poly_len`) once `totalArities ≤ degreeBits`
(enforced at circuit-build time, F-C01-1 repair). -/
theorem fri_validateShape_never_panics (proof : Fri.Proof) (inst : Fri.Instance) (p : Fri.FriParams)
    (h_arity : p.totalArities ≤ p.degreeBits) :
    ∀ s, Fri.validateShape proof inst p ≠ .panic s := by
  intro s
  rw [validateShape_eq]
  exact validateShapeP_never_panics proof inst p h_arity s

/-- what an accepting `validate_fri_proof_shape` establishes about the (attacker-controlled) proof -/
theorem fri_validateShape_accept_facts (proof : Fri.Proof) (inst : Fri.Instance) (p : Fri.FriParams)
    (h : Fri.validateShape proof inst p = .accept) :
    proof.commitCaps.length = p.arityBits.length ∧
    (∀ cap ∈ proof.commitCaps, cap.length = 2 ^ p.config.capHeight) ∧
    (∀ q ∈ proof.queries,
      q.initial.length = inst.oracles.length ∧
      (∀ x ∈ q.initial.zip inst.oracles,
        x.1.1.length = x.2.numPolys + saltSize (x.2.blinding && p.isHiding) ∧
        x.1.2.length + p.config.capHeight = p.ldeBits) ∧
      q.steps.length = p.arityBits.length ∧
      stepsV p q.steps p.arityBits p.ldeBits = none) := by
  rw [validateShape_eq] at h
  obtain ⟨h1, h2, h3⟩ := validateShapeP_accept proof inst p h
  exact ⟨h1, h2, fun q hq => ⟨(h3 q hq).initLen, (h3 q hq).init, (h3 q hq).stepsLen, (h3 q hq).steps⟩⟩

/-! ### the FRI verifier -/

/-- **`verify_fri_proof` never panics.**  Hypotheses (verifier-side data only):
* `h_arity` — `total_arities ≤ degree_bits`: enforced when the circuit is built (F-C01-1 repair);
  excludes both the `codeword_len_bits` and the `final_poly_bits` underflow;
* `h_betas` — one β per commit-phase cap: `Challenger::fri_challenges` maps over
  `commit_phase_merkle_caps` (proved for `Plonk.getChallenges`: `getChallenges_betas_length`);
* `h_idx` — query indices are drawn `% lde_size` (proved for `Plonk.getChallenges`:
  `getChallenges_queryIndices_lt`);
* `h_caps` — every initial cap has `2^cap_height` entries: verifier data + the PLONK-layer
  `capCheck`s (proved for `Plonk.verify`: `plonk_shape_caps`);
* `h_inst` — the FRI instance only refers to existing oracles / polynomial indices (proved for
  `Plonk.friInstance`: `friInstance_wf`).
Not needed (the code `zip`s): `initialCaps.length = inst.oracles.length`, and any relation
between `openings` and `inst.batches`.
Nothing is assumed about `proof.queries`, `proof.finalPoly`, `proof.commitCaps`. -/
theorem fri_verify_never_panics (inst : Fri.Instance) (openings : List (List GL2))
    (ch : Fri.Challenges) (initialCaps : List (List Merkle.Digest)) (proof : Fri.Proof)
    (p : Fri.FriParams)
    (h_arity : p.totalArities ≤ p.degreeBits)
    (h_betas : ch.betas.length = proof.commitCaps.length)
    (h_idx : ∀ xi ∈ ch.queryIndices, xi < 2 ^ p.ldeBits)
    (h_caps : ∀ cap ∈ initialCaps, cap.length = 2 ^ p.config.capHeight)
    (h_inst : InstanceWF inst = true) :
    ∀ s, Fri.verify inst openings ch initialCaps proof p ≠ .panic s := by
  intro s
  unfold Fri.verify
  cases hvs : Fri.validateShape proof inst p with
  | panic t => exact absurd hvs (fri_validateShape_never_panics proof inst p h_arity t)
  | reject t => simp
  | accept =>
    rw [validateShape_eq] at hvs
    obtain ⟨hcl, hcaps, hq⟩ := validateShapeP_accept proof inst p hvs
    simp only []
    split
    · simp
    · split
      · simp
      · apply firstBad_no_panic
        intro v hv t
        rw [List.mem_map] at hv
        obtain ⟨⟨xi, q⟩, hmem, rfl⟩ := hv
        obtain ⟨hxi, hqm⟩ := List.of_mem_zip hmem
        exact queryRound_no_panic inst ch _ initialCaps proof xi q p (hq q hqm) hcl hcaps h_betas
          (h_idx xi hxi) h_caps h_inst t

/-! ### the PLONK verifier -/

/-- well-formedness of the common circuit data (decidable): the FRI reduction schedule does not
exceed the degree (checked at build time since the repair of F-C01-1).  The cap height needs no
consistency condition: the PLONK-layer `capCheck`s and the FRI layer both use
`c.friParams.config.capHeight`. -/
def CommonWF (c : Plonk.CommonData) : Prop := c.friParams.totalArities ≤ c.friParams.degreeBits

instance (c : Plonk.CommonData) : Decidable (CommonWF c) := by unfold CommonWF; exact inferInstance

/-- the challenger draws one β per commit-phase cap -/
theorem getChallenges_betas_length (c : Plonk.CommonData) (pih cd : Merkle.Digest) (pr : Plonk.Proof) :
    (Plonk.getChallenges c pih cd pr).fri.betas.length = pr.openingProof.commitCaps.length :=
  Lemmas.FriShape.getChallenges_betas_length c pih cd pr

/-- the query indices are reduced modulo the LDE size -/
theorem getChallenges_queryIndices_lt (c : Plonk.CommonData) (pih cd : Merkle.Digest) (pr : Plonk.Proof) :
    ∀ xi ∈ (Plonk.getChallenges c pih cd pr).fri.queryIndices, xi < 2 ^ c.friParams.ldeBits :=
  Lemmas.FriShape.getChallenges_queryIndices_lt c pih cd pr

/-- `get_fri_instance` is well-formed for every common data and every ζ -/
theorem friInstance_wf (c : Plonk.CommonData) (zeta : GL2) :
    InstanceWF (Plonk.friInstance c zeta) = true :=
  Lemmas.FriShape.friInstance_wf c zeta

/-- **`verify` (PLONK) never panics** on any proof value, for well-formed common data and a
verifier-data cap of the right length.  (`identityHolds` has no panic verdict: its index misses are
totalised to `false`, i.e. to the clean rejection "identity" — nothing to prove there.) -/
theorem plonk_verify_never_panics (c : Plonk.CommonData) (vd : Plonk.VerifierOnly)
    (pp : Plonk.ProofWithPis)
    (hc : CommonWF c)
    (hvd : vd.constantsSigmasCap.length = 2 ^ c.friParams.config.capHeight) :
    ∀ s, Plonk.verify c vd pp ≠ .panic s := by
  intro s
  unfold Plonk.verify
  cases hvs : Plonk.validateShape c pp with
  | panic t => exact absurd hvs (C18.validateShape_never_panics c pp t)
  | reject t => simp
  | accept =>
    simp only []
    unfold Plonk.verifyWithChallenges
    split
    · simp
    · obtain ⟨h1, h2, h3⟩ := plonk_shape_caps c pp hvs
      apply fri_verify_never_panics _ _ _ _ _ _ hc (getChallenges_betas_length _ _ _ _)
        (getChallenges_queryIndices_lt _ _ _ _) _ (friInstance_wf _ _)
      intro cap hcap
      simp only [List.mem_cons, List.not_mem_nil, or_false] at hcap
      rcases hcap with rfl | rfl | rfl | rfl <;> assumption

/-! ### non-vacuity -/

/-- trivial parameters: no reduction step, no query -/
def p0 : Fri.FriParams :=
  { config := { rateBits := 1, capHeight := 0, powBits := 0, strategy := .fixed [], numQueryRounds := 0 },
    isHiding := false, degreeBits := 1, arityBits := [] }

def inst0 : Fri.Instance := { oracles := [⟨1, false⟩], batches := [⟨FOps.zero, [⟨0, 0⟩]⟩] }
def ch0 : Fri.Challenges := { alpha := FOps.zero, betas := [], powResponse := 0, queryIndices := [] }
def proof0 : Fri.Proof :=
  { commitCaps := [], queries := [], finalPoly := [FOps.zero, FOps.zero], powWitness := 0 }

/-- the hypotheses of `fri_verify_never_panics` are satisfiable, and on this instance the shape
validation accepts -/
example :
    p0.totalArities ≤ p0.degreeBits ∧ ch0.betas.length = proof0.commitCaps.length ∧
    (∀ xi ∈ ch0.queryIndices, xi < 2 ^ p0.ldeBits) ∧
    (∀ cap ∈ [[([] : Merkle.Digest)]], cap.length = 2 ^ p0.config.capHeight) ∧
    InstanceWF inst0 = true ∧ Fri.validateShape proof0 inst0 p0 = .accept := by
  refine ⟨by decide, by decide, by decide, by decide, by decide, by rfl⟩

/-- one reduction step of arity 2, one query round with index 3 (`ldeBits = 2`): the query passes
shape validation, so the theorem says the later stages (Merkle, combine, fold) cannot panic on it -/
def p1 : Fri.FriParams :=
  { config := { rateBits := 1, capHeight := 0, powBits := 0, strategy := .fixed [1], numQueryRounds := 1 },
    isHiding := false, degreeBits := 1, arityBits := [1] }
def ch1 : Fri.Challenges := { alpha := FOps.zero, betas := [FOps.one], powResponse := 0, queryIndices := [3] }
def proof1 : Fri.Proof :=
  { commitCaps := [[[]]],
    queries := [{ initial := [([0], [[], []])], steps := [⟨[FOps.zero, FOps.zero], [[]]⟩] }],
    finalPoly := [FOps.zero], powWitness := 0 }

example :
    p1.totalArities ≤ p1.degreeBits ∧ ch1.betas.length = proof1.commitCaps.length ∧
    (∀ xi ∈ ch1.queryIndices, xi < 2 ^ p1.ldeBits) ∧
    (∀ cap ∈ [[([] : Merkle.Digest)]], cap.length = 2 ^ p1.config.capHeight) ∧
    InstanceWF inst0 = true ∧ Fri.validateShape proof1 inst0 p1 = .accept := by
  refine ⟨by decide, by decide, by decide, by decide, by decide, by rfl⟩

example : ∀ s, Fri.verify inst0 [[FOps.zero]] ch1 [[[]]] proof1 p1 ≠ .panic s :=
  fri_verify_never_panics _ _ _ _ _ _ (by decide) (by decide) (by decide) (by decide) (by decide)

/-! ### sharpness: every hypothesis is needed (the panic points of the model are live)

Each witness violates exactly one hypothesis of `fri_verify_never_panics` and drives the model
into the corresponding panic.  None of them is a finding about the real verifier: the violated
hypothesis is guaranteed there by the code cited in the theorem's doc comment. -/

def instE : Fri.Instance := { oracles := [], batches := [] }
def q1 : Fri.QueryRound := { initial := [], steps := [⟨[FOps.zero, FOps.zero], [[]]⟩] }
def proof2 : Fri.Proof := { commitCaps := [[[]]], queries := [q1], finalPoly := [FOps.zero], powWitness := 0 }

/-- without `h_betas` (no β for the commit-phase cap): `challenges.fri_betas[i]` -/
example : Fri.verify instE [] { ch1 with betas := [] } [] proof2 p1 = .panic "betas index" := by rfl

/-- without `h_idx` (index 4 ≥ lde_size 4): `merkle_cap.0[index]` in the initial Merkle check -/
example : Fri.verify inst0 [[FOps.zero]] { ch1 with queryIndices := [4] } [[[]]] proof1 p1 =
    .panic "cap index out of range" := by rfl

/-- without `h_caps` (an empty initial cap): `merkle_cap.0[index]` -/
example : Fri.verify inst0 [[FOps.zero]] ch1 [[]] proof1 p1 = .panic "cap index out of range" := by rfl

/-- without `h_inst` (a batch polynomial referring to a non-existent oracle): `instance.oracles[..]` -/
example : Fri.verify { oracles := [], batches := [⟨FOps.zero, [⟨0, 0⟩]⟩] } [[FOps.zero]] ch1 [] proof2 p1 =
    .panic "fri_combine_initial index" := by rfl

/-- without `h_arity` (`total_arities = 3 > degree_bits = 1`, and `> lde_bits = 2`) -/
example : Fri.verify instE [] ch1 [] proof2 { p1 with arityBits := [3] } =
    .panic "codeword_len_bits underflow" := by rfl
example : Fri.verify instE [] ch1 [] { proof2 with queries := [] } { p1 with arityBits := [3] } =
    .panic "final_poly_bits underflow" := by rfl

end P2.Props.C18b
