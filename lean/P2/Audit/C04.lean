import P2.Props.C04
import P2.Props.C04b
#print axioms P2.Props.C04.observed_append
#print axioms P2.Props.C04.plonk_schedule_observes
#print axioms P2.Props.C04.fri_schedule_observes
#print axioms P2.Props.C04.fri_params_observed
#print axioms P2.Props.C04.run_eq_runState
#print axioms P2.Props.C04.runState_append
#print axioms P2.Props.C04.run_append
#print axioms P2.Props.C04.run_prefix
#print axioms P2.Props.C04.run_length
#print axioms P2.Props.C04.run_congr_prefix
#print axioms P2.Props.C04.duplexing_inj
#print axioms P2.Props.C04.duplexing_differs
#print axioms P2.Props.C04.state_dependence
#print axioms P2.Props.C04.state_dependence_boundary
#print axioms P2.Props.C04.single_block_state
#print axioms P2.Props.C04.state_dependence_single_block
#print axioms P2.Props.C04.history_state_dependence
#print axioms P2.Props.C04.challenges_explicit
#print axioms P2.Props.C04.challenges_from_state
#print axioms P2.Props.C04.plonk_observed_inj
#print axioms P2.Props.C04.wires_cap_changes_transcript
#print axioms P2.Props.C04.statement_or_cap_changes_transcript
#print axioms P2.Props.C04.fri_observed_inj
