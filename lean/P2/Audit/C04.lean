import P2.Props.C04
#print axioms P2.Props.C04.observed_append
#print axioms P2.Props.C04.plonk_schedule_observes
#print axioms P2.Props.C04.fri_schedule_observes
#print axioms P2.Props.C04.fri_params_observed
