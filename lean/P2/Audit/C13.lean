import P2.Props.C13Gen
import P2.Props.C13
#print axioms P2.Props.C13Gen.table_shapes
#print axioms P2.Props.C13Gen.round_constants_canonical
#print axioms P2.Props.C13Gen.fast_partial_round_constants_canonical
#print axioms P2.Props.C13Gen.fast_tables_canonical
#print axioms P2.Props.C13Gen.mds_entries_small
#print axioms P2.Props.C13Gen.freq_blocks_match_circulant_on_basis
#print axioms P2.Props.C13.mdsMultiplyFreq_eq_circulant
#print axioms P2.Props.C13.mdsMultiplyFreq_eq_circulant_array
#print axioms P2.Props.C13.mdsMultiplyFreq_explicit
#print axioms P2.Props.C13.mdsMultiplyFreq_range
#print axioms P2.Props.C13.mdsMultiplyFreq_range_array
#print axioms P2.Props.C13.mdsLayer_spec
#print axioms P2.Props.C13.mdsLayer_spec_diag
#print axioms P2.Props.C13.sbox_spec
#print axioms P2.Props.C13.constantLayer_spec
#print axioms P2.Props.C13.run_eq_rRun
#print axioms P2.Props.C13.observeMany_append
#print axioms P2.Props.C13.sbox_bijective
