import P2.Props.C13Gen
open P2.Props.C13Gen
#print axioms table_shapes
#print axioms round_constants_canonical
#print axioms fast_partial_round_constants_canonical
#print axioms fast_tables_canonical
#print axioms mds_entries_small
#print axioms freq_blocks_match_circulant_on_basis
