import P2.Props.C18
import P2.Props.C18b
#print axioms P2.Props.C18.validateShape_never_panics
#print axioms P2.Props.C18.bad_shape_is_clean_error
#print axioms P2.Props.C18.firstBad_not_panic
#print axioms P2.Props.C18b.fri_validateShape_never_panics
#print axioms P2.Props.C18b.fri_validateShape_accept_facts
#print axioms P2.Props.C18b.fri_verify_never_panics
#print axioms P2.Props.C18b.getChallenges_betas_length
#print axioms P2.Props.C18b.getChallenges_queryIndices_lt
#print axioms P2.Props.C18b.friInstance_wf
#print axioms P2.Props.C18b.plonk_verify_never_panics
#print axioms P2.Lemmas.FriShape.validateShape_eq
