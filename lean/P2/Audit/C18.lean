import P2.Props.C18
#print axioms P2.Props.C18.validateShape_never_panics
#print axioms P2.Props.C18.bad_shape_is_clean_error
#print axioms P2.Props.C18.firstBad_not_panic
