import P2.Props.C05
open P2.Props.C05
#print axioms firstBad_accept_iff
#print axioms firstBad_mem
#print axioms verify_accept_iff
#print axioms bad_pow_rejected
#print axioms queryRound_accept
#print axioms stepsFrom_accept_cons
#print axioms stepsFrom_nil
#print axioms constantArityBits_spec
