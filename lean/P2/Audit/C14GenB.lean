import P2.Props.C14GenB
#print axioms P2.Props.C14GenB.ext_pow2_gen_orders
