import P2.Props.C07
#print axioms P2.Props.C07.arithmetic_count
#print axioms P2.Props.C07.constant_count
#print axioms P2.Props.C07.baseSum_count
