import P2.Props.C03
import P2.Props.C07b
import P2.Props.C02b
#print axioms P2.Props.C03.verify_accept_iff
#print axioms P2.Props.C07.replace_pins_sub
#print axioms P2.Props.C07.arithmetic_pinned
#print axioms P2.Props.C07.arithmetic_sat_iff
#print axioms P2.Props.C07.count_all
#print axioms P2.Props.C02.computeFilter_eq_zero_iff
#print axioms P2.Props.C02.computeFilter_self_ne_zero
#print axioms P2.Props.C02.filters_disjoint
#print axioms P2.Props.C02.filter_unused_eq_zero
#print axioms P2.Props.C02.computeFilter_unused_single_partial
#print axioms P2.Props.C02.hinj_of_charZero
#print axioms P2.Props.C02.hinj_of_charP
#print axioms P2.Props.C02.reduceWithPowers_eq_sum
#print axioms P2.Props.C02.reduceWithPowers_eq_sum_range
#print axioms P2.Props.C02.reduceWithPowers_eq_eval
#print axioms P2.Props.C02.reduceWithPowers_zeros_card
#print axioms P2.Props.C02.reduceWithPowers_zero_set
#print axioms P2.Props.C02.terms_zero_of_many_zeros
#print axioms P2.Props.C02.checkPartialProducts_all_zero_iff
#print axioms P2.Props.C02.chunksOf_spec
#print axioms P2.Props.C02.checkPartialProducts_sound
#print axioms P2.Props.C02.checkPartialProducts_sound_prefix
#print axioms P2.Props.C02.checkPartialProducts_sound_div
#print axioms P2.Props.C02.checkPartialProducts_complete
#print axioms P2.Props.C02.evalL0_root
#print axioms P2.Props.C02.evalL0_mul
#print axioms P2.Props.C02.evalL0_of_pow_eq_one
#print axioms P2.Props.C02.evalL0_one
