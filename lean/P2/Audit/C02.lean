import P2.Props.C03
import P2.Props.C07b
/- C02 first increment: acceptance forces the quotient identity for the recomputed challenges
(C03.verify_accept_iff) and a gate output changed alone makes its gate constraint non-zero (C07). -/
#print axioms P2.Props.C03.verify_accept_iff
#print axioms P2.Props.C07.replace_pins_sub
#print axioms P2.Props.C07.arithmetic_pinned
#print axioms P2.Props.C07.arithmetic_sat_iff
#print axioms P2.Props.C07.count_all
