import P2.Props.C14Gen
open P2.Props.C14Gen
#print axioms order_tie
#print axioms epsilon_tie
#print axioms order_shape
#print axioms two_adicity
#print axioms generators_tie
#print axioms pow2_generator_order
#print axioms pow2_generator_from_mult
#print axioms mult_generator_generates
#print axioms ext_params_tie
#print axioms dth_roots
#print axioms binomial_criteria
#print axioms batch_width
