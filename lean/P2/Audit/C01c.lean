import P2.Props.C01c
#print axioms P2.Props.C01c.bitsVal_append
#print axioms P2.Props.C01c.gateOut_eq
#print axioms P2.Props.C01c.sqN_eq
#print axioms P2.Props.C01c.single_eq
#print axioms P2.Props.C01c.chunkLoop_eq
#print axioms P2.Props.C01c.expFromBits_eq
#print axioms P2.Props.C01c.constBase_eq
#print axioms P2.Props.C01c.bitsVal_bitsOf
#print axioms P2.Props.C01c.expU64_eq
