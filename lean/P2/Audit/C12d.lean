import P2.Props.C12d
#print axioms P2.Props.C12d.shape_of
#print axioms P2.Props.C12d.stage_facts
#print axioms P2.Props.C12d.later_spec
#print axioms P2.Props.C12d.batchOpen_eq
#print axioms P2.Props.C12d.openStep_honest
#print axioms P2.Props.C12d.tail_spec
#print axioms P2.Props.C12d.checkShape_ok
#print axioms P2.Props.C12d.rows_exist
#print axioms P2.Props.C12d.batch_complete
#print axioms P2.Props.C12d.batch_complete_list
#print axioms P2.Props.C12d.vals_pointwise
