import P2.Props.C03
import P2.Props.C01
/- C08 first increment: the verifier's decision logic (lookup terms are part of the vanishing
polynomial whose identity acceptance forces) and the reference semantics of lookups in evalProg. -/
#print axioms P2.Props.C03.verify_accept_iff
#print axioms P2.Props.C01.evalFrom_append
