import P2.Props.C03
import P2.Props.C01
import P2.Props.C08b
#print axioms P2.Props.C03.verify_accept_iff
#print axioms P2.Props.C01.evalFrom_append
#print axioms P2.Props.C08.logup_polynomial_form
#print axioms P2.Props.C08.logup_polynomial_form_weights
#print axioms P2.Props.C08.logup_polynomial_form_nat
#print axioms P2.Props.C08.natCast_inj_below_char
#print axioms P2.Props.C08.logup_nat_false_without_char
#print axioms P2.Props.C08.logup_rational_form
#print axioms P2.Props.C08.logup_rational_weights
#print axioms P2.Props.C08.logup_multiset
#print axioms P2.Props.C08.logup_multiset_of_evals
#print axioms P2.Props.C08.logup_soundness
#print axioms P2.Props.C08.re_polynomial
#print axioms P2.Props.C08.re_polynomial_soundness
#print axioms P2.Props.C08.pair_binding
#print axioms P2.Props.C08.re_polynomial_binds_table
#print axioms P2.Props.C08.sum_telescope
#print axioms P2.Props.C08.sldc_step
