import P2.Props.C20
import P2.Props.C06
#print axioms P2.Props.C20.select_struct
#print axioms P2.Props.C20.conditional_verifies_selected
#print axioms P2.Props.C20.check_cyclic_vd_iff
#print axioms P2.Props.C20.altered_embedded_vd_rejected
#print axioms P2.Props.C06.select_denotes
