import P2.Props.C16a
#print axioms P2.Props.C16.merkle_roundtrip_node
#print axioms P2.Props.C16.merkle_roundtrip
#print axioms P2.Props.C16.merkle_roundtrip_nodup
