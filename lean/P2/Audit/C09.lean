import P2.Props.C09
#print axioms P2.Props.C09.consumer_accs
#print axioms P2.Props.C09.consumer_new_accs
#print axioms P2.Props.C09.emit_eq
#print axioms P2.Props.C09.satisfied_iff
#print axioms P2.Props.C09.wrong_public_input_count_rejected
#print axioms P2.Props.C09.quotient_cap_presence_enforced
