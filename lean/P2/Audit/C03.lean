import P2.Props.C03
#print axioms P2.Props.C03.verify_accept_iff
#print axioms P2.Props.C03.shape_accept_lengths
#print axioms P2.Props.C03.wires_surgery_rejected
#print axioms P2.Props.C03.accepted_queries_open_vd_cap
