/-
Axiom audit for `P2.Props.GL2Inst`: every theorem of the file.
Allowed: propext, Classical.choice, Quot.sound.
-/
import P2.Props.GL2Inst

#print axioms P2.Props.GL2Inst.lagrangeEval_fold_identity_pow2
#print axioms P2.Props.GL2Inst.lagrangeEval_fold_layer_complete
#print axioms P2.Props.GL2Inst.computeEvaluation_fold
#print axioms P2.Props.GL2Inst.computeEvaluation_fold_coeffs
#print axioms P2.Props.GL2Inst.combine_identity_lists
#print axioms P2.Props.GL2Inst.combine_soundness
#print axioms P2.Props.GL2Inst.combine_soundness_quotient
#print axioms P2.Props.GL2Inst.helper_pair_constraint_iff
#print axioms P2.Props.GL2Inst.helper_pair_iff
#print axioms P2.Props.GL2Inst.running_constraint_iff
#print axioms P2.Props.GL2Inst.running_sum_telescopes
#print axioms P2.Props.GL2Inst.logup_running_sum
#print axioms P2.Props.GL2Inst.checkPartialProducts_sound
#print axioms P2.Props.GL2Inst.checkPartialProducts_complete
#print axioms P2.Props.GL2Inst.computeFilter_eq_zero_iff
#print axioms P2.Props.GL2Inst.filters_disjoint
#print axioms P2.Props.GL2Inst.arithmetic_sat_iff
#print axioms P2.Props.GL2Inst.baseSum_sat_unique
#print axioms P2.Props.GL2Inst.baseSum_pinned_sat
#print axioms P2.Props.GL2Inst.exponentiation_semantics
