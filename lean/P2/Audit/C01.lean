import P2.Props.C01
import P2.Props.C01b
#print axioms P2.Props.C01.evalProg_eq
#print axioms P2.Props.C01.evalFrom_append
#print axioms P2.Props.C01.evalFrom_size
#print axioms P2.Props.C01.operand_consistent_iff
#print axioms P2.Props.C01.arithmetic_special_cases_denote
#print axioms P2.Props.C01.vanishing_complete
