import P2.Props.C01
#print axioms P2.Props.C01.evalProg_eq
#print axioms P2.Props.C01.evalFrom_append
#print axioms P2.Props.C01.evalFrom_size
