import P2.Props.C15Gen
open P2.Props.C15Gen
#print axioms table_is_bitrev6
#print axioms srcSmall_eq_bitrev
#print axioms thresholds
#print axioms chunkedMap_eq_bitrev_small
