import P2.Props.C15Gen
import P2.Props.C15
#print axioms P2.Props.C15Gen.table_is_bitrev6
#print axioms P2.Props.C15Gen.srcSmall_eq_bitrev
#print axioms P2.Props.C15Gen.thresholds
#print axioms P2.Props.C15Gen.chunkedMap_eq_bitrev_small
#print axioms P2.Props.C15.bitrev_lt
#print axioms P2.Props.C15.bitrev_involutive
#print axioms P2.Props.C15.bitrev_split
#print axioms P2.Props.C15.srcLarge_eq_bitrev
#print axioms P2.Props.C15.reverseIndexBits_eq_spec
#print axioms P2.Props.C15.chunkedMap_eq_bitrev
#print axioms P2.Props.C15.eval_eq_sum
#print axioms P2.Props.C15.divideByLinear_spec
#print axioms P2.Props.C15.divideByLinear_length
#print axioms P2.Props.C15.divideByLinear_coeff
#print axioms P2.Props.C15.ifft_of_dft
#print axioms P2.Props.C15.dft_of_ifft
#print axioms P2.Props.C15.ifftPost_dft
#print axioms P2.Props.C15.dft_eq_sum
#print axioms P2.Props.C15.ifft_as_stated_false
#print axioms P2.Props.C15.round_invariant
#print axioms P2.Props.C15.round_invariant_init
#print axioms P2.Props.C15.fftClassic_eq_dft_of_table
#print axioms P2.Props.C15.fftClassic_eq_dft
#print axioms P2.Props.C15.fftClassic_eq_dft_rootTable
#print axioms P2.Props.C15.fftClassic_eq_dft'
