import P2.Props.C19
#print axioms P2.Props.C19.sort_canonical
#print axioms P2.Props.C19.sort_by_key_canonical
#print axioms P2.Props.C19.neighbor_order_indep
