import P2.Props.C06
import P2.Props.C03
#print axioms P2.Props.C06.circuitPath_eq_foldPath
#print axioms P2.Props.C06.merkle_circuit_iff_native
#print axioms P2.Props.C06.pow_circuit_iff_native
#print axioms P2.Props.C06.select_denotes
#print axioms P2.Props.C03.verify_accept_iff
