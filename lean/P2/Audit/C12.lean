import P2.Props.C12
open P2.Props.C12
#print axioms foldPath_inj
#print axioms foldPath_index
#print axioms verify_binds
#print axioms other_opening_rejected
#print axioms altered_cap_rejected
