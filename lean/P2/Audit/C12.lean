import P2.Props.C12
import P2.Props.C12b
import P2.Props.C12c
#print axioms P2.Props.C12.foldPath_inj
#print axioms P2.Props.C12.foldPath_index
#print axioms P2.Props.C12.verify_binds
#print axioms P2.Props.C12.other_opening_rejected
#print axioms P2.Props.C12.altered_cap_rejected
#print axioms P2.Props.C12.fillSubtree_root
#print axioms P2.Props.C12.cap_eq_levelwise
#print axioms P2.Props.C12.prove_verifies
#print axioms P2.Props.C12.prove_siblings
#print axioms P2.Props.C12.batchFold_nil
#print axioms P2.Props.C12.verifyBatch_single
#print axioms P2.Props.C12.batchFold_inj
#print axioms P2.Props.C12.batchFold_index
#print axioms P2.Props.C12.verifyBatch_binds
#print axioms P2.Props.C12.other_batch_opening_rejected
#print axioms P2.Props.C12.altered_batch_cap_rejected
#print axioms P2.Props.C12.stage_eq
#print axioms P2.Props.C12.batchFold_prefix
#print axioms P2.Props.C12.batch_two_complete
#print axioms P2.Props.C12.embedsTwo_sponge
#print axioms P2.Props.C12.toVec_inj
#print axioms P2.Props.C12.embedsTwo_keccak
