import P2.Props.C12
import P2.Props.C12b
#print axioms P2.Props.C12.foldPath_inj
#print axioms P2.Props.C12.foldPath_index
#print axioms P2.Props.C12.verify_binds
#print axioms P2.Props.C12.other_opening_rejected
#print axioms P2.Props.C12.altered_cap_rejected
#print axioms P2.Props.C12.fillSubtree_root
#print axioms P2.Props.C12.cap_eq_levelwise
#print axioms P2.Props.C12.prove_verifies
#print axioms P2.Props.C12.prove_siblings
