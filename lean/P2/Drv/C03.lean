import P2.Drv.ParsePlonk
import P2.Drv.Util
/- C03 / C01 / C02 requests: the PLONK verifier model's verdict (with stage) on a dumped
(common data, verifier data, proof with public inputs). -/
namespace P2.Drv.C03
open P2 P2.Plonk P2.Fri P2.Drv.Parser

def showVerdict : Verdict → String
  | .accept => "ACCEPT"
  | .reject s => if s.startsWith "merkle" then "REJECT:merkle" else s!"REJECT:{s}"
  | .panic _ => "PANIC"

def pVerifyReq : Parser String := do
  let c ← pCommon
  let vd ← pVerifierOnly
  let pp ← pProofWithPis
  pure (showVerdict (verify c vd pp))

def handle (op : String) (a : List Nat) : Option String :=
  match op, a with
  | "verify", toks => some ((Parser.runAll pVerifyReq toks).getD "PARSE-ERROR")
  | _, _ => none

end P2.Drv.C03
