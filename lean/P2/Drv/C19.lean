import P2.Model.Fft
import P2.Model.Merkle
import P2.Drv.Parse
import P2.Drv.Util
/- C19 requests: deterministic key material recomputed by the model from its inputs:
the circuit digest from the preprocessed cap, and the preprocessed cap itself from the constant and
sigma polynomials (low-degree extension on the coset, bit-reversed leaves, Merkle cap). -/
namespace P2.Drv.C19
open P2 P2.Drv.Parser

def showDigests (ds : List (List GL)) : String := joinNats (ds.flatMap fun d => d.map (·.val))

/-- `circuit_digest = hash_no_pad(cap.flatten() ‖ hash_pad(domain_separator = []) ‖ [degree_bits])` -/
def pDigestReq : Parser String := do
  let cap ← list digest
  let degreeBits ← nat
  let perm := Sponge.poseidonPerm
  let domSep := Sponge.hashPad perm []
  pure (joinNats ((Sponge.hashNoPad perm (cap.flatMap id ++ domSep ++ [GL.ofNat degreeBits])).map (·.val)))

/-- `PolynomialBatch::from_coeffs(polys, rate_bits, blinding = false, cap_height)`: the cap of the
Merkle tree whose leaf `j` holds the values of all polynomials at the `bitrev(j)`-th point of the
coset `g·⟨ω⟩` of size `n·2^rate_bits` -/
def pCapReq : Parser String := do
  let rateBits ← nat
  let capHeight ← nat
  let lgN ← nat
  let polys ← list (rep (2 ^ lgN) gl)
  let lgLde := lgN + rateBits
  let table := Fft.rootTable GL.primitiveRoot lgLde
  let g := GL.multGen
  let values : List (Array GL) := polys.map fun coeffs =>
    let padded : Array GL := (coeffs.toArray ++ Array.replicate (2 ^ lgLde - coeffs.length) 0)
    let shifted := padded.mapIdx fun i x => GL.pow g i * x
    match Fft.fftClassic shifted lgLde 0 table with
    | .ok v => v
    | .panic => #[]
  let leaves : List (List GL) := (List.range (2 ^ lgLde)).map fun j =>
    values.map fun v => v[BitRev.bitrev lgLde j]!
  let (_, capO) := Merkle.build Merkle.poseidonHasher lgLde capHeight leaves
  pure (match capO.mapM id with
    | some cap => showDigests cap
    | none => "MODEL-ERR")

def handle (op : String) (a : List Nat) : Option String :=
  match op, a with
  | "digest", toks => some ((Parser.runAll pDigestReq toks).getD "PARSE-ERROR")
  | "cap", toks => some ((Parser.runAll pCapReq toks).getD "PARSE-ERROR")
  | _, _ => none

end P2.Drv.C19
