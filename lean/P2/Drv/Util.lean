/- line-protocol helpers for the driver -/
namespace P2.Drv

def words (s : String) : List String :=
  (s.trimAscii.toString.splitOn " ").filter (· ≠ "")

def natsOf (ws : List String) : Option (List Nat) := ws.mapM String.toNat?

def joinNats (xs : List Nat) : String := " ".intercalate (xs.map toString)

/-- parse "k:a,b,c" style? no — lists are written as `n x1 … xn` (length-prefixed) -/
def takeList (xs : List Nat) : Option (List Nat × List Nat) :=
  match xs with
  | [] => none
  | n :: rest => if rest.length < n then none else some (rest.take n, rest.drop n)

end P2.Drv
