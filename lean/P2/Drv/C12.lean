import P2.Model.Merkle
import P2.Model.PathCompression
import P2.Drv.Util
import P2.Drv.C12x
/- C12 requests: trees, proofs, verification verdicts with the Poseidon hasher. -/
namespace P2.Drv.C12
open P2 P2.Merkle

def glL (xs : List Nat) : List GL := xs.map GL.ofNat
def flat (ds : List Digest) : String := joinNats (ds.flatMap fun d => d.map (·.val))

def groups (xs : List Nat) (w : Nat) : List (List GL) :=
  if w = 0 then [] else (List.range (xs.length / w)).map fun i => glL ((xs.drop (i * w)).take w)

def optDigests (ds : List (Option Digest)) : Option (List Digest) := ds.mapM id

def handle (op : String) (a : List Nat) : Option String :=
  let h := poseidonHasher
  match op, a with
  | "tree", k :: capH :: w :: npos :: rest0 =>
    let positions := rest0.take npos
    let leaves := groups (rest0.drop npos) w
    if leaves.length ≠ 2 ^ k then none else
    let (digests, capO) := build h k capH leaves
    match optDigests capO with
    | none => some "MODEL-ERR"
    | some cap =>
      -- model self-check: the cap equals the textbook level-by-level cap
      if cap ≠ capOf h k capH leaves then some "CAPOF-MISMATCH" else
      let proofs := positions.map fun idx =>
        match merkleTreeProve idx (2 ^ k) k capH digests with
        | none => "PANIC"
        | some p => flat p
      some (flat cap ++ " | " ++ flat digests ++ " | " ++ " ; ".intercalate proofs)
  | "verify", w :: rest =>
    let leaf := glL (rest.take w)
    match rest.drop w with
    | idx :: capLen :: rest2 =>
      let cap := groups (rest2.take (4 * capLen)) 4
      match rest2.drop (4 * capLen) with
      | pLen :: rest3 =>
        let proof := groups (rest3.take (4 * pLen)) 4
        some (match verifyToCap h leaf idx cap proof with
          | .ok => "OK" | .err => "ERR" | .panic => "PANIC")
      | _ => none
    | _ => none
  -- Keccak hasher and batch Merkle trees: P2/Drv/C12x.lean
  | _, _ => C12x.handle op a

end P2.Drv.C12
