import P2.Drv.ParsePlonk
import P2.Model.Codec
import P2.Drv.Util
/- C17 requests: `<op> <common data dump> <nbytes> <bytes…>`; the model decodes the bytes with the
codec of `P2.Model.Codec` shaped by the common data.
  proof / cproof            → `OK <bytes consumed> SAME|DIFF` (SAME: re-encoding the decoded value gives
                              back exactly the consumed prefix) or `ERR`
  proofclass / cproofclass  → `OK` or `ERR`
  proofeq / cproofeq        → the request carries, after the bytes, the structured dump of a value
                              (`Toks::proof_with_pis` / `Toks::compressed_proof_with_pis`): `EQ` if
                              decoding the bytes gives exactly that value, `NEQ` if not, `ERR` -/
namespace P2.Drv.C17
open P2 P2.Codec P2.Codec.Codec P2.Drv.Parser

/-- decode with `rd`, re-encode with `wr`, report -/
def answer {α} (rd : Bytes → Option (α × Bytes)) (wr : α → Bytes) (full : Bool) (bs : Bytes) : String :=
  match rd bs with
  | none => "ERR"
  | some (v, rest) =>
    if !full then "OK" else
    let k := bs.length - rest.length
    let same := wr v == bs.take k
    s!"OK {k} " ++ (if same then "SAME" else "DIFF")

def pReq (compressed full : Bool) : Parser String := do
  let cd ← pCommon
  let raw ← list nat
  if raw.any (· ≥ 256) then failure
  let bs : Bytes := raw.map Nat.toUInt8
  let s := Shape.ofCommon cd
  pure <|
    if compressed then answer (readCompressedProofWithPis s) (writeCompressedProofWithPis s) full bs
    else answer (proofWithPis s).read (proofWithPis s).write full bs

/-- `Toks::compressed_fri_proof` -/
def pCompressedFriProof : Parser Compress.CompressedFriProof := do
  let caps ← list pCap
  let indices ← list nat
  let initial ← list (do
    let k ← nat
    let trees ← list (do let leaf ← list gl; let path ← list digest; pure (leaf, path))
    pure (k, trees))
  let steps ← list (list (do
    let k ← nat
    let evals ← list gl2; let path ← list digest
    pure (k, (⟨evals, path⟩ : Fri.QueryStep))))
  let fin ← list gl2
  let pw ← gl
  pure ⟨caps, ⟨indices, initial, steps⟩, fin, pw⟩

/-- `Toks::compressed_proof_with_pis` -/
def pCompressedProofWithPis : Parser CompressedProofWithPis := do
  let wc ← pCap; let zc ← pCap; let qc ← pCap
  let os ← pOpeningSet
  let fp ← pCompressedFriProof
  let pis ← list gl
  pure ⟨⟨wc, zc, qc, os, fp⟩, pis⟩

def eqAnswer {α} [DecidableEq α] (decoded : Option (α × Bytes)) (v : α) : String :=
  match decoded with
  | none => "ERR"
  | some (d, _) => if d = v then "EQ" else "NEQ"

def pEqReq (compressed : Bool) : Parser String := do
  let cd ← pCommon
  let raw ← list nat
  if raw.any (· ≥ 256) then failure
  let bs : Bytes := raw.map Nat.toUInt8
  let s := Shape.ofCommon cd
  if compressed then
    let v ← pCompressedProofWithPis
    pure (eqAnswer (readCompressedProofWithPis s bs) v)
  else
    let v ← pProofWithPis
    pure (eqAnswer ((proofWithPis s).read bs) v)

def handle (op : String) (a : List Nat) : Option String :=
  let run (c f : Bool) := some ((Parser.runAll (pReq c f) a).getD "PARSE-ERROR")
  match op with
  | "proof" => run false true
  | "proofclass" => run false false
  | "cproof" => run true true
  | "cproofclass" => run true false
  | "proofeq" => some ((Parser.runAll (pEqReq false) a).getD "PARSE-ERROR")
  | "cproofeq" => some ((Parser.runAll (pEqReq true) a).getD "PARSE-ERROR")
  | _ => none

end P2.Drv.C17
