/- gate encoding `tag nparams p1 … pn` (shared with harness/src/dump.rs::dump_gate) -/
import P2.Drv.Parse
import P2.Model.Gates
namespace P2.Drv
open Parser P2.Gates

def pGate : Parser GateKind := do
  let tag ← nat
  let ps ← list nat
  match tag, ps with
  | 0, [n] => pure (.arithmetic n)
  | 1, [n] => pure (.arithmeticExt n)
  | 2, [n] => pure (.mulExt n)
  | 3, [b, l] => pure (.baseSum b l)
  | 4, [n] => pure (.constant n)
  | 5, sb :: d :: ws => pure (.cosetInterpolation sb d ws)
  | 6, [n] => pure (.exponentiation n)
  | 7, [n] => pure (.lookup n)
  | 8, [n] => pure (.lookupTable n)
  | 9, [] => pure .noop
  | 10, [] => pure .poseidon
  | 11, [] => pure .poseidonMds
  | 12, [] => pure .publicInput
  | 13, [b, c, e] => pure (.randomAccess b c e)
  | 14, [n] => pure (.reducing n)
  | 15, [n] => pure (.reducingExt n)
  | _, _ => failure

end P2.Drv
