/- gate descriptors in flat numeric dumps: `tag nparams p1 … pn`, mirrored by `dump_gate` in
harness/src/dump.rs.  Tags follow the order of the `GateKind` constructors:
 0 arithmetic(numOps)            1 arithmeticExt(numOps)        2 mulExt(numOps)
 3 baseSum(base, numLimbs)       4 constant(numConsts)
 5 cosetInterpolation(subgroupBits, degree, w_0 … w_{k-1})   (nparams = 2 + k weights)
 6 exponentiation(numPowerBits)  7 lookup(numSlots)             8 lookupTable(numSlots)
 9 noop   10 poseidon   11 poseidonMds   12 publicInput
13 randomAccess(bits, numCopies, numExtraConstants)
14 reducing(numCoeffs)          15 reducingExt(numCoeffs) -/
import P2.Drv.Parse
import P2.Model.Gates
namespace P2.Drv
open Parser P2.Gates

def pGate : Parser GateKind := do
  let tag ← nat
  let ps ← list nat
  match tag, ps with
  | 0, [n] => pure (.arithmetic n)
  | 1, [n] => pure (.arithmeticExt n)
  | 2, [n] => pure (.mulExt n)
  | 3, [b, n] => pure (.baseSum b n)
  | 4, [n] => pure (.constant n)
  | 5, bits :: d :: ws => pure (.cosetInterpolation bits d ws)
  | 6, [n] => pure (.exponentiation n)
  | 7, [n] => pure (.lookup n)
  | 8, [n] => pure (.lookupTable n)
  | 9, [] => pure .noop
  | 10, [] => pure .poseidon
  | 11, [] => pure .poseidonMds
  | 12, [] => pure .publicInput
  | 13, [bits, copies, extra] => pure (.randomAccess bits copies extra)
  | 14, [n] => pure (.reducing n)
  | 15, [n] => pure (.reducingExt n)
  | _, _ => failure

/-- the task's name for the same parser -/
def parseGate : Parser GateKind := pGate

/-- the encoding itself (inverse of `pGate`) -/
def dumpGate : GateKind → List Nat
  | .arithmetic n => [0, 1, n]
  | .arithmeticExt n => [1, 1, n]
  | .mulExt n => [2, 1, n]
  | .baseSum b n => [3, 2, b, n]
  | .constant n => [4, 1, n]
  | .cosetInterpolation bits d ws => [5, 2 + ws.length, bits, d] ++ ws
  | .exponentiation n => [6, 1, n]
  | .lookup n => [7, 1, n]
  | .lookupTable n => [8, 1, n]
  | .noop => [9, 0]
  | .poseidon => [10, 0]
  | .poseidonMds => [11, 0]
  | .publicInput => [12, 0]
  | .randomAccess bits copies extra => [13, 3, bits, copies, extra]
  | .reducing n => [14, 1, n]
  | .reducingExt n => [15, 1, n]

end P2.Drv
