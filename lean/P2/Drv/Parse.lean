/- token parser for flat numeric dumps of structured values -/
import P2.Model.Fri
namespace P2.Drv

structure PState where
  toks : Array Nat
  pos : Nat

abbrev Parser := StateT PState Option

namespace Parser
def nat : Parser Nat := do
  let s ← get
  if h : s.pos < s.toks.size then
    set { s with pos := s.pos + 1 }
    pure s.toks[s.pos]
  else failure
def bool : Parser Bool := do let n ← nat; pure (n != 0)
def gl : Parser GL := do let n ← nat; pure (GL.ofNat n)
def gl2 : Parser GL2 := do let a ← gl; let b ← gl; pure ⟨a, b⟩
/-- `n` repetitions -/
def rep {α} (n : Nat) (p : Parser α) : Parser (List α) := do
  let mut out : Array α := #[]
  for _ in [0:n] do
    out := out.push (← p)
  pure out.toList
/-- length-prefixed list -/
def list {α} (p : Parser α) : Parser (List α) := do let n ← nat; rep n p
def digest : Parser (List GL) := rep 4 gl
def atEnd : Parser Bool := do let s ← get; pure (s.pos == s.toks.size)
def runAll {α} (p : Parser α) (toks : List Nat) : Option α :=
  match (StateT.run p (⟨toks.toArray, 0⟩ : PState)) with
  | some (a, s) => if s.pos == s.toks.size then some a else none
  | none => none
end Parser

open Parser P2.Fri

def pStrategy : Parser Strategy := do
  let tag ← nat
  let xs ← list nat
  match tag, xs with
  | 0, as => pure (.fixed as)
  | 1, [a, f] => pure (.constantArityBits a f)
  | 2, [m] => pure (.minSize (if m = 0 then none else some m))
  | _, _ => failure

def pFriParams : Parser FriParams := do
  let rateBits ← nat; let capHeight ← nat; let powBits ← nat
  let strategy ← pStrategy
  let numQueryRounds ← nat
  let hid ← bool; let degreeBits ← nat
  let arityBits ← list nat
  pure ⟨⟨rateBits, capHeight, powBits, strategy, numQueryRounds⟩, hid, degreeBits, arityBits⟩

def pInstance : Parser Instance := do
  let oracles ← list (do let n ← nat; let b ← bool; pure (⟨n, b⟩ : OracleInfo))
  let batches ← list (do
    let pt ← gl2
    let polys ← list (do let o ← nat; let p ← nat; pure (⟨o, p⟩ : PolyInfo))
    pure (⟨pt, polys⟩ : BatchInfo))
  pure ⟨oracles, batches⟩

def pOpenings : Parser (List (List GL2)) := list (list gl2)

def pChallenges : Parser Challenges := do
  let alpha ← gl2
  let betas ← list gl2
  let pow ← gl
  let idx ← list nat
  pure ⟨alpha, betas, pow, idx⟩

def pCap : Parser (List (List GL)) := list digest

def pQueryRound : Parser QueryRound := do
  let initial ← list (do let leaf ← list gl; let path ← list digest; pure (leaf, path))
  let steps ← list (do let evals ← list gl2; let path ← list digest; pure (⟨evals, path⟩ : QueryStep))
  pure ⟨initial, steps⟩

def pFriProof : Parser Proof := do
  let caps ← list pCap
  let queries ← list pQueryRound
  let fin ← list gl2
  let pw ← gl
  pure ⟨caps, queries, fin, pw⟩

end P2.Drv
