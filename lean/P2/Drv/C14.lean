import P2.Model.Goldilocks
import P2.Model.GlExt
import P2.Model.Fp
import P2.Model.Ext
import P2.Drv.Util
/- C14 requests: machine-level operators answered bit-exactly by the L0 model, plus the value-level
answer by plain `Nat` arithmetic mod `P` (two independent oracles in one line). -/
namespace P2.Drv.C14
open P2 P2.L0

def showRes (r : Res) (spec : Nat) : String :=
  if r.trap then "TRAP" else s!"{r.val} {spec % P}"

def extP (d : Nat) : Option ExtParams :=
  if d = 2 then some ext2P else if d = 4 then some ext4P else if d = 5 then some ext5P else none

def showE (e : Ext.E) : String := joinNats (e.toList.map (·.val))
def toE (xs : List Nat) : Ext.E := (xs.map GL.ofNat).toArray

def batchInv (xs : List Nat) : String :=
  joinNats (xs.map fun x => (GL.inv (GL.ofNat x)).val)

def handle (op : String) (a : List Nat) : Option String :=
  match op, a with
  | "add", [x, y] => some (showRes (glAdd x y) (x + y))
  | "sub", [x, y] => some (showRes (glSub x y) (x + P * 2 - y % P))
  | "neg", [x] => some (showRes (glNeg x) (P * 2 - x % P))
  | "mul", [x, y] => some (showRes (glMul x y) (x * y))
  | "sq", [x] => some (showRes (glSquare x) (x * x))
  | "mulacc", [s, x, y] => some (showRes (glMulAcc s x y) (s + x * y))
  | "red96", [lo, hi] => some (showRes (reduce96 lo hi) (lo + hi * W64))
  | "red128", [x] => some (showRes (reduce128 x) x)
  | "canon", [x] => some s!"{toCanonical x} {x % P}"
  | "addc", [x, r] => some (showRes (addCanonicalU64 x r) (x + r))
  | "subc", [x, r] => some (showRes (subCanonicalU64 x r) (x + P * 2 - r % P))
  | "fromi64", [n] => some (showRes (fromNoncanonicalI64 n)
        (if 9223372036854775808 ≤ n then n + P * 2 - W64 % P else n))
  | "inv", [x] => some (match tryInverse x with
      | none => "NONE"
      | some r => showRes r (GL.inv (GL.ofNat x)).val)
  | "expu64", [x, e] => some (showRes (expU64 x e) (GL.pow (GL.ofNat x) e).val)
  -- `exp_biguint(x, Σ limbs[i]·2^(64 i))`: limbs little-endian
  | "expbig", x :: limbs =>
    let e := (limbs.zipIdx).foldl (fun acc (l, i) => acc + l * 2 ^ (64 * i)) 0
    some s!"{(GL.pow (GL.ofNat x) e).val}"
  | "exp2", [x, k] => some (showRes (expPow2 x k) (GL.pow (GL.ofNat x) (2 ^ k)).val)
  | "inv2exp", [e] => some s!"{(GL.inv (GL.pow (GL.ofNat 2) e)).val}"
  | "binv", xs => some (batchInv xs)
  | "extmul", d :: rest =>
    if rest.length ≠ 2 * d then none else
    match extP d with
    | none => none
    | some p =>
      let av := (rest.take d).toArray
      let bv := (rest.drop d).toArray
      let rs := extMul d p.w.val av bv
      if rs.any (·.trap) then some "TRAP" else
      let spec := Ext.mul p (toE (rest.take d)) (toE (rest.drop d))
      some (joinNats (rs.map (·.val)) ++ " | " ++ showE spec)
  | "extinv2exp", [d, e] => (extP d).map fun p =>
      showE (Ext.ofBase p (GL.inv (GL.pow (GL.ofNat 2) e)))
  | "extadd", d :: rest => some (showE (Ext.add (toE (rest.take d)) (toE (rest.drop d))))
  | "extsub", d :: rest => some (showE (Ext.sub (toE (rest.take d)) (toE (rest.drop d))))
  | "extneg", _ :: rest => some (showE (Ext.neg (toE rest)))
  | "extsq", d :: rest => (extP d).map fun p => showE (Ext.mul p (toE rest) (toE rest))
  | "extinv", d :: rest => (extP d).map fun p =>
      match Ext.tryInverse p (toE rest) with
      | none => "NONE"
      | some e => showE e
  | "extfrob", d :: k :: rest => (extP d).map fun p => showE (Ext.repeatedFrobenius p (toE rest) k)
  | "extdiv", d :: rest => (extP d).bind fun p =>
      match Ext.tryInverse p (toE (rest.drop d)) with
      | none => some "NONE"
      | some e => some (showE (Ext.mul p (toE (rest.take d)) e))
  | _, _ => none

end P2.Drv.C14
