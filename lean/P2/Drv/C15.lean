import P2.Model.Fft
import P2.Model.Poly
import P2.Model.BitRev
import P2.Drv.Util
/- C15 requests: transforms against the O(n²) definition, bit reversal against the index
permutation, polynomial algebra against schoolbook definitions. -/
namespace P2.Drv.C15
open P2 P2.Fft P2.BitRev

def glA (xs : List Nat) : Array GL := (xs.map GL.ofNat).toArray
def glL (xs : List Nat) : List GL := xs.map GL.ofNat
def showA (a : Array GL) : String := joinNats (a.toList.map (·.val))
def showL (a : List GL) : String := joinNats (a.map (·.val))

/-- forward transform on the model: definition and round-by-round algorithm must agree -/
def fwd (c : Array GL) (lgN r : Nat) (tableLg : Nat) : Option (Array GL) :=
  let table := rootTable GL.primitiveRoot tableLg
  match fftClassic c lgN r table with
  | .panic => none
  | .ok v =>
    if lgN ≤ 7 then
      let d := dft (GL.primitiveRoot lgN) c
      if d == v then some v else some #[]     -- #[] marks a model self-disagreement
    else some v

def padTo (c : Array GL) (n : Nat) : Array GL := c ++ Array.replicate (n - c.size) 0

/-- FNV-1a style digest of a sequence of naturals (for long permutations) -/
def digest (xs : List Nat) : Nat :=
  xs.foldl (fun h x => ((h ^^^ x) * 1099511628211) % 18446744073709551616) 14695981039346656037

def showPerm (xs : List Nat) : String :=
  if xs.length ≤ 256 then joinNats xs else s!"digest {digest xs}"

def handle (op : String) (a : List Nat) : Option String :=
  match op, a with
  | "fft", lgN :: r1 :: tbl :: c =>
    -- r1 = 0: zero_factor None; else Some(r1 − 1); tbl = 0: None, 1: table for n, 2: table for 2n
    if c.length ≠ 2 ^ lgN then none else
    let r := if r1 = 0 then 0 else r1 - 1
    let tableLg := if tbl = 2 then lgN + 1 else lgN
    some (match fwd (glA c) lgN r tableLg with
      | none => "PANIC"
      | some v => if v.size = 0 ∧ lgN > 0 then "MODEL-SELF-MISMATCH" else showA v)
  | "ifft", lgN :: c =>
    if c.length ≠ 2 ^ lgN then none else
    some (match fwd (glA c) lgN 0 lgN with
      | none => "PANIC"
      | some v => showA (ifftPost v (GL.inv (GL.pow 2 lgN))))
  | "cosetfft", lgN :: shift :: c =>
    if c.length ≠ 2 ^ lgN then none else
    let s := GL.ofNat shift
    let cc := (glA c).mapIdx fun i x => GL.pow s i * x
    some (match fwd cc lgN 0 lgN with
      | none => "PANIC"
      | some v => showA v)
  | "cosetifft", lgN :: shift :: c =>
    if c.length ≠ 2 ^ lgN then none else
    some (match fwd (glA c) lgN 0 lgN with
      | none => "PANIC"
      | some v =>
        let co := ifftPost v (GL.inv (GL.pow 2 lgN))
        let si := GL.inv (GL.ofNat shift)
        showA (co.mapIdx fun i x => x * GL.pow si i))
  | "lde", lgN :: rate :: c =>
    -- values on the subgroup of size n → values on the subgroup of size n·2^rate
    if c.length ≠ 2 ^ lgN then none else
    some (match fwd (glA c) lgN 0 lgN with
      | none => "PANIC"
      | some v =>
        let co := padTo (ifftPost v (GL.inv (GL.pow 2 lgN))) (2 ^ (lgN + rate))
        match fwd co (lgN + rate) 0 (lgN + rate) with
        | none => "PANIC"
        | some w => showA w)
  | "revperm", [lbN] =>
    -- the permutation computed by the code's index arithmetic must equal bit reversal
    let idx := (Array.range (2 ^ lbN))
    let viaCode := reverseIndexBits idx lbN
    let spec := reverseIndexBitsSpec idx lbN
    some (if viaCode == spec then showPerm spec.toList else "MODEL-SELF-MISMATCH")
  | "revinplace", [lbN, _elsize] =>
    let idx := (Array.range (2 ^ lbN))
    let spec := reverseIndexBitsSpec idx lbN
    let small := if lbN ≤ 12 then reverseInPlaceSmall idx lbN else spec
    let chunked := idx.map (chunkedMap lbN)
    some (if small == spec ∧ chunked == spec then showPerm spec.toList else "MODEL-SELF-MISMATCH")
  | "transpose", rows :: cols :: xs =>
    if xs.length ≠ rows * cols then none else
    some (joinNats ((List.range cols).flatMap fun c => (List.range rows).map fun r => xs[r * cols + c]!))
  | "eval", x :: c => some s!"{(Poly.eval (glL c) (GL.ofNat x)).val}"
  | "polymul", na :: rest =>
    some (showL (Poly.trim (Poly.mul (glL (rest.take na)) (glL (rest.drop na)))))
  | "divrem", na :: rest =>
    some (match Poly.divRem (glL (rest.take na)) (glL (rest.drop na)) with
      | none => "PANIC"
      | some (q, r) => showL q ++ " | " ++ showL r)
  | "divlin", z :: c =>
    if c.isEmpty then none else some (showL (Poly.divideByLinear (glL c) (GL.ofNat z)))
  | "interp", n :: x :: rest =>
    let xs := glL (rest.take n)
    let ys := glL (rest.drop n)
    some s!"{(Poly.lagrangeEval (xs.zip ys) (GL.ofNat x)).val}"
  | "zpoly", [nLog, rate, i] =>
    -- Z_H on the coset g·⟨ω⟩ of size n·2^rate at index i: (g·ω^i)^n − 1
    let g := GL.multGen
    let w := GL.primitiveRoot (nLog + rate)
    let x := g * GL.pow w i
    some s!"{(GL.pow x (2 ^ nLog) - 1).val}"
  | _, _ => none

end P2.Drv.C15
