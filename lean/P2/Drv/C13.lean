import P2.Model.PoseidonFast
import P2.Model.Challenger
import P2.Drv.Util
/- C13 requests: optimised layers answered bit-exactly by the L0 model (raw u64) and by the textbook
specification (canonical values). -/
namespace P2.Drv.C13
open P2 P2.L0

def canonL (xs : List Nat) : String := joinNats (xs.map (· % L0.P))
def glL (xs : List Nat) : List GL := xs.map GL.ofNat
def showGL (xs : List GL) : String := joinNats (xs.map (·.val))

def showRS (r : PoseidonFast.RS) (spec : List GL) : String :=
  if r.trap then "TRAP" else joinNats r.st.toList ++ " | " ++ showGL spec

/-- decode a challenger history: `1 k x1 … xk` = observe, `2 n` = get n challenges -/
partial def decodeOps (xs : List Nat) : Option (List Challenger.Op) :=
  match xs with
  | [] => some []
  | 1 :: rest => do
    let (ys, rest') ← takeList rest
    let ops ← decodeOps rest'
    pure (Challenger.Op.obs (glL ys) :: ops)
  | 2 :: n :: rest => do
    let ops ← decodeOps rest
    pure (Challenger.Op.get n :: ops)
  | _ => none

def naivePartialSpec (s : Array GL) : Array GL :=
  (List.range Poseidon.nPartial).foldl (fun st i => Poseidon.partialRound st (Poseidon.nFullHalf + i)) s

def handle (op : String) (a : List Nat) : Option String :=
  let p := Sponge.poseidonPerm
  match op, a with
  | "perm", s => if s.length ≠ 12 then none else
      some (showRS (PoseidonFast.poseidon s.toArray) (Poseidon.permute (glL s).toArray).toList)
  | "naive", s => if s.length ≠ 12 then none else
      some (showRS (PoseidonFast.poseidonNaive s.toArray) (Poseidon.permute (glL s).toArray).toList)
  | "mds", s => if s.length ≠ 12 then none else
      some (showRS (PoseidonFast.mdsLayer s.toArray) (Poseidon.mdsLayer (glL s).toArray).toList)
  | "constl", r :: s => if s.length ≠ 12 then none else
      some (showRS (PoseidonFast.constantLayer s.toArray r) (Poseidon.constantLayer (glL s).toArray r).toList)
  | "sboxl", s => if s.length ≠ 12 then none else
      some (showRS (PoseidonFast.sboxLayer s.toArray) (Poseidon.sboxLayer (glL s).toArray).toList)
  | "mdsfast", r :: s => if s.length ≠ 12 then none else
      let rs := PoseidonFast.mdsPartialLayerFast s.toArray r
      some (if rs.trap then "TRAP" else joinNats rs.st.toList)
  | "mdsinit", s => if s.length ≠ 12 then none else
      let rs := PoseidonFast.mdsPartialLayerInit s.toArray
      some (if rs.trap then "TRAP" else joinNats rs.st.toList)
  | "prounds", s => if s.length ≠ 12 then none else
      some (showRS (PoseidonFast.partialRounds s.toArray) (naivePartialSpec (glL s).toArray).toList)
  | "proundsnaive", s => if s.length ≠ 12 then none else
      some (showRS (PoseidonFast.partialRoundsNaive s.toArray Gen.HALF_N_FULL_ROUNDS)
        (naivePartialSpec (glL s).toArray).toList)
  | "hashm", m :: xs => some (showGL (Sponge.hashNToMNoPad p (glL xs) m))
  | "two2one", xs => if xs.length ≠ 8 then none else
      some (showGL (Sponge.twoToOne p (glL (xs.take 4)) (glL (xs.drop 4))))
  | "hpad", xs => some (showGL (Sponge.hashPad p (glL xs)))
  | "hornoop", xs => some (showGL (Sponge.hashOrNoop p (glL xs)))
  | "chal", xs => (decodeOps xs).map fun ops => showGL (Challenger.run p ops)
  | "rchal", xs => (decodeOps xs).map fun ops => showGL (Challenger.rRun p ops)
  | _, _ => none

end P2.Drv.C13
