import P2.Drv.Parse
import P2.Drv.Util
import P2.Model.Stark
/- C09 / C10 requests (mirrors harness/src/stark_dsl.rs and the STARK part of dump.rs):
   `verify`      AIR, StarkConfig, verifier_circuit_fri_params, proof with public inputs → verdict
   `challenges`  same input → every Fiat–Shamir challenge (or PANIC)
   `sat`         AIR, trace, public inputs → SAT | VIOLATED <row> <constraint index> -/
namespace P2.Drv.Stark
open P2 P2.Air P2.Stark P2.Fri P2.Drv.Parser

/-- prefix form `0 c | 1 i | 2 i | 3 i | 4 a b | 5 a b | 6 a b` -/
partial def pExpr : Parser Expr := do
  let tag ← nat
  match tag with
  | 0 => do let c ← nat; pure (.const c)
  | 1 => do let i ← nat; pure (.loc i)
  | 2 => do let i ← nat; pure (.nxt i)
  | 3 => do let i ← nat; pure (.pub i)
  | 4 => do let a ← pExpr; let b ← pExpr; pure (.add a b)
  | 5 => do let a ← pExpr; let b ← pExpr; pure (.sub a b)
  | 6 => do let a ← pExpr; let b ← pExpr; pure (.mul a b)
  | _ => failure

def pKind : Parser Kind := do
  match (← nat) with
  | 0 => pure .first
  | 1 => pure .last
  | 2 => pure .transition
  | 3 => pure .all
  | _ => failure

def pColSpec : Parser ColSpec := do
  let lc ← list (do let i ← nat; let c ← gl; pure (i, c))
  let nx ← list (do let i ← nat; let c ← gl; pure (i, c))
  let c ← gl
  pure ⟨lc, nx, c⟩

def pFilterSpec : Parser FilterSpec := do
  let products ← list (do let a ← pColSpec; let b ← pColSpec; pure (a, b))
  let constants ← list pColSpec
  pure ⟨products, constants⟩

def pLookupSpec : Parser LookupSpec := do
  let columns ← list pColSpec
  let table ← pColSpec
  let freq ← pColSpec
  let filters ← list pFilterSpec
  pure ⟨columns, table, freq, filters⟩

def pAir : Parser Air := do
  let cols ← nat; let pis ← nat; let degree ← nat
  let constraints ← list (do let k ← pKind; let e ← pExpr; pure (k, e))
  let lookups ← list pLookupSpec
  let ctl ← bool
  pure ⟨cols, pis, degree, constraints, lookups, ctl⟩

def pConfig : Parser Config := do
  let sec ← nat; let nch ← nat
  let rateBits ← nat; let capHeight ← nat; let powBits ← nat
  let strategy ← pStrategy
  let q ← nat
  pure ⟨sec, nch, ⟨rateBits, capHeight, powBits, strategy, q⟩⟩

def pOpt {α} (p : Parser α) : Parser (Option α) := do
  if (← bool) then (do let x ← p; pure (some x)) else pure none

def pPad : Parser (Option PadParams) := pOpt (do let d ← nat; let ab ← list nat; pure ⟨d, ab⟩)

def pStarkOpeningSet : Parser OpeningSet := do
  let lv ← list gl2; let nv ← list gl2
  let aux ← pOpt (list gl2); let auxNext ← pOpt (list gl2)
  let ctl ← pOpt (list gl)
  let q ← pOpt (list gl2)
  pure ⟨lv, nv, aux, auxNext, ctl, q⟩

def pStarkProof : Parser Stark.Proof := do
  let tc ← pCap
  let ac ← pOpt pCap
  let qc ← pOpt pCap
  let os ← pStarkOpeningSet
  let fp ← pFriProof
  pure ⟨tc, ac, qc, os, fp⟩

def pStarkProofWithPis : Parser ProofWithPis := do
  let p ← pStarkProof
  let pis ← list gl
  pure ⟨p, pis⟩

def showVerdict : Verdict → String
  | .accept => "ACCEPT"
  | .reject s => if s.startsWith "merkle" then "REJECT:merkle" else s!"REJECT:{s}"
  | .panic _ => "PANIC"

def showExt (x : GL2) : String := s!"{x.a.val} {x.b.val}"
def showGLs (xs : List GL) : String := joinNats (xs.map (·.val))

def showChallenges (ch : Stark.Challenges) : String :=
  let lk := match ch.lookupSet with
    | none => "none"
    | some ls => joinNats (ls.flatMap fun (p : GL × GL) => [p.1.val, p.2.val])
  s!"lookup {lk} alphas {showGLs ch.alphas} zeta {showExt ch.zeta} fri_alpha {showExt ch.fri.alpha} " ++
  s!"fri_betas {" ".intercalate (ch.fri.betas.map showExt)} pow {ch.fri.powResponse.val} idx {joinNats ch.fri.queryIndices}"

def pProofReq : Parser (Air × Config × Option PadParams × ProofWithPis) := do
  let a ← pAir
  let c ← pConfig
  let pad ← pPad
  let pp ← pStarkProofWithPis
  pure (a, c, pad, pp)

def verifyReq (toks : List Nat) : String :=
  match Parser.runAll pProofReq toks with
  | none => "PARSE-ERROR"
  | some (a, c, pad, pp) => if !a.wf then "BAD-AIR" else showVerdict (verify a c pp pad)

def challengesReq (toks : List Nat) : String :=
  match Parser.runAll pProofReq toks with
  | none => "PARSE-ERROR"
  | some (a, c, pad, pp) =>
    if !a.wf then "BAD-AIR" else
    -- `get_challenges` is called directly on the proof: no length check on the public inputs
    -- precedes it; a frame of the wrong size panics in `from_values`
    match getChallenges a c pp pad with
    | .error _ => "PANIC"
    | .ok ch => showChallenges ch

def pSatReq : Parser (Air × Array (Array GL) × Array GL) := do
  let a ← pAir
  let n ← nat
  let rows ← rep n (do let r ← rep a.cols gl; pure r.toArray)
  let pis ← list gl
  pure (a, rows.toArray, pis.toArray)

def satReq (toks : List Nat) : String :=
  match Parser.runAll pSatReq toks with
  | none => "PARSE-ERROR"
  | some (a, rows, pis) =>
    if !a.wf || pis.size != a.pis then "BAD-AIR" else
    match a.firstViolation rows pis with
    | none => "SAT"
    | some (r, ci) => s!"VIOLATED {r} {ci}"

/-- `lookupsat`: AIR, trace → do the declared lookups hold on the trace (multiset semantics)? -/
def lookupSatReq (toks : List Nat) : String :=
  match Parser.runAll pSatReq toks with
  | none => "PARSE-ERROR"
  | some (a, rows, _) =>
    if !a.wf then "BAD-AIR" else
    match a.firstBadLookup rows with
    | none => "HOLDS"
    | some li => s!"FAILS {li}"

def pCtlSide : Parser CtlSide := do
  let t ← nat
  let cols ← list pColSpec
  let f ← pFilterSpec
  pure ⟨t, cols, f⟩

/-- `ctlsat`: the traces of all tables and the CTL declarations → HOLDS | FAILS -/
def pCtlSatReq : Parser String := do
  let traces ← list (do
    let cols ← nat
    let n ← nat
    let rows ← rep n (do let r ← rep cols gl; pure r.toArray)
    pure rows.toArray)
  let ctls ← list (do
    let looking ← list pCtlSide
    let looked ← pCtlSide
    pure (⟨looking, looked⟩ : CtlSpec))
  pure (if ctls.all (·.holds traces.toArray) then "HOLDS" else "FAILS")

/-- `ctlverify`: the tables (AIR, proof) of a multi-table system, the configuration, the CTL
declarations → the verdict of the multi-table verifier -/
def pCtlVerifyReq : Parser String := do
  let tables ← list (do let a ← pAir; let pp ← pStarkProofWithPis; pure (a, pp))
  let c ← pConfig
  let ctls ← list (do
    let looking ← list pCtlSide
    let looked ← pCtlSide
    pure (⟨looking, looked⟩ : CtlSpec))
  if !(tables.all fun t => t.1.wf) then pure "BAD-AIR" else
  pure (showVerdict (verifyMulti tables ctls c))

def handle (op : String) (a : List Nat) : Option String :=
  match op with
  | "verify" => some (verifyReq a)
  | "challenges" => some (challengesReq a)
  | "sat" => some (satReq a)
  | "lookupsat" => some (lookupSatReq a)
  | "ctlsat" => some ((Parser.runAll pCtlSatReq a).getD "PARSE-ERROR")
  | "ctlverify" => some ((Parser.runAll pCtlVerifyReq a).getD "PARSE-ERROR")
  | _ => none

end P2.Drv.Stark
