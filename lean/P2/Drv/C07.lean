import P2.Drv.ParseGates
import P2.Drv.Util
/- C07 requests: gate constraint evaluation (base field / extension field), declared shape, and
the generator-filled row.
  c07 eval <field> <gate> <nconsts> consts… <nwires> wires… pih0 pih1 pih2 pih3
      field = 1: values in GL, one natural each; field = 2: values in GL2, two naturals each
      (the public-inputs hash is always 4 base-field elements, as in `EvaluationVars`)
      answer: the constraint values (two naturals each for field = 2)
  c07 meta <checked> <gate>
      answer: numConstraints degree numWires numConstants; `checked` = 1 when the implementation
      was built with overflow checks (then `num_wires` of some degenerate parameters panics)
  c07 gen <gate> <nconsts> consts… <nwires> wires…
      answer: the row after the gate's generators ran on it, ` W `, the generator-written columns.
      The model also runs C07's statement on its own row: every constraint is zero on it
      (else `MODEL-ROW-UNSATISFIED`), and replacing any generator-written value v by v + 1 makes
      some constraint non-zero (else `MODEL-UNPINNED <column>`). -/
namespace P2.Drv.C07
open P2 P2.Gates P2.Drv.Parser

def showGL (xs : List GL) : String := joinNats (xs.map (·.val))
def showGL2 (xs : List GL2) : String := joinNats (xs.flatMap fun x => [x.a.val, x.b.val])

def pEval : Parser String := do
  let field ← nat
  let g ← pGate
  if field = 1 then
    let cs ← list gl
    let ws ← list gl
    let h ← rep 4 gl
    pure (showGL (g.evalUnfiltered (⟨cs.toArray, ws.toArray, h.toArray⟩ : EvalVars GL)))
  else if field = 2 then
    let cs ← list gl2
    let ws ← list gl2
    let h ← rep 4 gl
    let hK : List GL2 := h.map GL2.ofBase
    pure (showGL2 (g.evalUnfiltered (⟨cs.toArray, ws.toArray, hK.toArray⟩ : EvalVars GL2)))
  else failure

def pMeta : Parser String := do
  let checked ← bool
  let g ← pGate
  match (if checked then g.numWiresChecked else some g.numWires) with
  | none => pure "PANIC"
  | some nw => pure (joinNats [g.numConstraints, g.degree, nw, g.numConstants])

/-- C07 on the model's own generated row (`PublicInputGate` needs the hash, which a `gen`
request does not carry, and has no generators) -/
def selfCheck (g : GateKind) (cs row : Array GL) : String :=
  if g == .publicInput then "" else
  let eval := fun (r : Array GL) => g.evalUnfiltered (⟨cs, r, #[0, 0, 0, 0]⟩ : EvalVars GL)
  let zero := (eval row).all (· == 0)
  let unpinned := g.generatedWires.filter fun c => (eval (row.set! c (row[c]! + 1))).all (· == 0)
  (if zero then "" else " MODEL-ROW-UNSATISFIED") ++
    (if unpinned.isEmpty then "" else s!" MODEL-UNPINNED {joinNats unpinned}")

def pGen : Parser String := do
  let g ← pGate
  let cs ← list gl
  let ws ← list gl
  let row := g.generate cs.toArray ws.toArray
  let written := if g.generatedWires.isEmpty then " W" else " W " ++ joinNats g.generatedWires
  pure (showGL row.toList ++ written ++ selfCheck g cs.toArray row)

def handle (op : String) (a : List Nat) : Option String :=
  match op with
  | "eval" => some ((Parser.runAll pEval a).getD "PARSE-ERROR")
  | "meta" => some ((Parser.runAll pMeta a).getD "PARSE-ERROR")
  | "gen" => some ((Parser.runAll pGen a).getD "PARSE-ERROR")
  | _ => none

end P2.Drv.C07
