import P2.Drv.ParsePlonk
import P2.Drv.Util
/- C04 requests: every Fiat–Shamir challenge of a dumped PLONK proof recomputed by the model. -/
namespace P2.Drv.C04
open P2 P2.Plonk P2.Drv.Parser

def showExt (x : GL2) : String := s!"{x.a.val} {x.b.val}"
def showGLs (xs : List GL) : String := joinNats (xs.map (·.val))

def showChallenges (ch : Challenges) : String :=
  s!"betas {showGLs ch.betas} gammas {showGLs ch.gammas} alphas {showGLs ch.alphas} deltas {showGLs ch.deltas} " ++
  s!"zeta {showExt ch.zeta} fri_alpha {showExt ch.fri.alpha} fri_betas {" ".intercalate (ch.fri.betas.map showExt)} " ++
  s!"pow {ch.fri.powResponse.val} idx {joinNats ch.fri.queryIndices}"

def pChallengesReq : Parser String := do
  let c ← pCommon
  let vd ← pVerifierOnly
  let pp ← pProofWithPis
  let pih := publicInputsHash pp.publicInputs
  pure (showChallenges (getChallenges c pih vd.circuitDigest pp.proof))

def handle (op : String) (a : List Nat) : Option String :=
  match op, a with
  | "plonk", toks => some ((Parser.runAll pChallengesReq toks).getD "PARSE-ERROR")
  | _, _ => none

end P2.Drv.C04
