import P2.Model.Merkle
import P2.Model.Keccak
import P2.Model.BatchMerkle
import P2.Model.Challenger
import P2.Drv.Util
/- C12 requests, second part: the Keccak hasher (`keccak`, `khash`, `ktwo`, `khornoop`, `khpad`,
`ktovec`, `kperm`, `ktree`, `kverify`, `kchal`) and batch Merkle trees (`btree`, `bverify`) for
both hashers.  A hasher is selected by a number: `0` = Poseidon, `N > 0` = `KeccakHash<N>`. -/
namespace P2.Drv.C12x
open P2 P2.Merkle

def glL (xs : List Nat) : List GL := xs.map GL.ofNat
def showGL (xs : List GL) : String := joinNats (xs.map (·.val))

/-- `n` consecutive groups of `w` entries -/
def rowsOf (xs : List Nat) (n w : Nat) : List (List Nat) :=
  (List.range n).map fun i => (xs.drop (i * w)).take w

/-- how digests of type `D` are written on a request / answer line -/
structure Codec (D : Type) where
  dw : Nat
  enc : D → List Nat
  dec : List Nat → D
  toVec : D → List GL

def poseidonCodec : Codec Digest := ⟨4, fun d => d.map (·.val), glL, id⟩
def keccakCodec (N : Nat) : Codec (List Nat) := ⟨N, id, fun bs => bs.map (· % 256), Keccak.toVec⟩

abbrev P := StateT (List Nat) Option
def pNat : P Nat := do
  match (← get) with
  | x :: rest => set rest; pure x
  | [] => failure
def pTake (n : Nat) : P (List Nat) := do
  let s ← get
  if s.length < n then failure else
  set (s.drop n); pure (s.take n)
def pRep {α} (n : Nat) (p : P α) : P (List α) := do
  let mut out : Array α := #[]
  for _ in [0:n] do
    out := out.push (← p)
  pure out.toList
def pRun {α} (p : P α) (xs : List Nat) : Option α :=
  match StateT.run p xs with
  | some (a, []) => some a
  | _ => none

def verdict : Outcome → String
  | .ok => "OK" | .err => "ERR" | .panic => "PANIC"

section generic
variable {D : Type} [DecidableEq D]

def flatD (c : Codec D) (ds : List D) : String := joinNats (ds.flatMap c.enc)
def pDigests (c : Codec D) (n : Nat) : P (List D) := do
  let xs ← pTake (n * c.dw)
  pure ((rowsOf xs n c.dw).map c.dec)

/-- `tree`-style request: `k capH w npos pos… leaves…` -/
def treeReq (h : Hasher (List GL) D) (c : Codec D) (a : List Nat) : Option String :=
  match a with
  | k :: capH :: w :: npos :: rest0 =>
    let positions := rest0.take npos
    let data := rest0.drop npos
    if data.length ≠ 2 ^ k * w then none else
    let leaves := (rowsOf data (2 ^ k) w).map glL
    let (digests, capO) := build h k capH leaves
    match capO.mapM id with
    | none => some "MODEL-ERR"
    | some cap =>
      if cap ≠ capOf h k capH leaves then some "CAPOF-MISMATCH" else
      let proofs := positions.map fun idx =>
        match merkleTreeProve idx (2 ^ k) k capH digests with
        | none => "PANIC"
        | some p => flatD c p
      some (flatD c cap ++ " | " ++ flatD c digests ++ " | " ++ " ; ".intercalate proofs)
  | _ => none

/-- `verify`-style request: `w leaf… idx capLen cap… pLen proof…` -/
def verifyReq (h : Hasher (List GL) D) (c : Codec D) (a : List Nat) : Option String :=
  pRun (do
    let w ← pNat
    let leaf ← pTake w
    let idx ← pNat
    let cap ← pDigests c (← pNat)
    let proof ← pDigests c (← pNat)
    pure (verdict (verifyToCap h (glL leaf) idx cap proof))) a

/-- `btree`: `capH nm (rows w)*nm npos pos… data…` →
`cap | digests | proof ; … | values ; …` (a proof / value list that panics is written PANIC) -/
def btreeReq (h : Hasher (List GL) D) (c : Codec D) (a : List Nat) : Option String :=
  let parsed := pRun (do
    let capH ← pNat
    let nm ← pNat
    let shapes ← pRep nm (do let r ← pNat; let w ← pNat; pure (r, w))
    let positions ← pTake (← pNat)
    let mats ← shapes.mapM fun (r, w) => do
      let xs ← pTake (r * w)
      pure ((rowsOf xs r w).map glL)
    pure (capH, positions, mats)) a
  parsed.map fun (capH, positions, mats) =>
    match BatchMerkle.batchBuild h c.toVec mats capH with
    | none => "PANIC"
    | some (digs, cap, hs) =>
      let proofs := positions.map fun i =>
        match BatchMerkle.batchOpen i hs cap.length digs with
        | none => "PANIC"
        | some p => flatD c p
      let vals := positions.map fun i =>
        match BatchMerkle.values mats hs i with
        | none => "PANIC"
        | some rows => showGL rows.flatten
      flatD c cap ++ " | " ++ flatD c digs ++ " | " ++ " ; ".intercalate proofs ++ " | " ++
        " ; ".intercalate vals

/-- `bverify`: `ovf nm (w elts…)*nm nh heights… index capLen cap… pLen proof…` -/
def bverifyReq (h : Hasher (List GL) D) (c : Codec D) (a : List Nat) : Option String :=
  pRun (do
    let ovf ← pNat
    let nm ← pNat
    let data ← pRep nm (do let w ← pNat; let xs ← pTake w; pure (glL xs))
    let heights ← pTake (← pNat)
    let idx ← pNat
    let cap ← pDigests c (← pNat)
    let proof ← pDigests c (← pNat)
    pure (verdict (BatchMerkle.verifyBatch h c.toVec (ovf != 0) data heights idx cap proof))) a

end generic

/-- decode a challenger history: `1 k x1 … xk` = observe, `2 n` = get n challenges (as in C13) -/
partial def decodeOps (xs : List Nat) : Option (List Challenger.Op) :=
  match xs with
  | [] => some []
  | 1 :: rest => do
    let (ys, rest') ← takeList rest
    let ops ← decodeOps rest'
    pure (Challenger.Op.obs (glL ys) :: ops)
  | 2 :: n :: rest => do
    let ops ← decodeOps rest
    pure (Challenger.Op.get n :: ops)
  | _ => none

def handle (op : String) (a : List Nat) : Option String :=
  match op, a with
  | "keccak", n :: bs => if bs.length ≠ n then none else some (joinNats (Keccak.keccakNat bs))
  | "khash", N :: n :: xs => if xs.length ≠ n then none else
      some (joinNats (Keccak.hashNoPad N (glL xs)))
  | "khornoop", N :: n :: xs => if xs.length ≠ n then none else
      some (joinNats (Keccak.hashOrNoop N (glL xs)))
  | "khpad", N :: n :: xs => if xs.length ≠ n then none else
      some (joinNats (Keccak.hashPad N (glL xs)))
  | "ktwo", N :: bs => if bs.length ≠ 2 * N then none else
      some (joinNats (Keccak.twoToOne N (bs.take N) (bs.drop N)))
  | "ktovec", N :: bs => if bs.length ≠ N then none else some (showGL (Keccak.toVec bs))
  | "kperm", s => if s.length ≠ 12 then none else
      some (showGL (Keccak.permute (glL s).toArray).toList)
  | "kchal", xs => (decodeOps xs).map fun ops => showGL (Challenger.run Keccak.keccakPerm ops)
  | "ktree", N :: rest => if N = 0 then none else
      treeReq (Keccak.keccakHasher N) (keccakCodec N) rest
  | "kverify", N :: rest => if N = 0 then none else
      verifyReq (Keccak.keccakHasher N) (keccakCodec N) rest
  | "btree", H :: rest =>
      if H = 0 then btreeReq poseidonHasher poseidonCodec rest
      else btreeReq (Keccak.keccakHasher H) (keccakCodec H) rest
  | "bverify", H :: rest =>
      if H = 0 then bverifyReq poseidonHasher poseidonCodec rest
      else bverifyReq (Keccak.keccakHasher H) (keccakCodec H) rest
  | _, _ => none

end P2.Drv.C12x
