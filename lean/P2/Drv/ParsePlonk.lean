/- parsers for common data, verifier data and PLONK proofs (mirrors harness/src/dump.rs) -/
import P2.Drv.ParseGates
import P2.Model.Plonk
namespace P2.Drv
open Parser P2.Plonk

def pCircuitConfig : Parser CircuitConfig := do
  let numWires ← nat; let numRoutedWires ← nat; let numConstants ← nat
  let securityBits ← nat; let numChallenges ← nat; let zk ← bool; let mq ← nat
  pure ⟨numWires, numRoutedWires, numConstants, securityBits, numChallenges, zk, mq⟩

def pCommon : Parser CommonData := do
  let config ← pCircuitConfig
  let friParams ← pFriParams
  let gates ← list pGate
  let selectorIndices ← list nat
  let groups ← list (do let a ← nat; let b ← nat; pure (a, b))
  let qdf ← nat; let ngc ← nat; let nc ← nat; let npi ← nat
  let kIs ← list gl
  let npp ← nat; let nlp ← nat; let nls ← nat
  let luts ← list (list (do let a ← nat; let b ← nat; pure (a, b)))
  pure ⟨config, friParams, gates, selectorIndices, groups, qdf, ngc, nc, npi, kIs, npp, nlp, nls, luts⟩

def pVerifierOnly : Parser VerifierOnly := do
  let cap ← pCap
  let dg ← digest
  pure ⟨cap, dg⟩

def pOpeningSet : Parser OpeningSet := do
  let a ← list gl2; let b ← list gl2; let c ← list gl2; let d ← list gl2; let e ← list gl2
  let f ← list gl2; let g ← list gl2; let h ← list gl2; let i ← list gl2
  pure ⟨a, b, c, d, e, f, g, h, i⟩

def pProof : Parser Proof := do
  let wc ← pCap; let zc ← pCap; let qc ← pCap
  let os ← pOpeningSet
  let fp ← pFriProof
  pure ⟨wc, zc, qc, os, fp⟩

def pProofWithPis : Parser ProofWithPis := do
  let p ← pProof
  let pis ← list gl
  pure ⟨p, pis⟩

end P2.Drv
