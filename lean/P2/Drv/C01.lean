import P2.Model.Circuit
import P2.Drv.Parse
import P2.Drv.Util
/- C01 requests: public inputs of a circuit program computed by direct evaluation in the model. -/
namespace P2.Drv.C01
open P2 P2.Circuit P2.Drv.Parser

def pOp : Parser Op := do
  let tag ← nat
  match tag with
  | 0 => do pure (.input (← nat))
  | 1 => do pure (.const (← nat))
  | 2 => do pure (.add (← nat) (← nat))
  | 3 => do pure (.sub (← nat) (← nat))
  | 4 => do pure (.mul (← nat) (← nat))
  | 5 => do pure (.mulAdd (← nat) (← nat) (← nat))
  | 6 => do pure (.arith (← nat) (← nat) (← nat) (← nat) (← nat))
  | 7 => do pure (.neg (← nat))
  | 8 => do pure (.div (← nat) (← nat))
  | 9 => do pure (.isEqual (← nat) (← nat))
  | 10 => do pure (.select (← nat) (← nat) (← nat))
  | 11 => do pure (.not (← nat))
  | 12 => do pure (.and (← nat) (← nat))
  | 13 => do pure (.or (← nat) (← nat))
  | 14 => do pure (.splitSum (← nat) (← nat))
  | 15 => do pure (.rangeCheck (← nat) (← nat))
  | 16 => do let i ← nat; let vs ← list nat; pure (.randomAccess i vs)
  | 17 => do pure (.expU64 (← nat) (← nat))
  | 18 => do pure (.expBits (← nat) (← nat) (← nat))
  | 19 => do pure (.hash (← list nat))
  | 20 => do pure (.lookup (← nat) (← nat))
  | 21 => do pure (.extMulNorm (← nat) (← nat))
  | 22 => do pure (.splitBase4 (← nat) (← nat))
  | 23 => do pure (.pub (← nat))
  | 24 => do pure (.connect (← nat) (← nat))
  | _ => failure

def pProg : Parser Prog := do
  let tables ← list (list (do let a ← nat; let b ← nat; pure (a, b)))
  let ops ← list pOp
  pure ⟨tables, ops⟩

def handle (op : String) (a : List Nat) : Option String :=
  match op, a with
  | "prog", toks => some (match Parser.runAll pProg toks with
      | none => "PARSE-ERROR"
      | some p => match evalProg p with
        | none => "UNSAT"
        | some (_, pis) => joinNats (pis.map (·.val)))
  | _, _ => none

end P2.Drv.C01
