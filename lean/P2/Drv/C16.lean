import P2.Drv.ParsePlonk
import P2.Model.Compress
import P2.Model.Decompress
import P2.Drv.C03
import P2.Drv.C17
import P2.Drv.Util
/- C16 requests: the compressed form of a dumped FRI proof computed by the model, the model's
decompression of the Merkle multi-proofs the implementation produced, and
  decompress  <common> <verifier-only> <compressed proof with pis>
      → the FRI proof inside `CompressedProofWithPublicInputs::decompress` as the flat token list of
        `Toks::fri_proof`, or `PANIC`
  vcompressed <common> <verifier-only> <compressed proof with pis>
      → verdict of `CompressedProofWithPublicInputs::verify` (`ACCEPT`, `REJECT:<stage>`, `PANIC`)
  pcompress   <common> <verifier-only> <proof with pis>
      → `ProofWithPublicInputs::compress` (query indices from the transcript), shown like `compress` -/
namespace P2.Drv.C16
open P2 P2.Fri P2.Compress P2.Drv.Parser

def showDigests (ds : List Merkle.Digest) : String :=
  s!"{ds.length} " ++ joinNats (ds.flatMap fun d => d.map (·.val))
def showGLs (xs : List GL) : String := s!"{xs.length} " ++ joinNats (xs.map (·.val))
def showExts (xs : List GL2) : String := s!"{xs.length} " ++ joinNats (xs.flatMap fun x => [x.a.val, x.b.val])

def showCompressed (c : CompressedFriProof) : String :=
  let r := c.rounds
  let ini := r.initial.map fun (k, trees) =>
    s!"{k} {trees.length} " ++ " ".intercalate (trees.map fun (leaf, path) => showGLs leaf ++ " " ++ showDigests path)
  let steps := r.steps.map fun m =>
    s!"{m.length} " ++ " ".intercalate (m.map fun (k, st) => s!"{k} " ++ showExts st.evals ++ " " ++ showDigests st.merkleProof)
  s!"idx {joinNats r.indices} | init {r.initial.length} " ++ " ".intercalate ini ++ " | steps " ++ " ; ".intercalate steps

def pCompressReq : Parser String := do
  let p ← pFriParams
  let idx ← list nat
  let proof ← pFriProof
  pure (match compress proof idx p with
    | none => "PANIC"
    | some c => showCompressed c)

/-- path (de)compression on explicit data: height cap nIdx idx… then for each index a leaf (as a
digest-sized or arbitrary list) and its full proof; answer: compressed proofs and the round trip -/
def pPathReq : Parser String := do
  let height ← nat; let capH ← nat
  let idx ← list nat
  let leaves ← rep idx.length (list gl)
  let proofs ← rep idx.length (list digest)
  let comp := PathCompression.compress height capH idx proofs
  let back := PathCompression.decompress Merkle.poseidonHasher leaves idx comp height capH
  let ok := match back with
    | some b => if b == proofs then "ROUNDTRIP-OK" else "ROUNDTRIP-DIFFERS"
    | none => "DECOMPRESS-PANIC"
  pure ok

/-- the flat token list of `Toks::fri_proof` -/
def friProofToks (p : Fri.Proof) : List Nat :=
  let digests (ds : List Merkle.Digest) : List Nat := ds.length :: ds.flatMap fun d => d.map (·.val)
  let exts (xs : List GL2) : List Nat := xs.length :: xs.flatMap fun x => [x.a.val, x.b.val]
  [p.commitCaps.length] ++ p.commitCaps.flatMap digests ++ [p.queries.length] ++
  p.queries.flatMap (fun q =>
    [q.initial.length] ++ q.initial.flatMap (fun (leaf, mp) => (leaf.length :: leaf.map (·.val)) ++ digests mp) ++
    [q.steps.length] ++ q.steps.flatMap (fun st => exts st.evals ++ digests st.merkleProof)) ++
  exts p.finalPoly ++ [p.powWitness.val]

def pDecompressReq : Parser String := do
  let c ← pCommon
  let vd ← pVerifierOnly
  let cpp ← C17.pCompressedProofWithPis
  pure (match Decompress.decompressProof c vd.circuitDigest cpp with
    | none => "PANIC"
    | some pp => joinNats (friProofToks pp.proof.openingProof))

def pVerifyCompressedReq : Parser String := do
  let c ← pCommon
  let vd ← pVerifierOnly
  let cpp ← C17.pCompressedProofWithPis
  pure (C03.showVerdict (Decompress.verifyCompressed c vd cpp))

def pPlonkCompressReq : Parser String := do
  let c ← pCommon
  let vd ← pVerifierOnly
  let pp ← pProofWithPis
  pure (match Decompress.compressProof c vd.circuitDigest pp with
    | none => "PANIC"
    | some cpp => showCompressed cpp.proof.openingProof)

def handle (op : String) (a : List Nat) : Option String :=
  match op, a with
  | "decompress", toks => some ((Parser.runAll pDecompressReq toks).getD "PARSE-ERROR")
  | "vcompressed", toks => some ((Parser.runAll pVerifyCompressedReq toks).getD "PARSE-ERROR")
  | "pcompress", toks => some ((Parser.runAll pPlonkCompressReq toks).getD "PARSE-ERROR")
  | "compress", toks => some ((Parser.runAll pCompressReq toks).getD "PARSE-ERROR")
  | "paths", toks => some ((Parser.runAll pPathReq toks).getD "PARSE-ERROR")
  | _, _ => none

end P2.Drv.C16
