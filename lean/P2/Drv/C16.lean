import P2.Drv.ParsePlonk
import P2.Model.Compress
import P2.Drv.Util
/- C16 requests: the compressed form of a dumped FRI proof computed by the model, and the model's
decompression of the Merkle multi-proofs the implementation produced. -/
namespace P2.Drv.C16
open P2 P2.Fri P2.Compress P2.Drv.Parser

def showDigests (ds : List Merkle.Digest) : String :=
  s!"{ds.length} " ++ joinNats (ds.flatMap fun d => d.map (·.val))
def showGLs (xs : List GL) : String := s!"{xs.length} " ++ joinNats (xs.map (·.val))
def showExts (xs : List GL2) : String := s!"{xs.length} " ++ joinNats (xs.flatMap fun x => [x.a.val, x.b.val])

def showCompressed (c : CompressedFriProof) : String :=
  let r := c.rounds
  let ini := r.initial.map fun (k, trees) =>
    s!"{k} {trees.length} " ++ " ".intercalate (trees.map fun (leaf, path) => showGLs leaf ++ " " ++ showDigests path)
  let steps := r.steps.map fun m =>
    s!"{m.length} " ++ " ".intercalate (m.map fun (k, st) => s!"{k} " ++ showExts st.evals ++ " " ++ showDigests st.merkleProof)
  s!"idx {joinNats r.indices} | init {r.initial.length} " ++ " ".intercalate ini ++ " | steps " ++ " ; ".intercalate steps

def pCompressReq : Parser String := do
  let p ← pFriParams
  let idx ← list nat
  let proof ← pFriProof
  pure (match compress proof idx p with
    | none => "PANIC"
    | some c => showCompressed c)

/-- path (de)compression on explicit data: height cap nIdx idx… then for each index a leaf (as a
digest-sized or arbitrary list) and its full proof; answer: compressed proofs and the round trip -/
def pPathReq : Parser String := do
  let height ← nat; let capH ← nat
  let idx ← list nat
  let leaves ← rep idx.length (list gl)
  let proofs ← rep idx.length (list digest)
  let comp := PathCompression.compress height capH idx proofs
  let back := PathCompression.decompress Merkle.poseidonHasher leaves idx comp height capH
  let ok := match back with
    | some b => if b == proofs then "ROUNDTRIP-OK" else "ROUNDTRIP-DIFFERS"
    | none => "DECOMPRESS-PANIC"
  pure ok

def handle (op : String) (a : List Nat) : Option String :=
  match op, a with
  | "compress", toks => some ((Parser.runAll pCompressReq toks).getD "PARSE-ERROR")
  | "paths", toks => some ((Parser.runAll pPathReq toks).getD "PARSE-ERROR")
  | _, _ => none

end P2.Drv.C16
