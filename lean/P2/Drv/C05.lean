import P2.Drv.Parse
import P2.Drv.Util
import P2.Model.BatchFri
/- C05 requests: the FRI verifier's verdict (with stage) on dumped instances/proofs/challenges,
the arity schedule of each reduction strategy, `compute_evaluation`. -/
namespace P2.Drv.C05
open P2 P2.Fri P2.Drv.Parser

def showVerdict : Verdict → String
  | .accept => "ACCEPT"
  | .reject s => if s.startsWith "merkle" then "REJECT:merkle" else s!"REJECT:{s}"
  | .panic _ => "PANIC"

def pVerify : Parser Verdict := do
  let p ← pFriParams
  let inst ← pInstance
  let op ← pOpenings
  let ch ← pChallenges
  let caps ← list pCap
  let proof ← pFriProof
  pure (verify inst op ch caps proof p)

/-- `c05 bverify`: the dump written by `harness/src/c05b.rs::BCase::request`:
params, instances, openings (one `FriOpenings` per instance), challenges, degree bits, initial caps, proof -/
def pBVerify : Parser Verdict := do
  let p ← pFriParams
  let insts ← list pInstance
  let ops ← list pOpenings
  let ch ← pChallenges
  let degreeBits ← list nat
  let caps ← list pCap
  let proof ← pFriProof
  pure (BatchFri.verifyBatch insts ops ch degreeBits caps proof p)

def handle (op : String) (a : List Nat) : Option String :=
  match op, a with
  | "verify", toks => some ((Parser.runAll pVerify toks).map showVerdict |>.getD "PARSE-ERROR")
  | "bverify", toks => some ((Parser.runAll pBVerify toks).map showVerdict |>.getD "PARSE-ERROR")
  | "constarity", [ab, f, degreeBits, rateBits, capHeight] =>
    some (match constantArityBits ab f rateBits capHeight (degreeBits + 2) degreeBits with
      | none => "PANIC"
      | some l => joinNats l)
  | "compeval", x :: within :: ab :: ba :: bb :: ev =>
    let evals := (List.range (ev.length / 2)).map fun i => (⟨GL.ofNat ev[2*i]!, GL.ofNat ev[2*i+1]!⟩ : GL2)
    let r := computeEvaluation (GL.ofNat x) within ab evals ⟨GL.ofNat ba, GL.ofNat bb⟩
    some s!"{r.a.val} {r.b.val}"
  | _, _ => none

end P2.Drv.C05
