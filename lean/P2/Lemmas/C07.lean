/-
Helpers for C07 (gate constraints vs. witness generators): rows over a Mathlib field, single-wire
replacement, list/array indexing lemmas, the generic replacement lemmas (T0) and the link between
the executable `FOps GL` instance and `FOps.ofField GL`.
-/
import Mathlib.Tactic.Ring
import Mathlib.Tactic.LinearCombination
import Mathlib.Algebra.Field.Basic
import Mathlib.Algebra.Field.ZMod
import P2.Lemmas.GL1
import P2.Lemmas.C15
import P2.Model.Gates

set_option linter.unusedSectionVars false
set_option linter.unusedSimpArgs false

namespace P2.Lemmas.C07
open P2 P2.Gates

/-! ## rows, replacement of one wire -/

section Rows
variable {K : Type} [Inhabited K]

/-- replace wire `k` of the row by `x` (a no-op when `k` is outside the row) -/
def setW (v : EvalVars K) (k : Nat) (x : K) : EvalVars K := { v with wires := v.wires.set! k x }

/-- `v'` is `v` with the value of wire `k` (and nothing else the gate can read) changed -/
structure DiffersOnlyAt (v v' : EvalVars K) (k : Nat) : Prop where
  constants : v'.constants = v.constants
  pih : v'.pih = v.pih
  same : ∀ j, j ≠ k → v'.wires[j]! = v.wires[j]!
  diff : v'.wires[k]! ≠ v.wires[k]!

theorem getElem!_set! (a : Array K) (k j : Nat) (x : K) :
    (a.set! k x)[j]! = if j = k ∧ k < a.size then x else a[j]! := by
  simp only [Array.set!, getElem!_def, Array.getElem?_setIfInBounds]
  by_cases h : k = j
  · subst h
    by_cases h2 : k < a.size
    · simp [h2]
    · simp [h2]
  · have : ¬ j = k := fun e => h e.symm
    simp [h, this]

theorem getElem!_set!_self (a : Array K) (k : Nat) (x : K) (h : k < a.size) :
    (a.set! k x)[k]! = x := by rw [getElem!_set!]; simp [h]

theorem getElem!_set!_ne (a : Array K) (k j : Nat) (x : K) (h : j ≠ k) :
    (a.set! k x)[j]! = a[j]! := by rw [getElem!_set!]; simp [h]

@[simp] theorem size_set! (a : Array K) (k : Nat) (x : K) : (a.set! k x).size = a.size := by
  simp [Array.set!]

theorem setW_differs (v : EvalVars K) (k : Nat) (x : K) (hk : k < v.wires.size)
    (hx : x ≠ v.wires[k]!) : DiffersOnlyAt v (setW v k x) k where
  constants := rfl
  pih := rfl
  same := fun j hj => getElem!_set!_ne _ _ _ _ hj
  diff := by simp only [setW]; rw [getElem!_set!_self _ _ _ hk]; exact hx

end Rows

/-! ## indexing into the constraint lists -/

section Lists
variable {α : Type}

theorem getD_map_range (n : Nat) (f : Nat → α) (i : Nat) (d : α) :
    ((List.range n).map f).getD i d = if i < n then f i else d := by
  rw [List.getD_eq_getElem?_getD, List.getElem?_map]
  by_cases h : i < n
  · simp [h]
  · simp [h]

theorem getElem?_map_range (n : Nat) (f : Nat → α) (i : Nat) :
    ((List.range n).map f)[i]? = if i < n then some (f i) else none := by
  rw [List.getElem?_map]
  by_cases h : i < n
  · simp [h]
  · simp [h]

/-- chunks of constant length `m`: entry `m·i + r` of the concatenation is entry `r` of chunk `i` -/
theorem getElem?_flatMap_range (n m : Nat) (f : Nat → List α) (hf : ∀ i, (f i).length = m)
    (i r : Nat) (hi : i < n) (hr : r < m) :
    ((List.range n).flatMap f)[m * i + r]? = (f i)[r]? := by
  induction n with
  | zero => omega
  | succ n ih =>
    rw [List.range_succ, List.flatMap_append]
    have hlen : ((List.range n).flatMap f).length = m * n := by
      clear ih hi
      induction n with
      | zero => simp
      | succ n ih => rw [List.range_succ, List.flatMap_append]; simp [ih, hf]; ring
    by_cases h : i < n
    · rw [List.getElem?_append_left, ih h]
      rw [hlen]
      calc m * i + r < m * i + m := by omega
        _ = m * (i + 1) := by ring
        _ ≤ m * n := Nat.mul_le_mul_left _ h
    · have : i = n := by omega
      subst this
      rw [List.getElem?_append_right (by rw [hlen]; omega), hlen]
      simp

theorem length_flatMap_range (n m : Nat) (f : Nat → List α) (hf : ∀ i, (f i).length = m) :
    ((List.range n).flatMap f).length = m * n := by
  induction n with
  | zero => simp
  | succ n ih => rw [List.range_succ, List.flatMap_append]; simp [ih, hf]; ring

theorem getElem?_flatMap_range_of_ge (n m : Nat) (f : Nat → List α) (hf : ∀ i, (f i).length = m)
    (j : Nat) (hj : m * n ≤ j) : ((List.range n).flatMap f)[j]? = none := by
  rw [List.getElem?_eq_none_iff, length_flatMap_range n m f hf]; exact hj

/-- every entry of a concatenation of chunks is zero iff every chunk is all-zero -/
theorem forall_mem_flatMap_range {p : α → Prop} (n : Nat) (f : Nat → List α) :
    (∀ c ∈ (List.range n).flatMap f, p c) ↔ ∀ i, i < n → ∀ c ∈ f i, p c := by
  simp only [List.mem_flatMap, List.mem_range]
  constructor
  · intro h i hi c hc; exact h c ⟨i, hi, hc⟩
  · rintro h c ⟨i, hi, hc⟩; exact h i hi c hc

theorem forall_mem_map_range {β : Type} {p : β → Prop} (n : Nat) (f : Nat → β) :
    (∀ c ∈ (List.range n).map f, p c) ↔ ∀ i, i < n → p (f i) := by
  simp only [List.mem_map, List.mem_range]
  constructor
  · intro h i hi; exact h _ ⟨i, hi, rfl⟩
  · rintro h c ⟨i, hi, rfl⟩; exact h i hi

end Lists

/-! ## the evaluator over a Mathlib field -/

section Field
variable {K : Type} [Field K] [DecidableEq K] [Inhabited K]

/-- `Gate::eval_unfiltered` of the model, with the operations of the Mathlib field `K` -/
abbrev evalF (g : GateKind) (v : EvalVars K) : List K :=
  @GateKind.evalUnfiltered K (FOps.ofField K) _ g v

/-- the row satisfies the gate: every constraint evaluates to zero -/
def Sat (g : GateKind) (v : EvalVars K) : Prop := ∀ c ∈ evalF g v, c = 0

/-- constraint number `i` of the gate on the row (`0` past the end of the list) -/
abbrev con (g : GateKind) (v : EvalVars K) (i : Nat) : K := (evalF g v).getD i 0

theorem sat_iff_con (g : GateKind) (v : EvalVars K) : Sat g v ↔ ∀ i, con g v i = 0 := by
  unfold Sat con
  constructor
  · intro h i
    rw [List.getD_eq_getElem?_getD]
    cases hc : (evalF g v)[i]? with
    | none => rfl
    | some c => exact h c (List.mem_of_getElem? hc)
  · intro h c hc
    obtain ⟨i, hi, rfl⟩ := List.getElem_of_mem hc
    have := h i
    rw [List.getD_eq_getElem?_getD, List.getElem?_eq_getElem hi] at this
    exact this

/-! ## T0: the generic replacement lemmas -/

/-- a constraint `w_k − e(row)` with `e` independent of wire `k`: changing wire `k` of a row on
which the constraint vanishes makes it non-zero -/
theorem replace_sub (ws : Array K) (k : Nat) (hk : k < ws.size) (e : Array K → K)
    (hind : ∀ x, e (ws.set! k x) = e ws) (h0 : ws[k]! - e ws = 0)
    (x : K) (hx : x ≠ ws[k]!) : (ws.set! k x)[k]! - e (ws.set! k x) ≠ 0 := by
  rw [hind, getElem!_set!_self _ _ _ hk]
  intro h
  apply hx
  rw [sub_eq_zero] at h h0
  rw [h, h0]

/-- the mirrored shape `e(row) − w_k` -/
theorem replace_sub' (ws : Array K) (k : Nat) (hk : k < ws.size) (e : Array K → K)
    (hind : ∀ x, e (ws.set! k x) = e ws) (h0 : e ws - ws[k]! = 0)
    (x : K) (hx : x ≠ ws[k]!) : e (ws.set! k x) - (ws.set! k x)[k]! ≠ 0 := by
  rw [hind, getElem!_set!_self _ _ _ hk]
  intro h
  apply hx
  rw [sub_eq_zero] at h h0
  rw [← h, ← h0]

/-- the affine shape `a(row)·w_k + b(row)` with `a`, `b` independent of wire `k` and `a ≠ 0` -/
theorem replace_affine (ws : Array K) (k : Nat) (hk : k < ws.size) (a b : Array K → K)
    (ha : ∀ x, a (ws.set! k x) = a ws) (hb : ∀ x, b (ws.set! k x) = b ws)
    (hne : a ws ≠ 0) (h0 : a ws * ws[k]! + b ws = 0)
    (x : K) (hx : x ≠ ws[k]!) :
    a (ws.set! k x) * (ws.set! k x)[k]! + b (ws.set! k x) ≠ 0 := by
  rw [ha, hb, getElem!_set!_self _ _ _ hk]
  intro h
  apply hx
  have : a ws * (x - ws[k]!) = 0 := by linear_combination h - h0
  rcases mul_eq_zero.1 this with h1 | h1
  · exact absurd h1 hne
  · exact sub_eq_zero.1 h1

/-- the same three facts for rows given as functions `Nat → K` (no bounds to track) -/
theorem replace_sub_fun (w : Nat → K) (k : Nat) (e : (Nat → K) → K)
    (hind : ∀ x, e (Function.update w k x) = e w) (h0 : w k - e w = 0)
    (x : K) (hx : x ≠ w k) : (Function.update w k x) k - e (Function.update w k x) ≠ 0 := by
  rw [hind, Function.update_self]
  intro h
  apply hx
  rw [sub_eq_zero] at h h0
  rw [h, h0]

theorem replace_affine_fun (w : Nat → K) (k : Nat) (a b : (Nat → K) → K)
    (ha : ∀ x, a (Function.update w k x) = a w) (hb : ∀ x, b (Function.update w k x) = b w)
    (hne : a w ≠ 0) (h0 : a w * w k + b w = 0) (x : K) (hx : x ≠ w k) :
    a (Function.update w k x) * (Function.update w k x) k + b (Function.update w k x) ≠ 0 := by
  rw [ha, hb, Function.update_self]
  intro h
  apply hx
  have : a w * (x - w k) = 0 := by linear_combination h - h0
  rcases mul_eq_zero.1 this with h1 | h1
  · exact absurd h1 hne
  · exact sub_eq_zero.1 h1

end Field

/-! ## `GL` as a Mathlib field, and the executable instance -/

instance glPrime : Fact (Nat.Prime GLP) := ⟨P2.L0.P_prime_lit⟩

/-- `GL = Fin GLP` is definitionally `ZMod GLP` -/
@[reducible] def glField : Field P2.GL := ZMod.instField GLP


section GLTransfer
attribute [local instance] glField

/-- the executable operations on `GL` are the field operations of `ZMod GLP` (all but `inv`, which
no gate evaluator uses, definitionally) -/
theorem fops_GL_eq : instFOpsGL = { FOps.ofField P2.GL with inv := GL.inv } := rfl

theorem ofNat_GL (n : Nat) : (GL.ofNat n : P2.GL) = (n : P2.GL) := rfl

theorem raFoldPairs_GL (b : P2.GL) (l : List P2.GL) :
    @raFoldPairs P2.GL instFOpsGL b l = @raFoldPairs P2.GL (FOps.ofField P2.GL) b l := by
  induction l using raFoldPairs.induct with
  | case1 x y rest ih => simp only [raFoldPairs]; rw [ih]
  | case2 l h =>
    unfold raFoldPairs
    split
    · next x y rest => exact absurd rfl (h x y rest)
    · rfl

/-- on `GL` the model's executable evaluator IS the field-level evaluator `evalF` -/
theorem evalGL_arithmetic (n : Nat) (v : EvalVars P2.GL) :
    (GateKind.arithmetic n).evalUnfiltered v = evalF (.arithmetic n) v := rfl
theorem evalGL_arithmeticExt (n : Nat) (v : EvalVars P2.GL) :
    (GateKind.arithmeticExt n).evalUnfiltered v = evalF (.arithmeticExt n) v := rfl
theorem evalGL_mulExt (n : Nat) (v : EvalVars P2.GL) :
    (GateKind.mulExt n).evalUnfiltered v = evalF (.mulExt n) v := rfl
theorem evalGL_baseSum (b l : Nat) (v : EvalVars P2.GL) :
    (GateKind.baseSum b l).evalUnfiltered v = evalF (.baseSum b l) v := rfl
theorem evalGL_constant (n : Nat) (v : EvalVars P2.GL) :
    (GateKind.constant n).evalUnfiltered v = evalF (.constant n) v := rfl
theorem evalGL_exponentiation (n : Nat) (v : EvalVars P2.GL) :
    (GateKind.exponentiation n).evalUnfiltered v = evalF (.exponentiation n) v := rfl
theorem evalGL_publicInput (v : EvalVars P2.GL) :
    (GateKind.publicInput).evalUnfiltered v = evalF (.publicInput) v := rfl
theorem evalGL_poseidonMds (v : EvalVars P2.GL) :
    (GateKind.poseidonMds).evalUnfiltered v = evalF (.poseidonMds) v := rfl
theorem evalGL_reducing (n : Nat) (v : EvalVars P2.GL) :
    (GateKind.reducing n).evalUnfiltered v = evalF (.reducing n) v := rfl
theorem evalGL_reducingExt (n : Nat) (v : EvalVars P2.GL) :
    (GateKind.reducingExt n).evalUnfiltered v = evalF (.reducingExt n) v := rfl
theorem evalGL_randomAccess (b c e : Nat) (v : EvalVars P2.GL) :
    (GateKind.randomAccess b c e).evalUnfiltered v = evalF (.randomAccess b c e) v := by
  simp only [evalF, GateKind.evalUnfiltered, evalRandomAccess]
  have : @raFoldPairs P2.GL instFOpsGL = @raFoldPairs P2.GL (FOps.ofField P2.GL) := by
    funext b l; exact raFoldPairs_GL b l
  rw [this]
  rfl

/-- the row the model's generator produces, as evaluation variables -/
def genRow (g : GateKind) (consts wires pih : Array P2.GL) : EvalVars P2.GL :=
  ⟨consts, g.generate consts wires, pih⟩

end GLTransfer

end P2.Lemmas.C07

