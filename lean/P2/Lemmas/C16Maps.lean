/-
C16 (d): the first-wins maps of `FriProof::compress` as association lists: `insertFirstWins`
(`entry(k).or_insert(v)`), `sortByKey` (canonical order of the dump) and `lookupKey` (`map[&k]`).
-/
import P2.Model.Decompress
import Batteries.Tactic.OpenPrivate
open private Array.qsort.sort Array.qpartition.loop from Init.Data.Array.QSort.Basic
namespace P2.Lemmas.C16
open P2 P2.Compress P2.Decompress

variable {α : Type}

def keys (m : List (Nat × α)) : List Nat := m.map (·.1)

theorem lookupKey_nil (k : Nat) : lookupKey ([] : List (Nat × α)) k = none := rfl

theorem lookupKey_cons (a : Nat × α) (m : List (Nat × α)) (k : Nat) :
    lookupKey (a :: m) k = if a.1 = k then some a.2 else lookupKey m k := by
  unfold lookupKey
  rw [List.find?_cons]
  by_cases h : a.1 = k
  · simp [h]
  · have : (a.1 == k) = false := by simpa using h
    simp [this, h]

theorem lookupKey_eq_none_iff (m : List (Nat × α)) (k : Nat) :
    lookupKey m k = none ↔ k ∉ keys m := by
  induction m with
  | nil => simp [lookupKey_nil, keys]
  | cons a m ih =>
    rw [lookupKey_cons]
    by_cases h : a.1 = k
    · simp [h, keys]
    · simp only [h, if_false, ih, keys, List.map_cons, List.mem_cons, not_or]
      constructor
      · intro h'; exact ⟨fun e => h e.symm, h'⟩
      · intro h'; exact h'.2

theorem lookupKey_append (m m' : List (Nat × α)) (k : Nat) :
    lookupKey (m ++ m') k = (lookupKey m k).or (lookupKey m' k) := by
  induction m with
  | nil => cases h : lookupKey m' k <;> simp [lookupKey_nil, h]
  | cons a m ih =>
    rw [List.cons_append, lookupKey_cons, lookupKey_cons]
    split <;> simp [ih]

theorem any_key_iff (m : List (Nat × α)) (k : Nat) :
    (m.any (·.1 == k)) = true ↔ k ∈ keys m := by
  simp only [List.any_eq_true, beq_iff_eq, keys, List.mem_map]

/-- `entry(k).or_insert(v)`: an existing binding is kept -/
theorem lookupKey_insertFirstWins (m : List (Nat × α)) (k : Nat) (v : α) (k' : Nat) :
    lookupKey (insertFirstWins m k v) k' =
      (lookupKey m k').or (if k = k' then some v else none) := by
  unfold insertFirstWins
  by_cases h : (m.any (·.1 == k)) = true
  · rw [if_pos h]
    by_cases e : k = k'
    · subst e
      have : lookupKey m k ≠ none := by
        rw [Ne, lookupKey_eq_none_iff]; exact fun h' => h' ((any_key_iff m k).1 h)
      cases hl : lookupKey m k with
      | none => exact absurd hl this
      | some v' => simp
    · simp [e]
  · rw [if_neg h, lookupKey_append, lookupKey_cons]
    simp [lookupKey_nil]

theorem keys_insertFirstWins (m : List (Nat × α)) (k : Nat) (v : α) :
    keys (insertFirstWins m k v) = if k ∈ keys m then keys m else keys m ++ [k] := by
  unfold insertFirstWins
  by_cases h : (m.any (·.1 == k)) = true
  · rw [if_pos h, if_pos ((any_key_iff m k).1 h)]
  · rw [if_neg h, if_neg (fun h' => h ((any_key_iff m k).2 h'))]
    simp [keys]

theorem nodup_keys_insertFirstWins (m : List (Nat × α)) (k : Nat) (v : α)
    (h : (keys m).Nodup) : (keys (insertFirstWins m k v)).Nodup := by
  rw [keys_insertFirstWins]
  split
  · exact h
  · rename_i hk
    rw [List.nodup_append]
    exact ⟨h, by simp, by intro a ha b hb; simp at hb; subst hb; exact fun e => hk (e ▸ ha)⟩

/-- the map built by a sequence of `entry(k).or_insert(v)` -/
def foldIns (m : List (Nat × α)) (kvs : List (Nat × α)) : List (Nat × α) :=
  kvs.foldl (fun m kv => insertFirstWins m kv.1 kv.2) m

/-- **(d1)** lookup after the fold: the existing binding, else the entry of the FIRST pair with
that key -/
theorem lookupKey_foldIns (kvs : List (Nat × α)) : ∀ (m : List (Nat × α)) (k : Nat),
    lookupKey (foldIns m kvs) k = (lookupKey m k).or (lookupKey kvs k) := by
  induction kvs with
  | nil => intro m k; simp [foldIns, lookupKey_nil]
  | cons kv kvs ih =>
    intro m k
    show lookupKey (foldIns (insertFirstWins m kv.1 kv.2) kvs) k = _
    rw [ih, lookupKey_insertFirstWins, lookupKey_cons]
    cases lookupKey m k <;> by_cases e : kv.1 = k <;> simp [e]

theorem nodup_keys_foldIns (kvs : List (Nat × α)) : ∀ (m : List (Nat × α)),
    (keys m).Nodup → (keys (foldIns m kvs)).Nodup := by
  induction kvs with
  | nil => intro m h; exact h
  | cons kv kvs ih =>
    intro m h
    exact ih _ (nodup_keys_insertFirstWins m kv.1 kv.2 h)

theorem mem_of_lookupKey {m : List (Nat × α)} {k : Nat} {v : α} (h : lookupKey m k = some v) :
    (k, v) ∈ m := by
  induction m with
  | nil => simp [lookupKey_nil] at h
  | cons a m ih =>
    rw [lookupKey_cons] at h
    split at h
    · rename_i e
      simp only [Option.some.injEq] at h
      subst e; subst h; simp
    · exact List.mem_cons_of_mem _ (ih h)

theorem lookupKey_of_mem {m : List (Nat × α)} (hn : (keys m).Nodup) {k : Nat} {v : α}
    (h : (k, v) ∈ m) : lookupKey m k = some v := by
  induction m with
  | nil => simp at h
  | cons a m ih =>
    rw [lookupKey_cons]
    simp only [keys, List.map_cons, List.nodup_cons] at hn
    rcases List.mem_cons.1 h with e | h'
    · subst e; simp
    · have hne : a.1 ≠ k := by
        intro e
        apply hn.1
        rw [e]
        exact List.mem_map.2 ⟨(k, v), h', rfl⟩
      rw [if_neg hne]
      exact ih hn.2 h'

/-- lookups in maps with distinct keys only depend on the set of bindings -/
theorem lookupKey_perm {m m' : List (Nat × α)} (hp : m.Perm m') (hn : (keys m).Nodup) (k : Nat) :
    lookupKey m' k = lookupKey m k := by
  have hn' : (keys m').Nodup := (hp.map (fun x : Nat × α => x.1)).nodup_iff.1 hn
  cases h : lookupKey m k with
  | some v => exact lookupKey_of_mem hn' (hp.mem_iff.1 (mem_of_lookupKey h))
  | none =>
    rw [lookupKey_eq_none_iff] at h ⊢
    intro hk
    exact h ((hp.map (fun x : Nat × α => x.1)).mem_iff.2 hk)

/-! #### `Array.qsort` returns a permutation -/

theorem qpartition_loop_perm {n : Nat} (lt : α → α → Bool) (lo hi : Nat) (hhi : hi < n) (pivot : α)
    (as : Vector α n) (i k : Nat) (ilo : lo ≤ i) (ik : i ≤ k) (w : k ≤ hi) :
    (Array.qpartition.loop lt lo hi hhi pivot as i k ilo ik w).2.Perm as := by
  fun_induction Array.qpartition.loop lt lo hi hhi pivot as i k ilo ik w with
  | case1 as i k ilo ik w h hlt ih =>
    exact ih.trans (Vector.swap_perm (by omega) (by omega))
  | case2 as i k ilo ik w h hlt ih => exact ih
  | case3 as i k ilo ik w h => exact Vector.swap_perm (by omega) (by omega)

theorem qpartition_perm {n : Nat} (as : Vector α n) (lt : α → α → Bool) (lo hi : Nat) (w : lo ≤ hi)
    (hlo : lo < n) (hhi : hi < n) : (Array.qpartition as lt lo hi w hlo hhi).2.Perm as := by
  unfold Array.qpartition
  simp only []
  refine (qpartition_loop_perm lt lo hi hhi _ _ lo lo _ _ _).trans ?_
  have hmid : (lo + hi) / 2 < n := by omega
  have s1 : ∀ (v : Vector α n) (c : Prop) [Decidable c] (a b : Nat) (ha : a < n) (hb : b < n),
      (if c then v.swap a b else v).Perm v := by
    intro v c _ a b ha hb
    split
    · exact Vector.swap_perm ha hb
    · exact Vector.Perm.refl _
  refine (s1 _ _ _ _ hmid hhi).trans ?_
  refine (s1 _ _ _ _ hlo hhi).trans ?_
  exact s1 _ _ _ _ hlo hmid

theorem qsort_sort_perm {n : Nat} (lt : α → α → Bool) (as : Vector α n) (lo hi : Nat) (w : lo ≤ hi)
    (hlo : lo < n) (hhi : hi < n) : (Array.qsort.sort lt as lo hi w hlo hhi).Perm as := by
  fun_induction Array.qsort.sort lt as lo hi w hlo hhi with
  | case1 as lo hi w hlo hhi h₁ mid hmid as' heq h₂ =>
    have := qpartition_perm as lt lo hi w hlo hhi
    rw [heq] at this
    exact this
  | case2 as lo hi w hlo hhi h₁ mid hmid as' heq h₂ ih0 ih1 ih2 =>
    have := qpartition_perm as lt lo hi w hlo hhi
    rw [heq] at this
    exact (ih2.trans ih1).trans this
  | case3 as lo hi w hlo hhi h₁ => exact Vector.Perm.refl _

theorem qsort_perm (as : Array α) (lt : α → α → Bool) : (as.qsort lt).Perm as := by
  unfold Array.qsort
  split
  · exact Array.Perm.refl _
  · simp only []
    have := qsort_sort_perm lt as.toVector (min 0 (as.size - 1))
      (max (min 0 (as.size - 1)) (min (as.size - 1) (as.size - 1))) (by omega) (by omega) (by omega)
    exact Vector.Perm.toArray this

theorem sortByKey_perm (m : List (Nat × α)) : (sortByKey m).Perm m := by
  unfold sortByKey
  have := qsort_perm m.toArray (fun a b => decide (a.1 < b.1))
  have h2 := Array.Perm.toList this
  simpa using h2

/-- **(d2)** sorting by key preserves lookups when the keys are distinct -/
theorem lookupKey_sortByKey (m : List (Nat × α)) (hn : (keys m).Nodup) (k : Nat) :
    lookupKey (sortByKey m) k = lookupKey m k :=
  lookupKey_perm (sortByKey_perm m).symm hn k

/-- **(d)** the maps of `compress`: lookup in the sorted first-wins map built from `kvs` returns
the value of the FIRST pair with that key -/
theorem lookupKey_sorted_foldIns (kvs : List (Nat × α)) (k : Nat) :
    lookupKey (sortByKey (foldIns [] kvs)) k = lookupKey kvs k := by
  rw [lookupKey_sortByKey _ (nodup_keys_foldIns kvs [] (by simp [keys])), lookupKey_foldIns]
  simp [lookupKey_nil]

end P2.Lemmas.C16
