/-
C07, exponentiation gate (`GateKind.exponentiation n`, `evalExponentiation`, ExponentiationGenerator).
Wires: 0 = base, 1+i (i<n) = power bits (LE), 1+n = output, 2+n+i (i<n) = intermediates.
Constraint i<n: `prev_i·(bit_{n-1-i}·base + (1 − bit_{n-1-i})) − intermediate_i`, constraint n:
`output − intermediate_{n-1}`.  Contents: closed form (`exponentiation_con`), (a) `exponentiation_sat_iff`,
`exponentiation_sat_iff_gen`, `exponentiation_gen_sat`, semantics (`exponentiation_semantics`),
(b) `exponentiation_pinned_*`, (c) `exponentiation_others_*`, phase 2 over `GL`
(`exponentiation_generated_sat`, `exponentiation_generated_value`), examples.
-/
import P2.Lemmas.C07
import Mathlib.Tactic.NormNum
import Mathlib.Algebra.Field.Rat
set_option linter.unusedSectionVars false
namespace P2.Lemmas.C07
open P2 P2.Gates

/-! ## binary value of the top bits -/

/-- value of the top `k` bits of the `n`-bit little-endian number with bits `f 0 … f (n-1)`,
read from the most significant bit downwards (what the gate's square-and-multiply chain computes) -/
def expTop (f : Nat → Nat) (n : Nat) : Nat → Nat
  | 0 => 0
  | k + 1 => 2 * expTop f n k + f (n - k - 1)

theorem expTop_shift (f : Nat → Nat) (n k : Nat) (hk : k ≤ n) :
    expTop f (n + 1) k = expTop (fun j => f (j + 1)) n k := by
  induction k with
  | zero => rfl
  | succ k ih =>
    simp only [expTop]
    rw [ih (by omega)]
    have : n + 1 - k - 1 = n - k - 1 + 1 := by omega
    rw [this]

theorem expTop_full (f : Nat → Nat) (n : Nat) :
    expTop f n n = ∑ j ∈ Finset.range n, f j * 2 ^ j := by
  induction n generalizing f with
  | zero => rfl
  | succ n ih =>
    rw [Finset.sum_range_succ']
    simp only [expTop]
    rw [expTop_shift f n n (le_refl _), ih]
    have : n + 1 - n - 1 = 0 := by omega
    rw [this, Finset.mul_sum]
    simp only [pow_succ, pow_zero, mul_one, Nat.add_left_inj]
    apply Finset.sum_congr rfl
    intro j _
    ring

section
variable {K : Type} [Field K] [DecidableEq K] [Inhabited K]

/-- `prev_i` of the exponentiation gate: `1` for `i = 0`, else the square of intermediate `i-1` -/
def expPrev (n : Nat) (v : EvalVars K) (i : Nat) : K :=
  if i = 0 then 1 else v.wires[2 + n + (i - 1)]! * v.wires[2 + n + (i - 1)]!

theorem expPrev_zero (n : Nat) (v : EvalVars K) : expPrev n v 0 = 1 := rfl
theorem expPrev_succ (n : Nat) (v : EvalVars K) (i : Nat) :
    expPrev n v (i + 1) = v.wires[2 + n + i]! * v.wires[2 + n + i]! := by
  simp [expPrev]

theorem expPrev_congr (n : Nat) (v v' : EvalVars K) (i : Nat)
    (h : i ≠ 0 → v'.wires[2 + n + (i - 1)]! = v.wires[2 + n + (i - 1)]!) :
    expPrev n v' i = expPrev n v i := by
  unfold expPrev
  split
  · rfl
  · next h0 => rw [h h0]

/-- constraint `i` of the exponentiation gate, in field notation -/
theorem exponentiation_con (n : Nat) (v : EvalVars K) (i : Nat) :
    con (.exponentiation n) v i =
      if i < n then
        expPrev n v i * (v.wires[1 + (n - i - 1)]! * v.wires[0]! + (1 - v.wires[1 + (n - i - 1)]!))
          - v.wires[2 + n + i]!
      else if i = n then v.wires[1 + n]! - v.wires[2 + n + (n - 1)]! else 0 := by
  simp only [con, evalF, GateKind.evalUnfiltered, evalExponentiation]
  rw [List.getD_eq_getElem?_getD, List.getElem?_append]
  simp only [List.length_map, List.length_range, getElem?_map_range]
  by_cases h : i < n
  · simp only [h, if_true, Option.getD_some]
    rfl
  · simp only [h, if_false]
    by_cases h2 : i = n
    · subst h2
      simp
      rfl
    · obtain ⟨k, hk⟩ : ∃ k, i - n = k + 1 := ⟨i - n - 1, by omega⟩
      simp [h2, hk]

/-- (a) the gate is satisfied iff every intermediate is `prev·(bit·base + (1 − bit))` and the
output equals the last intermediate -/
theorem exponentiation_sat_iff (n : Nat) (v : EvalVars K) :
    Sat (.exponentiation n) v ↔
      (∀ i, i < n → v.wires[2 + n + i]! =
        expPrev n v i * (v.wires[1 + (n - i - 1)]! * v.wires[0]! + (1 - v.wires[1 + (n - i - 1)]!)))
      ∧ v.wires[1 + n]! = v.wires[2 + n + (n - 1)]! := by
  rw [sat_iff_con]
  constructor
  · intro h
    refine ⟨fun i hi => ?_, ?_⟩
    · have := h i
      rw [exponentiation_con, if_pos hi, sub_eq_zero] at this
      exact this.symm
    · have := h n
      rw [exponentiation_con, if_neg (lt_irrefl n), if_pos rfl, sub_eq_zero] at this
      exact this
  · rintro ⟨h1, h2⟩ i
    rw [exponentiation_con]
    split
    · next hi => rw [sub_eq_zero]; exact (h1 i hi).symm
    · split
      · rw [sub_eq_zero]; exact h2
      · rfl

/-- for a boolean bit, the constraint's multiplier `bit·base + (1 − bit)` is the generator's
`if bit = 1 then base else 1` -/
theorem exp_bit_mul (b base p : K) (hb : b = 0 ∨ b = 1) :
    p * (b * base + (1 - b)) = if b = 1 then p * base else p := by
  rcases hb with rfl | rfl
  · rw [if_neg (zero_ne_one)]; ring
  · rw [if_pos rfl]; ring

/-- (a) under the boolean contract on the power bits, `Sat` is exactly "the intermediates and the
output are the generator's values" -/
theorem exponentiation_sat_iff_gen (n : Nat) (v : EvalVars K)
    (hb : ∀ i, i < n → v.wires[1 + i]! = 0 ∨ v.wires[1 + i]! = 1) :
    Sat (.exponentiation n) v ↔
      (∀ i, i < n → v.wires[2 + n + i]! =
        if v.wires[1 + (n - i - 1)]! = 1 then expPrev n v i * v.wires[0]! else expPrev n v i)
      ∧ v.wires[1 + n]! = v.wires[2 + n + (n - 1)]! := by
  rw [exponentiation_sat_iff]
  constructor
  · rintro ⟨h1, h2⟩
    refine ⟨fun i hi => ?_, h2⟩
    rw [h1 i hi, exp_bit_mul _ _ _ (hb (n - i - 1) (by omega))]
  · rintro ⟨h1, h2⟩
    refine ⟨fun i hi => ?_, h2⟩
    rw [h1 i hi, exp_bit_mul _ _ _ (hb (n - i - 1) (by omega))]

/-- (a) the generated row satisfies the gate (contract: the power bits are boolean) -/
theorem exponentiation_gen_sat (n : Nat) (v : EvalVars K)
    (hb : ∀ i, i < n → v.wires[1 + i]! = 0 ∨ v.wires[1 + i]! = 1)
    (hi : ∀ i, i < n → v.wires[2 + n + i]! =
        if v.wires[1 + (n - i - 1)]! = 1 then expPrev n v i * v.wires[0]! else expPrev n v i)
    (ho : v.wires[1 + n]! = v.wires[2 + n + (n - 1)]!) : Sat (.exponentiation n) v :=
  (exponentiation_sat_iff_gen n v hb).2 ⟨hi, ho⟩

/-- the natural-number value (0/1) of power bit `j` -/
def expBitVal (v : EvalVars K) (j : Nat) : Nat := if v.wires[1 + j]! = 1 then 1 else 0

/-- under the boolean contract, on a satisfying row intermediate `i` is `base ^ (top i+1 bits)` -/
theorem exponentiation_intermediate (n : Nat) (v : EvalVars K)
    (hb : ∀ i, i < n → v.wires[1 + i]! = 0 ∨ v.wires[1 + i]! = 1)
    (hs : Sat (.exponentiation n) v) (i : Nat) (hi : i < n) :
    v.wires[2 + n + i]! = v.wires[0]! ^ expTop (expBitVal v) n (i + 1) := by
  obtain ⟨h1, -⟩ := (exponentiation_sat_iff n v).1 hs
  have hstep : ∀ i, i < n → ∀ e, expPrev n v i = v.wires[0]! ^ (2 * e) →
      v.wires[2 + n + i]! = v.wires[0]! ^ (2 * e + expBitVal v (n - i - 1)) := by
    intro i hi e he
    rw [h1 i hi, he]
    unfold expBitVal
    rcases hb (n - i - 1) (by omega) with h | h
    · rw [h, if_neg zero_ne_one]; ring
    · rw [h, if_pos rfl]; ring
  induction i with
  | zero =>
    have := hstep 0 hi 0 (by rw [expPrev_zero]; simp)
    simpa [expTop] using this
  | succ i ih =>
    have hprev := ih (by omega)
    have := hstep (i + 1) hi (expTop (expBitVal v) n (i + 1))
      (by rw [expPrev_succ, hprev, ← pow_add, two_mul])
    rw [this]
    rfl

/-- the gate computes exponentiation: under the boolean contract, on a satisfying row the output
is `base ^ (Σ_j bit_j · 2^j)` -/
theorem exponentiation_semantics (n : Nat) (hn : 1 ≤ n) (v : EvalVars K)
    (hb : ∀ i, i < n → v.wires[1 + i]! = 0 ∨ v.wires[1 + i]! = 1)
    (hs : Sat (.exponentiation n) v) :
    v.wires[1 + n]! = v.wires[0]! ^ (∑ j ∈ Finset.range n, expBitVal v j * 2 ^ j) := by
  obtain ⟨-, h2⟩ := (exponentiation_sat_iff n v).1 hs
  rw [h2, exponentiation_intermediate n v hb hs (n - 1) (by omega), ← expTop_full]
  have : n - 1 + 1 = n := by omega
  rw [this]

/-! ### (b) pinned, (c) others -/

/-- every generator-written wire is the output `1+n` or an intermediate `2+n+i`, `i < n`: the wires
covered by `exponentiation_pinned_output` / `exponentiation_pinned_intermediate` -/
theorem exponentiation_generatedWires (n k : Nat) :
    k ∈ (GateKind.exponentiation n).generatedWires ↔ k = 1 + n ∨ ∃ i, i < n ∧ k = 2 + n + i := by
  simp only [GateKind.generatedWires, List.mem_map, List.mem_range]
  constructor
  · rintro ⟨i, hi, rfl⟩
    rcases Nat.eq_zero_or_pos i with rfl | h
    · exact Or.inl rfl
    · exact Or.inr ⟨i - 1, by omega, by omega⟩
  · rintro (rfl | ⟨i, hi, rfl⟩)
    · exact ⟨0, by omega, rfl⟩
    · exact ⟨i + 1, by omega, by omega⟩

/-- (b) intermediate `i` (wire `2+n+i`) is pinned by constraint `i` -/
theorem exponentiation_pinned_intermediate (n : Nat) (v v' : EvalVars K) (i : Nat) (hi : i < n)
    (hd : DiffersOnlyAt v v' (2 + n + i)) (h0 : con (.exponentiation n) v i = 0) :
    con (.exponentiation n) v' i ≠ 0 := by
  rw [exponentiation_con, if_pos hi] at h0 ⊢
  rw [expPrev_congr n v v' i (fun _ => hd.same _ (by omega)),
    hd.same (1 + (n - i - 1)) (by omega), hd.same 0 (by omega)]
  intro h
  apply hd.diff
  rw [sub_eq_zero] at h h0
  rw [← h, ← h0]

/-- (b) the output (wire `1+n`) is pinned by constraint `n` (also for `n = 0`, where the "last
intermediate" read by the constraint is wire `2`) -/
theorem exponentiation_pinned_output (n : Nat) (v v' : EvalVars K)
    (hd : DiffersOnlyAt v v' (1 + n)) (h0 : con (.exponentiation n) v n = 0) :
    con (.exponentiation n) v' n ≠ 0 := by
  rw [exponentiation_con, if_neg (lt_irrefl n), if_pos rfl] at h0 ⊢
  rw [hd.same (2 + n + (n - 1)) (by omega)]
  intro h
  apply hd.diff
  rw [sub_eq_zero] at h h0
  rw [h, h0]

/-- (c) replacing intermediate `i` (any `i`) only affects constraints `i` and `i+1` (constraint
`i+1 = n` is the output constraint when `i = n-1`) -/
theorem exponentiation_others_intermediate (n : Nat) (v v' : EvalVars K) (i : Nat)
    (hd : DiffersOnlyAt v v' (2 + n + i)) (j : Nat) (hj : j ≠ i) (hj' : j ≠ i + 1) :
    con (.exponentiation n) v' j = con (.exponentiation n) v j := by
  rw [exponentiation_con, exponentiation_con]
  split
  · next hjn =>
    rw [expPrev_congr n v v' j (fun _ => hd.same _ (by omega)),
      hd.same (1 + (n - j - 1)) (by omega), hd.same 0 (by omega), hd.same (2 + n + j) (by omega)]
  · split
    · next hjn =>
      rw [hd.same (1 + n) (by omega), hd.same (2 + n + (n - 1)) (by omega)]
    · rfl

/-- (c) replacing the output only affects constraint `n` -/
theorem exponentiation_others_output (n : Nat) (v v' : EvalVars K)
    (hd : DiffersOnlyAt v v' (1 + n)) (j : Nat) (hj : j ≠ n) :
    con (.exponentiation n) v' j = con (.exponentiation n) v j := by
  rw [exponentiation_con, exponentiation_con]
  split
  · next hjn =>
    rw [expPrev_congr n v v' j (fun _ => hd.same _ (by omega)),
      hd.same (1 + (n - j - 1)) (by omega), hd.same 0 (by omega), hd.same (2 + n + j) (by omega)]
  · rfl

end

/-! ## phase 2: the model's generator over `GL` -/

section GLGen
attribute [local instance] glField

/-- one step of `ExponentiationGenerator::run_once` (the body of the model's `foldl`) -/
def expStep (n : Nat) (base : P2.GL) (acc : Array P2.GL × P2.GL) (i : Nat) : Array P2.GL × P2.GL :=
  let cur := if acc.1[1 + (n - i - 1)]! = 1 then acc.2 * base else acc.2
  (acc.1.set! (2 + n + i) cur, cur * cur)

theorem generate_exponentiation (n : Nat) (consts wires : Array P2.GL) :
    GateKind.generate (.exponentiation n) consts wires =
      let ws0 := wires ++ Array.replicate (2 + 2 * n - wires.size) (0 : P2.GL)
      let F := (List.range n).foldl (expStep n ws0[0]!) (ws0, 1)
      F.1.set! (1 + n) F.1[2 + n + (n - 1)]! := rfl

theorem pad_getElem! (wires : Array P2.GL) (m j : Nat) :
    (wires ++ Array.replicate m (0 : P2.GL))[j]! = wires[j]! := by
  simp only [getElem!_def, Array.getElem?_append]
  by_cases h : j < wires.size
  · simp [h]
  · simp [h]
    by_cases h2 : j - wires.size < m
    · simp [h2]
    · simp [h2]

/-- invariant of the generator's loop after `k ≤ n` steps -/
theorem expFold_inv (n : Nat) (base : P2.GL) (consts pih ws0 : Array P2.GL)
    (hsz : 2 + 2 * n ≤ ws0.size) (k : Nat) (hk : k ≤ n) :
    let F := (List.range k).foldl (expStep n base) (ws0, 1)
    F.1.size = ws0.size ∧
    (∀ j, (j < 2 + n ∨ 2 + n + k ≤ j) → F.1[j]! = ws0[j]!) ∧
    (∀ j, j < k → F.1[2 + n + j]! =
      if ws0[1 + (n - j - 1)]! = 1 then expPrev n ⟨consts, F.1, pih⟩ j * base
      else expPrev n ⟨consts, F.1, pih⟩ j) ∧
    F.2 = expPrev n ⟨consts, F.1, pih⟩ k := by
  induction k with
  | zero =>
    refine ⟨rfl, fun _ _ => rfl, fun j hj => absurd hj (Nat.not_lt_zero _), rfl⟩
  | succ k ih =>
    obtain ⟨h1, h2, h3, h4⟩ := ih (by omega)
    rw [List.range_succ, List.foldl_append, List.foldl_cons, List.foldl_nil]
    generalize (List.range k).foldl (expStep n base) (ws0, 1) = F at h1 h2 h3 h4
    obtain ⟨ws, cur⟩ := F
    simp only at h1 h2 h3 h4
    simp only [expStep]
    have hin : 2 + n + k < ws.size := by omega
    have hcong : ∀ x j, j ≤ k →
        expPrev n ⟨consts, ws.set! (2 + n + k) x, pih⟩ j = expPrev n ⟨consts, ws, pih⟩ j := by
      intro x j hj
      apply expPrev_congr
      intro h0
      exact getElem!_set!_ne _ _ _ _ (by omega)
    refine ⟨by rw [size_set!]; exact h1, ?_, ?_, ?_⟩
    · intro j hj
      rw [getElem!_set!_ne _ _ _ _ (by omega)]
      exact h2 j (by omega)
    · intro j hj
      by_cases hjk : j < k
      · rw [getElem!_set!_ne _ _ _ _ (by omega), hcong _ j (by omega)]
        exact h3 j hjk
      · have : j = k := by omega
        subst this
        rw [getElem!_set!_self _ _ _ hin, hcong _ j (le_refl _), h2 _ (Or.inl (by omega)), h4]
    · rw [expPrev_succ]
      show _ = (ws.set! (2 + n + k) _)[2 + n + k]! * (ws.set! (2 + n + k) _)[2 + n + k]!
      rw [getElem!_set!_self _ _ _ hin]

/-- phase 2: the row produced by the model's `ExponentiationGenerator` satisfies the gate, for
EVERY `n` (contract: the power-bit wires of the input row are boolean; `wires[1+i]!` of a too-short
input row is the padding value `0`).

`n = 0` is included and is not an exception in the MODEL: the row is padded to `numWires = 2`
wires, the loop does nothing, and the generator's last line reads `ws[2 + 0 + (0 - 1)]! = ws[2]!`
(Nat subtraction) — out of range when the input row has ≤ 2 wires, giving `default = 0` — and
writes it to the output wire `1`.  The gate's only constraint for `n = 0` is
`wire 1 − wire (2 + 0 + (0 − 1)) = wire 1 − wire 2`, which reads the SAME (possibly out-of-range)
wire, so it evaluates to `0`.  (In Rust `num_power_bits = 0` makes `wire_intermediate_value(n − 1)`
underflow: a panic with overflow checks — cf. `GateKind.numWiresChecked` — so that case is outside
the model's intended domain; nothing odd happens for `n ≥ 1`, where every read and write is within
the padded row.) -/
theorem exponentiation_generated_sat (n : Nat) (consts wires pih : Array P2.GL)
    (hb : ∀ i, i < n → wires[1 + i]! = 0 ∨ wires[1 + i]! = 1) :
    ∀ c ∈ (GateKind.exponentiation n).evalUnfiltered
      (genRow (.exponentiation n) consts wires pih), c = 0 := by
  rw [evalGL_exponentiation]
  show Sat (.exponentiation n) _
  unfold genRow
  rw [generate_exponentiation]
  have hsz : 2 + 2 * n ≤ (wires ++ Array.replicate (2 + 2 * n - wires.size) (0 : P2.GL)).size := by
    simp only [Array.size_append, Array.size_replicate]; omega
  generalize hws0 : wires ++ Array.replicate (2 + 2 * n - wires.size) (0 : P2.GL) = ws0 at hsz
  have hb0 : ∀ i, i < n → ws0[1 + i]! = 0 ∨ ws0[1 + i]! = 1 := by
    intro i hi; rw [← hws0, pad_getElem!]; exact hb i hi
  obtain ⟨h1, h2, h3, -⟩ := expFold_inv n ws0[0]! consts pih ws0 hsz n (le_refl _)
  simp only
  generalize (List.range n).foldl (expStep n ws0[0]!) (ws0, 1) = F at h1 h2 h3
  obtain ⟨ws, cur⟩ := F
  simp only at h1 h2 h3 ⊢
  have hne : ∀ j, j ≠ 1 + n → (ws.set! (1 + n) ws[2 + n + (n - 1)]!)[j]! = ws[j]! :=
    fun j hj => getElem!_set!_ne _ _ _ _ hj
  apply exponentiation_gen_sat
  · intro i hi
    show (ws.set! _ _)[1 + i]! = 0 ∨ (ws.set! _ _)[1 + i]! = 1
    rw [hne _ (by omega), h2 _ (Or.inl (by omega))]
    exact hb0 i hi
  · intro i hi
    rw [expPrev_congr n ⟨consts, ws, pih⟩ _ i (fun _ => hne _ (by omega))]
    show (ws.set! _ _)[2 + n + i]! = if (ws.set! _ _)[1 + (n - i - 1)]! = 1 then
      _ * (ws.set! _ _)[0]! else _
    rw [hne _ (by omega), hne _ (by omega), hne _ (by omega), h2 (1 + (n - i - 1)) (Or.inl (by omega)),
      h2 0 (Or.inl (by omega))]
    exact h3 i hi
  · show (ws.set! _ _)[1 + n]! = (ws.set! _ _)[2 + n + (n - 1)]!
    rw [hne (2 + n + (n - 1)) (by omega), getElem!_set!_self _ _ _ (by omega)]

/-- the generator does not touch the input wires (base `0`, power bits `1 … n`) -/
theorem exponentiation_generate_inputs (n : Nat) (consts wires : Array P2.GL) (j : Nat)
    (hj : j < 1 + n) : (GateKind.generate (.exponentiation n) consts wires)[j]! = wires[j]! := by
  rw [generate_exponentiation]
  have hsz : 2 + 2 * n ≤ (wires ++ Array.replicate (2 + 2 * n - wires.size) (0 : P2.GL)).size := by
    simp only [Array.size_append, Array.size_replicate]; omega
  generalize hws0 : wires ++ Array.replicate (2 + 2 * n - wires.size) (0 : P2.GL) = ws0 at hsz
  obtain ⟨-, h2, -, -⟩ := expFold_inv n ws0[0]! consts consts ws0 hsz n (le_refl _)
  simp only
  generalize (List.range n).foldl (expStep n ws0[0]!) (ws0, 1) = F at h2
  obtain ⟨ws, cur⟩ := F
  simp only at h2 ⊢
  rw [getElem!_set!_ne _ _ _ _ (by omega), h2 j (Or.inl (by omega)), ← hws0, pad_getElem!]

/-- end to end: for `n ≥ 1` and boolean power bits the generator's output wire is
`base ^ (Σ_j bit_j·2^j)` -/
theorem exponentiation_generated_value (n : Nat) (hn : 1 ≤ n) (consts wires : Array P2.GL)
    (hb : ∀ i, i < n → wires[1 + i]! = 0 ∨ wires[1 + i]! = 1) :
    (GateKind.generate (.exponentiation n) consts wires)[1 + n]! =
      wires[0]! ^ (∑ j ∈ Finset.range n, (if wires[1 + j]! = 1 then 1 else 0) * 2 ^ j) := by
  have hs : Sat (.exponentiation n) (genRow (.exponentiation n) consts wires consts) := by
    have := exponentiation_generated_sat n consts wires consts hb
    rw [evalGL_exponentiation] at this
    exact this
  have hin : ∀ j, j < 1 + n →
      (genRow (.exponentiation n) consts wires consts).wires[j]! = wires[j]! :=
    fun j hj => exponentiation_generate_inputs n consts wires j hj
  have := exponentiation_semantics n hn _ (fun i hi => by rw [hin _ (by omega)]; exact hb i hi) hs
  rw [hin 0 (by omega)] at this
  rw [show (GateKind.generate (.exponentiation n) consts wires)[1 + n]! =
    (genRow (.exponentiation n) consts wires consts).wires[1 + n]! from rfl, this]
  congr 1
  apply Finset.sum_congr rfl
  intro j hj
  rw [Finset.mem_range] at hj
  unfold expBitVal
  rw [hin _ (by omega)]

end GLGen

/-! ## non-vacuity and sharpness (tiny rows over `ℚ`) -/

section Examples

/-- `3 ^ 0b11 = 27` with `n = 2`: the row `[base, b0, b1, out, int0, int1]` satisfies the gate -/
example : Sat (.exponentiation 2) (⟨#[], #[3, 1, 1, 27, 3, 27], #[]⟩ : EvalVars ℚ) := by
  rw [exponentiation_sat_iff]
  refine ⟨fun i hi => ?_, by simp⟩
  interval_cases i
  all_goals (simp [expPrev]; try norm_num)

/-- … and the semantic theorem gives `27 = 3 ^ (1·2^0 + 1·2^1)` for it -/
example : (27 : ℚ) = 3 ^ (1 * 2 ^ 0 + 1 * 2 ^ 1) := by norm_num

/-- the boolean contract is NEEDED for `exponentiation_gen_sat`: with the non-boolean "bit" 2 the
generator (which only tests `bit = 1`) writes `intermediate_0 = prev_0 = 1`, `output = 1`, while
constraint 0 evaluates to `1·(2·3 + (1 − 2)) − 1 = 4 ≠ 0` -/
example : let v : EvalVars ℚ := ⟨#[], #[3, 2, 1, 1], #[]⟩
    (∀ i, i < 1 → v.wires[2 + 1 + i]! =
      if v.wires[1 + (1 - i - 1)]! = 1 then expPrev 1 v i * v.wires[0]! else expPrev 1 v i)
    ∧ v.wires[1 + 1]! = v.wires[2 + 1 + (1 - 1)]!
    ∧ con (.exponentiation 1) v 0 = 4 ∧ ¬ Sat (.exponentiation 1) v := by
  intro v
  have h4 : con (.exponentiation 1) v 0 = 4 := by
    rw [exponentiation_con]; simp [v, expPrev]; norm_num
  refine ⟨fun i hi => ?_, by simp [v], h4, fun hs => ?_⟩
  · interval_cases i; simp [v, expPrev]
  · have := (sat_iff_con _ _).1 hs 0
    rw [h4] at this
    norm_num at this

/-- the hypotheses of the pinned theorems are satisfiable: change intermediate 0 of the row above -/
example : con (.exponentiation 2) (setW (⟨#[], #[3, 1, 1, 27, 3, 27], #[]⟩ : EvalVars ℚ) 4 5) 0 ≠ 0 := by
  apply exponentiation_pinned_intermediate 2 _ _ 0 (by omega)
  · exact setW_differs _ 4 5 (by simp) (by simp)
  · rw [exponentiation_con]; simp [expPrev]

end Examples
end P2.Lemmas.C07
