/-
C07 helpers: the Poseidon MDS gate (`PoseidonMdsGate`): closed forms of the constraints,
satisfaction ↔ generator equations, pinning, and C07 on the generated row over Goldilocks.
-/
import P2.Lemmas.C07On
import P2.Lemmas.C07Simple
import P2.Lemmas.C07GenGL
set_option linter.unusedSectionVars false
set_option linter.unusedSimpArgs false
namespace P2.Lemmas.C07
open P2 P2.Gates
section
variable {K : Type} [Field K] [DecidableEq K] [Inhabited K]

/-- output `i` of the MDS layer on the row's inputs: what `PoseidonMdsGenerator` writes to wires
`2(12+i), 2(12+i)+1` -/
def mdsOut (v : EvalVars K) (i : Nat) : Alg K :=
  @mdsRowShfAlg K (FOps.ofField K) _ i
    ((Array.range spongeWidth).map fun i => ((v.wires[2 * i]!, v.wires[2 * i + 1]!) : Alg K))

theorem poseidonMds_eval (v : EvalVars K) :
    evalF .poseidonMds v = (List.range 12).flatMap fun i =>
      Alg.comps ((v.wires[2 * (12 + i)]! - (mdsOut v i).1,
        v.wires[2 * (12 + i) + 1]! - (mdsOut v i).2) : Alg K) := by
  rfl

theorem poseidonMds_con (v : EvalVars K) (i : Nat) :
    (con .poseidonMds v (2 * i)
      = if i < 12 then v.wires[2 * (12 + i)]! - (mdsOut v i).1 else 0) ∧
    (con .poseidonMds v (2 * i + 1)
      = if i < 12 then v.wires[2 * (12 + i) + 1]! - (mdsOut v i).2 else 0) := by
  simp only [con, poseidonMds_eval]
  exact getD_flatMap_comps 12 _ i

theorem poseidonMds_sat_iff (v : EvalVars K) :
    Sat .poseidonMds v ↔ ∀ i, i < 12 →
      v.wires[2 * (12 + i)]! = (mdsOut v i).1 ∧ v.wires[2 * (12 + i) + 1]! = (mdsOut v i).2 := by
  unfold Sat
  rw [poseidonMds_eval]
  refine (forall_flatMap_comps_zero 12 (fun i => ((v.wires[2 * (12 + i)]! - (mdsOut v i).1,
        v.wires[2 * (12 + i) + 1]! - (mdsOut v i).2) : Alg K))).trans ?_
  simp only [sub_eq_zero]

/-- the MDS outputs only depend on the input wires `< 24` -/
theorem mdsOut_congr (v v' : EvalVars K) (i k : Nat) (hd : DiffersOnlyAt v v' k)
    (hk : 24 ≤ k) : mdsOut v' i = mdsOut v i := by
  unfold mdsOut
  congr 1
  apply Lemmas.C15.map_range_congr
  intro j hj
  have hj' : j < 12 := hj
  rw [hd.same (2 * j) (by omega), hd.same (2 * j + 1) (by omega)]

/-- component `r ∈ {0,1}` of output `i` is pinned by constraint `2i + r` -/
theorem poseidonMds_pinned (v v' : EvalVars K) (i r : Nat) (hi : i < 12) (hr : r < 2)
    (hd : DiffersOnlyAt v v' (2 * (12 + i) + r)) (h0 : con .poseidonMds v (2 * i + r) = 0) :
    con .poseidonMds v' (2 * i + r) ≠ 0 := by
  have hg := mdsOut_congr v v' i _ hd (by omega)
  obtain rfl | rfl : r = 0 ∨ r = 1 := by omega
  · rw [Nat.add_zero] at h0 ⊢
    rw [(poseidonMds_con _ i).1, if_pos hi] at h0 ⊢
    rw [hg]
    intro h
    apply hd.diff
    rw [sub_eq_zero] at h h0
    rw [Nat.add_zero, h, h0]
  · rw [(poseidonMds_con _ i).2, if_pos hi] at h0 ⊢
    rw [hg]
    intro h
    apply hd.diff
    rw [sub_eq_zero] at h h0
    rw [h, h0]

/-- all other constraints are unaffected -/
theorem poseidonMds_others (v v' : EvalVars K) (i r : Nat) (hr : r < 2)
    (hd : DiffersOnlyAt v v' (2 * (12 + i) + r)) (j : Nat) (hj : j ≠ 2 * i + r) :
    con .poseidonMds v' j = con .poseidonMds v j := by
  obtain ⟨q, rfl | rfl⟩ : ∃ q, j = 2 * q ∨ j = 2 * q + 1 := ⟨j / 2, by omega⟩
  · rw [(poseidonMds_con _ q).1, (poseidonMds_con _ q).1,
      mdsOut_congr v v' q _ hd (by omega), hd.same (2 * (12 + q)) (by omega)]
  · rw [(poseidonMds_con _ q).2, (poseidonMds_con _ q).2,
      mdsOut_congr v v' q _ hd (by omega), hd.same (2 * (12 + q) + 1) (by omega)]

end

/-! ## the generator over Goldilocks -/

section OverGL
attribute [local instance] glField

/-- the executable `mdsRowShfAlg` on `GL` is the field-level one -/
theorem mdsRowShfAlg_GL (r : Nat) (a : Array (Alg P2.GL)) :
    @mdsRowShfAlg P2.GL instFOpsGL _ r a = @mdsRowShfAlg P2.GL (FOps.ofField P2.GL) _ r a := rfl

theorem poseidonMds_generate_eq (consts wires : Array P2.GL) :
    GateKind.poseidonMds.generate consts wires =
      (List.range 12).foldl (fun ws i => setAlg ws (2 * (12 + i))
        (mdsRowShfAlg i ((Array.range spongeWidth).map fun i => getAlg
          (wires ++ Array.replicate (GateKind.poseidonMds.numWires - wires.size) (0 : P2.GL))
          (2 * i))))
        (wires ++ Array.replicate (GateKind.poseidonMds.numWires - wires.size) (0 : P2.GL)) := rfl

theorem poseidonMds_generate_size (consts wires : Array P2.GL) :
    GateKind.poseidonMds.numWires ≤ (GateKind.poseidonMds.generate consts wires).size := by
  rw [poseidonMds_generate_eq, foldl_size_preserved _ (fun ws a => size_setAlg _ _ _)]
  exact size_pad_ge wires _

/-- `PoseidonMdsGenerator`: the generated row satisfies every constraint -/
theorem poseidonMds_generate_sat (consts wires pih : Array P2.GL) :
    ∀ c ∈ GateKind.poseidonMds.evalUnfiltered (genRow .poseidonMds consts wires pih), c = 0 := by
  rw [evalGL_poseidonMds]
  apply (poseidonMds_sat_iff _).2
  intro i hi
  have hpad := size_pad wires GateKind.poseidonMds.numWires
  set ws0 := wires ++ Array.replicate (GateKind.poseidonMds.numWires - wires.size) (0 : P2.GL)
    with hws0
  have hnw : GateKind.poseidonMds.numWires = 48 := rfl
  obtain ⟨_, h2, h3⟩ := foldl_setAlg_spec 12 (fun i => 2 * (12 + i))
    (fun _ i => mdsRowShfAlg i ((Array.range spongeWidth).map fun i => getAlg ws0 (2 * i))) ws0
    (fun i j _ _ h => by omega) (fun i hi => by omega)
    (fun ws i _ h => rfl)
  have hgen := poseidonMds_generate_eq consts wires
  rw [← hws0] at hgen
  have hv : mdsOut (genRow .poseidonMds consts wires pih) i =
      mdsRowShfAlg i ((Array.range spongeWidth).map fun i => getAlg ws0 (2 * i)) := by
    have hA : (Array.map (β := Alg P2.GL) (fun j =>
          (((genRow .poseidonMds consts wires pih).wires[2 * j]!,
            (genRow .poseidonMds consts wires pih).wires[2 * j + 1]!) : Alg P2.GL)) (Array.range spongeWidth)) =
        (Array.range spongeWidth).map fun j => getAlg ws0 (2 * j) := by
      apply Lemmas.C15.map_range_congr
      intro j hj
      have hj' : j < 12 := hj
      simp only [genRow, getAlg]
      rw [hgen, h3 (2 * j) (fun k _ => by omega), h3 (2 * j + 1) (fun k _ => by omega)]
    rw [mdsRowShfAlg_GL]
    exact congrArg (@mdsRowShfAlg P2.GL (FOps.ofField P2.GL) _ i) hA
  rw [hv]
  simp only [genRow]
  rw [hgen, (h2 i hi).1, (h2 i hi).2]
  exact ⟨rfl, rfl⟩

/-- the generator-written columns of the Poseidon MDS gate -/
theorem poseidonMds_mem_generatedWires (k : Nat) (hk : k ∈ GateKind.poseidonMds.generatedWires) :
    ∃ i r, i < 12 ∧ r < 2 ∧ k = 2 * (12 + i) + r := by
  simp only [GateKind.generatedWires, List.mem_map, List.mem_range] at hk
  obtain ⟨j, hj, rfl⟩ := hk
  have hj' : j < 24 := hj
  have hsw : spongeWidth = 12 := rfl
  exact ⟨j / 2, j % 2, by omega, by omega, by omega⟩

/-- C07 for the Poseidon MDS gate: every constants, input row and public-input hash; no side
condition -/
theorem poseidonMds_C07On (consts wires pih : Array P2.GL) :
    C07On .poseidonMds consts wires pih := by
  refine ⟨poseidonMds_generate_sat consts wires pih, ?_⟩
  intro k hk x hx
  obtain ⟨i, r, hi, hr, rfl⟩ := poseidonMds_mem_generatedWires k hk
  have hsz := poseidonMds_generate_size consts wires
  have hnw : GateKind.poseidonMds.numWires = 48 := rfl
  have hsat : Sat .poseidonMds (genRow .poseidonMds consts wires pih) := by
    have := poseidonMds_generate_sat consts wires pih
    rw [evalGL_poseidonMds] at this
    exact this
  refine replaced_violates .poseidonMds consts _ pih evalGL_poseidonMds
    (2 * (12 + i) + r) (2 * i + r) (by omega) (fun v' hd => ?_) x hx
  exact poseidonMds_pinned _ v' i r hi hr hd (con_eq_zero_of_sat _ _ hsat _)

end OverGL
end P2.Lemmas.C07
