/-
Row-level model of plonky2's lookup running-sum ("SLDC") columns for ONE table, over an arbitrary
field `K`, and the helper lemmas for `P2.Props.C08c`.

Source: `check_lookup_constraints` (plonk/vanishing_poly.rs), `selectors_lookup`
(gates/selectors.rs), `compute_lookup_polys` (plonk/prover.rs).

Rows are stored upside down. For one table the rows are, by increasing index,
  `lastLu … lastLut − 1`   LookupGate rows        (selector `TransLdc`),
  `lastLut … firstLut`     LookupTableGate rows   (selector `TransSre`),
  `firstLut + 1`           a Noop row             (selector `InitSre`),
and `LastLdc` is `1` on `lastLu`. The running sum flows from HIGH row index to LOW: on a row `r`
the polynomial `k` continues `prev r k`, which is polynomial `k − 1` of the same row for `k > 0`
and the LAST polynomial (`s − 1`) of the NEXT row `r + 1` for `k = 0`.
-/
import Mathlib.Algebra.BigOperators.Intervals
import Mathlib.Order.Interval.Finset.Nat
import P2.Props.C08b

namespace P2.Lemmas.LookupTrace
open Finset

/-! ## layout and selectors -/

/-- rows of one table (`LookupWire { last_lu_gate, last_lut_gate, first_lut_gate }`) and the number
`s = num_sldc_polys ≥ 1` of SLDC polynomials -/
structure Layout where
  lastLu : ℕ
  lastLut : ℕ
  firstLut : ℕ
  s : ℕ
  hLu : lastLu ≤ lastLut
  hLut : lastLut ≤ firstLut
  hs : 1 ≤ s

namespace Layout
variable (L : Layout)

/-- `TransSre`: `for row in last_lut_row..first_lut_row + 1` -/
def transSre (r : ℕ) : Prop := L.lastLut ≤ r ∧ r ≤ L.firstLut
/-- `TransLdc`: `for row in last_lu_row..last_lut_row` -/
def transLdc (r : ℕ) : Prop := L.lastLu ≤ r ∧ r < L.lastLut
/-- `InitSre`: `values[first_lut_row + 1] = 1` -/
def initSre (r : ℕ) : Prop := r = L.firstLut + 1
/-- `LastLdc`: `values[last_lu_row] = 1` -/
def lastLdc (r : ℕ) : Prop := r = L.lastLu

instance : DecidablePred L.transSre := fun _ => inferInstanceAs (Decidable (_ ∧ _))
instance : DecidablePred L.transLdc := fun _ => inferInstanceAs (Decidable (_ ∧ _))
instance : DecidablePred L.initSre := fun _ => inferInstanceAs (Decidable (_ = _))
instance : DecidablePred L.lastLdc := fun _ => inferInstanceAs (Decidable (_ = _))

/-- the LookupTableGate rows -/
def lutRows : Finset ℕ := Ico L.lastLut (L.firstLut + 1)
/-- the LookupGate rows -/
def luRows : Finset ℕ := Ico L.lastLu L.lastLut

theorem mem_lutRows {r : ℕ} : r ∈ L.lutRows ↔ L.transSre r := by
  simp [lutRows, transSre]

theorem mem_luRows {r : ℕ} : r ∈ L.luRows ↔ L.transLdc r := by
  simp [luRows, transLdc]

theorem not_sre_of_ldc {r : ℕ} (h : L.transLdc r) : ¬ L.transSre r := by
  unfold transLdc at h; unfold transSre; omega

end Layout

variable {K : Type} [Field K]

/-! ## the constraint system, rational form -/

/-- `prev`: the previous poly of the current row, or the last poly of the next row -/
def prev (L : Layout) (z : ℕ → ℕ → K) (r : ℕ) : ℕ → K
  | 0 => z (r + 1) (L.s - 1)
  | k + 1 => z r k

/-- the row-level constraint system on the SLDC values `z row poly`, with abstract per-row
per-poly terms, and the initial constraint pinning poly `pinIndex` of the `InitSre` row
(`pinIndex = 0`: the code before the repair; `pinIndex = s − 1`: the repaired code) -/
structure Constraints (L : Layout) (sumTerm ldcTerm : ℕ → ℕ → K) (z : ℕ → ℕ → K)
    (pinIndex : ℕ) : Prop where
  /-- Sum transition: `z_k − prev = Σ mult/(α − looked)` -/
  sre : ∀ r, L.transSre r → ∀ k, k < L.s → z r k - prev L z r k = sumTerm r k
  /-- LDC transition: `z_k = prev − Σ 1/(α − looking)` -/
  ldc : ∀ r, L.transLdc r → ∀ k, k < L.s → z r k - prev L z r k = - ldcTerm r k
  /-- initial Sum constraint -/
  init : ∀ r, L.initSre r → z r pinIndex = 0
  /-- last LDC constraint -/
  last : ∀ r, L.lastLdc r → z r (L.s - 1) = 0

/-- total of the Sum terms over all LUT rows and all polys -/
def sumTotal (L : Layout) (sumTerm : ℕ → ℕ → K) : K :=
  ∑ r ∈ L.lutRows, ∑ k ∈ range L.s, sumTerm r k

/-- total of the LDC terms over all LU rows and all polys -/
def ldcTotal (L : Layout) (ldcTerm : ℕ → ℕ → K) : K :=
  ∑ r ∈ L.luRows, ∑ k ∈ range L.s, ldcTerm r k

/-! ## telescoping -/

/-- within a row: the last poly is the last poly of the next row plus all terms of the row -/
theorem row_telescope (L : Layout) (z : ℕ → ℕ → K) (r : ℕ) (t : ℕ → K)
    (h : ∀ k, k < L.s → z r k - prev L z r k = t k) :
    z r (L.s - 1) = z (r + 1) (L.s - 1) + ∑ k ∈ range L.s, t k := by
  have key : ∀ j, j < L.s → z r j = z (r + 1) (L.s - 1) + ∑ k ∈ range (j + 1), t k := by
    intro j
    induction j with
    | zero =>
      intro hj
      have := h 0 hj
      simp only [prev] at this
      rw [sum_range_one]
      linear_combination this
    | succ j ih =>
      intro hj
      have h1 := h (j + 1) hj
      simp only [prev] at h1
      rw [sum_range_succ, ← add_assoc, ← ih (by omega)]
      linear_combination h1
  have hs := L.hs
  have := key (L.s - 1) (by omega)
  rwa [Nat.sub_add_cancel hs] at this

/-- across rows `a ≤ r < b` -/
theorem rows_telescope (y R : ℕ → K) (a b : ℕ) (hab : a ≤ b)
    (h : ∀ r, a ≤ r → r < b → y r = y (r + 1) + R r) :
    y a = y b + ∑ r ∈ Ico a b, R r := by
  induction b, hab using Nat.le_induction with
  | base => simp
  | succ b hab ih =>
    rw [sum_Ico_succ_top hab, ih (fun r h1 h2 => h r h1 (by omega)), h b hab (by omega)]
    ring

/-- **the chain**: with the transition constraints only (no initial / last constraint),
`z_{s−1}(lastLu) = z_{s−1}(firstLut+1) + Σ Sum terms − Σ LDC terms` -/
theorem chain_total (L : Layout) (sumTerm ldcTerm : ℕ → ℕ → K) (z : ℕ → ℕ → K)
    (hsre : ∀ r, L.transSre r → ∀ k, k < L.s → z r k - prev L z r k = sumTerm r k)
    (hldc : ∀ r, L.transLdc r → ∀ k, k < L.s → z r k - prev L z r k = - ldcTerm r k) :
    z L.lastLu (L.s - 1) =
      z (L.firstLut + 1) (L.s - 1) + sumTotal L sumTerm - ldcTotal L ldcTerm := by
  have h1 := rows_telescope (fun r => z r (L.s - 1)) (fun r => ∑ k ∈ range L.s, sumTerm r k)
    L.lastLut (L.firstLut + 1) (by have := L.hLut; omega)
    (fun r hr1 hr2 => row_telescope L z r _ (hsre r ⟨hr1, by omega⟩))
  have h2 := rows_telescope (fun r => z r (L.s - 1)) (fun r => ∑ k ∈ range L.s, - ldcTerm r k)
    L.lastLu L.lastLut L.hLu
    (fun r hr1 hr2 => row_telescope L z r _ (hldc r ⟨hr1, hr2⟩))
  rw [h2, h1]
  simp only [sumTotal, ldcTotal, Layout.lutRows, Layout.luRows, sum_neg_distrib]
  ring

/-! ## the explicit accumulator for arbitrary terms -/

/-- the signed term of row `r`, poly `k` -/
def term (L : Layout) (sumTerm ldcTerm : ℕ → ℕ → K) (r k : ℕ) : K :=
  if L.transSre r then sumTerm r k else if L.transLdc r then - ldcTerm r k else 0

/-- all signed terms of a row -/
def rowTerm (L : Layout) (sumTerm ldcTerm : ℕ → ℕ → K) (r : ℕ) : K :=
  ∑ k ∈ range L.s, term L sumTerm ldcTerm r k

/-- the accumulator that ENDS at zero: at `(r, k)` it is minus everything still to be added
(the rows `lastLu … r − 1` and the polys `k + 1 … s − 1` of row `r`). This is the honest
accumulator shifted by minus its final value, as the hook `SLDC_COMPENSATE` does. -/
def zEnd (L : Layout) (sumTerm ldcTerm : ℕ → ℕ → K) (r k : ℕ) : K :=
  ∑ j ∈ range (k + 1), term L sumTerm ldcTerm r j
    - ∑ r' ∈ Ico L.lastLu (r + 1), rowTerm L sumTerm ldcTerm r'

theorem zEnd_step (L : Layout) (sumTerm ldcTerm : ℕ → ℕ → K) (r k : ℕ) (hr : L.lastLu ≤ r)
    (hk : k < L.s) :
    zEnd L sumTerm ldcTerm r k - prev L (zEnd L sumTerm ldcTerm) r k
      = term L sumTerm ldcTerm r k := by
  cases k with
  | zero =>
    have hs := L.hs
    simp only [prev, zEnd, Nat.sub_add_cancel hs, zero_add, sum_range_one]
    rw [sum_Ico_succ_top (by omega : L.lastLu ≤ r + 1)]
    simp only [rowTerm]
    ring
  | succ k =>
    simp only [prev, zEnd]
    rw [sum_range_succ _ (k + 1)]
    ring

theorem zEnd_last (L : Layout) (sumTerm ldcTerm : ℕ → ℕ → K) :
    zEnd L sumTerm ldcTerm L.lastLu (L.s - 1) = 0 := by
  have hs := L.hs
  simp [zEnd, Nat.sub_add_cancel hs, rowTerm]

theorem sum_rowTerm (L : Layout) (sumTerm ldcTerm : ℕ → ℕ → K) :
    ∑ r ∈ Ico L.lastLu (L.firstLut + 1), rowTerm L sumTerm ldcTerm r
      = sumTotal L sumTerm - ldcTotal L ldcTerm := by
  have h1 := L.hLu
  have h2 := L.hLut
  rw [← sum_Ico_consecutive _ h1 (by omega : L.lastLut ≤ L.firstLut + 1)]
  have e1 : ∑ r ∈ Ico L.lastLu L.lastLut, rowTerm L sumTerm ldcTerm r = - ldcTotal L ldcTerm := by
    rw [ldcTotal, Layout.luRows, ← sum_neg_distrib]
    apply sum_congr rfl
    intro r hr
    have hl : L.transLdc r := (L.mem_luRows).1 hr
    rw [rowTerm, ← sum_neg_distrib]
    apply sum_congr rfl
    intro k _
    simp [term, hl, L.not_sre_of_ldc hl]
  have e2 : ∑ r ∈ Ico L.lastLut (L.firstLut + 1), rowTerm L sumTerm ldcTerm r
      = sumTotal L sumTerm := by
    rw [sumTotal, Layout.lutRows]
    apply sum_congr rfl
    intro r hr
    have hl : L.transSre r := (L.mem_lutRows).1 hr
    rw [rowTerm]
    apply sum_congr rfl
    intro k _
    simp [term, hl]
  rw [e1, e2]
  ring

theorem zEnd_init (L : Layout) (sumTerm ldcTerm : ℕ → ℕ → K) :
    zEnd L sumTerm ldcTerm (L.firstLut + 1) (L.s - 1)
      = - (sumTotal L sumTerm - ldcTotal L ldcTerm) := by
  have hs := L.hs
  have h1 := L.hLu
  have h2 := L.hLut
  simp only [zEnd, Nat.sub_add_cancel hs]
  rw [sum_Ico_succ_top (by omega : L.lastLu ≤ L.firstLut + 1), sum_rowTerm, rowTerm]
  ring

/-- `zEnd` satisfies both transition constraints and the last-LDC constraint, for ANY terms -/
theorem zEnd_transitions (L : Layout) (sumTerm ldcTerm : ℕ → ℕ → K) :
    (∀ r, L.transSre r → ∀ k, k < L.s →
      zEnd L sumTerm ldcTerm r k - prev L (zEnd L sumTerm ldcTerm) r k = sumTerm r k) ∧
    (∀ r, L.transLdc r → ∀ k, k < L.s →
      zEnd L sumTerm ldcTerm r k - prev L (zEnd L sumTerm ldcTerm) r k = - ldcTerm r k) := by
  constructor
  · intro r hr k hk
    rw [zEnd_step L sumTerm ldcTerm r k (by have := L.hLu; unfold Layout.transSre at hr; omega) hk]
    simp [term, hr]
  · intro r hr k hk
    rw [zEnd_step L sumTerm ldcTerm r k hr.1 hk]
    simp [term, hr, L.not_sre_of_ldc hr]

/-- the compensating assignment for the ORIGINAL pin: `zEnd`, except that poly `0` of the
`InitSre` row — a value no transition constraint reads when `s ≥ 2` — is `0` -/
def zBad (L : Layout) (sumTerm ldcTerm : ℕ → ℕ → K) (r k : ℕ) : K :=
  if r = L.firstLut + 1 ∧ k = 0 then 0 else zEnd L sumTerm ldcTerm r k

theorem zBad_eq (L : Layout) (sumTerm ldcTerm : ℕ → ℕ → K) (r k : ℕ) (h : r ≤ L.firstLut) :
    zBad L sumTerm ldcTerm r k = zEnd L sumTerm ldcTerm r k := by
  unfold zBad
  rw [if_neg (by omega)]

theorem zBad_prev (L : Layout) (hs : 2 ≤ L.s) (sumTerm ldcTerm : ℕ → ℕ → K) (r k : ℕ)
    (h : r ≤ L.firstLut) :
    prev L (zBad L sumTerm ldcTerm) r k = prev L (zEnd L sumTerm ldcTerm) r k := by
  cases k with
  | zero =>
    simp only [prev, zBad]
    rw [if_neg (by omega)]
  | succ k => simp only [prev, zBad_eq L sumTerm ldcTerm r k h]

/-! ## slots, chunks, and the cleared-denominator forms the verifier checks -/

/-- slot range of SLDC poly `k`: `poly * degree .. min((poly + 1) * degree, num_slots)` -/
def chunk (d n k : ℕ) : Finset ℕ := Ico (k * d) (min ((k + 1) * d) n)

/-- the chunks `0 … s − 1` partition the slots `0 … min(s·d, n) − 1` -/
theorem sum_chunks {M : Type} [AddCommMonoid M] (d n s : ℕ) (f : ℕ → M) :
    ∑ k ∈ range s, ∑ i ∈ chunk d n k, f i = ∑ i ∈ range (min (s * d) n), f i := by
  induction s with
  | zero => simp
  | succ s ih =>
    rw [sum_range_succ, ih]
    simp only [range_eq_Ico]
    have e : chunk d n s = Ico (min (s * d) n) (min ((s + 1) * d) n) := by
      ext i
      simp only [chunk, mem_Ico, Nat.succ_mul]
      omega
    rw [e]
    apply sum_Ico_consecutive _ (Nat.zero_le _)
    rw [Nat.succ_mul]
    omega

/-- when the chunks cover (`n ≤ s·d`, true for `lut_degree = ⌈n/s⌉` and for
`s = ⌈num_lu_slots / lu_degree⌉`) they partition all `n` slots -/
theorem sum_chunks_cover {M : Type} [AddCommMonoid M] (d n s : ℕ) (h : n ≤ s * d) (f : ℕ → M) :
    ∑ k ∈ range s, ∑ i ∈ chunk d n k, f i = ∑ i ∈ range n, f i := by
  rw [sum_chunks, Nat.min_eq_right h]

/-- `lut_degree = ceil_div(num_lut_slots, num_sldc_polys)` covers -/
theorem lutDegree_covers (n s : ℕ) (hs : 1 ≤ s) : n ≤ s * ((n + s - 1) / s) := by
  have h := Nat.div_add_mod (n + s - 1) s
  have h2 := Nat.mod_lt (n + s - 1) (by omega : s > 0)
  omega

/-- the wire data of one table, per row and slot: `looked = inp + A·out` and the multiplicity wire
on LUT rows, `looking = inp + A·out` on LU rows; slots per row and slots per SLDC poly -/
structure Slots (K : Type) where
  nLut : ℕ
  nLu : ℕ
  lutDeg : ℕ
  luDeg : ℕ
  looked : ℕ → ℕ → K
  mult : ℕ → ℕ → K
  looking : ℕ → ℕ → K

/-- `Σ_{slots of poly k} mult/(α − looked)` -/
def Slots.sumTerm (D : Slots K) (α : K) (r k : ℕ) : K :=
  ∑ i ∈ chunk D.lutDeg D.nLut k, D.mult r i / (α - D.looked r i)

/-- `Σ_{slots of poly k} 1/(α − looking)` -/
def Slots.ldcTerm (D : Slots K) (α : K) (r k : ℕ) : K :=
  ∑ i ∈ chunk D.luDeg D.nLu k, 1 / (α - D.looking r i)

/-- `lut_prod` -/
def Slots.lutProd (D : Slots K) (α : K) (r k : ℕ) : K :=
  ∏ i ∈ chunk D.lutDeg D.nLut k, (α - D.looked r i)
/-- `lu_prod` -/
def Slots.luProd (D : Slots K) (α : K) (r k : ℕ) : K :=
  ∏ i ∈ chunk D.luDeg D.nLu k, (α - D.looking r i)
/-- `lut_sum_prods_with_mul` -/
def Slots.lutSumProdsMul (D : Slots K) (α : K) (r k : ℕ) : K :=
  ∑ i ∈ chunk D.lutDeg D.nLut k,
    D.mult r i * ∏ j ∈ (chunk D.lutDeg D.nLut k).erase i, (α - D.looked r j)
/-- `lu_sum_prods` -/
def Slots.luSumProds (D : Slots K) (α : K) (r k : ℕ) : K :=
  ∑ i ∈ chunk D.luDeg D.nLu k,
    1 * ∏ j ∈ (chunk D.luDeg D.nLu k).erase i, (α - D.looking r j)

/-- value of a selector polynomial on a row -/
def ind (p : Prop) [Decidable p] : K := if p then 1 else 0

theorem ind_mul_eq_zero (p : Prop) [Decidable p] (x : K) : ind p * x = 0 ↔ (p → x = 0) := by
  unfold ind
  by_cases h : p <;> simp [h]

/-- **what the verifier's terms say on the rows**: every term of `check_lookup_constraints` that
involves the SLDC polynomials, with the selector VALUES of `selectors_lookup`, vanishes on every
row. (`pinIndex` as in `Constraints`.) -/
structure VerifierRows (L : Layout) (D : Slots K) (α : K) (z : ℕ → ℕ → K) (pinIndex : ℕ) :
    Prop where
  /-- `sel[TransSre] * (lut_prod * (z[poly] − prev) − lut_sum_prods_with_mul)` -/
  sre : ∀ r k, k < L.s →
    ind (L.transSre r) * (D.lutProd α r k * (z r k - prev L z r k) - D.lutSumProdsMul α r k) = 0
  /-- `sel[TransLdc] * (lu_prod * (z[poly] − prev) + lu_sum_prods)` -/
  ldc : ∀ r k, k < L.s →
    ind (L.transLdc r) * (D.luProd α r k * (z r k - prev L z r k) + D.luSumProds α r k) = 0
  /-- `sel[InitSre] * z[pinIndex]` -/
  init : ∀ r, ind (L.initSre r) * z r pinIndex = 0
  /-- `sel[LastLdc] * z[s − 1]` -/
  last : ∀ r, ind (L.lastLdc r) * z r (L.s - 1) = 0

/-- cleared-denominator form ⇔ rational form (the converse of C08b's `sldc_step` included) -/
theorem cleared_iff {ι : Type} [DecidableEq ι] (I : Finset ι) (t m : ι → K) (α Δ : K)
    (hα : ∀ i ∈ I, α - t i ≠ 0) :
    Δ * ∏ i ∈ I, (α - t i) = ∑ i ∈ I, m i * ∏ j ∈ I.erase i, (α - t j)
      ↔ Δ = ∑ i ∈ I, m i / (α - t i) := by
  constructor
  · exact P2.Props.C08.sldc_step I t m α Δ hα
  · intro h
    rw [h, sum_mul]
    apply sum_congr rfl
    intro i hi
    rw [← mul_prod_erase I (fun j => α - t j) hi]
    have := hα i hi
    field_simp

/-- the challenge avoids every combination that occurs on the table's rows -/
def Slots.Avoids (D : Slots K) (L : Layout) (α : K) : Prop :=
  (∀ r ∈ L.lutRows, ∀ i < D.nLut, α - D.looked r i ≠ 0) ∧
  (∀ r ∈ L.luRows, ∀ i < D.nLu, α - D.looking r i ≠ 0)

theorem mem_chunk_lt {d n k i : ℕ} (h : i ∈ chunk d n k) : i < n := by
  simp only [chunk, mem_Ico] at h
  omega

/-- **cleared ⇔ rational** for the whole system -/
theorem verifierRows_iff (L : Layout) (D : Slots K) (α : K) (hα : D.Avoids L α)
    (z : ℕ → ℕ → K) (pin : ℕ) :
    VerifierRows L D α z pin ↔ Constraints L (D.sumTerm α) (D.ldcTerm α) z pin := by
  have hsre : ∀ r, L.transSre r → ∀ k,
      (D.lutProd α r k * (z r k - prev L z r k) - D.lutSumProdsMul α r k = 0
        ↔ z r k - prev L z r k = D.sumTerm α r k) := by
    intro r hr k
    rw [sub_eq_zero, mul_comm]
    exact cleared_iff _ _ _ α _
      (fun i hi => hα.1 r ((L.mem_lutRows).2 hr) i (mem_chunk_lt hi))
  have hldc : ∀ r, L.transLdc r → ∀ k,
      (D.luProd α r k * (z r k - prev L z r k) + D.luSumProds α r k = 0
        ↔ z r k - prev L z r k = - D.ldcTerm α r k) := by
    intro r hr k
    have := cleared_iff (chunk D.luDeg D.nLu k) (D.looking r) (fun _ => (1 : K)) α
      (-(z r k - prev L z r k))
      (fun i hi => hα.2 r ((L.mem_luRows).2 hr) i (mem_chunk_lt hi))
    rw [← neg_eq_iff_eq_neg]
    rw [Slots.ldcTerm, ← this, Slots.luProd, Slots.luSumProds]
    constructor
    · intro h; linear_combination -h
    · intro h; linear_combination -h
  constructor
  · intro h
    refine ⟨fun r hr k hk => ?_, fun r hr k hk => ?_, fun r hr => ?_, fun r hr => ?_⟩
    · exact (hsre r hr k).1 ((ind_mul_eq_zero _ _).1 (h.sre r k hk) hr)
    · exact (hldc r hr k).1 ((ind_mul_eq_zero _ _).1 (h.ldc r k hk) hr)
    · exact (ind_mul_eq_zero _ _).1 (h.init r) hr
    · exact (ind_mul_eq_zero _ _).1 (h.last r) hr
  · intro h
    refine ⟨fun r k hk => ?_, fun r k hk => ?_, fun r => ?_, fun r => ?_⟩
    · exact (ind_mul_eq_zero _ _).2 fun hr => (hsre r hr k).2 (h.sre r hr k hk)
    · exact (ind_mul_eq_zero _ _).2 fun hr => (hldc r hr k).2 (h.ldc r hr k hk)
    · exact (ind_mul_eq_zero _ _).2 (h.init r)
    · exact (ind_mul_eq_zero _ _).2 (h.last r)

/-! ## the totals as logUp sums over the set of combos -/

section combos
variable [DecidableEq K]

/-- all (row, slot) pairs of the LookupTableGate rows -/
def lutIdx (L : Layout) (D : Slots K) : Finset (ℕ × ℕ) := L.lutRows ×ˢ range D.nLut
/-- all (row, slot) pairs of the LookupGate rows -/
def luIdx (L : Layout) (D : Slots K) : Finset (ℕ × ℕ) := L.luRows ×ˢ range D.nLu

/-- every combination occurring on the table's rows -/
def combos (L : Layout) (D : Slots K) : Finset K :=
  (lutIdx L D).image (fun x => D.looked x.1 x.2) ∪ (luIdx L D).image (fun x => D.looking x.1 x.2)

/-- declared multiplicity of the value `a`: the multiplicity wires of all LUT slots holding `a` -/
def lookedWeight (L : Layout) (D : Slots K) (a : K) : K :=
  ∑ x ∈ (lutIdx L D).filter (fun x => D.looked x.1 x.2 = a), D.mult x.1 x.2

/-- number of LU slots looking up the value `a` -/
def lookingCount (L : Layout) (D : Slots K) (a : K) : ℕ :=
  ((luIdx L D).filter (fun x => D.looking x.1 x.2 = a)).card

omit [Field K] [DecidableEq K] in
theorem mem_lutIdx (L : Layout) (D : Slots K) {x : ℕ × ℕ} :
    x ∈ lutIdx L D ↔ x.1 ∈ L.lutRows ∧ x.2 < D.nLut := by
  simp [lutIdx]

omit [Field K] [DecidableEq K] in
theorem mem_luIdx (L : Layout) (D : Slots K) {x : ℕ × ℕ} :
    x ∈ luIdx L D ↔ x.1 ∈ L.luRows ∧ x.2 < D.nLu := by
  simp [luIdx]

omit [Field K] in
theorem looked_mem_combos (L : Layout) (D : Slots K) {r i : ℕ} (hr : r ∈ L.lutRows)
    (hi : i < D.nLut) : D.looked r i ∈ combos L D :=
  mem_union_left _ (mem_image.2 ⟨(r, i), mem_product.2 ⟨hr, mem_range.2 hi⟩, rfl⟩)

omit [Field K] in
theorem looking_mem_combos (L : Layout) (D : Slots K) {r i : ℕ} (hr : r ∈ L.luRows)
    (hi : i < D.nLu) : D.looking r i ∈ combos L D :=
  mem_union_right _ (mem_image.2 ⟨(r, i), mem_product.2 ⟨hr, mem_range.2 hi⟩, rfl⟩)

/-- a challenge outside the combos avoids them -/
theorem avoids_of_not_mem (L : Layout) (D : Slots K) (α : K) (h : α ∉ combos L D) :
    D.Avoids L α :=
  ⟨fun r hr i hi e => h (by rw [sub_eq_zero.1 e]; exact looked_mem_combos L D hr hi),
   fun r hr i hi e => h (by rw [sub_eq_zero.1 e]; exact looking_mem_combos L D hr hi)⟩

/-- regroup a sum of fractions by the value of the denominator's combination -/
theorem sum_fiber {ι : Type} (I : Finset ι) (v m : ι → K) (S : Finset K) (hS : ∀ x ∈ I, v x ∈ S)
    (α : K) :
    ∑ x ∈ I, m x / (α - v x) = ∑ a ∈ S, (∑ x ∈ I.filter (fun x => v x = a), m x) / (α - a) := by
  rw [← sum_fiberwise_of_maps_to hS]
  apply sum_congr rfl
  intro a _
  rw [div_eq_mul_inv, sum_mul]
  apply sum_congr rfl
  intro x hx
  rw [(mem_filter.1 hx).2, div_eq_mul_inv]

/-- the Sum total is the table side of the logUp identity -/
theorem sumTotal_eq (L : Layout) (D : Slots K) (hcov : D.nLut ≤ L.s * D.lutDeg) (α : K) :
    sumTotal L (D.sumTerm α) = ∑ a ∈ combos L D, lookedWeight L D a / (α - a) := by
  have e : sumTotal L (D.sumTerm α)
      = ∑ x ∈ lutIdx L D, D.mult x.1 x.2 / (α - D.looked x.1 x.2) := by
    rw [lutIdx, sum_product]
    apply sum_congr rfl
    intro r _
    exact sum_chunks_cover D.lutDeg D.nLut L.s hcov _
  rw [e]
  exact sum_fiber (lutIdx L D) _ _ _ (fun x hx => looked_mem_combos L D
    ((mem_lutIdx L D).1 hx).1 ((mem_lutIdx L D).1 hx).2) α

/-- the LDC total is the lookup side of the logUp identity -/
theorem ldcTotal_eq (L : Layout) (D : Slots K) (hcov : D.nLu ≤ L.s * D.luDeg) (α : K) :
    ldcTotal L (D.ldcTerm α) = ∑ a ∈ combos L D, (lookingCount L D a : K) / (α - a) := by
  have e : ldcTotal L (D.ldcTerm α)
      = ∑ x ∈ luIdx L D, (fun _ => (1 : K)) x / (α - D.looking x.1 x.2) := by
    rw [luIdx, sum_product]
    apply sum_congr rfl
    intro r _
    exact sum_chunks_cover D.luDeg D.nLu L.s hcov _
  rw [e, sum_fiber (luIdx L D) _ _ _ (fun x hx => looking_mem_combos L D
    ((mem_luIdx L D).1 hx).1 ((mem_luIdx L D).1 hx).2) α]
  apply sum_congr rfl
  intro a _
  simp [lookingCount]

omit [Field K] in
theorem lookingCount_eq_zero (L : Layout) (D : Slots K) {a : K} (h : a ∉ combos L D) :
    lookingCount L D a = 0 := by
  rw [lookingCount, card_eq_zero, filter_eq_empty_iff]
  intro x hx e
  exact h (e ▸ looking_mem_combos L D ((mem_luIdx L D).1 hx).1 ((mem_luIdx L D).1 hx).2)

theorem lookedWeight_eq_zero (L : Layout) (D : Slots K) {a : K} (h : a ∉ combos L D) :
    lookedWeight L D a = 0 := by
  rw [lookedWeight, filter_eq_empty_iff.2, sum_empty]
  intro x hx e
  exact h (e ▸ looked_mem_combos L D ((mem_lutIdx L D).1 hx).1 ((mem_lutIdx L D).1 hx).2)

end combos

end P2.Lemmas.LookupTrace
