/-
C16 (b) and the core of (a): the verifier's reduction chain of one query as a predicate
(`ConsistentFrom`: at every layer the evaluation at the query's position in the coset equals the
value folded from the previous layer), its derivation from acceptance, and the alignment of
`get_inferred_elements` (producer of the omitted evaluations) with the first loop of
`CompressedFriProof::decompress` (consumer), for index lists with repeated indices and shared
cosets.
-/
import P2.Lemmas.C16Maps
import P2.Props.C05
namespace P2.Lemmas.C16
open P2 P2.Fri P2.Merkle P2.Compress P2.Decompress

/-- the chain of `fri_verifier_query_round` from layer `i` on, as a predicate on the proof's own
data: `old` is the value folded so far, `xIndex`/`x` the current leaf index and subgroup point -/
def ConsistentFrom (betas : List GL2) (q : QueryRound) : List Nat → Nat → Nat → GL → GL2 → Prop
  | [], _, _, _, _ => True
  | ab :: rest, i, xIndex, x, old =>
    ∃ st beta, q.steps[i]? = some st ∧ betas[i]? = some beta ∧
      st.evals[xIndex % 2 ^ ab]? = some old ∧
      ConsistentFrom betas q rest (i + 1) (xIndex / 2 ^ ab) (GL.pow x (2 ^ ab))
        (computeEvaluation x (xIndex % 2 ^ ab) ab st.evals beta)

/-- **the consistency fact** for the query `q` at leaf `xIndex`: the combination of the initial
openings is defined and every omitted evaluation equals the inferred one -/
def Consistent (inst : Instance) (ch : Challenges) (reduced : List GL2) (p : FriParams)
    (xIndex : Nat) (q : QueryRound) : Prop :=
  ∃ old0, combineInitial inst q.initial ch.alpha (subgroupX p xIndex) reduced p = some old0 ∧
    ConsistentFrom ch.betas q p.arityBits 0 xIndex (subgroupX p xIndex) old0

theorem gl2_eq_of_beq {x y : GL2} (h : (x == y) = true) : x = y := by
  have h' : (x.a == y.a && x.b == y.b) = true := h
  simp at h'
  cases x; cases y; simp_all

theorem consistentFrom_of_stepsFrom (proof : Proof) (ch : Challenges) (q : QueryRound) :
    ∀ (abs : List Nat) (i xIndex : Nat) (x : GL) (old lastEval : GL2) (xf : GL),
      stepsFrom proof ch q abs i xIndex x old = (.accept, lastEval, xf) →
      ConsistentFrom ch.betas q abs i xIndex x old := by
  intro abs
  induction abs with
  | nil => intros; trivial
  | cons ab rest ih =>
    intro i xIndex x old lastEval xf h
    obtain ⟨st, e, beta, cap, hs, he, hcons, hb, _, _, hrest⟩ :=
      P2.Props.C05.stepsFrom_accept_cons proof ch q ab rest i xIndex x old lastEval xf h
    have : e = old := gl2_eq_of_beq hcons
    subst this
    exact ⟨st, beta, hs, hb, he, ih _ _ _ _ _ _ hrest⟩

/-! ### lists indexed by layer -/

theorem insertAt_removeAt {α} (xs : List α) (w : Nat) (v : α) (h : xs[w]? = some v) :
    insertAt (removeAt xs w) w v = some xs := by
  have hw : w < xs.length := by
    rcases Nat.lt_or_ge w xs.length with h' | h'
    · exact h'
    · rw [List.getElem?_eq_none h'] at h; cases h
  unfold insertAt removeAt
  have hl : w ≤ (xs.take w ++ xs.drop (w + 1)).length := by
    simp only [List.length_append, List.length_take, List.length_drop]; omega
  rw [if_pos hl]
  have h1 : (xs.take w ++ xs.drop (w + 1)).take w = xs.take w := by
    rw [List.take_append_of_le_length (by simp; omega)]
    simp [List.take_take]
  have h2 : (xs.take w ++ xs.drop (w + 1)).drop w = xs.drop (w + 1) := by
    rw [List.drop_append_of_le_length (by simp; omega)]
    have : (xs.take w).drop w = [] := by simp
    rw [this]; rfl
  rw [h1, h2]
  have hv : xs[w] = v := by
    rw [List.getElem?_eq_getElem hw] at h; exact Option.some.inj h
  rw [← hv, List.getElem_cons_drop, List.take_append_drop]

/-! ### producer/consumer alignment for one query

`E i c` are the true evaluations of coset `c` at layer `i` (what every query round touching that
coset carries), `W i c` the position within the coset that the stored entry of the compressed proof
omits (the position of the FIRST query touching the coset), `M i c` its stored Merkle path. -/

/-- the compressed step maps agree with `E`, `W`, `M` -/
def StepsSpec (steps : List (List (Nat × QueryStep))) (E : Nat → Nat → List GL2) (W : Nat → Nat → Nat)
    (M : Nat → Nat → List Digest) (i c : Nat) : Prop :=
  ∃ m, steps[i]? = some m ∧ lookupKey m c = some ⟨removeAt (E i c) (W i c), M i c⟩

/-- state invariant shared by the two loops: `seen_indices_by_depth` lists the keys of
`evals_by_depth`, the cached vectors are the true ones -/
structure StateInv (E : Nat → Nat → List GL2) (seen : List (List Nat))
    (byDepth : List (List (Nat × List GL2))) : Prop where
  keys : seen = byDepth.map keys
  vals : ∀ i c ev, lookupKey (byDepth.getD i []) c = some ev → ev = E i c

theorem getD_map_keys (byDepth : List (List (Nat × List GL2))) (i : Nat) :
    (byDepth.map keys).getD i [] = keys (byDepth.getD i []) := by
  simp only [List.getD_eq_getElem?_getD, List.getElem?_map]
  cases byDepth[i]? <;> simp [keys]

theorem contains_keys_iff (m : List (Nat × List GL2)) (c : Nat) :
    (keys m).contains c = true ↔ lookupKey m c ≠ none := by
  rw [Ne, lookupKey_eq_none_iff]; simp

theorem StateInv.set {E : Nat → Nat → List GL2} {seen : List (List Nat)}
    {byDepth : List (List (Nat × List GL2))} (h : StateInv E seen byDepth) (i c : Nat) :
    StateInv E (seen.set i (c :: seen.getD i [])) (byDepth.set i ((c, E i c) :: byDepth.getD i [])) := by
  constructor
  · rw [h.keys, getD_map_keys, List.map_set]
    rfl
  · intro i' c' ev hl
    by_cases hi : i' = i
    · subst hi
      by_cases hlt : i' < byDepth.length
      · rw [List.getD_eq_getElem?_getD, List.getElem?_set_self hlt] at hl
        simp only [Option.getD_some] at hl
        rw [lookupKey_cons] at hl
        split at hl
        · rename_i e
          simp only at e
          subst e
          exact (Option.some.inj hl).symm
        · exact h.vals _ _ _ hl
      · rw [List.set_eq_of_length_le (by omega)] at hl
        exact h.vals _ _ _ hl
    · rw [List.getD_eq_getElem?_getD, List.getElem?_set_ne (fun e => hi e.symm),
        ← List.getD_eq_getElem?_getD] at hl
      exact h.vals _ _ _ hl

/-- what the first loop of `decompress` must return for the layers `i…` of a query at `xIndex` -/
def expectedFrom (E : Nat → Nat → List GL2) (M : Nat → Nat → List Digest) :
    List Nat → Nat → Nat → List (Nat × List GL2 × List Digest)
  | [], _, _ => []
  | ab :: rest, i, xIndex =>
    (xIndex / 2 ^ ab, E i (xIndex / 2 ^ ab), M i (xIndex / 2 ^ ab)) :: expectedFrom E M rest (i + 1) (xIndex / 2 ^ ab)

/-- everything the alignment needs to know about the layers `i…` of one query round `q` at leaf
`xIndex`, relative to the state `seen` in which the query is started:
* the verifier's chain is consistent (`st.evals[w] = old`, next value folded by `compute_evaluation`);
* `E i c` is this query's evaluation vector (queries sharing a coset carry the same vector);
* the compressed step map has an entry for the coset, with stored path `M i c`;
* if the coset has not been seen, the stored vector omits THIS query's position (first wins);
* if the coset has been seen, so has its parent coset at the next layer. -/
def LayersOK (steps : List (List (Nat × QueryStep))) (betas : List GL2)
    (E : Nat → Nat → List GL2) (M : Nat → Nat → List Digest) (q : QueryRound)
    (seen : List (List Nat)) : List Nat → Nat → Nat → GL → GL2 → Prop
  | [], _, _, _, _ => True
  | ab :: rest, i, xIndex, x, old =>
    ∃ st beta m sev, q.steps[i]? = some st ∧ betas[i]? = some beta ∧
      st.evals[xIndex % 2 ^ ab]? = some old ∧ st.evals.length = 2 ^ ab ∧ E i (xIndex / 2 ^ ab) = st.evals ∧
      steps[i]? = some m ∧ lookupKey m (xIndex / 2 ^ ab) = some ⟨sev, M i (xIndex / 2 ^ ab)⟩ ∧
      (xIndex / 2 ^ ab ∉ seen.getD i [] → sev = removeAt st.evals (xIndex % 2 ^ ab)) ∧
      (xIndex / 2 ^ ab ∈ seen.getD i [] →
        match rest with
        | [] => True
        | ab' :: _ => xIndex / 2 ^ ab / 2 ^ ab' ∈ seen.getD (i + 1) []) ∧
      LayersOK steps betas E M q seen rest (i + 1) (xIndex / 2 ^ ab) (GL.pow x (2 ^ ab))
        (computeEvaluation x (xIndex % 2 ^ ab) ab st.evals beta)

theorem LayersOK.consistent {steps : List (List (Nat × QueryStep))} {betas : List GL2}
    {E : Nat → Nat → List GL2} {M : Nat → Nat → List Digest} {q : QueryRound} {seen : List (List Nat)} :
    ∀ {abs : List Nat} {i xIndex : Nat} {x : GL} {old : GL2},
      LayersOK steps betas E M q seen abs i xIndex x old → ConsistentFrom betas q abs i xIndex x old := by
  intro abs
  induction abs with
  | nil => intros; trivial
  | cons ab rest ih =>
    intro i xIndex x old h
    obtain ⟨st, beta, m, sev, h1, h2, h3, _, _, _, _, _, _, h10⟩ := h
    exact ⟨st, beta, h1, h2, h3, ih h10⟩

theorem mem_keys_lookup {m : List (Nat × List GL2)} {c : Nat} (h : c ∈ keys m) :
    ∃ ev, lookupKey m c = some ev := by
  cases hl : lookupKey m c with
  | none => exact absurd h ((lookupKey_eq_none_iff m c).1 hl)
  | some ev => exact ⟨ev, rfl⟩

/-- consumer on a coset that has been seen: nothing is consumed, the state is unchanged, and the
cached (true) vectors are returned for this and all later layers -/
theorem rebuild_seen (steps : List (List (Nat × QueryStep))) (betas : List GL2)
    (E : Nat → Nat → List GL2) (M : Nat → Nat → List Digest) (q : QueryRound) (seen : List (List Nat)) :
    ∀ (abs : List Nat) (i xIndex : Nat) (x : GL) (old : GL2) (seenCur : List (List Nat))
      (byDepth : List (List (Nat × List GL2))) (inferred : List GL2),
      LayersOK steps betas E M q seen abs i xIndex x old →
      StateInv E seenCur byDepth →
      (∀ k, i ≤ k → seenCur.getD k [] = seen.getD k []) →
      (match abs with
        | [] => True
        | ab :: _ => xIndex / 2 ^ ab ∈ seen.getD i []) →
      rebuildLayers steps abs i xIndex byDepth inferred
        = some (expectedFrom E M abs i xIndex, byDepth, inferred) := by
  intro abs
  induction abs with
  | nil => intros; rfl
  | cons ab rest ih =>
    intro i xIndex x old seenCur byDepth inferred hok hinv hagree hseen
    obtain ⟨st, beta, m, sev, _, _, _, _, hE, hm, hl, _, hdeep, hrest⟩ := hok
    simp only at hseen
    have hmem : xIndex / 2 ^ ab ∈ keys (byDepth.getD i []) := by
      rw [← getD_map_keys, ← hinv.keys, hagree i (Nat.le_refl _)]; exact hseen
    obtain ⟨ev, hev⟩ := mem_keys_lookup hmem
    have hevE := hinv.vals _ _ _ hev
    have ihr := ih (i + 1) (xIndex / 2 ^ ab) _ _ seenCur byDepth inferred hrest hinv
      (fun k hk => hagree k (by omega)) (by
        have := hdeep hseen
        cases rest with
        | nil => trivial
        | cons ab' rest' => exact this)
    simp only [rebuildLayers, hm, hl, hev, ihr, Option.bind_eq_bind, Option.bind_some,
      expectedFrom, hevE, Option.pure_def]

/-- **Alignment for one query** (layers `i…`): the producer `inferLayers` (`get_inferred_elements`)
appends a list `vals` of inferred elements (one per coset not seen before); the consumer
`rebuildLayers` (`decompress`), started on `vals ++ more`, consumes exactly `vals`, returns for every
layer the coset index, the TRUE evaluation vector and the stored path; the final states are related
again. -/
theorem align_layers (steps : List (List (Nat × QueryStep))) (betas : List GL2)
    (E : Nat → Nat → List GL2) (M : Nat → Nat → List Digest) (q : QueryRound) (seen : List (List Nat)) :
    ∀ (abs : List Nat) (i xIndex : Nat) (x : GL) (old : GL2) (seenCur : List (List Nat))
      (byDepth : List (List (Nat × List GL2))) (out : List GL2),
      LayersOK steps betas E M q seen abs i xIndex x old →
      StateInv E seenCur byDepth →
      (∀ k, i ≤ k → seenCur.getD k [] = seen.getD k []) →
      ∃ vals seen' byDepth',
        inferLayers steps betas abs i xIndex x old seenCur out = some (seen', out ++ vals) ∧
        (∀ more, rebuildLayers steps abs i xIndex byDepth (vals ++ more)
          = some (expectedFrom E M abs i xIndex, byDepth', more)) ∧
        StateInv E seen' byDepth' := by
  intro abs
  induction abs with
  | nil =>
    intro i xIndex x old seenCur byDepth out _ hinv _
    exact ⟨[], seenCur, byDepth, by simp [inferLayers], fun more => rfl, hinv⟩
  | cons ab rest ih =>
    intro i xIndex x old seenCur byDepth out hok hinv hagree
    have hok' := hok
    obtain ⟨st, beta, m, sev, hq, hb, hw, hlen, hE, hm, hl, hfirst, hdeep, hrest⟩ := hok
    by_cases hseen : xIndex / 2 ^ ab ∈ seen.getD i []
    · -- coset seen before: the producer stops, the consumer reads the caches
      refine ⟨[], seenCur, byDepth, ?_, ?_, hinv⟩
      · have : (seenCur.getD i []).contains (xIndex / 2 ^ ab) = true := by
          rw [hagree i (Nat.le_refl _)]; simpa using hseen
        simp only [inferLayers]
        rw [if_pos this, List.append_nil]
      · intro more
        exact rebuild_seen steps betas E M q seen (ab :: rest) i xIndex x old seenCur byDepth more
          hok' hinv hagree hseen
    · -- first query on this coset
      have hsev := hfirst hseen
      subst hsev
      have hins := insertAt_removeAt st.evals (xIndex % 2 ^ ab) old hw
      have hnc : (seenCur.getD i []).contains (xIndex / 2 ^ ab) = false := by
        rw [hagree i (Nat.le_refl _)]; simpa using hseen
      have hnk : lookupKey (byDepth.getD i []) (xIndex / 2 ^ ab) = none := by
        rw [lookupKey_eq_none_iff, ← getD_map_keys, ← hinv.keys, hagree i (Nat.le_refl _)]
        exact hseen
      have hinv' := hinv.set i (xIndex / 2 ^ ab)
      rw [hE] at hinv'
      obtain ⟨vals, seen', byDepth', e1, e2, e3⟩ := ih (i + 1) (xIndex / 2 ^ ab) (GL.pow x (2 ^ ab))
        (computeEvaluation x (xIndex % 2 ^ ab) ab st.evals beta) _ _ (out ++ [old]) hrest hinv'
        (by
          intro k hk
          rw [List.getD_eq_getElem?_getD, List.getElem?_set_ne (by omega), ← List.getD_eq_getElem?_getD]
          exact hagree k (by omega))
      refine ⟨old :: vals, seen', byDepth', ?_, ?_, e3⟩
      · simp only [inferLayers, hnc, Bool.false_eq_true, if_false, hm, hl, hins, hlen, hb,
          Option.bind_eq_bind, Option.bind_some, ne_eq, not_true_eq_false, e1]
        simp
      · intro more
        simp only [rebuildLayers, hm, hl, hnk, List.cons_append, hins, Option.bind_eq_bind,
          Option.bind_some, e2 more, expectedFrom, hE, Option.pure_def]

end P2.Lemmas.C16
