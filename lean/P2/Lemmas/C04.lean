/-
C04 helper lemmas: causality of `Challenger.run` (prefix property), the overwrite-mode absorption
`setFrom` pointwise, injectivity of `duplexing` under an injective permutation, state dependence
(sponge-style "differs unless capacity collision") and the squeeze as a function of the post-state.
-/
import P2.Lemmas.C13
import P2.Props.C04
namespace P2.Lemmas.C04
open P2 P2.Sponge P2.Challenger P2.Lemmas.C13

/-! ### T1: histories -/

/-- state and outputs after running `ops` from state `s` -/
def runFrom (p : Perm) (s : St) (ops : List Op) : St × List P2.GL := ops.foldl (stepN p) (s, [])

/-- state and outputs after a history (the fold performed by `run`) -/
def runState (p : Perm) (ops : List Op) : St × List P2.GL := runFrom p (init p) ops

theorem run_eq_runState (p : Perm) (ops : List Op) : run p ops = (runState p ops).2 := rfl

theorem stepN_prefix (p : Perm) (s : St) (pre : List P2.GL) (op : Op) :
    stepN p (s, pre) op = ((stepN p (s, []) op).1, pre ++ (stepN p (s, []) op).2) := by
  cases op with
  | obs xs => simp [stepN]
  | get n => simp [stepN]

theorem fold_stepN_prefix (p : Perm) (ops : List Op) (s : St) (pre : List P2.GL) :
    ops.foldl (stepN p) (s, pre) =
      ((ops.foldl (stepN p) (s, [])).1, pre ++ (ops.foldl (stepN p) (s, [])).2) := by
  induction ops generalizing s pre with
  | nil => simp
  | cons op t ih =>
    simp only [List.foldl_cons]
    rw [stepN_prefix p s pre op, ih _ (pre ++ _), ih _ (stepN p (s, []) op).2]
    simp

theorem runFrom_append (p : Perm) (s : St) (a b : List Op) :
    runFrom p s (a ++ b) =
      ((runFrom p (runFrom p s a).1 b).1, (runFrom p s a).2 ++ (runFrom p (runFrom p s a).1 b).2) := by
  unfold runFrom
  rw [List.foldl_append]
  exact fold_stepN_prefix p b _ _

/-! ### `setFrom` pointwise -/

theorem foldl_set_getElem? (xs : List P2.GL) (s : Array P2.GL) (start k j : Nat) :
    ((xs.zipIdx k).foldl (fun st (x, i) => st.set! (start + i) x) s)[j]? =
      if start + k ≤ j ∧ j < start + k + xs.length ∧ j < s.size then xs[j - (start + k)]? else s[j]? := by
  induction xs generalizing s k with
  | nil => simp; omega
  | cons x t ih =>
    simp only [List.zipIdx_cons, List.foldl_cons]
    rw [ih]
    simp only [Array.set!_eq_setIfInBounds, Array.size_setIfInBounds, List.length_cons,
      Array.getElem?_setIfInBounds]
    by_cases h1 : start + k = j
    · subst h1
      by_cases h2 : start + k < s.size
      · simp [h2]
      · simp [h2]
    · by_cases h3 : start + k + 1 ≤ j
      · have e : j - (start + k) = (j - (start + (k + 1))) + 1 := by omega
        have c1 : (start + (k + 1) ≤ j) := by omega
        have c2 : start + k ≤ j := by omega
        by_cases h4 : j < start + (k + 1) + t.length ∧ j < s.size
        · have c3 : j < start + k + (t.length + 1) := by omega
          simp [c1, c2, c3, h4, e]
        · have c3 : ¬ (j < start + k + (t.length + 1) ∧ j < s.size) := by omega
          have c4 : ¬ (start + (k + 1) ≤ j ∧ j < start + (k + 1) + t.length ∧ j < s.size) := by omega
          have c5 : ¬ (start + k ≤ j ∧ j < start + k + (t.length + 1) ∧ j < s.size) := by omega
          simp only [c4, c5, if_false, h1]
      · have c4 : ¬ (start + (k + 1) ≤ j ∧ j < start + (k + 1) + t.length ∧ j < s.size) := by omega
        have c5 : ¬ (start + k ≤ j ∧ j < start + k + (t.length + 1) ∧ j < s.size) := by omega
        simp only [c4, c5, if_false, h1]

theorem setFrom_getElem? (s : Array P2.GL) (xs : List P2.GL) (start j : Nat) :
    (setFrom s xs start)[j]? =
      if start ≤ j ∧ j < start + xs.length ∧ j < s.size then xs[j - start]? else s[j]? := by
  unfold setFrom
  have := foldl_set_getElem? xs s start 0 j
  simpa using this

theorem setFrom0_getElem? (s : Array P2.GL) (xs : List P2.GL) (j : Nat) (h : xs.length ≤ s.size) :
    (setFrom s xs 0)[j]? = if j < xs.length then xs[j]? else s[j]? := by
  rw [setFrom_getElem?]
  by_cases hj : j < xs.length
  · have : 0 ≤ j ∧ j < 0 + xs.length ∧ j < s.size := by omega
    simp [this, hj]
  · have : ¬ (0 ≤ j ∧ j < 0 + xs.length ∧ j < s.size) := by omega
    simp only [this, hj, if_false]

/-- two overwrites of equally many leading cells coincide iff the written blocks coincide and the
untouched cells coincide -/
theorem setFrom0_inj (s s' : Array P2.GL) (xs ys : List P2.GL) (hl : xs.length = ys.length)
    (h1 : xs.length ≤ s.size) (h2 : s.size = s'.size)
    (h : setFrom s xs 0 = setFrom s' ys 0) :
    xs = ys ∧ ∀ i, xs.length ≤ i → s[i]! = s'[i]! := by
  have key : ∀ j, (if j < xs.length then xs[j]? else s[j]?) = (if j < ys.length then ys[j]? else s'[j]?) := by
    intro j
    rw [← setFrom0_getElem? s xs j h1, ← setFrom0_getElem? s' ys j (by omega), h]
  constructor
  · apply List.ext_getElem?
    intro j
    have := key j
    by_cases hj : j < xs.length
    · have hj' : j < ys.length := by omega
      simpa [hj, hj'] using this
    · rw [List.getElem?_eq_none (by omega), List.getElem?_eq_none (by omega)]
  · intro i hi
    have := key i
    have c1 : ¬ i < xs.length := by omega
    have c2 : ¬ i < ys.length := by omega
    simp only [c1, c2, if_false] at this
    simp only [getElem!_def, this]

/-! ### T2: duplexing is injective in what it absorbs -/

theorem duplexing_sponge (p : Perm) (s : St) :
    (duplexing p s).sponge = p.permute (setFrom s.sponge s.input 0) := rfl

theorem duplexing_eq (p : Perm) (s : St) :
    duplexing p s = ⟨(duplexing p s).sponge, [], (duplexing p s).sponge.toList.take p.rate⟩ := rfl

theorem duplexing_inj' (p : Perm) (hinj : Function.Injective p.permute) (s s' : St)
    (hs : s.sponge.size = p.width) (hs' : s'.sponge.size = p.width)
    (hl : s.input.length = s'.input.length) (hle : s.input.length ≤ p.width)
    (h : (duplexing p s).sponge = (duplexing p s').sponge) :
    s.input = s'.input ∧ ∀ i, s.input.length ≤ i → s.sponge[i]! = s'.sponge[i]! := by
  rw [duplexing_sponge, duplexing_sponge] at h
  exact setFrom0_inj _ _ _ _ hl (by omega) (by omega) (hinj h)

/-! ### T3: state dependence -/

/-- the sponge state from which the next challenges are squeezed -/
def fin (p : Perm) (s : St) : Array P2.GL :=
  if s.input = [] then s.sponge else p.permute (setFrom s.sponge s.input 0)

structure Inv (p : Perm) (s : St) : Prop where
  size : s.sponge.size = p.width
  len : s.input.length < p.rate

theorem observe_inv {p : Perm} (hp : Good p) (s : St) (x : P2.GL) (h : Inv p s) : Inv p (observe p s x) := by
  obtain ⟨h1, h2⟩ := h
  unfold observe
  by_cases hl : (s.input ++ [x]).length = p.rate
  · simp only [hl, if_true]
    exact ⟨hp.size _ (by rw [setFrom_size]; exact h1), by simpa [duplexing] using hp.rate_pos⟩
  · simp only [hl, if_false]
    refine ⟨h1, ?_⟩
    simp at hl ⊢
    omega

theorem observeMany_inv {p : Perm} (hp : Good p) (xs : List P2.GL) (s : St) (h : Inv p s) :
    Inv p (observeMany p s xs) := by
  induction xs generalizing s with
  | nil => exact h
  | cons x t ih =>
    simp only [observeMany, List.foldl_cons]
    exact ih _ (observe_inv hp s x h)

theorem observe_input_length (p : Perm) (s : St) (x : P2.GL) :
    (observe p s x).input.length = if s.input.length + 1 = p.rate then 0 else s.input.length + 1 := by
  unfold observe
  by_cases hl : s.input.length + 1 = p.rate
  · simp [hl, duplexing]
  · simp [hl]

theorem observeMany_input_length (p : Perm) (xs ys : List P2.GL) (s s' : St)
    (h : s.input.length = s'.input.length) (hl : xs.length = ys.length) :
    (observeMany p s xs).input.length = (observeMany p s' ys).input.length := by
  induction xs generalizing s s' ys with
  | nil =>
    cases ys with
    | nil => exact h
    | cons y t => simp at hl
  | cons x t ih =>
    cases ys with
    | nil => simp at hl
    | cons y t' =>
      simp only [observeMany, List.foldl_cons]
      apply ih
      · rw [observe_input_length, observe_input_length, h]
      · simpa using hl

theorem observeMany_concat (p : Perm) (s : St) (xs : List P2.GL) (x : P2.GL) :
    observeMany p s (xs ++ [x]) = observe p (observeMany p s xs) x := by
  simp [observeMany, List.foldl_append]

theorem fin_observe (p : Perm) (s : St) (x : P2.GL) :
    fin p (observe p s x) = p.permute (setFrom s.sponge (s.input ++ [x]) 0) := by
  unfold observe fin
  by_cases hl : s.input.length + 1 = p.rate
  · simp [hl, duplexing]
  · simp [hl]

theorem observe_ready {p : Perm} (hp : Good p) (s : St) (x : P2.GL) (h : Inv p s) :
    (observe p s x).input ≠ [] ∨ (observe p s x).output.isEmpty = false := by
  unfold observe
  by_cases hl : (s.input ++ [x]).length = p.rate
  · right
    simp only [hl, if_true, duplexing]
    exact take_nonempty hp _ (hp.size _ (by rw [setFrom_size]; exact h.size))
  · left
    simp only [hl, if_false]
    simp

theorem getChallenge_sponge (p : Perm) (t : St) (h : t.input ≠ [] ∨ t.output.isEmpty = false) :
    (getChallenge p t).1.sponge = fin p t := by
  rw [getChallenge_eq, pop_sponge]
  unfold fin
  by_cases hi : t.input = []
  · have ho : t.output.isEmpty = false := by
      rcases h with h | h
      · exact absurd hi h
      · exact h
    simp [hi, ho]
  · have : t.input.isEmpty = false := by
      cases hti : t.input with
      | nil => exact absurd hti hi
      | cons a b => rfl
    simp [hi, this, duplexing]

theorem exists_concat {α : Type} (l : List α) (n : Nat) (h : l.length = n + 1) :
    ∃ l0 x, l = l0 ++ [x] ∧ l0.length = n := by
  have hne : l ≠ [] := by
    intro e; subst e; simp at h
  refine ⟨l.dropLast, l.getLast hne, (List.dropLast_append_getLast hne).symm, ?_⟩
  simp [h]

theorem fin_differs_or_collision {p : Perm} (hp : Good p) (hinj : Function.Injective p.permute)
    (s : St) (hs : Inv p s) (n : Nat) :
    ∀ xs ys : List P2.GL, xs.length = n → ys.length = n → xs ≠ ys →
      fin p (observeMany p s xs) ≠ fin p (observeMany p s ys) ∨
      ∃ k, k < n ∧
        (observeMany p s (xs.take k)).sponge ≠ (observeMany p s (ys.take k)).sponge ∧
        (observeMany p s (xs.take k)).sponge.size = p.width ∧
        (observeMany p s (ys.take k)).sponge.size = p.width ∧
        ∀ i, p.rate ≤ i →
          (observeMany p s (xs.take k)).sponge[i]! = (observeMany p s (ys.take k)).sponge[i]! := by
  induction n with
  | zero =>
    intro xs ys hx hy hne
    have e1 : xs = [] := List.eq_nil_of_length_eq_zero hx
    have e2 : ys = [] := List.eq_nil_of_length_eq_zero hy
    exact absurd (e1.trans e2.symm) hne
  | succ n ih =>
    intro xs ys hx hy hne
    obtain ⟨xs0, x, rfl, hx0⟩ := exists_concat xs n hx
    obtain ⟨ys0, y, rfl, hy0⟩ := exists_concat ys n hy
    by_cases hfin : fin p (observeMany p s (xs0 ++ [x])) = fin p (observeMany p s (ys0 ++ [y]))
    · right
      have ia := observeMany_inv hp xs0 s hs
      have ia' := observeMany_inv hp ys0 s hs
      have hlen := observeMany_input_length p xs0 ys0 s s rfl (hx0.trans hy0.symm)
      rw [observeMany_concat, observeMany_concat, fin_observe, fin_observe] at hfin
      have hlt := ia.len
      have hw := hp.rate_le
      obtain ⟨e1, e2⟩ := setFrom0_inj _ _ _ _ (by simp [hlen]) (by simp [ia.size]; omega)
        (by rw [ia.size, ia'.size]) (hinj hfin)
      have ein : (observeMany p s xs0).input = (observeMany p s ys0).input :=
        List.append_inj_left' e1 rfl
      have exy : x = y := by
        have := List.append_inj_right' e1 rfl
        simpa using this
      by_cases hsp : (observeMany p s xs0).sponge = (observeMany p s ys0).sponge
      · have hne0 : xs0 ≠ ys0 := by
          intro e; apply hne; rw [e, exy]
        have hf : fin p (observeMany p s xs0) = fin p (observeMany p s ys0) := by
          unfold fin; rw [ein, hsp]
        rcases ih xs0 ys0 hx0 hy0 hne0 with h | ⟨k, hk, h⟩
        · exact absurd hf h
        · refine ⟨k, by omega, ?_⟩
          rw [List.take_append_of_le_length (by omega), List.take_append_of_le_length (by omega)]
          exact h
      · refine ⟨n, by omega, ?_⟩
        rw [List.take_left' hx0, List.take_left' hy0]
        refine ⟨hsp, ia.size, ia'.size, ?_⟩
        intro i hi
        apply e2
        simp
        omega
    · left; exact hfin

theorem observeMany_no_duplex (p : Perm) (zs : List P2.GL) (s : St)
    (h : s.input.length + zs.length < p.rate) :
    (observeMany p s zs).sponge = s.sponge ∧ (observeMany p s zs).input = s.input ++ zs := by
  induction zs generalizing s with
  | nil => simp [observeMany]
  | cons z t ih =>
    simp only [observeMany, List.foldl_cons]
    have hl : ¬ (s.input ++ [z]).length = p.rate := by simp at h ⊢; omega
    have e : observe p s z = ⟨s.sponge, s.input ++ [z], []⟩ := by
      unfold observe; simp only [hl, if_false]
    have := ih (observe p s z) (by rw [e]; simp at h ⊢; omega)
    rw [e] at this
    simpa [observeMany, e] using this

/-! ### T4: squeezing -/

/-- popping `l.length ≤ o.length` challenges from a full output buffer: no permutation happens, the
challenges are the buffer read backwards -/
theorem pops {α : Type} (p : Perm) (l : List α) (sp : Array P2.GL) (o pre : List P2.GL)
    (h : l.length ≤ o.length) :
    l.foldl (fun acc _ => gstepN p acc) ((⟨sp, [], o⟩ : St), pre) =
      ((⟨sp, [], o.take (o.length - l.length)⟩ : St), pre ++ o.reverse.take l.length) := by
  induction l generalizing o pre with
  | nil => simp
  | cons a t ih =>
    have ho : o.length = (o.length - 1) + 1 := by simp at h; omega
    obtain ⟨o', c, rfl, ho'⟩ := exists_concat o _ ho
    have hstep : gstepN p ((⟨sp, [], o' ++ [c]⟩ : St), pre) = ((⟨sp, [], o'⟩ : St), pre ++ [c]) := by
      rw [gstepN_apply, getChallenge_eq]
      simp [pop]
    simp only [List.foldl_cons, hstep]
    rw [ih o' (pre ++ [c]) (by simp at h ⊢; omega)]
    have e1 : (o' ++ [c]).length - (a :: t).length = o'.length - t.length := by simp
    rw [e1, List.take_append_of_le_length (by omega)]
    simp

theorem getChallenge_duplexing (p : Perm) (s : St)
    (hd : s.input ≠ [] ∨ s.output = []) :
    getChallenge p s = pop (duplexing p s) := by
  rw [getChallenge_eq]
  have : (!s.input.isEmpty || s.output.isEmpty) = true := by
    rcases hd with h | h
    · cases hs : s.input with
      | nil => exact absurd hs h
      | cons a b => simp
    · simp [h]
  rw [this]; rfl

theorem getChallenge_after_duplexing (p : Perm) (s : St)
    (hne : (duplexing p s).output.isEmpty = false) :
    getChallenge p (duplexing p s) = pop (duplexing p s) := by
  rw [getChallenge_eq, hne]
  rfl

theorem fold_gstepN_duplexing {α : Type} (p : Perm) (a : α) (t : List α) (s : St)
    (hd : s.input ≠ [] ∨ s.output = []) (hne : (duplexing p s).output.isEmpty = false) :
    (a :: t).foldl (fun acc _ => gstepN p acc) (s, []) =
      (a :: t).foldl (fun acc _ => gstepN p acc) (duplexing p s, []) := by
  simp only [List.foldl_cons, gstepN_apply]
  rw [getChallenge_duplexing p s hd, getChallenge_after_duplexing p s hne]

theorem getN_explicit (p : Perm) (s : St) (n : Nat) (hd : s.input ≠ [] ∨ s.output = [])
    (h0 : 0 < n) (hn : n ≤ p.rate) (hsz : p.rate ≤ (duplexing p s).sponge.size) :
    getN p s n =
      ((⟨(duplexing p s).sponge, [],
          ((duplexing p s).sponge.toList.take p.rate).take (p.rate - n)⟩ : St),
        ((duplexing p s).sponge.toList.take p.rate).reverse.take n) := by
  have hlen : ((duplexing p s).sponge.toList.take p.rate).length = p.rate := by
    rw [List.length_take, Array.length_toList]; omega
  have hne : (duplexing p s).output.isEmpty = false := by
    cases ho : (duplexing p s).sponge.toList.take p.rate with
    | nil => rw [ho] at hlen; simp at hlen; omega
    | cons a b =>
      have : (duplexing p s).output = a :: b := ho
      rw [this]; rfl
  rw [getN_eq]
  cases n with
  | zero => omega
  | succ m =>
    rw [List.range_succ_eq_map, fold_gstepN_duplexing p _ _ s hd hne, duplexing_eq,
      pops p _ _ _ _ (by simp [hlen]; omega)]
    simp [hlen]

/-- the challenges squeezed after a forced duplexing depend on the post-duplexing sponge only -/
theorem getN_congr (p : Perm) (s s' : St) (n : Nat)
    (hd : s.input ≠ [] ∨ s.output = []) (hd' : s'.input ≠ [] ∨ s'.output = [])
    (h : (duplexing p s).sponge = (duplexing p s').sponge) :
    (getN p s n).2 = (getN p s' n).2 ∧ (0 < n → (getN p s n).1 = (getN p s' n).1) := by
  have hdup : duplexing p s = duplexing p s' := by
    rw [duplexing_eq p s, duplexing_eq p s', h]
  rw [getN_eq, getN_eq]
  cases n with
  | zero => simp
  | succ m =>
    rw [List.range_succ_eq_map]
    simp only [List.foldl_cons, gstepN_apply]
    rw [getChallenge_duplexing p s hd, getChallenge_duplexing p s' hd', hdup]
    exact ⟨rfl, fun _ => rfl⟩

/-! ### T5: equal-shape transcripts -/

theorem append_inj7 {α : Type} (a1 a2 a3 a4 a5 a6 a7 b1 b2 b3 b4 b5 b6 b7 : List α)
    (h1 : a1.length = b1.length) (h2 : a2.length = b2.length) (h3 : a3.length = b3.length)
    (h4 : a4.length = b4.length) (h5 : a5.length = b5.length) (h6 : a6.length = b6.length)
    (h : a1 ++ a2 ++ a3 ++ a4 ++ a5 ++ a6 ++ a7 = b1 ++ b2 ++ b3 ++ b4 ++ b5 ++ b6 ++ b7) :
    a1 = b1 ∧ a2 = b2 ∧ a3 = b3 ∧ a4 = b4 ∧ a5 = b5 ∧ a6 = b6 ∧ a7 = b7 := by
  simp only [List.append_assoc] at h
  obtain ⟨e1, h⟩ := List.append_inj h h1
  obtain ⟨e2, h⟩ := List.append_inj h h2
  obtain ⟨e3, h⟩ := List.append_inj h h3
  obtain ⟨e4, h⟩ := List.append_inj h h4
  obtain ⟨e5, h⟩ := List.append_inj h h5
  obtain ⟨e6, h⟩ := List.append_inj h h6
  exact ⟨e1, e2, e3, e4, e5, e6, h⟩

/-- flattening is injective on lists of equally long blocks -/
theorem flatten_inj {α : Type} (n : Nat) (hn : 0 < n) (a b : List (List α))
    (ha : ∀ d ∈ a, d.length = n) (hb : ∀ d ∈ b, d.length = n)
    (h : a.flatten = b.flatten) : a = b := by
  induction a generalizing b with
  | nil =>
    cases b with
    | nil => rfl
    | cons d t =>
      have := hb d (by simp)
      simp only [List.flatten_nil, List.flatten_cons] at h
      have h2 : (d ++ t.flatten).length = 0 := by rw [← h]; rfl
      rw [List.length_append] at h2; omega
  | cons c t ih =>
    cases b with
    | nil =>
      have := ha c (by simp)
      simp only [List.flatten_nil, List.flatten_cons] at h
      have h2 : (c ++ t.flatten).length = 0 := by rw [h]; rfl
      rw [List.length_append] at h2; omega
    | cons d t' =>
      simp only [List.flatten_cons] at h
      have hc := ha c (by simp)
      have hd := hb d (by simp)
      obtain ⟨e1, e2⟩ := List.append_inj h (hc.trans hd.symm)
      rw [e1, ih t' (fun x hx => ha x (by simp [hx])) (fun x hx => hb x (by simp [hx])) e2]

theorem flattenCap_inj (a b : List Merkle.Digest)
    (ha : ∀ d ∈ a, d.length = 4) (hb : ∀ d ∈ b, d.length = 4)
    (h : Plonk.flattenCap a = Plonk.flattenCap b) : a = b := by
  unfold Plonk.flattenCap at h
  simp only [List.flatMap_id] at h
  exact flatten_inj 4 (by decide) a b ha hb h

theorem flattenCap_length (a : List Merkle.Digest) (ha : ∀ d ∈ a, d.length = 4) :
    (Plonk.flattenCap a).length = 4 * a.length := by
  unfold Plonk.flattenCap
  induction a with
  | nil => rfl
  | cons d t ih =>
    have hd := ha d (by simp)
    have := ih (fun x hx => ha x (by simp [hx]))
    simp only [List.flatMap_cons, List.length_append, List.length_cons, id] at this ⊢
    omega

theorem flattenExt_inj (a b : List GL2) (h : Plonk.flattenExt a = Plonk.flattenExt b) : a = b := by
  unfold Plonk.flattenExt at h
  induction a generalizing b with
  | nil =>
    cases b with
    | nil => rfl
    | cons y t => simp at h
  | cons x t ih =>
    cases b with
    | nil => simp at h
    | cons y t' =>
      simp only [List.flatMap_cons, List.cons_append, List.nil_append, List.cons.injEq] at h
      obtain ⟨e1, e2, e3⟩ := h
      have : x = y := by
        cases x; cases y; simp_all
      rw [this, ih t' e3]

theorem flatMap_flattenExt (l : List (List GL2)) :
    l.flatMap Plonk.flattenExt = Plonk.flattenExt l.flatten := by
  unfold Plonk.flattenExt
  induction l with
  | nil => rfl
  | cons a t ih => simp [ih]

/-- caps of equal shape (`m` digests of 4 elements each): the flattened list of caps determines them -/
theorem flatMap_flattenCap_inj (m : Nat) (hm : 0 < m) (a b : List (List Merkle.Digest))
    (ha : ∀ cap ∈ a, cap.length = m ∧ ∀ d ∈ cap, d.length = 4)
    (hb : ∀ cap ∈ b, cap.length = m ∧ ∀ d ∈ cap, d.length = 4)
    (h : a.flatMap Plonk.flattenCap = b.flatMap Plonk.flattenCap) : a = b := by
  induction a generalizing b with
  | nil =>
    cases b with
    | nil => rfl
    | cons d t =>
      have hd := hb d (by simp)
      have hl := flattenCap_length d hd.2
      simp only [List.flatMap_nil, List.flatMap_cons] at h
      have h2 : (Plonk.flattenCap d ++ t.flatMap Plonk.flattenCap).length = 0 := by rw [← h]; rfl
      rw [List.length_append] at h2; omega
  | cons c t ih =>
    cases b with
    | nil =>
      have hc := ha c (by simp)
      have hl := flattenCap_length c hc.2
      simp only [List.flatMap_nil, List.flatMap_cons] at h
      have h2 : (Plonk.flattenCap c ++ t.flatMap Plonk.flattenCap).length = 0 := by rw [h]; rfl
      rw [List.length_append] at h2; omega
    | cons d t' =>
      have hc := ha c (by simp)
      have hd := hb d (by simp)
      simp only [List.flatMap_cons] at h
      obtain ⟨e1, e2⟩ := List.append_inj h (by
        rw [flattenCap_length c hc.2, flattenCap_length d hd.2, hc.1, hd.1])
      rw [flattenCap_inj c d hc.2 hd.2 e1,
        ih t' (fun x hx => ha x (by simp [hx])) (fun x hx => hb x (by simp [hx])) e2]

/-! ### number of challenges drawn -/

theorem fold_gstepN_length {α : Type} (p : Perm) (l : List α) (s : St) (pre : List P2.GL) :
    (l.foldl (fun acc _ => gstepN p acc) (s, pre)).2.length = pre.length + l.length := by
  induction l generalizing s pre with
  | nil => simp
  | cons a t ih =>
    simp only [List.foldl_cons, gstepN_apply]
    rw [ih]; simp; omega

theorem getN_length (p : Perm) (s : St) (n : Nat) : (getN p s n).2.length = n := by
  rw [getN_eq, fold_gstepN_length]; simp

/-! ### invariants along a history -/

theorem getChallenge_inv {p : Perm} (hp : Good p) (s : St) (h : Inv p s) : Inv p (getChallenge p s).1 := by
  rw [getChallenge_eq]
  constructor
  · rw [pop_sponge]
    split
    · exact hp.size _ (by rw [setFrom_size]; exact h.size)
    · exact h.size
  · rw [pop_input]
    split
    · exact hp.rate_pos
    · exact h.len

theorem fold_gstepN_inv {α : Type} {p : Perm} (hp : Good p) (l : List α) (s : St) (pre : List P2.GL)
    (h : Inv p s) : Inv p (l.foldl (fun acc _ => gstepN p acc) (s, pre)).1 := by
  induction l generalizing s pre with
  | nil => exact h
  | cons a t ih =>
    simp only [List.foldl_cons, gstepN_apply]
    exact ih _ _ (getChallenge_inv hp s h)

theorem stepN_inv {p : Perm} (hp : Good p) (op : Op) (s : St) (pre : List P2.GL) (h : Inv p s) :
    Inv p (stepN p (s, pre) op).1 := by
  cases op with
  | obs xs => exact observeMany_inv hp xs s h
  | get n =>
    simp only [stepN, getN_eq]
    exact fold_gstepN_inv hp _ s [] h

theorem runFrom_inv {p : Perm} (hp : Good p) (ops : List Op) (s : St) (h : Inv p s) :
    Inv p (runFrom p s ops).1 := by
  unfold runFrom
  suffices ∀ (acc : St × List P2.GL), Inv p acc.1 → Inv p (ops.foldl (stepN p) acc).1 from this _ h
  induction ops with
  | nil => intro acc h; exact h
  | cons op t ih =>
    intro acc h
    simp only [List.foldl_cons]
    exact ih _ (stepN_inv hp op acc.1 acc.2 h)

theorem runState_inv {p : Perm} (hp : Good p) (ops : List Op) : Inv p (runState p ops).1 :=
  runFrom_inv hp ops _ ⟨by simp [init], by simpa [init] using hp.rate_pos⟩

theorem runFrom_obs_get1 (p : Perm) (s : St) (xs : List P2.GL) :
    (runFrom p s [Op.obs xs, Op.get 1]).1 = (getChallenge p (observeMany p s xs)).1 := by
  simp [runFrom, stepN, getN]

/-! ### block boundaries -/

theorem observeMany_input_mod {p : Perm} (hp : Good p) (zs : List P2.GL) (s : St) (h : Inv p s) :
    (observeMany p s zs).input.length = (s.input.length + zs.length) % p.rate := by
  induction zs generalizing s with
  | nil => simp [observeMany, Nat.mod_eq_of_lt h.len]
  | cons z t ih =>
    simp only [observeMany, List.foldl_cons]
    have := ih (observe p s z) (observe_inv hp s z h)
    simp only [observeMany] at this
    rw [this, observe_input_length]
    have hl := h.len
    by_cases e : s.input.length + 1 = p.rate
    · simp only [e, if_true, List.length_cons]
      rw [show s.input.length + (t.length + 1) = p.rate + t.length by omega, Nat.add_mod_left,
        Nat.zero_add]
    · simp only [e, if_false, List.length_cons]
      rw [show s.input.length + (t.length + 1) = s.input.length + 1 + t.length by omega]

/-- position of the last block boundary (the last duplexing) among the first `n` observations made
from a state with `a` buffered elements; `0` if there was none -/
def boundary (rate a n : Nat) : Nat := if a + n < rate then 0 else n - (a + n) % rate

theorem boundary_le (rate a n : Nat) : boundary rate a n ≤ n := by
  unfold boundary; split <;> omega

theorem boundary_mod (rate a n : Nat) (h : 0 < boundary rate a n) :
    (a + boundary rate a n) % rate = 0 := by
  unfold boundary at h ⊢
  by_cases c : a + n < rate
  · simp [c] at h
  · simp only [c, if_false] at h ⊢
    have : a + (n - (a + n) % rate) = (a + n) - (a + n) % rate := by omega
    rw [this]
    exact Nat.sub_mod_eq_zero_of_mod_eq (Nat.mod_mod _ _).symm

/-- the sponge state after `zs` is the one produced at the last block boundary -/
theorem sponge_at_boundary {p : Perm} (hp : Good p) (zs : List P2.GL) (s : St) (h : Inv p s) :
    (observeMany p s zs).sponge =
      (observeMany p s (zs.take (boundary p.rate s.input.length zs.length))).sponge := by
  have h0 := hp.rate_pos
  have ha := h.len
  unfold boundary
  by_cases c : s.input.length + zs.length < p.rate
  · simp only [c, if_true, List.take_zero]
    exact (observeMany_no_duplex p zs s c).1
  · simp only [c, if_false]
    -- r := (a + n) % rate < n
    have hr : (s.input.length + zs.length) % p.rate < p.rate := Nat.mod_lt _ h0
    have hq : 1 ≤ (s.input.length + zs.length) / p.rate := by
      rw [Nat.le_div_iff_mul_le h0]; omega
    have hdm := Nat.mod_add_div (s.input.length + zs.length) p.rate
    have hmul : p.rate ≤ p.rate * ((s.input.length + zs.length) / p.rate) :=
      Nat.le_mul_of_pos_right _ hq
    have hrn : (s.input.length + zs.length) % p.rate < zs.length := by omega
    generalize hk : zs.length - (s.input.length + zs.length) % p.rate = k
    have hkl : k ≤ zs.length := by omega
    have e : observeMany p s zs = observeMany p (observeMany p s (zs.take k)) (zs.drop k) := by
      rw [← observeMany_append', List.take_append_drop]
    have hin : (observeMany p s (zs.take k)).input = [] := by
      apply List.eq_nil_of_length_eq_zero
      rw [observeMany_input_mod hp _ s h, List.length_take, Nat.min_eq_left hkl]
      have : s.input.length + k = (s.input.length + zs.length) - (s.input.length + zs.length) % p.rate := by
        omega
      rw [this]
      exact Nat.sub_mod_eq_zero_of_mod_eq (Nat.mod_mod _ _).symm
    rw [e]
    exact (observeMany_no_duplex p (zs.drop k) _ (by rw [hin, List.length_drop]; simp; omega)).1

/-! ### number of challenges drawn -/

/-- number of challenges a history draws -/
def drawn : List Op → Nat
  | [] => 0
  | .obs _ :: rest => drawn rest
  | .get n :: rest => n + drawn rest

theorem runFrom_length (p : Perm) (s : St) (ops : List Op) : (runFrom p s ops).2.length = drawn ops := by
  induction ops generalizing s with
  | nil => rfl
  | cons op t ih =>
    have e : runFrom p s (op :: t) = runFrom p s ([op] ++ t) := rfl
    rw [e, runFrom_append, List.length_append, ih]
    cases op with
    | obs xs => simp [runFrom, stepN, drawn]
    | get n =>
      have : (runFrom p s [Op.get n]).2 = (getN p s n).2 := by simp [runFrom, stepN]
      rw [this, getN_length]; rfl

end P2.Lemmas.C04
