/-
C07 on the model's own generated row: the statement (`C07On`) and the glue lemmas used to derive
it, gate by gate, from `…_generate_sat`, `…_pinned…` and `…_generatedWires`.
-/
import P2.Lemmas.C07
set_option linter.unusedSectionVars false
namespace P2.Lemmas.C07
open P2 P2.Gates

/-- **C07 for gate `g` on the row its own generators fill in** (over Goldilocks, with the model's
executable evaluator): every constraint vanishes on the generated row, and replacing the value in
any single generator-written column `k ∈ g.generatedWires` by a different value makes some
constraint non-zero. -/
def C07On (g : GateKind) (consts wires pih : Array P2.GL) : Prop :=
  (∀ c ∈ g.evalUnfiltered (⟨consts, g.generate consts wires, pih⟩ : EvalVars P2.GL), c = 0) ∧
  ∀ k ∈ g.generatedWires, ∀ x : P2.GL, x ≠ (g.generate consts wires)[k]! →
    ∃ c ∈ g.evalUnfiltered (⟨consts, (g.generate consts wires).set! k x, pih⟩ : EvalVars P2.GL),
      c ≠ 0

section
variable {K : Type} [Field K] [DecidableEq K] [Inhabited K]

/-- a non-zero `con g v i` exhibits a non-zero constraint in the list -/
theorem exists_ne_of_con_ne (g : GateKind) (v : EvalVars K) (i : Nat) (h : con g v i ≠ 0) :
    ∃ c ∈ evalF g v, c ≠ 0 := by
  unfold con at h
  rw [List.getD_eq_getElem?_getD] at h
  cases hc : (evalF g v)[i]? with
  | none => rw [hc] at h; exact absurd rfl h
  | some c => rw [hc] at h; exact ⟨c, List.mem_of_getElem? hc, h⟩

theorem con_eq_zero_of_sat (g : GateKind) (v : EvalVars K) (h : Sat g v) (i : Nat) :
    con g v i = 0 := (sat_iff_con g v).1 h i

end

/-- size is preserved by a fold whose steps preserve size -/
theorem foldl_size_preserved {α β : Type} (f : Array α → β → Array α)
    (h : ∀ ws a, (f ws a).size = ws.size) (l : List β) (ws : Array α) :
    (l.foldl f ws).size = ws.size := by
  induction l generalizing ws with
  | nil => rfl
  | cons a l ih => rw [List.foldl_cons, ih, h]

/-- the same for a fold carrying extra state next to the row (row in the first component) -/
theorem foldl_size_preserved_fst {α β σ : Type} (f : Array α × σ → β → Array α × σ)
    (h : ∀ st a, (f st a).1.size = st.1.size) (l : List β) (st : Array α × σ) :
    (l.foldl f st).1.size = st.1.size := by
  induction l generalizing st with
  | nil => rfl
  | cons a l ih => rw [List.foldl_cons, ih, h]

/-- … and with the row in the second component -/
theorem foldl_size_preserved_snd {α β σ : Type} (f : σ × Array α → β → σ × Array α)
    (h : ∀ st a, (f st a).2.size = st.2.size) (l : List β) (st : σ × Array α) :
    (l.foldl f st).2.size = st.2.size := by
  induction l generalizing st with
  | nil => rfl
  | cons a l ih => rw [List.foldl_cons, ih, h]

theorem size_setAlg (ws : Array P2.GL) (i : Nat) (x : Alg P2.GL) : (setAlg ws i x).size = ws.size := by
  simp only [setAlg, size_set!]

/-- the zero-padded row `generate` starts from has at least `m` columns -/
theorem size_pad_ge (wires : Array P2.GL) (m : Nat) :
    m ≤ (wires ++ Array.replicate (m - wires.size) (0 : P2.GL)).size := by
  simp only [Array.size_append, Array.size_replicate]; omega

section OverGL
attribute [local instance] glField

/-- glue: from "the generated row satisfies the gate" and a pinned theorem for column `k` and
constraint `j`, the replacement half of `C07On` for that column -/
theorem replaced_violates (g : GateKind) (consts row pih : Array P2.GL)
    (hev : ∀ v : EvalVars P2.GL, g.evalUnfiltered v = evalF g v)
    (k j : Nat) (hk : k < row.size)
    (hpin : ∀ v' : EvalVars P2.GL, DiffersOnlyAt (⟨consts, row, pih⟩ : EvalVars P2.GL) v' k →
      con g v' j ≠ 0)
    (x : P2.GL) (hx : x ≠ row[k]!) :
    ∃ c ∈ g.evalUnfiltered (⟨consts, row.set! k x, pih⟩ : EvalVars P2.GL), c ≠ 0 := by
  rw [hev]
  exact exists_ne_of_con_ne g _ j
    (hpin _ (setW_differs (⟨consts, row, pih⟩ : EvalVars P2.GL) k x hk hx))

end OverGL
end P2.Lemmas.C07
