/-
Lemmas for C17: little-endian words, item sequences, and the generic facts about `Codec.read` /
`Codec.write` proved by induction on the codec. Core Lean only.
-/
import P2.Model.Codec
namespace P2.Lemmas.C17
open P2 P2.Codec P2.Codec.Codec

/-! ### little-endian words -/

theorem toNat_toUInt8_mod (n : Nat) : (n % 256).toUInt8.toNat = n % 256 := by
  simp [Nat.toUInt8, UInt8.toNat_ofNat']

theorem leBytes_length (k n : Nat) : (leBytes k n).length = k := by
  induction k generalizing n with
  | zero => rfl
  | succ k ih => simp [leBytes, ih]

/-- reading back a `k`-byte word that fits -/
theorem readLE_leBytes (k n : Nat) (rest : Bytes) (h : n < 256 ^ k) :
    readLE k (leBytes k n ++ rest) = some (n, rest) := by
  induction k generalizing n with
  | zero =>
    have : n = 0 := by simpa using h
    subst this; rfl
  | succ k ih =>
    have h' : n / 256 < 256 ^ k := by
      rw [Nat.div_lt_iff_lt_mul (by decide)]
      rw [Nat.pow_succ] at h; exact h
    simp only [leBytes, List.cons_append, readLE, ih _ h', toNat_toUInt8_mod]
    congr 2
    omega

/-- the value read is a `k`-byte value, and exactly `k` bytes are consumed -/
theorem readLE_spec {k : Nat} {bs rest : Bytes} {n : Nat} (h : readLE k bs = some (n, rest)) :
    n < 256 ^ k ∧ ∃ pre, bs = pre ++ rest ∧ pre.length = k := by
  induction k generalizing bs n with
  | zero =>
    simp only [readLE, Option.some.injEq, Prod.mk.injEq] at h
    obtain ⟨rfl, rfl⟩ := h
    exact ⟨by simp, [], rfl, rfl⟩
  | succ k ih =>
    cases bs with
    | nil => simp [readLE] at h
    | cons b bs =>
      simp only [readLE] at h
      split at h
      · rename_i v r hv
        simp only [Option.some.injEq, Prod.mk.injEq] at h
        obtain ⟨rfl, rfl⟩ := h
        obtain ⟨hlt, pre, rfl, hlen⟩ := ih hv
        refine ⟨?_, b :: pre, rfl, by simp [hlen]⟩
        have hb : b.toNat < 256 := b.toNat_lt
        rw [Nat.pow_succ]; omega
      · simp at h

/-! ### item sequences -/

theorem readSeq_writeSeq {α} (w : Nat → α → Bytes) (r : Nat → Bytes → Option (α × Bytes))
    (xs : List α) (i : Nat) (rest : Bytes)
    (h : ∀ j x, xs[j]? = some x → ∀ rest', r (i + j) (w (i + j) x ++ rest') = some (x, rest')) :
    readSeq r xs.length i (writeSeq w i xs ++ rest) = some (xs, rest) := by
  induction xs generalizing i with
  | nil => rfl
  | cons x xs ih =>
    have h0 := h 0 x (by simp) (writeSeq w (i + 1) xs ++ rest)
    simp only [Nat.add_zero] at h0
    have ih' := ih (i + 1) (fun j y hy rest' => by
      have := h (j + 1) y (by simpa using hy) rest'
      simpa [Nat.add_assoc, Nat.add_comm 1 j] using this)
    simp only [List.length_cons, writeSeq, List.append_assoc, readSeq, h0, ih']

theorem allSeq_getElem? {α} (p : Nat → α → Bool) (xs : List α) (i : Nat) (h : allSeq p i xs = true) :
    ∀ j x, xs[j]? = some x → p (i + j) x = true := by
  induction xs generalizing i with
  | nil => intro j x hx; simp at hx
  | cons y ys ih =>
    simp only [allSeq, Bool.and_eq_true] at h
    intro j x hx
    cases j with
    | zero => simp at hx; subst hx; simpa using h.1
    | succ j =>
      have := ih (i + 1) h.2 j x (by simpa using hx)
      simpa [Nat.add_assoc, Nat.add_comm 1 j] using this

theorem readSeq_suffix {α} (r : Nat → Bytes → Option (α × Bytes))
    (hr : ∀ i bs x rest, r i bs = some (x, rest) → ∃ pre, bs = pre ++ rest)
    (n i : Nat) (bs : Bytes) (xs : List α) (rest : Bytes) (h : readSeq r n i bs = some (xs, rest)) :
    xs.length = n ∧ ∃ pre, bs = pre ++ rest := by
  induction n generalizing i bs xs with
  | zero =>
    simp only [readSeq, Option.some.injEq, Prod.mk.injEq] at h
    obtain ⟨rfl, rfl⟩ := h
    exact ⟨rfl, [], rfl⟩
  | succ n ih =>
    simp only [readSeq] at h
    split at h
    · simp at h
    · rename_i x r1 hx
      split at h
      · simp at h
      · rename_i ys r2 hys
        simp only [Option.some.injEq, Prod.mk.injEq] at h
        obtain ⟨rfl, rfl⟩ := h
        obtain ⟨p1, rfl⟩ := hr _ _ _ _ hx
        obtain ⟨hl, p2, rfl⟩ := ih _ _ _ hys
        exact ⟨by simp [hl], p1 ++ p2, by simp⟩

/-! ### the generic theorems, by induction on the codec -/

/-- **Round trip.** Decoding the encoding of an encodable value, followed by anything, returns the
value and leaves exactly what followed. -/
theorem read_write {α : Type} (c : Codec α) : ∀ (v : α) (rest : Bytes), WF c v →
    Codec.read c (Codec.write c v ++ rest) = some (v, rest) := by
  induction c with
  | nat k =>
    intro n rest h
    simp only [WF, wf, decide_eq_true_eq] at h
    simp only [Codec.write, Codec.read, readLE_leBytes k n rest h]
  | bool =>
    intro b rest _
    cases b <;> simp [Codec.write, Codec.read]
  | dep c k ihc ihk =>
    rintro ⟨a, b⟩ rest h
    simp only [WF, wf, Bool.and_eq_true] at h
    simp only [Codec.write, Codec.read, List.append_assoc, ihc a _ h.1, ihk a b rest h.2]
  | seq n k ih =>
    intro xs rest h
    simp only [WF, wf, Bool.and_eq_true, beq_iff_eq] at h
    obtain ⟨hlen, hall⟩ := h
    have hall' := allSeq_getElem? _ xs 0 hall
    have := readSeq_writeSeq (fun i x => Codec.write (k i) x) (fun i => Codec.read (k i)) xs 0 rest
      (fun j x hx rest' => ih (0 + j) x rest' (hall' j x hx))
    simp only [Codec.write, Codec.read, ← hlen, this]
  | map f g c ih =>
    intro b rest h
    simp only [WF, wf, Bool.and_eq_true, decide_eq_true_eq] at h
    simp only [Codec.write, Codec.read, ih (g b) rest h.2, h.1]

/-- **Decoding consumes a prefix.** Whatever is decoded, the unread bytes are a suffix of the input:
the decoder never invents bytes and never reads past the end. -/
theorem read_suffix {α : Type} (c : Codec α) : ∀ (bs : Bytes) (v : α) (rest : Bytes),
    Codec.read c bs = some (v, rest) → ∃ pre, bs = pre ++ rest := by
  induction c with
  | nat k =>
    intro bs v rest h
    obtain ⟨_, pre, hp, _⟩ := readLE_spec (by simpa [Codec.read] using h)
    exact ⟨pre, hp⟩
  | bool =>
    intro bs v rest h
    cases bs with
    | nil => simp [Codec.read] at h
    | cons b r =>
      simp only [Codec.read] at h
      split at h
      · simp only [Option.some.injEq, Prod.mk.injEq] at h; exact ⟨[b], by simp [h.2]⟩
      · split at h
        · simp only [Option.some.injEq, Prod.mk.injEq] at h; exact ⟨[b], by simp [h.2]⟩
        · simp at h
  | dep c k ihc ihk =>
    intro bs v rest h
    simp only [Codec.read] at h
    split at h
    · simp at h
    · rename_i a r1 ha
      split at h
      · simp at h
      · rename_i b r2 hb
        simp only [Option.some.injEq, Prod.mk.injEq] at h
        obtain ⟨_, rfl⟩ := h
        obtain ⟨p1, rfl⟩ := ihc _ _ _ ha
        obtain ⟨p2, rfl⟩ := ihk a _ _ _ hb
        exact ⟨p1 ++ p2, by simp⟩
  | seq n k ih =>
    intro bs v rest h
    simp only [Codec.read] at h
    exact (readSeq_suffix (fun i => Codec.read (k i)) (fun i bs x rest hx => ih i bs x rest hx) n 0 bs v rest h).2
  | map f g c ih =>
    intro bs v rest h
    simp only [Codec.read] at h
    split at h
    · simp at h
    · rename_i a r ha
      simp only [Option.some.injEq, Prod.mk.injEq] at h
      obtain ⟨_, rfl⟩ := h
      exact ih _ _ _ ha

/-- a `seq` decodes to exactly the prescribed number of items -/
theorem read_seq_length {α : Type} (n : Nat) (k : Nat → Codec α) (bs : Bytes) (xs : List α) (rest : Bytes)
    (h : Codec.read (seq n k) bs = some (xs, rest)) : xs.length = n := by
  simp only [Codec.read] at h
  exact (readSeq_suffix (fun i => Codec.read (k i)) (fun i bs x rest hx => read_suffix (k i) bs x rest hx) n 0 bs xs rest h).1

end P2.Lemmas.C17
