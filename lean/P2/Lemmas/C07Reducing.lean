/-
C07 for the two reducing gates `GateKind.reducing n` (`reducing.rs`) and `GateKind.reducingExt n`
(`reducing_extension.rs`).

Both evaluators are the same fold, parameterised by the wire position `a i` of accumulator `i` and
by the coefficient `cf i` (an algebra element): constraint pair `i` is the two components of
`prev_i * alpha + cf i − acc_i` with `prev_0 = old_acc` (wires 4,5), `prev_i = acc_{i-1}`,
`alpha` = wires 2,3.  Everything is proved once for the common form (`redEval`, `redC`) and then
instantiated.
-/
import P2.Lemmas.C07
import Mathlib.Algebra.QuadraticAlgebra.Defs
set_option linter.unusedSectionVars false
set_option linter.unusedSimpArgs false
set_option linter.unusedVariables false
namespace P2.Lemmas.C07
open P2 P2.Gates

/-! ## the fold carrying `(previous accumulator, constraints so far)` is a `flatMap` -/

theorem red_foldl_pair_flatMap {A β : Type} (a0 : A) (acc : Nat → A) (g : A → Nat → List β)
    (n : Nat) :
    (List.range n).foldl (fun (st : A × List β) i => (acc i, st.2 ++ g st.1 i)) (a0, []) =
      (if n = 0 then a0 else acc (n - 1),
       (List.range n).flatMap fun i => g (if i = 0 then a0 else acc (i - 1)) i) := by
  induction n with
  | zero => simp
  | succ n ih =>
    rw [List.range_succ, List.foldl_append, ih, List.flatMap_append]
    simp

/-- wire index of (the first component of) `prev_i`: `old_acc` at 4 for `i = 0`, else accumulator
`i − 1` -/
def redPrevAt (a : Nat → Nat) (i : Nat) : Nat := if i = 0 then 4 else a (i - 1)

section Ops
variable {K : Type} [FOps K] [Inhabited K]

/-- the common evaluator of the two reducing gates, over any operations record -/
def redEval (a : Nat → Nat) (cf : Nat → Alg K) (n : Nat) (v : EvalVars K) : List K :=
  ((List.range n).foldl (fun (st : Alg K × List K) i =>
    (v.alg (a i), st.2 ++ (st.1 * v.alg 2 + cf i - v.alg (a i)).comps)) (v.alg 4, [])).2

theorem evalReducing_eq_redEval (n : Nat) (v : EvalVars K) :
    evalReducing n v = redEval (redWiresAccs n) (fun i => Alg.ofK (v.w (6 + i))) n v := rfl

theorem evalReducingExt_eq_redEval (n : Nat) (v : EvalVars K) :
    evalReducingExt n v = redEval (redExtWiresAccs n) (fun i => v.alg (6 + 2 * i)) n v := rfl

theorem redEval_eq_flatMap (a : Nat → Nat) (cf : Nat → Alg K) (n : Nat) (v : EvalVars K) :
    redEval a cf n v = (List.range n).flatMap fun i =>
      (v.alg (redPrevAt a i) * v.alg 2 + cf i - v.alg (a i)).comps := by
  unfold redEval
  rw [red_foldl_pair_flatMap (v.alg 4) (fun i => v.alg (a i))
    (fun p i => (p * v.alg 2 + cf i - v.alg (a i)).comps)]
  show (List.range n).flatMap _ = (List.range n).flatMap _
  congr 1
  funext i
  unfold redPrevAt
  by_cases h : i = 0
  · simp [h]
  · simp [h]

end Ops

/-! ## field notation -/

section Field
variable {K : Type} [Field K] [DecidableEq K] [Inhabited K]

/-- the two components of constraint pair `i` in wire notation; `cf i` is the coefficient -/
def redC (a : Nat → Nat) (cf : Nat → K × K) (v : EvalVars K) (i : Nat) : K × K :=
  (v.wires[redPrevAt a i]! * v.wires[2]! + 7 * (v.wires[redPrevAt a i + 1]! * v.wires[3]!)
      + (cf i).1 - v.wires[a i]!,
   v.wires[redPrevAt a i]! * v.wires[3]! + v.wires[redPrevAt a i + 1]! * v.wires[2]!
      + (cf i).2 - v.wires[a i + 1]!)

/-- constraint `j` of the common form -/
def redCon (a : Nat → Nat) (cf : Nat → K × K) (n : Nat) (v : EvalVars K) (j : Nat) : K :=
  ((List.range n).flatMap fun i => [(redC a cf v i).1, (redC a cf v i).2]).getD j 0

theorem redEval_field (a : Nat → Nat) (cf : Nat → K × K) (n : Nat) (v : EvalVars K) :
    @redEval K (FOps.ofField K) _ a cf n v =
      (List.range n).flatMap fun i => [(redC a cf v i).1, (redC a cf v i).2] := by
  rw [@redEval_eq_flatMap K (FOps.ofField K) _ a cf n v]
  rfl

theorem redCon_lt (a : Nat → Nat) (cf : Nat → K × K) (n : Nat) (v : EvalVars K) (i : Nat)
    (hi : i < n) :
    redCon a cf n v (2 * i) = (redC a cf v i).1 ∧ redCon a cf n v (2 * i + 1) = (redC a cf v i).2 := by
  unfold redCon
  constructor
  · rw [List.getD_eq_getElem?_getD]
    have := getElem?_flatMap_range n 2 (fun i => [(redC a cf v i).1, (redC a cf v i).2])
      (fun _ => rfl) i 0 hi (by omega)
    rw [Nat.add_zero] at this
    rw [this]; rfl
  · rw [List.getD_eq_getElem?_getD,
      getElem?_flatMap_range n 2 (fun i => [(redC a cf v i).1, (redC a cf v i).2])
        (fun _ => rfl) i 1 hi (by omega)]
    rfl

theorem redCon_ge (a : Nat → Nat) (cf : Nat → K × K) (n : Nat) (v : EvalVars K) (j : Nat)
    (hj : 2 * n ≤ j) : redCon a cf n v j = 0 := by
  unfold redCon
  rw [List.getD_eq_getElem?_getD, getElem?_flatMap_range_of_ge n 2 _ (fun _ => rfl) j hj]
  rfl

/-- every constraint index is `2·i + r` with `r < 2` -/
theorem redCon_zero_iff (a : Nat → Nat) (cf : Nat → K × K) (n : Nat) (v : EvalVars K) :
    (∀ j, redCon a cf n v j = 0) ↔ ∀ i, i < n → (redC a cf v i).1 = 0 ∧ (redC a cf v i).2 = 0 := by
  constructor
  · intro h i hi
    obtain ⟨h1, h2⟩ := redCon_lt a cf n v i hi
    exact ⟨h1 ▸ h (2 * i), h2 ▸ h (2 * i + 1)⟩
  · intro h j
    by_cases hj : 2 * n ≤ j
    · exact redCon_ge a cf n v j hj
    · have hi : j / 2 < n := by omega
      obtain ⟨h1, h2⟩ := redCon_lt a cf n v (j / 2) hi
      rcases Nat.mod_two_eq_zero_or_one j with hr | hr
      · have : j = 2 * (j / 2) := by omega
        rw [this, h1]; exact (h _ hi).1
      · have : j = 2 * (j / 2) + 1 := by omega
        rw [this, h2]; exact (h _ hi).2

/-! ### replacement of one accumulator wire, common form -/

/-- component 0 of pair `i` reads wires `prev, prev+1, 2, 3, a i` and `(cf i).1` only -/
theorem redC_fst_congr (a : Nat → Nat) (cf cf' : Nat → K × K) (v v' : EvalVars K) (i k : Nat)
    (hs : ∀ j, j ≠ k → v'.wires[j]! = v.wires[j]!) (hcf : (cf' i).1 = (cf i).1)
    (h1 : redPrevAt a i ≠ k) (h2 : redPrevAt a i + 1 ≠ k) (h3 : 2 ≠ k) (h4 : 3 ≠ k)
    (h5 : a i ≠ k) : (redC a cf' v' i).1 = (redC a cf v i).1 := by
  simp only [redC]
  rw [hs _ h1, hs _ h2, hs _ h3, hs _ h4, hs _ h5, hcf]

/-- component 1 of pair `i` reads wires `prev, prev+1, 2, 3, a i + 1` and `(cf i).2` only -/
theorem redC_snd_congr (a : Nat → Nat) (cf cf' : Nat → K × K) (v v' : EvalVars K) (i k : Nat)
    (hs : ∀ j, j ≠ k → v'.wires[j]! = v.wires[j]!) (hcf : (cf' i).2 = (cf i).2)
    (h1 : redPrevAt a i ≠ k) (h2 : redPrevAt a i + 1 ≠ k) (h3 : 2 ≠ k) (h4 : 3 ≠ k)
    (h5 : a i + 1 ≠ k) : (redC a cf' v' i).2 = (redC a cf v i).2 := by
  simp only [redC]
  rw [hs _ h1, hs _ h2, hs _ h3, hs _ h4, hs _ h5, hcf]

theorem redC_fst_pinned (a : Nat → Nat) (cf cf' : Nat → K × K) (v v' : EvalVars K) (i : Nat)
    (hd : DiffersOnlyAt v v' (a i)) (hcf : (cf' i).1 = (cf i).1)
    (h1 : redPrevAt a i ≠ a i) (h2 : redPrevAt a i + 1 ≠ a i) (h3 : 2 ≠ a i) (h4 : 3 ≠ a i)
    (h0 : (redC a cf v i).1 = 0) : (redC a cf' v' i).1 ≠ 0 := by
  simp only [redC] at h0 ⊢
  rw [hd.same _ h1, hd.same _ h2, hd.same _ h3, hd.same _ h4, hcf]
  intro h
  apply hd.diff
  rw [sub_eq_zero] at h h0
  rw [← h, ← h0]

theorem redC_snd_pinned (a : Nat → Nat) (cf cf' : Nat → K × K) (v v' : EvalVars K) (i : Nat)
    (hd : DiffersOnlyAt v v' (a i + 1)) (hcf : (cf' i).2 = (cf i).2)
    (h1 : redPrevAt a i ≠ a i + 1) (h2 : redPrevAt a i + 1 ≠ a i + 1) (h3 : 2 ≠ a i + 1)
    (h4 : 3 ≠ a i + 1)
    (h0 : (redC a cf v i).2 = 0) : (redC a cf' v' i).2 ≠ 0 := by
  simp only [redC] at h0 ⊢
  rw [hd.same _ h1, hd.same _ h2, hd.same _ h3, hd.same _ h4, hcf]
  intro h
  apply hd.diff
  rw [sub_eq_zero] at h h0
  rw [← h, ← h0]

/-! ## `GateKind.reducing n` -/

/-- wire index of `prev_i` for the reducing gate (for `1 ≤ i < n` it is `6 + n + 2·(i−1)`) -/
abbrev redPrev (n i : Nat) : Nat := redPrevAt (redWiresAccs n) i
/-- wire index of `prev_i` for the reducing-extension gate -/
abbrev redExtPrev (n i : Nat) : Nat := redPrevAt (redExtWiresAccs n) i

theorem redPrev_eq (n i : Nat) (hi : i < n) :
    redPrev n i = if i = 0 then 4 else 6 + n + 2 * (i - 1) := by
  simp only [redPrev, redPrevAt, redWiresAccs]
  split_ifs <;> omega

theorem redExtPrev_eq (n i : Nat) (hi : i < n) :
    redExtPrev n i = if i = 0 then 4 else 6 + 2 * n + 2 * (i - 1) := by
  simp only [redExtPrev, redPrevAt, redExtWiresAccs]
  split_ifs <;> omega

/-- the coefficient of the reducing gate: base-field wire `6+i`, embedded as `(c, 0)` -/
abbrev redCf (v : EvalVars K) (i : Nat) : K × K := (v.wires[6 + i]!, 0)
/-- the coefficient of the reducing-extension gate: algebra wires `6+2i, 6+2i+1` -/
abbrev redExtCf (v : EvalVars K) (i : Nat) : K × K := (v.wires[6 + 2 * i]!, v.wires[6 + 2 * i + 1]!)

theorem reducing_con_eq (n : Nat) (v : EvalVars K) (j : Nat) :
    con (.reducing n) v j = redCon (redWiresAccs n) (redCf v) n v j := by
  unfold con redCon
  rw [← redEval_field]
  rfl

theorem reducingExt_con_eq (n : Nat) (v : EvalVars K) (j : Nat) :
    con (.reducingExt n) v j = redCon (redExtWiresAccs n) (redExtCf v) n v j := by
  unfold con redCon
  rw [← redEval_field]
  rfl

/-- constraints `2i`, `2i+1` (`i < n`) of the reducing gate in wire notation:
the two components of `prev_i · alpha + (c_i, 0) − acc_i` -/
theorem reducing_con (n : Nat) (v : EvalVars K) (i : Nat) (hi : i < n) :
    con (.reducing n) v (2 * i) =
      v.wires[redPrev n i]! * v.wires[2]! + 7 * (v.wires[redPrev n i + 1]! * v.wires[3]!)
        + v.wires[6 + i]! - v.wires[redWiresAccs n i]! ∧
    con (.reducing n) v (2 * i + 1) =
      v.wires[redPrev n i]! * v.wires[3]! + v.wires[redPrev n i + 1]! * v.wires[2]!
        + 0 - v.wires[redWiresAccs n i + 1]! := by
  rw [reducing_con_eq, reducing_con_eq]
  exact redCon_lt _ _ n v i hi

theorem reducing_con_ge (n : Nat) (v : EvalVars K) (j : Nat) (hj : 2 * n ≤ j) :
    con (.reducing n) v j = 0 := by
  rw [reducing_con_eq]; exact redCon_ge _ _ n v j hj

theorem reducingExt_con (n : Nat) (v : EvalVars K) (i : Nat) (hi : i < n) :
    con (.reducingExt n) v (2 * i) =
      v.wires[redExtPrev n i]! * v.wires[2]! + 7 * (v.wires[redExtPrev n i + 1]! * v.wires[3]!)
        + v.wires[6 + 2 * i]! - v.wires[redExtWiresAccs n i]! ∧
    con (.reducingExt n) v (2 * i + 1) =
      v.wires[redExtPrev n i]! * v.wires[3]! + v.wires[redExtPrev n i + 1]! * v.wires[2]!
        + v.wires[6 + 2 * i + 1]! - v.wires[redExtWiresAccs n i + 1]! := by
  rw [reducingExt_con_eq, reducingExt_con_eq]
  exact redCon_lt _ _ n v i hi

theorem reducingExt_con_ge (n : Nat) (v : EvalVars K) (j : Nat) (hj : 2 * n ≤ j) :
    con (.reducingExt n) v j = 0 := by
  rw [reducingExt_con_eq]; exact redCon_ge _ _ n v j hj

/-! ### (a) satisfaction -/

theorem redC_zero_iff (a : Nat → Nat) (cf : Nat → K × K) (v : EvalVars K) (i : Nat) :
    ((redC a cf v i).1 = 0 ∧ (redC a cf v i).2 = 0) ↔
      (v.wires[a i]! = v.wires[redPrevAt a i]! * v.wires[2]!
          + 7 * (v.wires[redPrevAt a i + 1]! * v.wires[3]!) + (cf i).1 ∧
       v.wires[a i + 1]! = v.wires[redPrevAt a i]! * v.wires[3]!
          + v.wires[redPrevAt a i + 1]! * v.wires[2]! + (cf i).2) := by
  simp only [redC, sub_eq_zero]
  constructor
  · rintro ⟨h1, h2⟩; exact ⟨h1.symm, h2.symm⟩
  · rintro ⟨h1, h2⟩; exact ⟨h1.symm, h2.symm⟩

/-- (a) the reducing gate is satisfied iff every accumulator (the last one being the output,
wires 0,1) is `prev · alpha + coefficient`, componentwise -/
theorem reducing_sat_iff (n : Nat) (v : EvalVars K) :
    Sat (.reducing n) v ↔ ∀ i, i < n →
      v.wires[redWiresAccs n i]! = v.wires[redPrev n i]! * v.wires[2]!
          + 7 * (v.wires[redPrev n i + 1]! * v.wires[3]!) + v.wires[6 + i]! ∧
      v.wires[redWiresAccs n i + 1]! = v.wires[redPrev n i]! * v.wires[3]!
          + v.wires[redPrev n i + 1]! * v.wires[2]! := by
  rw [sat_iff_con]
  simp only [reducing_con_eq]
  rw [redCon_zero_iff]
  refine forall_congr' fun i => forall_congr' fun _ => ?_
  rw [redC_zero_iff]
  simp only [add_zero]

theorem reducingExt_sat_iff (n : Nat) (v : EvalVars K) :
    Sat (.reducingExt n) v ↔ ∀ i, i < n →
      v.wires[redExtWiresAccs n i]! = v.wires[redExtPrev n i]! * v.wires[2]!
          + 7 * (v.wires[redExtPrev n i + 1]! * v.wires[3]!) + v.wires[6 + 2 * i]! ∧
      v.wires[redExtWiresAccs n i + 1]! = v.wires[redExtPrev n i]! * v.wires[3]!
          + v.wires[redExtPrev n i + 1]! * v.wires[2]! + v.wires[6 + 2 * i + 1]! := by
  rw [sat_iff_con]
  simp only [reducingExt_con_eq]
  rw [redCon_zero_iff]
  refine forall_congr' fun i => forall_congr' fun _ => ?_
  rw [redC_zero_iff]

/-! ### (b) pinned -/

/-- (b) changing component `comp` of accumulator `i` (a generator-written wire: `0`, `1` for
`i = n−1`, else `6+n+2i+comp`) on a row where constraint `2i+comp` vanishes makes it non-zero -/
theorem reducing_pinned (n : Nat) (v v' : EvalVars K) (i comp : Nat) (hi : i < n) (hc : comp < 2)
    (hd : DiffersOnlyAt v v' (redWiresAccs n i + comp))
    (h0 : con (.reducing n) v (2 * i + comp) = 0) : con (.reducing n) v' (2 * i + comp) ≠ 0 := by
  rw [reducing_con_eq] at h0 ⊢
  have hw : ∀ m, m < n → 6 + m ≠ redWiresAccs n i + comp := by
    intro m hm; simp only [redWiresAccs]; split_ifs <;> omega
  obtain rfl | rfl : comp = 0 ∨ comp = 1 := by omega
  · rw [Nat.add_zero] at hd h0 ⊢
    rw [(redCon_lt _ _ n v i hi).1] at h0
    rw [(redCon_lt _ _ n v' i hi).1]
    refine redC_fst_pinned _ (redCf v) (redCf v') v v' i hd ?_ ?_ ?_ ?_ ?_ h0
    · exact hd.same _ (hw i hi)
    all_goals (simp only [redPrevAt, redWiresAccs]; split_ifs <;> omega)
  · rw [(redCon_lt _ _ n v i hi).2] at h0
    rw [(redCon_lt _ _ n v' i hi).2]
    refine redC_snd_pinned _ (redCf v) (redCf v') v v' i hd rfl ?_ ?_ ?_ ?_ h0
    all_goals (simp only [redPrevAt, redWiresAccs]; split_ifs <;> omega)

theorem reducingExt_pinned (n : Nat) (v v' : EvalVars K) (i comp : Nat) (hi : i < n)
    (hc : comp < 2) (hd : DiffersOnlyAt v v' (redExtWiresAccs n i + comp))
    (h0 : con (.reducingExt n) v (2 * i + comp) = 0) :
    con (.reducingExt n) v' (2 * i + comp) ≠ 0 := by
  rw [reducingExt_con_eq] at h0 ⊢
  have hw : ∀ m, m < 2 * n → 6 + m ≠ redExtWiresAccs n i + comp := by
    intro m hm; simp only [redExtWiresAccs]; split_ifs <;> omega
  obtain rfl | rfl : comp = 0 ∨ comp = 1 := by omega
  · rw [Nat.add_zero] at hd h0 ⊢
    rw [(redCon_lt _ _ n v i hi).1] at h0
    rw [(redCon_lt _ _ n v' i hi).1]
    refine redC_fst_pinned _ (redExtCf v) (redExtCf v') v v' i hd ?_ ?_ ?_ ?_ ?_ h0
    · exact hd.same _ (hw (2 * i) (by omega))
    all_goals (simp only [redPrevAt, redExtWiresAccs]; split_ifs <;> omega)
  · rw [(redCon_lt _ _ n v i hi).2] at h0
    rw [(redCon_lt _ _ n v' i hi).2]
    refine redC_snd_pinned _ (redExtCf v) (redExtCf v') v v' i hd ?_ ?_ ?_ ?_ ?_ h0
    · exact hd.same _ (by have := hw (2 * i + 1) (by omega); omega)
    all_goals (simp only [redPrevAt, redExtWiresAccs]; split_ifs <;> omega)

/-! ### (c) others -/

/-- (c) wire `acc_i + comp` is read by constraint `2i+comp` (as the accumulator) and by
constraints `2(i+1)`, `2(i+1)+1` (as `prev_{i+1}`, both components read both wires) and by no
other constraint: every other constraint — including the other component `2i+(1−comp)` of its own
pair — is unchanged -/
theorem reducing_others (n : Nat) (v v' : EvalVars K) (i comp : Nat) (hi : i < n) (hc : comp < 2)
    (hd : DiffersOnlyAt v v' (redWiresAccs n i + comp)) (j : Nat)
    (h1 : j ≠ 2 * i + comp) (h2 : j ≠ 2 * (i + 1)) (h3 : j ≠ 2 * (i + 1) + 1) :
    con (.reducing n) v' j = con (.reducing n) v j := by
  rw [reducing_con_eq, reducing_con_eq]
  by_cases hj : 2 * n ≤ j
  · rw [redCon_ge _ _ n v j hj, redCon_ge _ _ n v' j hj]
  · have hi' : j / 2 < n := by omega
    rcases Nat.mod_two_eq_zero_or_one j with hr | hr
    · have hj2 : j = 2 * (j / 2) := by omega
      generalize j / 2 = i' at hi' hj2
      subst hj2
      rw [(redCon_lt _ _ n v i' hi').1, (redCon_lt _ _ n v' i' hi').1]
      refine redC_fst_congr _ (redCf v) (redCf v') v v' i' _ hd.same ?_ ?_ ?_ ?_ ?_ ?_
      · refine hd.same _ ?_
        simp only [redWiresAccs]; split_ifs <;> omega
      all_goals (simp only [redPrevAt, redWiresAccs]; split_ifs <;> omega)
    · have hj2 : j = 2 * (j / 2) + 1 := by omega
      generalize j / 2 = i' at hi' hj2
      subst hj2
      rw [(redCon_lt _ _ n v i' hi').2, (redCon_lt _ _ n v' i' hi').2]
      refine redC_snd_congr _ (redCf v) (redCf v') v v' i' _ hd.same rfl ?_ ?_ ?_ ?_ ?_
      all_goals (simp only [redPrevAt, redWiresAccs]; split_ifs <;> omega)

theorem reducingExt_others (n : Nat) (v v' : EvalVars K) (i comp : Nat) (hi : i < n)
    (hc : comp < 2) (hd : DiffersOnlyAt v v' (redExtWiresAccs n i + comp)) (j : Nat)
    (h1 : j ≠ 2 * i + comp) (h2 : j ≠ 2 * (i + 1)) (h3 : j ≠ 2 * (i + 1) + 1) :
    con (.reducingExt n) v' j = con (.reducingExt n) v j := by
  rw [reducingExt_con_eq, reducingExt_con_eq]
  by_cases hj : 2 * n ≤ j
  · rw [redCon_ge _ _ n v j hj, redCon_ge _ _ n v' j hj]
  · have hi' : j / 2 < n := by omega
    rcases Nat.mod_two_eq_zero_or_one j with hr | hr
    · have hj2 : j = 2 * (j / 2) := by omega
      generalize j / 2 = i' at hi' hj2
      subst hj2
      rw [(redCon_lt _ _ n v i' hi').1, (redCon_lt _ _ n v' i' hi').1]
      refine redC_fst_congr _ (redExtCf v) (redExtCf v') v v' i' _ hd.same ?_ ?_ ?_ ?_ ?_ ?_
      · refine hd.same _ ?_
        simp only [redExtWiresAccs]; split_ifs <;> omega
      all_goals (simp only [redPrevAt, redExtWiresAccs]; split_ifs <;> omega)
    · have hj2 : j = 2 * (j / 2) + 1 := by omega
      generalize j / 2 = i' at hi' hj2
      subst hj2
      rw [(redCon_lt _ _ n v i' hi').2, (redCon_lt _ _ n v' i' hi').2]
      refine redC_snd_congr _ (redExtCf v) (redExtCf v') v v' i' _ hd.same ?_ ?_ ?_ ?_ ?_ ?_
      · refine hd.same _ ?_
        simp only [redExtWiresAccs]; split_ifs <;> omega
      all_goals (simp only [redPrevAt, redExtWiresAccs]; split_ifs <;> omega)

/-! ### the generator-written wires are exactly the accumulator component wires -/

theorem reducing_generatedWires_mem (n k : Nat) :
    k ∈ (GateKind.reducing n).generatedWires ↔
      ∃ i comp, i < n ∧ comp < 2 ∧ k = redWiresAccs n i + comp := by
  simp only [GateKind.generatedWires]
  by_cases hn : n = 0
  · subst hn; simp
  · simp only [if_neg hn, List.mem_append, List.mem_cons, List.not_mem_nil, or_false, List.mem_map,
      List.mem_range]
    constructor
    · rintro ((rfl | rfl) | ⟨m, hm, rfl⟩)
      · exact ⟨n - 1, 0, by omega, by omega, by simp [redWiresAccs]⟩
      · exact ⟨n - 1, 1, by omega, by omega, by simp [redWiresAccs]⟩
      · refine ⟨m / 2, m % 2, by omega, by omega, ?_⟩
        simp only [redWiresAccs]; split_ifs <;> omega
    · rintro ⟨i, comp, hi, hc, rfl⟩
      simp only [redWiresAccs]
      split_ifs with h
      · left; omega
      · right; exact ⟨2 * i + comp, by omega, by omega⟩

theorem reducingExt_generatedWires_mem (n k : Nat) :
    k ∈ (GateKind.reducingExt n).generatedWires ↔
      ∃ i comp, i < n ∧ comp < 2 ∧ k = redExtWiresAccs n i + comp := by
  simp only [GateKind.generatedWires]
  by_cases hn : n = 0
  · subst hn; simp
  · simp only [if_neg hn, List.mem_append, List.mem_cons, List.not_mem_nil, or_false, List.mem_map,
      List.mem_range]
    constructor
    · rintro ((rfl | rfl) | ⟨m, hm, rfl⟩)
      · exact ⟨n - 1, 0, by omega, by omega, by simp [redExtWiresAccs]⟩
      · exact ⟨n - 1, 1, by omega, by omega, by simp [redExtWiresAccs]⟩
      · refine ⟨m / 2, m % 2, by omega, by omega, ?_⟩
        simp only [redExtWiresAccs]; split_ifs <;> omega
    · rintro ⟨i, comp, hi, hc, rfl⟩
      simp only [redExtWiresAccs]
      split_ifs with h
      · left; omega
      · right; exact ⟨2 * i + comp, by omega, by omega⟩

/-! ### semantic corollary: the output is the Horner value in `K[X]/(X² − 7)` -/

/-- wires `i, i+1` as an element of `K[X]/(X² − 7)` (`QuadraticAlgebra K 7 0`, a commutative ring
whose multiplication is `Alg.mul`) -/
def redQ (v : EvalVars K) (i : Nat) : QuadraticAlgebra K 7 0 := ⟨v.wires[i]!, v.wires[i + 1]!⟩

/-- Horner value after `k` steps: `old·α^k + Σ_{m<k} c_m·α^(k−1−m)` -/
def redHorner (old α : QuadraticAlgebra K 7 0) (c : Nat → QuadraticAlgebra K 7 0) (k : Nat) :
    QuadraticAlgebra K 7 0 :=
  old * α ^ k + ∑ m ∈ Finset.range k, c m * α ^ (k - 1 - m)

theorem redHorner_succ (old α : QuadraticAlgebra K 7 0) (c : Nat → QuadraticAlgebra K 7 0)
    (k : Nat) : redHorner old α c (k + 1) = redHorner old α c k * α + c k := by
  unfold redHorner
  rw [Finset.sum_range_succ, add_mul, Finset.sum_mul]
  have : ∀ m ∈ Finset.range k, c m * α ^ (k - 1 - m) * α = c m * α ^ (k + 1 - 1 - m) := by
    intro m hm
    rw [Finset.mem_range] at hm
    rw [mul_assoc, ← pow_succ]
    congr 2
    omega
  rw [Finset.sum_congr rfl this]
  have : k + 1 - 1 - k = 0 := by omega
  rw [this, pow_zero, mul_one, pow_succ]
  ring

theorem redQ_step (a : Nat → Nat) (cf : Nat → K × K) (v : EvalVars K) (i : Nat)
    (h : v.wires[a i]! = v.wires[redPrevAt a i]! * v.wires[2]!
          + 7 * (v.wires[redPrevAt a i + 1]! * v.wires[3]!) + (cf i).1 ∧
       v.wires[a i + 1]! = v.wires[redPrevAt a i]! * v.wires[3]!
          + v.wires[redPrevAt a i + 1]! * v.wires[2]! + (cf i).2) :
    redQ v (a i) = redQ v (redPrevAt a i) * redQ v 2 + ⟨(cf i).1, (cf i).2⟩ := by
  apply QuadraticAlgebra.ext
  · simp only [redQ, QuadraticAlgebra.re_add, QuadraticAlgebra.re_mul]
    rw [h.1]; ring
  · simp only [redQ, QuadraticAlgebra.im_add, QuadraticAlgebra.im_mul]
    rw [h.2]; ring

/-- under the accumulator equations, accumulator `i` is the Horner value after `i+1` steps -/
theorem red_horner (a : Nat → Nat) (cf : Nat → K × K) (v : EvalVars K) (n : Nat)
    (h : ∀ i, i < n → v.wires[a i]! = v.wires[redPrevAt a i]! * v.wires[2]!
          + 7 * (v.wires[redPrevAt a i + 1]! * v.wires[3]!) + (cf i).1 ∧
       v.wires[a i + 1]! = v.wires[redPrevAt a i]! * v.wires[3]!
          + v.wires[redPrevAt a i + 1]! * v.wires[2]! + (cf i).2)
    (i : Nat) (hi : i < n) :
    redQ v (a i) = redHorner (redQ v 4) (redQ v 2) (fun m => ⟨(cf m).1, (cf m).2⟩) (i + 1) := by
  induction i with
  | zero =>
    rw [redQ_step a cf v 0 (h 0 hi), redHorner_succ]
    simp [redPrevAt, redHorner]
  | succ i ih =>
    rw [redQ_step a cf v (i + 1) (h (i + 1) hi), redHorner_succ, ← ih (by omega)]
    simp [redPrevAt]

/-- on a satisfying row with `n ≥ 1`, the output (wires 0,1) is
`old_acc·alpha^n + Σ_{i<n} coeff_i·alpha^(n−1−i)` in `K[X]/(X² − 7)` -/
theorem reducing_output_horner (n : Nat) (hn : 0 < n) (v : EvalVars K) (hs : Sat (.reducing n) v) :
    (⟨v.wires[0]!, v.wires[1]!⟩ : QuadraticAlgebra K 7 0) =
      ⟨v.wires[4]!, v.wires[5]!⟩ * (⟨v.wires[2]!, v.wires[3]!⟩ : QuadraticAlgebra K 7 0) ^ n
        + ∑ i ∈ Finset.range n, ⟨v.wires[6 + i]!, 0⟩ *
            (⟨v.wires[2]!, v.wires[3]!⟩ : QuadraticAlgebra K 7 0) ^ (n - 1 - i) := by
  rw [reducing_sat_iff] at hs
  have h := red_horner (redWiresAccs n) (redCf v) v n
    (fun i hi => by have := hs i hi; simpa only [add_zero] using this) (n - 1) (by omega)
  have e1 : redWiresAccs n (n - 1) = 0 := by simp [redWiresAccs]
  have e2 : n - 1 + 1 = n := by omega
  rw [e1, e2] at h
  exact h

theorem reducingExt_output_horner (n : Nat) (hn : 0 < n) (v : EvalVars K)
    (hs : Sat (.reducingExt n) v) :
    (⟨v.wires[0]!, v.wires[1]!⟩ : QuadraticAlgebra K 7 0) =
      ⟨v.wires[4]!, v.wires[5]!⟩ * (⟨v.wires[2]!, v.wires[3]!⟩ : QuadraticAlgebra K 7 0) ^ n
        + ∑ i ∈ Finset.range n, ⟨v.wires[6 + 2 * i]!, v.wires[6 + 2 * i + 1]!⟩ *
            (⟨v.wires[2]!, v.wires[3]!⟩ : QuadraticAlgebra K 7 0) ^ (n - 1 - i) := by
  rw [reducingExt_sat_iff] at hs
  have h := red_horner (redExtWiresAccs n) (redExtCf v) v n hs (n - 1) (by omega)
  have e1 : redExtWiresAccs n (n - 1) = 0 := by simp [redExtWiresAccs]
  have e2 : n - 1 + 1 = n := by omega
  rw [e1, e2] at h
  exact h

end Field

/-! ## phase 2: the generator's row satisfies the gate (over `P2.GL`) -/

section GLGen
attribute [local instance] glField

theorem red_size_setAlg (ws : Array P2.GL) (i : Nat) (x : Alg P2.GL) :
    (setAlg ws i x).size = ws.size := by simp [setAlg]

theorem red_getElem!_setAlg_ne (ws : Array P2.GL) (i : Nat) (x : Alg P2.GL) (j : Nat)
    (h1 : j ≠ i) (h2 : j ≠ i + 1) : (setAlg ws i x)[j]! = ws[j]! := by
  unfold setAlg
  rw [getElem!_set!_ne _ _ _ _ h2, getElem!_set!_ne _ _ _ _ h1]

theorem red_getAlg_setAlg_self (ws : Array P2.GL) (i : Nat) (x : Alg P2.GL)
    (h : i + 1 < ws.size) : getAlg (setAlg ws i x) i = x := by
  unfold getAlg setAlg
  rw [getElem!_set!_ne _ _ _ _ (by omega : i ≠ i + 1), getElem!_set!_self _ _ _ (by omega),
    getElem!_set!_self _ _ _ (by simpa using h)]
  rfl

theorem red_getAlg_setAlg_ne (ws : Array P2.GL) (m : Nat) (x : Alg P2.GL) (i : Nat)
    (h1 : i ≠ m) (h2 : i ≠ m + 1) (h3 : i + 1 ≠ m) : getAlg (setAlg ws m x) i = getAlg ws i := by
  unfold getAlg
  rw [red_getElem!_setAlg_ne _ _ _ _ h1 h2, red_getElem!_setAlg_ne _ _ _ _ h3 (by omega)]

/-- the common generator loop: state `(running accumulator, row)` -/
def redGenFold (a : Nat → Nat) (step : Alg P2.GL → Nat → Alg P2.GL) (x0 : Alg P2.GL)
    (ws : Array P2.GL) (k : Nat) : Alg P2.GL × Array P2.GL :=
  (List.range k).foldl (fun (st : Alg P2.GL × Array P2.GL) i =>
    (step st.1 i, setAlg st.2 (a i) (step st.1 i))) (x0, ws)

/-- the sequence of accumulator values the generator computes -/
def redGenSeq (step : Alg P2.GL → Nat → Alg P2.GL) (x0 : Alg P2.GL) : Nat → Alg P2.GL
  | 0 => x0
  | k + 1 => step (redGenSeq step x0 k) k

theorem redGenFold_succ (a : Nat → Nat) (step : Alg P2.GL → Nat → Alg P2.GL) (x0 : Alg P2.GL)
    (ws : Array P2.GL) (k : Nat) :
    redGenFold a step x0 ws (k + 1) =
      (step (redGenFold a step x0 ws k).1 k,
       setAlg (redGenFold a step x0 ws k).2 (a k) (step (redGenFold a step x0 ws k).1 k)) := by
  unfold redGenFold
  rw [List.range_succ, List.foldl_append]
  rfl

/-- loop invariant: the running accumulator is `redGenSeq k`; the row has its size; wires outside
the accumulators written so far are untouched; accumulator `i < k` holds `redGenSeq (i+1)` -/
theorem redGenFold_inv (a : Nat → Nat) (step : Alg P2.GL → Nat → Alg P2.GL) (x0 : Alg P2.GL)
    (ws : Array P2.GL) (n : Nat) (hsz : ∀ i, i < n → a i + 1 < ws.size)
    (hdisj : ∀ i j, i < n → j < n → i ≠ j → a i ≠ a j ∧ a i ≠ a j + 1 ∧ a i + 1 ≠ a j)
    (k : Nat) (hk : k ≤ n) :
    (redGenFold a step x0 ws k).1 = redGenSeq step x0 k ∧
    (redGenFold a step x0 ws k).2.size = ws.size ∧
    (∀ j, (∀ i, i < k → j ≠ a i ∧ j ≠ a i + 1) → (redGenFold a step x0 ws k).2[j]! = ws[j]!) ∧
    (∀ i, i < k → getAlg (redGenFold a step x0 ws k).2 (a i) = redGenSeq step x0 (i + 1)) := by
  induction k with
  | zero =>
    refine ⟨rfl, rfl, fun j _ => rfl, fun i hi => absurd hi (by omega)⟩
  | succ k ih =>
    obtain ⟨ih1, ih2, ih3, ih4⟩ := ih (by omega)
    rw [redGenFold_succ]
    refine ⟨?_, ?_, ?_, ?_⟩
    · show step _ k = _
      rw [ih1]; rfl
    · show (setAlg _ _ _).size = _
      rw [red_size_setAlg, ih2]
    · intro j hj
      show (setAlg _ _ _)[j]! = _
      rw [red_getElem!_setAlg_ne _ _ _ _ (hj k (by omega)).1 (hj k (by omega)).2]
      exact ih3 j fun i hi => hj i (by omega)
    · intro i hi
      show getAlg (setAlg _ _ _) (a i) = _
      by_cases hik : i = k
      · subst hik
        rw [red_getAlg_setAlg_self _ _ _ (by rw [ih2]; exact hsz i (by omega)), ih1]
        rfl
      · obtain ⟨d1, d2, d3⟩ := hdisj i k (by omega) (by omega) hik
        rw [red_getAlg_setAlg_ne _ _ _ _ d1 d2 d3]
        exact ih4 i (by omega)

/-- the generated row satisfies every accumulator equation, in `Alg` form -/
theorem redGenFold_sat (a : Nat → Nat) (cfv : Nat → Alg P2.GL) (ws : Array P2.GL) (n : Nat)
    (hsz : ∀ i, i < n → a i + 1 < ws.size)
    (hdisj : ∀ i j, i < n → j < n → i ≠ j → a i ≠ a j ∧ a i ≠ a j + 1 ∧ a i + 1 ≠ a j)
    (ha : ∀ i, i < n → a i = 0 ∨ 6 ≤ a i) (i : Nat) (hi : i < n) :
    let fin := (redGenFold a (fun x i => x * getAlg ws 2 + cfv i) (getAlg ws 4) ws n).2
    getAlg fin (a i) = getAlg fin (redPrevAt a i) * getAlg fin 2 + cfv i := by
  intro fin
  obtain ⟨_, _, h3, h4⟩ := redGenFold_inv a (fun x i => x * getAlg ws 2 + cfv i) (getAlg ws 4) ws n
    hsz hdisj n (le_refl n)
  have hun : ∀ j, 2 ≤ j → j ≤ 5 → fin[j]! = ws[j]! := by
    intro j hj1 hj2
    refine h3 j fun m hm => ?_
    rcases ha m hm with h | h <;> omega
  have h2 : getAlg fin 2 = getAlg ws 2 := by
    unfold getAlg; rw [hun 2 (by omega) (by omega), hun 3 (by omega) (by omega)]
  have hp : getAlg fin (redPrevAt a i) =
      redGenSeq (fun x i => x * getAlg ws 2 + cfv i) (getAlg ws 4) i := by
    unfold redPrevAt
    by_cases h0 : i = 0
    · subst h0
      rw [if_pos rfl]
      unfold getAlg; rw [hun 4 (by omega) (by omega), hun 5 (by omega) (by omega)]
      rfl
    · rw [if_neg h0]
      have := h4 (i - 1) (by omega)
      rw [this]
      congr 1
      omega
  rw [h4 i hi, hp, h2]
  rfl

theorem red_pad_size (g : GateKind) (wires : Array P2.GL) :
    g.numWires ≤ (wires ++ Array.replicate (g.numWires - wires.size) (0 : P2.GL)).size := by
  simp only [Array.size_append, Array.size_replicate]
  omega

theorem reducing_generate_eq (n : Nat) (consts wires : Array P2.GL) :
    (GateKind.reducing n).generate consts wires =
      let ws := wires ++ Array.replicate ((GateKind.reducing n).numWires - wires.size) 0
      (redGenFold (redWiresAccs n) (fun x i => x * getAlg ws 2 + Alg.ofK ws[6 + i]!)
        (getAlg ws 4) ws n).2 := rfl

theorem reducingExt_generate_eq (n : Nat) (consts wires : Array P2.GL) :
    (GateKind.reducingExt n).generate consts wires =
      let ws := wires ++ Array.replicate ((GateKind.reducingExt n).numWires - wires.size) 0
      (redGenFold (redExtWiresAccs n) (fun x i => x * getAlg ws 2 + getAlg ws (6 + 2 * i))
        (getAlg ws 4) ws n).2 := rfl

/-- phase 2: the row produced by `ReducingGenerator::run_once` (model) satisfies the gate, for
every `n`, constants, input row and public-inputs hash -/
theorem reducing_gen_sat (n : Nat) (consts wires pih : Array P2.GL) :
    ∀ c ∈ (GateKind.reducing n).evalUnfiltered (genRow (.reducing n) consts wires pih), c = 0 := by
  rw [evalGL_reducing]
  change Sat (.reducing n) _
  rw [reducing_sat_iff]
  intro i hi
  have hpad := red_pad_size (.reducing n) wires
  simp only [genRow, reducing_generate_eq]
  generalize wires ++ Array.replicate ((GateKind.reducing n).numWires - wires.size) 0 = ws at hpad ⊢
  simp only [GateKind.numWires] at hpad
  have hsz : ∀ i, i < n → redWiresAccs n i + 1 < ws.size := by
    intro m hm; simp only [redWiresAccs]; split_ifs <;> omega
  have hdisj : ∀ i j, i < n → j < n → i ≠ j → redWiresAccs n i ≠ redWiresAccs n j ∧
      redWiresAccs n i ≠ redWiresAccs n j + 1 ∧ redWiresAccs n i + 1 ≠ redWiresAccs n j := by
    intro m j hm hj hmj; simp only [redWiresAccs]; split_ifs <;> omega
  have ha : ∀ i, i < n → redWiresAccs n i = 0 ∨ 6 ≤ redWiresAccs n i := by
    intro m hm; simp only [redWiresAccs]; split_ifs <;> omega
  have hA := redGenFold_sat (redWiresAccs n) (fun i => Alg.ofK ws[6 + i]!) ws n hsz hdisj ha i hi
  obtain ⟨_, _, h3, _⟩ := redGenFold_inv (redWiresAccs n)
    (fun x i => x * getAlg ws 2 + Alg.ofK ws[6 + i]!) (getAlg ws 4) ws n hsz hdisj n (le_refl n)
  have hc : (redGenFold (redWiresAccs n) (fun x i => x * getAlg ws 2 + Alg.ofK ws[6 + i]!)
      (getAlg ws 4) ws n).2[6 + i]! = ws[6 + i]! := by
    refine h3 _ fun m hm => ?_
    simp only [redWiresAccs]; split_ifs <;> omega
  rw [hc]
  exact ⟨congrArg Prod.fst hA, (congrArg Prod.snd hA).trans (add_zero _)⟩

theorem reducingExt_gen_sat (n : Nat) (consts wires pih : Array P2.GL) :
    ∀ c ∈ (GateKind.reducingExt n).evalUnfiltered (genRow (.reducingExt n) consts wires pih),
      c = 0 := by
  rw [evalGL_reducingExt]
  change Sat (.reducingExt n) _
  rw [reducingExt_sat_iff]
  intro i hi
  have hpad := red_pad_size (.reducingExt n) wires
  simp only [genRow, reducingExt_generate_eq]
  generalize wires ++ Array.replicate ((GateKind.reducingExt n).numWires - wires.size) 0 = ws
    at hpad ⊢
  simp only [GateKind.numWires] at hpad
  have hsz : ∀ i, i < n → redExtWiresAccs n i + 1 < ws.size := by
    intro m hm; simp only [redExtWiresAccs]; split_ifs <;> omega
  have hdisj : ∀ i j, i < n → j < n → i ≠ j → redExtWiresAccs n i ≠ redExtWiresAccs n j ∧
      redExtWiresAccs n i ≠ redExtWiresAccs n j + 1 ∧
      redExtWiresAccs n i + 1 ≠ redExtWiresAccs n j := by
    intro m j hm hj hmj; simp only [redExtWiresAccs]; split_ifs <;> omega
  have ha : ∀ i, i < n → redExtWiresAccs n i = 0 ∨ 6 ≤ redExtWiresAccs n i := by
    intro m hm; simp only [redExtWiresAccs]; split_ifs <;> omega
  have hA := redGenFold_sat (redExtWiresAccs n) (fun i => getAlg ws (6 + 2 * i)) ws n hsz hdisj ha
    i hi
  obtain ⟨_, _, h3, _⟩ := redGenFold_inv (redExtWiresAccs n)
    (fun x i => x * getAlg ws 2 + getAlg ws (6 + 2 * i)) (getAlg ws 4) ws n hsz hdisj n (le_refl n)
  have hc0 : (redGenFold (redExtWiresAccs n)
      (fun x i => x * getAlg ws 2 + getAlg ws (6 + 2 * i))
      (getAlg ws 4) ws n).2[6 + 2 * i]! = ws[6 + 2 * i]! := by
    refine h3 _ fun m hm => ?_
    simp only [redExtWiresAccs]; split_ifs <;> omega
  have hc1 : (redGenFold (redExtWiresAccs n)
      (fun x i => x * getAlg ws 2 + getAlg ws (6 + 2 * i))
      (getAlg ws 4) ws n).2[6 + 2 * i + 1]! = ws[6 + 2 * i + 1]! := by
    refine h3 _ fun m hm => ?_
    simp only [redExtWiresAccs]; split_ifs <;> omega
  rw [hc0, hc1]
  exact ⟨congrArg Prod.fst hA, congrArg Prod.snd hA⟩

/-- non-vacuity of (b) on real rows: on the generator's row, overwriting any generator-written
wire with a different value violates the constraint that pins it -/
theorem reducing_gen_pinned (n : Nat) (consts wires pih : Array P2.GL) (i comp : Nat) (hi : i < n)
    (hc : comp < 2) (x : P2.GL)
    (hx : x ≠ (genRow (.reducing n) consts wires pih).wires[redWiresAccs n i + comp]!) :
    con (.reducing n) (setW (genRow (.reducing n) consts wires pih) (redWiresAccs n i + comp) x)
      (2 * i + comp) ≠ 0 := by
  refine reducing_pinned n _ _ i comp hi hc (setW_differs _ _ x ?_ hx) ?_
  · have hpad := red_pad_size (.reducing n) wires
    simp only [genRow, reducing_generate_eq]
    generalize wires ++ Array.replicate ((GateKind.reducing n).numWires - wires.size) 0 = ws
      at hpad ⊢
    simp only [GateKind.numWires] at hpad
    have hsz : ∀ i, i < n → redWiresAccs n i + 1 < ws.size := by
      intro m hm; simp only [redWiresAccs]; split_ifs <;> omega
    have hdisj : ∀ i j, i < n → j < n → i ≠ j → redWiresAccs n i ≠ redWiresAccs n j ∧
        redWiresAccs n i ≠ redWiresAccs n j + 1 ∧ redWiresAccs n i + 1 ≠ redWiresAccs n j := by
      intro m j hm hj hmj; simp only [redWiresAccs]; split_ifs <;> omega
    obtain ⟨_, h2, _, _⟩ := redGenFold_inv (redWiresAccs n)
      (fun x i => x * getAlg ws 2 + Alg.ofK ws[6 + i]!) (getAlg ws 4) ws n hsz hdisj n (le_refl n)
    rw [h2]
    have := hsz i hi
    omega
  · have h := (sat_iff_con (.reducing n) (genRow (.reducing n) consts wires pih)).1
    refine h ?_ _
    have := reducing_gen_sat n consts wires pih
    rw [evalGL_reducing] at this
    exact this

theorem reducingExt_gen_pinned (n : Nat) (consts wires pih : Array P2.GL) (i comp : Nat)
    (hi : i < n) (hc : comp < 2) (x : P2.GL)
    (hx : x ≠ (genRow (.reducingExt n) consts wires pih).wires[redExtWiresAccs n i + comp]!) :
    con (.reducingExt n)
      (setW (genRow (.reducingExt n) consts wires pih) (redExtWiresAccs n i + comp) x)
      (2 * i + comp) ≠ 0 := by
  refine reducingExt_pinned n _ _ i comp hi hc (setW_differs _ _ x ?_ hx) ?_
  · have hpad := red_pad_size (.reducingExt n) wires
    simp only [genRow, reducingExt_generate_eq]
    generalize wires ++ Array.replicate ((GateKind.reducingExt n).numWires - wires.size) 0 = ws
      at hpad ⊢
    simp only [GateKind.numWires] at hpad
    have hsz : ∀ i, i < n → redExtWiresAccs n i + 1 < ws.size := by
      intro m hm; simp only [redExtWiresAccs]; split_ifs <;> omega
    have hdisj : ∀ i j, i < n → j < n → i ≠ j → redExtWiresAccs n i ≠ redExtWiresAccs n j ∧
        redExtWiresAccs n i ≠ redExtWiresAccs n j + 1 ∧
        redExtWiresAccs n i + 1 ≠ redExtWiresAccs n j := by
      intro m j hm hj hmj; simp only [redExtWiresAccs]; split_ifs <;> omega
    obtain ⟨_, h2, _, _⟩ := redGenFold_inv (redExtWiresAccs n)
      (fun x i => x * getAlg ws 2 + getAlg ws (6 + 2 * i)) (getAlg ws 4) ws n hsz hdisj n
      (le_refl n)
    rw [h2]
    have := hsz i hi
    omega
  · have h := (sat_iff_con (.reducingExt n) (genRow (.reducingExt n) consts wires pih)).1
    refine h ?_ _
    have := reducingExt_gen_sat n consts wires pih
    rw [evalGL_reducingExt] at this
    exact this

end GLGen
end P2.Lemmas.C07
