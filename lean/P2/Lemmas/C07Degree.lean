/-
C07 / T4: every constraint of a gate has degree at most the declared `GateKind.degree`.

"Degree" is taken SEMANTICALLY: a constraint is a function of the row (wires, constants,
public-input hash); we restrict it to an arbitrary LINE `t ↦ V t` of rows (every readable entry an
affine function of the parameter `t`) and show that the restriction is a univariate polynomial
function of degree ≤ `g.degree`.  For a polynomial `P` in many variables over a field with more
than `deg P` elements, `P` has total degree ≤ d iff its restriction to every line has degree ≤ d
(the top homogeneous component of `P` does not vanish identically, so some direction keeps the
leading coefficient); so "degree ≤ d along every line" is the right model-independent rendering of
plonky2's `Gate::degree()` contract (the quotient-degree computation of the prover only uses this
bound).  The statements hold over ANY field `K` and for ALL constraint indices (`con` is `0` past
the end of the constraint list).

Contents: closure lemmas for `DegLE`; `Line`; `AlgDegLE`/`ListDegLE`/`ArrDegLE` (families of algebra
elements / constraint lists / arrays); one `<gate>_degree_list` (the whole constraint list: constant length
and all entries of bounded degree) and one `<gate>_degree` (constraint `i`, any `i`) per gate, for ALL
sixteen gate kinds; the capstone `gate_degree`; non-vacuity (`affineRow_line`, `scale_line`, `DegLE.not_sq`)
and tightness / necessity of the two side conditions (`arithmetic_degree_tight`,
`baseSum_zero_degree_fails`, `cosetInterpolation_low_degree_fails`).
-/
import P2.Lemmas.C07
import Mathlib.Algebra.Polynomial.Degree.Lemmas
import Mathlib.Algebra.Polynomial.Roots
import Mathlib.Data.List.GetD

set_option linter.unusedSectionVars false
set_option linter.unusedVariables false

namespace P2.Lemmas.C07
open P2 P2.Gates Polynomial

section Deg
variable {K : Type} [Field K] [DecidableEq K] [Inhabited K]

/-! ## polynomial functions of bounded degree -/

/-- `f` is a polynomial function of degree ≤ d -/
def DegLE (d : ℕ) (f : K → K) : Prop := ∃ p : Polynomial K, p.natDegree ≤ d ∧ ∀ t, f t = p.eval t

namespace DegLE
variable {a b d d' : ℕ} {f g : K → K}

theorem congr (h : DegLE d f) (hfg : ∀ t, g t = f t) : DegLE d g := by
  obtain ⟨p, hp, he⟩ := h
  exact ⟨p, hp, fun t => (hfg t).trans (he t)⟩

theorem mono (h : DegLE d f) (hd : d ≤ d' := by omega) : DegLE d' f := by
  obtain ⟨p, hp, he⟩ := h
  exact ⟨p, hp.trans hd, he⟩

theorem const (c : K) : DegLE d (fun _ => c) :=
  ⟨C c, by simp, fun t => by simp⟩

theorem zero : DegLE d (fun _ => (0 : K)) := const 0
theorem one : DegLE d (fun _ => (1 : K)) := const 1
theorem natCast (n : ℕ) : DegLE d (fun _ => (n : K)) := const _

/-- the parameter itself -/
theorem id : DegLE 1 (fun t : K => t) := ⟨X, natDegree_X_le, fun t => by simp⟩

theorem add (hf : DegLE d f) (hg : DegLE d g) : DegLE d (fun t => f t + g t) := by
  obtain ⟨p, hp, hpe⟩ := hf
  obtain ⟨q, hq, hqe⟩ := hg
  exact ⟨p + q, natDegree_add_le_of_degree_le hp hq, fun t => by simp [hpe, hqe]⟩

theorem neg (hf : DegLE d f) : DegLE d (fun t => - f t) := by
  obtain ⟨p, hp, hpe⟩ := hf
  exact ⟨-p, by simpa using hp, fun t => by simp [hpe]⟩

theorem sub (hf : DegLE d f) (hg : DegLE d g) : DegLE d (fun t => f t - g t) := by
  obtain ⟨p, hp, hpe⟩ := hf
  obtain ⟨q, hq, hqe⟩ := hg
  exact ⟨p - q, (natDegree_sub_le _ _).trans (max_le hp hq), fun t => by simp [hpe, hqe]⟩

theorem mul (hf : DegLE a f) (hg : DegLE b g) : DegLE (a + b) (fun t => f t * g t) := by
  obtain ⟨p, hp, hpe⟩ := hf
  obtain ⟨q, hq, hqe⟩ := hg
  exact ⟨p * q, natDegree_mul_le_of_le hp hq, fun t => by simp [hpe, hqe]⟩

/-- variants with slack, convenient in term-mode proofs -/
theorem add' (hf : DegLE a f) (hg : DegLE b g) (ha : a ≤ d := by omega) (hb : b ≤ d := by omega) :
    DegLE d (fun t => f t + g t) := (hf.mono ha).add (hg.mono hb)
theorem sub' (hf : DegLE a f) (hg : DegLE b g) (ha : a ≤ d := by omega) (hb : b ≤ d := by omega) :
    DegLE d (fun t => f t - g t) := (hf.mono ha).sub (hg.mono hb)
theorem mul' (hf : DegLE a f) (hg : DegLE b g) (h : a + b ≤ d := by omega) :
    DegLE d (fun t => f t * g t) := (hf.mul hg).mono h

theorem ite (c : Prop) [Decidable c] (hf : DegLE d f) (hg : DegLE d g) :
    DegLE d (fun t => if c then f t else g t) := by
  by_cases h : c
  · simpa [h] using hf
  · simpa [h] using hg

theorem pow (hf : DegLE a f) (n : ℕ) : DegLE (n * a) (fun t => f t ^ n) := by
  induction n with
  | zero => simpa using (one : DegLE 0 (fun _ : K => (1 : K)))
  | succ n ih => exact (ih.mul hf).congr (fun t => pow_succ _ _) |>.mono (by rw [Nat.succ_mul])

/-- finite sums -/
theorem finset_sum {ι : Type} (s : Finset ι) (F : ι → K → K) (h : ∀ i ∈ s, DegLE d (F i)) :
    DegLE d (fun t => ∑ i ∈ s, F i t) := by
  classical
  induction s using Finset.induction_on with
  | empty => simpa using (zero : DegLE d (fun _ : K => (0 : K)))
  | insert i s hi ih =>
    refine ((h i (Finset.mem_insert_self _ _)).add
      (ih fun j hj => h j (Finset.mem_insert_of_mem hj))).congr fun t => ?_
    rw [Finset.sum_insert hi]

/-- a product of `m` factors of degree ≤ `a` has degree ≤ `m·a` -/
theorem finset_prod {ι : Type} (s : Finset ι) (F : ι → K → K) (h : ∀ i ∈ s, DegLE a (F i)) :
    DegLE (s.card * a) (fun t => ∏ i ∈ s, F i t) := by
  classical
  induction s using Finset.induction_on with
  | empty => simpa using (one : DegLE 0 (fun _ : K => (1 : K)))
  | insert i s hi ih =>
    refine (((h i (Finset.mem_insert_self _ _)).mul
      (ih fun j hj => h j (Finset.mem_insert_of_mem hj))).congr fun t => ?_).mono ?_
    · rw [Finset.prod_insert hi]
    · rw [Finset.card_insert_of_notMem hi, Nat.succ_mul]; omega

/-- list folds: `foldl (· + ·)` over a list of terms of degree ≤ d -/
theorem foldl_add (l : List ℕ) (F : K → ℕ → K) (init : K → K) (hi : DegLE d init)
    (h : ∀ i ∈ l, DegLE d (fun t => F t i)) :
    DegLE d (fun t => l.foldl (fun acc i => acc + F t i) (init t)) := by
  induction l generalizing init with
  | nil => simpa using hi
  | cons x l ih =>
    simp only [List.foldl_cons]
    exact ih _ (hi.add (h x (List.mem_cons_self))) fun i hi' => h i (List.mem_cons_of_mem _ hi')

/-- list folds: `foldl (· * ·)`; each factor of degree ≤ 1 adds one to the degree -/
theorem foldl_mul (l : List ℕ) (F : K → ℕ → K) (init : K → K) (hi : DegLE a init)
    (h : ∀ i ∈ l, DegLE 1 (fun t => F t i)) :
    DegLE (a + l.length) (fun t => l.foldl (fun acc i => acc * F t i) (init t)) := by
  induction l generalizing init a with
  | nil => simpa using hi
  | cons x l ih =>
    simp only [List.foldl_cons, List.length_cons]
    exact (ih _ (hi.mul (h x (List.mem_cons_self))) fun i hi' => h i (List.mem_cons_of_mem _ hi')).mono

/-- degree ≤ 0 means constant -/
theorem zero_iff : DegLE 0 f ↔ ∃ c, ∀ t, f t = c := by
  constructor
  · rintro ⟨p, hp, he⟩
    rw [Nat.le_zero, natDegree_eq_zero] at hp
    obtain ⟨c, rfl⟩ := hp
    exact ⟨c, fun t => by simp [he]⟩
  · rintro ⟨c, hc⟩
    exact (const c).congr hc

/-- over an infinite field the notion is sharp: a polynomial function has degree ≤ d exactly when
its polynomial has (so e.g. `t ↦ t²` is not `DegLE 1`) -/
theorem eval_iff [Infinite K] (q : Polynomial K) : DegLE d (fun t => q.eval t) ↔ q.natDegree ≤ d := by
  constructor
  · rintro ⟨p, hp, he⟩
    have : q = p := Polynomial.funext he
    rw [this]; exact hp
  · intro h; exact ⟨q, h, fun _ => rfl⟩

theorem not_sq [Infinite K] : ¬ DegLE 1 (fun t : K => t ^ 2) := by
  intro h
  have := (eval_iff (X ^ 2 : Polynomial K)).1 (h.congr fun t => by simp)
  simp at this


/-- bottom-up variants: the bound is computed from the parts -/
theorem addm (hf : DegLE a f) (hg : DegLE b g) : DegLE (max a b) (fun t => f t + g t) :=
  (hf.mono (le_max_left _ _)).add (hg.mono (le_max_right _ _))
theorem subm (hf : DegLE a f) (hg : DegLE b g) : DegLE (max a b) (fun t => f t - g t) :=
  (hf.mono (le_max_left _ _)).sub (hg.mono (le_max_right _ _))

end DegLE

/-! ## lines of rows -/

/-- a one-parameter family of rows in which every value the gate can read (wire, constant,
public-input-hash entry) is a polynomial of degree ≤ 1 in the parameter -/
structure Line (V : K → EvalVars K) : Prop where
  wires : ∀ i : ℕ, DegLE 1 (fun t => (V t).wires[i]!)
  constants : ∀ i : ℕ, DegLE 1 (fun t => (V t).constants[i]!)
  pih : ∀ i : ℕ, DegLE 1 (fun t => (V t).pih[i]!)

/-! ## families of algebra elements and of constraint lists -/

/-- both components have degree ≤ d -/
def AlgDegLE (d : ℕ) (x : K → Alg K) : Prop :=
  DegLE d (fun t => (x t).1) ∧ DegLE d (fun t => (x t).2)

namespace AlgDegLE
variable {a b d d' : ℕ} {x y : K → Alg K} {s : K → K}

theorem mono (h : AlgDegLE d x) (hd : d ≤ d' := by omega) : AlgDegLE d' x := ⟨h.1.mono hd, h.2.mono hd⟩

theorem const (c : Alg K) : AlgDegLE d (fun _ => c) := ⟨DegLE.const _, DegLE.const _⟩

theorem mk (h1 : DegLE d f) (h2 : DegLE d g) : AlgDegLE d (fun t => ((f t, g t) : Alg K)) := ⟨h1, h2⟩

theorem ofK (hs : DegLE d s) : AlgDegLE d (fun t => @Alg.ofK K (FOps.ofField K) (s t)) :=
  ⟨hs, DegLE.const _⟩

theorem addm (hx : AlgDegLE a x) (hy : AlgDegLE b y) :
    AlgDegLE (max a b) (fun t => @Alg.add K (FOps.ofField K) (x t) (y t)) :=
  ⟨hx.1.addm hy.1, hx.2.addm hy.2⟩

theorem subm (hx : AlgDegLE a x) (hy : AlgDegLE b y) :
    AlgDegLE (max a b) (fun t => @Alg.sub K (FOps.ofField K) (x t) (y t)) :=
  ⟨hx.1.subm hy.1, hx.2.subm hy.2⟩

theorem add (hx : AlgDegLE d x) (hy : AlgDegLE d y) :
    AlgDegLE d (fun t => @Alg.add K (FOps.ofField K) (x t) (y t)) :=
  ⟨hx.1.add hy.1, hx.2.add hy.2⟩

theorem mul (hx : AlgDegLE a x) (hy : AlgDegLE b y) :
    AlgDegLE (a + b) (fun t => @Alg.mul K (FOps.ofField K) (x t) (y t)) :=
  ⟨(hx.1.mul hy.1).add (((DegLE.const (d := 0) _).mul (hx.2.mul hy.2)).mono),
   (hx.1.mul hy.2).add ((hx.2.mul hy.1).mono)⟩

theorem smul (hx : AlgDegLE a x) (hs : DegLE b s) :
    AlgDegLE (a + b) (fun t => @Alg.smul K (FOps.ofField K) (x t) (s t)) :=
  ⟨hx.1.mul hs, hx.2.mul hs⟩

end AlgDegLE

/-- a family of lists of constant length all of whose entries have degree ≤ d -/
def ListDegLE (d : ℕ) (L : K → List K) : Prop :=
  (∃ n, ∀ t, (L t).length = n) ∧ ∀ i, DegLE d (fun t => (L t).getD i 0)

namespace ListDegLE
variable {a b d d' : ℕ} {L L' : K → List K} {f : K → K}

theorem mono (h : ListDegLE d L) (hd : d ≤ d' := by omega) : ListDegLE d' L :=
  ⟨h.1, fun i => (h.2 i).mono hd⟩

theorem congr (h : ListDegLE d L) (he : ∀ t, L' t = L t) : ListDegLE d L' := by
  have : L' = L := funext he
  rw [this]; exact h

theorem nil : ListDegLE d (fun _ : K => ([] : List K)) :=
  ⟨⟨0, fun _ => rfl⟩, fun i => by simpa using (DegLE.zero : DegLE d (fun _ : K => (0 : K)))⟩

theorem cons (hf : DegLE d f) (hL : ListDegLE d L) : ListDegLE d (fun t => f t :: L t) := by
  obtain ⟨⟨n, hn⟩, hL⟩ := hL
  refine ⟨⟨n + 1, fun t => by simp [hn]⟩, fun i => ?_⟩
  cases i with
  | zero => simpa using hf
  | succ i => simpa using hL i

theorem singleton (hf : DegLE d f) : ListDegLE d (fun t => [f t]) := cons hf nil

theorem append (hL : ListDegLE d L) (hL' : ListDegLE d L') : ListDegLE d (fun t => L t ++ L' t) := by
  obtain ⟨⟨n, hn⟩, hL⟩ := hL
  obtain ⟨⟨n', hn'⟩, hL'⟩ := hL'
  refine ⟨⟨n + n', fun t => by simp [hn, hn']⟩, fun i => ?_⟩
  by_cases h : i < n
  · exact (hL i).congr fun t => List.getD_append _ _ _ _ (by rw [hn]; exact h)
  · exact (hL' (i - n)).congr fun t => by
      rw [List.getD_append_right _ _ _ _ (by rw [hn]; omega), hn]

theorem map_range (n : ℕ) (F : K → ℕ → K) (h : ∀ i, i < n → DegLE d (fun t => F t i)) :
    ListDegLE d (fun t => (List.range n).map (F t)) := by
  refine ⟨⟨n, fun t => by simp⟩, fun i => ?_⟩
  by_cases hi : i < n
  · exact (h i hi).congr fun t => by rw [getD_map_range, if_pos hi]
  · exact DegLE.zero.congr fun t => by rw [getD_map_range, if_neg hi]

theorem flatMap_range (n : ℕ) (F : K → ℕ → List K) (h : ∀ i, i < n → ListDegLE d (fun t => F t i)) :
    ListDegLE d (fun t => (List.range n).flatMap (F t)) := by
  induction n with
  | zero => simpa using (nil : ListDegLE d (fun _ : K => ([] : List K)))
  | succ n ih =>
    refine ((ih fun i hi => h i (by omega)).append (h n (by omega))).congr fun t => ?_
    rw [List.range_succ, List.flatMap_append]; simp

theorem comps {x : K → Alg K} (hx : AlgDegLE d x) : ListDegLE d (fun t => Alg.comps (x t)) :=
  cons hx.1 (singleton hx.2)

/-- the head (with any default) of such a family -/
theorem headD (hL : ListDegLE d L) (c : K) : DegLE d (fun t => (L t).headD c) := by
  obtain ⟨⟨n, hn⟩, hL⟩ := hL
  cases n with
  | zero =>
    refine (DegLE.const c).congr fun t => ?_
    have := hn t
    rw [List.length_eq_zero_iff] at this
    rw [this]; rfl
  | succ n =>
    refine (hL 0).congr fun t => ?_
    have := hn t
    cases hl : L t with
    | nil => rw [hl] at this; simp at this
    | cons z zs => rfl

end ListDegLE

namespace Line
variable {V : K → EvalVars K}

theorem w (hV : Line V) (i : ℕ) : DegLE 1 (fun t => @EvalVars.w K _ (V t) i) := hV.wires i
theorem c (hV : Line V) (i : ℕ) : DegLE 1 (fun t => @EvalVars.c K _ (V t) i) := hV.constants i
theorem alg (hV : Line V) (i : ℕ) : AlgDegLE 1 (fun t => @EvalVars.alg K _ (V t) i) :=
  ⟨hV.wires i, hV.wires (i + 1)⟩

end Line

/-! ## the gates -/

section Gates
variable (V : K → EvalVars K) (hV : Line V)
include hV

/-- `ConstantGate`: all constraints have degree ≤ 1, and the constraint list has constant length -/
theorem constant_degree_list (n : ℕ) : ListDegLE 1 (fun t => evalF (.constant n) (V t)) :=
  ListDegLE.map_range n _ fun i _ => (hV.c i).sub (hV.w i)

theorem constant_degree (n : ℕ) (i : ℕ) :
    DegLE (GateKind.constant n).degree (fun t => con (.constant n) (V t) i) :=
  (constant_degree_list V hV n).2 i

theorem publicInput_degree_list : ListDegLE 1 (fun t => evalF .publicInput (V t)) :=
  ListDegLE.map_range 4 _ fun i _ => (hV.w i).sub (hV.pih i)

theorem publicInput_degree (i : ℕ) :
    DegLE GateKind.publicInput.degree (fun t => con .publicInput (V t) i) :=
  (publicInput_degree_list V hV).2 i

theorem arithmetic_degree_list (n : ℕ) : ListDegLE 3 (fun t => evalF (.arithmetic n) (V t)) :=
  ListDegLE.map_range n _ fun i _ =>
    ((hV.w _).subm ((((hV.w _).mul (hV.w _)).mul (hV.c _)).addm ((hV.w _).mul (hV.c _)))).mono

theorem arithmetic_degree (n : ℕ) (i : ℕ) :
    DegLE (GateKind.arithmetic n).degree (fun t => con (.arithmetic n) (V t) i) :=
  (arithmetic_degree_list V hV n).2 i

theorem arithmeticExt_degree_list (n : ℕ) : ListDegLE 3 (fun t => evalF (.arithmeticExt n) (V t)) :=
  ListDegLE.flatMap_range n _ fun i _ => ListDegLE.comps
    (((hV.alg _).subm ((((hV.alg _).mul (hV.alg _)).smul (hV.c _)).addm
      ((hV.alg _).smul (hV.c _)))).mono)

theorem arithmeticExt_degree (n : ℕ) (i : ℕ) :
    DegLE (GateKind.arithmeticExt n).degree (fun t => con (.arithmeticExt n) (V t) i) :=
  (arithmeticExt_degree_list V hV n).2 i

theorem mulExt_degree_list (n : ℕ) : ListDegLE 3 (fun t => evalF (.mulExt n) (V t)) :=
  ListDegLE.flatMap_range n _ fun i _ => ListDegLE.comps
    (((hV.alg _).subm (((hV.alg _).mul (hV.alg _)).smul (hV.c _))).mono)

theorem mulExt_degree (n : ℕ) (i : ℕ) :
    DegLE (GateKind.mulExt n).degree (fun t => con (.mulExt n) (V t) i) :=
  (mulExt_degree_list V hV n).2 i


/-! ### base_sum -/

omit hV in
/-- Horner evaluation (`reduce_with_powers`) with a constant base keeps the degree -/
theorem DegLE.foldr_horner {d : ℕ} (l : List ℕ) (F : K → ℕ → K) (α : K)
    (h : ∀ i, DegLE d (fun t => F t i)) :
    DegLE d (fun t => (l.map (F t)).foldr (fun x acc => acc * α + x) 0) := by
  induction l with
  | nil => simpa using (DegLE.zero : DegLE d (fun _ : K => (0 : K)))
  | cons x l ih =>
    simp only [List.map_cons, List.foldr_cons]
    exact ((ih.mul (DegLE.const (d := 0) α)).mono).add (h x)

omit hV in
theorem ListDegLE.map_map_range {d : ℕ} (n : ℕ) (F : K → ℕ → K) (G : K → K → K)
    (h : ∀ i, i < n → DegLE d (fun t => G t (F t i))) :
    ListDegLE d (fun t => ((List.range n).map (F t)).map (G t)) :=
  (ListDegLE.map_range n (fun t i => G t (F t i)) h).congr fun t => by rw [List.map_map]; rfl

/-- the sum constraint (index 0) of `BaseSumGate` has degree ≤ 1, whatever the base -/
theorem baseSum_degree_sum (b l : ℕ) : DegLE 1 (fun t => con (.baseSum b l) (V t) 0) :=
  ((DegLE.foldr_horner (List.range l) (fun t i => (V t).wires[1 + i]!) (b : K)
    (fun i => hV.wires _)).sub (hV.wires 0)).congr fun t => rfl

/-- the range-check constraints (indices ≥ 1) of `BaseSumGate` have degree ≤ `b`, whatever the base -/
theorem baseSum_degree_limbs_list (b l : ℕ) :
    ListDegLE b (fun t => (evalF (.baseSum b l) (V t)).tail) := by
  refine (ListDegLE.map_map_range l (fun t i => (V t).wires[1 + i]!)
    (fun t limb => @FOps.prod K (FOps.ofField K) ((List.range b).map fun i : ℕ => limb - (i : K)))
    fun i _ => ?_).congr fun t => rfl
  refine ((DegLE.foldl_mul (List.range b) (fun t j => (V t).wires[1 + i]! - (j : K)) (fun _ => 1)
    (DegLE.one (d := 0)) fun j _ => (hV.wires _).sub (DegLE.natCast j)).mono (by simp)).congr
    fun t => ?_
  simp only [FOps.prod, List.foldl_map]
  rfl

theorem baseSum_degree_limb (b l : ℕ) (i : ℕ) :
    DegLE b (fun t => con (.baseSum b l) (V t) (i + 1)) :=
  ((baseSum_degree_limbs_list V hV b l).2 i).congr fun t => rfl

/-- `BaseSumGate<B>`: every constraint has degree ≤ `B` PROVIDED `1 ≤ B`.  (For `B = 0` the declared
degree `0` is smaller than the degree 1 of the sum constraint, see `baseSum_zero_degree_fails`; a base-0
gate is degenerate — its range checks are the empty product `1`, unsatisfiable.) -/
theorem baseSum_degree (b l : ℕ) (hb : 1 ≤ b) (i : ℕ) :
    DegLE (GateKind.baseSum b l).degree (fun t => con (.baseSum b l) (V t) i) := by
  cases i with
  | zero => exact (baseSum_degree_sum V hV b l).mono hb
  | succ i => exact baseSum_degree_limb V hV b l i

/-! ### exponentiation -/

theorem exponentiation_degree_list (n : ℕ) :
    ListDegLE 4 (fun t => evalF (.exponentiation n) (V t)) :=
  ListDegLE.append
    (ListDegLE.map_range n _ fun i _ =>
      (((DegLE.ite _ (DegLE.one (d := 2)) ((hV.w _).mul (hV.w _))).mul
        (((hV.w _).mul (hV.w _)).addm ((DegLE.one (d := 0)).subm (hV.w _)))).subm (hV.w _)).mono)
    (ListDegLE.singleton (((hV.w _).sub (hV.w _)).mono))

theorem exponentiation_degree (n : ℕ) (i : ℕ) :
    DegLE (GateKind.exponentiation n).degree (fun t => con (.exponentiation n) (V t) i) :=
  (exponentiation_degree_list V hV n).2 i

/-! ### reducing, reducing_extension -/

omit hV in
theorem reducing_fold (l : List ℕ) (alpha : K → Alg K) (coeff accI : K → ℕ → Alg K)
    (hα : AlgDegLE 1 alpha) (hco : ∀ i, AlgDegLE 1 (fun t => coeff t i))
    (hai : ∀ i, AlgDegLE 1 (fun t => accI t i))
    (acc : K → Alg K) (cs : K → List K) (hacc : AlgDegLE 1 acc) (hcs : ListDegLE 2 cs) :
    ListDegLE 2 (fun t => (l.foldl (fun (st : Alg K × List K) i =>
      (accI t i, st.2 ++ Alg.comps (@Alg.sub K (FOps.ofField K)
        (@Alg.add K (FOps.ofField K) (@Alg.mul K (FOps.ofField K) st.1 (alpha t)) (coeff t i))
        (accI t i)))) (acc t, cs t)).2) := by
  induction l generalizing acc cs with
  | nil => exact hcs
  | cons x l ih =>
    simp only [List.foldl_cons]
    exact ih (fun t => accI t x) _ (hai x)
      (hcs.append (ListDegLE.comps ((((hacc.mul hα).addm (hco x)).subm (hai x)).mono)))

theorem reducing_degree_list (n : ℕ) : ListDegLE 2 (fun t => evalF (.reducing n) (V t)) :=
  reducing_fold (List.range n) _ (fun t i => @Alg.ofK K (FOps.ofField K) ((V t).wires[6 + i]!))
    (fun t i => ((V t).wires[redWiresAccs n i]!, (V t).wires[redWiresAccs n i + 1]!))
    (hV.alg 2) (fun i => AlgDegLE.ofK (hV.wires _)) (fun i => hV.alg _) _ _ (hV.alg 4) ListDegLE.nil

theorem reducing_degree (n : ℕ) (i : ℕ) :
    DegLE (GateKind.reducing n).degree (fun t => con (.reducing n) (V t) i) :=
  (reducing_degree_list V hV n).2 i

theorem reducingExt_degree_list (n : ℕ) : ListDegLE 2 (fun t => evalF (.reducingExt n) (V t)) :=
  reducing_fold (List.range n) _
    (fun t i => ((V t).wires[6 + 2 * i]!, (V t).wires[6 + 2 * i + 1]!))
    (fun t i => ((V t).wires[redExtWiresAccs n i]!, (V t).wires[redExtWiresAccs n i + 1]!))
    (hV.alg 2) (fun i => hV.alg _) (fun i => hV.alg _) _ _ (hV.alg 4) ListDegLE.nil

theorem reducingExt_degree (n : ℕ) (i : ℕ) :
    DegLE (GateKind.reducingExt n).degree (fun t => con (.reducingExt n) (V t) i) :=
  (reducingExt_degree_list V hV n).2 i

/-! ### poseidon_mds -/

omit hV in
theorem AlgDegLE.foldl_add {d : ℕ} (l : List ℕ) (F : K → ℕ → Alg K) (init : K → Alg K)
    (hi : AlgDegLE d init) (h : ∀ i, AlgDegLE d (fun t => F t i)) :
    AlgDegLE d (fun t => l.foldl (fun acc i => @Alg.add K (FOps.ofField K) acc (F t i)) (init t)) := by
  induction l generalizing init with
  | nil => exact hi
  | cons x l ih =>
    simp only [List.foldl_cons]
    exact ih _ (hi.add (h x))

omit hV in
theorem AlgDegLE.getElem!_map_range {d : ℕ} (n : ℕ) (F : K → ℕ → Alg K)
    (h : ∀ i, AlgDegLE d (fun t => F t i)) (j : ℕ) :
    AlgDegLE d (fun t => ((Array.range n).map (F t))[j]!) := by
  by_cases hj : j < n
  · have : ∀ t, ((Array.range n).map (F t))[j]! = F t j := fun t => by
      simp [hj]
    simp only [this]; exact h j
  · have : ∀ t, ((Array.range n).map (F t))[j]! = default := fun t => by
      simp [hj]
    simp only [this]; exact AlgDegLE.const _

omit hV in
theorem mdsRowShfAlg_degree (r : ℕ) (A : K → Array (Alg K))
    (hA : ∀ j : ℕ, AlgDegLE 1 (fun t => (A t)[j]!)) :
    AlgDegLE 1 (fun t => @mdsRowShfAlg K (FOps.ofField K) _ r (A t)) :=
  (AlgDegLE.foldl_add (List.range spongeWidth)
      (fun t i => @Alg.smul K (FOps.ofField K) ((A t)[(i + r) % spongeWidth]!) ((mdsMatrixCirc[i]! : ℕ) : K))
      (fun _ => @Alg.zero K (FOps.ofField K)) (AlgDegLE.const _)
      (fun i => ((hA _).smul (DegLE.const (d := 0) _)).mono)).add
    (((hA _).smul (DegLE.const (d := 0) _)).mono)

theorem poseidonMds_degree_list : ListDegLE 1 (fun t => evalF .poseidonMds (V t)) :=
  ListDegLE.flatMap_range spongeWidth _ fun i _ => ListDegLE.comps
    (((hV.alg _).subm (mdsRowShfAlg_degree i _
      (AlgDegLE.getElem!_map_range spongeWidth (fun t i => @EvalVars.alg K _ (V t) (2 * i))
        (fun i => hV.alg _)))).mono)

theorem poseidonMds_degree (i : ℕ) :
    DegLE GateKind.poseidonMds.degree (fun t => con .poseidonMds (V t) i) :=
  (poseidonMds_degree_list V hV).2 i

/-! ### random_access -/

omit hV in
theorem raFoldPairs_length (b : K) : ∀ l : List K,
    (@raFoldPairs K (FOps.ofField K) b l).length = l.length / 2
  | [] => by simp [raFoldPairs]
  | [x] => by simp [raFoldPairs]
  | x :: y :: rest => by
    simp only [raFoldPairs, List.length_cons, raFoldPairs_length b rest]; omega

omit hV in
/-- entry `i` of one level of the multiplexer tree: `x_{2i} + b·(x_{2i+1} − x_{2i})` -/
theorem raFoldPairs_getD (b : K) : ∀ (l : List K) (i : ℕ),
    (@raFoldPairs K (FOps.ofField K) b l).getD i 0 =
      if 2 * i + 1 < l.length then l.getD (2 * i) 0 + b * (l.getD (2 * i + 1) 0 - l.getD (2 * i) 0)
      else 0
  | [], i => by simp [raFoldPairs]
  | [x], i => by simp [raFoldPairs]
  | x :: y :: rest, 0 => by simp [raFoldPairs]
  | x :: y :: rest, i + 1 => by
    have e : 2 * (i + 1) = 2 * i + 1 + 1 := by ring
    simp only [raFoldPairs, List.getD_cons_succ, raFoldPairs_getD b rest i, e, List.length_cons]
    by_cases h : 2 * i + 1 < rest.length
    · rw [if_pos h, if_pos (by omega)]
    · rw [if_neg h, if_neg (by omega)]

omit hV in
theorem ListDegLE.foldPairs {d : ℕ} {L : K → List K} {b : K → K} (hL : ListDegLE d L)
    (hb : DegLE 1 b) :
    ListDegLE (d + 1) (fun t => @raFoldPairs K (FOps.ofField K) (b t) (L t)) := by
  obtain ⟨⟨n, hn⟩, hL⟩ := hL
  refine ⟨⟨n / 2, fun t => by rw [raFoldPairs_length, hn]⟩, fun i => ?_⟩
  by_cases h : 2 * i + 1 < n
  · refine (((hL (2 * i)).mono (d' := d + 1)).add
      ((hb.mul ((hL (2 * i + 1)).sub (hL (2 * i)))).mono)).congr fun t => ?_
    rw [raFoldPairs_getD, hn, if_pos h]
  · refine DegLE.zero.congr fun t => ?_
    rw [raFoldPairs_getD, hn, if_neg h]

omit hV in
/-- the multiplexer tree: each level multiplies by one bit, so `m` levels add `m` to the degree -/
theorem ListDegLE.foldl_foldPairs {d : ℕ} (l : List ℕ) (B : K → ℕ → K)
    (hB : ∀ i, DegLE 1 (fun t => B t i)) (L : K → List K) (hL : ListDegLE d L) :
    ListDegLE (d + l.length) (fun t =>
      (l.map (B t)).foldl (fun items b => @raFoldPairs K (FOps.ofField K) b items) (L t)) := by
  induction l generalizing L d with
  | nil => exact hL
  | cons x l ih =>
    simp only [List.map_cons, List.foldl_cons, List.length_cons]
    exact (ih _ (hL.foldPairs (hB x))).mono

omit hV in
/-- big-endian binary reconstruction `acc ↦ 2·acc + b` keeps the degree -/
theorem DegLE.foldl_double {d : ℕ} (l : List ℕ) (B : K → ℕ → K) (hB : ∀ i, DegLE d (fun t => B t i))
    (init : K → K) (hi : DegLE d init) :
    DegLE d (fun t => (l.map (B t)).foldl (fun acc b => acc + acc + b) (init t)) := by
  induction l generalizing init with
  | nil => exact hi
  | cons x l ih =>
    simp only [List.map_cons, List.foldl_cons]
    exact ih _ ((hi.add hi).add (hB x))

theorem randomAccess_degree_list (bits copies extra : ℕ) :
    ListDegLE (bits + 1) (fun t => evalF (.randomAccess bits copies extra) (V t)) := by
  refine ListDegLE.append (ListDegLE.flatMap_range copies _ fun copy _ => ?_)
    (ListDegLE.map_range extra _ fun i _ => ((hV.c _).sub (hV.w _)).mono)
  refine ListDegLE.append (ListDegLE.append ?_ (ListDegLE.singleton ?_)) (ListDegLE.singleton ?_)
  · -- the bits are boolean: degree 2 (and there are none when `bits = 0`)
    exact ListDegLE.map_map_range bits _ _ fun i hi =>
      ((hV.w _).mul ((hV.w _).sub (DegLE.one))).mono
  · -- the bits reconstruct the access index: degree 1
    refine DegLE.sub ?_ ((hV.w _).mono)
    refine ((DegLE.foldl_double (List.range bits).reverse
      (fun t i => (V t).wires[raWireBit bits copies extra i copy]!) (fun i => hV.wires _)
      (fun _ => 0) DegLE.zero).mono (d' := bits + 1)).congr fun t => ?_
    rw [List.map_reverse]; rfl
  · -- the multiplexer tree: degree 1 + bits
    refine DegLE.sub (ListDegLE.headD ?_ _) ((hV.w _).mono)
    refine ((ListDegLE.foldl_foldPairs (List.range bits)
      (fun t i => (V t).wires[raWireBit bits copies extra i copy]!) (fun i => hV.wires _) _
      (ListDegLE.map_range (raVecSize bits) (fun t i => (V t).wires[raWireListItem bits i copy]!)
        fun i _ => hV.wires _)).mono (by simp; omega)).congr fun t => rfl

theorem randomAccess_degree (bits copies extra : ℕ) (i : ℕ) :
    DegLE (GateKind.randomAccess bits copies extra).degree
      (fun t => con (.randomAccess bits copies extra) (V t) i) :=
  (randomAccess_degree_list V hV bits copies extra).2 i

/-! ### gates without constraints -/

omit hV in
theorem noop_degree (i : ℕ) : DegLE GateKind.noop.degree (fun t => con .noop (V t) i) :=
  DegLE.zero.congr fun t => rfl
omit hV in
theorem lookup_degree (n i : ℕ) : DegLE (GateKind.lookup n).degree (fun t => con (.lookup n) (V t) i) :=
  DegLE.zero.congr fun t => rfl
omit hV in
theorem lookupTable_degree (n i : ℕ) :
    DegLE (GateKind.lookupTable n).degree (fun t => con (.lookupTable n) (V t) i) :=
  DegLE.zero.congr fun t => rfl

end Gates

/-! ## non-vacuity: lines exist, and the bounds are attained -/

theorem DegLE.getElem!_map {α : Type} {d : ℕ} (A : Array α) (F : K → α → K)
    (h : ∀ x, DegLE d (fun t => F t x)) (i : ℕ) : DegLE d (fun t => (A.map (F t))[i]!) := by
  by_cases hi : i < A.size
  · have : ∀ t, (A.map (F t))[i]! = F t A[i] := fun t => by simp [hi]
    simp only [this]; exact h _
  · have : ∀ t, (A.map (F t))[i]! = default := fun t => by simp [hi]
    simp only [this]; exact DegLE.const _

/-- the row at parameter `t` on the affine line with base point / direction given entrywise as pairs
`(a, b) ↦ a + t·b` -/
def affineRow (cs ws ps : Array (K × K)) (t : K) : EvalVars K :=
  ⟨cs.map fun p => p.1 + t * p.2, ws.map fun p => p.1 + t * p.2, ps.map fun p => p.1 + t * p.2⟩

/-- every affine family of rows is a `Line` (so there is a `Line` through any two rows of the same shape) -/
theorem affineRow_line (cs ws ps : Array (K × K)) : Line (affineRow cs ws ps) where
  wires := fun i => DegLE.getElem!_map ws _ (fun p => (DegLE.const (d := 1) p.1).add (DegLE.id.mul' (DegLE.const (d := 0) p.2))) i
  constants := fun i => DegLE.getElem!_map cs _ (fun p => (DegLE.const (d := 1) p.1).add (DegLE.id.mul' (DegLE.const (d := 0) p.2))) i
  pih := fun i => DegLE.getElem!_map ps _ (fun p => (DegLE.const (d := 1) p.1).add (DegLE.id.mul' (DegLE.const (d := 0) p.2))) i

/-- scaling a row is a `Line` -/
theorem scale_line (v : EvalVars K) :
    Line (fun t => (⟨v.constants.map (t * ·), v.wires.map (t * ·), v.pih.map (t * ·)⟩ : EvalVars K)) where
  wires := fun i => DegLE.getElem!_map v.wires _ (fun x => DegLE.id.mul' (DegLE.const (d := 0) x)) i
  constants := fun i => DegLE.getElem!_map v.constants _ (fun x => DegLE.id.mul' (DegLE.const (d := 0) x)) i
  pih := fun i => DegLE.getElem!_map v.pih _ (fun x => DegLE.id.mul' (DegLE.const (d := 0) x)) i

/-- tightness: along the line `w₀ = w₁ = c₀ = t` (everything else `0`) constraint 0 of the arithmetic gate
is `−t³`, which over an infinite field is not of degree ≤ 2: the declared degree 3 is attained -/
theorem arithmetic_degree_tight [Infinite K] :
    ∃ V : K → EvalVars K, Line V ∧ ¬ DegLE 2 (fun t => con (.arithmetic 1) (V t) 0) := by
  refine ⟨affineRow #[(0, 1), (0, 0)] #[(0, 1), (0, 1), (0, 0), (0, 0)] #[], affineRow_line _ _ _, ?_⟩
  intro h
  have := (DegLE.eval_iff (-(X ^ 3) : Polynomial K)).1 (h.congr fun t => by
    simp [con, evalF, GateKind.evalUnfiltered, evalArithmetic, EvalVars.w, EvalVars.c, affineRow]
    ring)
  simp at this

/-- FINDING (degenerate parameter): for `BaseSumGate<0>` the declared degree `0` is NOT an upper bound:
along the line `w₀ = t` constraint 0 (`reduce_with_powers(limbs, 0) − sum`) is `−t`, not constant.  Holds
over every field.  Hence the hypothesis `1 ≤ b` in `baseSum_degree`. -/
theorem baseSum_zero_degree_fails :
    ∃ V : K → EvalVars K, Line V ∧
      ¬ DegLE (GateKind.baseSum 0 1).degree (fun t => con (.baseSum 0 1) (V t) 0) := by
  refine ⟨affineRow #[] #[(0, 1), (0, 0)] #[], affineRow_line _ _ _, ?_⟩
  intro h
  obtain ⟨c, hc⟩ := DegLE.zero_iff.1 h
  have e : ∀ t : K, con (.baseSum 0 1) (affineRow #[] #[(0, 1), (0, 0)] #[] t) 0 = -t := fun t => by
    simp [con, evalF, GateKind.evalUnfiltered, evalBaseSum, FOps.reduceWithPowers, EvalVars.w, kOf,
      affineRow]
    exact Or.inl rfl
  have h0 := hc 0
  have h1 := hc 1
  rw [e] at h0 h1
  rw [← h0] at h1
  simp at h1


/-! ## poseidon (the degree-7 gate) -/


/-- a family of arrays of constant size all of whose entries have degree ≤ d -/
def ArrDegLE (d : ℕ) (S : K → Array K) : Prop :=
  (∃ n, ∀ t, (S t).size = n) ∧ ∀ j : ℕ, DegLE d (fun t => ((S t)[j]?).getD 0)

namespace ArrDegLE
variable {d d' : ℕ} {S : K → Array K}

theorem mono (h : ArrDegLE d S) (hd : d ≤ d' := by omega) : ArrDegLE d' S :=
  ⟨h.1, fun j => (h.2 j).mono hd⟩

theorem getElem! (h : ArrDegLE d S) (j : ℕ) : DegLE d (fun t => (S t)[j]!) := by
  obtain ⟨⟨n, hn⟩, h⟩ := h
  by_cases hj : j < n
  · refine (h j).congr fun t => ?_
    have hj' : j < (S t).size := by rw [hn]; exact hj
    simp [hj']
  · refine (DegLE.const default).congr fun t => ?_
    have hj' : ¬ j < (S t).size := by rw [hn]; exact hj
    simp [hj']

theorem toList (h : ArrDegLE d S) : ListDegLE d (fun t => (S t).toList) :=
  ⟨by simpa using h.1, fun i => (h.2 i).congr fun t => by simp [List.getD_eq_getElem?_getD]⟩

theorem map_range (n : ℕ) (F : K → ℕ → K) (h : ∀ i, i < n → DegLE d (fun t => F t i)) :
    ArrDegLE d (fun t => (Array.range n).map (F t)) := by
  refine ⟨⟨n, fun t => by simp⟩, fun j => ?_⟩
  by_cases hj : j < n
  · exact (h j hj).congr fun t => by simp [hj]
  · exact DegLE.zero.congr fun t => by simp [hj]

theorem push {x : K → K} (h : ArrDegLE d S) (hx : DegLE d x) : ArrDegLE d (fun t => (S t).push (x t)) := by
  obtain ⟨⟨n, hn⟩, h⟩ := h
  refine ⟨⟨n + 1, fun t => by simp [hn]⟩, fun j => ?_⟩
  by_cases hj : j < n
  · refine (h j).congr fun t => ?_
    rw [Array.getElem?_push_lt (by rw [hn]; exact hj)]
    have hj' : j < (S t).size := by rw [hn]; exact hj
    simp [hj']
  · by_cases hj2 : j = n
    · refine hx.congr fun t => ?_
      subst hj2
      rw [← hn t]; simp
    · refine DegLE.zero.congr fun t => ?_
      rw [Array.getElem?_eq_none (by simp [hn]; omega)]; rfl

theorem set! {x : K → K} (h : ArrDegLE d S) (hx : DegLE d x) (k : ℕ) :
    ArrDegLE d (fun t => (S t).set! k (x t)) := by
  obtain ⟨⟨n, hn⟩, h⟩ := h
  refine ⟨⟨n, fun t => by simp [hn]⟩, fun j => ?_⟩
  by_cases hj : j = k ∧ k < n
  · refine hx.congr fun t => ?_
    obtain ⟨rfl, hk⟩ := hj
    have : j < (S t).size := by rw [hn]; exact hk
    simp [Array.set!, this]
  · refine (h j).congr fun t => ?_
    simp only [Array.set!, Array.getElem?_setIfInBounds]
    by_cases hjk : k = j
    · subst hjk
      have : ¬ k < (S t).size := by rw [hn]; tauto
      simp [this]
    · simp [hjk]

/-- `mapIdx` with an index-dependent additive constant (`constant_layer`) -/
theorem mapIdx_add (h : ArrDegLE d S) (c : ℕ → K) :
    ArrDegLE d (fun t => (S t).mapIdx fun i x => x + c i) := by
  obtain ⟨⟨n, hn⟩, h⟩ := h
  refine ⟨⟨n, fun t => by simp [hn]⟩, fun j => ?_⟩
  by_cases hj : j < n
  · refine ((h j).add (DegLE.const (c j))).congr fun t => ?_
    have hj' : j < (S t).size := by rw [hn]; exact hj
    simp [hj']
  · refine DegLE.zero.congr fun t => ?_
    have hj' : ¬ j < (S t).size := by rw [hn]; exact hj
    simp [hj']

theorem map (h : ArrDegLE d S) (G : K → K) (hG : ∀ g : K → K, DegLE d g → DegLE d' (fun t => G (g t))) :
    ArrDegLE d' (fun t => (S t).map G) := by
  obtain ⟨⟨n, hn⟩, h⟩ := h
  refine ⟨⟨n, fun t => by simp [hn]⟩, fun j => ?_⟩
  by_cases hj : j < n
  · refine (hG _ (h j)).congr fun t => ?_
    have hj' : j < (S t).size := by rw [hn]; exact hj
    simp [hj']
  · refine DegLE.zero.congr fun t => ?_
    have hj' : ¬ j < (S t).size := by rw [hn]; exact hj
    simp [hj']

theorem foldl_push (l : List ℕ) (F : K → ℕ → K) (hF : ∀ i, DegLE d (fun t => F t i))
    (cs : K → Array K) (h : ArrDegLE d cs) :
    ArrDegLE d (fun t => l.foldl (fun cs i => cs.push (F t i)) (cs t)) := by
  induction l generalizing cs with
  | nil => exact h
  | cons x l ih =>
    simp only [List.foldl_cons]
    exact ih _ (h.push (hF x))

end ArrDegLE

section Layers
variable {d : ℕ} {S : K → Array K}

/-- the S-box `x ↦ x⁷` -/
theorem sboxMonomial_degree {x : K → K} (hx : DegLE 1 x) :
    DegLE 7 (fun t => @sboxMonomial K (FOps.ofField K) (x t)) :=
  (((hx.mul (hx.mul hx)).mul ((hx.mul hx).mul (hx.mul hx))).mono).congr fun t => rfl

theorem constantLayer_degree (hS : ArrDegLE d S) (r : ℕ) :
    ArrDegLE d (fun t => @constantLayer K (FOps.ofField K) (S t) r) :=
  hS.mapIdx_add fun i => ((allRoundConstants[i + spongeWidth * r]! : ℕ) : K)

theorem partialFirstConstantLayer_degree (hS : ArrDegLE d S) :
    ArrDegLE d (fun t => @partialFirstConstantLayer K (FOps.ofField K) (S t)) :=
  hS.mapIdx_add fun i => ((fastPartialFirstRoundConstant[i]! : ℕ) : K)

theorem sboxLayer_degree (hS : ArrDegLE 1 S) :
    ArrDegLE 7 (fun t => @sboxLayer K (FOps.ofField K) (S t)) :=
  hS.map _ fun g hg => sboxMonomial_degree hg

theorem mdsRowShf_degree (hS : ArrDegLE d S) (r : ℕ) :
    DegLE d (fun t => @mdsRowShf K (FOps.ofField K) _ r (S t)) :=
  (DegLE.foldl_add (List.range spongeWidth)
      (fun t i => (S t)[(i + r) % spongeWidth]! * ((mdsMatrixCirc[i]! : ℕ) : K)) (fun _ => 0) DegLE.zero
      (fun i _ => ((hS.getElem! _).mul (DegLE.const (d := 0) _)).mono)).add
    (((hS.getElem! _).mul (DegLE.const (d := 0) _)).mono)

theorem mdsLayer_degree (hS : ArrDegLE d S) :
    ArrDegLE d (fun t => @mdsLayer K (FOps.ofField K) _ (S t)) :=
  ArrDegLE.map_range spongeWidth _ fun r _ => mdsRowShf_degree hS r

theorem mdsPartialLayerInit_degree (hS : ArrDegLE d S) :
    ArrDegLE d (fun t => @mdsPartialLayerInit K (FOps.ofField K) _ (S t)) :=
  ArrDegLE.map_range spongeWidth _ fun c _ => DegLE.ite _ (hS.getElem! 0)
    (DegLE.foldl_add (List.range (spongeWidth - 1))
      (fun t r => (S t)[r + 1]! * (((fastPartialRoundInitialMatrix[r]!)[c - 1]! : ℕ) : K)) (fun _ => 0)
      DegLE.zero (fun i _ => ((hS.getElem! _).mul (DegLE.const (d := 0) _)).mono))

theorem mdsPartialLayerFast_degree (hS : ArrDegLE d S) (r : ℕ) :
    ArrDegLE d (fun t => @mdsPartialLayerFast K (FOps.ofField K) _ (S t) r) :=
  ArrDegLE.map_range spongeWidth _ fun i _ => DegLE.ite _
    (DegLE.foldl_add (List.range (spongeWidth - 1))
      (fun t i => (S t)[i + 1]! * (((fastPartialRoundWHats[r]!)[i]! : ℕ) : K))
      (fun t => (S t)[0]! * ((mdsMatrixCirc[0]! + mdsMatrixDiag[0]! : ℕ) : K))
      (((hS.getElem! _).mul (DegLE.const (d := 0) _)).mono)
      (fun i _ => ((hS.getElem! _).mul (DegLE.const (d := 0) _)).mono))
    ((((hS.getElem! _).mul (DegLE.const (d := 0) _)).mono).add (hS.getElem! _))

end Layers

/-! the evaluator of `PoseidonGate` in stages (each stage maps `(state, constraints so far)`) -/

def posStage1 (v : EvalVars K) : Array K × Array K :=
  (@posSwappedInputs K (FOps.ofField K) _ v,
   (List.range 4).foldl (fun cs i =>
      cs.push (v.wires[posWireSwap]! * (v.wires[posWireInput (i + 4)]! - v.wires[posWireInput i]!)
        - v.wires[posWireDelta i]!))
    #[v.wires[posWireSwap]! * (v.wires[posWireSwap]! - 1)])

def posStage2 (v : EvalVars K) (s : Array K × Array K) : Array K × Array K :=
  (List.range halfNFullRounds).foldl (fun (acc : Array K × Array K) r =>
    let x := if r ≠ 0 then
        @posCheckSboxIn K (FOps.ofField K) _ (@constantLayer K (FOps.ofField K) acc.1 r) acc.2
          (fun i => v.wires[posWireFullSbox0 r i]!)
      else (@constantLayer K (FOps.ofField K) acc.1 r, acc.2)
    (@mdsLayer K (FOps.ofField K) _ (@sboxLayer K (FOps.ofField K) x.1), x.2)) s

def posStage3 (v : EvalVars K) (s : Array K × Array K) : Array K × Array K :=
  (List.range (nPartialRounds - 1)).foldl (fun (acc : Array K × Array K) r =>
    (@mdsPartialLayerFast K (FOps.ofField K) _
      (acc.1.set! 0 (@sboxMonomial K (FOps.ofField K) v.wires[posWirePartialSbox r]!
        + ((fastPartialRoundConstants[r]! : ℕ) : K))) r,
     acc.2.push (acc.1[0]! - v.wires[posWirePartialSbox r]!)))
    (@mdsPartialLayerInit K (FOps.ofField K) _ (@partialFirstConstantLayer K (FOps.ofField K) s.1), s.2)

def posStage4 (v : EvalVars K) (s : Array K × Array K) : Array K × Array K :=
  (@mdsPartialLayerFast K (FOps.ofField K) _
    (s.1.set! 0 (@sboxMonomial K (FOps.ofField K) v.wires[posWirePartialSbox (nPartialRounds - 1)]!))
    (nPartialRounds - 1),
   s.2.push (s.1[0]! - v.wires[posWirePartialSbox (nPartialRounds - 1)]!))

def posStage5 (v : EvalVars K) (s : Array K × Array K) : Array K × Array K :=
  (List.range halfNFullRounds).foldl (fun (acc : Array K × Array K) r =>
    let x := @posCheckSboxIn K (FOps.ofField K) _
      (@constantLayer K (FOps.ofField K) acc.1 (halfNFullRounds + nPartialRounds + r)) acc.2
      (fun i => v.wires[posWireFullSbox1 r i]!)
    (@mdsLayer K (FOps.ofField K) _ (@sboxLayer K (FOps.ofField K) x.1), x.2)) s

def posStage6 (v : EvalVars K) (s : Array K × Array K) : List K :=
  ((List.range spongeWidth).foldl (fun cs i => cs.push (s.1[i]! - v.wires[posWireOutput i]!)) s.2).toList

theorem evalPoseidon_stages (v : EvalVars K) :
    evalF .poseidon v
      = posStage6 v (posStage5 v (posStage4 v (posStage3 v (posStage2 v (posStage1 v))))) := by
  simp only [evalF, GateKind.evalUnfiltered]
  unfold evalPoseidon
  dsimp only
  rfl


theorem ArrDegLE.congr {d : ℕ} {S S' : K → Array K} (h : ArrDegLE d S) (he : ∀ t, S' t = S t) :
    ArrDegLE d S' := by
  have : S' = S := funext he
  rw [this]; exact h

theorem ArrDegLE.empty {d : ℕ} : ArrDegLE d (fun _ : K => (#[] : Array K)) :=
  ⟨⟨0, fun _ => rfl⟩, fun j => DegLE.zero.congr fun t => by simp⟩

/-- invariants of `foldl` over `List.range n`, indexed by the round number -/
theorem foldl_range_inv {σ : Type} (P : ℕ → (K → σ) → Prop) (n : ℕ) (step : K → σ → ℕ → σ)
    (S0 : K → σ) (h0 : P 0 S0)
    (hstep : ∀ r S, r < n → P r S → P (r + 1) (fun t => step t (S t) r)) :
    P n (fun t => (List.range n).foldl (step t) (S0 t)) := by
  induction n with
  | zero => simpa using h0
  | succ n ih =>
    have := hstep n _ (Nat.lt_succ_self n) (ih fun r S hr => hstep r S (by omega))
    simpa only [List.range_succ, List.foldl_append, List.foldl_cons, List.foldl_nil] using this

theorem posCheckSboxIn_degree {state cs : K → Array K} (hs : ArrDegLE 7 state) (hc : ArrDegLE 7 cs)
    (wire : K → ℕ → K) (hw : ∀ i, DegLE 1 (fun t => wire t i)) :
    ArrDegLE 1 (fun t => (@posCheckSboxIn K (FOps.ofField K) _ (state t) (cs t) (wire t)).1) ∧
    ArrDegLE 7 (fun t => (@posCheckSboxIn K (FOps.ofField K) _ (state t) (cs t) (wire t)).2) := by
  have h1 : ArrDegLE 1 (fun t => (Array.range spongeWidth).map (wire t)) :=
    ArrDegLE.map_range spongeWidth _ fun i _ => hw i
  exact ⟨h1, ArrDegLE.foldl_push (List.range spongeWidth)
    (fun t i => (state t)[i]! - ((Array.range spongeWidth).map (wire t))[i]!)
    (fun i => (hs.getElem! i).sub ((h1.getElem! i).mono)) _ hc⟩

section Stages
variable (V : K → EvalVars K) (hV : Line V)
include hV

theorem posSwappedInputs_degree :
    ArrDegLE 1 (fun t => @posSwappedInputs K (FOps.ofField K) _ (V t)) :=
  ArrDegLE.map_range spongeWidth _ fun i _ =>
    DegLE.ite _ ((hV.w _).add (hV.w _)) (DegLE.ite _ ((hV.w _).sub (hV.w _)) (hV.w _))

theorem posStage1_degree :
    ArrDegLE 1 (fun t => (posStage1 (V t)).1) ∧ ArrDegLE 7 (fun t => (posStage1 (V t)).2) :=
  ⟨posSwappedInputs_degree V hV,
   ArrDegLE.foldl_push (List.range 4) _
    (fun i => ((((hV.wires _).mul ((hV.wires _).sub (hV.wires _))).sub ((hV.wires _).mono)).mono (d' := 7))) _
    ((ArrDegLE.empty.push (((hV.wires _).mul ((hV.wires _).sub DegLE.one)).mono (d' := 7))).congr
      fun t => rfl)⟩


theorem posStage2_degree (S : K → Array K × Array K)
    (hS : ArrDegLE 1 (fun t => (S t).1) ∧ ArrDegLE 7 (fun t => (S t).2)) :
    ArrDegLE 7 (fun t => (posStage2 (V t) (S t)).1) ∧ ArrDegLE 7 (fun t => (posStage2 (V t) (S t)).2) := by
  have := foldl_range_inv
    (fun r (S : K → Array K × Array K) =>
      ArrDegLE (if r = 0 then 1 else 7) (fun t => (S t).1) ∧ ArrDegLE 7 (fun t => (S t).2))
    halfNFullRounds
    (fun t (acc : Array K × Array K) r =>
      let x := if r ≠ 0 then
          @posCheckSboxIn K (FOps.ofField K) _ (@constantLayer K (FOps.ofField K) acc.1 r) acc.2
            (fun i => (V t).wires[posWireFullSbox0 r i]!)
        else (@constantLayer K (FOps.ofField K) acc.1 r, acc.2)
      (@mdsLayer K (FOps.ofField K) _ (@sboxLayer K (FOps.ofField K) x.1), x.2)) S
    (by simpa using hS) ?_
  · have h7 : halfNFullRounds ≠ 0 := by decide
    simp only [h7, if_false] at this
    exact this
  · intro r S hr ⟨h1, h2⟩
    simp only [Nat.succ_ne_zero, if_false]
    by_cases h0 : r = 0
    · subst h0
      simp only [if_true] at h1
      simp only [ne_eq, not_true_eq_false, if_false]
      exact ⟨mdsLayer_degree (sboxLayer_degree (constantLayer_degree h1 0)), h2⟩
    · simp only [h0, if_false] at h1
      simp only [ne_eq, h0, not_false_eq_true, if_true]
      have := posCheckSboxIn_degree (constantLayer_degree h1 r) h2
        (fun t i => (V t).wires[posWireFullSbox0 r i]!) (fun i => hV.wires _)
      exact ⟨mdsLayer_degree (sboxLayer_degree this.1), this.2⟩

theorem posStage3_degree (S : K → Array K × Array K)
    (hS : ArrDegLE 7 (fun t => (S t).1) ∧ ArrDegLE 7 (fun t => (S t).2)) :
    ArrDegLE 7 (fun t => (posStage3 (V t) (S t)).1) ∧ ArrDegLE 7 (fun t => (posStage3 (V t) (S t)).2) := by
  refine foldl_range_inv
    (fun _ (S : K → Array K × Array K) =>
      ArrDegLE 7 (fun t => (S t).1) ∧ ArrDegLE 7 (fun t => (S t).2))
    (nPartialRounds - 1)
    (fun t (acc : Array K × Array K) r =>
      (@mdsPartialLayerFast K (FOps.ofField K) _
        (acc.1.set! 0 (@sboxMonomial K (FOps.ofField K) (V t).wires[posWirePartialSbox r]!
          + ((fastPartialRoundConstants[r]! : ℕ) : K))) r,
       acc.2.push (acc.1[0]! - (V t).wires[posWirePartialSbox r]!)))
    (fun t => (@mdsPartialLayerInit K (FOps.ofField K) _
      (@partialFirstConstantLayer K (FOps.ofField K) (S t).1), (S t).2))
    ⟨mdsPartialLayerInit_degree (partialFirstConstantLayer_degree hS.1), hS.2⟩ ?_
  intro r S hr ⟨h1, h2⟩
  exact ⟨mdsPartialLayerFast_degree
      (h1.set! ((sboxMonomial_degree (hV.wires _)).add (DegLE.const _)) 0) r,
    h2.push ((h1.getElem! 0).sub ((hV.wires _).mono))⟩

theorem posStage4_degree (S : K → Array K × Array K)
    (hS : ArrDegLE 7 (fun t => (S t).1) ∧ ArrDegLE 7 (fun t => (S t).2)) :
    ArrDegLE 7 (fun t => (posStage4 (V t) (S t)).1) ∧ ArrDegLE 7 (fun t => (posStage4 (V t) (S t)).2) :=
  ⟨mdsPartialLayerFast_degree (hS.1.set! (sboxMonomial_degree (hV.wires _)) 0) _,
   hS.2.push ((hS.1.getElem! 0).sub ((hV.wires _).mono))⟩

theorem posStage5_degree (S : K → Array K × Array K)
    (hS : ArrDegLE 7 (fun t => (S t).1) ∧ ArrDegLE 7 (fun t => (S t).2)) :
    ArrDegLE 7 (fun t => (posStage5 (V t) (S t)).1) ∧ ArrDegLE 7 (fun t => (posStage5 (V t) (S t)).2) := by
  refine foldl_range_inv
    (fun _ (S : K → Array K × Array K) =>
      ArrDegLE 7 (fun t => (S t).1) ∧ ArrDegLE 7 (fun t => (S t).2))
    halfNFullRounds
    (fun t (acc : Array K × Array K) r =>
      let x := @posCheckSboxIn K (FOps.ofField K) _
        (@constantLayer K (FOps.ofField K) acc.1 (halfNFullRounds + nPartialRounds + r)) acc.2
        (fun i => (V t).wires[posWireFullSbox1 r i]!)
      (@mdsLayer K (FOps.ofField K) _ (@sboxLayer K (FOps.ofField K) x.1), x.2)) S hS ?_
  intro r S hr ⟨h1, h2⟩
  have := posCheckSboxIn_degree (constantLayer_degree h1 (halfNFullRounds + nPartialRounds + r)) h2
    (fun t i => (V t).wires[posWireFullSbox1 r i]!) (fun i => hV.wires _)
  exact ⟨mdsLayer_degree (sboxLayer_degree this.1), this.2⟩

theorem posStage6_degree (S : K → Array K × Array K)
    (hS : ArrDegLE 7 (fun t => (S t).1) ∧ ArrDegLE 7 (fun t => (S t).2)) :
    ListDegLE 7 (fun t => posStage6 (V t) (S t)) :=
  (ArrDegLE.foldl_push (List.range spongeWidth) (fun t i => (S t).1[i]! - (V t).wires[posWireOutput i]!)
    (fun i => (hS.1.getElem! i).sub ((hV.wires _).mono)) _ hS.2).toList

/-- `PoseidonGate`: every constraint has degree ≤ 7 -/
theorem poseidon_degree_list : ListDegLE 7 (fun t => evalF .poseidon (V t)) := by
  simp only [evalPoseidon_stages]
  exact posStage6_degree V hV _ (posStage5_degree V hV _ (posStage4_degree V hV _
    (posStage3_degree V hV _ (posStage2_degree V hV _ (posStage1_degree V hV)))))

theorem poseidon_degree (i : ℕ) :
    DegLE GateKind.poseidon.degree (fun t => con .poseidon (V t) i) :=
  (poseidon_degree_list V hV).2 i

end Stages

/-! ## coset_interpolation -/

/-- one barycentric pass over `m` points raises the degree of both accumulators by at most `m` -/
theorem partialInterpolate_degree (l : List ℕ) (dom wt : ℕ → ℕ) (val : K → ℕ → Alg K)
    (hval : ∀ k, AlgDegLE 1 (fun t => val t k)) (x : K → Alg K) (hx : AlgDegLE 1 x)
    (a : ℕ) (e p : K → Alg K) (he : AlgDegLE a e) (hp : AlgDegLE a p) :
    AlgDegLE (a + l.length) (fun t => (@partialInterpolate K (FOps.ofField K)
        (l.map fun k => (dom k, val t k, wt k)) (x t) (e t, p t)).1) ∧
    AlgDegLE (a + l.length) (fun t => (@partialInterpolate K (FOps.ofField K)
        (l.map fun k => (dom k, val t k, wt k)) (x t) (e t, p t)).2) := by
  induction l generalizing a e p with
  | nil => exact ⟨he, hp⟩
  | cons k l ih =>
    have hterm : AlgDegLE 1 (fun t => @Alg.sub K (FOps.ofField K) (x t)
        (@Alg.ofK K (FOps.ofField K) ((dom k : ℕ) : K))) :=
      (hx.subm (AlgDegLE.ofK (DegLE.const (d := 0) _))).mono
    have hv : AlgDegLE 1 (fun t => @Alg.smul K (FOps.ofField K) (val t k) ((wt k : ℕ) : K)) :=
      ((hval k).smul (DegLE.const (d := 0) _)).mono
    have := ih (a + 1) _ _ (((he.mul hterm).addm (hv.mul hp)).mono (d' := a + 1)) (hp.mul hterm)
    exact ⟨this.1.mono (by simp only [List.length_cons]; omega),
      this.2.mono (by simp only [List.length_cons]; omega)⟩

/-- the fold over the intermediate chunks, in projection form -/
def cosetFold (bits degree : ℕ) (weights : List ℕ) (v : EvalVars K) : List K × (Alg K × Alg K) :=
  let values : Array (Alg K) :=
    (Array.range (cosetNumPoints bits)).map fun i => @EvalVars.alg K _ v (cosetStartValues + 2 * i)
  let shifted := @EvalVars.alg K _ v (cosetWiresShiftedEvaluationPoint bits degree)
  (List.range (cosetNumIntermediates bits degree)).foldl
    (fun (acc : List K × (Alg K × Alg K)) i =>
      (acc.1 ++ Alg.comps (@Alg.sub K (FOps.ofField K)
            (@EvalVars.alg K _ v (cosetWiresIntermediateEval bits i)) acc.2.1)
          ++ Alg.comps (@Alg.sub K (FOps.ofField K)
            (@EvalVars.alg K _ v (cosetWiresIntermediateProd bits degree i)) acc.2.2),
       @partialInterpolate K (FOps.ofField K)
        (@cosetTriples K _ (twoAdicSubgroup bits).toArray values weights.toArray
          (1 + (degree - 1) * (i + 1)) (min (1 + (degree - 1) * (i + 1) + degree - 1) (cosetNumPoints bits)))
        shifted
        (@EvalVars.alg K _ v (cosetWiresIntermediateEval bits i),
         @EvalVars.alg K _ v (cosetWiresIntermediateProd bits degree i))))
    (Alg.comps (@Alg.sub K (FOps.ofField K) (@EvalVars.alg K _ v (cosetStartEvaluationPoint bits))
        (@Alg.smul K (FOps.ofField K) shifted v.wires[0]!)),
     @partialInterpolate K (FOps.ofField K)
        (@cosetTriples K _ (twoAdicSubgroup bits).toArray values weights.toArray 0 degree) shifted
        (@Alg.zero K (FOps.ofField K), @Alg.one K (FOps.ofField K)))

theorem evalCoset_eq (bits degree : ℕ) (weights : List ℕ) (v : EvalVars K) :
    evalF (.cosetInterpolation bits degree weights) v =
      (cosetFold bits degree weights v).1 ++ Alg.comps (@Alg.sub K (FOps.ofField K)
        (@EvalVars.alg K _ v (cosetStartEvaluationValue bits)) (cosetFold bits degree weights v).2.1) := by
  simp only [evalF, GateKind.evalUnfiltered]
  unfold evalCosetInterpolation
  dsimp only
  rfl


section CosetGate
variable (V : K → EvalVars K) (hV : Line V)
include hV

theorem cosetFold_degree (bits degree : ℕ) (weights : List ℕ) (hd : 2 ≤ degree) :
    ListDegLE degree (fun t => (cosetFold bits degree weights (V t)).1) ∧
    AlgDegLE degree (fun t => (cosetFold bits degree weights (V t)).2.1) ∧
    AlgDegLE degree (fun t => (cosetFold bits degree weights (V t)).2.2) := by
  have hvals : ∀ j : ℕ, AlgDegLE 1 (fun t => ((Array.range (cosetNumPoints bits)).map
      fun i => @EvalVars.alg K _ (V t) (cosetStartValues + 2 * i))[j]!) :=
    AlgDegLE.getElem!_map_range _ (fun t i => @EvalVars.alg K _ (V t) (cosetStartValues + 2 * i))
      (fun i => hV.alg _)
  -- one pass over the points `lo .. hi`
  have hpass : ∀ (lo hi a : ℕ) (e p : K → Alg K), AlgDegLE a e → AlgDegLE a p → a + (hi - lo) ≤ degree →
      AlgDegLE degree (fun t => (@partialInterpolate K (FOps.ofField K)
        (@cosetTriples K _ (twoAdicSubgroup bits).toArray ((Array.range (cosetNumPoints bits)).map
          fun i => @EvalVars.alg K _ (V t) (cosetStartValues + 2 * i)) weights.toArray lo hi)
        (@EvalVars.alg K _ (V t) (cosetWiresShiftedEvaluationPoint bits degree)) (e t, p t)).1) ∧
      AlgDegLE degree (fun t => (@partialInterpolate K (FOps.ofField K)
        (@cosetTriples K _ (twoAdicSubgroup bits).toArray ((Array.range (cosetNumPoints bits)).map
          fun i => @EvalVars.alg K _ (V t) (cosetStartValues + 2 * i)) weights.toArray lo hi)
        (@EvalVars.alg K _ (V t) (cosetWiresShiftedEvaluationPoint bits degree)) (e t, p t)).2) := by
    intro lo hi a e p he hp hle
    have := partialInterpolate_degree (List.range (hi - lo))
      (fun k => (twoAdicSubgroup bits).toArray[lo + k]!) (fun k => weights.toArray[lo + k]!)
      (fun t k => ((Array.range (cosetNumPoints bits)).map
          fun i => @EvalVars.alg K _ (V t) (cosetStartValues + 2 * i))[lo + k]!)
      (fun k => hvals _) _ (hV.alg (cosetWiresShiftedEvaluationPoint bits degree)) a e p he hp
    rw [List.length_range] at this
    exact ⟨this.1.mono hle, this.2.mono hle⟩
  refine foldl_range_inv
    (fun _ (S : K → List K × (Alg K × Alg K)) =>
      ListDegLE degree (fun t => (S t).1) ∧ AlgDegLE degree (fun t => (S t).2.1) ∧
        AlgDegLE degree (fun t => (S t).2.2))
    (cosetNumIntermediates bits degree) _ _ ⟨?_, ?_⟩ ?_
  · exact (ListDegLE.comps ((hV.alg _).subm ((hV.alg _).smul (hV.wires 0)))).mono
  · exact hpass 0 degree 0 _ _ (AlgDegLE.const _) (AlgDegLE.const _) (by omega)
  · intro r S hr ⟨h1, h2, h3⟩
    refine ⟨(h1.append (ListDegLE.comps (((hV.alg _).subm h2).mono (d' := degree)))).append
      (ListDegLE.comps (((hV.alg _).subm h3).mono (d' := degree))), ?_⟩
    exact hpass _ _ 1 _ _ (hV.alg _) (hV.alg _) (by omega)

/-- `CosetInterpolationGate`: every constraint has degree ≤ the gate's `degree` parameter, PROVIDED
`2 ≤ degree` (the constructor `with_max_degree` asserts `max_degree > 1`; the first two constraints
`evaluation_point − shifted·shift` are quadratic whatever the parameter). -/
theorem cosetInterpolation_degree_list (bits degree : ℕ) (weights : List ℕ) (hd : 2 ≤ degree) :
    ListDegLE degree (fun t => evalF (.cosetInterpolation bits degree weights) (V t)) := by
  simp only [evalCoset_eq]
  obtain ⟨h1, h2, _⟩ := cosetFold_degree V hV bits degree weights hd
  exact h1.append (ListDegLE.comps (((hV.alg _).subm h2).mono))

theorem cosetInterpolation_degree (bits degree : ℕ) (weights : List ℕ) (hd : 2 ≤ degree) (i : ℕ) :
    DegLE (GateKind.cosetInterpolation bits degree weights).degree
      (fun t => con (.cosetInterpolation bits degree weights) (V t) i) :=
  (cosetInterpolation_degree_list V hV bits degree weights hd).2 i

end CosetGate

/-! ## all gates at once -/

/-- the parameter side conditions under which the declared degree is an upper bound: `BaseSumGate<B>` needs
`1 ≤ B` (see `baseSum_zero_degree_fails`) and `CosetInterpolationGate` needs `2 ≤ degree` (asserted by its
constructor, see `cosetInterpolation_low_degree_fails`) -/
def DegreeOK : GateKind → Prop
  | .baseSum b _ => 1 ≤ b
  | .cosetInterpolation _ d _ => 2 ≤ d
  | _ => True

/-- T4: along every line of rows, every constraint of every gate is a polynomial function of degree at most
the gate's declared `degree` -/
theorem gate_degree (g : GateKind) (hg : DegreeOK g) (V : K → EvalVars K) (hV : Line V) (i : ℕ) :
    DegLE g.degree (fun t => con g (V t) i) := by
  cases g with
  | arithmetic n => exact arithmetic_degree V hV n i
  | arithmeticExt n => exact arithmeticExt_degree V hV n i
  | mulExt n => exact mulExt_degree V hV n i
  | baseSum b l => exact baseSum_degree V hV b l hg i
  | constant n => exact constant_degree V hV n i
  | cosetInterpolation bits d ws => exact cosetInterpolation_degree V hV bits d ws hg i
  | exponentiation n => exact exponentiation_degree V hV n i
  | lookup n => exact lookup_degree V n i
  | lookupTable n => exact lookupTable_degree V n i
  | noop => exact noop_degree V i
  | poseidon => exact poseidon_degree V hV i
  | poseidonMds => exact poseidonMds_degree V hV i
  | publicInput => exact publicInput_degree V hV i
  | randomAccess b c e => exact randomAccess_degree V hV b c e i
  | reducing n => exact reducing_degree V hV n i
  | reducingExt n => exact reducingExt_degree V hV n i

/-- for `degree = 1` the first constraint of `CosetInterpolationGate` (`evaluation_point₀ − shifted₀·shift`) is
quadratic along the line `shift = shifted₀ = t`: the side condition `2 ≤ degree` is needed -/
theorem cosetInterpolation_low_degree_fails [Infinite K] :
    ∃ V : K → EvalVars K, Line V ∧
      ¬ DegLE (GateKind.cosetInterpolation 0 1 []).degree
        (fun t => con (.cosetInterpolation 0 1 []) (V t) 0) := by
  refine ⟨affineRow #[] #[(0, 1), (0, 0), (0, 0), (0, 0), (0, 0), (0, 0), (0, 0), (0, 1), (0, 0)] #[],
    affineRow_line _ _ _, ?_⟩
  intro h
  have := (DegLE.eval_iff (-(X ^ 2) : Polynomial K)).1 (h.congr fun t => by
    simp [con, evalCoset_eq, cosetFold, cosetNumIntermediates, cosetNumPoints, cosetStartEvaluationPoint,
      cosetWiresShiftedEvaluationPoint, cosetStartIntermediates, cosetStartEvaluationValue, cosetStartValues,
      EvalVars.alg, Alg.comps, Alg.sub, Alg.smul, affineRow]
    ring)
  simp [GateKind.degree] at this

end Deg
end P2.Lemmas.C07
