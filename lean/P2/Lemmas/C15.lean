/-
Helpers for C15: bit reversal arithmetic, Horner evaluation / synthetic division over a field.
-/
import Mathlib.Tactic.Ring
import Mathlib.Tactic.Linarith
import Mathlib.Tactic.LinearCombination
import Mathlib.Algebra.BigOperators.Fin
import Mathlib.Algebra.Field.Defs
import P2.Model.BitRev
import P2.Model.Poly
import P2.Props.C15Gen
namespace P2

/-- the operations record of a Mathlib field -/
@[reducible] def FOps.ofField (K : Type) [Field K] [DecidableEq K] : FOps K where
  zero := 0
  one := 1
  ofNat := Nat.cast
  inv := fun x => x⁻¹

end P2

namespace P2.Lemmas.C15
open P2 P2.BitRev

/-! ## bit reversal -/

theorem bitrev_lt (b i : Nat) : bitrev b i < 2 ^ b := by
  induction b generalizing i with
  | zero => simp [bitrev]
  | succ b ih =>
    have h1 := ih (i / 2)
    have h2 : i % 2 < 2 := Nat.mod_lt _ (by decide)
    have h3 : i % 2 * 2 ^ b ≤ 1 * 2 ^ b := Nat.mul_le_mul_right _ (by omega)
    simp only [bitrev, pow_succ]
    omega

/-- `bitrev b` only looks at the low `b` bits -/
theorem bitrev_mod (b i : Nat) : bitrev b (i % 2 ^ b) = bitrev b i := by
  induction b generalizing i with
  | zero => simp [bitrev]
  | succ b ih =>
    simp only [bitrev]
    have h1 : i % 2 ^ (b + 1) % 2 = i % 2 := by
      rw [pow_succ, Nat.mul_comm]; exact Nat.mod_mul_right_mod i 2 (2 ^ b)
    have h2 : i % 2 ^ (b + 1) / 2 = i / 2 % 2 ^ b := by
      rw [pow_succ, Nat.mul_comm, Nat.mod_mul_right_div_self]
    rw [h1, h2, ih]

/-- full decomposition (holds for every `i`, no range hypothesis needed) -/
theorem bitrev_split' (a b i : Nat) :
    bitrev (a + b) i = bitrev a (i / 2 ^ b) + bitrev b (i % 2 ^ b) * 2 ^ a := by
  induction b generalizing i with
  | zero => simp [bitrev]
  | succ b ih =>
    rw [← Nat.add_assoc, bitrev_mod]
    simp only [bitrev]
    rw [ih (i / 2), bitrev_mod, Nat.div_div_eq_div_mul, ← pow_succ']
    ring

theorem bitrev_one (i : Nat) : bitrev 1 i = i % 2 := by simp [bitrev]

theorem bitrev_zero (i : Nat) : bitrev 0 i = 0 := rfl

theorem bitrev_involutive (b i : Nat) (h : i < 2 ^ b) : bitrev b (bitrev b i) = i := by
  induction b generalizing i with
  | zero => simp [bitrev]; omega
  | succ b ih =>
    have hlt := bitrev_lt b (i / 2)
    have e : bitrev (b + 1) i = i % 2 * 2 ^ b + bitrev b (i / 2) := rfl
    have hi2 : i / 2 < 2 ^ b := by rw [pow_succ] at h; omega
    have hdiv : bitrev (b + 1) i / 2 ^ b = i % 2 := by
      rw [e, Nat.add_comm, Nat.add_mul_div_right _ _ (Nat.two_pow_pos b), Nat.div_eq_of_lt hlt]; simp
    have hmod : bitrev (b + 1) i % 2 ^ b = bitrev b (i / 2) := by
      rw [e, Nat.add_comm, Nat.add_mul_mod_self_right, Nat.mod_eq_of_lt hlt]
    rw [Nat.add_comm b 1, bitrev_split' 1 b, Nat.add_comm 1 b, hdiv, hmod, bitrev_one, ih _ hi2]
    omega


theorem srcLarge_eq_bitrev (nPower : Nat) (h : 6 < nPower) (i : Nat) :
    srcLarge nPower i = bitrev nPower i := by
  have h64 : i % 64 < 64 := Nat.mod_lt _ (by decide)
  have e : nPower = (nPower - 6) + 6 := by omega
  conv_rhs => rw [e, bitrev_split']
  simp only [srcLarge]
  rw [(Props.C15Gen.table_is_bitrev6).2 _ h64]
  rfl

theorem getElem!_map_range {α : Type} [Inhabited α] (n : Nat) (f : Nat → α) (i : Nat) (h : i < n) :
    ((Array.range n).map f)[i]! = f i := by
  simp [h]

theorem map_range_congr {α : Type} (n : Nat) (f g : Nat → α) (h : ∀ i, i < n → f i = g i) :
    (Array.range n).map f = (Array.range n).map g := by
  apply Array.ext
  · simp
  · intro i h1 h2
    simp at h1
    simp [h i h1]

theorem reverseIndexBits_eq_spec {α : Type} [Inhabited α] (arr : Array α) (nPower : Nat)
    (hs : arr.size = 2 ^ nPower) : reverseIndexBits arr nPower = reverseIndexBitsSpec arr nPower := by
  unfold reverseIndexBits reverseIndexBitsSpec
  apply map_range_congr
  intro i hi
  rw [hs] at hi
  split
  · next h => rw [Props.C15Gen.srcSmall_eq_bitrev nPower h i hi]
  · next h => rw [srcLarge_eq_bitrev nPower (by omega) i]


theorem divmod_of_eq (x q B r : Nat) (h : x = q * B + r) (hr : r < B) : x / B = q ∧ x % B = r := by
  subst h
  have hB : 0 < B := by omega
  constructor
  · rw [Nat.add_comm, Nat.add_mul_div_right _ _ hB, Nat.div_eq_of_lt hr]; simp
  · rw [Nat.add_comm, Nat.add_mul_mod_self_right, Nat.mod_eq_of_lt hr]

theorem lt_mul_of_digits (m l P D : Nat) (hm : m < D) (hl : l < P) : m * P + l < P * D := by
  have : (m + 1) * P ≤ D * P := Nat.mul_le_mul_right _ hm
  rw [Nat.mul_comm P D]
  calc m * P + l < m * P + P := by omega
    _ = (m + 1) * P := by ring
    _ ≤ D * P := this

theorem bitrev_small (d m : Nat) (hd : d ≤ 1) (hm : m < 2 ^ d) : bitrev d m = m := by
  obtain rfl | rfl : d = 0 ∨ d = 1 := by omega
  · simp at hm; simp [bitrev, hm]
  · simp at hm; simp [bitrev]; omega

/-- the three-digit form of the chunked map: with `i = h·2^(nc+d) + m·2^nc + l` -/
theorem chunked_core (nc d h m l : Nat) (hm : m < 2 ^ d) (hl : l < 2 ^ nc) (hd : d ≤ 1)
    (lbN : Nat) (hlb : lbN = nc + d + nc) (hnc : lbN / 2 = nc) :
    chunkedMap lbN (h * 2 ^ (nc + d) + m * 2 ^ nc + l) = bitrev lbN (h * 2 ^ (nc + d) + m * 2 ^ nc + l) := by
  have hcs : lbN - nc = nc + d := by omega
  have hdd : nc + d - nc = d := by omega
  unfold chunkedMap
  simp only [hnc, hcs, hdd]
  set P := 2 ^ nc with hP
  set D := 2 ^ d with hD
  have hPD : 2 ^ (nc + d) = P * D := pow_add 2 nc d
  rw [hPD]
  have hPpos : 0 < P := Nat.two_pow_pos nc
  have hDpos : 0 < D := Nat.two_pow_pos d
  have hh' := bitrev_lt nc h
  have hl' := bitrev_lt nc l
  rw [← hP] at hh' hl'
  -- i
  have i1 := divmod_of_eq (h * (P * D) + m * P + l) h (P * D) (m * P + l) (by ring) (lt_mul_of_digits m l P D hm hl)
  have i2 := divmod_of_eq (h * (P * D) + m * P + l) (h * D + m) P l (by ring) hl
  have i3 := divmod_of_eq (h * D + m) h D m rfl hm
  -- x1 = rev1 i
  have a1 := divmod_of_eq (bitrev nc h * (P * D) + (m * P + l)) (bitrev nc h) (P * D) (m * P + l) rfl (lt_mul_of_digits m l P D hm hl)
  have a2 := divmod_of_eq (bitrev nc h * (P * D) + (m * P + l)) (bitrev nc h * D + m) P l (by ring) hl
  have a3 := divmod_of_eq (bitrev nc h * D + m) (bitrev nc h) D m rfl hm
  -- x2 = transpose x1
  have b1 := divmod_of_eq (l * (P * D) + m * P + bitrev nc h) l (P * D) (m * P + bitrev nc h) (by ring) (lt_mul_of_digits m _ P D hm hh')
  rw [i1.1, i1.2, a1.1, a2.2, a2.1, a3.2, b1.1, b1.2]
  -- rhs
  have e : lbN = (nc + d) + nc := hlb
  rw [e, bitrev_split' (nc + d) nc, ← hP, i2.1, i2.2, bitrev_split' nc d, ← hD, i3.1, i3.2,
    bitrev_small d m hd hm, hPD, ← hP]
  ring

theorem chunkedMap_eq_bitrev (lbN i : Nat) : chunkedMap lbN i = bitrev lbN i := by
  obtain ⟨nc, hnc⟩ : ∃ nc, nc = lbN / 2 := ⟨_, rfl⟩
  obtain ⟨d, hd⟩ : ∃ d, d = lbN % 2 := ⟨_, rfl⟩
  have hd1 : d ≤ 1 := by omega
  have hlb : lbN = nc + d + nc := by omega
  have hPD : 2 ^ (nc + d) = 2 ^ nc * 2 ^ d := pow_add 2 nc d
  have hPpos : 0 < 2 ^ nc := Nat.two_pow_pos nc
  have hDpos : 0 < 2 ^ d := Nat.two_pow_pos d
  have key : i = (i / 2 ^ (nc + d)) * 2 ^ (nc + d) + (i % 2 ^ (nc + d) / 2 ^ nc) * 2 ^ nc + i % 2 ^ (nc + d) % 2 ^ nc := by
    have := Nat.div_add_mod' i (2 ^ (nc + d))
    have := Nat.div_add_mod' (i % 2 ^ (nc + d)) (2 ^ nc)
    omega
  rw [key]
  apply chunked_core nc d _ _ _ _ _ hd1 lbN hlb hnc.symm
  · rw [Nat.div_lt_iff_lt_mul (Nat.two_pow_pos _), ← pow_add, Nat.add_comm d nc]
    exact Nat.mod_lt _ (Nat.two_pow_pos _)
  · exact Nat.mod_lt _ (Nat.two_pow_pos _)

/-! ## Horner evaluation and synthetic division over a field -/

section
variable {K : Type} [Field K] [DecidableEq K]

theorem powAux_eq (fuel : Nat) (b : K) (e : Nat) (acc : K) (h : e < fuel) :
    @FOps.powAux K (FOps.ofField K) fuel b e acc = acc * b ^ e := by
  induction fuel generalizing b e acc with
  | zero => omega
  | succ fuel ih =>
    unfold FOps.powAux
    split
    · next h0 => simp [h0]
    · next h0 =>
      rw [ih _ _ _ (by omega)]
      have he : e = 2 * (e / 2) + e % 2 := (Nat.div_add_mod e 2).symm
      split
      · next h1 =>
        conv_rhs => rw [he, h1, pow_add, pow_mul]
        ring
      · next h1 =>
        have : e % 2 = 0 := by omega
        conv_rhs => rw [he, this, pow_add, pow_mul]
        ring

theorem pow_eq (b : K) (e : Nat) : @FOps.pow K (FOps.ofField K) b e = b ^ e := by
  unfold FOps.pow
  rw [powAux_eq _ _ _ _ (by omega)]
  show (1 : K) * b ^ e = b ^ e
  simp

theorem eval_nil (x : K) : @Poly.eval K (FOps.ofField K) [] x = 0 := rfl

theorem eval_cons (a : K) (c : List K) (x : K) :
    @Poly.eval K (FOps.ofField K) (a :: c) x = @Poly.eval K (FOps.ofField K) c x * x + a := rfl

theorem eval_eq_sum_range (c : List K) (x : K) :
    @Poly.eval K (FOps.ofField K) c x = ∑ i ∈ Finset.range c.length, c.getD i 0 * x ^ i := by
  induction c with
  | nil => simp [eval_nil]
  | cons a c ih =>
    rw [eval_cons, ih, List.length_cons, Finset.sum_range_succ', Finset.sum_mul]
    simp [pow_succ, mul_assoc]

theorem eval_eq_sum (c : List K) (x : K) :
    @Poly.eval K (FOps.ofField K) c x = ∑ i : Fin c.length, c[i] * x ^ (i : Nat) := by
  rw [eval_eq_sum_range, ← Fin.sum_univ_eq_sum_range (fun i => c.getD i 0 * x ^ i)]
  apply Finset.sum_congr rfl
  intro i _
  simp

/-- running Horner values, low index first: `synth c z = [p_0(z), p_1(z), …]` with
`p_k = c_k + c_{k+1} X + …` -/
def synth (c : List K) (z : K) : List K :=
  match c with
  | [] => []
  | a :: c => @Poly.eval K (FOps.ofField K) (a :: c) z :: synth c z

theorem divideByLinear_fold (c : List K) (z : K) :
    (c.reverse.foldl (fun (acc : K × List K) ci =>
      let v := acc.1 * z + ci
      (v, acc.2 ++ [v])) ((0 : K), [])) = (@Poly.eval K (FOps.ofField K) c z, (synth c z).reverse) := by
  induction c with
  | nil => rfl
  | cons a c ih =>
    rw [List.reverse_cons, List.foldl_append, ih]
    simp [synth, eval_cons]

theorem divideByLinear_cons (a : K) (c : List K) (z : K) :
    @Poly.divideByLinear K (FOps.ofField K) (a :: c) z = synth c z := by
  unfold Poly.divideByLinear
  have := divideByLinear_fold (a :: c) z
  simp only [] at this ⊢
  erw [this]
  simp [synth]

theorem divideByLinear_nil (z : K) :
    @Poly.divideByLinear K (FOps.ofField K) [] z = [] := rfl

theorem synth_spec (c : List K) (z x : K) :
    @Poly.eval K (FOps.ofField K) c x * x
      = @Poly.eval K (FOps.ofField K) (synth c z) x * (x - z) + @Poly.eval K (FOps.ofField K) c z * z := by
  induction c with
  | nil => simp [synth, eval_nil]
  | cons a c ih =>
    simp only [synth, eval_cons] at ih ⊢
    linear_combination (x) * ih

end

end P2.Lemmas.C15
