/-
Helper lemmas for C09 (c): the Fiat–Shamir transcript of `Stark.getChallenges` as a history of
challenger operations (`Challenger.Op`), so that the C04 theorems (causality, state dependence)
apply to it. Imports `P2.Lemmas.C04` (which depends on Mathlib): write `P2.GL`.
-/
import P2.Lemmas.C04
import P2.Lemmas.StarkTranscript
namespace P2.Lemmas.StarkSchedule
open P2 P2.Stark P2.Challenger P2.Lemmas.C04 P2.Lemmas.C13 P2.Lemmas.StarkTranscript

/-! ### `runFrom` step by step -/

theorem runFrom_nil (s : St) : runFrom Stark.perm s [] = (s, []) := rfl

theorem runFrom_cons (s : St) (op : Op) (ops : List Op) :
    runFrom Stark.perm s (op :: ops) =
      ((runFrom Stark.perm (runFrom Stark.perm s [op]).1 ops).1,
       (runFrom Stark.perm s [op]).2 ++ (runFrom Stark.perm (runFrom Stark.perm s [op]).1 ops).2) :=
  runFrom_append Stark.perm s [op] ops

theorem runFrom_obs (s : St) (xs : List P2.GL) : runFrom Stark.perm s [.obs xs] = (obs s xs, []) := by
  simp [runFrom, stepN, obs]

theorem runFrom_get (s : St) (n : Nat) : runFrom Stark.perm s [.get n] = Stark.getN s n := by
  simp [runFrom, stepN, Stark.getN]

theorem runFrom_cons_obs (s : St) (xs : List P2.GL) (ops : List Op) :
    runFrom Stark.perm s (.obs xs :: ops) = runFrom Stark.perm (obs s xs) ops := by
  rw [runFrom_cons, runFrom_obs]; simp

theorem runFrom_cons_get (s : St) (n : Nat) (ops : List Op) :
    runFrom Stark.perm s (.get n :: ops) =
      ((runFrom Stark.perm (Stark.getN s n).1 ops).1,
       (Stark.getN s n).2 ++ (runFrom Stark.perm (Stark.getN s n).1 ops).2) := by
  rw [runFrom_cons, runFrom_get]

theorem getN_length' (s : St) (n : Nat) : (Stark.getN s n).2.length = n := getN_length _ s n

/-! ### the dummy ζs -/

theorem getExts_fold (l : List Nat) (s : St) (pre : List GL2) :
    (l.foldl (fun (acc : ChSt × List GL2) _ => let (s, x) := getExt acc.1; (s, acc.2 ++ [x])) (s, pre)).1
      = (runFrom Stark.perm s (List.replicate l.length (.get 2))).1 := by
  induction l generalizing s pre with
  | nil => rfl
  | cons x t ih =>
    simp only [List.foldl_cons, List.length_cons, List.replicate_succ]
    rw [runFrom_cons_get, ih]
    rfl

theorem getExts_state (s : St) (k : Nat) :
    (getExts s k).1 = (runFrom Stark.perm s (List.replicate k (.get 2))).1 := by
  unfold getExts
  rw [getExts_fold]; simp

/-- number of extension challenges `get_dummy_polys` draws -/
def dummyZetaCount (a : Air.Air) (p : Stark.Proof) : Nat :=
  let numAux := (p.openings.auxPolys.map (·.length)).getD 0
  let numExtPowers := max 1 (50 / log2Ceil (max 2 (a.degree + 1)) - 1)
  (a.cols * 2 + numAux * 2 + numExtPowers - 1) / numExtPowers

theorem getDummyPolys_state (s : St) (a : Air.Air) (p : Stark.Proof) :
    (getDummyPolys s a.cols ((p.openings.auxPolys.map (·.length)).getD 0) (max 2 (a.degree + 1))).1
      = (runFrom Stark.perm s (List.replicate (dummyZetaCount a p) (.get 2))).1 := by
  rw [← getExts_state]
  unfold getDummyPolys dummyZetaCount
  simp only []
  split <;> rfl

/-! ### the schedule -/

/-- operations of `get_challenges` up to and including ζ′ (`k` dummy ζs) -/
def headOps (c : Config) (p : Stark.Proof) (shared : Option (List (P2.GL × P2.GL))) (ign : Bool) (k : Nat) :
    List Op :=
  [Op.obs c.observed] ++ (if ign then [] else [Op.obs (flattenCap p.traceCap)]) ++
  (match shared with
   | some _ => []
   | none => match p.auxCap with
     | none => []
     | some _ => [Op.get (2 * c.numChallenges)]) ++
  (match p.auxCap with
   | some cap => [Op.obs (flattenCap cap)]
   | none => []) ++
  [Op.get c.numChallenges] ++ List.replicate k (Op.get 2) ++ [Op.get 2]

/-- operations from the dummy constraint evaluations to the openings -/
def tailOps (c : Config) (p : Stark.Proof) (ce : List GL2) : List Op :=
  [Op.obs (flattenExt ce), Op.get c.numChallenges] ++
  (match p.quotientCap with
   | some cap => [Op.obs (flattenCap cap)]
   | none => []) ++
  [Op.get 2, Op.obs (p.openings.toFriOpenings.flatMap flattenExt)]

theorem runFrom_append_state (s : St) (a b : List Op) :
    (runFrom Stark.perm s (a ++ b)).1 = (runFrom Stark.perm (runFrom Stark.perm s a).1 b).1 := by
  rw [runFrom_append]

theorem midState_eq (s : St) (a : Air.Air) (c : Config) (p : Stark.Proof)
    (shared : Option (List (P2.GL × P2.GL))) (ign : Bool) :
    midState s a c p shared ign = (runFrom Stark.perm s (headOps c p shared ign (dummyZetaCount a p))).1 := by
  unfold midState headOps
  simp only [getDummyPolys_state, getExt]
  rw [runFrom_append_state, runFrom_append_state, runFrom_append_state, runFrom_append_state,
    runFrom_append_state, runFrom_append_state]
  simp only [runFrom_get]
  congr 3
  cases ign <;> cases shared <;> cases hq : p.auxCap <;>
    simp [hq, stage1, lookupDraw, obsOpt, runFrom_cons_obs, runFrom_nil, runFrom_get]

theorem tailFrom_eq (s : St) (ce : List GL2) (ls : Option (List (P2.GL × P2.GL))) (c : Config)
    (p : Stark.Proof) (db : Nat) (pad : Option PadParams) :
    tailFrom s ce ls c p db pad =
      ⟨ls, ((runFrom Stark.perm s (tailOps c p ce)).2).take c.numChallenges,
        mkExt (((runFrom Stark.perm s (tailOps c p ce)).2).drop c.numChallenges),
        friChallenges (runFrom Stark.perm s (tailOps c p ce)).1 p.openingProof db c.fri pad⟩ := by
  have hl := getN_length' (obs s (flattenExt ce)) c.numChallenges
  unfold tailFrom tailOps
  cases hq : p.quotientCap <;>
    simp only [obsOpt, getExt, List.cons_append, List.nil_append, runFrom_cons_obs, runFrom_cons_get,
      runFrom_nil, List.append_nil, List.take_left' hl, List.drop_left' hl]

/-- everything a schedule absorbs, in order (`P2.Props.C04.observed`) -/
abbrev observed := P2.Props.C04.observed

theorem observed_replicate_get (k n : Nat) : observed (List.replicate k (Op.get n)) = [] := by
  induction k with
  | zero => rfl
  | succ k ih => simp only [List.replicate_succ, observed, P2.Props.C04.observed]; exact ih

theorem headOps_observed (c : Config) (p : Stark.Proof) (shared : Option (List (P2.GL × P2.GL))) (ign : Bool)
    (k : Nat) :
    observed (headOps c p shared ign k) =
      c.observed ++ (if ign then [] else flattenCap p.traceCap) ++ flattenCap (p.auxCap.getD []) := by
  unfold headOps
  simp only [observed, P2.Props.C04.observed_append, observed_replicate_get]
  cases ign <;> cases shared <;> cases hq : p.auxCap <;>
    simp [P2.Props.C04.observed, flattenCap]

theorem tailOps_observed (c : Config) (p : Stark.Proof) (ce : List GL2) :
    observed (tailOps c p ce) =
      flattenExt ce ++ flattenCap (p.quotientCap.getD []) ++ p.openings.toFriOpenings.flatMap flattenExt := by
  unfold tailOps
  cases hq : p.quotientCap <;> simp [P2.Props.C04.observed, flattenCap]

theorem drawn_append (a b : List Op) : drawn (a ++ b) = drawn a + drawn b := by
  induction a with
  | nil => simp [drawn]
  | cons op t ih => cases op <;> simp [drawn, ih, Nat.add_assoc]

/-! ### the inside of `fri_challenges` (no padding) -/

/-- the operations of `Challenger::fri_challenges`: FRI α; per commit-phase cap: the cap, then its β;
the final polynomial; the PoW witness; the PoW response; the query indices -/
def friOps (fp : Fri.Proof) (numQueries : Nat) : List Op :=
  [Op.get 2] ++ (fp.commitCaps.flatMap fun cap => [Op.obs (flattenCap cap), Op.get 2]) ++
  [Op.obs (flattenExt fp.finalPoly), Op.obs [fp.powWitness], Op.get 1, Op.get numQueries]

/-- it is the PLONK-side `friSchedule` (so `fri_schedule_observes`, `fri_observed_inj` apply) -/
theorem friOps_eq (fp : Fri.Proof) (nq : Nat) : friOps fp nq = Plonk.friSchedule fp nq := rfl

/-- read the FRI challenges off the outputs of `friOps` -/
def friOfOuts (outs : List P2.GL) (nCaps ldeSize : Nat) : Fri.Challenges :=
  ⟨mkExt outs, (List.range nCaps).map (fun i => mkExt (outs.drop (2 + 2 * i))),
    (outs.drop (2 + 2 * nCaps)).getD 0 0, (outs.drop (2 + 2 * nCaps + 1)).map fun x => x.val % ldeSize⟩

theorem mkExt_append (xs ys : List P2.GL) (h : xs.length = 2) : mkExt (xs ++ ys) = mkExt xs := by
  match xs, h with
  | [a, b], _ => rfl

theorem drop_append_two (xs ys : List P2.GL) (h : xs.length = 2) (k : Nat) :
    (xs ++ ys).drop (2 + k) = ys.drop k := by
  rw [← h, ← List.drop_drop, List.drop_left]

theorem capsFold_eq (caps : List (List Merkle.Digest)) (s : St) (pre : List GL2) :
    caps.foldl (fun (acc : ChSt × List GL2) cap =>
      let (s, b) := getExt (obs acc.1 (flattenCap cap)); (s, acc.2 ++ [b])) (s, pre) =
    ((runFrom Stark.perm s (caps.flatMap fun cap => [Op.obs (flattenCap cap), Op.get 2])).1,
      pre ++ (List.range caps.length).map fun i =>
        mkExt ((runFrom Stark.perm s (caps.flatMap fun cap => [Op.obs (flattenCap cap), Op.get 2])).2.drop (2 * i))) := by
  induction caps generalizing s pre with
  | nil => simp [runFrom_nil]
  | cons cap t ih =>
    have hl := getN_length' (obs s (flattenCap cap)) 2
    simp only [List.foldl_cons, List.flatMap_cons, List.cons_append, List.nil_append, runFrom_cons_obs,
      runFrom_cons_get, List.length_cons, List.range_succ_eq_map, List.map_cons, List.map_map]
    rw [ih]
    simp only [getExt, List.append_assoc, List.cons_append, List.nil_append, Nat.mul_zero, List.drop_zero,
      mkExt_append _ _ hl]
    congr 3

theorem drawn_capsOps (caps : List (List Merkle.Digest)) :
    drawn (caps.flatMap fun cap => [Op.obs (flattenCap cap), Op.get 2]) = 2 * caps.length := by
  induction caps with
  | nil => rfl
  | cons cap t ih => simp only [List.flatMap_cons, List.cons_append, List.nil_append, drawn, ih, List.length_cons]; omega

theorem mkExt_drop_append (R rest : List P2.GL) (k : Nat) (h : k + 2 ≤ R.length) :
    mkExt ((R ++ rest).drop k) = mkExt (R.drop k) := by
  unfold mkExt
  simp only [List.getD_eq_getElem?_getD, List.getElem?_drop]
  rw [List.getElem?_append_left (by omega), List.getElem?_append_left (by omega)]

theorem friOfOuts_append (X R P Q : List P2.GL) (n lde : Nat) (hX : X.length = 2) (hR : R.length = 2 * n)
    (hP : P.length = 1) :
    friOfOuts (X ++ (R ++ (P ++ Q))) n lde =
      ⟨mkExt X, (List.range n).map (fun i => mkExt (R.drop (2 * i))), P.getD 0 0,
        Q.map fun x => x.val % lde⟩ := by
  unfold friOfOuts
  congr 1
  · exact mkExt_append _ _ hX
  · apply List.map_congr_left
    intro i hi
    rw [List.mem_range] at hi
    rw [drop_append_two _ _ hX, mkExt_drop_append _ _ _ (by omega)]
  · rw [drop_append_two _ _ hX, List.drop_left' hR]
    match P, hP with
    | [p], _ => rfl
  · rw [show 2 + 2 * n + 1 = 2 + (2 * n + 1) by omega, drop_append_two _ _ hX, ← List.drop_drop,
      List.drop_left' hR]
    match P, hP with
    | [p], _ => rfl

/-- **`fri_challenges` as a history**: every FRI challenge is read off the outputs of `friOps` run
from the challenger state reached after the openings -/
theorem friChallenges_eq (s : St) (fp : Fri.Proof) (db : Nat) (cfg : Fri.FriConfig) :
    friChallenges s fp db cfg none =
      friOfOuts (runFrom Stark.perm s (friOps fp cfg.numQueryRounds)).2 fp.commitCaps.length
        (2 ^ ((db + cfg.rateBits) % 64)) := by
  have h2 := getN_length' s 2
  have hR := runFrom_length Stark.perm (Stark.getN s 2).1
    (fp.commitCaps.flatMap fun cap => [Op.obs (flattenCap cap), Op.get 2])
  rw [drawn_capsOps] at hR
  unfold friChallenges friOps
  simp only [capsFold_eq]
  simp only [getExt, List.nil_append, List.cons_append, runFrom_cons_get]
  rw [runFrom_append]
  simp only [runFrom_cons_obs, runFrom_cons_get, runFrom_nil, List.append_nil]
  rw [friOfOuts_append _ _ _ _ _ _ h2 hR (getN_length' _ 1)]

end P2.Lemmas.StarkSchedule
