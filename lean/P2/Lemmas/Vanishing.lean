/-
Helper lemmas for C02c (the glue between the PLONK vanishing-polynomial algebra and the model
function `Plonk.evalVanishingPoly`): the gate-constraint accumulation fold, term counts, output
lengths of the Fiat–Shamir schedule, and `identityHolds` without its list plumbing. Core Lean only.
-/
import P2.Model.Plonk
namespace P2.Lemmas.Vanishing
open P2 P2.Plonk P2.Gates P2.Merkle P2.Challenger

/-! ### gate-constraint accumulation -/

theorem set!_get!_ne (a : Array GL2) (k j : Nat) (v : GL2) (h : k ≠ j) :
    (a.set! k v)[j]! = a[j]! := by
  simp [Array.getElem!_eq_getD, Array.getD_eq_getD_getElem?, h]

theorem set!_get!_eq (a : Array GL2) (k : Nat) (v : GL2) (h : k < a.size) :
    (a.set! k v)[k]! = v := by
  simp [h]

/-- the scalar accumulation step at constraint index `j` -/
def addAt (filter : GL2) (cs : List GL2) (j : Nat) (s : GL2) : GL2 :=
  match cs[j]? with
  | some cv => s + filter * cv
  | none => s

theorem inner_spec (filter : GL2) (cs : List GL2) : ∀ (k : Nat) (a : Array GL2),
    ((cs.zipIdx k).foldl (fun (a : Array GL2) (cv, j) =>
        if j < a.size then a.set! j (a[j]! + filter * cv) else a) a).size = a.size ∧
    ∀ j, j < a.size →
      ((cs.zipIdx k).foldl (fun (a : Array GL2) (cv, j) =>
        if j < a.size then a.set! j (a[j]! + filter * cv) else a) a)[j]! =
      if k ≤ j then addAt filter cs (j - k) a[j]! else a[j]! := by
  induction cs with
  | nil =>
    intro k a
    refine ⟨rfl, fun j _ => ?_⟩
    simp [addAt]
  | cons cv t ih =>
    intro k a
    simp only [List.zipIdx_cons, List.foldl_cons]
    by_cases hk : k < a.size
    · simp only [hk, if_true]
      obtain ⟨h1, h2⟩ := ih (k + 1) (a.set! k (a[k]! + filter * cv))
      refine ⟨by rw [h1]; simp, fun j hj => ?_⟩
      rw [h2 j (by simpa using hj)]
      by_cases hjk : k = j
      · subst hjk
        have : ¬ k + 1 ≤ k := by omega
        simp only [this, if_false, Nat.le_refl, if_true, Nat.sub_self, addAt, List.getElem?_cons_zero]
        exact set!_get!_eq _ _ _ hk
      · rw [set!_get!_ne _ _ _ _ hjk]
        by_cases hlt : k + 1 ≤ j
        · have hkj : k ≤ j := by omega
          have : j - k = (j - (k + 1)) + 1 := by omega
          simp only [hlt, hkj, if_true, addAt, this, List.getElem?_cons_succ]
        · have hkj : ¬ k ≤ j := by omega
          simp only [hlt, hkj, if_false]
    · simp only [hk, if_false]
      obtain ⟨h1, h2⟩ := ih (k + 1) a
      refine ⟨h1, fun j hj => ?_⟩
      rw [h2 j hj]
      have : ¬ k + 1 ≤ j := by omega
      have : ¬ k ≤ j := by omega
      simp [*]

/-- one gate's contribution -/
def gateStep (c : CommonData) (constants : List GL2) (vars : EvalVars GL2) :
    Array GL2 → GateKind × Nat → Array GL2 :=
  fun (acc : Array GL2) (g, i) =>
    let selIdx := c.selectorIndices.getD i 0
    let filter := computeFilter i (c.groups.getD selIdx (0, 0)) (constants.getD selIdx FOps.zero) (c.numSelectors > 1)
    let cs := g.evalUnfiltered vars
    (cs.zipIdx).foldl (fun a (cv, j) => if j < a.size then a.set! j (a[j]! + filter * cv) else a) acc

/-- the filter of the gate at index `i` -/
def gateFilter (c : CommonData) (constants : List GL2) (i : Nat) : GL2 :=
  computeFilter i (c.groups.getD (c.selectorIndices.getD i 0) (0, 0))
    (constants.getD (c.selectorIndices.getD i 0) FOps.zero) (c.numSelectors > 1)

theorem gateStep_spec (c : CommonData) (constants : List GL2) (vars : EvalVars GL2)
    (a : Array GL2) (g : GateKind) (i : Nat) :
    (gateStep c constants vars a (g, i)).size = a.size ∧
    ∀ j, j < a.size → (gateStep c constants vars a (g, i))[j]! =
      addAt (gateFilter c constants i) (g.evalUnfiltered vars) j a[j]! := by
  have := inner_spec (gateFilter c constants i) (g.evalUnfiltered vars) 0 a
  refine ⟨this.1, fun j hj => ?_⟩
  have h := this.2 j hj
  simp only [Nat.zero_le, if_true, Nat.sub_zero] at h
  exact h

theorem gateFold_spec (c : CommonData) (constants : List GL2) (vars : EvalVars GL2)
    (l : List (GateKind × Nat)) : ∀ (a : Array GL2),
    (l.foldl (gateStep c constants vars) a).size = a.size ∧
    ∀ j, j < a.size → (l.foldl (gateStep c constants vars) a)[j]! =
      l.foldl (fun s (gi : GateKind × Nat) =>
        addAt (gateFilter c constants gi.2) (gi.1.evalUnfiltered vars) j s) a[j]! := by
  induction l with
  | nil => intro a; exact ⟨rfl, fun _ _ => rfl⟩
  | cons gi t ih =>
    intro a
    obtain ⟨g, i⟩ := gi
    have hs := gateStep_spec c constants vars a g i
    obtain ⟨h1, h2⟩ := ih (gateStep c constants vars a (g, i))
    simp only [List.foldl_cons]
    refine ⟨h1.trans hs.1, fun j hj => ?_⟩
    rw [h2 j (by rw [hs.1]; exact hj), hs.2 j hj]

/-- the variables every gate is evaluated on -/
def gateVars (c : CommonData) (constants wires : List GL2) (pih : Digest) : EvalVars GL2 :=
  ⟨(constants.drop (c.numSelectors + c.numLookupSelectors)).toArray, wires.toArray,
    (pih.map GL2.ofBase).toArray⟩

theorem evaluateGateConstraints_eq (c : CommonData) (constants wires : List GL2) (pih : Digest) :
    evaluateGateConstraints c constants wires pih =
      ((c.gates.zipIdx).foldl (gateStep c constants (gateVars c constants wires pih))
        (Array.replicate c.numGateConstraints FOps.zero)).toList := rfl

theorem evaluateGateConstraints_length (c : CommonData) (constants wires : List GL2) (pih : Digest) :
    (evaluateGateConstraints c constants wires pih).length = c.numGateConstraints := by
  rw [evaluateGateConstraints_eq, Array.length_toList, (gateFold_spec _ _ _ _ _).1, Array.size_replicate]

theorem evaluateGateConstraints_getElem? (c : CommonData) (constants wires : List GL2) (pih : Digest)
    (j : Nat) (hj : j < c.numGateConstraints) :
    (evaluateGateConstraints c constants wires pih)[j]? =
      some ((c.gates.zipIdx).foldl (fun s (gi : GateKind × Nat) =>
        addAt (gateFilter c constants gi.2)
          (gi.1.evalUnfiltered (gateVars c constants wires pih)) j s) FOps.zero) := by
  have hsz := (gateFold_spec c constants (gateVars c constants wires pih) c.gates.zipIdx
    (Array.replicate c.numGateConstraints FOps.zero))
  have h := hsz.2 j (by simpa using hj)
  rw [evaluateGateConstraints_eq, Array.getElem?_toList]
  have hlt : j < ((c.gates.zipIdx).foldl (gateStep c constants (gateVars c constants wires pih))
        (Array.replicate c.numGateConstraints FOps.zero)).size := by rw [hsz.1]; simpa using hj
  rw [Array.getElem?_eq_getElem hlt]
  have h0 : (Array.replicate c.numGateConstraints (FOps.zero : GL2))[j]! = FOps.zero := by
    simp [hj]
  rw [h0, getElem!_pos _ j hlt] at h
  rw [h]


/-! ### term counts -/

theorem length_flatMap_const {α β : Type} (l : List α) (f : α → List β) (k : Nat)
    (h : ∀ a ∈ l, (f a).length = k) : (l.flatMap f).length = l.length * k := by
  induction l with
  | nil => simp
  | cons a t ih =>
    simp only [List.flatMap_cons, List.length_append, List.length_cons]
    rw [h a (by simp), ih (fun b hb => h b (by simp [hb])), Nat.add_mul, Nat.one_mul, Nat.add_comm]

theorem chunksOf_length' {α : Type} (n : Nat) (xs : List α) :
    (Plonk.chunksOf n xs).length = if n = 0 then 0 else (xs.length + n - 1) / n := by
  unfold Plonk.chunksOf PlonkAlg.chunksOf
  by_cases h : n = 0 <;> simp [h]

/-- number of partial-product check terms: one per chunk of `maxDegree` numerators -/
theorem checkPartialProducts_length (nums dens partials : List GL2) (zx zgx : GL2) (d : Nat) :
    (checkPartialProducts nums dens partials zx zgx d).length =
      if d = 0 then 0 else (nums.length + d - 1) / d := by
  unfold checkPartialProducts PlonkAlg.checkPartialProducts
  simp only [List.length_map, List.length_range]
  exact chunksOf_length' d nums

theorem checkLookupConstraints_length (c : CommonData) (wires localZs nextZs sels : List GL2)
    (deltas : List GL) :
    (checkLookupConstraints c wires localZs nextZs sels deltas).length =
      4 + (c.numLookupSelectors - 4) + 2 * (localZs.length - 1) := by
  unfold checkLookupConstraints
  simp only [List.length_append, List.length_cons, List.length_nil, List.length_map, List.length_range]
  rw [length_flatMap_const _ _ 2 (fun _ _ => rfl), List.length_range]
  omega


/-! ### Fiat–Shamir output lengths -/

theorem getN_length (p : Sponge.Perm) (s : St) (n : Nat) : (getN p s n).2.length = n := by
  unfold getN
  have key : ∀ (l : List Nat) (acc : St × List GL),
      (l.foldl (fun (acc : St × List GL) _ =>
        let (s', c) := getChallenge p acc.1
        (s', acc.2 ++ [c])) acc).2.length = acc.2.length + l.length := by
    intro l
    induction l with
    | nil => intro acc; rfl
    | cons a t ih =>
      intro acc
      simp only [List.foldl_cons, List.length_cons]
      rw [ih]
      simp only [List.length_append, List.length_cons, List.length_nil]
      omega
  rw [key]
  simp

/-- number of challenges an operation squeezes -/
def opCount : Op → Nat
  | .obs _ => 0
  | .get n => n

theorem run_length (p : Sponge.Perm) (ops : List Op) :
    (run p ops).length = (ops.map opCount).sum := by
  unfold run
  have key : ∀ (l : List Op) (acc : St × List GL),
      (l.foldl (fun (acc : St × List GL) op =>
        match op with
        | .obs xs => (observeMany p acc.1 xs, acc.2)
        | .get n => let (s, cs) := getN p acc.1 n; (s, acc.2 ++ cs)) acc).2.length =
        acc.2.length + (l.map opCount).sum := by
    intro l
    induction l with
    | nil => intro acc; simp
    | cons a t ih =>
      intro acc
      simp only [List.foldl_cons, List.map_cons, List.sum_cons]
      rw [ih]
      cases a with
      | obs xs => simp [opCount]
      | get n =>
        simp only [opCount, List.length_append, getN_length]
        omega
  refine (key ops (init p, [])).trans ?_
  simp

theorem caps_count (caps : List (List Digest)) :
    ((caps.flatMap fun cap => [Op.obs (flattenCap cap), Op.get 2]).map opCount).sum = 2 * caps.length := by
  induction caps with
  | nil => rfl
  | cons a t ih =>
    simp only [List.flatMap_cons, List.map_append, List.sum_append, ih, List.length_cons]
    simp [opCount]
    omega

theorem sum_replicate_two (k : Nat) : (List.replicate k 2).sum = 2 * k := by
  induction k with
  | zero => rfl
  | succ k ih => simp [List.replicate_succ, ih]; omega

theorem getChallenges_alphas_length (c : CommonData) (pih circuitDigest : Digest) (p : Proof) :
    (getChallenges c pih circuitDigest p).alphas.length = c.config.numChallenges := by
  unfold getChallenges
  by_cases hl : c.numLookupPolys = 0
  · simp only [hl, ne_eq, not_true_eq_false, if_false, List.append_nil, List.cons_append, List.nil_append, splitBy,
      List.getD_cons_succ, List.getD_cons_zero, List.length_take, List.length_drop, run_length, plonkSchedule,
      friSchedule, List.map_append, List.map_cons, List.sum_append, List.sum_cons, caps_count, opCount,
      List.map_nil, List.sum_nil]
    omega
  · simp only [hl, ne_eq, not_false_eq_true, if_true, List.cons_append, List.nil_append, splitBy,
      List.getD_cons_succ, List.getD_cons_zero, List.length_take, List.length_drop, run_length, plonkSchedule,
      friSchedule, List.map_append, List.map_cons, List.sum_append, List.sum_cons, caps_count, opCount,
      List.map_nil, List.sum_nil]
    omega

/-! ### the quotient identity -/

theorem GL2.eq_of_beq (v w : GL2) (h : (v == w) = true) : v = w := by
  have h' : (v.a == w.a && v.b == w.b) = true := h
  simp only [Bool.and_eq_true, beq_iff_eq] at h'
  cases v; cases w; simp_all

theorem GL2.beq_iff (v w : GL2) : (v == w) = true ↔ v = w := by
  refine ⟨GL2.eq_of_beq v w, fun h => ?_⟩
  subst h
  show (v.a == v.a && v.b == v.b) = true
  simp

theorem all_zipIdx_iff {α : Type} (l : List α) (f : α × Nat → Bool) :
    (l.zipIdx).all f = true ↔ ∀ i (h : i < l.length), f (l[i], i) = true := by
  rw [List.all_eq_true]
  constructor
  · intro H i h
    apply H
    rw [List.mem_zipIdx_iff_getElem?]
    simp [h]
  · intro H x hx
    rw [List.mem_zipIdx_iff_getElem?] at hx
    obtain ⟨h, hx'⟩ := List.getElem?_eq_some_iff.1 hx
    have := H x.2 h
    rw [hx'] at this
    exact this

theorem chunksOf_getElem {α : Type} (n : Nat) (xs : List α) (i : Nat)
    (h : i < (Plonk.chunksOf n xs).length) :
    (Plonk.chunksOf n xs)[i] = (xs.drop (i * n)).take n := by
  unfold Plonk.chunksOf PlonkAlg.chunksOf at h ⊢
  by_cases hn : n = 0
  · simp [hn] at h
  · simp [hn]

theorem chunksOf_length_exact {α : Type} (n k : Nat) (xs : List α) (hn : 0 < n)
    (hl : xs.length = k * n) : (Plonk.chunksOf n xs).length = k := by
  unfold Plonk.chunksOf PlonkAlg.chunksOf
  have : n ≠ 0 := by omega
  simp only [this, if_false, List.length_map, List.length_range, hl]
  rw [Nat.add_sub_assoc hn, Nat.add_comm, Nat.add_mul_div_right _ _ hn, Nat.div_eq_of_lt (by omega)]
  omega

/-- `identityHolds`, with the `all`/`zipIdx`/`match` plumbing removed -/
theorem identityHolds_iff (c : CommonData) (p : Proof) (pih : Digest) (ch : Challenges) :
    identityHolds c p pih ch = true ↔
      ∀ i (h : i < (Plonk.chunksOf c.quotientDegreeFactor p.openings.quotientPolys).length),
        ∃ v, (evalVanishingPoly c ch.zeta p.openings pih ch)[i]? = some v ∧
          v = (FOps.pow ch.zeta (2 ^ c.degreeBits) - FOps.one) *
            Fri.reduceExt ((Plonk.chunksOf c.quotientDegreeFactor p.openings.quotientPolys)[i])
              (FOps.pow ch.zeta (2 ^ c.degreeBits)) := by
  unfold identityHolds
  simp only []
  rw [all_zipIdx_iff]
  constructor
  · intro H i h
    have := H i h
    simp only [] at this
    cases hv : (evalVanishingPoly c ch.zeta p.openings pih ch)[i]? with
    | none => rw [hv] at this; simp at this
    | some v =>
      rw [hv] at this
      exact ⟨v, rfl, GL2.eq_of_beq _ _ this⟩
  · intro H i h
    obtain ⟨v, hv, he⟩ := H i h
    simp only [hv]
    exact (GL2.beq_iff _ _).2 he


/-! ### selector semantics of the gate fold -/

theorem GL2.add_zero_mul (s cv : GL2) : s + (FOps.zero : GL2) * cv = s := by
  show GL2.add s (GL2.mul GL2.zero cv) = s
  cases s with | mk sa sb =>
  cases cv with | mk ca cb =>
  simp only [GL2.add, GL2.mul, GL2.zero]
  rw [Fin.zero_mul ca, Fin.zero_mul cb, Fin.mul_zero, Fin.add_zero, Fin.add_zero, Fin.add_zero]

theorem GL2.zero_add' (x : GL2) : (FOps.zero : GL2) + x = x := by
  show GL2.add GL2.zero x = x
  cases x with | mk a b =>
  simp only [GL2.add, GL2.zero]
  rw [Fin.zero_add, Fin.zero_add]

theorem addAt_zero (cs : List GL2) (j : Nat) (s : GL2) : addAt FOps.zero cs j s = s := by
  unfold addAt
  cases cs[j]? with
  | none => rfl
  | some cv => exact GL2.add_zero_mul s cv

theorem foldl_addAt_inactive (f : Nat → GL2) (vars : EvalVars GL2) (j : Nat)
    (l : List (GateKind × Nat)) (h : ∀ gi ∈ l, f gi.2 = FOps.zero) (s : GL2) :
    l.foldl (fun s (gi : GateKind × Nat) => addAt (f gi.2) (gi.1.evalUnfiltered vars) j s) s = s := by
  induction l generalizing s with
  | nil => rfl
  | cons gi t ih =>
    simp only [List.foldl_cons]
    rw [h gi (by simp), addAt_zero]
    exact ih (fun g hg => h g (by simp [hg])) s

/-- selector semantics: when every gate but `i0` has filter zero, the fold is gate `i0`'s term -/
theorem foldl_addAt_single (f : Nat → GL2) (vars : EvalVars GL2) (j : Nat)
    (gates : List GateKind) (i0 : Nat) (g : GateKind) (hg : gates[i0]? = some g)
    (h0 : ∀ i, i < gates.length → i ≠ i0 → f i = FOps.zero) :
    (gates.zipIdx).foldl (fun s (gi : GateKind × Nat) =>
      addAt (f gi.2) (gi.1.evalUnfiltered vars) j s) FOps.zero =
    match (g.evalUnfiltered vars)[j]? with
    | some cv => f i0 * cv
    | none => FOps.zero := by
  obtain ⟨hlt, hgi⟩ := List.getElem?_eq_some_iff.1 hg
  have hsplit : gates = gates.take i0 ++ g :: gates.drop (i0 + 1) := by
    rw [← hgi, ← List.drop_eq_getElem_cons hlt, List.take_append_drop]
  have hlen : (gates.take i0).length = i0 := by rw [List.length_take]; omega
  have hpre : ∀ gi ∈ (gates.take i0).zipIdx 0, f gi.2 = FOps.zero := by
    intro gi hgi'
    rw [List.mem_zipIdx_iff_le_and_getElem?_sub] at hgi'
    have h2 := (List.getElem?_eq_some_iff.1 hgi'.2).1
    rw [hlen] at h2
    exact h0 gi.2 (by omega) (by omega)
  have hpost : ∀ gi ∈ (gates.drop (i0 + 1)).zipIdx (0 + i0 + 1), f gi.2 = FOps.zero := by
    intro gi hgi'
    rw [List.mem_zipIdx_iff_le_and_getElem?_sub] at hgi'
    have h1 := hgi'.1
    have h2 := (List.getElem?_eq_some_iff.1 hgi'.2).1
    rw [List.length_drop] at h2
    exact h0 gi.2 (by omega) (by omega)
  rw [hsplit, List.zipIdx_append, List.zipIdx_cons, List.foldl_append, List.foldl_cons, hlen]
  rw [foldl_addAt_inactive f vars j _ hpre, foldl_addAt_inactive f vars j _ hpost]
  simp only [Nat.zero_add]
  unfold addAt
  cases (g.evalUnfiltered vars)[j]? with
  | none => rfl
  | some cv => exact GL2.zero_add' _
end P2.Lemmas.Vanishing
