/-
Helper lemmas for C09/C10 (STARK verifier model): verdict lists, shape validation as a proposition.
Core Lean only.
-/
import P2.Model.Stark
namespace P2.Lemmas.Stark
open P2 P2.Air P2.Stark
open P2.Fri (Verdict firstBad)

theorem firstBad_accept_iff (vs : List Verdict) : firstBad vs = .accept ↔ ∀ v ∈ vs, v = .accept := by
  induction vs with
  | nil => simp [firstBad]
  | cons w ws ih =>
    cases w with
    | accept => simp [firstBad, ih]
    | reject s => simp [firstBad]
    | panic s => simp [firstBad]

theorem ensure_accept_iff (b : Bool) : ensure b = .accept ↔ b = true := by
  cases b <;> simp [ensure]

theorem firstBad_ensure_no_panic (vs : List Verdict) (h : ∀ v ∈ vs, ∀ s, v ≠ .panic s) (s : String) :
    firstBad vs ≠ .panic s := by
  induction vs with
  | nil => simp [firstBad]
  | cons w ws ih =>
    cases w with
    | accept => simp only [firstBad]; exact ih fun v hv => h v (List.mem_cons_of_mem _ hv)
    | reject t => simp [firstBad]
    | panic t => exact absurd rfl (h _ List.mem_cons_self t)

/-- what `check_lookup_options` establishes -/
def AuxOK (a : Air) (c : Config) (p : Proof) (nlc nh nz : Nat) : Prop :=
  if (a.usesLookups || a.requiresCtls) = true then
    ∃ cap aux auxNext, p.auxCap = some cap ∧ p.openings.auxPolys = some aux ∧
      p.openings.auxPolysNext = some auxNext ∧ cap.length = 2 ^ c.fri.capHeight ∧
      aux.length = nlc + nh + nz ∧ auxNext.length = nlc + nh + nz ∧
      ∀ zs, p.openings.ctlZsFirst = some zs → zs.length = nz
  else p.auxCap = none ∧ p.openings.auxPolys = none ∧ p.openings.auxPolysNext = none

theorem checkLookupOptions_accept_iff (a : Air) (c : Config) (p : Proof) (nlc nh nz : Nat) :
    (∀ v ∈ checkLookupOptions a c p nlc nh nz, v = .accept) ↔ AuxOK a c p nlc nh nz := by
  unfold checkLookupOptions AuxOK
  by_cases hu : (a.usesLookups || a.requiresCtls) = true
  · simp only [hu, if_true]
    cases h1 : p.auxCap <;> cases h2 : p.openings.auxPolys <;> cases h3 : p.openings.auxPolysNext <;>
      simp only [List.mem_singleton, forall_eq, reduceCtorEq, false_and, exists_false, and_false]
    rename_i cap aux auxNext
    cases h4 : p.openings.ctlZsFirst
    · simp [ensure_accept_iff]
    · simp only [List.mem_cons, List.not_mem_nil, or_false, forall_eq_or_imp, forall_eq,
        ensure_accept_iff, beq_iff_eq, Option.some.injEq, exists_and_left, exists_eq_left']
      constructor
      · rintro ⟨h, h5, h6, h7⟩; exact ⟨h5, h6, h7, fun zs e => e ▸ h⟩
      · rintro ⟨h5, h6, h7, h⟩; exact ⟨h _ rfl, h5, h6, h7⟩
  · simp only [hu, if_false, Bool.false_eq_true]
    simp [ensure_accept_iff]

/-- everything `validate_proof_shape` establishes (`nlc` = `num_lookup_helper_columns`) -/
def ShapeOK (a : Air) (c : Config) (pp : ProofWithPis) (db nh nz : Nat) : Prop :=
  pp.publicInputs.length = a.pis ∧
  (∃ fp, c.friParams db = some fp) ∧
  ∃ nlc, numLookupHelperColumns a c = some nlc ∧
    pp.proof.traceCap.length = 2 ^ c.fri.capHeight ∧
    pp.proof.quotientCap.isSome = decide (0 < numQuotientPolys a c) ∧
    (∀ q, pp.proof.quotientCap = some q → q.length = 2 ^ c.fri.capHeight) ∧
    pp.proof.openings.ctlZsFirst.isSome = a.requiresCtls ∧
    pp.proof.openings.localValues.length = a.cols ∧
    pp.proof.openings.nextValues.length = a.cols ∧
    (pp.proof.openings.quotientPolys.getD []).length = numQuotientPolys a c ∧
    AuxOK a c pp.proof nlc nh nz

theorem quotientCap_check_iff (a : Air) (c : Config) (qc : Option (List Merkle.Digest)) :
    (match qc with
      | none => if quotientCapMustMatch then ensure (numQuotientPolys a c == 0) else .accept
      | some q =>
        if quotientCapMustMatch && numQuotientPolys a c == 0 then .reject "shape"
        else ensure (q.length == 2 ^ c.fri.capHeight)) = Verdict.accept ↔
    (qc.isSome = decide (0 < numQuotientPolys a c) ∧ ∀ q, qc = some q → q.length = 2 ^ c.fri.capHeight) := by
  cases qc with
  | none => simp [quotientCapMustMatch, ensure_accept_iff]
  | some q =>
    by_cases hn : numQuotientPolys a c = 0
    · simp [quotientCapMustMatch, hn]
    · simp [quotientCapMustMatch, hn, ensure_accept_iff]; omega

theorem quotientPolys_check_iff (a : Air) (c : Config) (qp : Option (List GL2)) :
    (match qp with
      | some q => ensure (q.length == numQuotientPolys a c)
      | none => ensure (numQuotientPolys a c == 0)) = Verdict.accept ↔
    (qp.getD []).length = numQuotientPolys a c := by
  cases qp with
  | none => simp [ensure_accept_iff]; omega
  | some q => simp [ensure_accept_iff]

theorem validateShape_accept_iff (a : Air) (c : Config) (pp : ProofWithPis) (db nh nz : Nat) :
    validateShape a c pp db nh nz = .accept ↔ ShapeOK a c pp db nh nz := by
  unfold validateShape ShapeOK
  by_cases hp : pp.publicInputs.length = a.pis
  · simp only [hp, ne_eq, not_true_eq_false, if_false, true_and]
    cases hf : c.friParams db with
    | none => simp
    | some fp =>
      cases hl : numLookupHelperColumns a c with
      | none => simp
      | some nlc =>
        simp only [firstBad_accept_iff, List.mem_append, List.mem_cons, List.not_mem_nil, or_false,
          or_imp, forall_and, forall_eq, checkLookupOptions_accept_iff,
          ensure_accept_iff, ctlZsFirstMustMatch, if_true, beq_iff_eq,
          Option.some.injEq, exists_eq_left', exists_eq', true_and, and_assoc]
        constructor
        · rintro ⟨h1, h2, h3, h4, h5, h6, h7⟩
          have h2' := (quotientCap_check_iff a c _).1 h2
          exact ⟨h1, h2'.1, h2'.2, h3, h4, h5, (quotientPolys_check_iff a c _).1 h6, h7⟩
        · rintro ⟨h1, h2, h2', h3, h4, h5, h6, h7⟩
          exact ⟨h1, (quotientCap_check_iff a c _).2 ⟨h2, h2'⟩, h3, h4, h5,
            (quotientPolys_check_iff a c _).2 h6, h7⟩
  · simp [hp]

end P2.Lemmas.Stark
