/-
Helper lemmas for C09/C10 (STARK verifier model): verdict lists, shape validation as a proposition.
Core Lean only.
-/
import P2.Model.Stark
namespace P2.Lemmas.Stark
open P2 P2.Air P2.Stark
open P2.Fri (Verdict firstBad)

theorem firstBad_accept_iff (vs : List Verdict) : firstBad vs = .accept ↔ ∀ v ∈ vs, v = .accept := by
  induction vs with
  | nil => simp [firstBad]
  | cons w ws ih =>
    cases w with
    | accept => simp [firstBad, ih]
    | reject s => simp [firstBad]
    | panic s => simp [firstBad]

theorem ensure_accept_iff (b : Bool) : ensure b = .accept ↔ b = true := by
  cases b <;> simp [ensure]

theorem firstBad_ensure_no_panic (vs : List Verdict) (h : ∀ v ∈ vs, ∀ s, v ≠ .panic s) (s : String) :
    firstBad vs ≠ .panic s := by
  induction vs with
  | nil => simp [firstBad]
  | cons w ws ih =>
    cases w with
    | accept => simp only [firstBad]; exact ih fun v hv => h v (List.mem_cons_of_mem _ hv)
    | reject t => simp [firstBad]
    | panic t => exact absurd rfl (h _ List.mem_cons_self t)

/-- what `check_lookup_options` establishes -/
def AuxOK (a : Air) (c : Config) (p : Proof) (nlc nh nz : Nat) : Prop :=
  if (a.usesLookups || a.requiresCtls) = true then
    ∃ cap aux auxNext, p.auxCap = some cap ∧ p.openings.auxPolys = some aux ∧
      p.openings.auxPolysNext = some auxNext ∧ cap.length = 2 ^ c.fri.capHeight ∧
      aux.length = nlc + nh + nz ∧ auxNext.length = nlc + nh + nz ∧
      ∀ zs, p.openings.ctlZsFirst = some zs → zs.length = nz
  else p.auxCap = none ∧ p.openings.auxPolys = none ∧ p.openings.auxPolysNext = none

theorem checkLookupOptions_accept_iff (a : Air) (c : Config) (p : Proof) (nlc nh nz : Nat) :
    (∀ v ∈ checkLookupOptions a c p nlc nh nz, v = .accept) ↔ AuxOK a c p nlc nh nz := by
  unfold checkLookupOptions AuxOK
  by_cases hu : (a.usesLookups || a.requiresCtls) = true
  · simp only [hu, if_true]
    cases h1 : p.auxCap <;> cases h2 : p.openings.auxPolys <;> cases h3 : p.openings.auxPolysNext <;>
      simp only [List.mem_singleton, forall_eq, reduceCtorEq, false_and, exists_false, and_false]
    rename_i cap aux auxNext
    cases h4 : p.openings.ctlZsFirst
    · simp [ensure_accept_iff]
    · simp only [List.mem_cons, List.not_mem_nil, or_false, forall_eq_or_imp, forall_eq,
        ensure_accept_iff, beq_iff_eq, Option.some.injEq, exists_and_left, exists_eq_left']
      constructor
      · rintro ⟨h, h5, h6, h7⟩; exact ⟨h5, h6, h7, fun zs e => e ▸ h⟩
      · rintro ⟨h5, h6, h7, h⟩; exact ⟨h _ rfl, h5, h6, h7⟩
  · simp only [hu, if_false, Bool.false_eq_true]
    simp [ensure_accept_iff]

/-- everything `validate_proof_shape` establishes (`nlc` = `num_lookup_helper_columns`) -/
def ShapeOK (a : Air) (c : Config) (pp : ProofWithPis) (db nh nz : Nat) : Prop :=
  pp.publicInputs.length = a.pis ∧
  (∃ fp, c.friParams db = some fp) ∧
  ∃ nlc, numLookupHelperColumns a c = some nlc ∧
    pp.proof.traceCap.length = 2 ^ c.fri.capHeight ∧
    pp.proof.quotientCap.isSome = decide (0 < numQuotientPolys a c) ∧
    (∀ q, pp.proof.quotientCap = some q → q.length = 2 ^ c.fri.capHeight) ∧
    pp.proof.openings.ctlZsFirst.isSome = a.requiresCtls ∧
    pp.proof.openings.localValues.length = a.cols ∧
    pp.proof.openings.nextValues.length = a.cols ∧
    pp.proof.openings.quotientPolys.isSome = decide (0 < numQuotientPolys a c) ∧
    (pp.proof.openings.quotientPolys.getD []).length = numQuotientPolys a c ∧
    AuxOK a c pp.proof nlc nh nz

theorem quotientCap_check_iff (a : Air) (c : Config) (qc : Option (List Merkle.Digest)) :
    (match qc with
      | none => if quotientCapMustMatch then ensure (numQuotientPolys a c == 0) else .accept
      | some q =>
        if quotientCapMustMatch && numQuotientPolys a c == 0 then .reject "shape"
        else ensure (q.length == 2 ^ c.fri.capHeight)) = Verdict.accept ↔
    (qc.isSome = decide (0 < numQuotientPolys a c) ∧ ∀ q, qc = some q → q.length = 2 ^ c.fri.capHeight) := by
  cases qc with
  | none => simp [quotientCapMustMatch, ensure_accept_iff]
  | some q =>
    by_cases hn : numQuotientPolys a c = 0
    · simp [quotientCapMustMatch, hn]
    · simp [quotientCapMustMatch, hn, ensure_accept_iff]; omega

theorem quotientPolys_check_iff (a : Air) (c : Config) (qp : Option (List GL2)) :
    (match qp with
      | some q => ensure (0 < numQuotientPolys a c && q.length == numQuotientPolys a c)
      | none => ensure (numQuotientPolys a c == 0)) = Verdict.accept ↔
    (qp.isSome = decide (0 < numQuotientPolys a c) ∧ (qp.getD []).length = numQuotientPolys a c) := by
  cases qp with
  | none => simp [ensure_accept_iff]; omega
  | some q => simp [ensure_accept_iff]

theorem validateShape_accept_iff (a : Air) (c : Config) (pp : ProofWithPis) (db nh nz : Nat) :
    validateShape a c pp db nh nz = .accept ↔ ShapeOK a c pp db nh nz := by
  unfold validateShape ShapeOK
  by_cases hp : pp.publicInputs.length = a.pis
  · simp only [hp, ne_eq, not_true_eq_false, if_false, true_and]
    cases hf : c.friParams db with
    | none => simp
    | some fp =>
      cases hl : numLookupHelperColumns a c with
      | none => simp
      | some nlc =>
        simp only [firstBad_accept_iff, List.mem_append, List.mem_cons, List.not_mem_nil, or_false,
          or_imp, forall_and, forall_eq, checkLookupOptions_accept_iff,
          ensure_accept_iff, ctlZsFirstMustMatch, if_true, beq_iff_eq,
          Option.some.injEq, exists_eq_left', exists_eq', true_and, and_assoc]
        constructor
        · rintro ⟨h1, h2, h3, h4, h5, h6, h7⟩
          have h2' := (quotientCap_check_iff a c _).1 h2
          have h6' := (quotientPolys_check_iff a c _).1 h6
          exact ⟨h1, h2'.1, h2'.2, h3, h4, h5, h6'.1, h6'.2, h7⟩
        · rintro ⟨h1, h2, h2', h3, h4, h5, h6, h6', h7⟩
          exact ⟨h1, (quotientCap_check_iff a c _).2 ⟨h2, h2'⟩, h3, h4, h5,
            (quotientPolys_check_iff a c _).2 ⟨h6, h6'⟩, h7⟩
  · simp [hp]

/-! ### the decision logic after shape validation -/

theorem gl2_beq_iff (x y : GL2) : (x == y) = true ↔ x = y := by
  cases x; cases y
  show (_ == _ && _ == _) = true ↔ _
  simp only [Bool.and_eq_true, beq_iff_eq, GL2.mk.injEq]

/-- the lookup variables `verify_stark_proof_with_challenges` hands to `eval_vanishing_poly`
(the inline `let lookupVars` of the model) -/
def lookupVarsOf (a : Air) (ch : Challenges) (o : OpeningSet) (nlc : Nat) :
    Except String (Option (List GL2 × List GL2 × List GL)) :=
  if a.usesLookups then
    match ch.lookupSet, o.auxPolys, o.auxPolysNext with
    | some ls, some aux, some auxNext =>
      if aux.length < nlc ∨ auxNext.length < nlc then .error "aux slice" else
      .ok (some (aux.take nlc, auxNext.take nlc, ls.map (·.1)))
    | _, _, _ => .error "unwrap"
  else .ok none

/-- the chunks of quotient openings, one per challenge -/
def quotientChunks (a : Air) (o : OpeningSet) : List (List GL2) :=
  match o.quotientPolys with
  | some q => chunksOf a.quotientDegreeFactor q
  | none => []

/-- the Merkle caps handed to the FRI verifier -/
def friCaps (p : Proof) : List (List Merkle.Digest) :=
  [p.traceCap] ++ p.auxCap.toList ++ p.quotientCap.toList

theorem identity_accept_iff (chunks : List (List GL2)) (vanishing : List GL2) (zH zpd : GL2) :
    firstBad ((chunks.zipIdx).map fun (chunk, i) =>
      match vanishing[i]? with
      | none => Verdict.panic "vanishing_polys_zeta index"
      | some v => if v == zH * Fri.reduceExt chunk zpd then Verdict.accept else Verdict.reject "identity")
      = .accept ↔
    ∀ (i : Nat) (chunk : List GL2), chunks[i]? = some chunk → vanishing[i]? = some (zH * Fri.reduceExt chunk zpd) := by
  rw [firstBad_accept_iff]
  simp only [List.mem_map, forall_exists_index, and_imp, Prod.forall, List.mem_zipIdx_iff_getElem?]
  constructor
  · intro h i chunk hc
    have := h _ chunk i hc rfl
    cases hv : vanishing[i]? with
    | none => simp [hv] at this
    | some v =>
      simp only [hv] at this
      split at this
      · rename_i he; rw [(gl2_beq_iff _ _).1 he]
      · cases this
  · intro h v chunk i hc hv
    rw [← hv, h i chunk hc]
    exact if_pos ((gl2_beq_iff _ _).2 rfl)

theorem identityThenFri_accept_iff (a : Air) (c : Config) (pp : ProofWithPis) (ch : Challenges)
    (vanishing : List GL2) (zpd zH : GL2) (nlc : Nat) (fp : Fri.FriParams) (db nh nz : Nat) :
    verifyWithChallenges.identityThenFri a c pp ch vanishing zpd zH a.quotientDegreeFactor nlc fp db nh nz
      = .accept ↔
    (∀ (i : Nat) (chunk : List GL2), (quotientChunks a pp.proof.openings)[i]? = some chunk →
        vanishing[i]? = some (zH * Fri.reduceExt chunk zpd)) ∧
    pp.proof.openingProof.commitCaps.length = fp.arityBits.length ∧ fp.totalArities ≤ db ∧
    Fri.verify (friInstance a c ch.zeta (GL.primitiveRoot db) nlc nh nz) pp.proof.openings.toFriOpenings
      ch.fri (friCaps pp.proof) pp.proof.openingProof fp = .accept := by
  unfold verifyWithChallenges.identityThenFri
  simp only []
  rw [← identity_accept_iff]
  split
  · rename_i hid
    have hid' : firstBad _ = Verdict.accept := hid
    simp only [quotientChunks, friCommitCapsCountChecked, Bool.true_and, bne_iff_ne, ne_eq,
      ite_not, friCaps]
    by_cases h1 : pp.proof.openingProof.commitCaps.length = fp.arityBits.length
    · by_cases h2 : db < fp.totalArities
      · simp only [h1, h2, if_true, reduceCtorEq, true_and, false_iff, not_and]
        intro _ hle; omega
      · simp only [h1, h2, if_true, if_false, true_and, Nat.le_of_not_lt h2]
        exact ⟨fun h => ⟨hid', h⟩, fun h => h.2⟩
    · simp [h1]
  · rename_i v hv
    constructor
    · intro h; exact absurd h (hv · )
    · intro h; exact absurd h.1 hv

/-- `num_ctl_z_polys` as `verify_stark_proof_with_challenges` computes it -/
def ctlZsCount (ctlVars : Option (List CtlVars)) : Nat := (ctlVars.map (·.length)).getD 0
/-- `num_ctl_polys` (helper columns) as `verify_stark_proof_with_challenges` computes it -/
def ctlHelpersCount (ctlVars : Option (List CtlVars)) : Nat :=
  (ctlVars.map fun cv => cv.foldl (fun acc v => acc + v.helperColumns.length) 0).getD 0

theorem frameCheck_of_shape (a : Air) (c : Config) (pp : ProofWithPis) (db nh nz : Nat)
    (h : validateShape a c pp db nh nz = .accept) :
    frameCheck a pp.proof.openings.localValues pp.proof.openings.nextValues pp.publicInputs = .ok () := by
  rw [validateShape_accept_iff] at h
  obtain ⟨h1, _, nlc, _, _, _, _, _, h2, h3, _⟩ := h
  unfold frameCheck
  rw [if_pos ⟨h2, h3, h1⟩]

/-- after the repair of the `chunks(0)` panic: shape validation accepts quotient openings only for
an AIR with quotient polynomials, so `quotient_degree_factor ≠ 0` whenever they are present -/
theorem qdf_ne_zero_of_shape (a : Air) (c : Config) (pp : ProofWithPis) (db nh nz : Nat)
    (h : validateShape a c pp db nh nz = .accept) (hq : pp.proof.openings.quotientPolys.isSome = true) :
    a.quotientDegreeFactor ≠ 0 := by
  rw [validateShape_accept_iff] at h
  obtain ⟨_, _, nlc, _, _, _, _, _, _, _, h2, _⟩ := h
  rw [hq] at h2
  have : 0 < numQuotientPolys a c := by simpa using h2.symm
  intro h0
  simp [numQuotientPolys, h0] at this

/-- everything `verify_stark_proof_with_challenges` does after shape validation, as a proposition -/
def AfterShape (a : Air) (c : Config) (pp : ProofWithPis) (ch : Challenges)
    (ctlVars : Option (List CtlVars)) (db : Nat) : Prop :=
  ∃ s nlc fp lv vanishing,
    consumerAt ch.alphas db ch.zeta = .ok s ∧
    numLookupHelperColumns a c = some nlc ∧ c.friParams db = some fp ∧
    lookupVarsOf a ch pp.proof.openings nlc = .ok lv ∧
    evalVanishingPoly a pp.proof.openings.localValues pp.proof.openings.nextValues pp.publicInputs lv
      ctlVars s = some vanishing ∧
    (∀ (i : Nat) (chunk : List GL2), (quotientChunks a pp.proof.openings)[i]? = some chunk →
      vanishing[i]? = some ((FOps.pow ch.zeta (2 ^ db) - FOps.one) *
        Fri.reduceExt chunk (FOps.pow ch.zeta (2 ^ db)))) ∧
    pp.proof.openingProof.commitCaps.length = fp.arityBits.length ∧ fp.totalArities ≤ db ∧
    Fri.verify (friInstance a c ch.zeta (GL.primitiveRoot db) nlc (ctlHelpersCount ctlVars)
        (ctlZsCount ctlVars)) pp.proof.openings.toFriOpenings ch.fri (friCaps pp.proof)
      pp.proof.openingProof fp = .accept

theorem verifyWithChallenges_accept_iff (a : Air) (c : Config) (pp : ProofWithPis) (ch : Challenges)
    (ctlVars : Option (List CtlVars)) :
    verifyWithChallenges a c pp ch ctlVars = .accept ↔
      ∃ db, recoverDegreeBits pp.proof c = .ok db ∧
        validateShape a c pp db (ctlHelpersCount ctlVars) (ctlZsCount ctlVars) = .accept ∧
        AfterShape a c pp ch ctlVars db := by
  unfold verifyWithChallenges
  simp only []
  cases hdb : recoverDegreeBits pp.proof c with
  | error e => simp
  | ok db =>
    simp only [Except.ok.injEq, exists_eq_left']
    change (match validateShape a c pp db (ctlHelpersCount ctlVars) (ctlZsCount ctlVars) with
      | .accept => _ | v => v) = _ ↔ _
    cases hs : validateShape a c pp db (ctlHelpersCount ctlVars) (ctlZsCount ctlVars) with
    | reject e => simp
    | panic e => simp
    | accept =>
      simp only [true_and, frameCheck_of_shape a c pp db _ _ hs]
      unfold AfterShape
      cases hc : consumerAt ch.alphas db ch.zeta with
      | error e => simp
      | ok s =>
        cases hn : numLookupHelperColumns a c with
        | none => simp
        | some nlc =>
          cases hf : c.friParams db with
          | none => simp
          | some fp =>
            simp only [Except.ok.injEq, Option.some.injEq, exists_eq_left', exists_and_left]
            change (match lookupVarsOf a ch pp.proof.openings nlc with
              | .error e => Verdict.panic e | .ok lv => _) = _ ↔ _
            cases hl : lookupVarsOf a ch pp.proof.openings nlc with
            | error e => simp
            | ok lv =>
              simp only [Except.ok.injEq, exists_eq_left']
              cases hv : evalVanishingPoly a pp.proof.openings.localValues pp.proof.openings.nextValues
                  pp.publicInputs lv ctlVars s with
              | none => simp
              | some vanishing =>
                simp only [Option.some.injEq, exists_eq_left']
                cases hq : pp.proof.openings.quotientPolys with
                | none =>
                  simp only []
                  rw [identityThenFri_accept_iff]
                  exact Iff.rfl
                | some q =>
                  have hz := qdf_ne_zero_of_shape a c pp db _ _ hs (by rw [hq]; rfl)
                  simp only [hz, if_false]
                  rw [identityThenFri_accept_iff]
                  exact Iff.rfl

end P2.Lemmas.Stark
